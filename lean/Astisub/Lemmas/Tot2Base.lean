import Astisub.Lemmas.TotBase
import Astisub.Go.Strings

/-!
# Lemmas/Tot2Base — Go `int` index arithmetic for the checked models (second pass)

Go computes `len(l)-1` in `int`: on an empty slice the value is `-1` and the index / slice
expression panics.  Lean's natural-number subtraction would silently turn it into `0`.  The
primitives below take the index as an `Int`, answer the panic for a negative one and otherwise
fall back on the primitives of `TotBase` — so `l[len(l)-1]` on an empty `l` *does* panic here.
-/

namespace Astisub
namespace Tot

/-- `l[i]` for a Go `int` index: negative ⇒ panic -/
def idxI {α} (l : List α) (i : Int) : Chk α := if i < 0 then .error .index else idx l i.toNat

/-- `l[:hi]` for a Go `int` bound: negative ⇒ panic -/
def slcToI {α} (l : List α) (hi : Int) : Chk (List α) := if hi < 0 then .error .slice else slcTo l hi.toNat

/-- `l[lo:hi]` for Go `int` bounds -/
def slcI {α} (l : List α) (lo hi : Int) : Chk (List α) :=
  if lo < 0 ∨ hi < 0 then .error .slice else slc l lo.toNat hi.toNat

/-- `l[len(l)-1]` -/
def lastC {α} (l : List α) : Chk α := idxI l ((l.length : Int) - 1)

/-- `l[:len(l)-1]` -/
def initC {α} (l : List α) : Chk (List α) := slcToI l ((l.length : Int) - 1)

theorem lastC_nil {α} : lastC ([] : List α) = .error .index := rfl
theorem initC_nil {α} : initC ([] : List α) = .error .slice := rfl

theorem lastC_ok {α} {l : List α} (h : l ≠ []) (d : α) : lastC l = .ok (l.getLast?.getD d) := by
  have hl : 0 < l.length := List.length_pos_iff.mpr h
  unfold lastC idxI
  rw [if_neg (by omega)]
  have : ((l.length : Int) - 1).toNat = l.length - 1 := by omega
  rw [this, idx_ok (by omega) d, List.getLast?_eq_getElem?, List.getD_eq_getElem?_getD]

theorem initC_ok {α} {l : List α} (h : l ≠ []) : initC l = .ok l.dropLast := by
  have hl : 0 < l.length := List.length_pos_iff.mpr h
  unfold initC slcToI
  rw [if_neg (by omega)]
  have : ((l.length : Int) - 1).toNat = l.length - 1 := by omega
  rw [this, slcTo_ok (by omega), List.dropLast_eq_take]

theorem slcI_ok {α} {l : List α} {lo hi : Nat} (h1 : lo ≤ hi) (h2 : hi ≤ l.length) :
    slcI l (lo : Int) (hi : Int) = .ok ((l.drop lo).take (hi - lo)) := by
  unfold slcI
  rw [if_neg (by omega)]
  exact slc_ok h1 h2

theorem slcToI_ok {α} {l : List α} {hi : Nat} (h : hi ≤ l.length) : slcToI l (hi : Int) = .ok (l.take hi) := by
  unfold slcToI
  rw [if_neg (by omega)]
  exact slcTo_ok h

theorem idx_cons_zero {α} (a : α) (l : List α) : idx (a :: l) 0 = .ok a := rfl
theorem idx_cons_succ {α} (a : α) (l : List α) (n : Nat) : idx (a :: l) (n + 1) = idx l n := by
  unfold idx; rw [List.getElem?_cons_succ]

/-- `strings.Split` never returns an empty slice -/
theorem splitC_ne_nil (c : Char) : ∀ s : Go.Str, Go.splitC c s ≠ []
  | [] => by simp [Go.splitC]
  | x :: xs => by
    unfold Go.splitC
    split
    · simp
    · split <;> simp

/-! ### loops -/

/-- `for _, a := range l { … f(a) … }` collecting the results; the first panic ends it -/
def mapC {α β} (f : α → Chk β) : List α → Chk (List β)
  | [] => pure []
  | a :: as => do
    let b ← f a
    let bs ← mapC f as
    pure (b :: bs)

theorem mapC_eq {α β} {f : α → Chk β} {g : α → β} (h : ∀ a, f a = .ok (g a)) :
    ∀ l : List α, mapC f l = .ok (l.map g)
  | [] => rfl
  | a :: as => by
    unfold mapC
    rw [h a, mapC_eq h as]
    rfl

theorem mapC_panics {α β} {f : α → Chk β} {a : α} {e : Panic} (h : f a = .error e) (as : List α) :
    mapC f (a :: as) = .error e := by
  unfold mapC
  rw [h]
  rfl

/-! ### maps whose values carry their own key

`WriteToTTML` and `WriteToWebVTT` collect `region.ID` of every *value* of `s.Regions`, sort these strings and
then read `s.Regions[id].ID`, `s.Regions[id].InlineStyle`, … — a map look-up by the value's `ID` field followed
by a dereference.  When every value is stored under its own `ID` the look-up cannot miss; a value stored
under another key makes it miss (nil pointer). -/

/-- `m[id]` then dereference, for every `id` collected from the values -/
def byIdC {α} (idOf : α → Go.Str) (m : List (Go.Str × α)) : Chk (List α) :=
  mapC (fun id => deref (m.lookup id)) (m.map fun p => idOf p.2)

theorem lookup_isSome_of_mem_keys {α} : ∀ (m : List (Go.Str × α)) (k : Go.Str), k ∈ m.map (·.1) → (m.lookup k).isSome
  | [], _, h => by simp at h
  | (k', v) :: m, k, h => by
    unfold List.lookup
    by_cases hk : k = k'
    · subst hk; simp
    · have : (k == k') = false := by simpa using hk
      rw [this]
      simp only [List.map_cons, List.mem_cons] at h
      rcases h with h | h
      · exact absurd h hk
      · exact lookup_isSome_of_mem_keys m k h

/-- every value is stored under its own identifier ⇒ no look-up misses, no panic -/
theorem byIdC_safe {α} (idOf : α → Go.Str) (m : List (Go.Str × α)) (h : ∀ p ∈ m, p.1 = idOf p.2) :
    (byIdC idOf m).safe = true := by
  unfold byIdC
  have : ∀ ids : List Go.Str, (∀ id ∈ ids, id ∈ m.map (·.1)) →
      (mapC (fun id => deref (m.lookup id)) ids).safe = true := by
    intro ids
    induction ids with
    | nil => intro _; rfl
    | cons id rest ih =>
      intro hm
      unfold mapC
      have h1 := lookup_isSome_of_mem_keys m id (hm id (List.mem_cons_self ..))
      cases hl : m.lookup id with
      | none => rw [hl] at h1; cases h1
      | some v =>
        rw [show deref (some v) = Except.ok v from rfl]
        simp only [ok_bind]
        have h2 := ih (fun x hx => hm x (List.mem_cons_of_mem _ hx))
        cases hr : mapC (fun id => deref (m.lookup id)) rest with
        | error e => rw [hr] at h2; cases h2
        | ok bs => rfl
  apply this
  intro id hid
  rw [List.mem_map] at hid ⊢
  obtain ⟨p, hp, rfl⟩ := hid
  exact ⟨p, hp, h p hp⟩

/-- a value stored under a key that is not its identifier, its identifier being no key: nil dereference -/
example : byIdC (fun (v : Go.Str × Nat) => v.1) [("a".toList, ("b".toList, 1))] = .error .nilDeref := by rfl

/-- non-vacuity: the `int` primitives panic where the `Nat` ones would not -/
example : lastC ([] : List Nat) = .error .index := rfl
example : lastC [1, 2, 3] = .ok 3 := rfl
example : initC [1, 2, 3] = .ok [1, 2] := rfl
example : slcI [1, 2, 3] 2 1 = .error .slice := rfl

end Tot
end Astisub
