import Astisub.Lemmas.STLGsi

/-!
# Lemmas/STLFields — what the reader makes of each kind of GSI field the writer fills:
blank-padded text, decimal numbers, dates, the textual timecode
-/

namespace Astisub
namespace C05
open Go STL

/-! ## text fields -/

def graphicB (b : Nat) : Bool := decide (0x21 ≤ b) && decide (b ≤ 0x7E)

/-- a value the field of width `n` can carry: it fits, and it starts and ends with a graphic ASCII character
    (anything in between; the empty value is fine) -/
def fieldOK (n : Nat) (s : Bytes) : Bool := decide (s.length ≤ n) && s.head?.all graphicB && s.getLast?.all graphicB

theorem graphicB_graphic {b : Nat} (h : graphicB b = true) : graphic b := by
  unfold graphicB at h; simp at h; unfold graphic; omega

theorem fieldOK_trim (n : Nat) (s : Bytes) (h : fieldOK n s = true) : trimB (padR 0x20 n s) = s := by
  unfold fieldOK at h
  simp only [Bool.and_eq_true, decide_eq_true_eq] at h
  obtain ⟨⟨h1, h2⟩, h3⟩ := h
  apply field_roundtrip s n h1
  · intro b hb; rw [hb] at h2; exact graphicB_graphic h2
  · intro b hb; rw [hb] at h3; exact graphicB_graphic h3

/-! ## digits -/

def digitByte (b : Nat) : Prop := 0x30 ≤ b ∧ b ≤ 0x39

theorem digitByte_graphic {b : Nat} (h : digitByte b) : graphic b := by
  unfold digitByte at h; unfold graphic; omega

theorem trimB_digits (s : Bytes) (h : ∀ b ∈ s, digitByte b) : trimB s = s := by
  apply trimB_id
  · intro b hb; exact digitByte_graphic (h b (List.mem_of_mem_head? hb))
  · intro b hb; exact digitByte_graphic (h b (List.mem_of_getLast? hb))

theorem digitChar_toNat {k : Nat} (h : k < 10) : (digitChar k).toNat = 48 + k := by
  rcases digitChar_lt h with h|h|h|h|h|h|h|h|h|h <;> subst h <;> decide

theorem ofNat_digitByte {b : Nat} (h : digitByte b) : Char.ofNat b = digitChar (b - 48) := by
  unfold digitByte at h
  unfold digitChar
  congr 1; omega

theorem chars_digitStr (s : Bytes) (h : ∀ b ∈ s, digitByte b) : DigitStr (chars s) := by
  intro c hc
  unfold chars at hc
  obtain ⟨b, hb, rfl⟩ := List.mem_map.mp hc
  have := h b hb
  exact ⟨b - 48, by unfold digitByte at this; omega, ofNat_digitByte this⟩

theorem ascii_digitStr (s : Str) (h : DigitStr s) : ∀ b ∈ ascii s, digitByte b := by
  intro b hb
  unfold ascii at hb
  obtain ⟨c, hc, rfl⟩ := List.mem_map.mp hb
  obtain ⟨k, hk, rfl⟩ := h c hc
  rw [digitChar_toNat hk]; unfold digitByte; omega

theorem chars_ascii (s : Str) : chars (ascii s) = s := by
  unfold chars ascii
  rw [List.map_map]
  conv => rhs; rw [← List.map_id s]
  apply List.map_congr_left
  intro c _
  simp

theorem digitsVal_digitStr (s : Str) (h : DigitStr s) (acc : Nat) :
    ∃ v, digitsVal s acc = some v ∧ v < (acc + 1) * 10 ^ s.length := by
  induction s generalizing acc with
  | nil => exact ⟨acc, rfl, by simp⟩
  | cons c cs ih =>
    obtain ⟨k, hk, rfl⟩ := h c (by simp)
    obtain ⟨v, hv, hlt⟩ := ih (fun x hx => h x (by simp [hx])) (acc * 10 + k)
    refine ⟨v, by simp [digitsVal, digitVal_digitChar hk, hv], ?_⟩
    have h1 : acc * 10 + k + 1 ≤ (acc + 1) * 10 := by omega
    rw [List.length_cons, Nat.pow_succ]
    calc v < (acc * 10 + k + 1) * 10 ^ cs.length := hlt
      _ ≤ (acc + 1) * 10 * 10 ^ cs.length := Nat.mul_le_mul_right _ h1
      _ = (acc + 1) * (10 ^ cs.length * 10) := by rw [Nat.mul_assoc, Nat.mul_comm 10]

theorem atoi_digitStr (s : Str) (h : DigitStr s) (hne : s ≠ []) (hl : s.length ≤ 18) : ∃ v : Nat, atoi s = some (v : Int) := by
  obtain ⟨v, hv, hlt⟩ := digitsVal_digitStr s h 0
  have hpow : 10 ^ s.length ≤ 10 ^ 18 := Nat.pow_le_pow_right (by omega) hl
  have hle : v ≤ int64Max := by unfold int64Max; omega
  cases s with
  | nil => exact absurd rfl hne
  | cons c cs =>
    obtain ⟨k, hk, rfl⟩ := h c (by simp)
    refine ⟨v, ?_⟩
    unfold atoi
    split
    · rename_i r heq; simp at heq; exact absurd heq.1 (by rw [digitChar_ne_minus hk]; exact id)
    · rename_i r heq; simp at heq; exact absurd heq.1 (by rw [digitChar_ne_plus hk]; exact id)
    · simp [parseDigits, hv, hle]

theorem DigitStr_cons {c : Char} {s : Str} (hc : ∃ k, k < 10 ∧ c = digitChar k) (hs : DigitStr s) : DigitStr (c :: s) := by
  intro x hx
  rcases List.mem_cons.mp hx with rfl | hx
  · exact hc
  · exact hs x hx

theorem itoaAux_digitStr (fuel n : Nat) (acc : Str) (h : DigitStr acc) : DigitStr (itoaAux fuel n acc) := by
  induction fuel generalizing n acc with
  | zero => exact h
  | succ f ih =>
    unfold itoaAux
    split
    · rename_i hn; exact DigitStr_cons ⟨n, hn, rfl⟩ h
    · exact ih _ _ (DigitStr_cons ⟨n % 10, by omega, rfl⟩ h)

theorem itoaNat_digitStr (n : Nat) : DigitStr (itoaNat n) :=
  itoaAux_digitStr _ _ _ (by intro c hc; cases hc)

theorem padL_digits (w : Nat) (s : Bytes) (h : ∀ b ∈ s, digitByte b) : ∀ b ∈ padL 0x30 w s, digitByte b := by
  intro b hb
  unfold padL at hb
  have := List.mem_of_mem_take hb
  rcases List.mem_append.mp this with hr | hs
  · rw [List.eq_of_mem_replicate hr]; unfold digitByte; omega
  · exact h b hs

theorem num_digits (w n : Nat) : ∀ b ∈ num w (n : Int), digitByte b := by
  unfold num
  apply padL_digits
  have : itoa (n : Int) = itoaNat n := by unfold itoa; simp
  rw [this]
  exact ascii_digitStr _ (itoaNat_digitStr n)

theorem atoiField_digits (b : Bytes) (h : ∀ x ∈ b, digitByte x) (hne : b ≠ []) (hl : b.length ≤ 18) :
    ∃ v : Nat, atoiField (trimB b) = some (some (v : Int)) := by
  rw [trimB_digits b h]
  have hc : chars b ≠ [] := by unfold chars; simpa using hne
  obtain ⟨v, hv⟩ := atoi_digitStr (chars b) (chars_digitStr b h) hc (by unfold chars; simpa using hl)
  refine ⟨v, ?_⟩
  unfold atoiField
  have : b.isEmpty = false := by cases b <;> simp_all
  rw [this, hv]; rfl

/-- a non-negative number written in a field of 1 to 18 digits is read as *some* number (no error);
    used for the counters the reader checks but does not keep (TNB, TNS, TNG) -/
theorem num_field_parses (w n : Nat) (hw : 1 ≤ w) (hw' : w ≤ 18) :
    ∃ v : Nat, atoiField (trimB (num w (n : Int))) = some (some (v : Int)) := by
  apply atoiField_digits _ (num_digits w n)
  · intro e; have := num_length w (n : Int); rw [e] at this; simp at this; omega
  · rw [num_length]; exact hw'

/-- two-digit numbers, for an `Int` in range -/
theorem num2_int (v : Int) (h0 : 0 ≤ v) (h1 : v < 100) : atoiField (trimB (num 2 v)) = some (some v) := by
  obtain ⟨n, rfl⟩ : ∃ n : Nat, v = (n : Int) := ⟨v.toNat, by omega⟩
  exact num2_roundtrip n (by omega)

/-! ## dates -/

/-- a date `time.Parse("060102", …)` accepts: two-digit year, month 1–12, a day that exists in that month
    (the century is Go's: 69–99 → 19xx, 00–68 → 20xx) -/
def dateOK (d : Date) : Bool :=
  decide (d.yy < 100) && decide (1 ≤ d.mm) && decide (d.mm ≤ 12) && decide (1 ≤ d.dd) &&
  decide (d.dd ≤ daysIn d.mm (if d.yy ≥ 69 then 1900 + d.yy else 2000 + d.yy))

theorem dig_digit (k : Nat) (h : k < 10) : dig (0x30 + k) = some k := by
  unfold dig
  have h1 : (0x30 ≤ 0x30 + k) = True := by simp
  have h2 : (0x30 + k ≤ 0x39) = True := by simp; omega
  simp [h1, h2]

theorem two_digits (n : Nat) : ∀ b ∈ two n, digitByte b := by
  intro b hb
  unfold two at hb
  simp only [List.mem_cons, List.not_mem_nil, or_false] at hb
  unfold digitByte
  rcases hb with rfl | rfl <;> omega

theorem formatDate_digits (d : Date) : ∀ b ∈ formatDate d, digitByte b := by
  intro b hb
  unfold formatDate at hb
  simp only [List.mem_append] at hb
  rcases hb with (hb | hb) | hb <;> exact two_digits _ b hb

theorem parseYear_two (y : Nat) (h : y < 100) :
    parseYear (0x30 + y / 10 % 10) (0x30 + y % 10) = some (if y ≥ 69 then 1900 + y else 2000 + y) := by
  unfold parseYear
  rw [dig_digit _ (by omega)]
  simp only
  have a1 : (0x30 + y / 10 % 10 == 0x2B) = false := by simp; omega
  have a2 : (0x30 + y / 10 % 10 == 0x2D) = false := by simp; omega
  rw [a1, a2, dig_digit _ (by omega)]
  simp only [Bool.false_eq_true, if_false]
  have : 10 * (y / 10 % 10) + y % 10 = y := by omega
  rw [this]

theorem daysIn_le (m y : Nat) : daysIn m y ≤ 31 := by
  unfold daysIn
  split
  · split <;> omega
  · split <;> omega

theorem parseDate_format (d : Date) (h : dateOK d = true) : parseDate (formatDate d) = some d := by
  unfold dateOK at h
  simp only [Bool.and_eq_true, decide_eq_true_eq] at h
  obtain ⟨⟨⟨⟨h1, h2⟩, h3⟩, h4⟩, h5⟩ := h
  have hf : formatDate d = [0x30 + d.yy / 10 % 10, 0x30 + d.yy % 10, 0x30 + d.mm / 10 % 10, 0x30 + d.mm % 10,
      0x30 + d.dd / 10 % 10, 0x30 + d.dd % 10] := rfl
  have hdd : d.dd < 32 := by
    have := daysIn_le d.mm (if d.yy ≥ 69 then 1900 + d.yy else 2000 + d.yy)
    omega
  rw [hf]
  unfold parseDate
  simp only
  rw [parseYear_two _ h1, dig_digit _ (by omega), dig_digit _ (by omega), dig_digit _ (by omega), dig_digit _ (by omega)]
  simp only
  have e1 : 10 * (d.mm / 10 % 10) + d.mm % 10 = d.mm := by omega
  have e2 : 10 * (d.dd / 10 % 10) + d.dd % 10 = d.dd := by omega
  rw [e1, e2]
  have c1 : ¬ ((d.mm == 0) = true ∨ d.mm > 12) := by simp; omega
  have c2 : ¬ (d.dd < 1 ∨ d.dd > daysIn d.mm (if d.yy ≥ 69 then 1900 + d.yy else 2000 + d.yy)) := by omega
  simp only [Bool.or_eq_true, decide_eq_true_eq, c1, c2, if_false]
  have e3 : (if d.yy ≥ 69 then 1900 + d.yy else 2000 + d.yy) % 100 = d.yy := by split <;> omega
  rw [e3]

theorem formatDate_length (d : Date) : (formatDate d).length = 6 := rfl

/-- **GSI dates**: a valid date, written `YYMMDD`, is read back as itself -/
theorem date_roundtrip (d : Date) (h : dateOK d = true) : dateField (trimB (padR 0x20 6 (formatDate d))) = some d := by
  have hp : padR 0x20 6 (formatDate d) = formatDate d := by
    rw [padR_fit _ _ _ (by rw [formatDate_length]; omega), formatDate_length]; simp
  rw [hp, trimB_digits _ (formatDate_digits d)]
  unfold dateField
  have : (formatDate d).isEmpty = false := rfl
  rw [this]
  exact parseDate_format d h

end C05
end Astisub
