import Astisub.Lemmas.STL2Tok
import Astisub.Lemmas.STL2Str
import Astisub.Driver.STL

/-!
# Lemmas/STL2Row — a row made of several runs

The writer emits the runs of a line one after the other, each bracketed by its style codes, with a blank
between two runs.  `lineSegs l` is what the row machine (`Lemmas/STL2Tok.lean`: both readers) makes of that
row.  Main result (`lineSegs_view`): seen as (text, italics, underline, boxing), the runs read are the runs
written with every stretch of adjacent *unstyled* runs joined into one run (`mergePlain`) — and nothing else
changes.  Consequences: equality under `Driver.STLD.mergeRuns` (the view the `stl.write` stream compares),
and exact equality when no two unstyled runs are adjacent.
-/

namespace Astisub
namespace C05
open Go STL

/-! ## the tokens of a line -/

def runToks (r : RRun) : List Tok := r.preCodes.map Tok.code ++ (r.units.map Tok.unit ++ r.postCodes.map Tok.code)

/-- the blank the writer puts between two runs -/
def spaceU : Unit := charUnit (0x20, [0x20])

theorem spaceU_rep : RepUnit spaceU := RepUnit.ch _ (by decide +kernel)

def sepRun (r : RRun) : List Tok := Tok.unit spaceU :: runToks r

def lineToks : List RRun → List Tok
  | [] => []
  | r :: rs => runToks r ++ rs.flatMap sepRun

/-- the bytes of a line in the text field -/
def lineBytes (l : List RRun) : Bytes := joinN [0x20] (l.map RRun.bytes)

/-- **the runs both readers return for the line** (text trimmed, style as the readers keep it) -/
def lineSegs (l : List RRun) : List Seg := absEnd (absFold AS.init (lineToks l))

theorem joinN_cons (sep a : List Nat) (rs : List (List Nat)) : joinN sep (a :: rs) = a ++ rs.flatMap (sep ++ ·) := by
  induction rs generalizing a with
  | nil => simp [joinN]
  | cons b rs ih => rw [joinN, ih b]; simp [List.flatMap_cons]

theorem flatMap_code_bytes (cs : Bytes) : (cs.map Tok.code).flatMap Tok.bytes = cs := by
  induction cs with
  | nil => rfl
  | cons c cs ih => simp [Tok.bytes, List.flatMap_cons] at ih ⊢; exact ih

theorem flatMap_unit_bytes (us : List Unit) : (us.map Tok.unit).flatMap Tok.bytes = us.flatMap (·.bytes) := by
  induction us with
  | nil => rfl
  | cons u us ih => simp [Tok.bytes, List.flatMap_cons] at ih ⊢; exact ih

theorem runToks_bytes (r : RRun) : (runToks r).flatMap Tok.bytes = r.bytes := by
  unfold runToks RRun.bytes
  rw [List.flatMap_append, List.flatMap_append, flatMap_code_bytes, flatMap_code_bytes, flatMap_unit_bytes]

theorem lineToks_bytes (l : List RRun) : (lineToks l).flatMap Tok.bytes = lineBytes l := by
  cases l with
  | nil => rfl
  | cons r rs =>
    unfold lineBytes lineToks
    rw [List.map_cons, joinN_cons, List.flatMap_append, runToks_bytes]
    congr 1
    induction rs with
    | nil => rfl
    | cons r2 rs ih =>
      rw [List.flatMap_cons, List.flatMap_append, ih, List.map_cons, List.flatMap_cons]
      congr 1
      unfold sepRun
      rw [List.flatMap_cons, runToks_bytes]
      rfl

theorem runToks_ok (r : RRun) (h : ∀ u ∈ r.units, RepUnit u) : ∀ t ∈ runToks r, t.ok := by
  intro t ht
  unfold runToks at ht
  simp only [List.mem_append, List.mem_map] at ht
  rcases ht with ⟨c, hc, rfl⟩ | ⟨u, hu, rfl⟩ | ⟨c, hc, rfl⟩
  · exact r.preCodes_isCode c hc
  · exact h u hu
  · exact r.postCodes_isCode c hc

theorem lineToks_ok (l : List RRun) (h : ∀ r ∈ l, ∀ u ∈ r.units, RepUnit u) : ∀ t ∈ lineToks l, t.ok := by
  cases l with
  | nil => intro t ht; cases ht
  | cons r rs =>
    intro t ht
    unfold lineToks at ht
    rcases List.mem_append.mp ht with ht | ht
    · exact runToks_ok r (h r (by simp)) t ht
    · obtain ⟨r2, hr2, ht2⟩ := List.mem_flatMap.mp ht
      unfold sepRun at ht2
      rcases List.mem_cons.mp ht2 with rfl | ht2
      · exact spaceU_rep
      · exact runToks_ok r2 (h r2 (by simp [hr2])) t ht2

/-! ## the machine on the tokens of one run -/

theorem str_append (a b : List Nat) : str (a ++ b) = str a ++ str b := by unfold str; simp

theorem absFold_units (us : List Unit) (a : AS) :
    absFold a (us.map Tok.unit) = { a with t := a.t ++ str (us.flatMap (·.text)) } := by
  induction us generalizing a with
  | nil => simp [absFold_nil, str]
  | cons u us ih =>
    rw [List.map_cons, absFold_cons, ih]
    simp [absStep, List.flatMap_cons, str_append]

theorem absFold_codes (c : Nat) (cs : List Nat) (a : AS) :
    absFold a ((c :: cs).map Tok.code) = { out := a.out ++ close a.t a.s, t := [], s := (c :: cs).foldl setO3 a.s } := by
  induction cs generalizing a c with
  | nil => rfl
  | cons c' cs ih =>
    rw [List.map_cons, absFold_cons, ih]
    simp [absStep, close_nil]

abbrev B3 := Bool × Bool × Bool
def plain3 : B3 := (false, false, false)

/-- the effective style of a run: an attribute counts only when it is on -/
def eff (s : O3) : B3 := (s.1 == some true, s.2.1 == some true, s.2.2 == some true)

def RRun.flags (r : RRun) : B3 := (r.italics, r.underline, r.boxing)

theorem plain_codes (r : RRun) (h : r.flags = plain3) : r.preCodes = [] ∧ r.postCodes = [] := by
  obtain ⟨us, i, u, b⟩ := r
  simp only [RRun.flags, plain3, Prod.mk.injEq] at h
  obtain ⟨rfl, rfl, rfl⟩ := h
  exact ⟨rfl, rfl⟩

theorem styled_codes (r : RRun) (s : O3) (hs : eff s = plain3) (hst : r.flags ≠ plain3) :
    ∃ c cs d ds, r.preCodes = c :: cs ∧ r.postCodes = d :: ds ∧ eff ((c :: cs).foldl setO3 s) = r.flags ∧
      eff ((d :: ds).foldl setO3 ((c :: cs).foldl setO3 s)) = plain3 := by
  obtain ⟨us, i, u, b⟩ := r
  obtain ⟨s1, s2, s3⟩ := s
  simp only [eff, plain3, Prod.mk.injEq] at hs
  obtain ⟨h1, h2, h3⟩ := hs
  cases i <;> cases u <;> cases b <;>
    first
    | exact absurd rfl hst
    | exact ⟨_, _, _, _, rfl, rfl, by simp [eff, setO3, RRun.flags, h1, h2, h3], by simp [eff, setO3, plain3, h1, h2, h3]⟩

/-! ## the pending text between two runs -/

/-- trimmed and not empty -/
abbrev Tr (x : Str) : Prop := Edges isSpace x

theorem Tr_of (x : Str) (h : trimSpace x = x) (hne : x ≠ []) : Tr x := edges_of_fixed isSpace x h hne

def Inv1 (t body : Str) : Prop := (body = [] ∧ allP isSpace t) ∨ (Tr body ∧ ∃ p, allP isSpace p ∧ t = p ++ body)
def Inv2 (t body : Str) : Prop := (body = [] ∧ allP isSpace t) ∨ (Tr body ∧ ∃ p, allP isSpace p ∧ t = p ++ body ++ [' '])

theorem allP_space : allP isSpace [' '] := by intro c hc; simp at hc; subst hc; decide

theorem inv1_trim {t body : Str} (h : Inv1 t body) : trimSpace t = body := by
  rcases h with ⟨rfl, h⟩ | ⟨hb, p, hp, rfl⟩
  · exact trimBoth_all isSpace t h
  · have := trimBoth_pad isSpace p body [] hp (allP_nil _) hb
    rwa [List.append_nil] at this

theorem inv2_trim {t body : Str} (h : Inv2 t body) : trimSpace t = body := by
  rcases h with ⟨rfl, h⟩ | ⟨hb, p, hp, rfl⟩
  · exact trimBoth_all isSpace t h
  · exact trimBoth_pad isSpace p body [' '] hp allP_space hb

theorem inv1_sep {t body : Str} (h : Inv1 t body) : Inv2 (t ++ [' ']) body := by
  rcases h with ⟨rfl, h⟩ | ⟨hb, p, hp, rfl⟩
  · exact Or.inl ⟨rfl, allP_append h allP_space⟩
  · exact Or.inr ⟨hb, p, hp, rfl⟩

theorem inv2_plain {t body x : Str} (h : Inv2 t body) (hx : Tr x) :
    Inv1 (t ++ x) (if body = [] then x else body ++ ' ' :: x) := by
  rcases h with ⟨rfl, h⟩ | ⟨hb, p, hp, rfl⟩
  · rw [if_pos rfl]; exact Or.inr ⟨hx, t, h, rfl⟩
  · rw [if_neg hb.ne_nil]
    refine Or.inr ⟨?_, p, hp, by simp⟩
    have := Edges.append hb [' '] hx
    simpa using this

theorem close_inv (t body : Str) (s : O3) (h : trimSpace t = body) :
    close t s = if body = [] then [] else [(body, s)] := by
  unfold close; rw [h]

/-! ## adjacent unstyled runs become one run -/

/-- `body`: the unstyled text collected so far (empty = none) -/
def mpAux (body : Str) : List (Str × B3) → List (Str × B3)
  | [] => if body = [] then [] else [(body, plain3)]
  | x :: rest =>
    if x.2 = plain3 then mpAux (if body = [] then x.1 else body ++ ' ' :: x.1) rest
    else (if body = [] then [] else [(body, plain3)]) ++ x :: mpAux [] rest

/-- **what reading does to the runs of a line**: every stretch of adjacent unstyled runs becomes one run, the
    texts joined by a blank (in the file nothing but that blank separates them); styled runs are kept -/
def mergePlain (l : List (Str × B3)) : List (Str × B3) := mpAux [] l

def ev (g : Seg) : Str × B3 := (g.1, eff g.2)
def wv (r : RRun) : Str × B3 := (str r.text, r.flags)

theorem runStep_view (a : AS) (body : Str) (r : RRun) (hinv : Inv2 a.t body) (hs : eff a.s = plain3)
    (hx : Tr (str r.text)) :
    ∃ body', Inv1 (absFold a (runToks r)).t body' ∧ eff (absFold a (runToks r)).s = plain3 ∧
      ∀ rest, (absFold a (runToks r)).out.map ev ++ mpAux body' rest = a.out.map ev ++ mpAux body (wv r :: rest) := by
  by_cases hp : r.flags = plain3
  · obtain ⟨e1, e2⟩ := plain_codes r hp
    have hf : absFold a (runToks r) = { a with t := a.t ++ str r.text } := by
      unfold runToks
      rw [e1, e2, List.map_nil, List.nil_append, List.append_nil, absFold_units]
      rfl
    rw [hf]
    refine ⟨_, inv2_plain hinv hx, hs, ?_⟩
    intro rest
    have : (wv r).2 = plain3 := hp
    rw [mpAux, if_pos this]
    rfl
  · obtain ⟨c, cs, d, ds, e1, e2, h1, h2⟩ := styled_codes r a.s hs hp
    have hf : absFold a (runToks r) =
        { out := a.out ++ close a.t a.s ++ close (str r.text) ((c :: cs).foldl setO3 a.s), t := [],
          s := (d :: ds).foldl setO3 ((c :: cs).foldl setO3 a.s) } := by
      unfold runToks
      rw [e1, e2, absFold_append, absFold_append, absFold_codes, absFold_units, absFold_codes]
      simp [RRun.text]
    rw [hf]
    refine ⟨[], Or.inl ⟨rfl, allP_nil _⟩, h2, ?_⟩
    intro rest
    have hw : (wv r).2 ≠ plain3 := hp
    have hc1 := close_inv a.t body a.s (inv2_trim hinv)
    have hc2 : close (str r.text) ((c :: cs).foldl setO3 a.s) = [(str r.text, (c :: cs).foldl setO3 a.s)] := by
      rw [close_inv _ (str r.text) _ (by rw [trimSpace_eq]; exact trimBoth_id isSpace _ hx), if_neg hx.ne_nil]
    rw [mpAux, if_neg hw, hc1, hc2]
    simp only [List.map_append, List.append_assoc]
    congr 1
    simp only [List.foldl_cons] at h1
    by_cases hb : body = []
    · simp [hb, ev, wv, h1]
    · simp [hb, ev, wv, h1, hs]

theorem absFold_sep (a : AS) : absFold a [Tok.unit spaceU] = { a with t := a.t ++ [' '] } := rfl

theorem lineSegs_view_aux (rs : List RRun) (h : ∀ r ∈ rs, Tr (str r.text)) (a : AS) (body : Str)
    (hinv : Inv1 a.t body) (hs : eff a.s = plain3) :
    (absEnd (absFold a (rs.flatMap sepRun))).map ev = a.out.map ev ++ mpAux body (rs.map wv) := by
  induction rs generalizing a body with
  | nil =>
    simp only [List.flatMap_nil, absFold_nil, absEnd, List.map_nil, mpAux, List.map_append]
    rw [close_inv a.t body a.s (inv1_trim hinv)]
    by_cases hb : body = []
    · simp [hb]
    · simp [hb, ev, hs]
  | cons r rs ih =>
    have e : (r :: rs).flatMap sepRun = [Tok.unit spaceU] ++ (runToks r ++ rs.flatMap sepRun) := by
      rw [List.flatMap_cons]; rfl
    rw [e, absFold_append, absFold_append, absFold_sep]
    obtain ⟨body', hi', hs', hv⟩ := runStep_view { a with t := a.t ++ [' '] } body r (inv1_sep hinv) hs (h r (by simp))
    rw [ih (fun x hx => h x (by simp [hx])) _ body' hi' hs', List.map_cons]
    exact hv _

/-- **the runs read back, seen as (text, italics, underline, boxing)**: the runs written, with adjacent
    unstyled runs joined -/
theorem lineSegs_view (l : List RRun) (h : ∀ r ∈ l, Tr (str r.text)) :
    (lineSegs l).map ev = mergePlain (l.map wv) := by
  cases l with
  | nil => rfl
  | cons r rs =>
    unfold lineSegs lineToks mergePlain
    rw [absFold_append]
    obtain ⟨body', hi', hs', hv⟩ := runStep_view AS.init [] r (Or.inl ⟨rfl, allP_nil _⟩) rfl (h r (by simp))
    rw [lineSegs_view_aux rs (fun x hx => h x (by simp [hx])) _ body' hi' hs', List.map_cons]
    have := hv (rs.map wv)
    simpa [AS.init] using this

/-! ## `mergePlain` against `Driver.STLD.mergeRuns` -/

open Driver.STLD in
theorem mergeRuns_eq (a b : Str × B3) (rest : List (Str × B3)) (h : a.2 = b.2) :
    mergeRuns (a :: b :: rest) = mergeRuns ((a.1 ++ ' ' :: b.1, a.2) :: rest) := by
  rw [mergeRuns.eq_1, if_pos (by simp [h])]

open Driver.STLD in
theorem mergeRuns_ne (a b : Str × B3) (rest : List (Str × B3)) (h : a.2 ≠ b.2) :
    mergeRuns (a :: b :: rest) = a :: mergeRuns (b :: rest) := by
  rw [mergeRuns.eq_1, if_neg (by simpa using h)]

open Driver.STLD in
theorem mergeRuns_one (a : Str × B3) : mergeRuns [a] = [a] := by
  rw [mergeRuns.eq_2]; intro a b rest h; simp at h

open Driver.STLD in
theorem mergeRuns_nil : mergeRuns ([] : List (Str × B3)) = [] := by
  rw [mergeRuns.eq_2]; intro a b rest h; simp at h

open Driver.STLD in
/-- merging is insensitive to merging the tail first -/
theorem mergeRuns_tail (n : Nat) : ∀ (l : List (Str × B3)) (x : Str × B3), l.length ≤ n →
    mergeRuns (x :: l) = mergeRuns (x :: mergeRuns l) := by
  induction n with
  | zero =>
    intro l x hl
    have : l = [] := List.length_eq_zero_iff.mp (by omega)
    subst this; rw [mergeRuns_nil]
  | succ n ih =>
    intro l x hl
    match l, hl with
    | [], _ => rw [mergeRuns_nil]
    | [b], _ => rw [mergeRuns_one]
    | b :: c :: rest, hl =>
      simp only [List.length_cons] at hl
      by_cases hbc : b.2 = c.2
      · rw [mergeRuns_eq b c rest hbc, ← ih ((b.1 ++ ' ' :: c.1, b.2) :: rest) x (by simp; omega)]
        by_cases hxb : x.2 = b.2
        · rw [mergeRuns_eq x b _ hxb, mergeRuns_eq _ c rest (by simpa [hxb] using hbc), mergeRuns_eq x (b.1 ++ ' ' :: c.1, b.2) rest hxb]
          simp
        · rw [mergeRuns_ne x b _ hxb, mergeRuns_eq b c rest hbc, mergeRuns_ne x (b.1 ++ ' ' :: c.1, b.2) rest hxb]
      · rw [mergeRuns_ne b c rest hbc]
        by_cases hxb : x.2 = b.2
        · rw [mergeRuns_eq x b _ hxb, mergeRuns_eq x b _ hxb, ← ih (c :: rest) _ (by simp; omega)]
        · rw [mergeRuns_ne x b _ hxb, mergeRuns_ne x b _ hxb, ← ih (c :: rest) b (by simp; omega)]

open Driver.STLD in
theorem mergeRuns_congr (x : Str × B3) (l l' : List (Str × B3)) (h : mergeRuns l = mergeRuns l') :
    mergeRuns (x :: l) = mergeRuns (x :: l') := by
  rw [mergeRuns_tail l.length l x (Nat.le_refl _), h, ← mergeRuns_tail l'.length l' x (Nat.le_refl _)]

open Driver.STLD in
theorem mergeRuns_mpAux (l : List (Str × B3)) (hne : ∀ x ∈ l, x.1 ≠ []) (body : Str) :
    mergeRuns (mpAux body l) = mergeRuns ((if body = [] then [] else [(body, plain3)]) ++ l) := by
  induction l generalizing body with
  | nil => simp [mpAux]
  | cons x rest ih =>
    have hx := hne x (by simp)
    have hrest : ∀ y ∈ rest, y.1 ≠ [] := fun y hy => hne y (by simp [hy])
    obtain ⟨xt, xs⟩ := x
    rw [mpAux]
    by_cases hp : xs = plain3
    · subst hp
      rw [if_pos rfl, ih hrest]
      by_cases hb : body = []
      · simp only [hb, if_true, List.nil_append]
        rw [if_neg hx]; rfl
      · simp only [hb, if_false]
        rw [if_neg (by simp), List.singleton_append, List.singleton_append, mergeRuns_eq (body, plain3) (xt, plain3) rest rfl]
    · rw [if_neg hp]
      have hcons : mergeRuns ((xt, xs) :: mpAux [] rest) = mergeRuns ((xt, xs) :: rest) := by
        apply mergeRuns_congr
        rw [ih hrest]; simp
      by_cases hb : body = []
      · simp only [hb, if_true, List.nil_append]
        exact hcons
      · simp only [hb, if_false, List.singleton_append]
        have hne' : (body, plain3).2 ≠ (xt, xs).2 := fun e => hp e.symm
        rw [mergeRuns_ne _ _ _ hne', mergeRuns_ne _ _ _ hne', hcons]

open Driver.STLD in
/-- under the check's view (adjacent runs of equal style are one stretch of text) joining adjacent unstyled
    runs changes nothing -/
theorem mergeRuns_mergePlain (l : List (Str × B3)) (hne : ∀ x ∈ l, x.1 ≠ []) :
    mergeRuns (mergePlain l) = mergeRuns l := by
  unfold mergePlain
  rw [mergeRuns_mpAux l hne]; simp

/-- no two adjacent runs are both unstyled (in particular: adjacent runs differ in style) -/
def noAdjPlain : List (Str × B3) → Bool
  | a :: b :: rest => !(a.2 == plain3 && b.2 == plain3) && noAdjPlain (b :: rest)
  | _ => true

theorem mpAux_id (l : List (Str × B3)) (hne : ∀ x ∈ l, x.1 ≠ []) (h : noAdjPlain l = true) :
    mpAux [] l = l ∧ ∀ body, body ≠ [] → (∀ x, l.head? = some x → x.2 ≠ plain3) → mpAux body l = (body, plain3) :: l := by
  induction l with
  | nil => exact ⟨rfl, fun body hb _ => by simp [mpAux, hb]⟩
  | cons x rest ih =>
    have hx := hne x (by simp)
    have hrest : ∀ y ∈ rest, y.1 ≠ [] := fun y hy => hne y (by simp [hy])
    have hr : noAdjPlain rest = true := by
      cases rest with
      | nil => rfl
      | cons y ys => simp only [noAdjPlain, Bool.and_eq_true] at h; exact h.2
    obtain ⟨ih1, ih2⟩ := ih hrest hr
    constructor
    · rw [mpAux]
      by_cases hp : x.2 = plain3
      · rw [if_pos hp, if_pos rfl]
        have hh : ∀ y, rest.head? = some y → y.2 ≠ plain3 := by
          intro y hy
          cases rest with
          | nil => cases hy
          | cons z zs =>
            simp only [List.head?_cons, Option.some.injEq] at hy
            subst hy
            simp only [noAdjPlain, Bool.and_eq_true, Bool.not_eq_true', Bool.and_eq_false_iff, beq_eq_false_iff_ne] at h
            rcases h.1 with h' | h'
            · exact absurd hp h'
            · exact h'
        rw [ih2 x.1 hx hh]
        obtain ⟨xt, xs⟩ := x
        simp only at hp
        subst hp; rfl
      · rw [if_neg hp, if_pos rfl, ih1]; rfl
    · intro body hb hh
      have hp : x.2 ≠ plain3 := hh x rfl
      rw [mpAux, if_neg hp, if_neg hb, ih1]; rfl

/-- when no two unstyled runs are adjacent, reading changes nothing in this view -/
theorem mergePlain_id (l : List (Str × B3)) (hne : ∀ x ∈ l, x.1 ≠ []) (h : noAdjPlain l = true) : mergePlain l = l :=
  (mpAux_id l hne h).1

/-! ## the library reader's attributes -/

theorem stlAttrs_keys (s : LSty) : (stlAttrs s).Pairwise (fun a b => a.1 ≠ b.1) := by
  simp [stlAttrs, List.pairwise_cons]

theorem optB_true (o : Option Bool) : (optB o == some "true".toList) = (o == some true) := by
  cases o with
  | none => rfl
  | some b => cases b <;> decide

/-- the check's `effSty` of a run built by the library reader is the effective style of the machine's run -/
theorem effSty_itemOf (g : Seg) : Driver.STLD.effSty (itemOf g) = eff g.2 := by
  obtain ⟨t, s1, s2, s3⟩ := g
  have k1 : (mkAttrs (stlAttrs (lsty (s1, s2, s3)))).lookup "STLItalics".toList = optB s1 := by
    apply lookup_mkAttrs _ (stlAttrs_keys _)
    intro v; simp [stlAttrs, lsty]; exact eq_comm
  have k2 : (mkAttrs (stlAttrs (lsty (s1, s2, s3)))).lookup "STLUnderline".toList = optB s2 := by
    apply lookup_mkAttrs _ (stlAttrs_keys _)
    intro v; simp [stlAttrs, lsty]; exact eq_comm
  have k3 : (mkAttrs (stlAttrs (lsty (s1, s2, s3)))).lookup "STLBoxing".toList = optB s3 := by
    apply lookup_mkAttrs _ (stlAttrs_keys _)
    intro v; simp [stlAttrs, lsty]; exact eq_comm
  unfold Driver.STLD.effSty Driver.STLD.isTrue Driver.STLD.kv itemOf eff
  simp only [k1, k2, k3, optB_true]

end C05
end Astisub
