import Astisub.Lemmas.STLRead2Tele

/-!
# Lemmas/STLRead2File — TTI blocks under the teletext display standards, and whole files under any display standard

`Lemmas/STLRead2Tti.lean` treats display standard 0.  Here the same for display standards 1 and 2 (rows parsed by
`parseTeletextRow`), and the file-level statement for every file the decoder accepts:
`STL.read ig doc = .ok (docMeta d, d.cues.map (docCue d.dsc d.mnr))`.
-/

namespace Astisub
namespace C05
open Go STL

/-- the line item the library reader builds for a run: by the row parser of the display standard -/
def runItem (dsc : Nat) (r : Spec.STL.Run) : LItem := if dsc = 0 then openItem r else teleItem r

/-- the cue the library reader builds for a cue the decoder denotes -/
def docCue (dsc : Nat) (mnr : Int) (c : Spec.STL.Cue) : CItem :=
  { startAt := c.startNs, endAt := c.endNs, attrs := itemAttrs c.just c.vp mnr c.nrows,
    lines := c.lines.map fun l => { items := l.map (runItem dsc) } }

theorem docCue_zero (mnr : Int) : docCue 0 mnr = openCue mnr := rfl

theorem runItem_tele (dsc : Nat) (h : dsc ≠ 0) : runItem dsc = teleItem := by
  funext r; unfold runItem; rw [if_neg h]

/-! ## rows -/

theorem rows_agree_tele : ∀ (rows : List Bytes) (ls : List (List Spec.STL.Run)),
    Spec.STL.mapM (fun r => Spec.STL.teleRow r {} 0 [] []) rows = some ls →
    rowsFold false none rows =
      some ((ls.filter fun l => !l.isEmpty).map (fun l => ({ items := l.map teleItem } : Line)), none)
  | [], ls, h => by
    rw [mapM_nil_inv _ _ h]
    rfl
  | r :: rs, ls, h => by
    obtain ⟨x, xs, h1, h2, rfl⟩ := mapM_cons_inv _ _ _ _ h
    have hm := tele_row_agree r x h1
    have ih := rows_agree_tele rs xs h2
    simp only [rowsFold, Bool.false_eq_true, if_false, hm, ih]
    cases x with
    | nil => simp
    | cons g gs => simp

/-! ## one block -/

/-- **One TTI block, display standards 1 and 2.**  For every 128-byte block the independent decoder accepts, the
    reader model — same frame rate, display standard code `'1'` or `'2'`, entered without a pending diacritic — skips it
    (user data) / returns `docCue` of the cue the decoder denotes, and leaves no diacritic pending. -/
theorem tti_agree_tele (g : GSI) (fr dsc : Nat) (off : Int) (p : Bytes) (r : Option Spec.STL.Cue)
    (hfr : g.m.framerate = (fr : Int)) (hpos : 0 < fr) (hne : dsc ≠ 0) (hdsc : g.m.dsc = [0x30 + dsc])
    (h : Spec.STL.tti fr dsc off p = some r) :
    ttiItem g off none p = some (r.map (docCue dsc (g.m.maxRows.getD 0)), none) := by
  unfold Spec.STL.tti at h
  split at h
  · cases h
  · rename_i hlen
    have hlen : p.length = 128 := by simpa using hlen
    split at h
    · rename_i hfe
      have hfe' : (p.getD 3 0 == 0xFE) = true := hfe
      rw [← Option.some.inj h]
      unfold ttiItem
      rw [if_pos hfe']
      rfl
    · rename_i hfe
      simp only at h
      split at h
      · cases h
      · split at h
        · cases h
        · split at h
          · cases h
          · rename_i ls hrows
            have hd0 : (dsc == 0) = false := by simpa using hne
            simp only [hd0, Bool.false_eq_true, if_false] at hrows
            have hfold := rows_agree_tele _ ls hrows
            rw [← Option.some.inj h]
            unfold ttiItem
            rw [if_neg hfe]
            simp only
            have e1 : slice p 5 9 = [p.getD 5 0, p.getD 6 0, p.getD 7 0, p.getD 8 0] := by
              rw [show slice p 5 9 = Spec.STL.sl p 5 4 from (sl_eq_slice p 5 4).symm]
              exact sl_four p 5 (by omega)
            have e2 : slice p 9 13 = [p.getD 9 0, p.getD 10 0, p.getD 11 0, p.getD 12 0] := by
              rw [show slice p 9 13 = Spec.STL.sl p 9 4 from (sl_eq_slice p 9 4).symm]
              exact sl_four p 9 (by omega)
            have e3 : (g.m.dsc == [0x30]) = false := by
              rw [hdsc]
              simp only [beq_eq_false_iff_ne, ne_eq, List.cons.injEq, and_true]
              omega
            rw [e1, e2, hfr, parse_instant _ _ _ _ fr hpos, parse_instant _ _ _ _ fr hpos, slice_text p hlen,
              ← splitAt8A_eq, e3, hfold]
            simp only [Option.map_some, docCue, runItem_tele dsc hne]

/-! ## the block loop -/

theorem ttiFold_agree_tele (g : GSI) (fr dsc : Nat) (off : Int) (hfr : g.m.framerate = (fr : Int)) (hpos : 0 < fr)
    (hne : dsc ≠ 0) (hdsc : g.m.dsc = [0x30 + dsc]) : ∀ (ps : List Bytes) (cs : List (Option Spec.STL.Cue)),
    Spec.STL.mapM (Spec.STL.tti fr dsc off) ps = some cs →
    ttiFold g off none ps = some ((cs.filterMap id).map (docCue dsc (g.m.maxRows.getD 0)))
  | [], cs, h => by
    rw [mapM_nil_inv _ _ h]
    rfl
  | p :: ps, cs, h => by
    obtain ⟨x, xs, h1, h2, rfl⟩ := mapM_cons_inv _ _ _ _ h
    have hm := tti_agree_tele g fr dsc off p x hfr hpos hne hdsc h1
    have ih := ttiFold_agree_tele g fr dsc off hfr hpos hne hdsc ps xs h2
    simp only [ttiFold, hm, ih]
    cases x <;> simp

/-! ## the whole file -/

/-- **Reader model on every file of the decoder's class.**  If the independent decoder accepts `doc` and denotes
    `d`, `ReadFromSTL` succeeds and returns the metadata `docMeta d` and, cue by cue, `docCue` of the decoder's
    cues — under every display standard (0: open subtitling; 1, 2: teletext). -/
theorem read_of_decode (ig : Bool) (doc : Bytes) (d : Spec.STL.Doc) (h : Spec.STL.decode ig doc = some d) :
    STL.read ig doc = .ok (docMeta d, d.cues.map (docCue d.dsc (d.mnr : Int))) := by
  by_cases hd : d.dsc = 0
  · rw [hd, docCue_zero]
    exact (read_of_decode_open ig doc d h hd).1
  · have D := decode_inv ig doc d h
    obtain ⟨tcp, hg, hoff, hfr⟩ := parseGSI_of_decode ig doc d D
    obtain ⟨cs, hcs, hcues⟩ := D.cues
    have hpos : 0 < d.fr := by rcases hfr with e | e <;> omega
    generalize hG : gsiOfSpec d.fr d.dsc d.lang d.texts d.cd d.rd d.rn d.mnc d.mnr tcp = G at hg
    have hGfr : G.m.framerate = (d.fr : Int) := by rw [← hG]; rfl
    have hGdsc : G.m.dsc = [0x30 + d.dsc] := by rw [← hG]; rfl
    have hGmr : G.m.maxRows.getD 0 = (d.mnr : Int) := by rw [← hG]; rfl
    have hm : (if ig then { G.m with tcp := 0 } else G.m) = docMeta d := by
      rw [← hG]
      unfold gsiOfSpec docMeta
      rw [hoff]
      cases ig <;> rfl
    have hblocks : chunks 128 ((doc.drop 1024).length + 1) (doc.drop 1024)
        = Spec.STL.blocks doc.length (doc.drop 1024) := by
      rw [blocks_eq_chunks, chunks_fuel _ _ (by omega), chunks_fuel doc.length _ (by simp)]
    have hfold := ttiFold_agree_tele G d.fr d.dsc d.tcpNs hGfr hpos hd hGdsc _ cs hcs
    unfold STL.read
    rw [if_neg (by have := D.len; omega), hg]
    simp only
    rw [hm, hblocks]
    have htcp' : (docMeta d).tcp = d.tcpNs := rfl
    rw [htcp', hfold]
    simp only
    rw [if_neg (by rw [List.length_drop]; have := D.mod; omega), hGmr, hcues]

end C05
end Astisub
