import Astisub.Lemmas.VTTDefs
import Astisub.Lemmas.Str

/-!
# Lemmas/VTTTok — the tokenizer model on what the WebVTT writer emits

One step of `Go.tokLoop` on an ordinary character, on a `<` that opens no markup, at the end of
input, and on the start / end / voice tags of well-formed tags (`Tag.wf`, `voiceOk`): each tag is
exactly one token whose raw text is the tag.  Helper lemmas live in `TokAux`.
-/

namespace Astisub
namespace VTT
open Go

/-- the token list after the pending text (reversed in `acc`) has been emitted -/
def flushTok (acc : Str) (out : List Tok) : List Tok := if acc.isEmpty then out else .text acc.reverse :: out

namespace TokAux

/-- the characters `readTagAttrKey` keeps -/
def keyP (c : Char) : Bool := !(isTagWS c || c == '/' || c == '=' || c == '>')
/-- the characters `readTagName` keeps -/
def nameP (c : Char) : Bool := !(isTagWS c || c == '/' || c == '>')

theorem keyP_eq : (fun c => !(isTagWS c || c == '/' || c == '=' || c == '>')) = keyP := rfl
theorem nameP_eq : (fun c => !(isTagWS c || c == '/' || c == '>')) = nameP := rfl

theorem takeWhile_app {p : Char → Bool} (a : Str) (d : Char) (b : Str)
    (ha : ∀ c ∈ a, p c = true) (hd : p d = false) : (a ++ d :: b).takeWhile p = a := by
  induction a with
  | nil => simp [hd]
  | cons x xs ih =>
    have hx := ha x (by simp)
    simp [hx]
    exact ih (fun c hc => ha c (by simp [hc]))

theorem dropWhile_app {p : Char → Bool} (a : Str) (d : Char) (b : Str) (hd : p d = false) :
    (a ++ d :: b).dropWhile p = a.dropWhile p ++ d :: b := by
  induction a with
  | nil => simp [List.dropWhile, hd]
  | cons x xs ih =>
    cases hx : p x <;> simp [List.dropWhile, hx, ih]

theorem readAttrs_gt (f : Nat) (s : Str) (acc : List (Str × Str)) :
    readAttrs (f + 1) ('>' :: s) acc = some (acc.reverse, s) := by
  simp [readAttrs]

theorem readAttrs_step (f : Nat) (key : Str) (d : Char) (rest : Str) (acc : List (Str × Str))
    (e : Char) (r2' : Str) (hk0 : key ≠ [])
    (hk : ∀ c ∈ key, keyP c = true) (hd : keyP d = false)
    (hr2 : (if (d == '=' || d == '>') = true then d :: rest else rest).dropWhile isTagWS = e :: r2')
    (he : e ≠ '=') :
    readAttrs (f + 1) (key ++ d :: rest) acc = readAttrs f (e :: r2') ((key, []) :: acc) := by
  rw [readAttrs]
  · rw [keyP_eq, takeWhile_app key d rest hk hd, List.drop_left]
    simp only [hr2]
    split
    · rename_i h; simp at h
    · rename_i h; simp at h; exact absurd h.1 he
    · cases key with
      | nil => exact absurd rfl hk0
      | cons => simp
  · cases key with
    | nil => exact absurd rfl hk0
    | cons => simp
  · intro r h
    cases key with
    | nil => exact absurd rfl hk0
    | cons c k =>
      simp at h
      have := hk c (by simp)
      rw [h.1] at this
      revert this; decide

theorem takeWhile_all {p : Char → Bool} : ∀ (l : Str), ∀ x ∈ l.takeWhile p, p x = true := by
  intro l
  induction l with
  | nil => intro x h; simp at h
  | cons y ys ih =>
    intro x h
    cases hy : p y
    · simp [List.takeWhile, hy] at h
    · simp [List.takeWhile, hy] at h
      rcases h with h | h
      · rw [h]; exact hy
      · exact ih x h

theorem dropWhile_head {p : Char → Bool} : ∀ (l : Str) (d : Char) (t : Str), l.dropWhile p = d :: t → p d = false := by
  intro l
  induction l with
  | nil => intro d t h; simp at h
  | cons x xs ih =>
    intro d t h
    cases hx : p x
    · simp [List.dropWhile, hx] at h; rw [← h.1]; exact hx
    · simp [List.dropWhile, hx] at h; exact ih d t h

theorem dropWhile_all {p : Char → Bool} (a b : Str) (ha : ∀ c ∈ a, p c = true) :
    (a ++ b).dropWhile p = b.dropWhile p := by
  induction a with
  | nil => rfl
  | cons x xs ih =>
    have hx := ha x (by simp)
    simp [hx]
    exact ih (fun c hc => ha c (by simp [hc]))

theorem keyP_of (c : Char) (h1 : markup c = false) (h2 : isTagWS c = false) : keyP c = true := by
  simp [markup] at h1
  simp [keyP, h2, h1]

theorem ws_of (c : Char) (h1 : markup c = false) (h2 : keyP c = false) : isTagWS c = true := by
  simp [markup] at h1
  simpa [keyP, h1] using h2

theorem ws_not (c : Char) (h : isTagWS c = true) : c ≠ '=' ∧ c ≠ '>' ∧ c ≠ '/' := by
  refine ⟨?_, ?_, ?_⟩ <;> (intro e; subst e; revert h; decide)

theorem gt_afterKey (s : Str) :
    (if ('>' == '=' || '>' == '>') = true then '>' :: s else s).dropWhile isTagWS = '>' :: s := by
  have h1 : ('>' == '=' || '>' == '>') = true := by decide
  have h2 : isTagWS '>' = false := by decide
  rw [if_pos h1]; simp [List.dropWhile, h2]

/-- words without markup, separated by white space, up to the closing `>`: attributes without values -/
theorem readAttrs_words (n : Nat) : ∀ (w : Str), w.length ≤ n → (∀ c ∈ w, markup c = false) →
    (∀ c r, w = c :: r → isTagWS c = false) → ∀ (fuel : Nat) (s : Str) (acc : List (Str × Str)),
    w.length + 1 ≤ fuel →
    ∃ acc', readAttrs fuel (w ++ '>' :: s) acc = some (acc', s) ∧ ∀ kv ∈ acc', kv.2 = [] ∨ kv ∈ acc := by
  induction n with
  | zero =>
    intro w hl _ _ fuel s acc hf
    have : w = [] := by cases w with | nil => rfl | cons => simp at hl
    subst this
    obtain ⟨f, rfl⟩ : ∃ f, fuel = f + 1 := ⟨fuel - 1, by omega⟩
    exact ⟨acc.reverse, readAttrs_gt f s acc, fun kv h => Or.inr (by simpa using h)⟩
  | succ n ih =>
    intro w hl hw hw0 fuel s acc hf
    obtain ⟨f, rfl⟩ : ∃ f, fuel = f + 1 := ⟨fuel - 1, by omega⟩
    cases w with
    | nil => exact ⟨acc.reverse, readAttrs_gt f s acc, fun kv h => Or.inr (by simpa using h)⟩
    | cons c r =>
      have hc : keyP c = true := keyP_of c (hw c (by simp)) (hw0 c r rfl)
      have hsplit : (c :: r).takeWhile keyP ++ (c :: r).dropWhile keyP = c :: r := List.takeWhile_append_dropWhile
      have hkey : ∀ x ∈ (c :: r).takeWhile keyP, keyP x = true := takeWhile_all _
      have hk0 : (c :: r).takeWhile keyP ≠ [] := by simp [List.takeWhile, hc]
      generalize hK : (c :: r).takeWhile keyP = key at hsplit hkey hk0
      generalize hT : (c :: r).dropWhile keyP = tl at hsplit
      have hkl : 1 ≤ key.length := by cases key with | nil => exact absurd rfl hk0 | cons => simp
      have hlen : key.length + tl.length = r.length + 1 := by
        have := congrArg List.length hsplit; simpa using this
      cases tl with
      | nil =>
        rw [← hsplit, List.append_nil]
        obtain ⟨f', rfl⟩ : ∃ f', f = f' + 1 := ⟨f - 1, by simp at hf; omega⟩
        rw [readAttrs_step (f' + 1) key '>' s acc '>' s hk0 hkey (by decide) (gt_afterKey s) (by decide)]
        refine ⟨((key, []) :: acc).reverse, readAttrs_gt f' s _, ?_⟩
        intro kv h
        simp at h
        rcases h with h | h
        · exact Or.inr h
        · exact Or.inl (by rw [h])
      | cons d w' =>
        have hd : keyP d = false := dropWhile_head _ d w' hT
        have hdm : markup d = false := hw d (by rw [← hsplit]; simp)
        have hdw : isTagWS d = true := ws_of d hdm hd
        obtain ⟨hd1, hd2, _⟩ := ws_not d hdw
        have hw'' : ∀ x ∈ w'.dropWhile isTagWS, markup x = false := fun x hx =>
          hw x (by rw [← hsplit]; simp; exact Or.inr (Or.inr ((List.dropWhile_sublist _).subset hx)))
        have hw''0 : ∀ x t, w'.dropWhile isTagWS = x :: t → isTagWS x = false := fun x t h => dropWhile_head _ x t h
        have hw''l : (w'.dropWhile isTagWS).length ≤ w'.length := (List.dropWhile_sublist _).length_le
        have hr2 : (if (d == '=' || d == '>') = true then d :: (w' ++ '>' :: s) else (w' ++ '>' :: s)).dropWhile isTagWS
            = w'.dropWhile isTagWS ++ '>' :: s := by
          rw [if_neg (by simp [hd1, hd2])]
          exact dropWhile_app w' '>' s (by decide)
        simp at hl hf hlen
        obtain ⟨acc', h1, h2⟩ := ih (w'.dropWhile isTagWS) (by omega) hw'' hw''0 f s ((key, []) :: acc) (by omega)
        have hne : ∃ e r2', w'.dropWhile isTagWS ++ '>' :: s = e :: r2' ∧ e ≠ '=' := by
          cases hq : w'.dropWhile isTagWS with
          | nil => exact ⟨'>', s, rfl, by decide⟩
          | cons x t =>
            refine ⟨x, t ++ '>' :: s, rfl, ?_⟩
            have := hw'' x (by rw [hq]; simp)
            intro e; subst e; revert this; decide
        obtain ⟨e, r2', he1, he2⟩ := hne
        rw [he1] at hr2 h1
        refine ⟨acc', ?_, ?_⟩
        · rw [← hsplit, List.append_assoc, List.cons_append]
          rw [readAttrs_step f key d (w' ++ '>' :: s) acc e r2' hk0 hkey hd hr2 he2]
          exact h1
        · intro kv h
          rcases h2 kv h with h | h
          · exact Or.inl h
          · simp at h
            rcases h with h | h
            · exact Or.inl (by rw [h])
            · exact Or.inr h

theorem ws_not_nameP (c : Char) (h : isTagWS c = true) : nameP c = false := by simp [nameP, h]

/-- `readTag` on `head  white-space  words >` -/
theorem readTag_spec (hd p w s : Str) (hhd : ∀ c ∈ hd, nameP c = true) (hp : ∀ c ∈ p, isTagWS c = true)
    (hw : ∀ c ∈ w, markup c = false) (hw0 : ∀ c r, w = c :: r → isTagWS c = false) (hpw : p ≠ [] ∨ w = []) :
    ∃ a, readTag (hd ++ (p ++ (w ++ '>' :: s))) = some (hd, a, s) ∧ ∀ kv ∈ a, kv.2 = [] := by
  have hr : ∃ x r', p ++ (w ++ '>' :: s) = x :: r' ∧ nameP x = false := by
    cases p with
    | nil =>
      rcases hpw with h | h
      · exact absurd rfl h
      · subst h; exact ⟨'>', s, rfl, by decide⟩
    | cons x p' => exact ⟨x, p' ++ (w ++ '>' :: s), rfl, ws_not_nameP x (hp x (by simp))⟩
  obtain ⟨x, r', hr1, hr2⟩ := hr
  have hdw : (p ++ (w ++ '>' :: s)).dropWhile isTagWS = w ++ '>' :: s := by
    rw [dropWhile_all p _ hp]
    cases w with
    | nil =>
      have h2 : isTagWS '>' = false := by decide
      simp [h2]
    | cons y t => simp [hw0 y t rfl]
  obtain ⟨a, h1, h2⟩ := readAttrs_words w.length w (Nat.le_refl _) hw hw0 ((w ++ '>' :: s).length + 1) s []
    (by simp)
  refine ⟨a, ?_, fun kv h => ?_⟩
  · unfold readTag
    rw [nameP_eq, hr1, takeWhile_app hd x r' hhd hr2]
    simp only [List.drop_left]
    rw [← hr1, hdw]
    have hne : (w ++ '>' :: s).isEmpty = false := by cases w <;> rfl
    simp only [hne, h1]
    simp
  · rcases h2 kv h with h | h
    · exact h
    · simp at h

theorem take_raw (a s : Str) : (a ++ s).take ((a ++ s).length - s.length) = a := by
  rw [List.take_left']; simp

theorem getLast_ne (x : Str) (h : ∀ c ∈ x, c ≠ '/') : (x.getLast? == some '/') = false := by
  cases hg : x.getLast? with
  | none => rfl
  | some c =>
    obtain ⟨ys, rfl⟩ := List.getLast?_eq_some_iff.mp hg
    have := h c (by simp)
    simp [this]

theorem nameP_no_slash (c : Char) (h : nameP c = true) : c ≠ '/' := by
  intro e; subst e; revert h; decide

theorem markup_no_slash (c : Char) (h : markup c = false) : c ≠ '/' := by
  intro e; subst e; revert h; decide

theorem tokLoop_open (d : Char) (hd p w : Str) (hl : isLetter d = true)
    (hhd : ∀ c ∈ d :: hd, nameP c = true) (hp : ∀ c ∈ p, isTagWS c = true)
    (hw : ∀ c ∈ w, markup c = false) (hw0 : ∀ c r, w = c :: r → isTagWS c = false) (hpw : p ≠ [] ∨ w = [])
    (hraw : rawTags.contains (String.ofList (toLowerAscii (d :: hd))) = false)
    (fuel : Nat) (s acc : Str) (out : List Tok) :
    ∃ a, tokLoop (fuel + 1) ('<' :: ((d :: hd) ++ (p ++ (w ++ '>' :: s)))) acc out
      = tokLoop fuel s [] (Tok.startTag ('<' :: ((d :: hd) ++ (p ++ (w ++ ['>'])))) (toLowerAscii (d :: hd)) a
          :: flushTok acc out) := by
  obtain ⟨a, h1, h2⟩ := readTag_spec (d :: hd) p w s hhd hp hw hw0 hpw
  refine ⟨lowerKV a, ?_⟩
  rw [List.cons_append] at h1 ⊢
  have e1 : ('<' == '\x00') = false := by decide
  have e2 : ('<' != '<') = false := by decide
  have e3 : (a.any fun kv => List.contains kv.snd '&') = false := by
    rw [List.any_eq_false]; intro kv hkv; rw [h2 kv hkv]; simp
  have e4 : '<' :: d :: (hd ++ (p ++ (w ++ '>' :: s))) = ('<' :: d :: (hd ++ (p ++ (w ++ ['>'])))) ++ s := by simp
  have e5 : (('<' :: d :: (hd ++ (p ++ (w ++ ['>'])))).dropLast.getLast? == some '/') = false := by
    have : ('<' :: d :: (hd ++ (p ++ (w ++ ['>'])))).dropLast = '<' :: d :: (hd ++ (p ++ w)) := by
      rw [show '<' :: d :: (hd ++ (p ++ (w ++ ['>']))) = ('<' :: d :: (hd ++ (p ++ w))) ++ ['>'] by simp,
        List.dropLast_concat]
    rw [this]
    apply getLast_ne
    intro c hc
    simp only [List.mem_cons, List.mem_append] at hc
    rcases hc with rfl | hc | hc | hc | hc
    · decide
    · exact nameP_no_slash c (hhd c (by simp [hc]))
    · exact nameP_no_slash c (hhd c (by simp [hc]))
    · exact (ws_not c (hp c hc)).2.2
    · exact markup_no_slash c (hw c hc)
  conv => lhs; rw [tokLoop.eq_def]
  simp only [hl, h1, e1, e2, e3, hraw, if_true, Bool.false_eq_true, if_false]
  rw [e4, take_raw]
  simp only [e5, Bool.false_eq_true, if_false]
  rfl

theorem tokLoop_close (e : Char) (nm : Str) (hl : isLetter e = true) (hnm : ∀ c ∈ e :: nm, nameP c = true)
    (fuel : Nat) (s acc : Str) (out : List Tok) :
    tokLoop (fuel + 1) ('<' :: '/' :: ((e :: nm) ++ '>' :: s)) acc out
      = tokLoop fuel s [] (Tok.endTag ('<' :: '/' :: ((e :: nm) ++ ['>'])) (toLowerAscii (e :: nm))
          :: flushTok acc out) := by
  obtain ⟨a, h1, _⟩ := readTag_spec (e :: nm) [] [] s hnm (by simp) (by simp) (by simp) (Or.inr rfl)
  simp only [List.nil_append, List.cons_append] at h1 ⊢
  have e1 : ('<' == '\x00') = false := by decide
  have e2 : ('<' != '<') = false := by decide
  have e3 : isLetter '/' = false := by decide
  have e4 : ('/' == '/') = true := by decide
  have e5 : (e == '>') = false := by
    cases h : e == '>' with
    | false => rfl
    | true => rw [beq_iff_eq] at h; subst h; revert hl; decide
  have e6 : '<' :: '/' :: e :: (nm ++ '>' :: s) = ('<' :: '/' :: e :: (nm ++ ['>'])) ++ s := by simp
  conv => lhs; rw [tokLoop.eq_def]
  simp only [hl, h1, e1, e2, e3, e4, e5, if_true, Bool.false_eq_true, if_false]
  rw [e6, take_raw]
  rfl

/-! ### what `wf` gives -/

theorem ws_isSpace (c : Char) (h : isTagWS c = true) : isSpace c = true := by
  simp [isTagWS] at h
  rcases h with (((rfl | rfl) | rfl) | rfl) | rfl <;> decide

theorem alnum_nameP (c : Char) (h : c.isAlphanum = true) : nameP c = true := by
  have h1 : isTagWS c = false := by
    cases hws : isTagWS c with
    | false => rfl
    | true =>
      simp [isTagWS] at hws
      rcases hws with (((rfl | rfl) | rfl) | rfl) | rfl <;> (revert h; decide)
  have h2 : c ≠ '/' := by intro e; subst e; revert h; decide
  have h3 : c ≠ '>' := by intro e; subst e; revert h; decide
  simp [nameP, h1, h2, h3]

theorem classChar_nameP (c : Char) (h : classChar c = true) : nameP c = true := by
  simp [classChar, markup] at h
  simp [nameP, h]

theorem mem_join (sep : Str) : ∀ (l : List Str) (c : Char), c ∈ join sep l → c ∈ sep ∨ ∃ x ∈ l, c ∈ x
  | [], c, h => by simp [join] at h
  | [a], c, h => by simp [join] at h; exact Or.inr ⟨a, by simp, h⟩
  | a :: b :: rest, c, h => by
    simp only [join, List.mem_append] at h
    rcases h with (h | h) | h
    · exact Or.inr ⟨a, by simp, h⟩
    · exact Or.inl h
    · rcases mem_join sep (b :: rest) c h with h | ⟨x, hx, hc⟩
      · exact Or.inl h
      · exact Or.inr ⟨x, List.mem_cons_of_mem _ hx, hc⟩

theorem length_trimSpace_le (s : Str) : (trimSpace s).length ≤ (s.dropWhile isSpace).length := by
  unfold trimSpace trimRight trimLeft
  rw [List.length_reverse]
  have := (List.dropWhile_sublist isSpace (l := (s.dropWhile isSpace).reverse)).length_le
  simpa using this

theorem annOk_facts (a : Str) (h : annOk a = true) :
    (∀ c ∈ a, markup c = false) ∧ (∀ c r, a = c :: r → isTagWS c = false) := by
  simp only [annOk, Bool.and_eq_true, beq_iff_eq, List.all_eq_true] at h
  refine ⟨fun c hc => by simpa using h.2 c hc, ?_⟩
  intro c r e
  cases hws : isTagWS c with
  | false => rfl
  | true =>
    exfalso
    have hsp := ws_isSpace c hws
    have h1 := length_trimSpace_le a
    rw [h.1, e] at h1
    simp only [List.dropWhile, hsp] at h1
    have h2 := (List.dropWhile_sublist isSpace (l := r)).length_le
    simp at h1
    omega

theorem wf_facts (t : Tag) (h : t.wf = true) :
    ∃ d nm, t.name = d :: nm ∧ isLetter d = true ∧ (∀ c ∈ Tag.head t, nameP c = true) ∧
      annOk t.annotation = true ∧ rawTags.contains (String.ofList (toLowerAscii t.head)) = false := by
  simp only [Tag.wf, Bool.and_eq_true, Bool.not_eq_true', List.all_eq_true] at h
  obtain ⟨⟨⟨⟨⟨hA, hB⟩, _⟩, hD⟩, hE⟩, hF⟩ := h
  cases hn : t.name with
  | nil => rw [hn] at hA; simp at hA
  | cons d nm =>
    refine ⟨d, nm, rfl, ?_, ?_, hE, hF⟩
    · rw [hn] at hA; simpa using hA
    · intro c hc
      unfold Tag.head at hc
      rw [List.mem_append] at hc
      rcases hc with hc | hc
      · exact alnum_nameP c (hB c hc)
      · by_cases hcl : t.classes.isEmpty = true
        · simp [hcl] at hc
        · rw [if_neg hcl, List.mem_cons] at hc
          have hdot : nameP '.' = true := by decide
          rcases hc with rfl | hc
          · exact hdot
          · rcases mem_join ['.'] t.classes c hc with h1 | ⟨x, hx, hcx⟩
            · simp at h1; rw [h1]; exact hdot
            · have := hD x hx
              exact classChar_nameP c (this.2 c hcx)

/-- the shape of the start tag of a well-formed tag, as `tokLoop_open` wants it -/
theorem startTag_shape (t : Tag) (h : t.wf = true) :
    ∃ d hd p w, isLetter d = true ∧ (∀ c ∈ d :: hd, nameP c = true) ∧ (∀ c ∈ p, isTagWS c = true) ∧
      (∀ c ∈ w, markup c = false) ∧ (∀ c r, w = c :: r → isTagWS c = false) ∧ (p ≠ [] ∨ w = []) ∧
      rawTags.contains (String.ofList (toLowerAscii (d :: hd))) = false ∧
      Tag.startTag t = '<' :: ((d :: hd) ++ (p ++ (w ++ ['>']))) := by
  obtain ⟨d, nm, hn, hl, hhd, hann, hraw⟩ := wf_facts t h
  obtain ⟨ha1, ha2⟩ := annOk_facts _ hann
  have hne : ¬ t.name = [] := by rw [hn]; simp
  have hh : Tag.head t = d :: (nm ++ (if t.classes.isEmpty then [] else '.' :: join ['.'] t.classes)) := by
    unfold Tag.head; rw [hn]; rfl
  rw [hh] at hhd hraw
  by_cases he : t.annotation = []
  · refine ⟨d, _, [], [], hl, hhd, by simp, by simp, by simp, Or.inr rfl, hraw, ?_⟩
    unfold Tag.startTag
    rw [if_neg hne, if_pos he, hn]
    simp
  · refine ⟨d, _, [' '], t.annotation, hl, hhd, ?_, ha1, ha2, Or.inl (by simp), hraw, ?_⟩
    · intro c hc; simp at hc; subst hc; decide
    · unfold Tag.startTag
      rw [if_neg hne, if_neg he, hn]
      simp

end TokAux

/-! ### the requested statements -/

/-- an ordinary character (not `<`, not NUL) joins the pending text -/
theorem tokLoop_char (fuel : Nat) (c : Char) (s acc : Str) (out : List Tok) (h1 : c ≠ '<') (h2 : c ≠ '\x00') :
    tokLoop (fuel + 1) (c :: s) acc out = tokLoop fuel s (c :: acc) out := by
  conv => lhs; rw [tokLoop.eq_def]
  simp [h1, h2]

/-- `<` followed by a character that opens no markup (not a letter, `/`, `!`, `?`) is text -/
theorem tokLoop_lt_text (fuel : Nat) (d : Char) (s acc : Str) (out : List Tok)
    (h : isLetter d = false ∧ d ≠ '/' ∧ d ≠ '!' ∧ d ≠ '?') :
    tokLoop (fuel + 1) ('<' :: d :: s) acc out = tokLoop fuel (d :: s) ('<' :: acc) out := by
  obtain ⟨h1, h2, h3, h4⟩ := h
  conv => lhs; rw [tokLoop.eq_def]
  simp [h1, h2, h3, h4]

/-- end of input: the pending text is the last token -/
theorem tokLoop_nil (fuel : Nat) (acc : Str) (out : List Tok) :
    tokLoop (fuel + 1) [] acc out = .ok (flushTok acc out).reverse := by
  conv => lhs; rw [tokLoop.eq_def]
  simp [flushTok]

/-- the start tag written for a well-formed tag is one start-tag token whose raw text is the tag -/
theorem tokLoop_startTag (t : Tag) (h : t.wf = true) (fuel : Nat) (s acc : Str) (out : List Tok) :
    ∃ (n : Str) (a : List (Str × Str)),
      tokLoop (fuel + 1) (Tag.startTag t ++ s) acc out
        = tokLoop fuel s [] (Tok.startTag (Tag.startTag t) n a :: flushTok acc out) := by
  obtain ⟨d, hd, p, w, hl, hhd, hp, hw, hw0, hpw, hraw, hs⟩ := TokAux.startTag_shape t h
  obtain ⟨a, ha⟩ := TokAux.tokLoop_open d hd p w hl hhd hp hw hw0 hpw hraw fuel s acc out
  refine ⟨toLowerAscii (d :: hd), a, ?_⟩
  have e : Tag.startTag t ++ s = '<' :: ((d :: hd) ++ (p ++ (w ++ '>' :: s))) := by rw [hs]; simp
  rw [e, hs]
  exact ha

/-- the end tag written for a well-formed tag is one end-tag token whose raw text is the tag -/
theorem tokLoop_endTag (t : Tag) (h : t.wf = true) (fuel : Nat) (s acc : Str) (out : List Tok) :
    ∃ (n : Str),
      tokLoop (fuel + 1) (Tag.endTag t ++ s) acc out
        = tokLoop fuel s [] (Tok.endTag (Tag.endTag t) n :: flushTok acc out) := by
  obtain ⟨d, nm, hn, hl, hhd, _, _⟩ := TokAux.wf_facts t h
  have hnm : ∀ c ∈ d :: nm, TokAux.nameP c = true := by
    intro c hc
    apply hhd c
    unfold Tag.head
    rw [hn]
    exact List.mem_append_left _ hc
  have hne : ¬ t.name = [] := by rw [hn]; simp
  have hs : Tag.endTag t = '<' :: '/' :: ((d :: nm) ++ ['>']) := by
    unfold Tag.endTag
    rw [if_neg hne, hn]
    rfl
  have e : Tag.endTag t ++ s = '<' :: '/' :: ((d :: nm) ++ '>' :: s) := by rw [hs]; simp
  refine ⟨toLowerAscii (d :: nm), ?_⟩
  rw [e, hs]
  exact TokAux.tokLoop_close d nm hl hnm fuel s acc out

/-- the voice tag `<v NAME>` is one start-tag token whose raw text is the tag -/
theorem tokLoop_voice (v : Str) (h : voiceOk v = true) (fuel : Nat) (s acc : Str) (out : List Tok) :
    ∃ (n : Str) (a : List (Str × Str)),
      tokLoop (fuel + 1) ("<v ".toList ++ v ++ ['>'] ++ s) acc out
        = tokLoop fuel s [] (Tok.startTag ("<v ".toList ++ v ++ ['>']) n a :: flushTok acc out) := by
  simp only [voiceOk, Bool.and_eq_true] at h
  obtain ⟨hw, hw0⟩ := TokAux.annOk_facts v h.2
  obtain ⟨a, ha⟩ := TokAux.tokLoop_open 'v' [] [' '] v (by decide) (by intro c hc; simp at hc; subst hc; decide)
    (by intro c hc; simp at hc; subst hc; decide) hw hw0 (Or.inl (by simp)) (by decide) fuel s acc out
  refine ⟨toLowerAscii ['v'], a, ?_⟩
  have e0 : "<v ".toList = ['<', 'v', ' '] := by decide
  have e1 : "<v ".toList ++ v ++ ['>'] ++ s = '<' :: (('v' :: []) ++ ([' '] ++ (v ++ '>' :: s))) := by
    rw [e0]; simp
  have e2 : "<v ".toList ++ v ++ ['>'] = '<' :: (('v' :: []) ++ ([' '] ++ (v ++ ['>']))) := by
    rw [e0]; simp
  rw [e1, e2]
  exact ha

end VTT
end Astisub
