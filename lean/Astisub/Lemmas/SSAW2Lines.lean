import Astisub.Lemmas.SSAW2Common

/-!
# Lemmas/SSAW2Lines — the decoder's line splitter and section grouping on a written document

* `splitLines_unlines`: lines without LF / CR, each terminated by LF, are cut back into these lines;
* `sections_blocks`: a header followed by body lines (none of which is a header), three times (or twice), is grouped
  into these sections.
-/

namespace Astisub
namespace SSAW
open Go SSA SSAR List
open Spec.SSA (SecKind secKind sectionsAux sections splitLines)

/-! ### lines -/

theorem splitLines_cons_other (x : Char) (xs acc : Str) (h1 : x ≠ '\n') (h2 : x ≠ '\r') :
    splitLines (x :: xs) acc = splitLines xs (x :: acc) := by
  rw [Spec.SSA.splitLines.eq_5 _ _ _ (by intros; simp_all) (by intros; simp_all) (by intros; simp_all)]

theorem splitLines_line : ∀ (l rest acc : Str), '\n' ∉ l → '\r' ∉ l →
    splitLines (l ++ '\n' :: rest) acc = (acc.reverse ++ l) :: splitLines rest [] := by
  intro l
  induction l with
  | nil =>
    intro rest acc _ _
    simp [splitLines]
  | cons x xs ih =>
    intro rest acc h1 h2
    have hx1 : x ≠ '\n' := fun e => h1 (by rw [e]; exact mem_cons_self)
    have hx2 : x ≠ '\r' := fun e => h2 (by rw [e]; exact mem_cons_self)
    rw [cons_append, splitLines_cons_other x _ acc hx1 hx2,
      ih rest (x :: acc) (fun h => h1 (mem_cons_of_mem _ h)) (fun h => h2 (mem_cons_of_mem _ h))]
    simp

/-- **Lines.** The decoder's splitter cuts `unlines ls` back into `ls` when no line contains LF or CR. -/
theorem splitLines_unlines : ∀ (ls : List Str), (∀ l ∈ ls, '\n' ∉ l ∧ '\r' ∉ l) →
    splitLines (unlines ls) [] = ls := by
  intro ls
  induction ls with
  | nil => intro _; rfl
  | cons l ls ih =>
    intro h
    rw [unlines_cons, splitLines_line l _ [] (h l mem_cons_self).1 (h l mem_cons_self).2,
      ih (fun x hx => h x (mem_cons_of_mem _ hx))]
    rfl

/-! ### sections -/

theorem sectionsAux_body : ∀ (body rest : List Str) (k : SecKind) (rb : List Str) (acc : List (SecKind × List Str)),
    (∀ l ∈ body, secKind l = none) →
    sectionsAux (body ++ rest) (some (k, rb)) acc = sectionsAux rest (some (k, body.reverse ++ rb)) acc := by
  intro body
  induction body with
  | nil => intro rest k rb acc _; rfl
  | cons l ls ih =>
    intro rest k rb acc h
    rw [cons_append, sectionsAux]
    simp only [h l mem_cons_self]
    rw [ih rest k (l :: rb) acc (fun x hx => h x (mem_cons_of_mem _ hx))]
    simp

theorem sectionsAux_header (h : Str) (k' : SecKind) (rest : List Str) (k : SecKind) (rb : List Str)
    (acc : List (SecKind × List Str)) (hk : secKind h = some k') :
    sectionsAux (h :: rest) (some (k, rb)) acc = sectionsAux rest (some (k', [])) (acc ++ [(k, rb.reverse)]) := by
  rw [sectionsAux]
  simp only [hk]

theorem sectionsAux_end (k : SecKind) (rb : List Str) (acc : List (SecKind × List Str)) :
    sectionsAux [] (some (k, rb)) acc = some (acc ++ [(k, rb.reverse)]) := rfl

/-- **Sections (with a styles block).** -/
theorem sections_three (h1 h2 h3 : Str) (k1 k2 k3 : SecKind) (b1 b2 b3 : List Str)
    (hk1 : secKind h1 = some k1) (hk2 : secKind h2 = some k2) (hk3 : secKind h3 = some k3)
    (hb1 : ∀ l ∈ b1, secKind l = none) (hb2 : ∀ l ∈ b2, secKind l = none) (hb3 : ∀ l ∈ b3, secKind l = none) :
    sections (h1 :: b1 ++ h2 :: b2 ++ h3 :: b3) = some [(k1, b1), (k2, b2), (k3, b3)] := by
  unfold sections
  rw [cons_append, cons_append, sectionsAux]
  simp only [hk1]
  rw [append_assoc, sectionsAux_body b1 _ k1 [] _ hb1, cons_append, sectionsAux_header h2 k2 _ k1 _ _ hk2,
    sectionsAux_body b2 _ k2 [] _ hb2, sectionsAux_header h3 k3 _ k2 _ _ hk3]
  have := sectionsAux_body b3 [] k3 [] ([] ++ [(k1, (b1.reverse ++ []).reverse)] ++ [(k2, (b2.reverse ++ []).reverse)]) hb3
  rw [append_nil] at this
  rw [this, sectionsAux_end]
  simp

/-- **Sections (without styles).** -/
theorem sections_two (h1 h3 : Str) (k1 k3 : SecKind) (b1 b3 : List Str)
    (hk1 : secKind h1 = some k1) (hk3 : secKind h3 = some k3)
    (hb1 : ∀ l ∈ b1, secKind l = none) (hb3 : ∀ l ∈ b3, secKind l = none) :
    sections (h1 :: b1 ++ h3 :: b3) = some [(k1, b1), (k3, b3)] := by
  unfold sections
  rw [cons_append, sectionsAux]
  simp only [hk1]
  rw [sectionsAux_body b1 _ k1 [] _ hb1, sectionsAux_header h3 k3 _ k1 _ _ hk3]
  have := sectionsAux_body b3 [] k3 [] ([] ++ [(k1, (b1.reverse ++ []).reverse)]) hb3
  rw [append_nil] at this
  rw [this, sectionsAux_end]
  simp

end SSAW
end Astisub
