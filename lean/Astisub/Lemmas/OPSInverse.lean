import Astisub.Lemmas.OpsFragment
import Astisub.Lemmas.OpsUnfragment

/-!
# Lemmas/OPSInverse — `Unfragment` re-assembles what `Fragment` cut

* `Run s e a ps`: `ps` are consecutive non-empty pieces with text `s` covering `[a, e)`.
* `cut_run`: the pieces of one cue form a `Run` from its start to its end.
* `absorb_run`: the inner loop of `Unfragment`, started on a cue that ends where a `Run`
  begins, swallows exactly that run (whatever else is interleaved in the ordered list, as long
  as the other same-text cues start after the run's end).
* `unfragLoop_pieces`: the outer loop on any start-ordered arrangement of the pieces of `xs`
  returns one cue per original cue, with the original start, end, text and content.
-/

namespace Astisub
namespace OPS
open Ops Spec List

abbrev Sorted (l : List Item) : Prop := l.Pairwise (fun a b => a.startAt ≤ b.startAt)

/-- what the inverse law compares: start, end, text and content (lines + payload), not the identity -/
def cueKey (it : Item) : Int × Int × String × (List (List String) × Nat) :=
  (it.startAt, it.endAt, it.str, it.content)

/-- consecutive non-empty pieces with text `s` covering `[a, e)` -/
def Run (s : String) (e : Int) : Int → List Item → Prop
  | a, [] => a = e
  | a, p :: ps => p.startAt = a ∧ a < p.endAt ∧ p.str = s ∧ Run s e p.endAt ps

theorem Run.le {s : String} {e : Int} : ∀ {a : Int} {ps : List Item}, Run s e a ps → a ≤ e
  | _, [], h => by simp only [Run] at h; omega
  | _, p :: ps, h => by
    obtain ⟨_, h2, _, h4⟩ := h
    have := Run.le h4
    omega

theorem Run.mem {s : String} {e : Int} : ∀ {a : Int} {ps : List Item}, Run s e a ps → ∀ p ∈ ps,
    a ≤ p.startAt ∧ p.startAt < p.endAt ∧ p.endAt ≤ e ∧ p.str = s
  | _, [], _, p, hp => by cases hp
  | a, q :: ps, h, p, hp => by
    obtain ⟨h1, h2, h3, h4⟩ := h
    rcases mem_cons.mp hp with rfl | hp
    · exact ⟨by omega, by omega, Run.le h4, h3⟩
    · have := Run.mem h4 p hp
      exact ⟨by omega, this.2.1, this.2.2.1, this.2.2.2⟩

/-- the loop of `Fragment` produces a run from the cue's start to its end (any fuel) -/
theorem cutLoop_run (f : Int) (hf : 0 < f) (fuel : Nat) (it : Item) (b : Int)
    (hb : it.startAt < b) (hpos : it.startAt < it.endAt) :
    Run it.str it.endAt it.startAt (cutLoop f fuel it b) := by
  induction fuel generalizing it b with
  | zero => exact ⟨rfl, hpos, rfl, rfl⟩
  | succ fuel ih =>
    unfold cutLoop
    by_cases hlt : b < it.endAt
    · simp only [hlt, ↓reduceIte]
      exact ⟨rfl, hb, rfl, ih { it with startAt := b } (b + f) (by simp only; omega) hlt⟩
    · simp only [hlt, ↓reduceIte]
      exact ⟨rfl, hpos, rfl, rfl⟩

theorem cut_run (f : Int) (hf : 0 < f) (it : Item) (hpos : it.startAt < it.endAt) :
    Run it.str it.endAt it.startAt (cut f it) := by
  unfold cut
  exact cutLoop_run f hf _ it _ (firstBoundary_spec f it.startAt hf).2.2 hpos

/-- The inner loop of `Unfragment` swallows a run.  `cur` ends where the run `ps` begins; the
    ordered tail `T` consists of the run and of other cues `M`, each of which has another text or
    starts after the run's end `E`.  Then `cur` is extended to `E` and exactly `M` is left. -/
theorem absorb_run (s : String) (E : Int) (T : List Item) : ∀ (cur : Item) (ps M : List Item),
    cur.str = s → Run s E cur.endAt ps → Sorted T → T ~ ps ++ M →
    (∀ m ∈ M, m.str ≠ s ∨ E < m.startAt) →
    (absorb cur T).1 = { cur with endAt := E } ∧ (absorb cur T).2 ~ M := by
  induction T with
  | nil =>
    intro cur ps M _ hrun _ hp _
    have hnil : ps ++ M = [] := by simpa using hp
    obtain ⟨rfl, rfl⟩ := append_eq_nil_iff.mp hnil
    have hE : cur.endAt = E := hrun
    subst hE
    exact ⟨rfl, Perm.refl _⟩
  | cons y T0 ih =>
    intro cur ps M hstr hrun hs hp hM
    have hle : cur.endAt ≤ E := hrun.le
    have hy : y ∈ ps ++ M := hp.subset (by simp)
    have hT0 : Sorted T0 := (pairwise_cons.mp hs).2
    rw [absorb_cons]
    by_cases h1 : cur.str = y.str ∧ cur.endAt ≥ y.startAt
    · -- merge: `y` is the head of the run
      simp only [h1, and_self, ↓reduceIte]
      have hyM : y ∉ M := by
        intro hm
        rcases hM y hm with h | h
        · exact h (by rw [← h1.1, hstr])
        · omega
      have hyps : y ∈ ps := by
        rcases mem_append.mp hy with h | h
        · exact h
        · exact absurd h hyM
      cases ps with
      | nil => cases hyps
      | cons p ps' =>
        obtain ⟨hp1, hp2, hp3, hp4⟩ := hrun
        have hyp : y = p := by
          rcases mem_cons.mp hyps with h | h
          · exact h
          · have := (Run.mem hp4 y h).1
            omega
        subst hyp
        have hext : extend cur y = { cur with endAt := y.endAt } := by
          unfold extend; simp [hp2]
        rw [hext]
        have hp' : T0 ~ ps' ++ M := Perm.cons_inv (a := y) hp
        exact ih { cur with endAt := y.endAt } ps' M hstr hp4 hT0 hp' hM
    · simp only [h1, ↓reduceIte]
      by_cases h2 : cur.endAt < y.startAt
      · -- break: the run is exhausted
        simp only [h2, ↓reduceIte]
        cases ps with
        | nil =>
          have hE : cur.endAt = E := hrun
          subst hE
          exact ⟨rfl, by simpa using hp⟩
        | cons p ps' =>
          exfalso
          obtain ⟨hp1, _, _, _⟩ := hrun
          have hpm : p ∈ y :: T0 := hp.symm.subset (by simp)
          rcases mem_cons.mp hpm with rfl | hpm
          · omega
          · have := (pairwise_cons.mp hs).1 p hpm
            omega
      · -- skip: `y` has another text
        simp only [h2, ↓reduceIte]
        have hne : cur.str ≠ y.str := fun he => h1 ⟨he, by omega⟩
        have hyps : y ∉ ps := by
          intro h
          exact hne (by rw [hstr, (Run.mem hrun y h).2.2.2])
        have hyM : y ∈ M := by
          rcases mem_append.mp hy with h | h
          · exact absurd h hyps
          · exact h
        have hMe : M ~ y :: M.erase y := perm_cons_erase hyM
        have hp' : T0 ~ ps ++ M.erase y := by
          have h3 : y :: T0 ~ y :: (ps ++ M.erase y) :=
            hp.trans ((Perm.append_left ps hMe).trans perm_middle)
          exact h3.cons_inv
        have := ih cur ps (M.erase y) hstr hrun hT0 hp'
          (fun m hm => hM m (mem_of_mem_erase hm))
        exact ⟨this.1, (Perm.cons y this.2).trans hMe.symm⟩

theorem not_touch_symm {a b : Item} (h : ¬ Touch a b) : ¬ Touch b a := by
  unfold Touch at *
  rintro ⟨h1, h2, h3⟩
  exact h ⟨h1.symm, h3, h2⟩

/-- hypotheses of the inverse law that do not depend on the order of the list -/
structure Separated (xs : List Item) : Prop where
  /-- every cue has positive length -/
  pos : ∀ it ∈ xs, it.startAt < it.endAt
  /-- no two cues (at distinct positions) have the same text and touching intervals -/
  apart : xs.Pairwise (fun a b => ¬ Touch a b)

theorem Separated.perm {xs ys : List Item} (h : Separated xs) (p : xs ~ ys) : Separated ys :=
  ⟨fun it hit => h.pos it (p.symm.subset hit),
   (Perm.pairwise_iff (fun h => not_touch_symm h) p).mp h.apart⟩

theorem Separated.tail {c : Item} {xs : List Item} (h : Separated (c :: xs)) : Separated xs :=
  ⟨fun it hit => h.pos it (by simp [hit]), (pairwise_cons.mp h.apart).2⟩

/-- The outer loop of `Unfragment` on any start-ordered arrangement `L` of the pieces of the cues
    `xs`: one cue per original cue, with the original start, end, text and content. -/
theorem unfragLoop_pieces (f : Int) (hf : 0 < f) : ∀ (n : Nat) (xs : List Item), xs.length = n →
    Separated xs → ∀ L, Sorted L → L ~ xs.flatMap (cut f) →
    (unfragLoop L).map cueKey ~ xs.map cueKey := by
  intro n
  induction n with
  | zero =>
    intro xs hlen _ L _ hp
    have : xs = [] := length_eq_zero_iff.mp hlen
    subst this
    have : L = [] := by simpa using hp
    subst this
    rw [unfragLoop_nil]
  | succ n ih =>
    intro xs hlen hsep L hs hp
    cases L with
    | nil =>
      exfalso
      cases xs with
      | nil => simp at hlen
      | cons c t =>
        have hfm : (c :: t).flatMap (cut f) = [] := by simpa using hp
        rw [flatMap_cons] at hfm
        have hc : cut f c = [] := (append_eq_nil_iff.mp hfm).1
        have hrun := cut_run f hf c (hsep.pos c (by simp))
        rw [hc] at hrun
        have hpos := hsep.pos c (by simp)
        have : c.startAt = c.endAt := hrun
        omega
    | cons x T =>
      have hxm : x ∈ xs.flatMap (cut f) := hp.subset (by simp)
      obtain ⟨c, hc, hxc⟩ := mem_flatMap.mp hxm
      have hperm : xs ~ c :: xs.erase c := perm_cons_erase hc
      have hsep' : Separated (c :: xs.erase c) := hsep.perm hperm
      have hp' : x :: T ~ cut f c ++ (xs.erase c).flatMap (cut f) := by
        have := hp.trans (hperm.flatMap_right (cut f))
        rwa [flatMap_cons] at this
      have hcpos : c.startAt < c.endAt := hsep.pos c hc
      have hrun := cut_run f hf c hcpos
      have hcontent := (cut_pieces f hf c).content x hxc
      have hT : Sorted T := (pairwise_cons.mp hs).2
      have hxT : ∀ y ∈ T, x.startAt ≤ y.startAt := (pairwise_cons.mp hs).1
      -- the head of the ordered list is the first piece of `c`
      cases hcut : cut f c with
      | nil => rw [hcut] at hxc; cases hxc
      | cons p ps =>
        rw [hcut] at hxc hp' hrun
        obtain ⟨hp1, hp2, hp3, hp4⟩ := hrun
        have hxp : x = p := by
          rcases mem_cons.mp hxc with h | h
          · exact h
          · have h5 := (Run.mem hp4 x h).1
            have hpm : p ∈ x :: T := hp'.symm.subset (by simp)
            rcases mem_cons.mp hpm with h6 | h6
            · exact h6.symm
            · have := hxT p h6
              omega
        subst hxp
        have hTp : T ~ ps ++ (xs.erase c).flatMap (cut f) := Perm.cons_inv (a := x) hp'
        -- the pieces of the other cues either have another text or start after `c` ended
        have hM : ∀ m ∈ (xs.erase c).flatMap (cut f), m.str ≠ c.str ∨ c.endAt < m.startAt := by
          intro m hm
          obtain ⟨d, hd, hmd⟩ := mem_flatMap.mp hm
          have hdpos := hsep'.pos d (by simp [hd])
          have hmr := Run.mem (cut_run f hf d hdpos) m hmd
          by_cases hstr : d.str = c.str
          · right
            have hnt : ¬ Touch c d := (pairwise_cons.mp hsep'.apart).1 d hd
            have hmT : m ∈ T := hTp.symm.subset (by simp [hm])
            have := hxT m hmT
            by_cases hcase : c.endAt < d.startAt
            · omega
            · exfalso
              apply hnt
              refine ⟨hstr.symm, ?_, by omega⟩
              -- otherwise `d` ended before `c` started, but a piece of `d` is at or after the head
              by_cases h7 : c.startAt ≤ d.endAt
              · exact h7
              · omega
          · left
            rw [hmr.2.2.2]; exact hstr
        obtain ⟨ha1, ha2⟩ := absorb_run c.str c.endAt T x ps _ hp3 hp4 hT hTp hM
        rw [unfragLoop_cons, map_cons]
        have hkey : cueKey (absorb x T).1 = cueKey c := by
          rw [ha1]
          unfold cueKey
          have h8 : ({ x with endAt := c.endAt } : Item).str = c.str := hp3
          have h9 : ({ x with endAt := c.endAt } : Item).content = c.content := hcontent
          rw [h8, h9]
          simp only [hp1]
        rw [hkey]
        have hlen' : (xs.erase c).length = n := by
          rw [length_erase_of_mem hc, hlen]; rfl
        have hsub : Sorted (absorb x T).2 := hT.sublist (absorb_sublist x T)
        have ih' := ih (xs.erase c) hlen' hsep'.tail _ hsub ha2
        exact (Perm.cons _ ih').trans (hperm.map cueKey).symm

end OPS
end Astisub
