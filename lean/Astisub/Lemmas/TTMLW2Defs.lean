import Astisub.Lemmas.TTMLRead2Main
import Astisub.Lemmas.TTMLDocRead

/-!
# Lemmas/TTMLW2Defs — the writer's tokens as the independent decoder is fed them (C03, W2)

The `ttml.write` case of `Driver.handleTTML` prints the model's answer as `resolve w` (`w = TTML.write s`, the element
tree with the names of the struct tags) and compares it with the name-space-resolved tokens of the written bytes; the
specification predicate runs `Spec.TTML.decode ∘ specToks` on those tokens.  Here: `specToks (resolve w)` token by
token (`sTok`, `rAttr`), the resolved names of everything the writer emits, and the class `repW` of cue lists on which
the decoder's answer is proved to be `docOf s`.
-/

namespace Astisub
namespace TTMLW2
open Go TTML List
open Driver.TTMLD (specToks resolve resolveEl resolveAttr nsTTML nsTTS nsTTM nsXML)

abbrev XAttr := Str × Str × Str

/-- an attribute of the writer's tree, name space resolved -/
def rAttr (kv : Str × Str) : XAttr := ((resolveAttr kv.1).1, (resolveAttr kv.1).2, kv.2)

/-- a token of the writer's tree as the decoder sees it -/
def sTok : WTok → Spec.TTML.Tok
  | .start n a => .start (resolveEl n).1 (resolveEl n).2 (a.map rAttr)
  | .stop _ => .stop
  | .text s => .text s

theorem specToks_resolve (w : List WTok) : specToks (resolve w) = w.map sTok := by
  unfold specToks resolve
  rw [map_map]
  apply map_congr_left
  intro t _
  cases t with
  | start n a =>
    simp only [Function.comp, sTok]
    congr 1
  | stop n => rfl
  | text s => rfl

/-! ### names -/

theorem splitName_eq (n : Str) : Driver.TTMLD.splitName n = TTMLDoc.splitName n := rfl

theorem el_tt : resolveEl "tt".toList = (nsTTML, ['t', 't']) := by decide
theorem el_head : resolveEl "head".toList = (nsTTML, ['h', 'e', 'a', 'd']) := by decide
theorem el_metadata : resolveEl "metadata".toList = (nsTTML, ['m', 'e', 't', 'a', 'd', 'a', 't', 'a']) := by decide
theorem el_copyright : resolveEl "ttm:copyright".toList = (nsTTM, ['c', 'o', 'p', 'y', 'r', 'i', 'g', 'h', 't']) := by decide
theorem el_title : resolveEl "ttm:title".toList = (nsTTM, ['t', 'i', 't', 'l', 'e']) := by decide
theorem el_styling : resolveEl "styling".toList = (nsTTML, ['s', 't', 'y', 'l', 'i', 'n', 'g']) := by decide
theorem el_style : resolveEl "style".toList = (nsTTML, ['s', 't', 'y', 'l', 'e']) := by decide
theorem el_layout : resolveEl "layout".toList = (nsTTML, ['l', 'a', 'y', 'o', 'u', 't']) := by decide
theorem el_region : resolveEl "region".toList = (nsTTML, ['r', 'e', 'g', 'i', 'o', 'n']) := by decide
theorem el_body : resolveEl "body".toList = (nsTTML, ['b', 'o', 'd', 'y']) := by decide
theorem el_div : resolveEl "div".toList = (nsTTML, ['d', 'i', 'v']) := by decide
theorem el_p : resolveEl "p".toList = (nsTTML, ['p']) := by decide
theorem el_span : resolveEl "span".toList = (nsTTML, ['s', 'p', 'a', 'n']) := by decide
theorem el_br : resolveEl "br".toList = (nsTTML, ['b', 'r']) := by decide

theorem rAttr_of {k v sp l : Str} (h : resolveAttr k = (sp, l)) : rAttr (k, v) = (sp, l, v) := by
  unfold rAttr; rw [h]

theorem at_xmlns (v : Str) : rAttr ("xmlns".toList, v) = ([], "xmlns".toList, v) :=
  rAttr_of (by decide : resolveAttr "xmlns".toList = ([], "xmlns".toList))
theorem at_xmlnsttm (v : Str) : rAttr ("xmlns:ttm".toList, v) = ("xmlns".toList, "ttm".toList, v) :=
  rAttr_of (by decide : resolveAttr "xmlns:ttm".toList = ("xmlns".toList, "ttm".toList))
theorem at_xmlnstts (v : Str) : rAttr ("xmlns:tts".toList, v) = ("xmlns".toList, "tts".toList, v) :=
  rAttr_of (by decide : resolveAttr "xmlns:tts".toList = ("xmlns".toList, "tts".toList))
theorem at_xmllang (v : Str) : rAttr ("xml:lang".toList, v) = (nsXML, "lang".toList, v) :=
  rAttr_of (by decide : resolveAttr "xml:lang".toList = (nsXML, "lang".toList))
theorem at_xmlid (v : Str) : rAttr ("xml:id".toList, v) = (nsXML, "id".toList, v) :=
  rAttr_of (by decide : resolveAttr "xml:id".toList = (nsXML, "id".toList))
theorem at_style (v : Str) : rAttr ("style".toList, v) = ([], "style".toList, v) :=
  rAttr_of (by decide : resolveAttr "style".toList = ([], "style".toList))
theorem at_region (v : Str) : rAttr ("region".toList, v) = ([], "region".toList, v) :=
  rAttr_of (by decide : resolveAttr "region".toList = ([], "region".toList))
theorem at_begin (v : Str) : rAttr ("begin".toList, v) = ([], "begin".toList, v) :=
  rAttr_of (by decide : resolveAttr "begin".toList = ([], "begin".toList))
theorem at_end (v : Str) : rAttr ("end".toList, v) = ([], "end".toList, v) :=
  rAttr_of (by decide : resolveAttr "end".toList = ([], "end".toList))

/-- a `tts:*` attribute of the table -/
theorem at_tts {p : String × String} (hp : p ∈ attrTable) (v : Str) :
    rAttr (("tts:" ++ p.2).toList, v) = (nsTTS, p.2.toList, v) := by
  have h := TTMLDoc.splitName_tts p hp
  have e : resolveAttr ("tts:" ++ p.2).toList = (nsTTS, p.2.toList) := by
    unfold resolveAttr
    rw [splitName_eq, h]
    have h1 : ("tts".toList = "xmlns".toList) = False := by decide
    have h2 : ("tts".toList = "xml".toList) = False := by decide
    simp only [h1, h2, if_false, if_true]
  exact rAttr_of e

end TTMLW2
end Astisub
