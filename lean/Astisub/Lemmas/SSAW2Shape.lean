import Astisub.Lemmas.SSAW2Lines
import Astisub.Lemmas.SSAW2Info

/-!
# Lemmas/SSAW2Shape — the written document as the list of lines the decoder works on

* `written_lines`: `out = unlines (docLinesW …)` with every line spelled out;
* `specLines_written`: after the decoder's line splitting, trimming and blank-line removal the lines are
  `[Script Info]`, the trimmed script-info body, the trimmed styles block, the trimmed events block.
-/

namespace Astisub
namespace SSAW
open Go SSA SSAR List
open Spec.SSA (splitLines)

/-- the raw lines of the script-info block after its header -/
def infoRaw (b : Info) : List Str :=
  b.comments.map (fun c => "; ".toList ++ c) ++ (infoTriples b SI.all).map fun p => kvLine p.1.header.toList p.2.2

/-- the raw lines of the written document -/
def docLinesW (s : Subs) (rows : List Str) : List Str :=
  "[Script Info]".toList :: infoRaw (infoOfMeta s.metadata)
    ++ stylesBlock (isV4plus s) (formatFlds (writerStyles s)) rows
    ++ eventsBlock (isV4plus s) (s.items.map eventOfItem)

/-- **Shape of the written document**, every line spelled out. -/
theorem written_lines (s : Subs) (out : Str) (h : write s = .ok out) :
    ∃ rows, allSome ((writerStyles s).map fun st => st.row (formatOf (formatFlds (writerStyles s)))) = some rows ∧
      out = unlines (docLinesW s rows) := by
  obtain ⟨infoTxt, rows, hi, hrows, rfl⟩ := write_ok_lines s out h
  refine ⟨rows, hrows, ?_⟩
  rw [bytes_eq] at hi
  cases hgo : Info.bytes.go (fieldLine (infoOfMeta s.metadata)) SI.all with
  | none => rw [hgo] at hi; cases hi
  | some ls =>
    rw [hgo] at hi
    simp only [Option.map_some, Option.some.injEq] at hi
    subst hi
    rw [go_triples _ _ _ hgo]
    unfold docLinesW infoRaw
    simp only [unlines_append, unlines_cons, append_assoc, cons_append]

/-! ### trimming and dropping blank lines -/

/-- what `Spec.SSA.decode` does to the raw lines -/
def trimFilter (ls : List Str) : List Str := (ls.map trimSpace).filter fun l => !l.isEmpty

theorem trimFilter_append (a b : List Str) : trimFilter (a ++ b) = trimFilter a ++ trimFilter b := by
  unfold trimFilter; rw [map_append, filter_append]

theorem trimFilter_blank (ls : List Str) : trimFilter ([] :: ls) = trimFilter ls := by
  unfold trimFilter
  rw [map_cons, show trimSpace [] = [] by decide]
  rfl

theorem trimFilter_cons (l t : Str) (ls : List Str) (h : trimSpace l = t) (hne : t ≠ []) :
    trimFilter (l :: ls) = t :: trimFilter ls := by
  unfold trimFilter
  rw [map_cons, h]
  cases t with
  | nil => exact absurd rfl hne
  | cons c cs => rfl

theorem trimFilter_map {α} (f g : α → Str) : ∀ (l : List α), (∀ a ∈ l, trimSpace (f a) = g a ∧ g a ≠ []) →
    trimFilter (l.map f) = l.map g := by
  intro l
  induction l with
  | nil => intro _; rfl
  | cons a l ih =>
    intro h
    rw [map_cons, map_cons, trimFilter_cons _ _ _ (h a mem_cons_self).1 (h a mem_cons_self).2,
      ih fun x hx => h x (mem_cons_of_mem _ hx)]

theorem trimFilter_kvLines {α} (hdr : α → Str) (content : α → Str) (l : List α)
    (h : ∀ a ∈ l, HeaderOK (hdr a) ∧ Trimmed (content a)) :
    trimFilter (l.map fun a => kvLine (hdr a) (content a)) = l.map fun a => kvTrim (hdr a) (content a) :=
  trimFilter_map _ _ l fun a ha =>
    ⟨trimSpace_kvLine _ _ (h a ha).1 (h a ha).2, kvTrim_ne_nil _ _⟩

/-- the trimmed lines of the styles block -/
def stylesT (v4plus : Bool) (fs : List Fld) (rows : List Str) : List Str :=
  if rows = [] then [] else
  [if v4plus then "[V4+ Styles]".toList else "[V4 Styles]".toList, kvTrim "Format".toList (join ", ".toList (formatOf fs))]
    ++ rows.map (kvTrim "Style".toList)

/-- the trimmed lines of the events block -/
def eventsT (v4plus : Bool) (es : List Event) : List Str :=
  ["[Events]".toList, kvTrim "Format".toList (join ", ".toList (eventFormat v4plus))]
    ++ es.map fun e => kvTrim "Dialogue".toList (e.row v4plus)

theorem trimFilter_info (b : Info) (hb : InfoDec b) : trimFilter (infoRaw b) = infoBody b := by
  unfold infoRaw infoBody
  rw [trimFilter_append]
  congr 1
  · apply trimFilter_map
    intro c hc
    have ht := (hb.1.1 c hc).1
    exact ⟨trimSpace_commentLine c ht, by simp [commentTrim]⟩
  · apply trimFilter_kvLines (fun p : SI × Val × Str => p.1.header.toList) (fun p => p.2.2)
    rintro ⟨f, v, t⟩ hp
    obtain ⟨_, hget, ht⟩ := mem_infoTriples.mp hp
    have hs : SIOK f v := hb.1.2 f (si_all_complete f) v hget
    exact ⟨si_headerOK f, (value_text f v t hs (valTimer_of b hb f v hget) ht).1⟩

theorem trimFilter_styles (v4plus : Bool) (fs : List Fld) (rows : List Str) (hr : ∀ r ∈ rows, Trimmed r) :
    trimFilter (stylesBlock v4plus fs rows) = stylesT v4plus fs rows := by
  unfold stylesBlock stylesT
  by_cases h0 : rows = []
  · rw [if_pos h0, if_pos h0]; rfl
  · rw [if_neg h0, if_neg h0, cons_append, trimFilter_blank, cons_append,
      trimFilter_cons _ (if v4plus then "[V4+ Styles]".toList else "[V4 Styles]".toList) _ (by cases v4plus <;> decide)
        (by cases v4plus <;> decide),
      cons_append, nil_append, formatLine_kv,
      trimFilter_cons _ _ _ (trimSpace_kvLine _ _ (by decide) (format_cols _ (formatOf_cols fs).1 (formatOf_cols fs).2).2)
        (kvTrim_ne_nil _ _)]
    congr 2
    have : rows.map styleLine = rows.map fun r => kvLine "Style".toList r := by
      apply map_congr_left; intro r _; exact styleLine_kv r
    rw [this]
    exact trimFilter_kvLines (fun _ => "Style".toList) id rows fun r hr' => ⟨by decide, hr r hr'⟩

theorem trimFilter_events (v4plus : Bool) (es : List Event) (he : ∀ e ∈ es, Trimmed e.text) :
    trimFilter (eventsBlock v4plus es) = eventsT v4plus es := by
  unfold eventsBlock eventsT
  rw [cons_append, trimFilter_blank, cons_append, trimFilter_cons _ "[Events]".toList _ (by decide) (by decide),
    cons_append, nil_append, formatLine_kv,
    trimFilter_cons _ _ _ (trimSpace_kvLine _ _ (by decide)
      (format_cols _ (eventFormat_cols v4plus).1 (eventFormat_cols v4plus).2).2) (kvTrim_ne_nil _ _)]
  congr 2
  have : es.map (dialogueLine v4plus) = es.map fun e => kvLine "Dialogue".toList (e.row v4plus) := by
    apply map_congr_left; intro e _; exact dialogueLine_kv v4plus e
  rw [this]
  exact trimFilter_kvLines (fun _ => "Dialogue".toList) (fun e => e.row v4plus) es
    fun e he' => ⟨by decide, trimmed_event_row e v4plus (he e he')⟩

/-- the lines the decoder works on -/
def docLinesT (s : Subs) (rows : List Str) : List Str :=
  "[Script Info]".toList :: infoBody (infoOfMeta s.metadata)
    ++ stylesT (isV4plus s) (formatFlds (writerStyles s)) rows
    ++ eventsT (isV4plus s) (s.items.map eventOfItem)

theorem trimFilter_doc (s : Subs) (rows : List Str) (hb : InfoDec (infoOfMeta s.metadata)) (hr : ∀ r ∈ rows, Trimmed r)
    (he : ∀ e ∈ s.items.map eventOfItem, Trimmed e.text) :
    trimFilter (docLinesW s rows) = docLinesT s rows := by
  unfold docLinesW docLinesT
  rw [trimFilter_append, trimFilter_append, trimFilter_cons _ "[Script Info]".toList _ (by decide) (by decide),
    trimFilter_info _ hb, trimFilter_styles _ _ _ hr, trimFilter_events _ _ he]

/-! ### the decoder's lines -/

theorem mem_unlines_line {c : Char} {ls : List Str} {l : Str} (hl : l ∈ ls) (hc : c ∈ l) : c ∈ unlines ls := by
  unfold unlines
  rw [mem_flatten]
  exact ⟨l ++ ['\n'], mem_map.mpr ⟨l, hl, rfl⟩, mem_append_left _ hc⟩

/-- **The decoder's lines.** If no raw line contains LF and the text contains no CR, the lines `Spec.SSA.decode`
    works on are the trimmed lines. -/
theorem specLines_written (s : Subs) (rows : List Str) (hb : InfoDec (infoOfMeta s.metadata))
    (hr : ∀ r ∈ rows, Trimmed r) (he : ∀ e ∈ s.items.map eventOfItem, Trimmed e.text)
    (hnl : ∀ l ∈ docLinesW s rows, '\n' ∉ l) (hcr : '\r' ∉ unlines (docLinesW s rows)) :
    specLines (unlines (docLinesW s rows)) = docLinesT s rows := by
  have hstrip : stripBom (unlines (docLinesW s rows)) = unlines (docLinesW s rows) := by
    unfold docLinesW
    rw [cons_append, cons_append, unlines_cons]
    rfl
  unfold specLines
  rw [hstrip, splitLines_unlines _ fun l hl => ⟨hnl l hl, fun hc => hcr (mem_unlines_line hl hc)⟩]
  exact trimFilter_doc s rows hb hr he

end SSAW
end Astisub
