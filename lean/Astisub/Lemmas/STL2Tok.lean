import Astisub.Lemmas.STLDomain
import Astisub.Spec.STL

/-!
# Lemmas/STL2Tok — one abstract row machine for both readers of an open-subtitling row

The text field of a TTI block, as the writer emits it, is a sequence of *tokens*: a style code (0x80–0x85),
the bytes of a repertoire unit (a carried table character, or a floating diacritic followed by its letter),
or the padding byte 0x8F.  `absStep` is what one token does to "runs closed so far / pending text / current
style".  Both the model of the library's reader (`STL.openFold`, `STL.openRow`) and the independent decoder
(`Spec.STL.openRow`) are shown to be this machine on token sequences, so that everything that is proved about
the machine afterwards holds for both.
-/

namespace Astisub
namespace C05
open Go STL

/-- the three STL style attributes of a run, as the readers keep them: unset, on, off
    (italics, underline, boxing) -/
abbrev O3 := Option Bool × Option Bool × Option Bool

/-- a run as both readers see it: trimmed text and style -/
abbrev Seg := Str × O3

inductive Tok where
  | code (c : Nat)
  | unit (u : Unit)
  | pad

def Tok.bytes : Tok → Bytes
  | .code c => [c]
  | .unit u => u.bytes
  | .pad => [0x8F]

def Tok.ok : Tok → Prop
  | .code c => isCode c
  | .unit u => RepUnit u
  | .pad => True

/-- the effect of a style code -/
def setO3 (s : O3) (c : Nat) : O3 :=
  if c = 0x80 then (some true, s.2.1, s.2.2)
  else if c = 0x81 then (some false, s.2.1, s.2.2)
  else if c = 0x82 then (s.1, some true, s.2.2)
  else if c = 0x83 then (s.1, some false, s.2.2)
  else if c = 0x84 then (s.1, s.2.1, some true)
  else if c = 0x85 then (s.1, s.2.1, some false)
  else s

/-- closing the pending text: a run, unless the text is blank -/
def close (t : Str) (s : O3) : List Seg := if trimSpace t = [] then [] else [(trimSpace t, s)]

theorem close_nil (s : O3) : close [] s = [] := rfl

structure AS where
  out : List Seg
  t : Str
  s : O3

def absStep (a : AS) : Tok → AS
  | .code c => { out := a.out ++ close a.t a.s, t := [], s := setO3 a.s c }
  | .unit u => { a with t := a.t ++ str u.text }
  | .pad => a

def absFold (a : AS) (ts : List Tok) : AS := ts.foldl absStep a

/-- the runs of the row once the last pending text is closed -/
def absEnd (a : AS) : List Seg := a.out ++ close a.t a.s

def AS.init : AS := { out := [], t := [], s := (none, none, none) }

theorem absFold_append (a : AS) (x y : List Tok) : absFold a (x ++ y) = absFold (absFold a x) y := by
  unfold absFold; rw [List.foldl_append]

theorem absFold_nil (a : AS) : absFold a [] = a := rfl
theorem absFold_cons (a : AS) (t : Tok) (ts : List Tok) : absFold a (t :: ts) = absFold (absStep a t) ts := rfl

theorem absFold_pads (a : AS) (k : Nat) : absFold a (List.replicate k Tok.pad) = a := by
  induction k with
  | zero => rfl
  | succ k ih => rw [List.replicate_succ, absFold_cons]; exact ih

theorem flatMap_pads (k : Nat) : (List.replicate k Tok.pad).flatMap Tok.bytes = List.replicate k 0x8F := by
  induction k with
  | zero => rfl
  | succ k ih => rw [List.replicate_succ, List.flatMap_cons, ih]; rfl

/-! ## the model of the library's reader is the machine -/

def lsty (s : O3) : LSty := { italics := s.1, underline := s.2.1, boxing := s.2.2 }

/-- the run the library's reader builds -/
def itemOf (g : Seg) : LItem := { text := g.1, attrs := some (mkAttrs (stlAttrs (lsty g.2))) }

def mst (a : AS) : RowSt := { items := a.out.map itemOf, text := a.t, sty := lsty a.s, acc := none, started := false }

theorem stlCode_lsty (s : O3) (c : Nat) (h : isCode c) : stlCode (lsty s) c = some (lsty (setO3 s c)) := by
  unfold isCode at h
  have : c = 0x80 ∨ c = 0x81 ∨ c = 0x82 ∨ c = 0x83 ∨ c = 0x84 ∨ c = 0x85 := by omega
  rcases this with rfl | rfl | rfl | rfl | rfl | rfl <;> rfl

theorem appendOpen_mst (a : AS) : appendOpen (mst a) = (a.out ++ close a.t a.s).map itemOf := by
  unfold appendOpen close mst
  simp only
  by_cases h : trimSpace a.t = []
  · simp [h]
  · simp [h, itemOf]

theorem model_tok (a : AS) (tok : Tok) (h : tok.ok) : openFold (mst a) tok.bytes = some (mst (absStep a tok)) := by
  cases tok with
  | code c =>
    have hc : isCode c := h
    have hlo : ¬ c ≤ 0x1F := by unfold isCode at hc; omega
    have hstep : openStep (mst a) c = some (mst (absStep a (.code c))) := by
      unfold openStep
      have e : (mst a).sty = lsty a.s := rfl
      rw [if_neg hlo, e, stlCode_lsty a.s c hc]
      simp only
      by_cases ht : a.t = []
      · have e1 : (mst a).text = [] := ht
        rw [if_neg (by rw [e1]; exact fun h => h rfl)]
        simp [mst, absStep, ht, close_nil]
      · have e1 : (mst a).text ≠ [] := ht
        rw [if_pos e1, appendOpen_mst]
        simp [mst, absStep]
    simp only [Tok.bytes, openFold, hstep]
  | unit u =>
    have hu : RepUnit u := h
    have hg := repUnit_good hu
    simp only [Tok.bytes]
    rw [openFold_text _ (fun b hb => tableByte_textByte (repUnit_bytes hu b hb))]
    have e : (mst a).acc = none := rfl
    rw [e, hg.2.1]
    simp [mst, absStep]
  | pad =>
    exact openFold_pad 1 (mst a)

theorem model_toks (ts : List Tok) (h : ∀ t ∈ ts, t.ok) (a : AS) :
    openFold (mst a) (ts.flatMap Tok.bytes) = some (mst (absFold a ts)) := by
  induction ts generalizing a with
  | nil => rfl
  | cons t ts ih =>
    rw [List.flatMap_cons, openFold_append, model_tok a t (h t (by simp))]
    simp only
    rw [ih (fun x hx => h x (by simp [hx])), absFold_cons]

/-- **library reader, one row**: on a token sequence `parseOpenSubtitleRow` returns the machine's runs (as one
    line, or no line when there is none) and leaves no diacritic pending -/
theorem model_row (ts : List Tok) (h : ∀ t ∈ ts, t.ok) :
    STL.openRow none (ts.flatMap Tok.bytes) =
      some (if (absEnd (absFold AS.init ts)).isEmpty then none
            else some { items := (absEnd (absFold AS.init ts)).map itemOf }, none) := by
  unfold STL.openRow
  have e : ({ acc := none } : RowSt) = mst AS.init := rfl
  rw [e, model_toks ts h]
  simp only [appendOpen_mst]
  unfold absEnd
  simp [mst]

/-! ## the independent decoder is the machine -/

def ssty (s : O3) : Spec.STL.Sty := { italic := s.1, underline := s.2.1, boxing := s.2.2 }

/-- the run the independent decoder denotes -/
def runOf (g : Seg) : Spec.STL.Run := { text := g.1, italic := g.2.1, underline := g.2.2.1, boxing := g.2.2.2 }

theorem styCode_ssty (s : O3) (c : Nat) (h : isCode c) : Spec.STL.styCode (ssty s) c = some (ssty (setO3 s c)) := by
  unfold isCode at h
  have : c = 0x80 ∨ c = 0x81 ∨ c = 0x82 ∨ c = 0x83 ∨ c = 0x84 ∨ c = 0x85 := by omega
  rcases this with rfl | rfl | rfl | rfl | rfl | rfl <;> rfl

theorem styCode_none (s : Spec.STL.Sty) (v : Nat) (h : ¬ (0x80 ≤ v ∧ v ≤ 0x85)) : Spec.STL.styCode s v = none := by
  unfold Spec.STL.styCode
  split <;> first | omega | rfl

theorem mkRun_close (t : Str) (s : O3) : (Spec.STL.mkRun (ssty s) t false).toList = (close t s).map runOf := by
  unfold Spec.STL.mkRun close
  by_cases h : trimSpace t = []
  · simp [h]
  · simp [h, runOf, ssty]

theorem lookup_of_mem_nodup {β} (l : List (Nat × β)) (h : (l.map (·.1)).Nodup) (k : Nat) (v : β) (hm : (k, v) ∈ l) :
    l.lookup k = some v := by
  induction l with
  | nil => cases hm
  | cons e rest ih =>
    obtain ⟨k', v'⟩ := e
    rw [List.map_cons, List.nodup_cons] at h
    rcases List.mem_cons.mp hm with heq | hr
    · cases heq; simp [List.lookup]
    · have hne : k ≠ k' := by
        intro e; subst e
        exact h.1 (List.mem_map.mpr ⟨(k, v), hr, rfl⟩)
      have hb : (k == k') = false := by simpa using hne
      rw [List.lookup_cons, hb]
      exact ih h.2 hr

/-- table facts the independent decoder needs about a carried character: a character cell, not a diacritic -/
theorem carried_spec : ∀ e ∈ carried,
    (e.1 != 0x8F && !Spec.STL.isDia e.1 && decide (Spec.STL.tab e.1 = some e.2) && !decide (e.1 < 0x20)) = true := by
  intro e he
  have hb := carried_tableByte e he
  obtain ⟨hmem, hcond⟩ := List.mem_filter.mp he
  have htab : Spec.STL.tab e.1 = some e.2 := lookup_of_mem_nodup _ table_keys_nodup e.1 e.2 hmem
  have hacc : isAccentByte e.1 = false := by
    simp only [Bool.and_eq_true, Bool.not_eq_true'] at hcond; exact hcond.1.1
  have hdia : Spec.STL.isDia e.1 = false := by
    unfold isAccentByte at hacc
    unfold Spec.STL.isDia
    simp only [Bool.and_eq_false_iff, decide_eq_false_iff_not] at hacc ⊢
    left
    rcases hacc with h | h
    · left; omega
    · right; exact h
  have h1 : (e.1 != 0x8F) = true := by unfold tableByte at hb; simp; omega
  have h4 : decide (e.1 < 0x20) = false := by unfold tableByte at hb; simp; omega
  simp [h1, hdia, htab, h4]

theorem accents_spec : ∀ a ∈ accents, (a != 0x8F && Spec.STL.isDia a) = true := by decide +kernel
theorem letters_spec : ∀ l ∈ letters, Spec.STL.isLetter l = true := by decide

theorem spec_openRow_cons (v : Nat) (rest : Bytes) (s : Spec.STL.Sty) (t : Str) (acc : List Spec.STL.Run) :
    Spec.STL.openRow (v :: rest) s t acc =
      if v == 0x8F then Spec.STL.openRow rest s t acc
      else match Spec.STL.styCode s v with
        | some s' => Spec.STL.openRow rest s' [] (acc ++ (Spec.STL.mkRun s t false).toList)
        | none =>
          if Spec.STL.isDia v then
            match rest with
            | k :: rest' =>
              if Spec.STL.isLetter k then Spec.STL.openRow rest' s (t ++ (Spec.STL.compose k v).map Char.ofNat) acc else none
            | [] => none
          else match Spec.STL.tab v with
            | some cps => if v < 0x20 then none else Spec.STL.openRow rest s (t ++ cps.map Char.ofNat) acc
            | none => none := by
  cases rest with
  | nil => rw [Spec.STL.openRow.eq_3]; rfl
  | cons k r => rw [Spec.STL.openRow.eq_2]; rfl

theorem spec_tok (a : AS) (tok : Tok) (h : tok.ok) (rest : Bytes) :
    Spec.STL.openRow (tok.bytes ++ rest) (ssty a.s) a.t (a.out.map runOf)
      = Spec.STL.openRow rest (ssty (absStep a tok).s) (absStep a tok).t ((absStep a tok).out.map runOf) := by
  cases tok with
  | code c =>
    have hc : isCode c := h
    have h8f : (c == 0x8F) = false := by unfold isCode at hc; simp; omega
    simp only [Tok.bytes, List.cons_append, List.nil_append]
    rw [spec_openRow_cons]
    simp only [h8f, Bool.false_eq_true, if_false, styCode_ssty a.s c hc, mkRun_close]
    simp [absStep]
  | unit u =>
    have hu : RepUnit u := h
    cases hu with
    | ch e he =>
      have hs := carried_spec e he
      simp only [Bool.and_eq_true, Bool.not_eq_true', bne_iff_ne, ne_eq, decide_eq_true_eq, decide_eq_false_iff_not] at hs
      obtain ⟨⟨⟨h1, h2⟩, h3⟩, h4⟩ := hs
      have hb := carried_tableByte e he
      have h8f : (e.1 == 0x8F) = false := by simpa using h1
      have hnc : Spec.STL.styCode (ssty a.s) e.1 = none := styCode_none _ _ (by unfold tableByte at hb; omega)
      simp only [Tok.bytes, charUnit, List.cons_append, List.nil_append]
      rw [spec_openRow_cons]
      simp only [h8f, Bool.false_eq_true, if_false, hnc, h2, h3, h4]
      simp [absStep, str]
    | acc ac l ha hl =>
      have hs := accents_spec ac ha
      simp only [Bool.and_eq_true, bne_iff_ne, ne_eq] at hs
      obtain ⟨h1, h2⟩ := hs
      have hb := accents_tableByte ac ha
      have h8f : (ac == 0x8F) = false := by simpa using h1
      have hnc : Spec.STL.styCode (ssty a.s) ac = none := styCode_none _ _ (by unfold tableByte at hb; omega)
      have hl' := letters_spec l hl
      have hcomp : Spec.STL.compose l ac = nfcPair l ac := rfl
      simp only [Tok.bytes, accentUnit, List.cons_append, List.nil_append]
      rw [spec_openRow_cons]
      simp only [h8f, Bool.false_eq_true, if_false, hnc, h2, if_true, hl', hcomp]
      simp [absStep, str]
  | pad =>
    simp only [Tok.bytes, List.cons_append, List.nil_append]
    rw [spec_openRow_cons]
    simp [absStep]

theorem spec_toks (ts : List Tok) (h : ∀ t ∈ ts, t.ok) (a : AS) (rest : Bytes) :
    Spec.STL.openRow (ts.flatMap Tok.bytes ++ rest) (ssty a.s) a.t (a.out.map runOf)
      = Spec.STL.openRow rest (ssty (absFold a ts).s) (absFold a ts).t ((absFold a ts).out.map runOf) := by
  induction ts generalizing a with
  | nil => rfl
  | cons t ts ih =>
    rw [List.flatMap_cons, List.append_assoc, spec_tok a t (h t (by simp)), ih (fun x hx => h x (by simp [hx])), absFold_cons]

/-- **independent decoder, one row**: on a token sequence it denotes the machine's runs -/
theorem spec_row (ts : List Tok) (h : ∀ t ∈ ts, t.ok) :
    Spec.STL.openRow (ts.flatMap Tok.bytes) {} [] [] = some ((absEnd (absFold AS.init ts)).map runOf) := by
  have := spec_toks ts h AS.init []
  rw [List.append_nil] at this
  have e : Spec.STL.openRow (ts.flatMap Tok.bytes) {} [] [] =
      Spec.STL.openRow (ts.flatMap Tok.bytes) (ssty AS.init.s) AS.init.t (AS.init.out.map runOf) := rfl
  rw [e, this, Spec.STL.openRow, mkRun_close]
  simp [absEnd]

end C05
end Astisub
