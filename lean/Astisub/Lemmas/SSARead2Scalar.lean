import Astisub.Lemmas.SSARead2Defs
import Astisub.Lemmas.SSA2Spec
import Astisub.Lemmas.SSA2Info

/-!
# Lemmas/SSARead2Scalar — the decoder's scalar readers and the model's readers agree on every cell text
-/

namespace Astisub
namespace SSAR
open Go SSA

theorem join_comma_eq_commaJoin : ∀ l : List Str, join [','] l = Spec.SSA.commaJoin l
  | [] => rfl
  | [a] => rfl
  | a :: b :: rest => by
    have ih := join_comma_eq_commaJoin (b :: rest)
    simp only [join, Spec.SSA.commaJoin] at ih ⊢
    rw [ih]; simp

/-- `absorb` (model) and `absorbLast` (decoder) are the same function -/
theorem absorb_eq (n : Nat) (cells : List Str) : absorb n cells = Spec.SSA.absorbLast n cells := by
  unfold absorb Spec.SSA.absorbLast
  rw [join_comma_eq_commaJoin]

/-- `strings.ReplaceAll(s, ",", ".")` -/
theorem replaceAll_commaToDot (s : Str) : replaceAll [','] ['.'] s = commaToDot s := by
  rw [replaceAll_single]; rfl

/-- booleans: `-1`, `1`, `0` -/
theorem atoiLoose_of_boolOf {s : Str} {b : Bool} (h : Spec.SSA.boolOf s = some b) : decide (atoiLoose s ≠ 0) = b := by
  unfold Spec.SSA.boolOf at h
  by_cases h1 : s = ['-', '1']
  · subst h1; simp at h; subst h; decide
  · by_cases h2 : s = ['1']
    · subst h2; simp at h; subst h; decide
    · by_cases h3 : s = ['0']
      · subst h3; simp at h; subst h; decide
      · simp [h1, h2, h3] at h

/-- the canonical text of a colour is read back by the view -/
theorem hexOf_hex8 (c : Nat) (h : c < 4294967296) : Spec.SSA.hexOf (hex8 c) 0 = some c := by
  have := spec_colourOf_colourString c h
  have e : "&H".toList = ['&', 'H'] := by decide
  unfold colourString at this
  rw [e] at this
  simpa [Spec.SSA.colourOf, hex8] using this

theorem digitVal_of_isDigit {c : Char} (h : Spec.SSA.isDigit c = true) : digitVal c = some (c.toNat - 48) := by
  unfold Spec.SSA.isDigit at h
  unfold digitVal
  simp only [Bool.and_eq_true, decide_eq_true_eq] at h
  simp [h]

theorem digitsVal_of_all : ∀ (s : Str) (acc : Nat), s.all Spec.SSA.isDigit = true →
    digitsVal s acc = some (s.foldl (fun a c => a * 10 + (c.toNat - 48)) acc)
  | [], _, _ => rfl
  | c :: cs, acc, h => by
    simp only [List.all_cons, Bool.and_eq_true] at h
    simp only [digitsVal, digitVal_of_isDigit h.1, List.foldl_cons]
    exact digitsVal_of_all cs _ h.2

/-- what `natOf s = some n` means -/
theorem natOf_spec {s : Str} {n : Nat} (h : Spec.SSA.natOf s = some n) :
    s ≠ [] ∧ s.all Spec.SSA.isDigit = true ∧ n = natOfDigits s := by
  unfold Spec.SSA.natOf at h
  split at h
  · cases h
  · rename_i hc
    simp only [Bool.or_eq_true, Bool.not_eq_true', not_or, Bool.not_eq_false, List.isEmpty_iff] at hc
    refine ⟨hc.1, hc.2, ?_⟩
    cases h; rfl

theorem parseDigits_of_natOf {s : Str} {n : Nat} (h : Spec.SSA.natOf s = some n) : parseDigits s = some n := by
  obtain ⟨h1, h2, h3⟩ := natOf_spec h
  unfold parseDigits
  have : s.isEmpty = false := by cases s <;> simp_all
  rw [this, h3]
  simp only [Bool.false_eq_true, ↓reduceIte]
  exact digitsVal_of_all s 0 h2

theorem isDigit_ne_sign {c : Char} (h : Spec.SSA.isDigit c = true) : c ≠ '-' ∧ c ≠ '+' := by
  constructor <;> (intro e; subst e; revert h; decide)

/-- integers: what the decoder reads as `v` (any number of digits), `strconv.Atoi` reads as `v` when it fits 64 bits -/
theorem atoi_of_intOf {s : Str} {v : Int} (h : Spec.SSA.intOf s = some v) (hr : In64 v = true) : atoi s = some v := by
  unfold In64 at hr
  simp only [Bool.and_eq_true, decide_eq_true_eq] at hr
  have e : int64Max = 9223372036854775807 := rfl
  unfold Spec.SSA.intOf at h
  split at h
  · rename_i r
    cases hn : Spec.SSA.natOf r with
    | none => rw [hn] at h; cases h
    | some n =>
      rw [hn] at h
      simp at h
      subst h
      simp only [atoi, parseDigits_of_natOf hn]
      rw [if_pos (by omega)]
  · rename_i r
    cases hn : Spec.SSA.natOf r with
    | none => rw [hn] at h; cases h
    | some n =>
      rw [hn] at h
      simp at h
      subst h
      simp only [atoi, parseDigits_of_natOf hn]
      rw [if_pos (by omega)]
  · rename_i h1 h2
    cases hn : Spec.SSA.natOf s with
    | none => rw [hn] at h; cases h
    | some n =>
      rw [hn] at h
      simp at h
      subst h
      unfold atoi
      split
      · exact absurd rfl (h1 _)
      · exact absurd rfl (h2 _)
      · simp only [parseDigits_of_natOf hn]
        rw [if_pos (by omega)]

theorem splitC_ne_nil (c : Char) : ∀ s : Str, splitC c s ≠ []
  | [] => by simp [splitC]
  | x :: xs => by
    unfold splitC
    split
    · simp
    · split <;> simp

theorem join_cons_cons (sep : Str) (x : Char) (h : Str) (t : List Str) :
    join sep ((x :: h) :: t) = x :: join sep (h :: t) := by
  cases t <;> simp [join]

/-- `strings.Join(strings.Split(s, c), c) = s` -/
theorem join_splitC (c : Char) : ∀ s : Str, join [c] (splitC c s) = s
  | [] => rfl
  | x :: xs => by
    have ih := join_splitC c xs
    unfold splitC
    split
    · rename_i hx
      rw [join_cons_ne _ _ _ (splitC_ne_nil c xs), ih, hx]; rfl
    · split
      · rename_i hnil; exact absurd hnil (splitC_ne_nil c xs)
      · rename_i h t heq
        rw [heq] at ih
        rw [join_cons_cons, ih]

theorem splitC_cons_ne {c x : Char} {xs h : Str} {t : List Str} (hx : x ≠ c) (e : splitC c xs = h :: t) :
    splitC c (x :: xs) = (x :: h) :: t := by
  rw [splitC, if_neg hx, e]

theorem splitC_cons_eq (c : Char) (xs : Str) : splitC c (c :: xs) = [] :: splitC c xs := by
  rw [splitC, if_pos rfl]

theorem splitC_mem {c : Char} : ∀ {s : Str}, c ∈ s →
    splitC c s = s.takeWhile (· ≠ c) :: splitC c (s.drop ((s.takeWhile (· ≠ c)).length + 1))
  | [], h => by cases h
  | x :: xs, h => by
    by_cases hx : x = c
    · subst hx
      simp [splitC]
    · have hm : c ∈ xs := by
        rcases List.mem_cons.1 h with e | e
        · exact absurd e.symm hx
        · exact e
      have ih := splitC_mem hm
      rw [splitC_cons_ne hx ih]
      simp [hx]

/-- `Key: value`: the decoder's splitter and the model's `strings.Split(line, ":")` agree on every line -/
theorem keyValue_split (line : Str) :
    Spec.SSA.keyValue line =
      if (splitC ':' line).length < 2 then none
      else some (trimSpace ((splitC ':' line).headD []), trimSpace (join [':'] (splitC ':' line).tail)) := by
  unfold Spec.SSA.keyValue
  by_cases hm : ':' ∈ line
  · have hc : line.contains ':' = true := by simpa using hm
    rw [if_pos hc, splitC_mem hm]
    have hlen : ¬ (List.takeWhile (fun x => decide (x ≠ ':')) line ::
          splitC ':' (List.drop ((List.takeWhile (fun x => decide (x ≠ ':')) line).length + 1) line)).length < 2 := by
      have := splitC_ne_nil ':' (List.drop ((List.takeWhile (fun x => decide (x ≠ ':')) line).length + 1) line)
      cases hs : splitC ':' (List.drop ((List.takeWhile (fun x => decide (x ≠ ':')) line).length + 1) line) with
      | nil => exact absurd hs this
      | cons a b => simp
    rw [if_neg hlen]
    simp only [List.headD_cons, List.tail_cons, join_splitC]
  · have hc : ¬ line.contains ':' = true := by simpa using hm
    rw [if_neg hc, splitC_not_mem hm]
    simp

/-- the body of `Spec.SSA.floatOf` once the sign is taken off -/
def floatBody (neg : Bool) (body : Str) : Option Nat :=
  let ip := body.takeWhile Spec.SSA.isDigit
  let rest := body.drop ip.length
  let fp : Option Str := match rest with | [] => some [] | '.' :: r => if r.all Spec.SSA.isDigit then some r else none | _ => none
  match fp with
  | none => none
  | some fp =>
    if (ip ++ fp).isEmpty || body.length > 40 then none else
    ratBits neg ((ip ++ fp).foldl (fun a c => a * 10 + (c.toNat - 48)) 0) (10 ^ fp.length)

theorem floatOf_neg (r : Str) : Spec.SSA.floatOf ('-' :: r) = floatBody true r := rfl

theorem floatOf_pos {s : Str} (h : ∀ r, s = '-' :: r → False) : Spec.SSA.floatOf s = floatBody false s := by
  unfold Spec.SSA.floatOf
  split
  rename_i neg body heq
  split at heq
  · exact absurd rfl (h _)
  · cases heq; rfl

theorem isDigC_eq : isDigC = Spec.SSA.isDigit := rfl

theorem floatBody_spec {neg : Bool} {body : Str} {b : Nat} (h : floatBody neg body = some b) :
    ∃ mant k, decimalParts body = some (mant, k) ∧ ratBits neg mant (10 ^ k) = some b ∧ body.length ≤ 40 := by
  unfold floatBody at h
  unfold decimalParts
  rw [isDigC_eq]
  simp only at h ⊢
  generalize List.takeWhile Spec.SSA.isDigit body = ip at h ⊢
  generalize List.drop ip.length body = rest at h ⊢
  rcases rest with _ | ⟨c, r⟩
  · simp only [List.append_nil] at h
    split at h
    · cases h
    · rename_i hc
      simp only [Bool.or_eq_true, decide_eq_true_eq, not_or, Bool.not_eq_true, Nat.not_lt] at hc
      refine ⟨natOfDigits ip, 0, ?_, h, hc.2⟩
      simp [hc.1]
  · by_cases hdot : c = '.'
    · subst hdot
      simp only at h
      by_cases hr : r.all Spec.SSA.isDigit = true
      · rw [if_pos hr] at h
        simp only at h
        split at h
        · cases h
        · rename_i hc
          simp only [Bool.or_eq_true, decide_eq_true_eq, not_or, Bool.not_eq_true, Nat.not_lt] at hc
          refine ⟨natOfDigits (ip ++ r), r.length, ?_, h, hc.2⟩
          have : (ip.isEmpty && r.isEmpty) = false := by
            have := hc.1
            cases ip <;> cases r <;> simp_all
          simp [hr, this]
      · rw [if_neg hr] at h
        cases h
    · exfalso
      split at h
      · cases h
      · rename_i fp' fp heq
        split at heq
        · rename_i e; cases e
        · rename_i e; cases e; exact hdot rfl
        · cases heq

theorem parseFloat_neg {r : Str} {mant k b : Nat} (hl : r.length ≤ 40)
    (hd : decimalParts r = some (mant, k)) (hb : ratBits true mant (10 ^ k) = some b) :
    parseFloat ('-' :: r) = .ok b := by
  unfold parseFloat
  rw [if_neg (by simp only [List.length_cons]; omega)]
  simp only [hd, hb]

theorem parseFloat_pos {s : Str} {mant k b : Nat} (hl : s.length ≤ 40)
    (h1 : ∀ r, s = '-' :: r → False) (h2 : ∀ r, s = '+' :: r → False)
    (hd : decimalParts s = some (mant, k)) (hb : ratBits false mant (10 ^ k) = some b) :
    parseFloat s = .ok b := by
  unfold parseFloat
  rw [if_neg (by omega)]
  split
  rename_i neg body heq
  split at heq
  · exact absurd rfl (h1 _)
  · exact absurd rfl (h2 _)
  · cases heq
    simp only [hd, hb]

theorem floatBody_plus (neg : Bool) (r : Str) : floatBody neg ('+' :: r) = none := by
  unfold floatBody
  have : Spec.SSA.isDigit '+' = false := by decide
  simp [this]

/-- floats: a plain decimal is read as the same double -/
theorem parseFloat_of_floatOf {s : Str} {b : Nat} (h : Spec.SSA.floatOf s = some b) : parseFloat s = .ok b := by
  by_cases h1 : ∃ r, s = '-' :: r
  · obtain ⟨r, rfl⟩ := h1
    rw [floatOf_neg] at h
    obtain ⟨mant, k, hd, hb, hl⟩ := floatBody_spec h
    exact parseFloat_neg hl hd hb
  · have h1' : ∀ r, s = '-' :: r → False := fun r e => h1 ⟨r, e⟩
    rw [floatOf_pos h1'] at h
    have h2 : ∀ r, s = '+' :: r → False := by
      intro r e
      subst e
      rw [floatBody_plus] at h
      cases h
    obtain ⟨mant, k, hd, hb, hl⟩ := floatBody_spec h
    exact parseFloat_pos hl h1' h2 hd hb

theorem char_le_iff (a b : Char) : a ≤ b ↔ a.toNat ≤ b.toNat := by
  rw [Char.le_def, UInt32.le_iff_toNat_le]; rfl

theorem hexVal_digitValBase {c : Char} {d : Nat} (h : Spec.SSA.hexVal c = some d) :
    digitValBase c = some d ∧ d < 16 := by
  unfold Spec.SSA.hexVal at h
  unfold digitValBase
  simp only [char_le_iff] at h ⊢
  have e0 : '0'.toNat = 48 := rfl
  have e9 : '9'.toNat = 57 := rfl
  have ea : 'a'.toNat = 97 := rfl
  have ef : 'f'.toNat = 102 := rfl
  have ez : 'z'.toNat = 122 := rfl
  have eA : 'A'.toNat = 65 := rfl
  have eF : 'F'.toNat = 70 := rfl
  have eZ : 'Z'.toNat = 90 := rfl
  rw [e0, e9, ea, ef, eA, eF] at h
  rw [e0, e9, ea, ez, eA, eZ]
  generalize c.toNat = n at h ⊢
  split at h
  · rename_i h1; cases h; rw [if_pos h1]; exact ⟨rfl, by omega⟩
  · rename_i h1
    split at h
    · rename_i h2; cases h; rw [if_neg h1, if_pos (by omega)]; exact ⟨rfl, by omega⟩
    · rename_i h2
      split at h
      · rename_i h3; cases h; rw [if_neg h1, if_neg (by omega), if_pos (by omega)]; exact ⟨rfl, by omega⟩
      · cases h

theorem digitsBase_of_hexOf : ∀ (s : Str) (acc v : Nat), Spec.SSA.hexOf s acc = some v →
    digitsBase 16 s acc = some v ∧ v < (acc + 1) * 16 ^ s.length
  | [], acc, v, h => by
    simp only [Spec.SSA.hexOf, Option.some.injEq] at h
    subst h
    simp [digitsBase]
  | c :: cs, acc, v, h => by
    unfold Spec.SSA.hexOf at h
    cases hv : Spec.SSA.hexVal c with
    | none => rw [hv] at h; cases h
    | some d =>
      rw [hv] at h
      simp only at h
      obtain ⟨e1, e2⟩ := hexVal_digitValBase hv
      obtain ⟨i1, i2⟩ := digitsBase_of_hexOf cs _ v h
      refine ⟨?_, ?_⟩
      · simp only [digitsBase, e1, e2, if_true]
        exact i1
      · simp only [List.length_cons, Nat.pow_succ]
        have : (acc * 16 + d + 1) * 16 ^ cs.length ≤ (acc + 1) * 16 * 16 ^ cs.length :=
          Nat.mul_le_mul_right _ (by omega)
        rw [Nat.mul_comm (16 ^ cs.length) 16, ← Nat.mul_assoc]
        omega

theorem hexVal_sign : Spec.SSA.hexVal '-' = none ∧ Spec.SSA.hexVal '+' = none := by decide

theorem colourOfInt_nat {v : Nat} (h : v < 4294967296) : colourOfInt (v : Int) = v := by
  unfold colourOfInt
  omega

theorem parseIntBase16_of_hexOf {r : Str} {v : Nat} (hne : r ≠ []) (hlen : r.length ≤ 8)
    (h : Spec.SSA.hexOf r 0 = some v) : parseIntBase 16 r = some (v : Int) ∧ v < 4294967296 := by
  obtain ⟨h1, h2⟩ := digitsBase_of_hexOf r 0 v h
  have hb : v < 4294967296 := by
    have : 16 ^ r.length ≤ 16 ^ 8 := Nat.pow_le_pow_right (by decide) hlen
    have e : (16 : Nat) ^ 8 = 4294967296 := by decide
    omega
  refine ⟨?_, hb⟩
  have e : int64Max = 9223372036854775807 := rfl
  unfold parseIntBase
  split
  rename_i neg body heq
  split at heq
  · rw [Spec.SSA.hexOf, hexVal_sign.1] at h; cases h
  · rw [Spec.SSA.hexOf, hexVal_sign.2] at h; cases h
  · cases heq
    have : r.isEmpty = false := by cases r <;> simp_all
    rw [this]
    simp only [Bool.false_eq_true, ↓reduceIte, h1]
    rw [if_pos (by omega)]

theorem digitValBase_of_isDigit {c : Char} (h : Spec.SSA.isDigit c = true) :
    digitValBase c = some (c.toNat - 48) ∧ c.toNat - 48 < 10 := by
  unfold Spec.SSA.isDigit at h
  unfold digitValBase
  simp only [Bool.and_eq_true, decide_eq_true_eq] at h
  rw [if_pos h]
  simp only [char_le_iff] at h
  have e0 : '0'.toNat = 48 := rfl
  have e9 : '9'.toNat = 57 := rfl
  rw [e0, e9] at h
  exact ⟨rfl, by omega⟩

theorem digitsBase10_of_all : ∀ (s : Str) (acc : Nat), s.all Spec.SSA.isDigit = true →
    digitsBase 10 s acc = some (s.foldl (fun a c => a * 10 + (c.toNat - 48)) acc)
  | [], _, _ => rfl
  | c :: cs, acc, h => by
    simp only [List.all_cons, Bool.and_eq_true] at h
    obtain ⟨e1, e2⟩ := digitValBase_of_isDigit h.1
    simp only [digitsBase, e1, e2, if_true, List.foldl_cons]
    exact digitsBase10_of_all cs _ h.2

theorem digitsBase10_of_natOf {s : Str} {n : Nat} (h : Spec.SSA.natOf s = some n) :
    s.isEmpty = false ∧ digitsBase 10 s 0 = some n := by
  obtain ⟨h1, h2, h3⟩ := natOf_spec h
  refine ⟨by cases s <;> simp_all, ?_⟩
  rw [h3]
  exact digitsBase10_of_all s 0 h2

theorem parseIntBase10_of_intOf {s : Str} {v : Int} (h : Spec.SSA.intOf s = some v) (hr : In64 v = true) :
    parseIntBase 10 s = some v := by
  unfold In64 at hr
  simp only [Bool.and_eq_true, decide_eq_true_eq] at hr
  have e : int64Max = 9223372036854775807 := rfl
  unfold Spec.SSA.intOf at h
  split at h
  · rename_i r
    cases hn : Spec.SSA.natOf r with
    | none => rw [hn] at h; cases h
    | some n =>
      rw [hn] at h
      simp at h
      subst h
      obtain ⟨d1, d2⟩ := digitsBase10_of_natOf hn
      simp only [parseIntBase, d1, d2, Bool.false_eq_true, if_false, if_true]
      rw [if_pos (by omega)]
  · rename_i r
    cases hn : Spec.SSA.natOf r with
    | none => rw [hn] at h; cases h
    | some n =>
      rw [hn] at h
      simp at h
      subst h
      obtain ⟨d1, d2⟩ := digitsBase10_of_natOf hn
      simp only [parseIntBase, d1, d2, Bool.false_eq_true, if_false]
      rw [if_pos (by omega)]
  · rename_i h1 h2
    cases hn : Spec.SSA.natOf s with
    | none => rw [hn] at h; cases h
    | some n =>
      rw [hn] at h
      simp at h
      subst h
      obtain ⟨d1, d2⟩ := digitsBase10_of_natOf hn
      unfold parseIntBase
      split
      rename_i neg body heq
      split at heq
      · exact absurd rfl (h1 _)
      · exact absurd rfl (h2 _)
      · cases heq
        simp only [d1, d2, Bool.false_eq_true, if_false]
        rw [if_pos (by omega)]

theorem dropPrefix_amp_H_none {s : Str} (h : ∀ r, s = '&' :: 'H' :: r → False) :
    dropPrefix? "&H".toList s = none := by
  have e : "&H".toList = ['&', 'H'] := by decide
  rw [e]
  rcases s with _ | ⟨x, _ | ⟨y, r⟩⟩
  · rfl
  · by_cases hx : '&' = x <;> simp [dropPrefix?, hx]
  · by_cases hx : '&' = x
    · by_cases hy : 'H' = y
      · subst hx; subst hy; exact absurd rfl (h r)
      · simp [dropPrefix?, hy]
    · simp [dropPrefix?, hx]

/-- colours, `&H…` and decimal -/
theorem parseColour_of_colourOf {s : Str} {c : Nat} (h : Spec.SSA.colourOf s = some c) :
    parseColour s = some c ∧ c < 4294967296 := by
  unfold Spec.SSA.colourOf at h
  split at h
  · rename_i r
    split at h
    · cases h
    · rename_i hc
      simp only [Bool.or_eq_true, decide_eq_true_eq, not_or, Nat.not_lt, List.isEmpty_iff] at hc
      obtain ⟨p1, p2⟩ := parseIntBase16_of_hexOf hc.1 hc.2 h
      refine ⟨?_, p2⟩
      have e : "&H".toList = ['&', 'H'] := by decide
      unfold parseColour
      rw [e]
      simp only [dropPrefix?, if_true, p1, Option.map_some, colourOfInt_nat p2]
  · rename_i hamp
    cases hv : Spec.SSA.intOf s with
    | none => rw [hv] at h; cases h
    | some v =>
      rw [hv] at h
      simp only at h
      split at h
      · rename_i hb
        have h64 : In64 v = true := by
          unfold In64
          simp only [Bool.and_eq_true, decide_eq_true_eq]
          omega
        unfold parseColour
        rw [dropPrefix_amp_H_none hamp]
        simp only [parseIntBase10_of_intOf hv h64, Option.map_some, colourOfInt]
        cases h
        refine ⟨?_, by omega⟩
        congr 1
        omega
      · cases h

theorem isDigit_range {c : Char} (h : Spec.SSA.isDigit c = true) : 48 ≤ c.toNat ∧ c.toNat ≤ 57 := by
  unfold Spec.SSA.isDigit at h
  simp only [Bool.and_eq_true, decide_eq_true_eq, char_le_iff] at h
  exact h

theorem isDigit_noSpace {c : Char} (h : Spec.SSA.isDigit c = true) : isSpace c = false := by
  have := isDigit_range h
  unfold isSpace
  simp only [Bool.or_eq_false_iff, Bool.and_eq_false_iff, beq_eq_false_iff_ne, decide_eq_false_iff_not]
  omega

theorem isDigit_ne_sep {c : Char} (h : Spec.SSA.isDigit c = true) : c ≠ ':' ∧ c ≠ '.' := by
  constructor <;> (intro e; subst e; revert h; decide)

theorem natOf_all {x : Str} {n : Nat} (h : Spec.SSA.natOf x = some n) : ∀ c ∈ x, Spec.SSA.isDigit c = true := by
  have := (natOf_spec h).2.1
  simpa using this

theorem natOf_noSpace {x : Str} {n : Nat} (h : Spec.SSA.natOf x = some n) : ∀ c ∈ x, isSpace c = false :=
  fun c hc => isDigit_noSpace (natOf_all h c hc)

theorem natOf_colon {x : Str} {n : Nat} (h : Spec.SSA.natOf x = some n) : ':' ∉ x :=
  fun hc => (isDigit_ne_sep (natOf_all h _ hc)).1 rfl

theorem natOf_dot {x : Str} {n : Nat} (h : Spec.SSA.natOf x = some n) : '.' ∉ x :=
  fun hc => (isDigit_ne_sep (natOf_all h _ hc)).2 rfl

theorem intOf_of_natOf {x : Str} {n : Nat} (h : Spec.SSA.natOf x = some n) : Spec.SSA.intOf x = some (n : Int) := by
  have hall := natOf_all h
  unfold Spec.SSA.intOf
  split
  · exact absurd rfl (isDigit_ne_sign (hall _ (by simp))).1
  · exact absurd rfl (isDigit_ne_sign (hall _ (by simp))).2
  · rw [h]; rfl

theorem atoi_of_natOf {x : Str} {n : Nat} (h : Spec.SSA.natOf x = some n) (hn : n ≤ 9223372036854775807) :
    atoi x = some (n : Int) :=
  atoi_of_intOf (intOf_of_natOf h) (by unfold In64; simp only [Bool.and_eq_true, decide_eq_true_eq]; omega)

theorem natOf_len2 {x : Str} {n : Nat} (h : Spec.SSA.natOf x = some n) (hl : x.length = 2) : n < 100 := by
  obtain ⟨_, h2, h3⟩ := natOf_spec h
  rcases x with _ | ⟨a, _ | ⟨b, _ | ⟨c, r⟩⟩⟩
  · simp at hl
  · simp at hl
  · simp only [List.all_cons, List.all_nil, Bool.and_true, Bool.and_eq_true] at h2
    have ha := isDigit_range h2.1
    have hb := isDigit_range h2.2
    rw [h3]
    simp only [natOfDigits, List.foldl_cons, List.foldl_nil]
    omega
  · simp at hl

theorem splitC_parts (c : Char) : ∀ (s : Str), ∀ p ∈ splitC c s, c ∉ p
  | [], p, hp => by
    simp only [splitC, List.mem_singleton] at hp
    subst hp; simp
  | x :: xs, p, hp => by
    by_cases hx : x = c
    · subst hx
      rw [splitC_cons_eq] at hp
      rcases List.mem_cons.1 hp with e | e
      · subst e; simp
      · exact splitC_parts _ xs p e
    · cases hs : splitC c xs with
      | nil => exact absurd hs (splitC_ne_nil c xs)
      | cons h t =>
        rw [splitC_cons_ne hx hs] at hp
        have ih := splitC_parts c xs
        rw [hs] at ih
        rcases List.mem_cons.1 hp with e | e
        · subst e
          intro hc
          rcases List.mem_cons.1 hc with e' | e'
          · exact hx e'.symm
          · exact ih h (by simp) e'
        · exact ih p (by simp [e])

/-- `splitC c s = [a, b]` means `s = a ++ c :: b` with `c` in neither part -/
theorem splitC_two {c : Char} {s a b : Str} (h : splitC c s = [a, b]) : s = a ++ c :: b ∧ c ∉ a ∧ c ∉ b := by
  have hj := join_splitC c s
  have hp := splitC_parts c s
  rw [h] at hj hp
  exact ⟨by rw [← hj]; simp [join], hp a (by simp), hp b (by simp)⟩

theorem splitC_three {c : Char} {s a b d : Str} (h : splitC c s = [a, b, d]) :
    s = a ++ c :: (b ++ c :: d) ∧ c ∉ a ∧ c ∉ b ∧ c ∉ d := by
  have hj := join_splitC c s
  have hp := splitC_parts c s
  rw [h] at hj hp
  exact ⟨by rw [← hj]; simp [join], hp a (by simp), hp b (by simp), hp d (by simp)⟩

/-- `parseDuration` on `H:MM:SS.cc` built from digit strings -/
theorem parse_hmsc {h m sec c : Str} {H M S C : Nat}
    (hh : Spec.SSA.natOf h = some H) (hm : Spec.SSA.natOf m = some M) (hs : Spec.SSA.natOf sec = some S)
    (hc : Spec.SSA.natOf c = some C) (lc : c.length = 2)
    (bH : H ≤ 9223372036854775807) (bM : M < 100) (bS : S < 100) (bC : C < 100) :
    Duration.parse (h ++ ':' :: (m ++ ':' :: (sec ++ '.' :: c))) '.' 3
      = some ((C : Int) * 10 * Duration.nsPerMs + (S : Int) * Duration.nsPerS + (M : Int) * Duration.nsPerMin
          + (H : Int) * Duration.nsPerH) := by
  have hshape : h ++ ':' :: (m ++ ':' :: (sec ++ '.' :: c)) = (h ++ ':' :: (m ++ ':' :: sec)) ++ '.' :: c := by simp
  have hdot : '.' ∉ h ++ ':' :: (m ++ ':' :: sec) := by
    simp only [List.mem_append, List.mem_cons, not_or]
    exact ⟨natOf_dot hh, by decide, natOf_dot hm, by decide, natOf_dot hs⟩
  have hsp : ∀ x ∈ h ++ ':' :: (m ++ ':' :: sec), isSpace x = false := by
    intro x hx
    simp only [List.mem_append, List.mem_cons] at hx
    rcases hx with hx | hx | hx | hx | hx
    · exact natOf_noSpace hh x hx
    · subst hx; decide
    · exact natOf_noSpace hm x hx
    · subst hx; decide
    · exact natOf_noSpace hs x hx
  have hsplit : splitC ':' (h ++ ':' :: (m ++ ':' :: sec)) = [h, m, sec] := by
    rw [splitC_append _ (natOf_colon hh), splitC_append _ (natOf_colon hm), splitC_not_mem (natOf_colon hs)]
  have hne : h ≠ [] := (natOf_spec hh).1
  have hlen : h.length > 0 := by cases h <;> simp_all
  unfold Duration.parse
  rw [hshape, splitC_append _ hdot, splitC_not_mem (natOf_dot hc)]
  simp only [List.length_cons, List.length_nil, ge_iff_le, Nat.le_refl, ↓reduceIte, List.getLast?_cons_cons,
    List.getLast?_singleton, Option.getD_some, List.dropLast_cons_cons, List.dropLast_singleton, join]
  rw [trimSpace_id (natOf_noSpace hc), atoi_of_natOf hc (by omega)]
  simp only [lc]
  rw [if_neg (by decide : ¬ 2 > 3)]
  simp only
  rw [trimSpace_id hsp, hsplit]
  simp only
  rw [trimSpace_id (natOf_noSpace hs), trimSpace_id (natOf_noSpace hm), trimSpace_id (natOf_noSpace hh),
    atoi_of_natOf hs (by omega), atoi_of_natOf hm (by omega), atoi_of_natOf hh bH]
  simp [hlen]

/-- what `timeOf s = some cs` means -/
theorem timeOf_spec {s : Str} {cs : Int} (h : Spec.SSA.timeOf s = some cs) :
    ∃ (hs m sec c : Str) (H M S C : Nat), s = hs ++ ':' :: (m ++ ':' :: (sec ++ '.' :: c)) ∧
      Spec.SSA.natOf hs = some H ∧ Spec.SSA.natOf m = some M ∧ Spec.SSA.natOf sec = some S ∧ Spec.SSA.natOf c = some C ∧
      m.length = 2 ∧ sec.length = 2 ∧ c.length = 2 ∧ M < 60 ∧ S < 60 ∧
      cs = ((((H * 60 + M) * 60 + S) * 100 + C : Nat) : Int) := by
  unfold Spec.SSA.timeOf at h
  split at h
  · rename_i hs m sc h3
    split at h
    · rename_i sec c h2
      split at h
      · cases h
      · rename_i hl
        simp only [ne_eq, Bool.or_eq_true, decide_eq_true_eq, not_or, Decidable.not_not] at hl
        split at h
        · rename_i H M S C eH eM eS eC
          split at h
          · rename_i hb
            simp only [Bool.and_eq_true, decide_eq_true_eq] at hb
            cases h
            obtain ⟨e3, _, _, _⟩ := splitC_three h3
            obtain ⟨e2, _, _⟩ := splitC_two h2
            exact ⟨hs, m, sec, c, H, M, S, C, by rw [e3, e2], eH, eM, eS, eC, hl.1.1, hl.1.2, hl.2, hb.1, hb.2, rfl⟩
          · cases h
        · cases h
    · cases h
  · cases h

/-- times `H:MM:SS.cc` -/
theorem parseSSA_of_timeOf {s : Str} {cs : Int} (h : Spec.SSA.timeOf s = some cs) (hr : hoursOk cs = true) :
    Duration.parseSSA s = some (cs * 10000000) ∧ 0 ≤ cs := by
  obtain ⟨hs, m, sec, c, H, M, S, C, rfl, eH, eM, eS, eC, lm, ls, lc, bM, bS, rfl⟩ := timeOf_spec h
  have bC := natOf_len2 eC lc
  unfold hoursOk at hr
  simp only [decide_eq_true_eq] at hr
  have bH : H ≤ 9223372036854775807 := by omega
  refine ⟨?_, by omega⟩
  unfold Duration.parseSSA
  rw [parse_hmsc eH eM eS eC lc bH (by omega) (by omega) bC]
  simp only [Duration.nsPerMs, Duration.nsPerS, Duration.nsPerMin, Duration.nsPerH, Option.some.injEq]
  omega

end SSAR
end Astisub
