import Astisub.Lemmas.VTTDefs
import Astisub.Lemmas.Str

/-!
# Lemmas/VTTTagRe — the tag expression recogniser on the tags the writer emits
-/

namespace Astisub
namespace VTT
open Go

/-! ## general list / firstDown lemmas -/

theorem firstDown_hit {α} (f : Nat → Option α) (n : Nat) (a : α) (h : f n = some a) :
    firstDown f n = some a := by
  cases n with
  | zero => simpa [firstDown] using h
  | succ n => simp [firstDown, h]

theorem firstDown_skip {α} (f : Nat → Option α) (n : Nat) (h : f (n + 1) = none) :
    firstDown f (n + 1) = firstDown f n := by
  simp [firstDown, h]

theorem takeWhile_app_all {p : Char → Bool} (a b : Str) (h : ∀ c ∈ a, p c = true) :
    (a ++ b).takeWhile p = a ++ b.takeWhile p := by
  induction a with
  | nil => rfl
  | cons x xs ih =>
    have hx : p x = true := h x (by simp)
    have hxs : ∀ c ∈ xs, p c = true := fun c hc => h c (by simp [hc])
    simp [hx, ih hxs]

theorem takeWhile_all {p : Char → Bool} (a : Str) (h : ∀ c ∈ a, p c = true) :
    a.takeWhile p = a := by
  have := takeWhile_app_all (p := p) a [] h
  simpa using this

theorem drop_len_app (a b : Str) : (a ++ b).drop a.length = b := by
  simp

theorem take_len_app (a b : Str) : (a ++ b).take a.length = a := by
  simp

/-! ## character classes -/

theorem alnum_facts {c : Char} (h : Char.isAlphanum c = true) :
    c ≠ '.' ∧ reWS c = false ∧ c ≠ '/' := by
  refine ⟨?_, ?_, ?_⟩
  · intro e; subst e; revert h; decide
  · cases hw : reWS c with
    | false => rfl
    | true =>
      simp [reWS] at hw
      rcases hw with (((e | e) | e) | e) | e <;> (subst e; revert h; decide)
  · intro e; subst e; revert h; decide

theorem letter_facts {c : Char} (h : isLetter c = true) : reWS c = false ∧ c ≠ '/' := by
  refine ⟨?_, ?_⟩
  · cases hw : reWS c with
    | false => rfl
    | true =>
      simp [reWS] at hw
      rcases hw with (((e | e) | e) | e) | e <;> (subst e; revert h; decide)
  · intro e; subst e; revert h; decide

theorem reWS_isSpace {c : Char} (h : reWS c = true) : isSpace c = true := by
  simp [reWS] at h
  rcases h with (((e | e) | e) | e) | e <;> (subst e; decide)

theorem reWS_eq_isTagWS (c : Char) : reWS c = isTagWS c := by
  simp [reWS, isTagWS]
  cases (c == ' ') <;> cases (c == '\t') <;> cases (c == '\n') <;> cases (c == '\x0c') <;> cases (c == '\r') <;> rfl

/-! ## the tail `\s*([^/]*)\s*/*>` -/

theorem tagRest_nil : tagRest [] = none := by decide

theorem tagRest_gt : tagRest ['>'] = some [] := by decide

theorem lastGt_snoc (a : Str) : lastGt (a ++ ['>']) = some a.length := by
  simp [lastGt]

theorem tagRest_ann (a : Char) (as : Str) (ha : reWS a = false) (hs : ∀ c ∈ a :: as, c ≠ '/') :
    tagRest (' ' :: (a :: as) ++ ['>']) = some (a :: as) := by
  have hq : (' ' :: (a :: as) ++ ['>']).dropWhile reWS = (a :: as) ++ ['>'] := by
    have : reWS ' ' = true := by decide
    simp [List.dropWhile, ha, this]
  have hrun : ((a :: as) ++ ['>']).takeWhile (· != '/') = (a :: as) ++ ['>'] := by
    apply takeWhile_all
    intro c hc
    rcases List.mem_append.mp hc with h | h
    · simpa using hs c h
    · simp at h; subst h; decide
  unfold tagRest
  simp only [hq, hrun, lastGt_snoc]
  simp

/-- the annotation part of a start tag -/
def annPart (ann : Str) : Str := if ann = [] then [] else ' ' :: ann

/-- an annotation the tail expression gives back unchanged -/
def AnnGood (ann : Str) : Prop := (∀ c ∈ ann, c ≠ '/') ∧ (∀ x xs, ann = x :: xs → reWS x = false)

theorem tagRest_tail (ann : Str) (h : AnnGood ann) : tagRest (annPart ann ++ ['>']) = some ann := by
  cases ann with
  | nil => exact tagRest_gt
  | cons a as =>
    have := tagRest_ann a as (h.2 a as rfl) h.1
    simpa [annPart] using this

/-- the tail does not start with a dot -/
theorem tagAfterName_tail (ann : Str) (h : AnnGood ann) :
    tagAfterName (annPart ann ++ ['>']) = some ([], ann) := by
  have ht := tagRest_tail ann h
  cases ann with
  | nil =>
    simp only [annPart] at ht ⊢
    simp only [if_true, List.nil_append] at ht ⊢
    unfold tagAfterName
    simp [ht]
  | cons a as =>
    simp only [annPart] at ht ⊢
    simp only [reduceCtorEq, if_false, List.cons_append] at ht ⊢
    unfold tagAfterName
    simp [ht]

theorem tagAfterName_dot_eq (rest : Str) :
    tagAfterName ('.' :: rest) =
      match firstDown (fun e => (tagRest (rest.drop e)).map fun g4 =>
          ('.' :: (rest.takeWhile fun c => !(reWS c || c == '/')).take e, g4))
          (rest.takeWhile fun c => !(reWS c || c == '/')).length with
      | some r => some r
      | none => (tagRest ('.' :: rest)).map fun g4 => ([], g4) := rfl

theorem tagAfterName_cls (J ann : Str) (hJ : ∀ c ∈ J, reWS c = false ∧ c ≠ '/') (h : AnnGood ann) :
    tagAfterName ('.' :: J ++ annPart ann ++ ['>']) = some ('.' :: J, ann) := by
  have ht := tagRest_tail ann h
  have hJ' : ∀ c ∈ J, (fun c => !(reWS c || c == '/')) c = true := by
    intro c hc; simp [(hJ c hc).1, (hJ c hc).2]
  have e1 : '.' :: J ++ annPart ann ++ ['>'] = '.' :: (J ++ (annPart ann ++ ['>'])) := by simp
  rw [e1, tagAfterName_dot_eq, takeWhile_app_all J _ hJ']
  cases ann with
  | nil =>
    have e2 : (annPart [] ++ ['>']).takeWhile (fun c => !(reWS c || c == '/')) = ['>'] := by decide
    have e3 : annPart [] ++ ['>'] = ['>'] := rfl
    rw [e2]
    rw [e3] at ht ⊢
    have hlen : (J ++ ['>']).length = J.length + 1 := by simp
    rw [hlen, firstDown_skip, firstDown_hit _ _ ('.' :: J, [])]
    · simp [ht]
    · simp [tagRest_nil]
  | cons a as =>
    have e2 : (annPart (a :: as) ++ ['>']).takeWhile (fun c => !(reWS c || c == '/')) = [] := by
      have : reWS ' ' = true := by decide
      simp [annPart, this]
    rw [e2, List.append_nil, firstDown_hit _ _ ('.' :: J, a :: as)]
    simp [ht]

/-! ## the name `([^\.\s]+)` -/

theorem tagFromName_eq (s : Str) :
    tagFromName s = firstDown (fun m => if m = 0 then none else
      (tagAfterName (s.drop m)).map fun (g3, g4) =>
        ((s.takeWhile fun c => !(c == '.' || reWS c)).take m, g3, g4))
      (s.takeWhile fun c => !(c == '.' || reWS c)).length := rfl

theorem tagFromName_stop (name T g3 g4 : Str) (hne : name ≠ [])
    (hn : ∀ c ∈ name, c ≠ '.' ∧ reWS c = false)
    (hT : T.takeWhile (fun c => !(c == '.' || reWS c)) = [])
    (hA : tagAfterName T = some (g3, g4)) :
    tagFromName (name ++ T) = some (name, g3, g4) := by
  have hn' : ∀ c ∈ name, (fun c => !(c == '.' || reWS c)) c = true := by
    intro c hc; simp [(hn c hc).1, (hn c hc).2]
  have hl : name.length ≠ 0 := by
    cases name with
    | nil => exact absurd rfl hne
    | cons x xs => simp
  rw [tagFromName_eq, takeWhile_app_all name _ hn', hT, List.append_nil]
  apply firstDown_hit
  simp [hl, hA]

theorem tagAfterName_nil : tagAfterName [] = none := by decide

theorem tagFromName_gt (name : Str) (hne : name ≠ [])
    (hn : ∀ c ∈ name, c ≠ '.' ∧ reWS c = false) :
    tagFromName (name ++ ['>']) = some (name, [], []) := by
  have hn' : ∀ c ∈ name, (fun c => !(c == '.' || reWS c)) c = true := by
    intro c hc; simp [(hn c hc).1, (hn c hc).2]
  have hl : name.length ≠ 0 := by
    cases name with
    | nil => exact absurd rfl hne
    | cons x xs => simp
  have e2 : ['>'].takeWhile (fun c => !(c == '.' || reWS c)) = ['>'] := by decide
  have hA : tagAfterName ['>'] = some ([], []) := by decide
  have hlen : (name ++ ['>']).length = name.length + 1 := by simp
  rw [tagFromName_eq, takeWhile_app_all name _ hn', e2, hlen, firstDown_skip]
  · apply firstDown_hit
    simp [hl, hA]
  · simp [tagAfterName_nil]

/-- the shape of the class part: nothing, or a dot and characters that are neither white space nor `/` -/
def ClsGood (cls : Str) : Prop :=
  cls = [] ∨ ∃ J, cls = '.' :: J ∧ ∀ c ∈ J, reWS c = false ∧ c ≠ '/'

theorem tagFromName_spec (name cls ann : Str) (hne : name ≠ [])
    (hn : ∀ c ∈ name, c ≠ '.' ∧ reWS c = false) (hc : ClsGood cls) (ha : AnnGood ann) :
    tagFromName (name ++ cls ++ annPart ann ++ ['>']) = some (name, cls, ann) := by
  rcases hc with rfl | ⟨J, rfl, hJ⟩
  · cases ann with
    | nil => simpa [annPart] using tagFromName_gt name hne hn
    | cons a as =>
      have := tagFromName_stop name (annPart (a :: as) ++ ['>']) [] (a :: as) hne hn
        (by have : reWS ' ' = true := by decide
            simp [annPart, this])
        (tagAfterName_tail _ ha)
      simpa using this
  · have := tagFromName_stop name ('.' :: J ++ annPart ann ++ ['>']) ('.' :: J) ann hne hn
      (by simp) (tagAfterName_cls J ann hJ ha)
    simpa using this

/-! ## the whole expression -/

theorem tagAt_letter (x : Char) (xs : Str) (hx : reWS x = false ∧ x ≠ '/') :
    tagAt (x :: xs) = tagFromName (x :: xs) := by
  simp [tagAt, firstDown, hx.1, hx.2]

theorem tagRe_lt (s : Str) (r : Str × Str × Str) (h : tagAt s = some r) :
    tagRe ('<' :: s) = some r := by
  simp [tagRe, h]

/-! ## what well-formedness gives -/

theorem annOk_facts {a : Str} (h : annOk a = true) :
    trimSpace a = a ∧ ∀ c ∈ a, markup c = false := by
  simp [annOk] at h
  exact ⟨h.1, h.2⟩

theorem trimSpace_head {x : Char} {xs : Str} (h : trimSpace (x :: xs) = x :: xs) :
    isSpace x = false := by
  cases hx : isSpace x with
  | false => rfl
  | true =>
    have h1 : (trimSpace (x :: xs)).length ≤ xs.length := by
      unfold trimSpace trimRight trimLeft
      rw [List.length_reverse]
      refine Nat.le_trans (List.dropWhile_sublist _).length_le ?_
      rw [List.length_reverse]
      simp only [List.dropWhile, hx]
      exact (List.dropWhile_sublist _).length_le
    rw [h] at h1
    simp at h1
    omega

theorem annGood_of_annOk {a : Str} (h : annOk a = true) : AnnGood a := by
  obtain ⟨h1, h2⟩ := annOk_facts h
  refine ⟨?_, ?_⟩
  · intro c hc e
    subst e
    have := h2 _ hc
    revert this; decide
  · intro x xs e
    subst e
    have hs := trimSpace_head h1
    cases hw : reWS x with
    | false => rfl
    | true => rw [reWS_isSpace hw] at hs; cases hs

theorem classChar_facts {c : Char} (h : classChar c = true) :
    c ≠ '.' ∧ reWS c = false ∧ c ≠ '/' := by
  rw [reWS_eq_isTagWS]
  simp [classChar, markup] at h
  refine ⟨?_, ?_, ?_⟩
  · exact h.1.2
  · exact h.2
  · exact h.1.1.1.2

structure WF (t : Tag) : Prop where
  name_ne : t.name ≠ []
  name_v : t.name ≠ ['v']
  head : ∃ x xs, t.name = x :: xs ∧ isLetter x = true
  alnum : ∀ c ∈ t.name, Char.isAlphanum c = true
  cls : ∀ c ∈ t.classes, c ≠ [] ∧ ∀ x ∈ c, classChar x = true
  ann : annOk t.annotation = true

theorem wf_facts {t : Tag} (h : t.wf = true) : WF t := by
  simp only [Tag.wf, Bool.and_eq_true] at h
  obtain ⟨⟨⟨⟨⟨h1, h2⟩, h3⟩, h4⟩, h5⟩, _⟩ := h
  have hd : ∃ x xs, t.name = x :: xs ∧ isLetter x = true := by
    cases hn : t.name with
    | nil => rw [hn] at h1; simp at h1
    | cons x xs => rw [hn] at h1; exact ⟨x, xs, rfl, by simpa using h1⟩
  refine ⟨?_, ?_, hd, ?_, ?_, h5⟩
  · obtain ⟨x, xs, e, _⟩ := hd
    rw [e]; simp
  · simpa using h3
  · simpa using h2
  · intro c hc
    have := (List.all_eq_true.mp h4) c hc
    simpa using this

/-! ## the class list -/

theorem join_cons2 (a b : Str) (rest : List Str) :
    join ['.'] (a :: b :: rest) = a ++ '.' :: join ['.'] (b :: rest) := by
  simp [join]

theorem join_mem (cs : List Str) : ∀ x ∈ join ['.'] cs, x = '.' ∨ ∃ c ∈ cs, x ∈ c := by
  induction cs with
  | nil => intro x hx; simp [join] at hx
  | cons a rest ih =>
    cases rest with
    | nil => intro x hx; right; exact ⟨a, by simp, by simpa [join] using hx⟩
    | cons b rest =>
      intro x hx
      rw [join_cons2] at hx
      rcases List.mem_append.mp hx with h | h
      · right; exact ⟨a, by simp, h⟩
      · rcases List.mem_cons.mp h with h | h
        · left; exact h
        · rcases ih x h with h | ⟨c, hc, hxc⟩
          · left; exact h
          · right; exact ⟨c, by simp [hc], hxc⟩

theorem splitC_join (cs : List Str) (hne : cs ≠ []) (h : ∀ c ∈ cs, '.' ∉ c) :
    splitC '.' (join ['.'] cs) = cs := by
  induction cs with
  | nil => exact absurd rfl hne
  | cons a rest ih =>
    cases rest with
    | nil => simpa [join] using splitC_not_mem (h a (by simp))
    | cons b rest =>
      rw [join_cons2, splitC_append _ (h a (by simp)), ih (by simp) (fun c hc => h c (by simp [hc]))]

theorem join_last (cs : List Str) (hne : cs ≠ []) (h : ∀ c ∈ cs, c ≠ [] ∧ '.' ∉ c) :
    ∃ y ys, (join ['.'] cs).reverse = y :: ys ∧ y ≠ '.' := by
  induction cs with
  | nil => exact absurd rfl hne
  | cons a rest ih =>
    cases rest with
    | nil =>
      obtain ⟨ha1, ha2⟩ := h a (by simp)
      cases hr : a.reverse with
      | nil => simp at hr; exact absurd hr ha1
      | cons y ys =>
        refine ⟨y, ys, by simpa [join] using hr, ?_⟩
        intro e
        have : y ∈ a := by
          have : y ∈ a.reverse := by rw [hr]; simp
          simpa using this
        exact ha2 (e ▸ this)
    | cons b rest =>
      obtain ⟨y, ys, e, hy⟩ := ih (by simp) (fun c hc => h c (by simp [hc]))
      refine ⟨y, ys ++ '.' :: a.reverse, ?_, hy⟩
      rw [join_cons2, List.reverse_append, List.reverse_cons, e]
      simp

theorem trimDots_dot (x y : Char) (xs ys : Str) (hx : x ≠ '.') (hy : y ≠ '.')
    (e : (x :: xs).reverse = y :: ys) : trimDots ('.' :: x :: xs) = x :: xs := by
  have hx' : (x == '.') = false := by simp [hx]
  have hy' : (y == '.') = false := by simp [hy]
  have h1 : ('.' :: x :: xs).dropWhile (· == '.') = x :: xs := by
    simp [List.dropWhile, hx']
  unfold trimDots
  rw [h1, e]
  have h2 : (y :: ys).dropWhile (· == '.') = y :: ys := by
    simp [List.dropWhile, hy']
  rw [h2, ← e, List.reverse_reverse]

/-- the class part of a start tag -/
def clsPart (cs : List Str) : Str := if cs.isEmpty then [] else '.' :: join ['.'] cs

theorem clsGood_clsPart (cs : List Str) (h : ∀ c ∈ cs, c ≠ [] ∧ ∀ x ∈ c, classChar x = true) :
    ClsGood (clsPart cs) := by
  cases cs with
  | nil => left; rfl
  | cons a rest =>
    right
    refine ⟨join ['.'] (a :: rest), by simp [clsPart], ?_⟩
    intro x hx
    rcases join_mem _ x hx with e | ⟨c, hc, hxc⟩
    · subst e; decide
    · have := classChar_facts ((h c hc).2 x hxc)
      exact ⟨this.2.1, this.2.2⟩

theorem classes_of_clsPart (cs : List Str) (h : ∀ c ∈ cs, c ≠ [] ∧ ∀ x ∈ c, classChar x = true) :
    (if clsPart cs ≠ [] then splitC '.' (trimDots (clsPart cs)) else []) = cs := by
  cases cs with
  | nil => simp [clsPart]
  | cons a rest =>
    have hdot : ∀ c ∈ a :: rest, c ≠ [] ∧ '.' ∉ c := by
      intro c hc
      refine ⟨(h c hc).1, ?_⟩
      intro hm
      exact (classChar_facts ((h c hc).2 _ hm)).1 rfl
    have e1 : clsPart (a :: rest) = '.' :: join ['.'] (a :: rest) := by simp [clsPart]
    obtain ⟨y, ys, er, hy⟩ := join_last (a :: rest) (by simp) hdot
    have hsp := splitC_join (a :: rest) (by simp) (fun c hc => (hdot c hc).2)
    cases hj : join ['.'] (a :: rest) with
    | nil => rw [hj] at er; simp at er
    | cons x xs =>
      have hx : x ≠ '.' := by
        cases a with
        | nil => exact absurd rfl (hdot [] (by simp)).1
        | cons a0 as =>
          have : x = a0 := by
            cases rest with
            | nil => simp [join] at hj; exact hj.1.symm
            | cons b rest => rw [join_cons2] at hj; simp at hj; exact hj.1.symm
          subst this
          intro e
          exact (hdot (x :: as) (by simp)).2 (by simp [e])
      rw [hj] at er hsp
      rw [e1, hj, if_pos (by simp), trimDots_dot x y xs ys hx hy er, hsp]

/-! ## the three tokens -/

theorem tagAt_of_head (s : Str) (h : ∃ x r, s = x :: r ∧ reWS x = false ∧ x ≠ '/') :
    tagAt s = tagFromName s := by
  obtain ⟨x, r, rfl, h1, h2⟩ := h
  exact tagAt_letter x r ⟨h1, h2⟩

theorem startTag_eq (t : Tag) (h : t.name ≠ []) :
    Tag.startTag t = '<' :: (t.name ++ clsPart t.classes ++ annPart t.annotation ++ ['>']) := by
  simp [Tag.startTag, h, clsPart, annPart]

theorem tagRe_startTag (t : Tag) (h : t.wf = true) :
    tagRe (Tag.startTag t) = some (t.name, clsPart t.classes, t.annotation) := by
  have w := wf_facts h
  have hn : ∀ c ∈ t.name, c ≠ '.' ∧ reWS c = false := by
    intro c hc
    have := alnum_facts (w.alnum c hc)
    exact ⟨this.1, this.2.1⟩
  rw [startTag_eq t w.name_ne]
  apply tagRe_lt
  rw [tagAt_of_head]
  · exact tagFromName_spec _ _ _ w.name_ne hn (clsGood_clsPart _ w.cls) (annGood_of_annOk w.ann)
  · obtain ⟨x, xs, e, hx⟩ := w.head
    refine ⟨x, xs ++ clsPart t.classes ++ annPart t.annotation ++ ['>'], by simp [e], ?_⟩
    exact letter_facts hx

/-- the reader's action on the start-tag token the writer emitted for a well-formed tag: push exactly that tag -/
theorem stepTok_startTag (st : PT) (t : Tag) (h : t.wf = true) (n : Str) (a : List (Str × Str)) :
    stepTok st (.startTag (Tag.startTag t) n a) = some { st with tags := st.tags ++ [t] } := by
  have w := wf_facts h
  have hv : ¬ t.name = "v".toList := w.name_v
  have hann : (if t.annotation ≠ [] then trimSpace t.annotation else []) = t.annotation := by
    by_cases e : t.annotation = []
    · simp [e]
    · simp [e, (annOk_facts w.ann).1]
  simp only [stepTok, tagRe_startTag t h, classes_of_clsPart t.classes w.cls, hann, if_neg hv]

theorem tagRe_voice (v : Str) (h : voiceOk v = true) :
    tagRe ("<v ".toList ++ v ++ ['>']) = some (['v'], [], v) := by
  simp [voiceOk] at h
  obtain ⟨hne, hok⟩ := h
  have hg := annGood_of_annOk hok
  have e : "<v ".toList ++ v ++ ['>'] = '<' :: (['v'] ++ annPart v ++ ['>']) := by
    simp [annPart, hne]
  rw [e]
  apply tagRe_lt
  rw [tagAt_of_head]
  · have := tagFromName_spec ['v'] [] v (by simp) (by intro c hc; simp at hc; subst hc; decide)
      (Or.inl rfl) hg
    simpa using this
  · exact ⟨'v', annPart v ++ ['>'], by simp, by decide, by decide⟩

/-- the voice tag `<v NAME>` sets the voice of the line (first one wins), stack untouched -/
theorem stepTok_voice (st : PT) (v : Str) (h : voiceOk v = true) (n : Str) (a : List (Str × Str)) :
    stepTok st (.startTag ("<v ".toList ++ v ++ ['>']) n a) = some (if st.voice = [] then { st with voice := v } else st) := by
  have hre := tagRe_voice v h
  simp [voiceOk] at h
  obtain ⟨hne, hok⟩ := h
  have hv : (['v'] : Str) = "v".toList := rfl
  simp only [stepTok, hre, if_pos hv, if_pos hne, (annOk_facts hok).1]

/-- the end tag of a well-formed tag pops the stack -/
theorem stepTok_endTag (st : PT) (t : Tag) (h : t.wf = true) (n : Str) :
    stepTok st (.endTag (Tag.endTag t) n) = some { st with tags := st.tags.dropLast } := by
  have w := wf_facts h
  have hne : ¬ Tag.endTag t = "</v>".toList := by
    intro e
    apply w.name_v
    simp [Tag.endTag, w.name_ne] at e
    cases hn : t.name with
    | nil => exact absurd hn w.name_ne
    | cons x xs =>
      rw [hn] at e
      simp at e
      obtain ⟨rfl, e2⟩ := e
      cases xs with
      | nil => rfl
      | cons y ys => simp at e2
  simp only [stepTok, if_neg hne]

end VTT
end Astisub
