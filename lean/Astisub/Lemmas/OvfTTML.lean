import Astisub.Model.TTML
import Astisub.Lemmas.OvfBasic

/-!
# Lemmas/OvfTTML — the `int64` steps of `TTMLInDuration.duration()`

After the repairs D25 / D26 the products `value × timebase` and `n.fraction × 1e9 / rate` are
computed with `math/big`; what is left in `int64` is

* `ttmlOffsetDuration`: the explicit `v.IsInt64()` guard (modelled: `offsetDuration` answers `none`
  above `MaxInt64`; the value is non-negative) — nothing can wrap;
* `ttmlUnitsDuration`: the conversion `v.Int64()` of the big quotient **without** a guard (the low
  64 bits), and
* `duration()`: the addition `o += ttmlUnitsDuration(frames …)`.

`durationW` evaluates those two steps with wrap-around. Clock times go through `parseDuration`
(`Lemmas/OvfDuration.lean`).
-/

namespace Astisub
namespace Ovf
open Go TTML

/-- `time.Duration(v.Int64())` of the big quotient: the low 64 bits -/
def unitsDurationW (n : Int) (fp : Str) (rate : Int) : Int := wrap (unitsDuration n fp rate)

/-- `TTMLInDuration.duration()` in `int64` -/
def durationW (d : InDur) (framerate tickrate : Int) : Int :=
  if (d.ticks > 0 ∨ d.ticksFraction ≠ []) ∧ tickrate > 0 then unitsDurationW d.ticks d.ticksFraction tickrate
  else if (d.frames > 0 ∨ d.framesFraction ≠ []) ∧ framerate > 0 then
    wadd d.d (unitsDurationW d.frames d.framesFraction framerate)
  else d.d

/-- exact range condition: the quotient that is converted fits, and so does the sum with the clock part -/
def DurOK (d : InDur) (framerate tickrate : Int) : Prop :=
  if (d.ticks > 0 ∨ d.ticksFraction ≠ []) ∧ tickrate > 0 then
    fits64 (unitsDuration d.ticks d.ticksFraction tickrate)
  else if (d.frames > 0 ∨ d.framesFraction ≠ []) ∧ framerate > 0 then
    fits64 (unitsDuration d.frames d.framesFraction framerate) ∧
    fits64 (d.d + unitsDuration d.frames d.framesFraction framerate)
  else True

instance (d : InDur) (fr tr : Int) : Decidable (DurOK d fr tr) := by unfold DurOK; infer_instance

theorem durationW_eq (d : InDur) (fr tr : Int) (ok : DurOK d fr tr) : durationW d fr tr = duration d fr tr := by
  unfold DurOK at ok
  unfold durationW duration unitsDurationW
  split
  · rename_i h; rw [if_pos h] at ok; exact wrap_of_fits ok
  · rename_i h; rw [if_neg h] at ok
    split
    · rename_i h2; rw [if_pos h2] at ok
      rw [wrap_of_fits ok.1]; exact wadd_eq ok.2
    · rfl

/-- `ttmlOffsetDuration` is guarded: whatever it returns is an `int64` (timebases are positive) -/
theorem offsetDuration_fits {ip fp m : Str} {v : Int} (h : offsetDuration ip fp (timebase m) = some v) :
    fits64 v := by
  unfold offsetDuration at h
  dsimp only at h
  split at h
  · rename_i hle
    cases h
    have htb : (0 : Int) ≤ timebase m := by
      unfold timebase; split
      · decide
      · split
        · decide
        · split <;> decide
    have h0 : (0 : Int) ≤ (natOfDigits (ip ++ fp) : Int) * timebase m :=
      Int.mul_nonneg (Int.natCast_nonneg _) htb
    have hp : (0 : Int) < (10 : Int) ^ fp.length := Int.pow_pos (by decide)
    have h1 := Int.ediv_nonneg h0 (Int.le_of_lt hp)
    unfold fits64; omega
  · cases h

/-! ### a generous sufficient range -/

theorem isDigit_sub48 {c : Char} (h : TTML.isDigit c = true) : c.toNat - 48 ≤ 9 := by
  unfold TTML.isDigit at h
  have h2 : c ≤ '9' := by
    have := (Bool.and_eq_true _ _).mp h
    exact of_decide_eq_true this.2
  rw [Char.le_def] at h2
  have : c.toNat ≤ 57 := UInt32.le_iff_toNat_le.mp h2
  omega

theorem foldl_digits_lt : ∀ (s : Str) (acc : Nat), (∀ c ∈ s, TTML.isDigit c = true) →
    s.foldl (fun a c => a * 10 + (c.toNat - 48)) acc < (acc + 1) * 10 ^ s.length
  | [], acc, _ => by simp
  | c :: cs, acc, h => by
    have h1 := isDigit_sub48 (h c (by simp))
    have h2 := foldl_digits_lt cs (acc * 10 + (c.toNat - 48)) (fun x hx => h x (by simp [hx]))
    have h3 : (acc * 10 + (c.toNat - 48) + 1) * 10 ^ cs.length ≤ ((acc + 1) * 10) * 10 ^ cs.length :=
      Nat.mul_le_mul_right _ (by omega)
    rw [List.foldl_cons, List.length_cons, Nat.pow_succ, Nat.mul_comm (10 ^ cs.length) 10, ← Nat.mul_assoc]
    omega

/-- a string of digits denotes a number below `10^length` -/
theorem natOfDigits_lt_pow {s : Str} (h : s.all TTML.isDigit = true) : natOfDigits s < 10 ^ s.length := by
  have := foldl_digits_lt s 0 (fun c hc => List.all_eq_true.mp h c hc)
  simpa [natOfDigits] using this

/-- `<n>.<fraction>` units at `rate ≥ 1` per second last at least 0 and less than `(n + 1)` seconds -/
theorem unitsDuration_bounds {n : Int} {fp : Str} {rate : Int} (hn : 0 ≤ n) (hfp : fp.all TTML.isDigit = true)
    (hr : 1 ≤ rate) : 0 ≤ unitsDuration n fp rate ∧ unitsDuration n fp rate < (n + 1) * 1000000000 := by
  unfold unitsDuration
  have hF := natOfDigits_lt_pow hfp
  generalize natOfDigits fp = F at *
  have hP : (0 : Int) < (10 : Int) ^ fp.length := Int.pow_pos (by decide)
  have hFP : (F : Int) < (10 : Int) ^ fp.length := by
    have : ((10 ^ fp.length : Nat) : Int) = (10 : Int) ^ fp.length := by rw [Int.natCast_pow]; rfl
    rw [← this]; exact Int.ofNat_lt.mpr hF
  generalize (10 : Int) ^ fp.length = P at *
  have hnP : 0 ≤ n * P := Int.mul_nonneg hn (Int.le_of_lt hP)
  have hA : 0 ≤ (n * P + (F : Int)) * 1000000000 := Int.mul_nonneg (by omega) (by decide)
  have hPr : 0 < P * rate := Int.mul_pos hP (by omega)
  rw [Int.tdiv_eq_ediv_of_nonneg hA]
  refine ⟨Int.ediv_nonneg hA (Int.le_of_lt hPr), ?_⟩
  apply Int.ediv_lt_of_lt_mul hPr
  -- (n P + F) 1e9 < (n + 1) P 1e9 ≤ (n + 1) 1e9 (P rate)
  have e1 : (n + 1) * P = n * P + P := by rw [Int.add_mul, Int.one_mul]
  have h1 : (n * P + (F : Int)) * 1000000000 < ((n + 1) * P) * 1000000000 :=
    Int.mul_lt_mul_of_pos_right (by omega) (by decide)
  have hQ : 0 ≤ ((n + 1) * P) * 1000000000 := Int.mul_nonneg (by omega) (by decide)
  have h2 := Int.mul_nonneg hQ (show 0 ≤ rate - 1 by omega)
  rw [Int.mul_sub, Int.mul_one] at h2
  have e2 : (n + 1) * 1000000000 * (P * rate) = (n + 1) * P * 1000000000 * rate := by ac_rfl
  rw [e2]
  omega

/-- generous range: a clock part within ±2^62 ns, at most 2^32 whole frames or ticks, digit
    fractions, rates ≥ 1 when used -/
def DurRange (d : InDur) : Prop :=
  -4611686018427387904 ≤ d.d ∧ d.d ≤ 4611686018427387904 ∧
  d.frames ≤ 4294967296 ∧ d.ticks ≤ 4294967296 ∧
  d.framesFraction.all TTML.isDigit = true ∧ d.ticksFraction.all TTML.isDigit = true ∧
  (d.framesFraction ≠ [] → 0 ≤ d.frames) ∧ (d.ticksFraction ≠ [] → 0 ≤ d.ticks)

instance (d : InDur) : Decidable (DurRange d) := by unfold DurRange; infer_instance

theorem durOK_of_range {d : InDur} (h : DurRange d) (fr tr : Int) : DurOK d fr tr := by
  obtain ⟨h1, h2, h3, h4, h5, h6, h7, h8⟩ := h
  unfold DurOK
  split
  · rename_i hc
    have hn : 0 ≤ d.ticks := by
      rcases hc.1 with h | h
      · omega
      · exact h8 h
    have b := unitsDuration_bounds hn h6 (show 1 ≤ tr by omega)
    unfold fits64; omega
  · split
    · rename_i hc
      have hn : 0 ≤ d.frames := by
        rcases hc.1 with h | h
        · omega
        · exact h7 h
      have b := unitsDuration_bounds hn h5 (show 1 ≤ fr by omega)
      unfold fits64; omega
    · trivial

/-- `01:00:00` plus 12.5 frames; 90 000.25 ticks -/
example : DurRange { d := 3600000000000, frames := 12, framesFraction := "5".toList } ∧
    DurRange { ticks := 90000, ticksFraction := "25".toList } := by decide

/-- the range cannot be dropped: 10^10 ticks at one tick per second are 10^19 ns; `v.Int64()` keeps
    the low 64 bits, the model the whole number. (Here the model `TTML.duration` itself departs from
    the Go code: see the report.) -/
example : durationW { ticks := 10000000000 } 0 1 = -8446744073709551616 ∧
    duration { ticks := 10000000000 } 0 1 = 10000000000000000000 := by decide

end Ovf
end Astisub
