import Astisub.Lemmas.SSARead2View
import Astisub.Lemmas.SSARead2Lines
import Astisub.Lemmas.SSARead2Bytes

/-!
# Lemmas/SSARead2Final — assembling the read clause: `view (read lines) = decode text`
-/

namespace Astisub
namespace SSAR
open Go SSA
open Spec.SSA (SecKind secKind sections stylesOf eventsOf infoOf decode GDoc GStyle GEvent REvent resolve strLe nodup)

/-- the part of `Spec.SSA.decode` after the sections have been cut -/
def decodeSecs (secs : List (SecKind × List Str)) : Option GDoc :=
  let known := secs.filter fun s => s.1 ≠ .unknown
  let comments := (known.map fun s => Spec.SSA.commentsOf s.2).flatten
  let info := infoOf ((secs.filter fun s => s.1 = .info).map (·.2)).flatten
  let styles := Spec.SSA.mapM (fun s => stylesOf s.2 none) (secs.filter fun s => s.1 = .styles)
  let events := Spec.SSA.mapM (fun s => eventsOf s.2 none) (secs.filter fun s => s.1 = .events)
  match info, styles, events with
  | some info, some styles, some events =>
    let styles := styles.flatten
    let names := styles.map (·.name)
    if !nodup (names.map String.ofList) || names.any (fun n => n.head? = some '*') then none else
    some { comments := comments, info := info,
           styles := styles.mergeSort fun a b => strLe a.name b.name,
           events := events.flatten.map fun r => { r.ev with style := resolve names r.styleName } }
  | _, _, _ => none

theorem decode_eq (text : Str) :
    decode text = match sections (specLines text) with | none => none | some secs => decodeSecs secs := rfl

/-- what `decode text = some g` says, piece by piece -/
theorem decode_some (text : Str) (g : GDoc) (h : decode text = some g) :
    ∃ secs gi S E, sections (specLines text) = some secs ∧ infoOf (infoLines secs) = some gi ∧
      Spec.SSA.mapM (fun s => stylesOf s.2 none) (secs.filter fun s => s.1 = .styles) = some S ∧
      Spec.SSA.mapM (fun s => eventsOf s.2 none) (secs.filter fun s => s.1 = .events) = some E ∧
      nodup ((S.flatten.map (·.name)).map String.ofList) = true ∧
      (S.flatten.map (·.name)).any (fun n => n.head? = some '*') = false ∧
      g = { comments := knownComments secs, info := gi,
            styles := S.flatten.mergeSort (fun a b => strLe a.name b.name),
            events := E.flatten.map fun r => { r.ev with style := resolve (S.flatten.map (·.name)) r.styleName } } := by
  rw [decode_eq] at h
  cases hs : sections (specLines text) with
  | none => simp [hs] at h
  | some secs =>
    rw [hs] at h
    simp only at h
    unfold decodeSecs at h
    simp only at h
    cases hi : infoOf ((secs.filter fun s => s.1 = .info).map (·.2)).flatten with
    | none => simp [hi] at h
    | some gi =>
      cases hS : Spec.SSA.mapM (fun s => stylesOf s.2 none) (secs.filter fun s => s.1 = .styles) with
      | none => simp [hi, hS] at h
      | some S =>
        cases hE : Spec.SSA.mapM (fun s => eventsOf s.2 none) (secs.filter fun s => s.1 = .events) with
        | none => simp [hi, hS, hE] at h
        | some E =>
          simp only [hi, hS, hE] at h
          split at h
          · cases h
          · rename_i hc
            simp only [Bool.or_eq_true, Bool.not_eq_true', not_or, Bool.not_eq_false, Bool.not_eq_true] at hc
            simp only [Option.some.injEq] at h
            exact ⟨secs, gi, S, E, rfl, hi, hS, hE, hc.1, hc.2, h.symm⟩


/-! ### small facts -/

theorem secKind_some_head {l : Str} {k : SecKind} (h : secKind l = some k) : l.head? = some '[' := by
  unfold Spec.SSA.secKind at h
  split at h
  · rfl
  · cases h

theorem grouped_head {lines : List Str} {secs : List (SecKind × List Str)} (hg : Grouped lines secs) (l : Str) (ls : List Str)
    (e : lines = l :: ls) : l.head? = some '[' := by
  cases secs with
  | nil => have : lines = [] := hg; rw [this] at e; cases e
  | cons s rest =>
    obtain ⟨h, tail, hl, hk, _, _⟩ := hg
    rw [hl] at e
    cases e
    exact secKind_some_head hk

theorem grouped_mem : ∀ {secs : List (SecKind × List Str)} {lines : List Str}, Grouped lines secs →
    ∀ s ∈ secs, ∀ l ∈ s.2, l ∈ lines := by
  intro secs
  induction secs with
  | nil => intro _ _ s hs; cases hs
  | cons s0 rest ih =>
    intro lines hg s hs l hl
    obtain ⟨h, tail, hlines, _, _, hgt⟩ := hg
    subst hlines
    rcases List.mem_cons.mp hs with rfl | hs
    · simp [hl]
    · have := ih hgt s hs l hl
      simp [this]

theorem splitLines_no_nl : ∀ (s acc : Str), '\n' ∉ acc → ∀ l ∈ Spec.SSA.splitLines s acc, '\n' ∉ l := by
  intro s acc
  induction s, acc using Spec.SSA.splitLines.induct with
  | case1 acc he =>
    intro _ l hl
    simp [Spec.SSA.splitLines, he] at hl
  | case2 acc he =>
    intro ha l hl
    simp only [Spec.SSA.splitLines, he] at hl
    simp only [Bool.false_eq_true, ↓reduceIte, List.mem_singleton] at hl
    subst hl; simpa using ha
  | case3 rest acc ih =>
    intro ha l hl
    simp only [Spec.SSA.splitLines, List.mem_cons] at hl
    rcases hl with rfl | hl
    · simpa using ha
    · exact ih (by simp) l hl
  | case4 rest acc ih =>
    intro ha l hl
    simp only [Spec.SSA.splitLines, List.mem_cons] at hl
    rcases hl with rfl | hl
    · simpa using ha
    · exact ih (by simp) l hl
  | case5 rest acc hr ih =>
    intro ha l hl
    rw [Spec.SSA.splitLines.eq_4 _ _ hr] at hl
    simp only [List.mem_cons] at hl
    rcases hl with rfl | hl
    · simpa using ha
    · exact ih (by simp) l hl
  | case6 c rest acc h1 h2 h3 ih =>
    intro ha l hl
    rw [Spec.SSA.splitLines.eq_5 _ _ _ h1 h2 h3] at hl
    refine ih ?_ l hl
    simp only [List.mem_cons, not_or]
    exact ⟨fun e => h2 e.symm, ha⟩

theorem mem_trimSpace {c : Char} {s : Str} (h : c ∈ trimSpace s) : c ∈ s := by
  unfold trimSpace trimRight trimLeft at h
  rw [List.mem_reverse] at h
  have h1 := (List.dropWhile_sublist isSpace).mem h
  rw [List.mem_reverse] at h1
  exact (List.dropWhile_sublist isSpace).mem h1

theorem mem_commentsOf {c : Str} {body : List Str} (h : c ∈ Spec.SSA.commentsOf body) :
    ∃ rest, (';' :: rest) ∈ body ∧ c = trimSpace rest := by
  unfold Spec.SSA.commentsOf at h
  rw [List.mem_filterMap] at h
  obtain ⟨l, hl, he⟩ := h
  cases l with
  | nil => simp [Spec.SSA.classify, Spec.SSA.keyValue] at he
  | cons x xs =>
    by_cases hx : x = ';'
    · subst hx
      simp only [Spec.SSA.classify, Option.some.injEq] at he
      exact ⟨xs, hl, he.symm⟩
    · have hc : Spec.SSA.classify (x :: xs) = match Spec.SSA.keyValue (x :: xs) with
          | some (k, v) => .kv k v | none => .junk := by
        unfold Spec.SSA.classify
        split
        · rename_i h; cases h; exact absurd rfl hx
        · rfl
      rw [hc] at he
      cases hkv : Spec.SSA.keyValue (x :: xs) with
      | none => rw [hkv] at he; cases he
      | some p => rw [hkv] at he; cases he


theorem styleView_name {m : Style} {gs : GStyle} (h : styleView m = some gs) : gs.name = m.name := by
  unfold styleView defView at h
  cases ha : Spec.SSA.attrsView Spec.SSA.styleTable m.toDef.attrs with
  | none => simp [ha] at h
  | some a =>
    simp only [ha, Option.map_some, Option.some.injEq] at h
    rw [← h]
    rfl

theorem styleView_names : ∀ (ms : List Style) (gs : List GStyle), ms.map styleView = gs.map some →
    ms.map (·.name) = gs.map (·.name) := by
  intro ms
  induction ms with
  | nil => intro gs h; cases gs <;> simp_all
  | cons m ms ih =>
    intro gs h
    cases gs with
    | nil => simp at h
    | cons g gs =>
      simp only [List.map_cons, List.cons.injEq] at h ⊢
      exact ⟨(styleView_name h.1).symm, ih gs h.2⟩

theorem mapM_of_map {α β} (f : α → Option β) : ∀ (l : List α) (L : List β), l.map f = L.map some →
    Spec.SSA.mapM f l = some L := by
  intro l
  induction l with
  | nil => intro L h; cases L <;> simp_all [Spec.SSA.mapM]
  | cons a as ih =>
    intro L h
    cases L with
    | nil => simp at h
    | cons b bs =>
      simp only [List.map_cons, List.cons.injEq] at h
      simp [Spec.SSA.mapM, h.1, ih bs h.2]

theorem finish_runL_first (st : St) (lines : List Str) :
    finish (runL st lines) = finish (runL { st with first := false } lines) := by
  cases lines with
  | nil => rfl
  | cons l ls => rfl

theorem comments_no_nl (text : Str) (secs : List (SecKind × List Str)) (hs : sections (specLines text) = some secs) :
    ∀ c ∈ knownComments secs, '\n' ∉ c := by
  intro c hc
  unfold knownComments at hc
  rw [List.mem_flatten] at hc
  obtain ⟨cs, hcs, hc⟩ := hc
  rw [List.mem_map] at hcs
  obtain ⟨s, hs', rfl⟩ := hcs
  have hsm : s ∈ secs := (List.mem_filter.mp hs').1
  obtain ⟨rest, hr, rfl⟩ := mem_commentsOf hc
  have hl := grouped_mem (sections_grouped _ _ hs) s hsm _ hr
  unfold specLines at hl
  have hl2 := (List.mem_filter.mp hl).1
  rw [List.mem_map] at hl2
  obtain ⟨raw, hraw, he⟩ := hl2
  have h1 := splitLines_no_nl _ [] (by simp) raw hraw
  intro hm
  have h2 : '\n' ∈ trimSpace raw := by rw [he]; exact List.mem_cons_of_mem _ (mem_trimSpace hm)
  exact h1 (mem_trimSpace h2)

/-- **View of the final state.** -/
theorem view_finish (st' : St) (C : List Str) (gi : List (String × Spec.SSA.GVal)) (Sf : List GStyle) (Ef : List REvent)
    (hcom : st'.info.comments = C) (hnl : ∀ c ∈ C, '\n' ∉ c)
    (hinfo : Spec.SSA.attrsView Spec.SSA.infoTable st'.info.metadata = some gi)
    (hms : st'.styles.map styleView = Sf.map some)
    (hnd : nodup ((Sf.map (·.name)).map String.ofList) = true)
    (hstar : (Sf.map (·.name)).any (fun n => n.head? = some '*') = false)
    (hev : EvRel st'.events Ef) :
    ∃ s, finish (.ok st') = .ok s ∧
      Spec.SSA.view s = some { comments := C, info := gi, styles := Sf.mergeSort (fun a b => strLe a.name b.name),
                               events := Ef.map fun r => { r.ev with style := resolve (Sf.map (·.name)) r.styleName } } := by
  have hnames := styleView_names _ _ hms
  have hnodup : (st'.styles.map (·.name)).Nodup := by rw [hnames]; exact spec_nodup _ hnd
  have hsm := styleMap_nodup _ hnodup
  have hstar' : ∀ n ∈ Sf.map (·.name), n.head? ≠ some '*' := by
    intro n hn
    have := List.any_eq_false.mp hstar n hn
    simpa using this
  have hfilt : st'.events.filter (fun e => e.category = "Dialogue".toList) = st'.events := by
    rw [List.filter_eq_self]
    intro e he
    exact decide_eq_true (hev.1 e he)
  refine ⟨_, rfl, ?_⟩
  unfold Spec.SSA.view
  simp only [hsm, hfilt, hnames, hinfo]
  have h1 : Spec.SSA.mapM (fun (d : Def) => (Spec.SSA.attrsView Spec.SSA.styleTable d.attrs).map fun a => ({ name := d.id, attrs := a } : GStyle))
      (st'.styles.map Style.toDef) = some Sf := by
    apply mapM_of_map
    rw [List.map_map]
    exact hms
  have h2 : Spec.SSA.mapM Spec.SSA.eventView (st'.events.map (eventItem (Sf.map (·.name)))) =
      some (Ef.map fun r => { r.ev with style := resolve (Sf.map (·.name)) r.styleName }) := by
    apply mapM_of_map
    rw [List.map_map, List.map_map]
    exact hev.2 _ hstar'
  rw [h1, h2]
  simp only [Option.some.injEq]
  congr 1
  rw [spec_kvGet_eq, kvGet_metadata_comments, hcom]
  cases C with
  | nil => rfl
  | cons c cs =>
    simp only [List.isEmpty_cons, Bool.false_eq_true, ↓reduceIte]
    exact splitC_join_nl _ (by simp) hnl


/-- **Read clause, character level.** For every text the decoder accepts (`decode text = some g`) and that is in the
    class `InClass`, the reader model succeeds on the lines the scanner delivers and the view of its answer is `g` -/
theorem read_view (text : Str) (g : GDoc) (hd : decode text = some g) (hc : InClass text = true) :
    ∃ s, SSA.read (Spec.SSA.splitLines text []) = .ok s ∧ Spec.SSA.view s = some g := by
  obtain ⟨secs, gi, S, E, hs, hi, hS, hE, hnd, hstar, hg⟩ := decode_some text g hd
  unfold InClass at hc
  rw [hs, hd] at hc
  simp only [Bool.and_eq_true] at hc
  obtain ⟨⟨⟨hbom, hhead⟩, hinfo⟩, h64⟩ := hc
  have hgr := sections_grouped _ _ hs
  have hne : ∀ l ∈ specLines text, l ≠ [] := by
    intro l hl
    unfold specLines at hl
    have := (List.mem_filter.mp hl).2
    intro e; subst e; simp at this
  have hfirst : ∀ l ls, specLines text = l :: ls → l.head? = some '[' := fun l ls e => grouped_head hgr l ls e
  unfold ints64 at h64
  rw [Bool.and_eq_true, List.all_eq_true, List.all_eq_true] at h64
  have hS64 : ∀ gs ∈ S.flatten, attrs64 gs.attrs = true := by
    intro gs hgs
    apply h64.1
    rw [hg]
    exact (List.mergeSort_perm _ _).mem_iff.mpr hgs
  have hE64 : ∀ r ∈ E.flatten, event64 r.ev = true := by
    intro r hr
    have := h64.2 { r.ev with style := resolve (S.flatten.map (·.name)) r.styleName } (by
      rw [hg]; exact List.mem_map.mpr ⟨r, hr, rfl⟩)
    exact this
  obtain ⟨st', hrun, hcom, hrel, ⟨ms, hms, hmsv⟩, ⟨es, hes, hev⟩⟩ :=
    run_grouped secs (specLines text) { first := false } [] S E hgr hne hhead hinfo (lineSyn_of_infoOf hi) hS hE hS64 hE64 rfl (fun f => rfl)
  have hcom' : st'.info.comments = knownComments secs := by simpa using hcom
  have hms' : st'.styles.map styleView = S.flatten.map some := by rw [hms]; simpa using hmsv
  have hev' : EvRel st'.events E.flatten := by rw [hes]; simpa using hev
  have hinfo' := info_view st'.info (infoLines secs) gi (by simpa using hrel) hi
  obtain ⟨s, hf, hv⟩ := view_finish st' _ gi S.flatten E.flatten hcom' (comments_no_nl text secs hs) hinfo' hms' hnd hstar hev'
  refine ⟨s, ?_, ?_⟩
  · rw [read_eq_finish, finish_run_lines text hbom hfirst, finish_runL_first]
    have e : ({ ({} : St) with first := false } : St) = { first := false } := rfl
    rw [e, hrun]
    exact hf
  · rw [hv, hg]


/-! ### bytes -/

theorem allSomeL_map_some {α} (l : List α) : Driver.SSAD.allSomeL (l.map some) = some l := by
  induction l with
  | nil => rfl
  | cons a as ih => simp [Driver.SSAD.allSomeL, ih]

/-- **Read clause, byte level (what the `ssa.read` stream computes).** If the bytes are valid UTF-8 for `text`, the
    decoder accepts `text` as `g`, `text` is in the class, and the driver's model of `ReadFromSSA` on the bytes
    (`readBytes`: scanner, per-line decoding, `SSA.read`, range check) answers `r` (is not "unmodelled"), then `r` is a
    success whose view is `g` -/
theorem readBytes_view (doc : List UInt8) (text : Str) (g : GDoc) (hdl : Driver.decodeLine doc = some text)
    (hd : decode text = some g) (hc : InClass text = true) (r : Res Subs) (hr : Driver.SSAD.readBytes doc = some r) :
    ∃ s, r = .ok s ∧ Spec.SSA.view s = some g := by
  obtain ⟨s, hs, hv⟩ := read_view text g hd hc
  unfold Driver.SSAD.readBytes at hr
  rw [docLines_of_decode doc text hdl, allSomeL_map_some] at hr
  simp only [hs] at hr
  split at hr
  · cases hr
  · split at hr
    · simp only [Option.some.injEq] at hr
      exact ⟨s, hr.symm, hv⟩
    · cases hr

end SSAR
end Astisub
