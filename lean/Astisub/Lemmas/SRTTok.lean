import Astisub.Go.HTML

/-!
# Lemmas/SRTTok — the tokenizer model on text without `<` and on the tags the SubRip writer emits

General facts about `Go.tokLoop` / `Go.tokenize` (any fuel that suffices, any continuation):

* `tokLoop_text`   : characters other than `<` and NUL are accumulated as text;
* `tokLoop_b` …    : `<b> <i> <u> </b> </i> </u> </font>` and `<font color="c">` are each one token and
                     the scan resumes behind them with an empty text accumulator;
* `tokenize_text`  : `tokenize t = .ok [Tok.text t]` for non-empty `t` without `<` and NUL;
* `tokenize_raws`  : a token list made of such texts and such tags, with no two texts adjacent, is what
                     the tokenizer returns for the concatenation of its raw forms.
-/

namespace Astisub
namespace Go
open List

/-- the pending text is emitted in front of the next tag (the `flush` of `tokLoop`) -/
def flushText (acc : Str) (out : List Tok) : List Tok := if acc.isEmpty then out else .text acc.reverse :: out

/-- a character the tokenizer just accumulates -/
def plainChar (c : Char) : Bool := c != '<' && c != '\x00'

theorem tokLoop_nil (fuel : Nat) (acc : Str) (out : List Tok) :
    tokLoop (fuel + 1) [] acc out = .ok (flushText acc out).reverse := by
  conv => lhs; unfold tokLoop
  simp [flushText]

theorem tokLoop_plain (fuel : Nat) (c : Char) (rest acc : Str) (out : List Tok) (h : plainChar c = true) :
    tokLoop (fuel + 1) (c :: rest) acc out = tokLoop fuel rest (c :: acc) out := by
  simp only [plainChar, Bool.and_eq_true] at h
  have h0 : (c == '\x00') = false := by simpa using h.2
  conv => lhs; unfold tokLoop
  simp only [h0, h.1]
  simp

/-- **Text.** a stretch without `<` and NUL goes to the accumulator, one unit of fuel per character -/
theorem tokLoop_text (t : Str) (ht : ∀ c ∈ t, plainChar c = true) (fuel : Nat) (rest acc : Str) (out : List Tok) :
    tokLoop (fuel + t.length) (t ++ rest) acc out = tokLoop fuel rest (t.reverse ++ acc) out := by
  induction t generalizing acc with
  | nil => simp
  | cons c t ih =>
    have hc := ht c (by simp)
    have ht' : ∀ c ∈ t, plainChar c = true := fun d hd => ht d (by simp [hd])
    rw [show fuel + (c :: t).length = (fuel + t.length) + 1 by simp; omega]
    rw [List.cons_append, tokLoop_plain _ _ _ _ _ hc, ih ht']
    simp

theorem take_raw (raw after : Str) : (raw ++ after).take ((raw ++ after).length - after.length) = raw := by
  simp

/-- **Start tag (general).** when `readTag` finds a complete tag `raw` that is neither a raw-text
    element, nor self-closing, nor carries `&` in a value, the tokenizer emits the pending text,
    then the start tag, and resumes behind it -/
theorem tokLoop_startTag (fuel : Nat) (d : Char) (tl after raw name acc : Str) (attrs : List (Str × Str)) (out : List Tok)
    (hd : isLetter d = true) (hr : readTag (d :: tl) = some (name, attrs, after))
    (hsplit : '<' :: d :: tl = raw ++ after)
    (hrawtag : rawTags.contains (String.ofList (toLowerAscii name)) = false)
    (hamp : attrs.any (fun kv => kv.2.contains '&') = false)
    (hself : (raw.dropLast.getLast? == some '/') = false) :
    tokLoop (fuel + 1) ('<' :: d :: tl) acc out
      = tokLoop fuel after [] (Tok.startTag raw (toLowerAscii name) (lowerKV attrs) :: flushText acc out) := by
  have hlt : ('<' != '<') = false := by decide
  have h0 : ('<' == '\x00') = false := by decide
  conv => lhs; unfold tokLoop
  simp only [h0, hlt, hd, hr, hrawtag, hamp, hsplit, take_raw, hself, flushText]
  simp

/-- **End tag (general).** -/
theorem tokLoop_endTag (fuel : Nat) (e : Char) (tl after raw name acc : Str) (attrs : List (Str × Str)) (out : List Tok)
    (he : isLetter e = true) (hr : readTag (e :: tl) = some (name, attrs, after))
    (hsplit : '<' :: '/' :: e :: tl = raw ++ after) :
    tokLoop (fuel + 1) ('<' :: '/' :: e :: tl) acc out
      = tokLoop fuel after [] (Tok.endTag raw (toLowerAscii name) :: flushText acc out) := by
  have hlt : ('<' != '<') = false := by decide
  have h0 : ('<' == '\x00') = false := by decide
  have hs : isLetter '/' = false := by decide
  have hgt : (e == '>') = false := by
    cases h : e == '>'
    · rfl
    · simp at h; subst h; simp [isLetter] at he
  conv => lhs; unfold tokLoop
  simp only [h0, hlt, hs, he, hr, hgt, hsplit, take_raw, flushText]
  simp

/-! ### the tags of the SubRip writer -/

theorem readTag_b (rest : Str) : readTag ('b' :: '>' :: rest) = some (['b'], [], rest) := by
  simp [readTag, readAttrs, isTagWS]
theorem readTag_i (rest : Str) : readTag ('i' :: '>' :: rest) = some (['i'], [], rest) := by
  simp [readTag, readAttrs, isTagWS]
theorem readTag_u (rest : Str) : readTag ('u' :: '>' :: rest) = some (['u'], [], rest) := by
  simp [readTag, readAttrs, isTagWS]
theorem readTag_font_end (rest : Str) :
    readTag ('f' :: 'o' :: 'n' :: 't' :: '>' :: rest) = some ("font".toList, [], rest) := by
  simp [readTag, readAttrs, isTagWS]

def tokB : Tok := .startTag "<b>".toList "b".toList []
def tokI : Tok := .startTag "<i>".toList "i".toList []
def tokU : Tok := .startTag "<u>".toList "u".toList []
def tokEB : Tok := .endTag "</b>".toList "b".toList
def tokEI : Tok := .endTag "</i>".toList "i".toList
def tokEU : Tok := .endTag "</u>".toList "u".toList
def tokEFont : Tok := .endTag "</font>".toList "font".toList
def tokFont (c : Str) : Tok :=
  .startTag ("<font color=\"".toList ++ c ++ "\">".toList) "font".toList [("color".toList, c)]

theorem tokLoop_b (fuel : Nat) (rest acc : Str) (out : List Tok) :
    tokLoop (fuel + 1) ("<b>".toList ++ rest) acc out = tokLoop fuel rest [] (tokB :: flushText acc out) :=
  tokLoop_startTag fuel 'b' ('>' :: rest) rest "<b>".toList ['b'] acc [] out (by decide) (readTag_b rest) rfl
    (by decide) rfl (by decide)
theorem tokLoop_i (fuel : Nat) (rest acc : Str) (out : List Tok) :
    tokLoop (fuel + 1) ("<i>".toList ++ rest) acc out = tokLoop fuel rest [] (tokI :: flushText acc out) :=
  tokLoop_startTag fuel 'i' ('>' :: rest) rest "<i>".toList ['i'] acc [] out (by decide) (readTag_i rest) rfl
    (by decide) rfl (by decide)
theorem tokLoop_u (fuel : Nat) (rest acc : Str) (out : List Tok) :
    tokLoop (fuel + 1) ("<u>".toList ++ rest) acc out = tokLoop fuel rest [] (tokU :: flushText acc out) :=
  tokLoop_startTag fuel 'u' ('>' :: rest) rest "<u>".toList ['u'] acc [] out (by decide) (readTag_u rest) rfl
    (by decide) rfl (by decide)
theorem tokLoop_eb (fuel : Nat) (rest acc : Str) (out : List Tok) :
    tokLoop (fuel + 1) ("</b>".toList ++ rest) acc out = tokLoop fuel rest [] (tokEB :: flushText acc out) :=
  tokLoop_endTag fuel 'b' ('>' :: rest) rest "</b>".toList ['b'] acc [] out (by decide) (readTag_b rest) rfl
theorem tokLoop_ei (fuel : Nat) (rest acc : Str) (out : List Tok) :
    tokLoop (fuel + 1) ("</i>".toList ++ rest) acc out = tokLoop fuel rest [] (tokEI :: flushText acc out) :=
  tokLoop_endTag fuel 'i' ('>' :: rest) rest "</i>".toList ['i'] acc [] out (by decide) (readTag_i rest) rfl
theorem tokLoop_eu (fuel : Nat) (rest acc : Str) (out : List Tok) :
    tokLoop (fuel + 1) ("</u>".toList ++ rest) acc out = tokLoop fuel rest [] (tokEU :: flushText acc out) :=
  tokLoop_endTag fuel 'u' ('>' :: rest) rest "</u>".toList ['u'] acc [] out (by decide) (readTag_u rest) rfl
theorem tokLoop_efont (fuel : Nat) (rest acc : Str) (out : List Tok) :
    tokLoop (fuel + 1) ("</font>".toList ++ rest) acc out = tokLoop fuel rest [] (tokEFont :: flushText acc out) :=
  tokLoop_endTag fuel 'f' ('o' :: 'n' :: 't' :: '>' :: rest) rest "</font>".toList "font".toList acc [] out
    (by decide) (readTag_font_end rest) rfl

theorem takeWhile_append_stop {α} (p : α → Bool) (a : List α) (x : α) (r : List α)
    (ha : ∀ c ∈ a, p c = true) (hx : p x = false) : (a ++ x :: r).takeWhile p = a := by
  induction a with
  | nil => simp [hx]
  | cons c a ih =>
    have := ha c (by simp)
    simp [this, ih (fun d hd => ha d (by simp [hd]))]

/-- a colour value that the tokenizer model hands back as it is: no `"` (ends the value), no `&`
    (entity decoding is outside the model), no NUL -/
def colorOK (c : Str) : Bool := c.all fun ch => ch != '"' && ch != '&' && ch != '\x00'

theorem readAttrs_color (n : Nat) (c rest : Str) (hc : ∀ ch ∈ c, ch ≠ '"') :
    readAttrs (n + 2) ('c' :: 'o' :: 'l' :: 'o' :: 'r' :: '=' :: '"' :: (c ++ '"' :: '>' :: rest)) []
      = some ([("color".toList, c)], rest) := by
  have h1 : (c ++ '"' :: '>' :: rest).takeWhile (· != '"') = c :=
    takeWhile_append_stop _ c '"' _ (by intro ch h; simpa using hc ch h) (by simp)
  rw [readAttrs]
  · simp [isTagWS, h1, readAttrs]
  · simp
  · simp

theorem readTag_font (c rest : Str) (hc : ∀ ch ∈ c, ch ≠ '"') :
    readTag ("font color=\"".toList ++ c ++ '"' :: '>' :: rest) = some ("font".toList, [("color".toList, c)], rest) := by
  have e : length c + (length rest + 1 + 1) + 1 + 1 + 1 + 1 + 1 + 1 + 1 + 1 = (length c + length rest + 8) + 2 := by omega
  simp [readTag, isTagWS, e, readAttrs_color _ c rest hc]

theorem tokLoop_font (fuel : Nat) (c rest acc : Str) (out : List Tok) (hc : colorOK c = true) :
    tokLoop (fuel + 1) ("<font color=\"".toList ++ c ++ "\">".toList ++ rest) acc out
      = tokLoop fuel rest [] (tokFont c :: flushText acc out) := by
  have hall := List.all_eq_true.mp hc
  have hq : ∀ ch ∈ c, ch ≠ '"' := by
    intro ch h; have := hall ch h; simp at this; exact this.1.1
  have ha : '&' ∉ c := by
    intro hh; have := hall '&' hh; simp at this
  have hr := readTag_font c rest hq
  have hlast : ((("<font color=\"".toList ++ c ++ "\">".toList).dropLast).getLast? == some '/') = false := by
    have : ("<font color=\"".toList ++ c ++ "\">".toList) = ("<font color=\"".toList ++ c ++ ['"']) ++ ['>'] := by simp
    rw [this, List.dropLast_concat, List.getLast?_concat]
    decide
  have := tokLoop_startTag fuel 'f' ("ont color=\"".toList ++ c ++ '"' :: '>' :: rest) rest
    ("<font color=\"".toList ++ c ++ "\">".toList) "font".toList acc [("color".toList, c)] out (by decide)
    (by simpa using hr) (by simp) (by decide) (by simp [ha]) hlast
  simpa [tokFont, lowerKV, toLowerAscii] using this

/-! ### whole strings -/

/-- **Plain text.** a non-empty text without `<` and NUL is one text token -/
theorem tokenize_text (t : Str) (hne : t ≠ []) (ht : ∀ c ∈ t, plainChar c = true) :
    tokenize t = .ok [Tok.text t] := by
  have h := tokLoop_text t ht 2 [] [] []
  simp only [List.append_nil] at h
  unfold tokenize
  rw [show t.length + 2 = 2 + t.length by omega, h, tokLoop_nil]
  cases t with
  | nil => exact absurd rfl hne
  | cons c t => simp [flushText]

/-- the raw text of a token -/
def Tok.raw : Tok → Str
  | .text r => r
  | .startTag r _ _ => r
  | .endTag r _ => r
  | .selfClosing r _ _ => r
  | .other r => r

def Tok.isText : Tok → Bool
  | .text _ => true
  | _ => false

/-- the tokens the SubRip writer's output is made of: a non-empty text without `<` and NUL, or one
    of the writer's eight tags -/
inductive WriterTok : Tok → Prop
  | text (t : Str) (hne : t ≠ []) (ht : ∀ c ∈ t, plainChar c = true) : WriterTok (.text t)
  | b : WriterTok tokB
  | i : WriterTok tokI
  | u : WriterTok tokU
  | eb : WriterTok tokEB
  | ei : WriterTok tokEI
  | eu : WriterTok tokEU
  | efont : WriterTok tokEFont
  | font (c : Str) (hc : colorOK c = true) : WriterTok (tokFont c)

/-- no two text tokens next to each other (the tokenizer would return them as one) -/
def noAdjText : List Tok → Bool
  | a :: b :: r => !(a.isText && b.isText) && noAdjText (b :: r)
  | _ => true

def headIsText : List Tok → Bool
  | a :: _ => a.isText
  | [] => false

/-- one writer tag: pending text, then the tag, and the scan resumes behind it -/
theorem tokLoop_writerTag (t : Tok) (hw : WriterTok t) (hnt : t.isText = false) (fuel : Nat) (rest acc : Str)
    (out : List Tok) : tokLoop (fuel + 1) (t.raw ++ rest) acc out = tokLoop fuel rest [] (t :: flushText acc out) := by
  cases hw with
  | text t _ _ => simp [Tok.isText] at hnt
  | b => exact tokLoop_b fuel rest acc out
  | i => exact tokLoop_i fuel rest acc out
  | u => exact tokLoop_u fuel rest acc out
  | eb => exact tokLoop_eb fuel rest acc out
  | ei => exact tokLoop_ei fuel rest acc out
  | eu => exact tokLoop_eu fuel rest acc out
  | efont => exact tokLoop_efont fuel rest acc out
  | font c hc => exact tokLoop_font fuel c rest acc out hc

theorem WriterTok.raw_pos {t : Tok} (hw : WriterTok t) : 0 < t.raw.length := by
  cases hw with
  | text t hne _ => cases t with
    | nil => exact absurd rfl hne
    | cons => simp [Tok.raw]
  | font c _ => simp [tokFont, Tok.raw]
  | _ => simp [tokB, tokI, tokU, tokEB, tokEI, tokEU, tokEFont, Tok.raw]

theorem tokLoop_writerToks (ts : List Tok) (hw : ∀ t ∈ ts, WriterTok t) (hadj : noAdjText ts = true) :
    ∀ (fuel : Nat) (acc : Str) (out : List Tok), (ts.flatMap Tok.raw).length < fuel →
      (acc ≠ [] → headIsText ts = false) →
      tokLoop fuel (ts.flatMap Tok.raw) acc out = .ok ((flushText acc out).reverse ++ ts) := by
  induction ts with
  | nil =>
    intro fuel acc out hf _
    obtain ⟨f, rfl⟩ : ∃ f, fuel = f + 1 := ⟨fuel - 1, by simp at hf; omega⟩
    simp [tokLoop_nil]
  | cons t ts ih =>
    intro fuel acc out hf hacc
    have hw' : ∀ t ∈ ts, WriterTok t := fun x hx => hw x (by simp [hx])
    have hadj' : noAdjText ts = true := by
      cases ts with
      | nil => rfl
      | cons b r => simp [noAdjText] at hadj; exact hadj.2
    rw [List.flatMap_cons] at hf ⊢
    rw [List.length_append] at hf
    cases ht : t.isText with
    | true =>
      -- a text token: the accumulator is empty, the next token is a tag
      have hacc0 : acc = [] := by
        cases acc with
        | nil => rfl
        | cons a as => have := hacc (by simp); simp [headIsText, ht] at this
      subst hacc0
      cases hwt : hw t (by simp) with
      | text r hne hr =>
        simp only [Tok.raw] at hf ⊢
        obtain ⟨f, rfl⟩ : ∃ f, fuel = f + r.length := ⟨fuel - r.length, by omega⟩
        rw [tokLoop_text r hr f _ [] out, ih hw' hadj' f _ out (by omega)]
        · cases r with
          | nil => exact absurd rfl hne
          | cons c r => simp [flushText]
        · intro _
          cases ts with
          | nil => rfl
          | cons b r' =>
            have h1 : (!((Tok.text r).isText && b.isText) && noAdjText (b :: r')) = true := hadj
            have h2 : (Tok.text r).isText = true := rfl
            rw [h2] at h1
            simp at h1
            simp [headIsText, h1.1]
      | _ => simp [Tok.isText, tokB, tokI, tokU, tokEB, tokEI, tokEU, tokEFont, tokFont] at ht
    | false =>
      obtain ⟨f, rfl⟩ : ∃ f, fuel = f + 1 := ⟨fuel - 1, by omega⟩
      have hpos := (hw t (by simp)).raw_pos
      rw [tokLoop_writerTag t (hw t (by simp)) ht f _ acc out, ih hw' hadj' f [] _ (by omega) (by simp)]
      simp [flushText]

/-- **Writer-shaped markup.** a list of writer tokens in which no two texts are adjacent is exactly
    what the tokenizer returns for the concatenation of their raw texts -/
theorem tokenize_writerToks (ts : List Tok) (hw : ∀ t ∈ ts, WriterTok t) (hadj : noAdjText ts = true) :
    tokenize (ts.flatMap Tok.raw) = .ok ts := by
  unfold tokenize
  rw [tokLoop_writerToks ts hw hadj _ [] [] (by omega) (by simp)]
  simp [flushText]

end Go
end Astisub
