import Astisub.Lemmas.SSA2Fix

/-!
# Lemmas/SSA2Fixpoint — `write (norm s) = write s`

`write_eq` factors `WriteToSSA` through its four inputs (script info, script type, sorted styles,
event rows); `write_norm` shows that each of them is the same for a cue list and its normal form.
-/

namespace Astisub
namespace SSA
open Go List

/-- `WriteToSSA` after its guards, as a function of the script info, the script type, the sorted styles and the event rows -/
def writeCore (info : Info) (v : Bool) (styles : List Style) (rows : List Str) : Res Str :=
  let format := styles.foldl (fun fmt st => updateFormat st fmt) ["Name".toList]
  let styleBlock : Option Str :=
    if styles.isEmpty then some [] else
    (allSome (styles.map fun st => st.row format)).map fun rs =>
      (if v then "\n[V4+ Styles]\n".toList else "\n[V4 Styles]\n".toList)
        ++ "Format: ".toList ++ join ", ".toList format ++ ['\n']
        ++ unlines (rs.map fun r => "Style: ".toList ++ r)
  let events := "\n[Events]\n".toList ++ "Format: ".toList ++ join ", ".toList (eventFormat v) ++ ['\n']
    ++ unlines (rows.map fun r => "Dialogue: ".toList ++ r)
  match info.bytes, styleBlock with
  | some i, some sb => .ok (i ++ sb ++ events)
  | _, _ => .unmodelled

theorem write_eq (s : Subs) :
    write s = if s.items.isEmpty then .err else
      if s.items.any (fun it => it.startAt < 0 || it.endAt < 0) then .unmodelled else
      writeCore (infoOfMeta s.metadata) (isV4plus s) (writerStyles s) (s.items.map fun it => (eventOfItem it).row (isV4plus s)) := by
  unfold write writeCore isV4plus writerStyles
  simp only [map_map, decide_eq_true_eq]
  rfl

/-- **Representable cue lists (rewrite fixpoint)**: `RepRead`, and every cue names no style or a style
    of the cue list (other than `*Default`, which the reader renames), and its text is unchanged by
    the reader's line splitting (no `\N`, no space next to a `\n`). -/
def RepFix (s : Subs) : Prop :=
  RepRead s ∧ ∀ e ∈ s.items.map eventOfItem, StyleRef (styleIds s) e.style ∧ TextFix e.text

instance (s : Subs) : Decidable (RepFix s) :=
  inferInstanceAs (Decidable (RepRead s ∧ ∀ e ∈ s.items.map eventOfItem, StyleRef (styleIds s) e.style ∧ TextFix e.text))

theorem styleRef_ne_default {ids : List Str} {st : Str} (h : StyleRef ids st) : st ≠ "*Default".toList := by
  rcases h with rfl | ⟨_, h⟩
  · decide
  · exact h

/-- the normal form of a good event is taken back to itself by `ssaEvent.item` / `newSSAEventFromItem` -/
theorem eventBack_norm (ids : List Str) (e : Event) (v : Bool) (hc : EventCells e) (ht : Trimmed e.text)
    (hs : StyleRef ids e.style) (hx : TextFix e.text) : EventBack ids (e.norm "Dialogue".toList v) := by
  have hne := styleRef_ne_default hs
  refine ⟨rfl, ?_, ?_, ?_, ?_, ?_, ?_⟩
  · show StyleRef ids (if e.style = "*Default".toList then "Default".toList else e.style)
    rw [if_neg hne]
    exact hs
  · intro x hxv
    cases v
    · cases hxv
    · have : some (e.layer.getD 0) = some x := hxv
      cases this
      exact hc.layer
  · intro x hxv
    have : some (e.marginL.getD 0) = some x := hxv
    cases this
    exact hc.marginL
  · intro x hxv
    have : some (e.marginR.getD 0) = some x := hxv
    cases this
    exact hc.marginR
  · intro x hxv
    have : some (e.marginV.getD 0) = some x := hxv
    cases this
    exact hc.marginV
  · show TextFix (trimSpace e.text)
    rw [trimSpace_of_trimmed ht]
    exact hx

/-- the row of the cue rebuilt from a normalised event is the row of the event -/
theorem row_norm (ids : List Str) (e : Event) (v : Bool) (hc : EventCells e) (ht : Trimmed e.text)
    (hs : StyleRef ids e.style) (hx : TextFix e.text) :
    (eventOfItem (eventItem ids (e.norm "Dialogue".toList v))).row v = e.row v := by
  rw [eventOfItem_eventItem ids _ (eventBack_norm ids e v hc ht hs hx)]
  exact C04doc.event_row_rewrite e v _ hc ht (styleRef_ne_default hs)

theorem any_neg_false (items : List CItem) (h : ∀ it ∈ items, 0 ≤ it.startAt ∧ 0 ≤ it.endAt) :
    items.any (fun it => it.startAt < 0 || it.endAt < 0) = false := by
  rw [any_eq_false]
  intro it hit
  have := h it hit
  simp only [Bool.or_eq_true, decide_eq_true_eq, not_or, Int.not_lt]
  exact this

/-- **Rewrite fixpoint.** Writing the normal form gives the same result (the same text) as writing the cue list. -/
theorem write_norm (s : Subs) (h : RepFix s) : write (norm s) = write s := by
  obtain ⟨hr, hfix⟩ := h
  obtain ⟨hinfo, hstyles, hevents, hnd⟩ := hr
  rw [write_eq, write_eq]
  have hemp : (norm s).items.isEmpty = s.items.isEmpty := by simp [norm]
  have hneg1 : s.items.any (fun it => it.startAt < 0 || it.endAt < 0) = false := by
    apply any_neg_false
    intro it hit
    have := (hevents (eventOfItem it) (mem_map_of_mem hit)).1
    exact ⟨this.start.1, this.stop.1⟩
  have hneg2 : (norm s).items.any (fun it => it.startAt < 0 || it.endAt < 0) = false := by
    apply any_neg_false
    intro it' hit'
    obtain ⟨it, hit, rfl⟩ := mem_map.mp hit'
    have := (hevents (eventOfItem it) (mem_map_of_mem hit)).1
    have h1 := this.start.1
    have h2 := this.stop.1
    simp only [eventItem, Event.norm]
    constructor <;> omega
  have hv : isV4plus (norm s) = isV4plus s := by
    unfold isV4plus
    rw [show (norm s).metadata = (infoOfMeta s.metadata).metadata from rfl, scriptType_metadata]
  have hi : infoOfMeta (norm s).metadata = infoOfMeta s.metadata := infoOfMeta_metadata _ hinfo
  have hst : writerStyles (norm s) = writerStyles s :=
    writerStyles_toDef s (fun st hst => (hstyles st hst).1)
  have hrows : (norm s).items.map (fun it => (eventOfItem it).row (isV4plus (norm s)))
      = s.items.map (fun it => (eventOfItem it).row (isV4plus s)) := by
    rw [hv, show (norm s).items = s.items.map fun it =>
      eventItem (styleIds s) ((eventOfItem it).norm "Dialogue".toList (isV4plus s)) from rfl, map_map]
    apply map_congr_left
    intro it hit
    have h1 := hevents (eventOfItem it) (mem_map_of_mem hit)
    have h2 := hfix (eventOfItem it) (mem_map_of_mem hit)
    exact row_norm (styleIds s) (eventOfItem it) (isV4plus s) h1.1 h1.2.1 h2.1 h2.2
  rw [hemp, hneg1, hneg2, hrows, hv, hi, hst]

end SSA
end Astisub
