import Astisub.Model.VTT

/-!
# Lemmas/VTTDefs — well-formedness predicates for the WebVTT write → read theorems

Decidable (`Bool`) predicates describing the tags, voices, texts the writer can emit so that the
reader (tokenizer model + the two regular-expression recognisers) sees them again unchanged.
-/

namespace Astisub
namespace VTT
open Go

/-- `name.class1.class2`: what the HTML tokenizer takes for the tag name -/
def Tag.head (t : Tag) : Str :=
  t.name ++ (if t.classes.isEmpty then [] else '.' :: join ['.'] t.classes)

/-- the characters that have a meaning inside a tag for the tokenizer or the tag expression -/
def markup (c : Char) : Bool := c == '<' || c == '>' || c == '&' || c == '/' || c == '='

/-- a character of a class name: not markup, not a dot, none of the five white-space characters of
    the tokenizer / of `\s` -/
def classChar (c : Char) : Bool := !(markup c || c == '.' || isTagWS c)

/-- an annotation (or a voice): no markup characters and no outer white space -/
def annOk (a : Str) : Bool := trimSpace a == a && a.all fun c => !markup c

/-- a voice name that is written: non-empty annotation of a `<v …>` tag -/
def voiceOk (v : Str) : Bool := v != [] && annOk v

/-- a tag the writer emits in a form the reader rebuilds exactly: name = ASCII letter followed by
    ASCII letters/digits, not `v`; classes non-empty without markup/dots/white space; annotation
    without markup and outer white space; the tokenizer's tag name is not one of the raw-text
    elements (`title`, `script`, …: outside the tokenizer model) -/
def Tag.wf (t : Tag) : Bool :=
  (t.name.head?.map isLetter == some true) && t.name.all Char.isAlphanum && t.name != ['v'] &&
  t.classes.all (fun c => c != [] && c.all classChar) &&
  annOk t.annotation &&
  !rawTags.contains (String.ofList (toLowerAscii t.head))

example : Tag.wf { name := "c".toList, classes := ["red".toList, "big-1".toList], annotation := "some note".toList } = true := by decide
example : Tag.wf { name := "b".toList } = true := by decide
example : Tag.wf { name := "title".toList } = false := by decide
example : voiceOk "Roger Bingham".toList = true := by decide

end VTT
end Astisub
