import Astisub.Lemmas.SSAW2Denote

/-!
# Lemmas/SSAW2CR — the written document contains no carriage return

The decoder (`Spec.SSA.splitLines`) cuts lines at `\r` as well as at `\n`, so "the lines of the written text are
the writer's lines" needs: no `\r` anywhere in `write s`.

* `ValCR`, `StyleCR`, `EventCR`: the `\r` analogues of `ValNL`, `StyleNL`, `EventNL` (SSA2Read.lean), and the
  line-by-line lemmas `cell_cr` … `eventsBlock_cr`, `fields_cr`, `info_cr`;
* `meta_cr`, `style_cr`, `event_cr`: these predicates follow from the clauses of `Spec.SSA.denote`
  (`metaOkB`, `styleOkB`, `itemOkB`) — **except for the override blocks** of the cue lines: `wellFormedBlock`
  only excludes braces, so `{\r}` is a block `denote` accepts;
* `out_no_cr_Statement` (the target as first stated) is therefore **false**: `crSubs` / `out_no_cr_false`;
* `out_no_cr`: the corrected statement, with the explicit decidable hypothesis
  `∀ it ∈ s.items, ∀ l ∈ it.lines, '\r' ∉ lineWhole l`.
-/

namespace Astisub
namespace SSAW
open Go SSA SSAR List
open Spec.SSA (GVal GStyle GRun GEvent GDoc REvent)

/-! ### generic -/

theorem cr_not_mem_join {sep : Str} {ls : List Str} (hs : '\r' ∉ sep) (h : ∀ l ∈ ls, '\r' ∉ l) : '\r' ∉ join sep ls := by
  intro hm
  rcases mem_join hm with h1 | ⟨l, hl, hc⟩
  · exact hs h1
  · exact h l hl hc

theorem cr_not_mem_of_noSpace {s : Str} (h : ∀ c ∈ s, isSpace c = false) : '\r' ∉ s :=
  fun hm => absurd (h _ hm) (by decide)

theorem cr_not_mem_of_numChar {s : Str} (h : ∀ c ∈ s, numChar c = true) : '\r' ∉ s :=
  cr_not_mem_of_noSpace fun c hc => numChar_not_space (h c hc)

/-- a character of `unlines ls` is a line feed or a character of one of the lines -/
theorem mem_unlines {c : Char} : ∀ {ls : List Str}, c ∈ unlines ls → c = '\n' ∨ ∃ l ∈ ls, c ∈ l := by
  intro ls
  induction ls with
  | nil => intro h; simp [unlines] at h
  | cons a rest ih =>
    intro h
    rw [unlines_cons] at h
    rcases mem_append.mp h with h | h
    · exact Or.inr ⟨a, by simp, h⟩
    · rcases mem_cons.mp h with h | h
      · exact Or.inl h
      · rcases ih h with h | ⟨l, hl, hc⟩
        · exact Or.inl h
        · exact Or.inr ⟨l, mem_cons_of_mem _ hl, hc⟩

theorem cr_not_mem_unlines {ls : List Str} (h : ∀ l ∈ ls, '\r' ∉ l) : '\r' ∉ unlines ls := by
  intro hm
  rcases mem_unlines hm with h1 | ⟨l, hl, hc⟩
  · exact absurd h1 (by decide)
  · exact h l hl hc

/-! ### the predicates -/

/-- a string value without carriage return (other values never have one) -/
def ValCR : Val → Prop
  | .s str => '\r' ∉ str
  | _ => True

instance : (v : Val) → Decidable (ValCR v)
  | .s str => inferInstanceAs (Decidable ('\r' ∉ str))
  | .b _ => isTrue trivial
  | .c _ => isTrue trivial
  | .f _ => isTrue trivial
  | .i _ => isTrue trivial

/-- neither the name nor the font name of the style contains a carriage return -/
def StyleCR (s : Style) : Prop := '\r' ∉ s.name ∧ ∀ f ∈ Fld.all, ∀ v, s.vals.get f = some v → ValCR v

instance (s : Style) : Decidable (StyleCR s) :=
  inferInstanceAs (Decidable ('\r' ∉ s.name ∧ ∀ f ∈ Fld.all, ∀ v, s.vals.get f = some v → ValCR v))

/-- no text column of the event contains a carriage return -/
def EventCR (e : Event) : Prop := '\r' ∉ e.style ∧ '\r' ∉ e.name ∧ '\r' ∉ e.effect ∧ '\r' ∉ e.text

instance (e : Event) : Decidable (EventCR e) :=
  inferInstanceAs (Decidable ('\r' ∉ e.style ∧ '\r' ∉ e.name ∧ '\r' ∉ e.effect ∧ '\r' ∉ e.text))

/-- neither a comment nor a string value of the script info contains a carriage return -/
def InfoCR (b : Info) : Prop := (∀ c ∈ b.comments, '\r' ∉ c) ∧ ∀ f ∈ SI.all, ∀ v, b.vals.get f = some v → ValCR v

instance (b : Info) : Decidable (InfoCR b) :=
  inferInstanceAs (Decidable ((∀ c ∈ b.comments, '\r' ∉ c) ∧ ∀ f ∈ SI.all, ∀ v, b.vals.get f = some v → ValCR v))

/-! ### styles block -/

theorem hex8_noSpace (c : Nat) : ∀ x ∈ hex8 c, isSpace x = false := by
  intro x hx
  have k : ∀ n, isSpace (hexDigitLower (n % 16)) = false := fun n => hex_not_spaceFin ⟨n % 16, Nat.mod_lt _ (by decide)⟩
  simp only [hex8, mem_cons, not_mem_nil, or_false] at hx
  rcases hx with rfl | rfl | rfl | rfl | rfl | rfl | rfl | rfl <;> exact k _

theorem cell_cr (v : Val) (cell : Str) (h : v.ssa = some cell) (hv : ValCR v) : '\r' ∉ cell := by
  cases v with
  | b b => cases b <;> (simp only [Val.ssa, Option.some.injEq] at h; subst h; decide)
  | c c =>
    simp only [Val.ssa, Option.some.injEq] at h
    subst h
    apply cr_not_mem_of_noSpace
    intro x hx
    unfold colourString at hx
    rcases mem_append.mp hx with hx | hx
    · have : x = '&' ∨ x = 'H' := by simpa using hx
      rcases this with rfl | rfl <;> decide
    · exact hex8_noSpace c x hx
  | f bits => exact cr_not_mem_of_numChar (formatFloat3_numChar bits cell h)
  | i i =>
    simp only [Val.ssa, Option.some.injEq] at h
    subst h
    exact cr_not_mem_of_numChar (numChar_itoa i)
  | s str =>
    simp only [Val.ssa, Option.some.injEq] at h
    subst h
    exact hv

theorem cells_cr (s : Style) (ht : StyleCR s) : ∀ (fs : List Fld) (cs : List Str),
    allSome (fs.map (cellOf s)) = some cs → ∀ c ∈ cs, '\r' ∉ c := by
  intro fs
  induction fs with
  | nil =>
    intro cs h c hc
    simp only [map_nil, allSome, Option.some.injEq] at h
    subst h
    cases hc
  | cons f fs ih =>
    intro cs h
    simp only [map_cons, allSome] at h
    cases hcell : cellOf s f with
    | none => rw [hcell] at h; simp at h
    | some c0 =>
      cases hrest : allSome (fs.map (cellOf s)) with
      | none => rw [hcell, hrest] at h; simp at h
      | some cs' =>
        rw [hcell, hrest] at h
        simp only [Option.some.injEq] at h
        subst h
        intro c hc
        rcases mem_cons.mp hc with rfl | hc
        · unfold cellOf at hcell
          cases hget : s.vals.get f with
          | none => simp only [hget, Option.some.injEq] at hcell; subst hcell; simp
          | some v =>
            simp only [hget] at hcell
            exact cell_cr v c hcell (ht.2 f (C04.fld_all_complete f) v hget)
        · exact ih cs' hrest c hc

theorem style_row_cr (s : Style) (fs : List Fld) (ht : StyleCR s) (row : Str)
    (hrow : s.row (formatOf fs) = some row) : '\r' ∉ row := by
  rw [row_formatOf] at hrow
  cases hcs : allSome (fs.map (cellOf s)) with
  | none => rw [hcs] at hrow; cases hrow
  | some cs =>
    rw [hcs] at hrow
    simp only [Option.map_some, Option.some.injEq] at hrow
    subst hrow
    apply cr_not_mem_join (by decide)
    intro l hl
    rcases mem_cons.mp hl with rfl | hl
    · exact ht.1
    · exact cells_cr s ht fs cs hcs l hl

theorem rows_cr (fs : List Fld) : ∀ (ss : List Style) (rows : List Str), (∀ s ∈ ss, StyleCR s) →
    allSome (ss.map fun s => s.row (formatOf fs)) = some rows → ∀ r ∈ rows, '\r' ∉ r := by
  intro ss
  induction ss with
  | nil =>
    intro rows _ h r hr
    simp only [map_nil, allSome, Option.some.injEq] at h
    subst h
    cases hr
  | cons s ss ih =>
    intro rows hs h
    simp only [map_cons, allSome] at h
    cases hrow : s.row (formatOf fs) with
    | none => rw [hrow] at h; simp at h
    | some row =>
      cases hrest : allSome (ss.map fun s => s.row (formatOf fs)) with
      | none => rw [hrow, hrest] at h; simp at h
      | some rows' =>
        rw [hrow, hrest] at h
        simp only [Option.some.injEq] at h
        subst h
        intro r hr
        rcases mem_cons.mp hr with rfl | hr
        · exact style_row_cr s fs (hs s (by simp)) r hrow
        · exact ih rows' (fun s' hs' => hs s' (by simp [hs'])) hrest r hr

theorem col_cr (f : Fld) : '\r' ∉ f.col.toList := by cases f <;> decide

theorem formatLine_cr (cols : List Str) (h : ∀ c ∈ cols, '\r' ∉ c) : '\r' ∉ formatLine cols := by
  unfold formatLine
  intro hm
  rcases mem_append.mp hm with hm | hm
  · revert hm; decide
  · exact cr_not_mem_join (by decide) h hm

theorem stylesBlock_cr (v : Bool) (fs : List Fld) (rows : List Str) (h : ∀ r ∈ rows, '\r' ∉ r) :
    ∀ l ∈ stylesBlock v fs rows, '\r' ∉ l := by
  intro l hl
  unfold stylesBlock at hl
  split at hl
  · cases hl
  · simp only [cons_append, nil_append, mem_cons, mem_map] at hl
    rcases hl with rfl | rfl | rfl | ⟨r, hr, rfl⟩
    · simp
    · cases v <;> decide
    · apply formatLine_cr
      intro c hc
      unfold formatOf at hc
      rcases mem_cons.mp hc with rfl | hc
      · decide
      · obtain ⟨f, _, rfl⟩ := mem_map.mp hc
        exact col_cr f
    · unfold styleLine
      intro hm
      rcases mem_append.mp hm with hm | hm
      · revert hm; decide
      · exact h r hr hm

/-! ### events block -/

theorem formatSSA_cr (t : Int) (h : TimeOK t) : '\r' ∉ Duration.formatSSA t := by
  obtain ⟨hh, m, s, f, hhh, hm, hs, hf, hfmt, _⟩ := C16.format_shape2 t '.' h.1 h.2
  unfold Duration.formatSSA
  rw [hfmt]
  unfold C16.canon2
  apply cr_not_mem_of_noSpace
  intro c hc
  simp only [mem_append, mem_cons] at hc
  rcases hc with ((hc | rfl | hc) | rfl | hc) | rfl | hc
  · exact (digitStr_dd hhh).noSpace c hc
  · decide
  · exact (digitStr_dd (by omega)).noSpace c hc
  · decide
  · exact (digitStr_dd (by omega)).noSpace c hc
  · decide
  · exact (digitStr_dd hf).noSpace c hc

theorem event_row_cr (e : Event) (v : Bool) (hc : EventCells e) (hn : EventCR e) : '\r' ∉ e.row v := by
  unfold Event.row
  apply cr_not_mem_join (by decide)
  intro l hl
  simp only [mem_cons, not_mem_nil, or_false] at hl
  rcases hl with rfl | rfl | rfl | rfl | rfl | rfl | rfl | rfl | rfl | rfl
  · cases v
    · by_cases hm : e.marked = some true <;> simp only [Bool.false_eq_true, ↓reduceIte, hm] <;> decide
    · simp only [↓reduceIte]
      exact cr_not_mem_of_numChar (numChar_itoa _)
  · exact formatSSA_cr _ hc.start
  · exact formatSSA_cr _ hc.stop
  · exact hn.1
  · exact hn.2.1
  · exact cr_not_mem_of_numChar (numChar_itoa _)
  · exact cr_not_mem_of_numChar (numChar_itoa _)
  · exact cr_not_mem_of_numChar (numChar_itoa _)
  · exact hn.2.2.1
  · exact hn.2.2.2

theorem eventsBlock_cr (v : Bool) (es : List Event) (h : ∀ e ∈ es, EventCells e ∧ EventCR e) :
    ∀ l ∈ eventsBlock v es, '\r' ∉ l := by
  intro l hl
  unfold eventsBlock at hl
  simp only [cons_append, nil_append, mem_cons, mem_map] at hl
  rcases hl with rfl | rfl | rfl | ⟨e, he, rfl⟩
  · simp
  · decide
  · apply formatLine_cr
    cases v <;> decide
  · unfold dialogueLine
    intro hm
    rcases mem_append.mp hm with hm | hm
    · revert hm; decide
    · exact event_row_cr e v (h e he).1 (h e he).2 hm

/-! ### script info -/

theorem si_header_cr (f : SI) : '\r' ∉ f.header.toList := by cases f <;> decide

/-- the text written after `Header: ` has no carriage return -/
theorem siText_cr (v : Val) (t : Str) (h : siText v = some t) (hv : ValCR v) : '\r' ∉ t := by
  cases v with
  | b w =>
    simp only [siText, Option.some.injEq] at h
    subst h
    cases w <;> decide
  | c w =>
    simp only [siText, Option.some.injEq] at h
    subst h
    exact cr_not_mem_of_noSpace (hex8_noSpace w)
  | i i =>
    simp only [siText, Option.some.injEq] at h
    subst h
    exact cr_not_mem_of_numChar (numChar_itoa i)
  | f bits =>
    cases hs : formatFloatShortest bits with
    | none => simp [siText, hs] at h
    | some str =>
      simp only [siText, hs, Option.map_some, Option.some.injEq] at h
      subst h
      have hnum := formatFloatShortest_numChar bits str hs
      apply cr_not_mem_of_noSpace
      intro c hc
      rcases mem_replaceAll_single hc with h | h
      · exact numChar_not_space (hnum c h)
      · subst h; decide
  | s str =>
    simp only [siText, Option.some.injEq] at h
    subst h
    exact hv

/-- the key lines of the script info have no carriage return -/
theorem fields_cr (b : Info) (hb : ∀ f v, b.vals.get f = some v → ValCR v) :
    ∀ (fs : List SI) (ls : List Str), Info.bytes.go (fieldLine b) fs = some ls → ∀ l ∈ ls, '\r' ∉ l := by
  intro fs
  induction fs with
  | nil =>
    intro ls h l hl
    simp only [Info.bytes.go, Option.some.injEq] at h
    subst h
    cases hl
  | cons f fs ih =>
    intro ls h
    simp only [Info.bytes.go] at h
    cases hfl : fieldLine b f with
    | none => rw [hfl] at h; simp at h
    | some a =>
      cases hrest : Info.bytes.go (fieldLine b) fs with
      | none => rw [hfl, hrest] at h; simp at h
      | some r =>
        rw [hfl, hrest] at h
        simp only [Option.some.injEq] at h
        subst h
        intro l hl
        rcases mem_append.mp hl with hl | hl
        · unfold fieldLine at hfl
          cases hget : b.vals.get f with
          | none =>
            rw [hget] at hfl
            simp only [Option.some.injEq] at hfl
            subst hfl
            cases hl
          | some v =>
            rw [hget] at hfl
            cases ht : siText v with
            | none => simp [ht] at hfl
            | some t =>
              simp only [ht, Option.map_some, Option.some.injEq] at hfl
              subst hfl
              simp only [mem_cons, not_mem_nil, or_false] at hl
              subst hl
              unfold kvLine
              intro hm
              simp only [mem_append] at hm
              rcases hm with (hm | hm) | hm
              · exact si_header_cr f hm
              · revert hm; decide
              · exact siText_cr v t ht (hb f v hget) hm
        · exact ih r hrest l hl

/-- the script-info text has no carriage return -/
theorem info_cr (b : Info) (txt : Str) (hb : InfoCR b) (h : b.bytes = some txt) : '\r' ∉ txt := by
  rw [bytes_eq] at h
  cases hgo : Info.bytes.go (fieldLine b) SI.all with
  | none => rw [hgo] at h; cases h
  | some ls =>
    rw [hgo] at h
    simp only [Option.map_some, Option.some.injEq] at h
    subst h
    apply cr_not_mem_unlines
    intro l hl
    rcases mem_cons.mp hl with rfl | hl
    · decide
    · rcases mem_append.mp hl with hl | hl
      · obtain ⟨c, hc, rfl⟩ := mem_map.mp hl
        intro hm
        rcases mem_append.mp hm with hm | hm
        · revert hm; decide
        · exact hb.1 c hc hm
      · exact fields_cr b (fun f v hv => hb.2 f (si_all_complete f) v hv) SI.all ls hgo l hl

/-! ### the whole document, from the predicates -/

/-- **No carriage return in the written document**, from the `\r` predicates on the writer's typed values -/
theorem out_no_cr_of (s : Subs) (out : Str) (hw : write s = .ok out)
    (hi : InfoCR (infoOfMeta s.metadata)) (hs : ∀ st ∈ writerStyles s, StyleCR st)
    (he : ∀ e ∈ s.items.map eventOfItem, EventCells e ∧ EventCR e) : '\r' ∉ out := by
  obtain ⟨infoTxt, rows, hinfo, hrows, rfl⟩ := write_ok_lines s out hw
  intro hm
  rcases mem_append.mp hm with hm | hm
  · rcases mem_append.mp hm with hm | hm
    · exact info_cr _ infoTxt hi hinfo hm
    · exact cr_not_mem_unlines (stylesBlock_cr _ _ rows (rows_cr _ _ rows hs hrows)) hm
  · exact cr_not_mem_unlines (eventsBlock_cr _ _ he) hm

/-! ### the predicates follow from the clauses of `denote` -/

theorem any_cr_false {s : Str} {p : Char → Bool} (hp : p '\r' = true) (h : s.any p = false) : '\r' ∉ s := by
  intro hm
  have := List.any_eq_true.mpr ⟨'\r', hm, hp⟩
  rw [h] at this
  cases this

theorem cleanValue_cr {s : Str} (h : Spec.SSA.cleanValue s = true) : '\r' ∉ s := by
  unfold Spec.SSA.cleanValue at h
  simp only [Bool.and_eq_true, Bool.not_eq_true'] at h
  exact any_cr_false (by decide) h.2

theorem cleanField_cr {s : Str} (h : Spec.SSA.cleanField s = true) : '\r' ∉ s := by
  unfold Spec.SSA.cleanField at h
  simp only [Bool.and_eq_true, Bool.not_eq_true'] at h
  exact any_cr_false (by decide) h.2

theorem cleanText_cr {s : Str} (h : Spec.SSA.cleanText s = true) : '\r' ∉ s := by
  unfold Spec.SSA.cleanText at h
  simp only [Bool.and_eq_true, Bool.not_eq_true'] at h
  exact any_cr_false (by decide) h.1.1

/-- a typed value read from a canonical text is a string only for a string key, and then it is the text -/
theorem ofCanon_s {k : Kind} {t str : Str} (h : Val.ofCanon k t = .s str) : k = .str ∧ t = str := by
  cases k <;> simp [Val.ofCanon] at h
  exact ⟨rfl, h⟩

/-- **script info**: the string values and the comments of `infoOfMeta s.metadata` have no carriage return -/
theorem meta_cr (s : Subs) (h : metaOkB s = true) : InfoCR (infoOfMeta s.metadata) := by
  unfold metaOkB at h
  rw [Bool.and_eq_true] at h
  obtain ⟨hv, hc⟩ := h
  constructor
  · intro c hcm
    have e : (infoOfMeta s.metadata).comments =
        match SSA.kvGet s.metadata "Comments" with | some c => splitC '\n' c | none => [] := rfl
    rw [e] at hcm
    rw [spec_kvGet_eq] at hc
    cases hk : SSA.kvGet s.metadata "Comments" with
    | none => rw [hk] at hcm; cases hcm
    | some c0 =>
      rw [hk] at hcm hc
      exact cleanValue_cr (List.all_eq_true.mp hc c hcm)
  · intro f _ v hget
    rw [infoOfMeta_get] at hget
    cases v with
    | s str =>
      cases hk : SSA.kvGet s.metadata f.key with
      | none => rw [hk] at hget; cases hget
      | some t =>
        rw [hk] at hget
        simp only [Option.map_some, Option.some.injEq] at hget
        obtain ⟨hkind, rfl⟩ := ofCanon_s hget
        have hmem : (f.header, f.key, gk f.kind) ∈ Spec.SSA.infoTable := by
          rw [infoTable_eq]
          exact mem_map_of_mem (si_all_complete f)
        have := List.all_eq_true.mp hv _ hmem
        simp only [spec_kvGet_eq, hk, hkind] at this
        have hcv : Spec.SSA.cleanValue t = true := by simpa [gk] using this
        exact cleanValue_cr hcv
    | b _ => trivial
    | c _ => trivial
    | f _ => trivial
    | i _ => trivial

theorem fld_kind_str {f : Fld} (h : f.kind = .str) : f = .fontName := by
  cases f <;> first | rfl | (simp [Fld.kind] at h)

/-- **styles**: the name and the font name of a written style have no carriage return -/
theorem style_cr (d : Def) (h : styleOkB d = true) : StyleCR (styleOfDef d) := by
  unfold styleOkB at h
  simp only [Bool.and_eq_true] at h
  obtain ⟨⟨⟨hid, _⟩, hfont⟩, _⟩ := h
  constructor
  · exact cleanField_cr hid
  · intro f _ v hget
    rw [styleOfDef_get] at hget
    cases v with
    | s str =>
      cases hk : SSA.kvGet d.attrs f.key with
      | none => rw [hk] at hget; cases hget
      | some t =>
        rw [hk] at hget
        simp only [Option.map_some, Option.some.injEq] at hget
        obtain ⟨hkind, rfl⟩ := ofCanon_s hget
        have hf := fld_kind_str hkind
        subst hf
        have hk' : SSA.kvGet d.attrs "SSAFontName" = some t := hk
        rw [spec_kvGet_eq, hk'] at hfont
        exact cleanField_cr hfont
    | b _ => trivial
    | c _ => trivial
    | f _ => trivial
    | i _ => trivial

theorem mem_writerStyles_def {s : Subs} {st : Style} (h : st ∈ writerStyles s) : ∃ d ∈ s.styles, st = styleOfDef d := by
  unfold writerStyles at h
  obtain ⟨d, hd, rfl⟩ := mem_map.mp h
  exact ⟨d, (List.mergeSort_perm _ _).mem_iff.mp hd, rfl⟩

/-- a character of the `Name` column comes from one of the voices -/
theorem voice_fold_mem {c : Char} : ∀ (ls : List Line) (n : Str),
    c ∈ ls.foldl (fun n l => if l.voice.isEmpty then n else l.voice) n → c ∈ n ∨ ∃ l ∈ ls, c ∈ l.voice := by
  intro ls
  induction ls with
  | nil => intro n h; exact Or.inl h
  | cons l ls ih =>
    intro n h
    rw [foldl_cons] at h
    rcases ih _ h with h | ⟨l', hl', hc⟩
    · by_cases he : l.voice.isEmpty = true
      · rw [if_pos he] at h
        exact Or.inl h
      · rw [if_neg he] at h
        exact Or.inr ⟨l, by simp, h⟩
    · exact Or.inr ⟨l', mem_cons_of_mem _ hl', hc⟩

theorem cr_eventOfItem_text (it : CItem) : (eventOfItem it).text = join "\\n".toList (it.lines.map lineWhole) := rfl

/-- **events**: the text columns of the event of a cue have no carriage return — `Style`, `Name`, `Effect` by
    `denote`'s clause, `Text` by the explicit hypothesis on the lines (override blocks included) -/
theorem event_cr (names : List Str) (it : CItem) (h : itemOkB names it = true)
    (hcr : ∀ l ∈ it.lines, '\r' ∉ lineWhole l) : EventCR (eventOfItem it) := by
  unfold itemOkB at h
  simp only [Bool.and_eq_true] at h
  obtain ⟨⟨⟨⟨_, heff⟩, hst⟩, _⟩, hlines⟩ := h
  refine ⟨?_, ?_, ?_, ?_⟩
  · show '\r' ∉ it.style.getD []
    cases hs : it.style with
    | none => simp
    | some id =>
      rw [hs] at hst
      simp only [Bool.and_eq_true] at hst
      exact cleanField_cr hst.1.1
  · show '\r' ∉ it.lines.foldl (fun n l => if l.voice.isEmpty then n else l.voice) []
    intro hm
    rcases voice_fold_mem it.lines [] hm with hm | ⟨l, hl, hc⟩
    · cases hm
    · have := List.all_eq_true.mp hlines l hl
      simp only [Bool.and_eq_true] at this
      exact cleanField_cr this.1 hc
  · exact cleanField_cr heff
  · rw [cr_eventOfItem_text]
    apply cr_not_mem_join (by decide)
    intro l hl
    obtain ⟨l0, hl0, rfl⟩ := mem_map.mp hl
    exact hcr l0 hl0

/-! ### the target -/

/-- **The written document contains no carriage return** (corrected statement: the explicit hypothesis `hcr` on the
    lines of the cues — the text the writer emits for a line, override blocks included, has no `\r` — is necessary:
    see `out_no_cr_false`). -/
theorem out_no_cr (s : Subs) (out : Str) (want : GDoc) (hd : Spec.SSA.denote s = some want) (hr : RepRead s)
    (hw : write s = .ok out) (hcr : ∀ it ∈ s.items, ∀ l ∈ it.lines, '\r' ∉ lineWhole l) : '\r' ∉ out := by
  obtain ⟨_, _, _, hm, hs, hi, _⟩ := denote_some s want hd
  apply out_no_cr_of s out hw (meta_cr s hm)
  · intro st hst
    obtain ⟨d, hd', rfl⟩ := mem_writerStyles_def hst
    exact style_cr d (hs d hd')
  · intro e he
    obtain ⟨it, hit, rfl⟩ := mem_map.mp he
    exact ⟨(hr.2.2.1 _ he).1, event_cr _ it (hi it hit) (hcr it hit)⟩

/-- the same with the hypothesis taken from `Extra` (field `cr`) -/
theorem out_no_cr_extra (s : Subs) (out : Str) (want : GDoc) (hd : Spec.SSA.denote s = some want) (hr : RepRead s)
    (hx : Extra s want) (hw : write s = .ok out) : '\r' ∉ out :=
  out_no_cr s out want hd hr hw hx.cr

/-! ### every character of a line of a cue is written -/

theorem mem_join_of_mem {sep : Str} {c : Char} : ∀ {ls : List Str} {l : Str}, l ∈ ls → c ∈ l → c ∈ join sep ls := by
  intro ls
  induction ls with
  | nil => intro l h; cases h
  | cons a rest ih =>
    intro l hl hc
    cases rest with
    | nil =>
      have : l = a := by simpa using hl
      subst this
      simpa [join] using hc
    | cons b r =>
      have e : join sep (a :: b :: r) = a ++ sep ++ join sep (b :: r) := rfl
      rw [e]
      rcases mem_cons.mp hl with rfl | hl
      · exact mem_append_left _ (mem_append_left _ hc)
      · exact mem_append_right _ (ih hl hc)

theorem mem_unlines_of_mem {c : Char} {ls : List Str} {l : Str} (hl : l ∈ ls) (hc : c ∈ l) : c ∈ unlines ls := by
  unfold unlines
  simp only [mem_flatten, mem_map]
  exact ⟨l ++ ['\n'], ⟨l, hl, rfl⟩, mem_append_left _ hc⟩

/-- every character the writer emits for a line of a cue (`lineWhole`: override blocks and texts) is in the written document -/
theorem line_mem_out (s : Subs) (out : Str) (hw : write s = .ok out) (it : CItem) (hit : it ∈ s.items)
    (l : Line) (hl : l ∈ it.lines) {c : Char} (hc : c ∈ lineWhole l) : c ∈ out := by
  obtain ⟨infoTxt, rows, _, _, rfl⟩ := write_ok_lines s out hw
  apply mem_append_right
  apply mem_unlines_of_mem (l := dialogueLine (isV4plus s) (eventOfItem it))
  · unfold eventsBlock
    exact mem_append_right _ (mem_map_of_mem (mem_map_of_mem hit))
  · unfold dialogueLine
    apply mem_append_right
    rw [Event.row_eq]
    apply mem_join_of_mem (l := (eventOfItem it).text) (mem_append_right _ (mem_singleton.mpr rfl))
    rw [cr_eventOfItem_text]
    exact mem_join_of_mem (mem_map_of_mem hl) hc

/-- under the hypotheses of the target, the written document is free of carriage returns **exactly when** the lines of
    the cues are -/
theorem out_no_cr_iff (s : Subs) (out : Str) (want : GDoc) (hd : Spec.SSA.denote s = some want) (hr : RepRead s)
    (hw : write s = .ok out) : '\r' ∉ out ↔ ∀ it ∈ s.items, ∀ l ∈ it.lines, '\r' ∉ lineWhole l :=
  ⟨fun h it hit l hl hc => h (line_mem_out s out hw it hit l hl hc), out_no_cr s out want hd hr hw⟩

/-! ### the target as first stated is false -/

/-- UNPROVED — in fact **FALSE** (`out_no_cr_false`): the target as first stated, without the hypothesis on the lines -/
def out_no_cr_Statement : Prop :=
  ∀ (s : Subs) (out : Str) (want : GDoc), Spec.SSA.denote s = some want → RepRead s → write s = .ok out → '\r' ∉ out

/-- the cue of the counterexample: one line, one run `{\r}x` (an override block containing a carriage return) -/
def crLine : Line := { items := [{ text := ['x'], attrs := some [("SSAEffect".toList, ['{', '\r', '}'])] }] }

def crItem : CItem := { startAt := 0, endAt := 10000000, lines := [crLine] }

/-- the counterexample: no metadata, no style, one cue -/
def crSubs : Subs := { items := [crItem] }

theorem crSubs_denote : (Spec.SSA.denote crSubs).isSome = true := by decide

theorem crSubs_styles : writerStyles crSubs = [] := by
  unfold writerStyles crSubs
  simp

theorem crEvent_eq : eventOfItem crItem =
    { category := "Dialogue".toList, startAt := 0, endAt := 10000000, text := ['{', '\r', '}', 'x'] } := by decide

theorem crSubs_rep : RepRead crSubs := by
  refine ⟨by decide, ?_, ?_, ?_⟩
  · rw [crSubs_styles]
    intro st hst
    cases hst
  · intro e he
    have : e = eventOfItem crItem := by simpa [crSubs] using he
    rw [this, crEvent_eq]
    decide
  · unfold styleIds
    rw [crSubs_styles]
    exact List.nodup_nil

/-- `crSubs` is written (the text is `[Script Info]␊␊[Events]␊Format: Marked, Start, …, Text␊Dialogue: Marked=0,00:00:00.00,00:00:00.01,,,0,0,0,,{␍}x␊`) -/
theorem crSubs_write : ∃ out, write crSubs = .ok out :=
  write_ok_of_rep crSubs crSubs_rep (by simp [crSubs])

/-- the cue list `crSubs` is accepted by `denote` and by `RepRead`, is written, and its text contains a carriage return -/
theorem out_no_cr_false : ¬ out_no_cr_Statement := by
  intro H
  obtain ⟨want, hwant⟩ := Option.isSome_iff_exists.mp crSubs_denote
  obtain ⟨out, hout⟩ := crSubs_write
  refine H crSubs out want hwant crSubs_rep hout ?_
  exact line_mem_out crSubs out hout crItem (mem_singleton.mpr rfl) crLine (mem_singleton.mpr rfl) (by decide)

/-- … and the hypothesis of `out_no_cr` is exactly what fails on it -/
theorem crSubs_hcr : ¬ ∀ it ∈ crSubs.items, ∀ l ∈ it.lines, '\r' ∉ lineWhole l := by decide

end SSAW
end Astisub
