/-!
# Lemmas/TotBase — Go's run-time panics made explicit

The models of this development totalise Go's indexing (`getD`, `head?`, `take`/`drop`, pattern
matching with a catch-all arm).  Here the three run-time checks of the Go code that matter for the
readers are primitives that can *fail*:

* `idx l i`      — `l[i]`: panics unless `i < len(l)`;
* `slc l lo hi`  — `l[lo:hi]`: panics unless `lo ≤ hi ≤ len(l)` (we check against the length, which is
                   stricter than Go's check against the capacity: a proof of "no panic" here is a
                   proof for Go);
* `slcFrom l lo` — `l[lo:]`, `slcTo l hi` — `l[:hi]`;
* `tdivC a b`    — integer `a / b`: panics when `b = 0`.

A *checked* variant of a model function is the same code written with these primitives in the
`Chk = Except Panic` monad.  For each one two facts are proved (files `Tot*.lean`): it never
answers `.error _` on the inputs the guards let through, and its value is the value of the
totalised model function — so no default of the model is ever used.
-/

namespace Astisub
namespace Tot

/-- the run-time panics of Go that the readers could meet -/
inductive Panic where
  | index      -- "index out of range"
  | slice      -- "slice bounds out of range"
  | divZero    -- "integer divide by zero"
  | nilDeref   -- "invalid memory address or nil pointer dereference"
  deriving Repr, DecidableEq

abbrev Chk := Except Panic

/-- did the computation end without a panic? -/
def Chk.safe {α} (c : Chk α) : Bool := match c with | .ok _ => true | .error _ => false

/-- `l[i]` -/
def idx {α} (l : List α) (i : Nat) : Chk α :=
  match l[i]? with
  | some a => .ok a
  | none => .error .index

/-- `l[lo:hi]` -/
def slc {α} (l : List α) (lo hi : Nat) : Chk (List α) :=
  if lo ≤ hi ∧ hi ≤ l.length then .ok ((l.drop lo).take (hi - lo)) else .error .slice

/-- `l[lo:]` -/
def slcFrom {α} (l : List α) (lo : Nat) : Chk (List α) :=
  if lo ≤ l.length then .ok (l.drop lo) else .error .slice

/-- `l[:hi]` -/
def slcTo {α} (l : List α) (hi : Nat) : Chk (List α) :=
  if hi ≤ l.length then .ok (l.take hi) else .error .slice

/-- Go's integer division (truncating); divisor zero panics -/
def tdivC (a b : Int) : Chk Int := if b = 0 then .error .divZero else .ok (Int.tdiv a b)

/-- dereference of a pointer that may be nil -/
def deref {α} (p : Option α) : Chk α := match p with | some a => .ok a | none => .error .nilDeref

/-! ### the primitives inside their bounds -/

theorem idx_ok {α} {l : List α} {i : Nat} (h : i < l.length) (d : α) : idx l i = .ok (l.getD i d) := by
  unfold idx
  rw [List.getD_eq_getElem?_getD, List.getElem?_eq_getElem h]
  rfl

theorem idx_panics {α} {l : List α} {i : Nat} (h : l.length ≤ i) : idx l i = .error .index := by
  unfold idx
  rw [List.getElem?_eq_none h]

theorem slc_ok {α} {l : List α} {lo hi : Nat} (h1 : lo ≤ hi) (h2 : hi ≤ l.length) :
    slc l lo hi = .ok ((l.drop lo).take (hi - lo)) := by
  unfold slc; rw [if_pos ⟨h1, h2⟩]

theorem slc_panics {α} {l : List α} {lo hi : Nat} (h : l.length < hi) : slc l lo hi = .error .slice := by
  unfold slc; rw [if_neg]; omega

theorem slcFrom_ok {α} {l : List α} {lo : Nat} (h : lo ≤ l.length) : slcFrom l lo = .ok (l.drop lo) := by
  unfold slcFrom; rw [if_pos h]

theorem slcTo_ok {α} {l : List α} {hi : Nat} (h : hi ≤ l.length) : slcTo l hi = .ok (l.take hi) := by
  unfold slcTo; rw [if_pos h]

theorem tdivC_ok {a b : Int} (h : b ≠ 0) : tdivC a b = .ok (Int.tdiv a b) := by
  unfold tdivC; rw [if_neg h]

theorem tdivC_panics (a : Int) : tdivC a 0 = .error .divZero := rfl

/-! ### the monad, for rewriting -/

@[simp] theorem ok_bind {α β} (a : α) (f : α → Chk β) : (Except.ok a >>= f) = f a := rfl
@[simp] theorem error_bind {α β} (e : Panic) (f : α → Chk β) : ((Except.error e : Chk α) >>= f) = .error e := rfl
@[simp] theorem pure_eq {α} (a : α) : (pure a : Chk α) = .ok a := rfl
@[simp] theorem map_ok {α β} (f : α → β) (a : α) : (f <$> (Except.ok a : Chk α)) = .ok (f a) := rfl
@[simp] theorem safe_ok {α} (a : α) : Chk.safe (Except.ok a : Chk α) = true := rfl

theorem safe_of_eq_ok {α} {c : Chk α} {a : α} (h : c = .ok a) : c.safe = true := by subst h; rfl

/-- non-vacuity: the primitives do panic outside their bounds -/
example : idx [1, 2, 3] 3 = .error .index := rfl
example : slc [1, 2, 3] 2 4 = .error .slice := rfl
example : slc [1, 2, 3] 1 3 = .ok [2, 3] := rfl
example : tdivC 7 0 = .error .divZero := rfl

end Tot
end Astisub
