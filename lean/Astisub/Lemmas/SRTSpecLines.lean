import Astisub.Spec.SRT
import Astisub.Lemmas.SRTDoc

/-!
# Lemmas/SRTSpecLines — the independent decoder's line splitter and block grouping on a written document
-/

namespace Astisub
namespace SRTDoc
open Go SRT

/-! ## `splitLines` -/

theorem splitLines_lf (rest acc : Str) :
    Spec.SRT.splitLines ('\n' :: rest) acc = acc.reverse :: Spec.SRT.splitLines rest [] := by
  simp [Spec.SRT.splitLines]

theorem splitLines_char (c : Char) (rest acc : Str) (h1 : c ≠ '\n') (h2 : c ≠ '\r') :
    Spec.SRT.splitLines (c :: rest) acc = Spec.SRT.splitLines rest (c :: acc) := by
  simp [Spec.SRT.splitLines, h2]

/-- a line without line breaks, ended by LF -/
theorem splitLines_line (l rest acc : Str) (h1 : '\n' ∉ l) (h2 : '\r' ∉ l) :
    Spec.SRT.splitLines (l ++ '\n' :: rest) acc = (acc.reverse ++ l) :: Spec.SRT.splitLines rest [] := by
  induction l generalizing acc with
  | nil => simp [splitLines_lf]
  | cons c l ih =>
    have hc1 : c ≠ '\n' := fun e => h1 (by simp [e])
    have hc2 : c ≠ '\r' := fun e => h2 (by simp [e])
    rw [List.cons_append, splitLines_char c _ acc hc1 hc2,
      ih (c :: acc) (fun e => h1 (by simp [e])) (fun e => h2 (by simp [e]))]
    simp

/-- **Lines.** every line ended by LF, no line break inside a line: `splitLines` gives the lines back -/
theorem splitLines_unlines (ls : List Str) (h : ∀ l ∈ ls, '\n' ∉ l ∧ '\r' ∉ l) :
    Spec.SRT.splitLines (unlines ls) [] = ls := by
  induction ls with
  | nil => simp [unlines, Spec.SRT.splitLines]
  | cons l ls ih =>
    rw [unlines_cons, splitLines_line l _ [] (h l (by simp)).1 (h l (by simp)).2,
      ih (fun x hx => h x (by simp [hx]))]
    simp

theorem unlines_snoc_nil_dropLast (init : List Str) : (unlines (init ++ [[]])).dropLast = unlines init := by
  rw [unlines_append]
  have : unlines [[]] = ['\n'] := by simp [unlines]
  rw [this, List.dropLast_concat]

/-! ## `blocks` -/

theorem go_nil (cur : List Str) :
    Spec.SRT.blocks.go [] cur = if cur.isEmpty then [] else [cur.reverse] := by
  simp [Spec.SRT.blocks.go]

theorem go_blank (l : Str) (ls cur : List Str) (h : trimSpace l = []) :
    Spec.SRT.blocks.go (l :: ls) cur
      = if cur.isEmpty then Spec.SRT.blocks.go ls [] else cur.reverse :: Spec.SRT.blocks.go ls [] := by
  simp [Spec.SRT.blocks.go, h]

theorem go_line (l : Str) (ls cur : List Str) (h : trimSpace l = l) (hne : l ≠ []) :
    Spec.SRT.blocks.go (l :: ls) cur = Spec.SRT.blocks.go ls (l :: cur) := by
  simp [Spec.SRT.blocks.go, h, hne]

/-- a run of non-blank, already trimmed lines goes into the current block -/
theorem go_block (b rest cur : List Str) (h : ∀ l ∈ b, trimSpace l = l ∧ l ≠ []) :
    Spec.SRT.blocks.go (b ++ rest) cur = Spec.SRT.blocks.go rest (b.reverse ++ cur) := by
  induction b generalizing cur with
  | nil => rfl
  | cons l b ih =>
    rw [List.cons_append, go_line l _ cur (h l (by simp)).1 (h l (by simp)).2,
      ih (l :: cur) (fun x hx => h x (by simp [hx]))]
    simp

/-- a final blank line changes nothing -/
theorem go_snoc_blank (ls cur : List Str) :
    Spec.SRT.blocks.go (ls ++ [[]]) cur = Spec.SRT.blocks.go ls cur := by
  induction ls generalizing cur with
  | nil =>
    rw [List.nil_append, go_blank [] [] cur rfl, go_nil, go_nil]
    simp
  | cons l ls ih =>
    rw [List.cons_append]
    by_cases h : trimSpace l = []
    · rw [go_blank l _ cur h, go_blank l _ cur h, ih]
    · simp only [Spec.SRT.blocks.go, h, ↓reduceIte, ih]

theorem blocks_snoc_blank (ls : List Str) : Spec.SRT.blocks (ls ++ [[]]) = Spec.SRT.blocks ls := by
  unfold Spec.SRT.blocks
  exact go_snoc_blank ls []

/-- the blocks of the written document -/
def blockList : Nat → List CItem → List (List Str)
  | _, [] => []
  | k, it :: rest => blockLines k it :: blockList (k + 1) rest

/-- **Blocks.** one block per cue -/
theorem blocks_linesFrom (k : Nat) (items : List CItem)
    (h : ∀ j it, ∀ l ∈ blockLines j it, it ∈ items → trimSpace l = l ∧ l ≠ []) :
    Spec.SRT.blocks.go (linesFrom k items) [] = blockList k items := by
  induction items generalizing k with
  | nil => simp [linesFrom, blockList, go_nil]
  | cons it rest ih =>
    have hb : ∀ l ∈ blockLines k it, trimSpace l = l ∧ l ≠ [] := fun l hl => h k it l hl (by simp)
    have hne : (blockLines k it).reverse ≠ [] := by simp [blockLines]
    rw [linesFrom, go_block _ _ [] hb, go_blank [] _ _ rfl, ih (k + 1) (fun j x l hl hx => h j x l hl (by simp [hx]))]
    simp [blockList, blockLines]

end SRTDoc
end Astisub
