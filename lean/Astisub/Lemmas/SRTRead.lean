import Astisub.Lemmas.SRTLine
import Astisub.Lemmas.SRTTiming

/-!
# Lemmas/SRTRead — the reader's loop over the lines of a written document

One lemma per kind of line (index line, timing line, text line, empty line), then the block of a
cue, then the fold over the cues.
-/

namespace Astisub
namespace SRTDoc
open Go SRT List

/-! ### `run` -/

theorem run_append (st : St) (a b : List (Option Str)) :
    run st (a ++ b) = (match run st a with | .ok st' => run st' b | .err => .err | .unmodelled => .unmodelled) := by
  induction a generalizing st with
  | nil => simp [run]
  | cons x xs ih =>
    simp only [List.cons_append, run]
    cases step st x with
    | ok st' => simp [ih]
    | err => rfl
    | unmodelled => rfl

theorem run_append_ok {st st' : St} {a : List (Option Str)} (h : run st a = .ok st') (b : List (Option Str)) :
    run st (a ++ b) = run st' b := by
  rw [run_append, h]

theorem run_cons_ok {st st' : St} {x : Option Str} (h : step st x = .ok st') (b : List (Option Str)) :
    run st (x :: b) = run st' b := by
  simp [run, h]

/-! ### a line that is not a timing line -/

/-- a trimmed line without `-->`, not the first line of the file: the parsed line is appended to the
    cue being filled -/
theorem step_push (d : List CItem) (c : CItem) (b : Bool) (sa sa' : Run) (n : Nat) (line : Str) (l : Line)
    (hn : 0 < n) (htrim : trimSpace line = line) (harrow : Go.contains arrow line = false)
    (hp : parseText line sa = .ok (sa', l)) (hl : l.items ≠ []) :
    step { done := d, cur := c, curListed := b, sa := sa, lineNum := n } (some line)
      = .ok { done := d, cur := { c with lines := c.lines ++ [l] }, curListed := b, sa := sa', lineNum := n + 1 } := by
  have hn1 : ¬ (n + 1 = 1) := by omega
  have hl' : l.items.isEmpty = false := by cases h : l.items with | nil => exact absurd h hl | cons => rfl
  unfold step
  simp only [htrim, hn1, ↓reduceIte, harrow, Bool.false_eq_true, hp, hl']

/-- the empty line -/
theorem step_blank (d : List CItem) (c : CItem) (b : Bool) (sa : Run) (n : Nat) (hn : 0 < n) :
    step { done := d, cur := c, curListed := b, sa := sa, lineNum := n } (some [])
      = .ok { done := d, cur := { c with lines := c.lines ++ [C01.blankLine] }, curListed := b, sa := sa, lineNum := n + 1 } :=
  step_push d c b sa sa n [] C01.blankLine hn rfl rfl rfl (by simp [C01.blankLine])

theorem step_text (d : List CItem) (c : CItem) (b : Bool) (n : Nat) (l : Line) (hn : 0 < n) (h : RepLine l = true) :
    step { done := d, cur := c, curListed := b, sa := {}, lineNum := n } (some (lineStr l))
      = .ok { done := d, cur := { c with lines := c.lines ++ [normLine l] }, curListed := b, sa := {}, lineNum := n + 1 } :=
  step_push d c b {} {} n (lineStr l) (normLine l) hn (trimSpace_lineStr l h) (lineStr_no_arrow l h)
    (parseText_lineStr l h) (by simp [normLine, repLine_items_ne h])

theorem run_texts (ls : List Line) (h : ∀ l ∈ ls, RepLine l = true) :
    ∀ (d : List CItem) (c : CItem) (b : Bool) (n : Nat), 0 < n →
      run { done := d, cur := c, curListed := b, sa := {}, lineNum := n } ((ls.map lineStr).map some)
        = .ok { done := d, cur := { c with lines := c.lines ++ ls.map normLine }, curListed := b, sa := {},
                lineNum := n + ls.length } := by
  induction ls with
  | nil => intro d c b n _; simp [run]
  | cons l ls ih =>
    intro d c b n hn
    rw [List.map_cons, List.map_cons, run_cons_ok (step_text d c b n l hn (h l (by simp))),
      ih (fun x hx => h x (by simp [hx])) _ _ _ _ (by omega)]
    simp [Nat.add_assoc, Nat.add_comm 1]

theorem run_blanks (m : Nat) :
    ∀ (d : List CItem) (c : CItem) (b : Bool) (sa : Run) (n : Nat), 0 < n →
      run { done := d, cur := c, curListed := b, sa := sa, lineNum := n } ((List.replicate m ([] : Str)).map some)
        = .ok { done := d, cur := { c with lines := c.lines ++ List.replicate m C01.blankLine }, curListed := b, sa := sa,
                lineNum := n + m } := by
  induction m with
  | zero => intro d c b sa n _; simp [run]
  | succ m ih =>
    intro d c b sa n hn
    rw [List.replicate_succ, List.map_cons, run_cons_ok (step_blank d c b sa n hn), ih _ _ _ _ _ (by omega)]
    simp [List.replicate_succ, Nat.add_assoc, Nat.add_comm 1]

/-! ### the index line -/

/-- the line the reader makes of an index line -/
def idxLine (n : Nat) : Line := { items := [{ text := itoaNat n }] }

theorem digitChar_ne {k : Nat} (h : k < 10) (x : Char) (hx : x.toNat < 48 ∨ 57 < x.toNat) : digitChar k ≠ x := by
  intro e; subst e
  rcases digitChar_lt h with h|h|h|h|h|h|h|h|h|h <;> subst h <;> revert hx <;> decide

theorem digitStr_not_mem {s : Str} (hs : DigitStr s) (x : Char) (hx : x.toNat < 48 ∨ 57 < x.toNat) : x ∉ s := by
  intro hm
  obtain ⟨k, hk, rfl⟩ := hs x hm
  exact digitChar_ne hk _ hx rfl

theorem escape_id (t : Str) (h : '&' ∉ t ∧ '<' ∉ t ∧ C01.nbsp ∉ t) : escapeHTML t = t := by
  rw [C01.escape_eq_flatMap]
  induction t with
  | nil => rfl
  | cons c t ih =>
    have h1 : c ≠ '&' := fun e => h.1 (by simp [e])
    have h2 : c ≠ '<' := fun e => h.2.1 (by simp [e])
    have h3 : c ≠ C01.nbsp := fun e => h.2.2 (by simp [e])
    rw [List.flatMap_cons, ih ⟨fun m => h.1 (by simp [m]), fun m => h.2.1 (by simp [m]), fun m => h.2.2 (by simp [m])⟩]
    simp [C01.esc1, h1, h2, h3]

theorem unescape_id (t : Str) (h : '&' ∉ t ∧ '<' ∉ t ∧ C01.nbsp ∉ t) : unescapeHTML t = t := by
  have := C01.unescape_escape t
  rwa [escape_id t h] at this

theorem parseText_digits (s : Str) (hs : DigitStr s) (hne : s ≠ []) :
    parseText s {} = .ok (({} : Run), { items := [{ text := s }] }) := by
  have hplain : ∀ c ∈ s, plainChar c = true := by
    intro c hc
    have h1 : c ≠ '<' := fun e => digitStr_not_mem hs '<' (by decide) (e ▸ hc)
    have h2 : c ≠ '\x00' := fun e => digitStr_not_mem hs '\x00' (by decide) (e ▸ hc)
    simp [plainChar, h1, h2]
  have htrim : trimSpace s = s := trimSpace_id hs.noSpace
  have hun : unescapeHTML s = s :=
    unescape_id s ⟨digitStr_not_mem hs _ (by decide), digitStr_not_mem hs _ (by decide), digitStr_not_mem hs _ (by decide)⟩
  unfold parseText
  simp only [htrim, hne, ↓reduceIte, tokenize_text s hne hplain, List.foldl_cons, List.foldl_nil, stepTok, ne_eq,
    not_false_eq_true, hun, List.nil_append]
  rfl

theorem digits_no_arrow (s : Str) (hs : DigitStr s) : Go.contains arrow s = false := by
  unfold arrow
  rw [contains_arrow_eq]
  exact scanArrow_zero_no_dash s (digitStr_not_mem hs '-' (by decide))

theorem step_index (d : List CItem) (c : CItem) (b : Bool) (n k : Nat) (hn : 0 < n) :
    step { done := d, cur := c, curListed := b, sa := {}, lineNum := n } (some (itoaNat k))
      = .ok { done := d, cur := { c with lines := c.lines ++ [idxLine k] }, curListed := b, sa := {}, lineNum := n + 1 } :=
  step_push d c b {} {} n (itoaNat k) (idxLine k) hn (trimSpace_id (itoaNat_digits k).noSpace)
    (digits_no_arrow _ (itoaNat_digits k)) (parseText_digits _ (itoaNat_digits k) (itoaNat_ne_nil k)) (by simp [idxLine])

/-- the very first line of the file: BOM, then the index -/
theorem step_first (k : Nat) :
    step {} (some (bom ++ itoaNat k))
      = .ok { done := [], cur := { startAt := 0, endAt := 0, lines := [idxLine k] }, curListed := false, sa := {}, lineNum := 1 } := by
  have hd := itoaNat_digits k
  have htrim : trimSpace (bom ++ itoaNat k) = bom ++ itoaNat k := by
    apply trimSpace_id
    intro c hc
    rcases List.mem_append.mp hc with hc | hc
    · simp [bom] at hc; subst hc; decide
    · exact hd.noSpace c hc
  have hpre : trimPrefix bom (bom ++ itoaNat k) = itoaNat k := by
    simp [trimPrefix, bom, dropPrefix?]
  have harrow : Go.contains arrow (itoaNat k) = false := digits_no_arrow _ hd
  unfold step
  simp only [htrim, Nat.zero_add, ↓reduceIte, hpre, harrow, Bool.false_eq_true,
    parseText_digits _ hd (itoaNat_ne_nil k)]
  rfl

/-! ### the timing line -/

theorem timingStr_eq (it : CItem) : timingStr it = SRTTiming.timingLine it.startAt it.endAt := rfl

theorem repItem_times {it : CItem} (h : RepItem it = true) :
    0 ≤ it.startAt ∧ it.startAt < 360000000000000 ∧ 0 ≤ it.endAt ∧ it.endAt < 360000000000000 := by
  simp only [RepItem, hundredHours, Bool.and_eq_true, decide_eq_true_eq] at h
  exact ⟨h.1.1.1.1, of_decide_eq_true h.1.1.1.2, h.1.1.2, of_decide_eq_true h.1.2⟩

theorem repItem_lines {it : CItem} (h : RepItem it = true) : ∀ l ∈ it.lines, RepLine l = true := by
  simp only [RepItem, Bool.and_eq_true] at h
  exact List.all_eq_true.mp h.2

/-- the timing line after an index line: the cue being filled is closed (its trailing empty lines
    removed), a new one is opened with the index just read -/
theorem step_timing (d : List CItem) (c : CItem) (b : Bool) (n k : Nat) (L : List Line) (it : CItem)
    (hn : 0 < n) (hk : k ≤ int64Max) (hit : RepItem it = true) :
    step { done := d, cur := { c with lines := L ++ [idxLine k] }, curListed := b, sa := {}, lineNum := n }
        (some (timingStr it))
      = .ok { done := if b then d ++ [{ c with lines := stripLines L }] else d,
              cur := { index := (k : Int), startAt := truncMs it.startAt, endAt := truncMs it.endAt, lines := [] },
              curListed := true, sa := {}, lineNum := n + 1 } := by
  obtain ⟨h1, h2, h3, h4⟩ := repItem_times hit
  rw [timingStr_eq, SRTTiming.step_timingLine _ _ _ h1 h2 h3 h4 hn]
  have hne : itoaNat k ≠ [] := itoaNat_ne_nil k
  simp [SRTTiming.afterTiming, idxLine, Line.str, hne, atoiLoose_itoaNat k hk, truncMs]

/-! ### the block of one cue -/

/-- text lines that `stripLines` keeps as they are -/
def GoodLines (ls : List Line) : Prop := ∀ l ∈ ls, l.items ≠ [] ∧ ∀ it, l.items.getLast? = some it → it.text ≠ []

theorem good_normLines (ls : List Line) (h : ∀ l ∈ ls, RepLine l = true) : GoodLines (ls.map normLine) := by
  intro l hl
  obtain ⟨l0, hl0, rfl⟩ := List.mem_map.mp hl
  have hr := h l0 hl0
  refine ⟨by simp [normLine, repLine_items_ne hr], ?_⟩
  intro it hit
  simp only [normLine, List.getLast?_map, Option.map_eq_some_iff] at hit
  obtain ⟨li, hli, rfl⟩ := hit
  have hmem : li ∈ l0.items := List.mem_of_getLast? hli
  have hv := repRun_vis (repLine_runs hr li hmem)
  intro e
  simp [normRun] at e
  rw [e] at hv; simp at hv

theorem strip_good (ls : List Line) (j : Nat) (h : GoodLines ls) :
    stripLines (ls ++ List.replicate j C01.blankLine) = ls := C01.strip_padding ls j h

theorem run_block_tail (d : List CItem) (n k : Nat) (it : CItem) (hn : 0 < n) (hit : RepItem it = true) :
    run { done := d, cur := { index := ((k + 1 : Nat) : Int), startAt := truncMs it.startAt, endAt := truncMs it.endAt, lines := [] },
          curListed := true, sa := {}, lineNum := n } ((it.lines.map lineStr).map some)
      = .ok { done := d, cur := normItem k it, curListed := true, sa := {}, lineNum := n + it.lines.length } := by
  rw [run_texts it.lines (repItem_lines hit) _ _ _ _ hn]
  simp [normItem]

/-- **A later cue.** index line, timing line, text lines — read behind a cue `c` that may be
    followed by `j` empty lines: `c` is closed and listed, the new cue is being filled -/
theorem run_block (d : List CItem) (c : CItem) (j n k : Nat) (it : CItem) (hn : 0 < n) (hk : k + 1 ≤ int64Max)
    (hit : RepItem it = true) (hc : GoodLines c.lines) :
    run { done := d, cur := { c with lines := c.lines ++ List.replicate j C01.blankLine }, curListed := true, sa := {}, lineNum := n }
        ((blockLines k it).map some)
      = .ok { done := d ++ [c], cur := normItem k it, curListed := true, sa := {}, lineNum := n + 2 + it.lines.length } := by
  unfold blockLines
  rw [List.map_cons, List.map_cons]
  rw [run_cons_ok (step_index d _ true n (k + 1) hn)]
  have h2 := step_timing d { c with lines := c.lines ++ List.replicate j C01.blankLine } true (n + 1) (k + 1)
    (c.lines ++ List.replicate j C01.blankLine) it (by omega) hk hit
  rw [run_cons_ok h2]
  simp only [↓reduceIte, strip_good c.lines j hc]
  rw [run_block_tail _ _ _ _ (by omega) hit]

/-- **The first cue.** BOM + index line, timing line, text lines -/
theorem run_block_first (it : CItem) (hit : RepItem it = true) :
    run {} (((bom ++ itoaNat 1) :: timingStr it :: it.lines.map lineStr).map some)
      = .ok { done := [], cur := normItem 0 it, curListed := true, sa := {}, lineNum := 2 + it.lines.length } := by
  rw [List.map_cons, List.map_cons]
  rw [run_cons_ok (step_first 1)]
  have h2 := step_timing [] { startAt := 0, endAt := 0, lines := [] } false 1 1 [] it (by omega) (by decide) hit
  rw [List.nil_append] at h2
  rw [run_cons_ok h2]
  simp only [Bool.false_eq_true, ↓reduceIte]
  exact run_block_tail [] 2 0 it (by omega) hit

/-! ### the fold over the cues -/

/-- the blocks of the later cues, each behind the empty line that closes its predecessor -/
def linesSep : Nat → List CItem → List Str
  | _, [] => []
  | k, it :: rest => [] :: blockLines k it ++ linesSep (k + 1) rest

theorem linesFrom_eq_sep (k : Nat) (it : CItem) (rest : List CItem) :
    linesFrom k (it :: rest) = blockLines k it ++ linesSep (k + 1) rest ++ [[]] := by
  induction rest generalizing k it with
  | nil => simp [linesFrom, linesSep]
  | cons it' r ih =>
    rw [linesFrom, ih (k + 1) it']
    simp [linesSep]

/-- what `ReadFromSRT` returns from a state in which a cue is being filled -/
def result (st : St) : List CItem := st.done ++ [{ st.cur with lines := stripLines st.cur.lines }]

theorem run_rest (rest : List CItem) :
    ∀ (d : List CItem) (c : CItem) (j n k m : Nat), 0 < n → k + rest.length ≤ int64Max →
      (∀ it ∈ rest, RepItem it = true) → GoodLines c.lines →
      ∃ st', run { done := d, cur := { c with lines := c.lines ++ List.replicate j C01.blankLine }, curListed := true,
                   sa := {}, lineNum := n } ((linesSep k rest ++ List.replicate m []).map some) = .ok st'
        ∧ st'.curListed = true ∧ result st' = d ++ c :: normItems k rest := by
  induction rest with
  | nil =>
    intro d c j n k m hn _ _ hc
    simp only [linesSep, List.nil_append]
    refine ⟨_, run_blanks m _ _ _ _ _ hn, rfl, ?_⟩
    simp only [result, normItems]
    rw [List.append_assoc, List.replicate_append_replicate, strip_good c.lines _ hc]
  | cons it rest ih =>
    intro d c j n k m hn hk hrep hc
    have hit := hrep it (by simp)
    simp only [linesSep, List.cons_append, List.map_cons, List.append_assoc, List.map_append]
    rw [run_cons_ok (step_blank d _ true {} n hn)]
    have e : (c.lines ++ List.replicate j C01.blankLine) ++ [C01.blankLine] = c.lines ++ List.replicate (j + 1) C01.blankLine := by
      rw [List.append_assoc, List.replicate_succ']
    simp only [e]
    rw [run_append_ok (run_block d c (j + 1) (n + 1) k it (by omega) (by simp at hk; omega) hit hc)]
    have hgood : GoodLines (normItem k it).lines := good_normLines it.lines (repItem_lines hit)
    obtain ⟨st', h1, h2, h3⟩ := ih (d ++ [c]) (normItem k it) 0 (n + 1 + 2 + it.lines.length) (k + 1) m (by omega)
      (by simp at hk; omega) (fun x hx => hrep x (by simp [hx])) hgood
    refine ⟨st', ?_, h2, ?_⟩
    · rw [← h1]
      simp
    · rw [h3]; simp [normItems]

/-- the lines of the written document, with `m` empty lines at the end (`m = 1`: split at every LF;
    `m = 0`: a final line terminator does not start a new line) -/
def docLinesPad (it0 : CItem) (rest : List CItem) (m : Nat) : List Str :=
  ((bom ++ itoaNat 1) :: timingStr it0 :: it0.lines.map lineStr) ++ linesSep 1 rest ++ List.replicate m []

/-- **The fold.** reading the lines of the written document gives the normal form, however many
    empty lines follow the last cue -/
theorem read_docLinesPad (it0 : CItem) (rest : List CItem) (m : Nat)
    (hrep : ∀ it ∈ it0 :: rest, RepItem it = true) (hlen : (it0 :: rest).length ≤ int64Max) :
    SRT.read ((docLinesPad it0 rest m).map some) = .ok { items := normItems 0 (it0 :: rest) } := by
  have hit0 := hrep it0 (by simp)
  unfold docLinesPad
  rw [List.append_assoc, List.map_append]
  have hgood : GoodLines (normItem 0 it0).lines := good_normLines it0.lines (repItem_lines hit0)
  obtain ⟨st', h1, h2, h3⟩ := run_rest rest [] (normItem 0 it0) 0 (2 + it0.lines.length) 1 m (by omega)
    (by simp at hlen; omega) (fun x hx => hrep x (by simp [hx])) hgood
  have e : ({ (normItem 0 it0) with lines := (normItem 0 it0).lines ++ List.replicate 0 C01.blankLine } : CItem)
      = normItem 0 it0 := by simp
  rw [e] at h1
  unfold SRT.read
  rw [run_append_ok (run_block_first it0 hit0), h1]
  simp only [h2, ↓reduceIte]
  have := h3
  simp only [result, List.nil_append] at this
  rw [this]
  rfl

/-! ### the written string, split into lines -/

theorem splitC_unlines (ls : List Str) (h : ∀ l ∈ ls, '\n' ∉ l) : splitC '\n' (unlines ls) = ls ++ [[]] := by
  induction ls with
  | nil => rfl
  | cons a ls ih =>
    rw [unlines_cons, splitC_append _ (h a (by simp)), ih (fun l hl => h l (by simp [hl]))]
    rfl

theorem blockLines_no_break (k : Nat) (it : CItem) (hit : RepItem it = true) (x : Char) (hx : x = '\n' ∨ x = '\r') :
    ∀ l ∈ blockLines k it, x ∉ l := by
  obtain ⟨h1, h2, h3, h4⟩ := repItem_times hit
  intro l hl
  simp only [blockLines, List.mem_cons, List.mem_map] at hl
  rcases hl with rfl | rfl | ⟨l0, hl0, rfl⟩
  · exact digitStr_not_mem (itoaNat_digits _) x (by rcases hx with rfl | rfl <;> decide)
  · rw [timingStr_eq]
    rcases hx with rfl | rfl
    · exact SRTTiming.no_newline_timingLine _ _ h1 h2 h3 h4
    · exact SRTTiming.no_cr_timingLine _ _ h1 h2 h3 h4
  · exact lineStr_no_break l0 (repItem_lines hit l0 hl0) x hx

theorem linesSep_no_break (rest : List CItem) (k : Nat) (h : ∀ it ∈ rest, RepItem it = true) (x : Char)
    (hx : x = '\n' ∨ x = '\r') : ∀ l ∈ linesSep k rest, x ∉ l := by
  induction rest generalizing k with
  | nil => intro l hl; simp [linesSep] at hl
  | cons it rest ih =>
    intro l hl
    simp only [linesSep, List.cons_append, List.mem_cons, List.mem_append] at hl
    rcases hl with rfl | hl | hl
    · simp
    · exact blockLines_no_break k it (h it (by simp)) x hx l hl
    · exact ih (k + 1) (fun y hy => h y (by simp [hy])) l hl

/-- no line of the document contains a line break -/
theorem docLinesPad_no_break (it0 : CItem) (rest : List CItem) (m : Nat) (hrep : ∀ it ∈ it0 :: rest, RepItem it = true)
    (x : Char) (hx : x = '\n' ∨ x = '\r') : ∀ l ∈ docLinesPad it0 rest m, x ∉ l := by
  intro l hl
  unfold docLinesPad at hl
  rcases List.mem_append.mp hl with hl | hl
  · rcases List.mem_append.mp hl with hl | hl
    · rcases List.mem_cons.mp hl with rfl | hl
      · intro hm
        rcases List.mem_append.mp hm with hm | hm
        · simp [bom] at hm; subst hm; rcases hx with hx | hx <;> exact absurd hx (by decide)
        · exact digitStr_not_mem (itoaNat_digits _) x (by rcases hx with rfl | rfl <;> decide) hm
      · exact blockLines_no_break 0 it0 (hrep it0 (by simp)) x hx l (by simp [blockLines, hl])
    · exact linesSep_no_break rest 1 (fun y hy => hrep y (by simp [hy])) x hx l hl
  · rw [List.eq_of_mem_replicate hl]; simp

/-- **The written string is its lines.** every line followed by LF, except that the last (empty)
    line has none -/
theorem write_eq_unlines (it0 : CItem) (rest : List CItem) (regions styles : List Def) (md : Attrs) :
    write { items := it0 :: rest, regions := regions, styles := styles, metadata := md }
      = some (unlines (docLinesPad it0 rest 0)) := by
  rw [write_eq_lines _ (by simp)]
  simp only [linesFrom_eq_sep, docLinesPad, List.replicate_zero, List.append_nil]
  rw [unlines_append]
  have : unlines [([] : Str)] = ['\n'] := rfl
  rw [this, List.dropLast_concat]
  simp [blockLines, unlines_cons, unlines_append]

end SRTDoc
end Astisub
