import Astisub.Lemmas.SSAW2Denote

/-!
# Lemmas/SSAW2Styles — the decoder's style-row reader and `[Styles]`-section reader on what the writer emits

* `valOf_cell`: the decoder's cell reader on the cell the writer emits for a good value;
* `specStyleRow_row`: the decoder's `Style:` row reader on the row the writer emits for a good style, under the
  Format `Name, <distinct attribute columns>`;
* `stylesOf_block`: the decoder's `[Styles]`-section reader on the (trimmed) `Format:` line and `Style:` lines of the writer.
-/

namespace Astisub
namespace SSAW
open Go SSA SSAR List
open Spec.SSA (GVal GStyle GRun GEvent GDoc REvent)

/-! ### one cell -/

/-- **Cell.** the decoder reads the cell the writer emits for a good value as that value; the cell is not empty -/
theorem valOf_cell (f : Fld) (v : Val) (cell : Str) (h : CellOK f v) (hf : valFloat3 v = true) (hc : v.ssa = some cell) :
    Spec.SSA.valOf (gk f.kind) cell = some (gval v) ∧ cell ≠ [] := by
  obtain ⟨hk, hv⟩ := h
  rw [← hk]
  cases v with
  | b b =>
    simp only [Val.ssa, Option.some.injEq] at hc
    subst hc
    refine ⟨?_, by cases b <;> simp⟩
    simp only [Val.kind, gk, Spec.SSA.valOf, spec_boolOf_cell, Option.map_some, gval]
  | c c =>
    have hlt : c < 4294967296 := hv
    simp only [Val.ssa, Option.some.injEq] at hc
    subst hc
    refine ⟨?_, by simp [colourString]⟩
    simp only [Val.kind, gk, Spec.SSA.valOf, spec_colourOf_colourString c hlt, Option.map_some, gval]
  | f bits =>
    have hs : formatFloat3 bits = some cell := hc
    have hd : decFloat3 bits = true := hf
    unfold decFloat3 at hd
    rw [hs] at hd
    have hfl : Spec.SSA.floatOf cell = some bits := by simpa using hd
    refine ⟨?_, (formatFloat3_shape bits cell hs).1⟩
    simp only [Val.kind, gk, Spec.SSA.valOf, hfl, Option.map_some, gval]
  | i i =>
    simp only [Val.ssa, Option.some.injEq] at hc
    subst hc
    refine ⟨?_, itoa_ne_nil i⟩
    simp only [Val.kind, gk, Spec.SSA.valOf, spec_intOf_itoa, Option.map_some, gval]
  | s str =>
    have hs : str ≠ [] ∧ ',' ∉ str := hv
    simp only [Val.ssa, Option.some.injEq] at hc
    subst hc
    exact ⟨rfl, hs.1⟩

/-! ### one row -/

theorem normCol_name : Spec.SSA.normCol "Name".toList = "Name" := by decide

theorem normCol_col (f : Fld) : Spec.SSA.normCol f.col.toList = f.col := by
  rw [normCol_of_ne (col_ne_tertiary f), String.ofList_toList]

/-- the writer's Format as the decoder sees it -/
theorem normCol_formatOf (fs : List Fld) :
    (formatOf fs).map Spec.SSA.normCol = "Name" :: fs.map fun f => f.col := by
  unfold formatOf
  rw [map_cons, map_map, normCol_name]
  congr 1
  apply map_congr_left
  intro f _
  exact normCol_col f

/-- in the (column, cell) pairs of a written row, the key `f.col` has the cell of `f` when `f` is a column of the Format,
    and nothing otherwise -/
theorem lookup_cells (s : Style) : ∀ (fs : List Fld) (cs : List Str), allSome (fs.map (cellOf s)) = some cs →
    ∀ f : Fld, ((fs.map fun g => g.col).zip cs).lookup f.col = if f ∈ fs then cellOf s f else none := by
  intro fs
  induction fs with
  | nil =>
    intro cs _ f
    simp
  | cons g fs ih =>
    intro cs h f
    simp only [map_cons, allSome] at h
    cases hcell : cellOf s g with
    | none => rw [hcell] at h; simp at h
    | some c0 =>
      cases hrest : allSome (fs.map (cellOf s)) with
      | none => rw [hcell, hrest] at h; simp at h
      | some cs' =>
        rw [hcell, hrest] at h
        simp only [Option.some.injEq] at h
        subst h
        rw [map_cons, zip_cons_cons, lookup_cons_ite]
        by_cases hfg : f = g
        · subst hfg
          rw [if_pos rfl, if_pos (by simp), hcell]
        · have hne : ¬ f.col = g.col := fun e => hfg (col_injective e)
          rw [if_neg hne, ih cs' hrest f]
          by_cases hm : f ∈ fs
          · rw [if_pos hm, if_pos (by simp [hm])]
          · rw [if_neg hm, if_neg (by simp [hm, hfg])]

/-- the decoder's entry of the table row of attribute `f`, on a written row -/
theorem specEntry_row (s : Style) (fs : List Fld) (cs : List Str) (hs : StyleOK s)
    (hfl : ∀ f ∈ Fld.all, ∀ v, s.vals.get f = some v → valFloat3 v = true)
    (hcov : ∀ f, (s.vals.get f).isSome → f ∈ fs)
    (hcs : allSome (fs.map (cellOf s)) = some cs) (f : Fld) :
    specEntry (("Name", s.name) :: (fs.map fun g => g.col).zip cs) (f.col, f.key, gk f.kind)
      = some ((s.vals.get f).map fun v => (f.col, gval v)) := by
  have hl : (("Name", s.name) :: (fs.map fun g => g.col).zip cs).lookup f.col = if f ∈ fs then cellOf s f else none := by
    rw [lookup_cons_ite, if_neg (col_ne_Name f), lookup_cells s fs cs hcs f]
  by_cases hm : f ∈ fs
  · rw [if_pos hm] at hl
    unfold cellOf at hl
    cases hget : s.vals.get f with
    | none =>
      rw [hget] at hl
      simp only [specEntry, hl, isEmpty_nil, ↓reduceIte, Option.map_none]
    | some v =>
      rw [hget] at hl
      simp only at hl
      have hall := C04.fld_all_complete f
      cases hcell : v.ssa with
      | none =>
        obtain ⟨cell, e1, _⟩ := cell_roundtrip f v (hs.2 f hall v hget)
        rw [hcell] at e1; cases e1
      | some cell =>
        rw [hcell] at hl
        obtain ⟨h1, h2⟩ := valOf_cell f v cell (hs.2 f hall v hget) (hfl f hall v hget) hcell
        have he : cell.isEmpty = false := by
          cases cell with
          | nil => exact absurd rfl h2
          | cons _ _ => rfl
        simp only [specEntry, hl, he, Bool.false_eq_true, ↓reduceIte, h1, Option.map_some]
  · rw [if_neg hm] at hl
    have hget : s.vals.get f = none := by
      cases hg : s.vals.get f with
      | none => rfl
      | some v => exact absurd (hcov f (by simp [hg])) hm
    simp only [specEntry, hl, hget, Option.map_none]

theorem filterMap_id_map {α β} (g : α → Option β) (l : List α) : (l.map g).filterMap id = l.filterMap g := by
  induction l with
  | nil => rfl
  | cons a as ih =>
    rw [map_cons, filterMap_cons, filterMap_cons, ih]
    rfl

/-- **Style row.** the decoder reads the row written for a good style, under the Format `Name, <distinct attribute
    columns covering the style's attributes>`, as the style's name and its set attributes in table order -/
theorem specStyleRow_row (s : Style) (fs : List Fld) (row : Str) (hs : StyleOK s) (hnd : fs.Nodup)
    (hfl : ∀ f ∈ Fld.all, ∀ v, s.vals.get f = some v → valFloat3 v = true)
    (hcov : ∀ f, (s.vals.get f).isSome → f ∈ fs)
    (hrow : s.row (formatOf fs) = some row) :
    specStyleRow ((formatOf fs).map Spec.SSA.normCol) row = some (styleG s) := by
  rw [row_formatOf] at hrow
  cases hcs : allSome (fs.map (cellOf s)) with
  | none => rw [hcs] at hrow; cases hrow
  | some cs =>
    rw [hcs] at hrow
    simp only [Option.map_some, Option.some.injEq] at hrow
    subst hrow
    obtain ⟨_, h2, h3⟩ := styleFields_cells s hs fs cs { name := s.name } hnd (by intro p hp; cases hp) hcs
    have hsplit : splitC ',' (join [','] (s.name :: cs)) = s.name :: cs :=
      splitC_joined (s.name :: cs) (by simp) (by
        intro p hp
        rcases mem_cons.mp hp with rfl | hp
        · exact hs.1
        · exact h3 p hp)
    rw [specStyleRow_eq, hsplit, normCol_formatOf]
    have hlen : ¬ (s.name :: cs).length ≠ ("Name" :: fs.map fun f => f.col).length := by simp [h2]
    rw [if_neg hlen, zip_cons_cons]
    have hmap : Spec.SSA.styleTable.map (specEntry (("Name", s.name) :: (fs.map fun g => g.col).zip cs))
        = (Fld.all.map fun f => (s.vals.get f).map fun v => (f.col, gval v)).map some := by
      rw [styleTable_eq, map_map, map_map]
      apply map_congr_left
      intro f _
      exact specEntry_row s fs cs hs hfl hcov hcs f
    rw [hmap, (mapM_id_eq_some _ _).mpr rfl]
    simp only [Option.map_some, Option.some.injEq]
    have hname : ((("Name", s.name) :: (fs.map fun g => g.col).zip cs).lookup "Name").getD [] = s.name := by
      rw [lookup_cons_ite, if_pos rfl]; rfl
    rw [hname, filterMap_id_map]
    rfl

/-! ### the section -/

theorem spec_nodup_iff (l : List String) : Spec.SSA.nodup l = true ↔ l.Nodup := by
  induction l with
  | nil => simp [Spec.SSA.nodup]
  | cons a as ih =>
    simp only [Spec.SSA.nodup, Bool.and_eq_true, Bool.not_eq_true', List.nodup_cons, ih]
    constructor
    · rintro ⟨h1, h2⟩
      refine ⟨fun hm => ?_, h2⟩
      rw [contains_iff_mem.mpr hm] at h1
      cases h1
    · rintro ⟨h1, h2⟩
      refine ⟨?_, h2⟩
      cases hc : as.contains a with
      | false => rfl
      | true => exact absurd (contains_iff_mem.mp hc) h1

theorem nodup_cols : ∀ fs : List Fld, fs.Nodup → (fs.map fun f => f.col).Nodup := by
  intro fs
  induction fs with
  | nil => intro _; exact nodup_nil
  | cons g fs ih =>
    intro h
    obtain ⟨h1, h2⟩ := List.nodup_cons.mp h
    rw [map_cons, List.nodup_cons]
    refine ⟨?_, ih h2⟩
    intro hm
    obtain ⟨f, hf, he⟩ := mem_map.mp hm
    rw [col_injective he] at hf
    exact h1 hf

theorem styleTable_lookup_col (f : Fld) : (Spec.SSA.styleTable.lookup f.col).isSome = true := by
  cases f <;> decide

/-- the decoder's guard on the writer's Format -/
theorem format_guard (fs : List Fld) (hnd : fs.Nodup) :
    (Spec.SSA.nodup ((formatOf fs).map Spec.SSA.normCol) &&
      ((formatOf fs).map Spec.SSA.normCol).all
        (fun c => c = "Name" || (Spec.SSA.styleTable.lookup c).isSome)) = true := by
  rw [normCol_formatOf, Bool.and_eq_true]
  constructor
  · rw [spec_nodup_iff, List.nodup_cons]
    refine ⟨?_, nodup_cols fs hnd⟩
    intro hm
    obtain ⟨f, _, he⟩ := mem_map.mp hm
    exact col_ne_Name f he
  · rw [all_eq_true]
    intro c hc
    rcases mem_cons.mp hc with rfl | hc
    · simp
    · obtain ⟨f, _, rfl⟩ := mem_map.mp hc
      rw [styleTable_lookup_col]
      simp

/-- the `Style:` lines, once the Format is known -/
theorem stylesOf_rows (fs : List Fld) (hnd : fs.Nodup) : ∀ (ss : List Style) (rows : List Str),
    (∀ s ∈ ss, StyleOK s ∧ StyleTrimmed s ∧ (∀ f ∈ Fld.all, ∀ v, s.vals.get f = some v → valFloat3 v = true) ∧
      (∀ f, (s.vals.get f).isSome → f ∈ fs)) →
    allSome (ss.map fun s => s.row (formatOf fs)) = some rows →
    Spec.SSA.stylesOf (rows.map (kvTrim "Style".toList)) (some ((formatOf fs).map Spec.SSA.normCol))
      = some (ss.map styleG) := by
  intro ss
  induction ss with
  | nil =>
    intro rows _ h
    simp only [map_nil, allSome, Option.some.injEq] at h
    subst h
    rfl
  | cons s ss ih =>
    intro rows h hrows
    simp only [map_cons, allSome] at hrows
    cases hrow : s.row (formatOf fs) with
    | none => rw [hrow] at hrows; simp at hrows
    | some row =>
      cases hrest : allSome (ss.map fun s => s.row (formatOf fs)) with
      | none => rw [hrow, hrest] at hrows; simp at hrows
      | some rows' =>
        rw [hrow, hrest] at hrows
        simp only [Option.some.injEq] at hrows
        subst hrows
        obtain ⟨hs, ht, hfl, hcov⟩ := h s (by simp)
        have hcl := classify_kvTrim "Style".toList row (by decide) (trimmed_style_row s fs ht row hrow)
        have e1 : ¬ "Style".toList = "Format".toList := by decide
        rw [map_cons, stylesOf_cons, hcl]
        simp only [e1, ↓reduceIte]
        rw [specStyleRow_row s fs row hs hnd hfl hcov hrow,
          ih rows' (fun s' hs' => h s' (by simp [hs'])) hrest]
        rfl

/-- **Styles section.** the decoder reads the (trimmed) `Format:` line and `Style:` lines the writer emits for good styles
    as exactly these styles, in order -/
theorem stylesOf_block (fs : List Fld) (hnd : fs.Nodup) (ss : List Style) (rows : List Str)
    (h : ∀ s ∈ ss, StyleOK s ∧ StyleTrimmed s ∧ (∀ f ∈ Fld.all, ∀ v, s.vals.get f = some v → valFloat3 v = true) ∧
      (∀ f, (s.vals.get f).isSome → f ∈ fs))
    (hrows : allSome (ss.map fun s => s.row (formatOf fs)) = some rows) :
    Spec.SSA.stylesOf (kvTrim "Format".toList (join ", ".toList (formatOf fs)) :: rows.map (kvTrim "Style".toList)) none
      = some (ss.map styleG) := by
  obtain ⟨hne, hcols⟩ := formatOf_cols fs
  obtain ⟨h1, h2⟩ := format_cols (formatOf fs) hne hcols
  have hcl := classify_kvTrim "Format".toList (join ", ".toList (formatOf fs)) (by decide) h2
  have hcolsEq : ((splitC ',' (join ", ".toList (formatOf fs))).map fun c => Spec.SSA.normCol (trimSpace c))
      = (formatOf fs).map Spec.SSA.normCol := by
    have e : ((splitC ',' (join ", ".toList (formatOf fs))).map fun c => Spec.SSA.normCol (trimSpace c))
        = ((splitC ',' (join ", ".toList (formatOf fs))).map trimSpace).map Spec.SSA.normCol := by
      rw [map_map]; rfl
    rw [e, h1]
  rw [stylesOf_cons, hcl]
  simp only [↓reduceIte, Option.isSome_none, Bool.false_eq_true]
  rw [hcolsEq, if_pos (format_guard fs hnd)]
  exact stylesOf_rows fs hnd ss rows h hrows

end SSAW
end Astisub
