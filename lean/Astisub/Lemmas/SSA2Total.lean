import Astisub.Lemmas.SSA2Fixpoint

/-!
# Lemmas/SSA2Total — the writer answers on representable cue lists; the normal form is representable

* `write_ok_of_rep`: for a `RepRead` cue list with at least one cue, `write` answers a text;
* `repRead_norm`: the normal form of a `RepFix` cue list is `RepRead`;
* `norm_idem`: `norm (norm s) = norm s`.
-/

namespace Astisub
namespace SSA
open Go List

theorem go_some (fl : SI → Option (List Str)) : ∀ (fs : List SI), (∀ f ∈ fs, ∃ a, fl f = some a) →
    ∃ ls, Info.bytes.go fl fs = some ls := by
  intro fs
  induction fs with
  | nil => intro _; exact ⟨[], rfl⟩
  | cons f fs ih =>
    intro h
    obtain ⟨a, ha⟩ := h f (by simp)
    obtain ⟨r, hr⟩ := ih (fun g hg => h g (by simp [hg]))
    exact ⟨a ++ r, by simp only [Info.bytes.go, ha, hr]⟩

/-- `ssaScriptInfo.bytes` answers on a good script info -/
theorem bytes_some (b : Info) (hb : InfoOK b) : ∃ txt, b.bytes = some txt := by
  rw [bytes_eq]
  obtain ⟨ls, hls⟩ := go_some (fieldLine b) SI.all (by
    intro f hf
    unfold fieldLine
    cases hget : b.vals.get f with
    | none => exact ⟨[], rfl⟩
    | some v =>
      obtain ⟨t, ht, _⟩ := parse_written b f v (hb.2 f hf v hget)
      exact ⟨[kvLine f.header.toList t], by simp only [ht, Option.map_some]⟩)
  exact ⟨_, by rw [hls]; rfl⟩

theorem allSome_some {α β} (f : α → Option β) : ∀ (l : List α), (∀ x ∈ l, ∃ y, f x = some y) →
    ∃ ys, allSome (l.map f) = some ys := by
  intro l
  induction l with
  | nil => intro _; exact ⟨[], rfl⟩
  | cons a as ih =>
    intro h
    obtain ⟨y, hy⟩ := h a (by simp)
    obtain ⟨ys, hys⟩ := ih (fun x hx => h x (by simp [hx]))
    exact ⟨y :: ys, by simp only [map_cons, allSome, hy, hys]⟩

/-- **The writer answers.** For every representable cue list with at least one cue, `WriteToSSA`
    answers a text (it is neither `ErrNoSubtitlesToWrite` nor outside the model). -/
theorem write_ok_of_rep (s : Subs) (hr : RepRead s) (hne : s.items ≠ []) : ∃ out, write s = .ok out := by
  obtain ⟨hinfo, hstyles, hevents, _⟩ := hr
  rw [write_eq]
  have hemp : s.items.isEmpty = false := by
    cases hs : s.items with
    | nil => exact absurd hs hne
    | cons _ _ => rfl
  have hneg : s.items.any (fun it => it.startAt < 0 || it.endAt < 0) = false := by
    apply any_neg_false
    intro it hit
    have := (hevents (eventOfItem it) (mem_map_of_mem hit)).1
    exact ⟨this.start.1, this.stop.1⟩
  rw [hemp, hneg]
  simp only [Bool.false_eq_true, ↓reduceIte]
  obtain ⟨txt, htxt⟩ := bytes_some _ hinfo
  unfold writeCore
  simp only [htxt, writer_format]
  by_cases he : (writerStyles s).isEmpty = true
  · simp only [he, ↓reduceIte]
    exact ⟨_, rfl⟩
  · obtain ⟨rows, hrows⟩ := allSome_some (fun st : Style => st.row (formatOf (formatFlds (writerStyles s)))) (writerStyles s)
      (fun st hst => row_exists st _ (hstyles st hst).1)
    simp only [he, Bool.false_eq_true, ↓reduceIte, hrows, Option.map_some]
    exact ⟨_, rfl⟩

/-! ### the normal form is representable -/

theorem eventCells_norm (e : Event) (v : Bool) (hc : EventCells e) (hs : e.style ≠ "*Default".toList) :
    EventCells (e.norm "Dialogue".toList v) := by
  have h1 := hc.start
  have h2 := hc.stop
  unfold TimeOK at h1 h2
  refine ⟨?_, ?_, ?_, hc.marginL, hc.marginR, hc.marginV, ?_, hc.name, hc.effect⟩
  · show TimeOK (e.startAt - e.startAt % 10000000)
    unfold TimeOK; omega
  · show TimeOK (e.endAt - e.endAt % 10000000)
    unfold TimeOK; omega
  · cases v
    · show Int64 0
      decide
    · exact hc.layer
  · show ',' ∉ (if e.style = "*Default".toList then "Default".toList else e.style)
    rw [if_neg hs]
    exact hc.style

theorem eventNL_norm (e : Event) (v : Bool) (hn : EventNL e) (ht : Trimmed e.text) (hs : e.style ≠ "*Default".toList) :
    EventNL (e.norm "Dialogue".toList v) := by
  refine ⟨?_, hn.2.1, hn.2.2.1, ?_⟩
  · show '\n' ∉ (if e.style = "*Default".toList then "Default".toList else e.style)
    rw [if_neg hs]
    exact hn.1
  · show '\n' ∉ trimSpace e.text
    rw [trimSpace_of_trimmed ht]
    exact hn.2.2.2

/-- the events of the normal form are the normalised events -/
theorem events_norm (s : Subs) (h : RepFix s) :
    (norm s).items.map eventOfItem = (s.items.map eventOfItem).map (Event.norm "Dialogue".toList (isV4plus s)) := by
  rw [show (norm s).items = s.items.map fun it =>
    eventItem (styleIds s) ((eventOfItem it).norm "Dialogue".toList (isV4plus s)) from rfl, map_map, map_map]
  apply map_congr_left
  intro it hit
  have h1 := h.1.2.2.1 (eventOfItem it) (mem_map_of_mem hit)
  have h2 := h.2 (eventOfItem it) (mem_map_of_mem hit)
  exact eventOfItem_eventItem _ _ (eventBack_norm (styleIds s) (eventOfItem it) (isV4plus s) h1.1 h1.2.1 h2.1 h2.2)

/-- **The normal form is representable**: what is read back can be written and read back again -/
theorem repRead_norm (s : Subs) (h : RepFix s) : RepRead (norm s) := by
  have hev := events_norm s h
  obtain ⟨⟨hinfo, hstyles, hevents, hnd⟩, hfix⟩ := h
  have hst : writerStyles (norm s) = writerStyles s := writerStyles_toDef s (fun st hst => (hstyles st hst).1)
  refine ⟨?_, ?_, ?_, ?_⟩
  · rw [show (norm s).metadata = (infoOfMeta s.metadata).metadata from rfl, infoOfMeta_metadata _ hinfo]
    exact hinfo
  · rw [hst]; exact hstyles
  · rw [hev]
    intro e' he'
    obtain ⟨e, he, rfl⟩ := mem_map.mp he'
    have h1 := hevents e he
    have hs := styleRef_ne_default (hfix e he).1
    refine ⟨eventCells_norm e _ h1.1 hs, ?_, eventNL_norm e _ h1.2.2 h1.2.1 hs⟩
    show Trimmed (trimSpace e.text)
    exact trimmed_trimSpace _
  · unfold styleIds
    rw [hst]
    exact hnd

/-- **The normal form is a normal form**: normalising again changes nothing (for a cue list with at least one cue) -/
theorem norm_idem (s : Subs) (h : RepFix s) (hne : s.items ≠ []) : norm (norm s) = norm s := by
  obtain ⟨out, hout⟩ := write_ok_of_rep s h.1 hne
  have h1 := write_read s out h.1 hout
  have h2 := write_read (norm s) out (repRead_norm s h) (by rw [write_norm s h, hout])
  rw [h1] at h2
  exact (Res.ok.inj h2).symm

end SSA
end Astisub
