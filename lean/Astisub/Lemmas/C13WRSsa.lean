import Astisub.Lemmas.C13WRDoc
import Astisub.Props.C04doc2

/-!
# Lemmas/C13WRSsa — the SSA/ASS proviso `RepRead` after `optimizeSubs`

`SSA.RepRead` speaks about the script info (metadata: untouched), the typed style table the writer
builds from all style definitions (`writerStyles`: after `Optimize` a sub-table), the events of the cues
(untouched) and distinct style identifiers (kept by deleting).  The cue read back names its style
through `resolveStyle` against the written style names; it resolves to the same style as before when
the cue's style is defined (hence kept) and is not `*Default` (which the writer renames to `Default`,
a *different* style that `Optimize` may have deleted — `ssa_star_default_differs`).
-/

namespace Astisub
namespace C13WR
open Go List SSA

theorem mem_writerStyles {s : Subs} {st : Style} : st ∈ writerStyles s ↔ ∃ d ∈ s.styles, styleOfDef d = st := by
  unfold writerStyles
  rw [mem_map]
  constructor
  · rintro ⟨d, hd, rfl⟩; exact ⟨d, (mergeSort_perm _ _).mem_iff.mp hd, rfl⟩
  · rintro ⟨d, hd, rfl⟩; exact ⟨d, (mergeSort_perm _ _).mem_iff.mpr hd, rfl⟩

theorem styleIds_perm (s : Subs) : (styleIds s).Perm (s.styles.map (·.id)) := by
  unfold styleIds writerStyles
  rw [map_map]
  exact (mergeSort_perm _ _).map _

theorem mem_styleIds {s : Subs} {v : Str} : v ∈ styleIds s ↔ v ∈ s.styles.map (·.id) := (styleIds_perm s).mem_iff

/-- **`RepRead` survives `Optimize`** -/
theorem repRead_optimizeSubs (s : Subs) (h : RepRead s) : RepRead (optimizeSubs s) := by
  obtain ⟨h1, h2, h3, h4⟩ := h
  refine ⟨?_, ?_, ?_, ?_⟩
  · rw [optimizeSubs_metadata]; exact h1
  · intro st hst
    obtain ⟨d, hd, rfl⟩ := mem_writerStyles.mp hst
    exact h2 _ (mem_writerStyles.mpr ⟨d, (optimizeSubs_styles_sublist s).subset hd, rfl⟩)
  · rw [optimizeSubs_items]; exact h3
  · have hs : (s.styles.map (·.id)).Nodup := (styleIds_perm s).nodup_iff.mp h4
    exact (styleIds_perm _).nodup_iff.mpr (hs.sublist ((optimizeSubs_styles_sublist s).map _))

theorem isV4plus_optimizeSubs (s : Subs) : isV4plus (optimizeSubs s) = isV4plus s := by
  unfold isV4plus; rw [optimizeSubs_metadata]

/-- the style column of a cue resolves as before -/
theorem resolveStyle_optimizeSubs (s : Subs) (it : CItem) (hit : it ∈ s.items)
    (hdef : ∀ v, it.style = some v → v ∈ s.styles.map (·.id)) :
    resolveStyle (styleIds (optimizeSubs s)) (it.style.getD [])
      = resolveStyle (styleIds s) (it.style.getD []) := by
  cases hst : it.style with
  | none => simp [resolveStyle]
  | some v =>
    simp only [Option.getD_some]
    unfold resolveStyle
    by_cases hv : v.isEmpty
    · simp [hv]
    · have h1 : v ∈ styleIds s := mem_styleIds.mpr (hdef v hst)
      have h2 : v ∈ styleIds (optimizeSubs s) :=
        mem_styleIds.mpr (itemRef_kept s it hit v (by simp [itemRefs, hst]) (hdef v hst))
      simp [hv, h1, h2]

/-- the cues the SSA reader returns are the same with and without `Optimize` -/
theorem ssaNorm_items_optimizeSubs (s : Subs)
    (hdef : ∀ it ∈ s.items, ∀ v, it.style = some v → v ∈ s.styles.map (·.id))
    (hstar : ∀ it ∈ s.items, it.style ≠ some "*Default".toList) :
    (SSA.norm (optimizeSubs s)).items = (SSA.norm s).items := by
  simp only [SSA.norm, optimizeSubs_items, isV4plus_optimizeSubs]
  apply map_congr_left
  intro it hit
  have hne : (eventOfItem it).style ≠ "*Default".toList := by
    show it.style.getD [] ≠ _
    intro h
    cases hs : it.style with
    | none => rw [hs] at h; revert h; decide
    | some v => rw [hs] at h; exact hstar it hit (by rw [hs]; exact congrArg some h)
  have hsty : ((eventOfItem it).norm "Dialogue".toList (isV4plus s)).style = it.style.getD [] := by
    show (if (eventOfItem it).style = "*Default".toList then _ else (eventOfItem it).style) = _
    rw [if_neg hne]; rfl
  unfold eventItem
  rw [hsty, resolveStyle_optimizeSubs s it hit (hdef it hit)]

/-! ### the corner `*Default` -/

/-- a cue styled `*Default` next to an unused style `Default` -/
def starDefault : Subs :=
  { items := [{ startAt := 0, endAt := 1000000000, style := some "*Default".toList,
                lines := [{ items := [{ text := "x".toList }] }] }],
    styles := [{ id := "*Default".toList }, { id := "Default".toList }] }

theorem starDefault_optimized : optimizeSubs starDefault = { starDefault with styles := [{ id := "*Default".toList }] } := by
  decide

theorem styleIds_starDefault : styleIds starDefault = ["*Default".toList, "Default".toList] := by
  simp [styleIds, writerStyles, List.mergeSort, starDefault, strLt, styleOfDef]

theorem styleIds_starDefault_opt : styleIds (optimizeSubs starDefault) = ["*Default".toList] := by
  rw [starDefault_optimized]
  simp [styleIds, writerStyles, styleOfDef]

/-- read back from SSA, the cue names the style `Default` before `Optimize` and no style after it -/
theorem ssa_star_default_differs :
    (SSA.norm starDefault).items.map (·.style) = [some "Default".toList] ∧
    (SSA.norm (optimizeSubs starDefault)).items.map (·.style) = [none] := by
  constructor
  · simp only [SSA.norm, map_map, Function.comp_def, eventItem, styleIds_starDefault]
    decide
  · simp only [SSA.norm, map_map, Function.comp_def, eventItem, styleIds_starDefault_opt, optimizeSubs_items]
    decide

end C13WR
end Astisub
