import Astisub.Lemmas.TTMLDocElems
import Astisub.Lemmas.TTMLDocBody

/-!
# Lemmas/TTMLDocDecode — `unmarshal` (the `encoding/xml` contract) on the output of `TTML.write`

The decoder state machine of `Lemmas/TTMLDocXml` is run over the writer's token sequence, segment by
segment; the result is the `TTMLIn` value `tinOfSubs ix s`, given explicitly.
-/

namespace Astisub
namespace TTMLDoc
open Go TTML List

/-- decoder state outside / inside a paragraph, nothing finished, no frame / tick rate -/
def mkSt (path : List Str) (lang title copyright buf : Str) (styles regions : List InDef) (subs : List InSub)
    (cur : Option InSub) : DSt :=
  { path := path, finished := false, framerate := 0, tickrate := 0, lang := lang, title := title,
    copyright := copyright, regions := regions, styles := styles, subs := subs, buf := buf, cur := cur }

/-! ### local names of the element names the writer uses -/

theorem lnc_tt : localName ['t', 't'] = ['t', 't'] := by decide
theorem ln_tt : localName "tt".toList = ['t', 't'] := by rfl
theorem lnc_head : localName ['h', 'e', 'a', 'd'] = ['h', 'e', 'a', 'd'] := by decide
theorem ln_head : localName "head".toList = ['h', 'e', 'a', 'd'] := by rfl
theorem lnc_metadata : localName ['m', 'e', 't', 'a', 'd', 'a', 't', 'a'] = ['m', 'e', 't', 'a', 'd', 'a', 't', 'a'] := by decide
theorem ln_metadata : localName "metadata".toList = ['m', 'e', 't', 'a', 'd', 'a', 't', 'a'] := by rfl
theorem lnc_copyright : localName ['t', 't', 'm', ':', 'c', 'o', 'p', 'y', 'r', 'i', 'g', 'h', 't'] = ['c', 'o', 'p', 'y', 'r', 'i', 'g', 'h', 't'] := by decide
theorem ln_copyright : localName "ttm:copyright".toList = ['c', 'o', 'p', 'y', 'r', 'i', 'g', 'h', 't'] := by rfl
theorem lnc_title : localName ['t', 't', 'm', ':', 't', 'i', 't', 'l', 'e'] = ['t', 'i', 't', 'l', 'e'] := by decide
theorem ln_title : localName "ttm:title".toList = ['t', 'i', 't', 'l', 'e'] := by rfl
theorem lnc_styling : localName ['s', 't', 'y', 'l', 'i', 'n', 'g'] = ['s', 't', 'y', 'l', 'i', 'n', 'g'] := by decide
theorem ln_styling : localName "styling".toList = ['s', 't', 'y', 'l', 'i', 'n', 'g'] := by rfl
theorem lnc_style : localName ['s', 't', 'y', 'l', 'e'] = ['s', 't', 'y', 'l', 'e'] := by decide
theorem ln_style : localName "style".toList = ['s', 't', 'y', 'l', 'e'] := by rfl
theorem lnc_layout : localName ['l', 'a', 'y', 'o', 'u', 't'] = ['l', 'a', 'y', 'o', 'u', 't'] := by decide
theorem ln_layout : localName "layout".toList = ['l', 'a', 'y', 'o', 'u', 't'] := by rfl
theorem lnc_region : localName ['r', 'e', 'g', 'i', 'o', 'n'] = ['r', 'e', 'g', 'i', 'o', 'n'] := by decide
theorem ln_region : localName "region".toList = ['r', 'e', 'g', 'i', 'o', 'n'] := by rfl
theorem lnc_body : localName ['b', 'o', 'd', 'y'] = ['b', 'o', 'd', 'y'] := by decide
theorem ln_body : localName "body".toList = ['b', 'o', 'd', 'y'] := by rfl
theorem lnc_div : localName ['d', 'i', 'v'] = ['d', 'i', 'v'] := by decide
theorem ln_div : localName "div".toList = ['d', 'i', 'v'] := by rfl
theorem lnc_p : localName ['p'] = ['p'] := by decide
theorem ln_p : localName "p".toList = ['p'] := by rfl
theorem lnc_xmlns : localName ['x', 'm', 'l', 'n', 's'] = ['x', 'm', 'l', 'n', 's'] := by decide
theorem ln_xmlns : localName "xmlns".toList = ['x', 'm', 'l', 'n', 's'] := by rfl
theorem lnc_xmllang : localName ['x', 'm', 'l', ':', 'l', 'a', 'n', 'g'] = ['l', 'a', 'n', 'g'] := by decide
theorem ln_xmllang : localName "xml:lang".toList = ['l', 'a', 'n', 'g'] := by rfl
theorem lnc_xmlnsttm : localName ['x', 'm', 'l', 'n', 's', ':', 't', 't', 'm'] = ['t', 't', 'm'] := by decide
theorem ln_xmlnsttm : localName "xmlns:ttm".toList = ['t', 't', 'm'] := by rfl
theorem lnc_xmlnstts : localName ['x', 'm', 'l', 'n', 's', ':', 't', 't', 's'] = ['t', 't', 's'] := by decide
theorem ln_xmlnstts : localName "xmlns:tts".toList = ['t', 't', 's'] := by rfl

abbrev pTT : List Str := [['t', 't']]
abbrev pHead : List Str := ['h', 'e', 'a', 'd'] :: pTT
abbrev pMeta : List Str := ['m', 'e', 't', 'a', 'd', 'a', 't', 'a'] :: pHead
abbrev pStyling : List Str := ['s', 't', 'y', 'l', 'i', 'n', 'g'] :: pHead
abbrev pLayout : List Str := ['l', 'a', 'y', 'o', 'u', 't'] :: pHead
abbrev pBody : List Str := ['b', 'o', 'd', 'y'] :: pTT
abbrev pDiv : List Str := ['d', 'i', 'v'] :: pBody
abbrev pPara : List Str := ['p'] :: pDiv

/-! ### single steps outside a paragraph -/

section steps
variable (ix : List XTok → Str) (lang title copyright buf : Str) (styles regions : List InDef) (subs : List InSub)

/-- an element that is no field of `TTMLIn` is entered -/
theorem step_open {n l : Str} (a : List (Str × Str)) (hl : localName n = l) {path : List Str} (hne : path ≠ [])
    (hc : ctxOf (l :: path) = .other) :
    step ix (mkSt path lang title copyright buf styles regions subs none) (.start n a)
      = some (mkSt (l :: path) lang title copyright buf styles regions subs none) := by
  have he : path.isEmpty = false := by cases path <;> simp_all
  simp [step, mkSt, hl, hc, he]

/-- … and left -/
theorem step_close (n l : Str) {rest : List Str} (hne : rest ≠ []) (h1 : ctxOf (l :: rest) ≠ .title)
    (h2 : ctxOf (l :: rest) ≠ .copyright) :
    step ix (mkSt (l :: rest) lang title copyright buf styles regions subs none) (.stop n)
      = some (mkSt rest lang title copyright buf styles regions subs none) := by
  have he : rest.isEmpty = false := by cases rest <;> simp_all
  cases h : ctxOf (l :: rest) <;> simp_all [step, mkSt]

end steps

/-! ### the root element and `head` -/

/-- the attributes of `<tt>` -/
def rootAttrs (m : Attrs) : List (Str × Str) :=
  [("xmlns".toList, "http://www.w3.org/ns/ttml".toList)] ++ optAttr "xml:lang" (langOut m) ++
    [("xmlns:ttm".toList, "http://www.w3.org/ns/ttml#metadata".toList),
     ("xmlns:tts".toList, "http://www.w3.org/ns/ttml#styling".toList)]

/-- the `xml:lang` the decoder sees -/
def langIn (m : Attrs) : Str := (normRef (langOut m)).getD []

theorem frameRate_toList : "frameRate".toList = ['f', 'r', 'a', 'm', 'e', 'R', 'a', 't', 'e'] := by rfl
theorem tickRate_toList : "tickRate".toList = ['t', 'i', 'c', 'k', 'R', 'a', 't', 'e'] := by rfl
theorem lang_toList : "lang".toList = ['l', 'a', 'n', 'g'] := by rfl

theorem lastAttr_cons_ne {k : Str} {nm : String} (v : Str) (a : List (Str × Str)) (acc : Str) (h : localName k ≠ nm.toList) :
    foldl (fun acc kv => if localName kv.1 = nm.toList then kv.2 else acc) acc ((k, v) :: a)
      = foldl (fun acc kv => if localName kv.1 = nm.toList then kv.2 else acc) acc a := by
  rw [foldl_cons, if_neg h]

theorem lastAttr_cons_eq {k : Str} {nm : String} (v : Str) (a : List (Str × Str)) (acc : Str) (h : localName k = nm.toList) :
    foldl (fun acc kv => if localName kv.1 = nm.toList then kv.2 else acc) acc ((k, v) :: a)
      = foldl (fun acc kv => if localName kv.1 = nm.toList then kv.2 else acc) v a := by
  rw [foldl_cons, if_pos h]

theorem name_ne {k : Str} {nm : String} {lk ln : Str} (hk : localName k = lk) (hn : nm.toList = ln) (hne : lk ≠ ln) :
    localName k ≠ nm.toList := by
  rw [hk, hn]; exact hne

theorem root_fields_gen (u1 u2 u3 : Str) (lo : Option Str) :
    lastAttr ([("xmlns".toList, u1)] ++ optAttr "xml:lang" lo ++ [("xmlns:ttm".toList, u2), ("xmlns:tts".toList, u3)]) "frameRate" = [] ∧
    lastAttr ([("xmlns".toList, u1)] ++ optAttr "xml:lang" lo ++ [("xmlns:ttm".toList, u2), ("xmlns:tts".toList, u3)]) "tickRate" = [] ∧
    lastAttr ([("xmlns".toList, u1)] ++ optAttr "xml:lang" lo ++ [("xmlns:ttm".toList, u2), ("xmlns:tts".toList, u3)]) "lang" = (normRef lo).getD [] := by
  rw [optAttr_norm]
  unfold lastAttr
  cases normRef lo with
  | none =>
    refine ⟨?_, ?_, ?_⟩
    · show foldl _ [] [("xmlns".toList, u1), ("xmlns:ttm".toList, u2), ("xmlns:tts".toList, u3)] = _
      rw [lastAttr_cons_ne _ _ _ (name_ne ln_xmlns frameRate_toList (by decide)),
        lastAttr_cons_ne _ _ _ (name_ne ln_xmlnsttm frameRate_toList (by decide)),
        lastAttr_cons_ne _ _ _ (name_ne ln_xmlnstts frameRate_toList (by decide))]
      rfl
    · show foldl _ [] [("xmlns".toList, u1), ("xmlns:ttm".toList, u2), ("xmlns:tts".toList, u3)] = _
      rw [lastAttr_cons_ne _ _ _ (name_ne ln_xmlns tickRate_toList (by decide)),
        lastAttr_cons_ne _ _ _ (name_ne ln_xmlnsttm tickRate_toList (by decide)),
        lastAttr_cons_ne _ _ _ (name_ne ln_xmlnstts tickRate_toList (by decide))]
      rfl
    · show foldl _ [] [("xmlns".toList, u1), ("xmlns:ttm".toList, u2), ("xmlns:tts".toList, u3)] = _
      rw [lastAttr_cons_ne _ _ _ (name_ne ln_xmlns lang_toList (by decide)),
        lastAttr_cons_ne _ _ _ (name_ne ln_xmlnsttm lang_toList (by decide)),
        lastAttr_cons_ne _ _ _ (name_ne ln_xmlnstts lang_toList (by decide))]
      rfl
  | some v =>
    refine ⟨?_, ?_, ?_⟩
    · show foldl _ [] [("xmlns".toList, u1), ("xml:lang".toList, v), ("xmlns:ttm".toList, u2), ("xmlns:tts".toList, u3)] = _
      rw [lastAttr_cons_ne _ _ _ (name_ne ln_xmlns frameRate_toList (by decide)),
        lastAttr_cons_ne _ _ _ (name_ne ln_xmllang frameRate_toList (by decide)),
        lastAttr_cons_ne _ _ _ (name_ne ln_xmlnsttm frameRate_toList (by decide)),
        lastAttr_cons_ne _ _ _ (name_ne ln_xmlnstts frameRate_toList (by decide))]
      rfl
    · show foldl _ [] [("xmlns".toList, u1), ("xml:lang".toList, v), ("xmlns:ttm".toList, u2), ("xmlns:tts".toList, u3)] = _
      rw [lastAttr_cons_ne _ _ _ (name_ne ln_xmlns tickRate_toList (by decide)),
        lastAttr_cons_ne _ _ _ (name_ne ln_xmllang tickRate_toList (by decide)),
        lastAttr_cons_ne _ _ _ (name_ne ln_xmlnsttm tickRate_toList (by decide)),
        lastAttr_cons_ne _ _ _ (name_ne ln_xmlnstts tickRate_toList (by decide))]
      rfl
    · show foldl _ [] [("xmlns".toList, u1), ("xml:lang".toList, v), ("xmlns:ttm".toList, u2), ("xmlns:tts".toList, u3)] = _
      rw [lastAttr_cons_ne _ _ _ (name_ne ln_xmlns lang_toList (by decide)),
        lastAttr_cons_eq _ _ _ (ln_xmllang.trans lang_toList.symm),
        lastAttr_cons_ne _ _ _ (name_ne ln_xmlnsttm lang_toList (by decide)),
        lastAttr_cons_ne _ _ _ (name_ne ln_xmlnstts lang_toList (by decide))]
      rfl

theorem rootAttrs_fields (m : Attrs) :
    lastAttr (rootAttrs m) "frameRate" = [] ∧ lastAttr (rootAttrs m) "tickRate" = [] ∧
    lastAttr (rootAttrs m) "lang" = langIn m :=
  root_fields_gen _ _ _ (langOut m)

theorem run_root (ix : List XTok → Str) (m : Attrs) :
    run ix [.start "tt".toList (rootAttrs m), .start "head".toList []] {}
      = some (mkSt pHead (langIn m) [] [] [] [] [] [] none) := by
  obtain ⟨h1, h2, h3⟩ := rootAttrs_fields m
  have hp : parseIntAttr [] = some 0 := by decide
  have hc : ctxOf pTT = .root := by decide
  have s1 : step ix {} (.start "tt".toList (rootAttrs m)) = some (mkSt pTT (langIn m) [] [] [] [] [] [] none) := by
    simp [step, lnc_tt, hc, h1, h2, h3, hp, mkSt]
  rw [run, s1]
  simp only [run]
  rw [step_open ix _ _ _ _ _ _ _ [] ln_head (by simp) (by decide)]

/-! ### metadata -/

section metaSec
variable (ix : List XTok → Str) (lang : Str) (styles regions : List InDef) (subs : List InSub)

theorem run_copyright (title copyright buf s : Str) :
    run ix (elemText "ttm:copyright" s) (mkSt pMeta lang title copyright buf styles regions subs none)
      = some (mkSt pMeta lang title (if s.isEmpty then copyright else s) (if s.isEmpty then buf else s)
          styles regions subs none) := by
  have hc : ctxOf (['c', 'o', 'p', 'y', 'r', 'i', 'g', 'h', 't'] :: pMeta) = .copyright := by decide
  unfold elemText
  by_cases h : s.isEmpty = true
  · simp [h, run]
  · simp [h, run, step, mkSt, lnc_copyright, hc]

theorem run_title (title copyright buf s : Str) :
    run ix (elemText "ttm:title" s) (mkSt pMeta lang title copyright buf styles regions subs none)
      = some (mkSt pMeta lang (if s.isEmpty then title else s) copyright (if s.isEmpty then buf else s)
          styles regions subs none) := by
  have hc : ctxOf (['t', 'i', 't', 'l', 'e'] :: pMeta) = .title := by decide
  unfold elemText
  by_cases h : s.isEmpty = true
  · simp [h, run]
  · simp [h, run, step, mkSt, lnc_title, hc]

theorem ite_empty (s : Str) : (if s.isEmpty then [] else s) = s := by
  cases s <;> rfl

/-- the `<metadata>` element: copyright and title are stored -/
theorem run_metadata (c t : Str) :
    ∃ buf, run ix ([.start "metadata".toList []] ++ elemText "ttm:copyright" c ++ elemText "ttm:title" t
        ++ [.stop "metadata".toList]) (mkSt pHead lang [] [] [] styles regions subs none)
      = some (mkSt pHead lang t c buf styles regions subs none) := by
  refine ⟨if t.isEmpty then (if c.isEmpty then [] else c) else t, ?_⟩
  rw [append_assoc, append_assoc, singleton_append, run,
    step_open ix _ _ _ _ _ _ _ [] ln_metadata (by simp) (by decide)]
  simp only
  rw [run_append_some _ (run_copyright ix lang styles regions subs _ _ _ c),
    run_append_some _ (run_title ix lang styles regions subs _ _ _ t)]
  rw [run, step_close ix _ _ _ _ _ _ _ _ _ (by simp) (by decide) (by decide)]
  simp only [run, ite_empty]

end metaSec

/-! ### `styling` and `layout` -/

section defs
variable (ix : List XTok → Str) (lang title copyright buf : Str)

theorem run_styles (l : List Def) (hok : ∀ d ∈ l, attrsOk d.attrs = true) (regions : List InDef) (subs : List InSub) :
    ∀ styles : List InDef,
      run ix ((l.map (header "style")).flatten) (mkSt pStyling lang title copyright buf styles regions subs none)
        = some (mkSt pStyling lang title copyright buf (styles ++ l.map inDef) regions subs none) := by
  have hc : ctxOf (['s', 't', 'y', 'l', 'e'] :: pStyling) = .style := by decide
  induction l with
  | nil => intro styles; simp [run]
  | cons d l ih =>
    intro styles
    have hd := mkDef_header d (hok d (by simp))
    unfold headerAttrs at hd
    rw [map_cons, flatten_cons, header, cons_append, run]
    have s1 : step ix (mkSt pStyling lang title copyright buf styles regions subs none)
        (.start "style".toList (optAttr "xml:id" (some d.id) ++ optAttr "style" d.ref ++ outAttrs d.attrs))
        = some (mkSt (['s', 't', 'y', 'l', 'e'] :: pStyling) lang title copyright buf (styles ++ [inDef d]) regions subs none) := by
      rw [append_assoc] at hd
      simp [step, mkSt, lnc_style, hc, hd]
    rw [s1]
    simp only [singleton_append, run]
    rw [step_close ix _ _ _ _ _ _ _ _ _ (by simp) (by decide) (by decide)]
    simp only
    rw [ih (fun x hx => hok x (by simp [hx]))]
    simp

theorem run_regions (l : List Def) (hok : ∀ d ∈ l, attrsOk d.attrs = true) (styles : List InDef) (subs : List InSub) :
    ∀ regions : List InDef,
      run ix ((l.map (header "region")).flatten) (mkSt pLayout lang title copyright buf styles regions subs none)
        = some (mkSt pLayout lang title copyright buf styles (regions ++ l.map inDef) subs none) := by
  have hc : ctxOf (['r', 'e', 'g', 'i', 'o', 'n'] :: pLayout) = .region := by decide
  induction l with
  | nil => intro regions; simp [run]
  | cons d l ih =>
    intro regions
    have hd := mkDef_header d (hok d (by simp))
    unfold headerAttrs at hd
    rw [map_cons, flatten_cons, header, cons_append, run]
    have s1 : step ix (mkSt pLayout lang title copyright buf styles regions subs none)
        (.start "region".toList (optAttr "xml:id" (some d.id) ++ optAttr "style" d.ref ++ outAttrs d.attrs))
        = some (mkSt (['r', 'e', 'g', 'i', 'o', 'n'] :: pLayout) lang title copyright buf styles (regions ++ [inDef d]) subs none) := by
      rw [append_assoc] at hd
      simp [step, mkSt, lnc_region, hc, hd]
    rw [s1]
    simp only [singleton_append, run]
    rw [step_close ix _ _ _ _ _ _ _ _ _ (by simp) (by decide) (by decide)]
    simp only
    rw [ih (fun x hx => hok x (by simp [hx]))]
    simp

end defs

/-! ### paragraphs -/

section para
variable (ix : List XTok → Str) (lang title copyright buf : Str) (styles regions : List InDef) (subs : List InSub)

/-- inside a paragraph a childless element (`<span>…</span>`, `<br></br>`) is copied to the paragraph's tokens -/
theorem run_group (p : InSub) (n : Str) (a : List (Str × Str)) (mid : List WTok)
    (hmid : mid = [] ∨ ∃ s, mid = [.text s]) :
    run ix (.start n a :: (mid ++ [.stop n])) (mkSt pPara lang title copyright buf styles regions subs (some p))
      = some (mkSt pPara lang title copyright buf styles regions subs
          (some { p with toks := p.toks ++ (WTok.start n a :: (mid ++ [.stop n])).map rawTok })) := by
  rcases hmid with rfl | ⟨s, rfl⟩
  · simp [run, step, mkSt]
  · simp [run, step, mkSt]

theorem run_span (p : InSub) (li : LItem) :
    run ix (spanOf li) (mkSt pPara lang title copyright buf styles regions subs (some p))
      = some (mkSt pPara lang title copyright buf styles regions subs
          (some { p with toks := p.toks ++ (spanOf li).map rawTok })) := by
  unfold spanOf
  rw [singleton_append]
  apply run_group
  by_cases h : li.text.isEmpty = true
  · left; simp [h]
  · right; exact ⟨li.text, by simp [h]⟩

theorem run_br (p : InSub) :
    run ix brTok (mkSt pPara lang title copyright buf styles regions subs (some p))
      = some (mkSt pPara lang title copyright buf styles regions subs
          (some { p with toks := p.toks ++ brTok.map rawTok })) :=
  run_group ix lang title copyright buf styles regions subs p "br".toList [] [] (Or.inl rfl)

theorem run_spans (l : List LItem) :
    ∀ p : InSub, run ix ((l.map spanOf).flatten) (mkSt pPara lang title copyright buf styles regions subs (some p))
      = some (mkSt pPara lang title copyright buf styles regions subs
          (some { p with toks := p.toks ++ ((l.map spanOf).flatten).map rawTok })) := by
  induction l with
  | nil => intro p; simp [run]
  | cons li l ih =>
    intro p
    rw [map_cons, flatten_cons, run_append_some _ (run_span ix lang title copyright buf styles regions subs p li), ih]
    simp

theorem run_bodyOf (ls : List Line) :
    ∀ p : InSub, run ix (bodyOf ls) (mkSt pPara lang title copyright buf styles regions subs (some p))
      = some (mkSt pPara lang title copyright buf styles regions subs
          (some { p with toks := p.toks ++ (bodyOf ls).map rawTok })) := by
  induction ls with
  | nil => intro p; simp [run, bodyOf]
  | cons l ls ih =>
    cases ls with
    | nil => intro p; exact run_spans ix lang title copyright buf styles regions subs l.items p
    | cons l' ls =>
      intro p
      rw [bodyOf, append_assoc, spansW,
        run_append_some _ (run_spans ix lang title copyright buf styles regions subs l.items p),
        run_append_some _ (run_br ix lang title copyright buf styles regions subs _), ih]
      simp

/-- the `TTMLInSubtitle` of a cue: its start tag, and the tokens of its re-tokenised children -/
def inSub (it : CItem) : InSub :=
  { inSub0 it with inner := ix ((bodyW it.lines).map rawTok), stripped := stripIndent (ix ((bodyW it.lines).map rawTok)),
                   toks := pToks it.lines }

theorem subToks_eq (it : CItem) :
    subToks it = WTok.start "p".toList (pAttrs it) :: (bodyW it.lines ++ [.stop "p".toList]) := by
  simp [subToks, pAttrs, bodyW]

theorem run_sub (it : CItem) (hok : attrsOk it.attrs = true) :
    run ix (subToks it) (mkSt pDiv lang title copyright buf styles regions subs none)
      = some (mkSt pDiv lang title copyright buf styles regions (subs ++ [inSub ix it]) none) := by
  have hc : ctxOf pPara = .para := by decide
  rw [subToks_eq, run]
  have s1 : step ix (mkSt pDiv lang title copyright buf styles regions subs none) (.start "p".toList (pAttrs it))
      = some (mkSt pPara lang title copyright buf styles regions subs (some (inSub0 it))) := by
    simp [step, mkSt, lnc_p, hc, mkSub_pAttrs it hok]
  rw [s1]
  simp only
  rw [bodyW_eq, run_append_some _ (run_bodyOf ix lang title copyright buf styles regions subs it.lines _)]
  simp [run, step, mkSt, inSub, inSub0, pToks, bodyW_eq]

theorem run_subs (l : List CItem) (hok : ∀ it ∈ l, attrsOk it.attrs = true) :
    ∀ subs : List InSub, run ix ((l.map subToks).flatten) (mkSt pDiv lang title copyright buf styles regions subs none)
      = some (mkSt pDiv lang title copyright buf styles regions (subs ++ l.map (inSub ix)) none) := by
  induction l with
  | nil => intro subs; simp [run]
  | cons it l ih =>
    intro subs
    rw [map_cons, flatten_cons,
      run_append_some _ (run_sub ix lang title copyright buf styles regions subs it (hok it (by simp))),
      ih (fun x hx => hok x (by simp [hx]))]
    simp

end para

/-! ### the document -/

/-- title and copyright as the writer takes them from the metadata -/
def titleOf (s : Subs) : Str := (kvGet s.metadata "Title").getD []
def copyrightOf (s : Subs) : Str := (kvGet s.metadata "TTMLCopyright").getD []

/-- **what `encoding/xml` hands to `ReadFromTTML` for the document written from `s`** -/
def tinOfSubs (ix : List XTok → Str) (s : Subs) : TIn :=
  { framerate := 0, tickrate := 0, lang := langIn s.metadata, title := titleOf s, copyright := copyrightOf s,
    regions := (sortDefs s.regions).map inDef, styles := (sortDefs s.styles).map inDef,
    subs := s.items.map (inSub ix) }

/-- the `<metadata>` element as `write` emits it -/
def metaToks (s : Subs) : List WTok :=
  if s.metadata.isSome ∧ (copyrightOf s ≠ [] ∨ titleOf s ≠ []) then
    [.start "metadata".toList []] ++ elemText "ttm:copyright" (copyrightOf s) ++ elemText "ttm:title" (titleOf s)
      ++ [.stop "metadata".toList]
  else []

theorem write_eq (s : Subs) (h : s.items.isEmpty = false) :
    write s = some (
      [.start "tt".toList (rootAttrs s.metadata), .start "head".toList []] ++ (metaToks s ++
      (WTok.start "styling".toList [] :: (((sortDefs s.styles).map (header "style")).flatten ++
      (WTok.stop "styling".toList :: WTok.start "layout".toList [] :: (((sortDefs s.regions).map (header "region")).flatten ++
      (WTok.stop "layout".toList :: WTok.stop "head".toList :: WTok.start "body".toList [] :: WTok.start "div".toList [] ::
      ((s.items.map subToks).flatten ++
      [.stop "div".toList, .stop "body".toList, .stop "tt".toList])))))))) := by
  unfold write
  simp only [h, Bool.false_eq_true, ↓reduceIte, metaToks, titleOf, copyrightOf, rootAttrs]
  simp only [append_assoc, cons_append, nil_append]

theorem titles_empty (s : Subs) (h : ¬ (s.metadata.isSome ∧ (copyrightOf s ≠ [] ∨ titleOf s ≠ []))) :
    copyrightOf s = [] ∧ titleOf s = [] := by
  cases hm : s.metadata with
  | none => simp [copyrightOf, titleOf, kvGet, hm]
  | some kv =>
    rw [hm] at h
    simp only [Option.isSome_some, true_and, not_or, Decidable.not_not] at h
    exact h

theorem run_metaToks (ix : List XTok → Str) (s : Subs) (lang : Str) :
    ∃ buf, run ix (metaToks s) (mkSt pHead lang [] [] [] [] [] [] none)
      = some (mkSt pHead lang (titleOf s) (copyrightOf s) buf [] [] [] none) := by
  unfold metaToks
  by_cases h : s.metadata.isSome ∧ (copyrightOf s ≠ [] ∨ titleOf s ≠ [])
  · rw [if_pos h]
    exact run_metadata ix lang [] [] [] _ _
  · rw [if_neg h]
    obtain ⟨h1, h2⟩ := titles_empty s h
    exact ⟨[], by rw [h1, h2]; rfl⟩

/-- representable for the decoder: every `zIndex` in the document is an integer -/
def attrsOkAll (s : Subs) : Bool :=
  s.styles.all (fun d => attrsOk d.attrs) && s.regions.all (fun d => attrsOk d.attrs) &&
  s.items.all (fun it => attrsOk it.attrs)

theorem mem_sortDefs {l : List Def} {d : Def} : d ∈ sortDefs l ↔ d ∈ l :=
  (mergeSort_perm l _).mem_iff

/-- **The contract applied to the writer's output.** -/
theorem unmarshal_write (ix : List XTok → Str) (s : Subs) (hne : s.items.isEmpty = false)
    (hok : attrsOkAll s = true) :
    ∃ w, write s = some w ∧ unmarshal ix w = some (tinOfSubs ix s) := by
  simp only [attrsOkAll, Bool.and_eq_true, all_eq_true] at hok
  obtain ⟨⟨hs, hr⟩, hi⟩ := hok
  refine ⟨_, write_eq s hne, ?_⟩
  obtain ⟨buf, hmeta⟩ := run_metaToks ix s (langIn s.metadata)
  unfold unmarshal
  rw [run_append_some _ (run_root ix s.metadata), run_append_some _ hmeta, run,
    step_open ix _ _ _ _ _ _ _ [] ln_styling (by simp) (by decide)]
  simp only
  rw [run_append_some _ (run_styles ix _ _ _ _ (sortDefs s.styles) (fun d hd => hs d (mem_sortDefs.mp hd)) [] [] [])]
  rw [run, step_close ix _ _ _ _ _ _ _ _ _ (by simp) (by decide) (by decide)]
  simp only
  rw [run, step_open ix _ _ _ _ _ _ _ [] ln_layout (by simp) (by decide)]
  simp only
  rw [run_append_some _ (run_regions ix _ _ _ _ (sortDefs s.regions) (fun d hd => hr d (mem_sortDefs.mp hd)) _ [] [])]
  rw [run, step_close ix _ _ _ _ _ _ _ _ _ (by simp) (by decide) (by decide)]
  simp only
  rw [run, step_close ix _ _ _ _ _ _ _ _ _ (by simp) (by decide) (by decide)]
  simp only
  rw [run, step_open ix _ _ _ _ _ _ _ [] ln_body (by simp) (by decide)]
  simp only
  rw [run, step_open ix _ _ _ _ _ _ _ [] ln_div (by simp) (by decide)]
  simp only
  rw [run_append_some _ (run_subs ix _ _ _ _ _ _ s.items hi [])]
  rw [run, step_close ix _ _ _ _ _ _ _ _ _ (by simp) (by decide) (by decide)]
  simp only
  rw [run, step_close ix _ _ _ _ _ _ _ _ _ (by simp) (by decide) (by decide)]
  have hc : ctxOf pTT = .root := by decide
  simp [run, step, mkSt, tinOf, tinOfSubs, hc]

end TTMLDoc
end Astisub
