import Astisub.Lemmas.SRTSpecLines
import Astisub.Lemmas.SRTSpecTime
import Astisub.Lemmas.SRTSpecRuns

/-!
# Lemmas/SRTSpec — W2: the independent decoder accepts what the writer produces for a representable
cue list, and denotes the same cues

`decode_write : Rep s → (∀ it ∈ s.items, it.lines ≠ []) → SRT.write s = some doc →
  Spec.SRT.decode doc = some (specView s)`
-/

namespace Astisub
namespace SRTDoc
open Go SRT

/-- what the independent decoder should see in a cue / cue list (`viewRun` is in `SRTSpecRuns`) -/
def viewItem (it : CItem) : Spec.SRT.GCue :=
  { startMs := (it.startAt / 1000000).toNat, endMs := (it.endAt / 1000000).toNat,
    lines := it.lines.map fun l => l.items.map viewRun }

def specView (s : Subs) : List Spec.SRT.GCue := s.items.map viewItem

/-! ## consequences of `RepItem` / `Rep` -/

theorem repItem_bounds {it : CItem} (h : RepItem it = true) :
    0 ≤ it.startAt ∧ it.startAt < 360000000000000 ∧ 0 ≤ it.endAt ∧ it.endAt < 360000000000000 := by
  simp only [RepItem, hundredHours, Bool.and_eq_true] at h
  exact ⟨of_decide_eq_true h.1.1.1.1, of_decide_eq_true h.1.1.1.2, of_decide_eq_true h.1.1.2, of_decide_eq_true h.1.2⟩

theorem repItem_lines_spec {it : CItem} (h : RepItem it = true) : ∀ l ∈ it.lines, RepLine l = true := by
  simp only [RepItem, Bool.and_eq_true] at h
  exact List.all_eq_true.mp h.2

theorem rep_items_ne {s : Subs} (h : Rep s = true) : s.items ≠ [] := by
  simp only [Rep, Bool.and_eq_true] at h
  intro e; rw [e] at h; simp at h

theorem rep_items {s : Subs} (h : Rep s = true) : ∀ it ∈ s.items, RepItem it = true := by
  simp only [Rep, Bool.and_eq_true] at h
  exact List.all_eq_true.mp h.2

/-! ## the lines of a block -/

theorem timingStr_eq_spec (it : CItem) : timingStr it = SRTTiming.timingLine it.startAt it.endAt := rfl

theorem digitStr_no_char {x : Str} (h : DigitStr x) (c : Char) (hc : isSpace c = true) : c ∉ x := by
  intro hm
  have := h.noSpace c hm
  rw [hc] at this
  exact absurd this (by simp)

/-- every line of a written block is non-empty, already trimmed, and free of line breaks -/
theorem blockLines_good (k : Nat) (it : CItem) (h : RepItem it = true) :
    ∀ l ∈ blockLines k it, (trimSpace l = l ∧ l ≠ []) ∧ ('\n' ∉ l ∧ '\r' ∉ l) := by
  obtain ⟨hs0, hs1, he0, he1⟩ := repItem_bounds h
  intro l hl
  simp only [blockLines, List.mem_cons, List.mem_map] at hl
  rcases hl with rfl | rfl | ⟨ln, hln, rfl⟩
  · have hd := itoaNat_digits (k + 1)
    exact ⟨⟨trimSpace_id hd.noSpace, itoaNat_ne_nil _⟩,
      digitStr_no_char hd _ (by decide), digitStr_no_char hd _ (by decide)⟩
  · rw [timingStr_eq_spec]
    exact ⟨⟨SRTTiming.trimSpace_timingLine _ _ hs0 hs1 he0 he1, SRTTiming.timingLine_ne_nil _ _ hs0 hs1⟩,
      SRTTiming.no_newline_timingLine _ _ hs0 hs1 he0 he1, SRTTiming.no_cr_timingLine _ _ hs0 hs1 he0 he1⟩
  · have hr := repItem_lines_spec h ln hln
    exact ⟨⟨trimSpace_lineStr ln hr, lineStr_ne_nil ln hr⟩,
      lineStr_no_break ln hr _ (Or.inl rfl), lineStr_no_break ln hr _ (Or.inr rfl)⟩

theorem linesFrom_no_break (k : Nat) (items : List CItem) (h : ∀ it ∈ items, RepItem it = true) :
    ∀ l ∈ linesFrom k items, '\n' ∉ l ∧ '\r' ∉ l := by
  induction items generalizing k with
  | nil => intro l hl; simp [linesFrom] at hl
  | cons it rest ih =>
    intro l hl
    simp only [linesFrom, List.mem_append, List.mem_cons] at hl
    rcases hl with hl | rfl | hl
    · exact (blockLines_good k it (h it (by simp)) l hl).2
    · simp
    · exact ih (k + 1) (fun x hx => h x (by simp [hx])) l hl

/-! ## one block -/

/-- **Block.** index line, timing line, text lines → the cue -/
theorem decodeBlock_blockLines (k : Nat) (it : CItem) (h : RepItem it = true) (hl : it.lines ≠ []) :
    Spec.SRT.decodeBlock (blockLines k it) = some (viewItem it) := by
  obtain ⟨hs0, hs1, he0, he1⟩ := repItem_bounds h
  have hdash : '-' ∉ itoaNat (k + 1) := digitStr_no_dash (itoaNat_digits (k + 1))
  have h1 : Spec.SRT.timing (itoaNat (k + 1)) = none := timing_no_dash _ hdash
  have h2 : Go.contains "-->".toList (itoaNat (k + 1)) = false := contains_arrow_no_dash _ hdash
  have h3 := timing_timingStr it hs0 hs1 he0 he1
  have h4 : (it.lines.map lineStr).isEmpty = false := by
    cases hi : it.lines with
    | nil => exact absurd hi hl
    | cons a b => rfl
  have h5 : (it.lines.map lineStr).any (Go.contains "-->".toList) = false := by
    rw [List.any_eq_false]
    intro x hx
    obtain ⟨ln, hln, rfl⟩ := List.mem_map.mp hx
    have := lineStr_no_arrow ln (repItem_lines_spec h ln hln)
    simpa [arrow] using this
  have h6 := cueLines_lines it.lines (repItem_lines_spec h)
  unfold Spec.SRT.decodeBlock blockLines
  simp only [h1, h2, h3, h4, h5, h6, Bool.false_eq_true, ↓reduceIte, Option.map_some, Bool.or_self]
  rfl

theorem mapM_blockList (k : Nat) (items : List CItem) (h : ∀ it ∈ items, RepItem it = true)
    (hl : ∀ it ∈ items, it.lines ≠ []) :
    Spec.SRT.mapM Spec.SRT.decodeBlock (blockList k items) = some (items.map viewItem) := by
  induction items generalizing k with
  | nil => rfl
  | cons it rest ih =>
    simp only [blockList, Spec.SRT.mapM, decodeBlock_blockLines k it (h it (by simp)) (hl it (by simp)),
      ih (k + 1) (fun x hx => h x (by simp [hx])) (fun x hx => hl x (by simp [hx])), List.map_cons]

/-! ## the document -/

/-- **W2.** the independent decoder accepts what the writer produces for a representable cue list
    (every cue with at least one text line), and denotes the same cues -/
theorem decode_write (s : Subs) (h : Rep s = true) (hl : ∀ it ∈ s.items, it.lines ≠ []) (doc : Str)
    (hw : SRT.write s = some doc) : Spec.SRT.decode doc = some (specView s) := by
  have hne := rep_items_ne h
  have hit := rep_items h
  rw [write_eq_lines s hne] at hw
  injection hw with hw
  subst hw
  obtain ⟨init, hinit⟩ := linesFrom_last 0 s.items hne
  have hbreak : ∀ l ∈ init, '\n' ∉ l ∧ '\r' ∉ l := by
    intro l hl'
    exact linesFrom_no_break 0 s.items hit l (by rw [hinit]; simp [hl'])
  have hdoc : bom ++ (unlines (linesFrom 0 s.items)).dropLast = Char.ofNat 0xFEFF :: unlines init := by
    rw [hinit, unlines_snoc_nil_dropLast]; rfl
  unfold Spec.SRT.decode
  rw [hdoc]
  simp only [↓reduceIte]
  rw [splitLines_unlines init hbreak, ← blocks_snoc_blank init, ← hinit]
  unfold Spec.SRT.blocks
  rw [blocks_linesFrom 0 s.items (fun j it l hl' hmem => (blockLines_good j it (hit it hmem) l hl').1)]
  exact mapM_blockList 0 s.items hit hl

end SRTDoc
end Astisub
