import Astisub.Lemmas.VTT2Blocks

/-!
# Lemmas/VTT2Region — a written region definition line through the reader
-/

namespace Astisub
namespace VTT
open Go List

/-- a value of a region definition that survives: non-empty, no white space, no `=` -/
def regValOk (v : Str) : Bool := v != [] && v.all fun c => !(isSpace c || c == '=')
def regOptOk (o : Option Str) : Bool := match o with | none => true | some v => regValOk v

/-- the `lines=` value is the canonical decimal of a non-zero `int` (the Go field is an `int`,
    0 meaning unset) -/
def linesOptOk (o : Option Str) : Bool :=
  match o with
  | none => true
  | some v => match atoi v with
    | some n => n != 0 && itoa n == v
    | none => false

example : regValOk "10%,90%".toList = true ∧ linesOptOk (some "3".toList) = true ∧ linesOptOk (some "03".toList) = false := by decide

theorem regValOk_spec {v : Str} (h : regValOk v = true) : v ≠ [] ∧ ∀ c ∈ v, isSpace c = false ∧ c ≠ '=' := by
  simp only [regValOk, Bool.and_eq_true, bne_iff_ne, ne_eq, List.all_eq_true, Bool.not_eq_true',
    Bool.or_eq_false_iff, beq_eq_false_iff_ne] at h
  exact ⟨h.1, fun c hc => h.2 c hc⟩

theorem numChar_ne_eq {c : Char} (h : numChar c = true) : c ≠ '=' := by
  intro e; subst e; exact absurd h (by decide)

theorem linesOptOk_spec {v : Str} (h : linesOptOk (some v) = true) :
    ∃ n : Int, atoi v = some n ∧ n ≠ 0 ∧ itoa n = v ∧ regValOk v = true := by
  simp only [linesOptOk] at h
  cases ha : atoi v with
  | none => rw [ha] at h; cases h
  | some n =>
    rw [ha] at h
    simp only [Bool.and_eq_true, bne_iff_ne, ne_eq, beq_iff_eq] at h
    refine ⟨n, rfl, h.1, h.2, ?_⟩
    rw [← h.2]
    simp only [regValOk, Bool.and_eq_true, bne_iff_ne, ne_eq, List.all_eq_true, Bool.not_eq_true',
      Bool.or_eq_false_iff, beq_eq_false_iff_ne]
    exact ⟨itoa_ne_nil n, fun c hc => ⟨numChar_not_space (numChar_itoa n c hc), numChar_ne_eq (numChar_itoa n c hc)⟩⟩

/-- a region setting as the writer resolves it -/
def regSetting (s : Subs) (d : Def) (k : String) : Option Str := fallback d.attrs (styleAttrs s d.ref) k

/-- a region definition that is read back exactly -/
def regionOk (s : Subs) (d : Def) : Bool :=
  regValOk d.id && linesOptOk (regSetting s d "WebVTTLines") && regOptOk (regSetting s d "WebVTTRegionAnchor") &&
  regOptOk (regSetting s d "WebVTTScroll") && regOptOk (regSetting s d "WebVTTViewportAnchor") &&
  regOptOk (regSetting s d "WebVTTWidth")

/-- the region the reader builds from the written definition -/
def readRegion (s : Subs) (d : Def) : Def :=
  { id := d.id,
    attrs := some (mkAttrs [("WebVTTLines", regSetting s d "WebVTTLines"), ("WebVTTRegionAnchor", regSetting s d "WebVTTRegionAnchor"),
      ("WebVTTScroll", regSetting s d "WebVTTScroll"), ("WebVTTViewportAnchor", regSetting s d "WebVTTViewportAnchor"),
      ("WebVTTWidth", regSetting s d "WebVTTWidth")]) }

/-! ### splitting the line -/

theorem splitC_spaced (ws : List Str) : ∀ (w : Str), ' ' ∉ w → (∀ x ∈ ws, ' ' ∉ x) →
    splitC ' ' (w ++ spaced ws) = w :: ws := by
  induction ws with
  | nil => intro w hw _; simp [spaced_nil, splitC_not_mem hw]
  | cons x xs ih =>
    intro w hw hws
    rw [spaced_cons, show w ++ (' ' :: x ++ spaced xs) = w ++ ' ' :: (x ++ spaced xs) by simp,
      splitC_append _ hw, ih x (hws x (by simp)) (fun y hy => hws y (by simp [hy]))]

theorem splitC_kv (c : Char) (key v : Str) (hk : c ∉ key) (hv : c ∉ v) : splitC c (key ++ c :: v) = [key, v] := by
  rw [splitC_append _ hk, splitC_not_mem hv]

theorem regionParts_cons (key v : Str) (ps : List Str) (r : RegAcc) (hk : '=' ∉ key) (hv : '=' ∉ v) :
    regionParts ((key ++ '=' :: v) :: ps) r =
      (if key = "id".toList then regionParts ps { r with id := v }
       else if key = "lines".toList then
         match atoi v with
         | some n => regionParts ps { r with lines := n }
         | none => none
       else if key = "regionanchor".toList then regionParts ps { r with anchor := v }
       else if key = "scroll".toList then regionParts ps { r with scroll := v }
       else if key = "viewportanchor".toList then regionParts ps { r with viewport := v }
       else if key = "width".toList then regionParts ps { r with width := v }
       else regionParts ps r) := by
  rw [regionParts, splitC_kv '=' key v hk hv]
  rfl

theorem regVal_noEq {v : Str} (h : regValOk v = true) : '=' ∉ v :=
  fun hc => ((regValOk_spec h).2 _ hc).2 rfl

theorem regionParts_id (v : Str) (hv : regValOk v = true) (ps : List Str) (r : RegAcc) :
    regionParts (("id=".toList ++ v) :: ps) r = regionParts ps { r with id := v } := by
  show regionParts (("id".toList ++ '=' :: v) :: ps) r = _
  rw [regionParts_cons _ _ _ _ (by decide) (regVal_noEq hv)]
  rfl

/-- the number the reader holds for a `lines=` value -/
def linesVal (o : Option Str) (dflt : Int) : Int :=
  match o with
  | some v => (atoi v).getD 0
  | none => dflt

theorem regionParts_lines (o : Option Str) (ho : linesOptOk o = true) (ps : List Str) (r : RegAcc) :
    regionParts (word "lines=" o ++ ps) r = regionParts ps { r with lines := linesVal o r.lines } := by
  cases o with
  | none => rfl
  | some v =>
    obtain ⟨n, hn, _, _, hv⟩ := linesOptOk_spec ho
    show regionParts (("lines".toList ++ '=' :: v) :: ps) r = _
    rw [regionParts_cons _ _ _ _ (by decide) (regVal_noEq hv)]
    simp only [linesVal, hn]
    rfl

theorem regionParts_anchor (o : Option Str) (ho : regOptOk o = true) (ps : List Str) (r : RegAcc) :
    regionParts (word "regionanchor=" o ++ ps) r = regionParts ps { r with anchor := o.getD r.anchor } := by
  cases o with
  | none => rfl
  | some v =>
    show regionParts (("regionanchor".toList ++ '=' :: v) :: ps) r = _
    rw [regionParts_cons _ _ _ _ (by decide) (regVal_noEq ho)]
    rfl

theorem regionParts_scroll (o : Option Str) (ho : regOptOk o = true) (ps : List Str) (r : RegAcc) :
    regionParts (word "scroll=" o ++ ps) r = regionParts ps { r with scroll := o.getD r.scroll } := by
  cases o with
  | none => rfl
  | some v =>
    show regionParts (("scroll".toList ++ '=' :: v) :: ps) r = _
    rw [regionParts_cons _ _ _ _ (by decide) (regVal_noEq ho)]
    rfl

theorem regionParts_viewport (o : Option Str) (ho : regOptOk o = true) (ps : List Str) (r : RegAcc) :
    regionParts (word "viewportanchor=" o ++ ps) r = regionParts ps { r with viewport := o.getD r.viewport } := by
  cases o with
  | none => rfl
  | some v =>
    show regionParts (("viewportanchor".toList ++ '=' :: v) :: ps) r = _
    rw [regionParts_cons _ _ _ _ (by decide) (regVal_noEq ho)]
    rfl

theorem regionParts_width (o : Option Str) (ho : regOptOk o = true) (ps : List Str) (r : RegAcc) :
    regionParts (word "width=" o ++ ps) r = regionParts ps { r with width := o.getD r.width } := by
  cases o with
  | none => rfl
  | some v =>
    show regionParts (("width".toList ++ '=' :: v) :: ps) r = _
    rw [regionParts_cons _ _ _ _ (by decide) (regVal_noEq ho)]
    rfl

/-- the words of a region definition after `Region:` -/
def regWords (id : Str) (li an sc vp wi : Option Str) : List Str :=
  ("id=".toList ++ id) :: (word "lines=" li ++ (word "regionanchor=" an ++ (word "scroll=" sc
    ++ (word "viewportanchor=" vp ++ (word "width=" wi ++ [])))))

theorem regionParts_all (id : Str) (li an sc vp wi : Option Str) (hid : regValOk id = true)
    (hli : linesOptOk li = true) (han : regOptOk an = true) (hsc : regOptOk sc = true)
    (hvp : regOptOk vp = true) (hwi : regOptOk wi = true) :
    regionParts (regWords id li an sc vp wi) {}
      = some { id := id, lines := linesVal li 0, anchor := an.getD [],
               scroll := sc.getD [], viewport := vp.getD [], width := wi.getD [] } := by
  unfold regWords
  rw [regionParts_id _ hid, regionParts_lines _ hli, regionParts_anchor _ han, regionParts_scroll _ hsc,
    regionParts_viewport _ hvp, regionParts_width _ hwi]
  rfl

/-! ### the step -/

theorem regionLine_eq (s : Subs) (d : Def) :
    regionLine s d = "Region:".toList ++ spaced (regWords d.id (regSetting s d "WebVTTLines")
      (regSetting s d "WebVTTRegionAnchor") (regSetting s d "WebVTTScroll") (regSetting s d "WebVTTViewportAnchor")
      (regSetting s d "WebVTTWidth")) := by
  unfold regionLine regWords regSetting
  simp only [setting_eq, spaced_cons, spaced_append, List.append_assoc, List.append_nil]
  rfl

theorem regWord_ok (label : String) (hl : labelOk label = true) (o : Option Str) (ho : regOptOk o = true) :
    ∀ w ∈ word label o, WordOk w := by
  intro w hw
  cases o with
  | none => simp [word] at hw
  | some v =>
    simp only [word, List.mem_singleton] at hw
    subst hw
    obtain ⟨hne, hv⟩ := regValOk_spec ho
    simp only [labelOk, List.all_eq_true, Bool.not_eq_true', Bool.or_eq_false_iff, beq_eq_false_iff_ne] at hl
    refine ⟨by simp [hne], ?_⟩
    intro c hc
    rcases List.mem_append.mp hc with hc | hc
    · exact (hl c hc).1
    · exact (hv c hc).1

theorem linesOpt_reg {o : Option Str} (h : linesOptOk o = true) : regOptOk o = true := by
  cases o with
  | none => rfl
  | some v => obtain ⟨_, _, _, _, hv⟩ := linesOptOk_spec h; exact hv

theorem regWords_ok (id : Str) (li an sc vp wi : Option Str) (hid : regValOk id = true)
    (hli : linesOptOk li = true) (han : regOptOk an = true) (hsc : regOptOk sc = true)
    (hvp : regOptOk vp = true) (hwi : regOptOk wi = true) :
    ∀ w ∈ regWords id li an sc vp wi, WordOk w := by
  intro w hw
  simp only [regWords, List.mem_cons, List.mem_append, List.not_mem_nil, or_false] at hw
  rcases hw with rfl | hw | hw | hw | hw | hw
  · obtain ⟨hne, hv⟩ := regValOk_spec hid
    refine ⟨by simp, ?_⟩
    intro c hc
    rcases List.mem_append.mp hc with hc | hc
    · exact (show ∀ c ∈ "id=".toList, isSpace c = false by decide) c hc
    · exact (hv c hc).1
  · exact regWord_ok _ (by decide) _ (linesOpt_reg hli) w hw
  · exact regWord_ok _ (by decide) _ han w hw
  · exact regWord_ok _ (by decide) _ hsc w hw
  · exact regWord_ok _ (by decide) _ hvp w hw
  · exact regWord_ok _ (by decide) _ hwi w hw

theorem optStr_getD_reg (o : Option Str) (ho : regOptOk o = true) : optStr (o.getD []) = o := by
  cases o with
  | none => rfl
  | some v =>
    have := (regValOk_spec ho).1
    cases v with
    | nil => exact absurd rfl this
    | cons a b => rfl

theorem lines_back (o : Option Str) (ho : linesOptOk o = true) :
    (if linesVal o 0 = 0 then none else some (itoa (linesVal o 0))) = o := by
  cases o with
  | none => rfl
  | some v =>
    obtain ⟨n, hn, hn0, hit, _⟩ := linesOptOk_spec ho
    simp [linesVal, hn, hn0, hit]

theorem noSpace_ne_blank {w : Str} (h : ∀ c ∈ w, isSpace c = false) : ' ' ∉ w := by
  intro hc
  exact absurd (h _ hc) (by decide)

/-- **Region definition.** outside any block the written definition line defines (or redefines)
    the region with exactly the attributes written -/
theorem step_region (s : Subs) (d : Def) (hok : regionOk s d = true) (st : St) (hb : st.block = .none) :
    step st (some (regionLine s d)) = .ok { st with regions := setDef st.regions (readRegion s d) } := by
  simp only [regionOk, Bool.and_eq_true] at hok
  obtain ⟨⟨⟨⟨⟨hid, hli⟩, han⟩, hsc⟩, hvp⟩, hwi⟩ := hok
  have hws := regWords_ok d.id _ _ _ _ _ hid hli han hsc hvp hwi
  have hparts := regionParts_all d.id _ _ _ _ _ hid hli han hsc hvp hwi
  rw [regionLine_eq]
  generalize hW : regWords d.id (regSetting s d "WebVTTLines") (regSetting s d "WebVTTRegionAnchor")
    (regSetting s d "WebVTTScroll") (regSetting s d "WebVTTViewportAnchor") (regSetting s d "WebVTTWidth") = W at hws hparts
  have hWne : W ≠ [] := by rw [← hW]; simp [regWords]
  have htrim : trimSpace ("Region:".toList ++ spaced W) = "Region:".toList ++ spaced W := by
    have := trimSpace_line 'R' "egion:".toList [] [] W (by decide) hWne hws
    simpa using this
  obtain ⟨w0, W', rfl⟩ : ∃ w0 W', W = w0 :: W' := by
    cases W with
    | nil => exact absurd rfl hWne
    | cons a b => exact ⟨a, b, rfl⟩
  have hline : "Region:".toList ++ spaced (w0 :: W') = "Region: ".toList ++ (w0 ++ spaced W') := by
    rw [spaced_cons]; rfl
  have hsplit : splitC ' ' (w0 ++ spaced W') = w0 :: W' :=
    splitC_spaced W' w0 (noSpace_ne_blank (hws w0 (by simp)).2)
      (fun x hx => noSpace_ne_blank (hws x (by simp [hx])).2)
  have hR : 'R' :: 'e' :: 'g' :: 'i' :: 'o' :: 'n' :: ':' :: ' ' :: (w0 ++ spaced W') = "Region: ".toList ++ (w0 ++ spaced W') := rfl
  have t1 : ("Region: ".toList ++ (w0 ++ spaced W') = "NOTE".toList) = False := by
    apply eq_false; intro e; exact absurd (List.cons.inj e).1 (by decide)
  have t2 : hasPrefix "NOTE ".toList ("Region: ".toList ++ (w0 ++ spaced W')) = false :=
    hasPrefix_ne _ _ (by decide)
  have t3 : ("Region: ".toList ++ (w0 ++ spaced W') = ([] : Str)) = False := by
    apply eq_false; intro e; cases e
  have t4 : hasPrefix "Region: ".toList ("Region: ".toList ++ (w0 ++ spaced W')) = true := by
    unfold hasPrefix; rw [dropPrefix?_append]; rfl
  have t5 : trimPrefix "Region: ".toList ("Region: ".toList ++ (w0 ++ spaced W')) = w0 ++ spaced W' := by
    unfold trimPrefix; rw [dropPrefix?_append]; rfl
  rw [hline] at htrim ⊢
  unfold step
  simp only [htrim, t1, t2, t3, t4, t5, hsplit, hparts, hb, Bool.or_self, Bool.and_false, Bool.false_eq_true,
    ↓reduceIte, reduceCtorEq, decide_false, ne_eq, not_false_eq_true, decide_true, Bool.and_self]
  congr 2
  simp only [regionDef, readRegion, lines_back _ hli, optStr_getD_reg _ han, optStr_getD_reg _ hsc,
    optStr_getD_reg _ hvp, optStr_getD_reg _ hwi]

end VTT
end Astisub
