import Astisub.Lemmas.STLTti

/-!
# Lemmas/STLGsi — the GSI block: the fields of `gsiBytes` one by one, and what `parseGSI` reads in them
-/

namespace Astisub
namespace C05
open Go STL

/-! ## slicing a concatenation of parts -/

theorem slice_mid (a x c : Bytes) (lo hi : Nat) (hlo : a.length = lo) (hhi : lo + x.length = hi) :
    slice (a ++ (x ++ c)) lo hi = x := by
  unfold slice
  subst hlo
  rw [List.drop_left]
  have : hi - a.length = x.length := by omega
  rw [this, List.take_left]

theorem slice_flatten_idx (parts : List Bytes) (k lo hi : Nat) (hk : k < parts.length)
    (hlo : ((parts.take k).map List.length).sum = lo) (hhi : lo + parts[k].length = hi) :
    slice parts.flatten lo hi = parts[k] := by
  have hsplit : parts = parts.take k ++ (parts[k] :: parts.drop (k + 1)) := by
    rw [← List.drop_eq_getElem_cons hk, List.take_append_drop]
  have hf : parts.flatten = (parts.take k).flatten ++ (parts[k] ++ (parts.drop (k + 1)).flatten) := by
    conv => lhs; rw [hsplit]
    rw [List.flatten_append, List.flatten_cons]
  rw [hf]
  exact slice_mid _ _ _ lo hi (by rw [List.length_flatten]; exact hlo) hhi

theorem getD_of_slice (b : Bytes) (i x : Nat) (h : slice b i (i + 1) = [x]) : b.getD i 0 = x := by
  unfold slice at h
  have h1 : i + 1 - i = 1 := by omega
  rw [h1] at h
  cases hd : b.drop i with
  | nil => rw [hd] at h; simp at h
  | cons y ys =>
    rw [hd] at h
    simp at h
    have : (b.drop i)[0]? = some y := by rw [hd]; rfl
    rw [List.getElem?_drop] at this
    simp only [Nat.add_zero] at this
    rw [List.getD_eq_getElem?_getD, this, ← h]
    rfl

/-! ## the parts of the GSI block -/

def gsiParts (g : WGSI) : List Bytes :=
  let m := g.m
  let fr := m.framerate.toNat
  [ [0x38, 0x35, 0x30], padR 0x20 8 ((dfcOf m.framerate).getD []), padR 0x20 1 m.dsc, [0x30], [0x30],
    padR 0x20 2 g.langCode, padR 0x20 32 m.title, padR 0x20 32 m.origEpisode, padR 0x20 32 m.translProgram,
    padR 0x20 32 m.translEpisode, padR 0x20 32 m.translName, padR 0x20 32 m.translContact,
    padR 0x20 16 m.slr, padR 0x20 6 (formatDate (m.creation.getD zeroDate)), padR 0x20 6 (formatDate (m.revisionDate.getD zeroDate)),
    num 2 m.revisionNumber, num 5 (g.n : Int), num 5 (g.n : Int), num 3 1, num 2 (m.maxChars.getD 0), num 2 (m.maxRows.getD 0),
    [0x31], padR 0x20 8 (ascii (Duration.formatSTL m.tcp fr)), padR 0x20 8 (ascii (Duration.formatSTL g.tcf fr)),
    [0x31], [0x31], padR 0x20 3 m.country, padR 0x20 32 m.publisher, padR 0x20 32 m.editorName,
    padR 0x20 32 m.editorContact, List.replicate 651 0x20 ]

theorem gsiBytes_parts (g : WGSI) : gsiBytes g = (gsiParts g).flatten := by
  unfold gsiBytes gsiParts
  simp only [List.flatten_cons, List.flatten_nil, List.append_assoc, List.append_nil, List.cons_append, List.nil_append]

theorem gsiParts_length (g : WGSI) : (gsiParts g).length = 31 := rfl

def gsiLens : List Nat :=
  [3, 8, 1, 1, 1, 2, 32, 32, 32, 32, 32, 32, 16, 6, 6, 2, 5, 5, 3, 2, 2, 1, 8, 8, 1, 1, 3, 32, 32, 32, 651]

theorem gsiParts_lens (g : WGSI) : (gsiParts g).map List.length = gsiLens := by
  unfold gsiParts gsiLens
  simp only [List.map_cons, List.map_nil, padR_length, num_length, List.length_replicate, List.length_cons, List.length_nil]

theorem gsi_slice (g : WGSI) (k lo hi : Nat) (hk : k < 31)
    (hlo : (gsiLens.take k).sum = lo) (hhi : lo + gsiLens.getD k 0 = hi) :
    slice (gsiBytes g) lo hi = (gsiParts g)[k]'(by rw [gsiParts_length]; exact hk) := by
  rw [gsiBytes_parts]
  have hk' : k < (gsiParts g).length := by rw [gsiParts_length]; exact hk
  apply slice_flatten_idx _ k lo hi hk'
  · rw [List.map_take, gsiParts_lens]; exact hlo
  · have : ((gsiParts g).map List.length)[k]'(by simpa using hk') = (gsiParts g)[k].length := List.getElem_map _
    rw [← this]
    have h2 : gsiLens.getD k 0 = ((gsiParts g).map List.length)[k]'(by simpa using hk') := by
      rw [List.getD_eq_getElem?_getD, ← gsiParts_lens g, List.getElem?_eq_getElem (by simpa using hk')]
      rfl
    rw [← h2]; exact hhi

/-! ## every field the reader looks at -/

macro "gsi_part" k:num lo:num hi:num : tactic =>
  `(tactic| (rw [gsi_slice _ $k $lo $hi (by decide) (by decide) (by decide)]; rfl))

theorem gsi_dfc (g : WGSI) : slice (gsiBytes g) 3 11 = padR 0x20 8 ((dfcOf g.m.framerate).getD []) := by gsi_part 1 3 11
theorem gsi_dsc (g : WGSI) : slice (gsiBytes g) 11 12 = padR 0x20 1 g.m.dsc := by gsi_part 2 11 12
theorem gsi_cct0 (g : WGSI) : slice (gsiBytes g) 12 13 = [0x30] := by gsi_part 3 12 13
theorem gsi_cct1 (g : WGSI) : slice (gsiBytes g) 13 14 = [0x30] := by gsi_part 4 13 14
theorem gsi_lang (g : WGSI) : slice (gsiBytes g) 14 16 = padR 0x20 2 g.langCode := by gsi_part 5 14 16
theorem gsi_title (g : WGSI) : slice (gsiBytes g) 16 48 = padR 0x20 32 g.m.title := by gsi_part 6 16 48
theorem gsi_origEpisode (g : WGSI) : slice (gsiBytes g) 48 80 = padR 0x20 32 g.m.origEpisode := by gsi_part 7 48 80
theorem gsi_translProgram (g : WGSI) : slice (gsiBytes g) 80 112 = padR 0x20 32 g.m.translProgram := by gsi_part 8 80 112
theorem gsi_translEpisode (g : WGSI) : slice (gsiBytes g) 112 144 = padR 0x20 32 g.m.translEpisode := by gsi_part 9 112 144
theorem gsi_translName (g : WGSI) : slice (gsiBytes g) 144 176 = padR 0x20 32 g.m.translName := by gsi_part 10 144 176
theorem gsi_translContact (g : WGSI) : slice (gsiBytes g) 176 208 = padR 0x20 32 g.m.translContact := by gsi_part 11 176 208
theorem gsi_slr (g : WGSI) : slice (gsiBytes g) 208 224 = padR 0x20 16 g.m.slr := by gsi_part 12 208 224
theorem gsi_creation (g : WGSI) : slice (gsiBytes g) 224 230 = padR 0x20 6 (formatDate (g.m.creation.getD zeroDate)) := by gsi_part 13 224 230
theorem gsi_revisionDate (g : WGSI) : slice (gsiBytes g) 230 236 = padR 0x20 6 (formatDate (g.m.revisionDate.getD zeroDate)) := by gsi_part 14 230 236
theorem gsi_revisionNumber (g : WGSI) : slice (gsiBytes g) 236 238 = num 2 g.m.revisionNumber := by gsi_part 15 236 238
theorem gsi_tnb (g : WGSI) : slice (gsiBytes g) 238 243 = num 5 (g.n : Int) := by gsi_part 16 238 243
theorem gsi_tns (g : WGSI) : slice (gsiBytes g) 243 248 = num 5 (g.n : Int) := by gsi_part 17 243 248
theorem gsi_tng (g : WGSI) : slice (gsiBytes g) 248 251 = num 3 1 := by gsi_part 18 248 251
theorem gsi_maxChars (g : WGSI) : slice (gsiBytes g) 251 253 = num 2 (g.m.maxChars.getD 0) := by gsi_part 19 251 253
theorem gsi_maxRows (g : WGSI) : slice (gsiBytes g) 253 255 = num 2 (g.m.maxRows.getD 0) := by gsi_part 20 253 255
theorem gsi_tcp (g : WGSI) : slice (gsiBytes g) 256 264 = padR 0x20 8 (ascii (Duration.formatSTL g.m.tcp g.m.framerate.toNat)) := by gsi_part 22 256 264
theorem gsi_tcf (g : WGSI) : slice (gsiBytes g) 264 272 = padR 0x20 8 (ascii (Duration.formatSTL g.tcf g.m.framerate.toNat)) := by gsi_part 23 264 272
theorem gsi_tnd (g : WGSI) : slice (gsiBytes g) 272 273 = [0x31] := by gsi_part 24 272 273
theorem gsi_dsn (g : WGSI) : slice (gsiBytes g) 273 274 = [0x31] := by gsi_part 25 273 274
theorem gsi_country (g : WGSI) : slice (gsiBytes g) 274 277 = padR 0x20 3 g.m.country := by gsi_part 26 274 277
theorem gsi_publisher (g : WGSI) : slice (gsiBytes g) 277 309 = padR 0x20 32 g.m.publisher := by gsi_part 27 277 309
theorem gsi_editorName (g : WGSI) : slice (gsiBytes g) 309 341 = padR 0x20 32 g.m.editorName := by gsi_part 28 309 341
theorem gsi_editorContact (g : WGSI) : slice (gsiBytes g) 341 373 = padR 0x20 32 g.m.editorContact := by gsi_part 29 341 373

theorem gsi_get12 (g : WGSI) : (gsiBytes g).getD 12 0 = 0x30 := getD_of_slice _ _ _ (gsi_cct0 g)
theorem gsi_get13 (g : WGSI) : (gsiBytes g).getD 13 0 = 0x30 := getD_of_slice _ _ _ (gsi_cct1 g)
theorem gsi_get272 (g : WGSI) : (gsiBytes g).getD 272 0 = 0x31 := getD_of_slice _ _ _ (gsi_tnd g)
theorem gsi_get273 (g : WGSI) : (gsiBytes g).getD 273 0 = 0x31 := getD_of_slice _ _ _ (gsi_dsn g)

end C05
end Astisub
