import Astisub.Lemmas.TTMLDocAttrs
import Astisub.Props.C03

/-!
# Lemmas/TTMLDocBody — the body of a `<p>`: spans and `<br/>` written, decoded and split into lines again

`TTML.subToks` writes a cue as one `<span>` per run and one `<br/>` between two lines (the one after the
last line is cut off).  The reader re-tokenises the paragraph (`rawTok`, see `Lemmas/TTMLDocXml`), puts a
`"\n"` in front of every `br` (`brTrick`), decodes the children into `TTMLInItem`s (`itemsLoop`) and
splits them into lines (`linesLoop`).
-/

namespace Astisub
namespace TTMLDoc
open Go TTML List

/-! ### the body as the writer emits it -/

/-- the children of `<p>`: what `subToks` puts between the start and the end tag -/
def bodyW (ls : List Line) : List WTok :=
  ((ls.map lineToks).flatten).take (((ls.map lineToks).flatten).length - 2)

def spansW (l : Line) : List WTok := (l.items.map spanOf).flatten

/-- the same, by recursion: the spans of the lines separated by `br` -/
def bodyOf : List Line → List WTok
  | [] => []
  | [l] => spansW l
  | l :: l' :: ls => spansW l ++ brTok ++ bodyOf (l' :: ls)

theorem lineToks_flatten (l : Line) (ls : List Line) :
    ((l :: ls).map lineToks).flatten = bodyOf (l :: ls) ++ brTok := by
  induction ls generalizing l with
  | nil => simp [lineToks, bodyOf, spansW]
  | cons l' ls ih =>
    rw [map_cons, flatten_cons, ih l']
    simp [lineToks, bodyOf, spansW]

theorem bodyW_eq (ls : List Line) : bodyW ls = bodyOf ls := by
  cases ls with
  | nil => rfl
  | cons l ls =>
    unfold bodyW
    rw [lineToks_flatten]
    have : (bodyOf (l :: ls) ++ brTok).length - 2 = (bodyOf (l :: ls)).length := by
      simp [brTok]
    rw [this, take_left']
    rfl

/-- the tokens of `"<p>" + stripped + "</p>"` for a cue with these lines (contract, `Lemmas/TTMLDocXml`) -/
def pToks (ls : List Line) : List XTok := pStart :: (bodyW ls).map rawTok ++ [pStop]

/-! ### pieces: a span or a line break -/

inductive Piece where
  | span (li : LItem)
  | br

def brX : List XTok := [.text ['\n'], .start [] "br".toList [], .stop [] "br".toList]

/-- a span as re-tokenised -/
def spanX (li : LItem) : List XTok :=
  .start [] "span".toList ((optAttr "style" li.style ++ outAttrs li.attrs).map rawAttr) ::
    ((if li.text.isEmpty then [] else [.text li.text]) ++ [.stop [] "span".toList])

/-- the tokens of a piece after `brTrick` -/
def pieceToks : Piece → List XTok
  | .span li => spanX li
  | .br => brX

/-- the run as a `TTMLInItem` -/
def inItemOf (li : LItem) : InItem :=
  { name := "span".toList, style := (normRef li.style).getD [], text := li.text, attrs := inKV li.attrs }

def pieceItem : Piece → InItem
  | .span li => inItemOf li
  | .br => C03.brItem

def piecesOf : List Line → List Piece
  | [] => []
  | [l] => l.items.map .span
  | l :: l' :: ls => l.items.map .span ++ .br :: piecesOf (l' :: ls)

theorem splitName_span : splitName "span".toList = ([], "span".toList) := by decide
theorem splitName_br : splitName "br".toList = ([], "br".toList) := by decide

theorem rawSpace_nil : rawSpace [] = [] := by decide

theorem rawTok_spanOf (li : LItem) : (spanOf li).map rawTok = spanX li := by
  unfold spanOf spanX
  by_cases h : li.text.isEmpty = true
  · simp only [h, ↓reduceIte, append_nil, cons_append, nil_append, map_cons, map_nil, rawTok, splitName_span,
      rawSpace_nil]
  · simp only [h, Bool.false_eq_true, ↓reduceIte, cons_append, nil_append, map_cons, map_nil, rawTok,
      splitName_span, rawSpace_nil]

theorem brTrick_spanX (li : LItem) : brTrick (spanX li) = spanX li := by
  have hb : isBr "span".toList = false := by decide
  unfold spanX
  by_cases h : li.text.isEmpty = true
  · simp only [h, ↓reduceIte, nil_append, brTrick, hb, Bool.false_eq_true]
  · simp only [h, Bool.false_eq_true, ↓reduceIte, cons_append, nil_append, brTrick, hb]

theorem brTrick_brTok : brTrick (brTok.map rawTok) = brX := by decide

theorem brTrick_spans (l : Line) :
    brTrick ((spansW l).map rawTok) = (l.items.map Piece.span).flatMap pieceToks := by
  unfold spansW
  induction l.items with
  | nil => rfl
  | cons li r ih =>
    rw [map_cons, flatten_cons, map_append, C03.brTrick_append, ih, rawTok_spanOf, brTrick_spanX]
    simp [pieceToks]

theorem brTrick_body (ls : List Line) :
    brTrick ((bodyOf ls).map rawTok) = (piecesOf ls).flatMap pieceToks := by
  induction ls with
  | nil => rfl
  | cons l ls ih =>
    cases ls with
    | nil => exact brTrick_spans l
    | cons l' ls =>
      rw [bodyOf, map_append, map_append, C03.brTrick_append, C03.brTrick_append, ih, brTrick_spans,
        brTrick_brTok, piecesOf]
      simp [pieceToks]

theorem pieceItems (ls : List Line) :
    (piecesOf ls).map pieceItem = C03.itemsOfLines (ls.map fun l => l.items.map inItemOf) := by
  induction ls with
  | nil => rfl
  | cons l ls ih =>
    cases ls with
    | nil => simp [piecesOf, C03.itemsOfLines, pieceItem]
    | cons l' ls =>
      rw [piecesOf, map_append, map_cons, ih]
      simp [C03.itemsOfLines, pieceItem]

/-! ### `itemsLoop` -/

theorem elemBody_text (s : Str) (sp n : Str) (rest : List XTok) :
    elemBody (.text s :: .stop sp n :: rest) 0 [] = some (s, rest) := by
  simp [elemBody]

theorem elemBody_empty (sp n : Str) (rest : List XTok) :
    elemBody (.stop sp n :: rest) 0 [] = some ([], rest) := by
  simp [elemBody]

/-- a span becomes one `TTMLInItem`: its `style`, its attributes, its character data -/
theorem itemsLoop_span (li : LItem) (hok : attrsOk li.attrs = true) (fuel : Nat) (rest : List XTok)
    (acc : List InItem) :
    itemsLoop (fuel + 1) (spanX li ++ rest) acc = itemsLoop fuel rest (inItemOf li :: acc) := by
  unfold spanX
  rw [cons_append, itemsLoop]
  rw [itemOfStart_written "span".toList li.style li.attrs hok]
  by_cases h : li.text.isEmpty = true
  · have ht : li.text = [] := by simpa using h
    simp only [h, ↓reduceIte, nil_append, cons_append, elemBody_empty]
    rw [if_pos (by simp)]
    simp only [inItemOf, ht]
  · simp only [h, Bool.false_eq_true, ↓reduceIte, cons_append, nil_append, elemBody_text]
    rw [if_pos (by simp only [length_cons]; omega)]
    simp only [inItemOf]

/-- `"\n"`, `<br>`, `</br>`: the character data is white space (skipped), the element is one `br` item -/
theorem itemsLoop_br (fuel : Nat) (rest : List XTok) (acc : List InItem) :
    itemsLoop (fuel + 2) (brX ++ rest) acc = itemsLoop fuel rest (C03.brItem :: acc) := by
  have ht : trimSpace ['\n'] = [] := by decide
  have hi : itemOfStart "br".toList [] {} = some { name := "br".toList } := by simp [itemOfStart]
  unfold brX
  simp only [cons_append, nil_append]
  rw [itemsLoop]
  simp only [ht, ne_eq, not_true_eq_false, ↓reduceIte]
  rw [itemsLoop, hi]
  simp only [elemBody_empty]
  rw [if_pos (by simp)]
  rfl

theorem pieceToks_length_pos (p : Piece) : 2 ≤ (pieceToks p).length := by
  cases p with
  | span li => unfold pieceToks spanX; simp
  | br => simp [pieceToks, brX]

/-- the children of `<p>` are decoded piece by piece, up to the end tag (the fuel `ReadFromTTML` has is enough) -/
theorem itemsLoop_pieces (ps : List Piece) (hok : ∀ li, Piece.span li ∈ ps → attrsOk li.attrs = true) :
    ∀ (fuel : Nat) (acc : List InItem), (ps.flatMap pieceToks).length < fuel →
      itemsLoop fuel (ps.flatMap pieceToks ++ [pStop]) acc = .ok (acc.reverse ++ ps.map pieceItem) := by
  induction ps with
  | nil =>
    intro fuel acc hf
    obtain ⟨f, rfl⟩ : ∃ f, fuel = f + 1 := ⟨fuel - 1, by simp at hf; omega⟩
    simp [itemsLoop, pStop]
  | cons p ps ih =>
    intro fuel acc hf
    rw [flatMap_cons, length_append] at hf
    have hp := pieceToks_length_pos p
    rw [flatMap_cons, append_assoc]
    have ih' := ih (fun li h => hok li (by simp [h]))
    cases p with
    | span li =>
      obtain ⟨f, rfl⟩ : ∃ f, fuel = f + 1 := ⟨fuel - 1, by omega⟩
      rw [pieceToks, itemsLoop_span li (hok li (by simp)), ih' f _ (by omega)]
      simp [pieceItem]
    | br =>
      have hb : (pieceToks Piece.br).length = 3 := rfl
      obtain ⟨f, rfl⟩ : ∃ f, fuel = f + 2 := ⟨fuel - 2, by omega⟩
      rw [pieceToks, itemsLoop_br, ih' f _ (by omega)]
      simp [pieceItem]

/-- the items the reader decodes from the paragraph of a cue with lines `ls` -/
def itemsOf (ls : List Line) : List InItem := C03.itemsOfLines (ls.map fun l => l.items.map inItemOf)

/-- **`decodeItems` of a written paragraph.** -/
theorem decodeItems_pToks (ls : List Line) (hok : ∀ l ∈ ls, ∀ li ∈ l.items, attrsOk li.attrs = true) :
    decodeItems (pToks ls) true = .ok (itemsOf ls) := by
  have hbr : isBr ['p'] = false := by decide
  unfold decodeItems pToks
  simp only [Bool.not_true, Bool.false_eq_true, ↓reduceIte]
  have e : brTrick (pStart :: (map rawTok (bodyW ls) ++ [pStop]))
      = pStart :: ((piecesOf ls).flatMap pieceToks ++ [pStop]) := by
    rw [show pStart :: (map rawTok (bodyW ls) ++ [pStop]) = [pStart] ++ (map rawTok (bodyW ls) ++ [pStop]) by rfl,
      C03.brTrick_append, C03.brTrick_append, bodyW_eq, brTrick_body]
    simp [pStart, pStop, brTrick, hbr]
  rw [cons_append, e]
  simp only [pStart]
  rw [itemsLoop_pieces (piecesOf ls) ?_ _ _ (by simp only [length_append, length_cons, length_nil]; omega)]
  · simp [pieceItems, itemsOf]
  · intro li hli
    -- every span piece is a run of some line
    have key : ∀ ls : List Line, Piece.span li ∈ piecesOf ls → ∃ l ∈ ls, li ∈ l.items := by
      intro ls
      induction ls with
      | nil => intro h; simp [piecesOf] at h
      | cons l ls ih =>
        cases ls with
        | nil =>
          intro h
          simp only [piecesOf, mem_map, Piece.span.injEq, exists_eq_right] at h
          exact ⟨l, by simp, h⟩
        | cons l' ls =>
          intro h
          rw [piecesOf, mem_append] at h
          rcases h with h | h
          · simp only [mem_map, Piece.span.injEq, exists_eq_right] at h
            exact ⟨l, by simp, h⟩
          · simp only [mem_cons, reduceCtorEq, false_or] at h
            obtain ⟨l0, hl0, hli0⟩ := ih h
            exact ⟨l0, by simp [hl0], hli0⟩
    obtain ⟨l, hl, hli'⟩ := key ls hli
    exact hok l hl li hli'

/-! ### `linesLoop` -/

/-- a run as the reader returns it: text kept, no time stamp, reference kept, attributes through `styleAttributes` -/
def normLItem (li : LItem) : LItem :=
  { text := li.text, startAt := 0, style := normRef li.style, attrs := some (styleAttributes (inKV li.attrs)) }

def normLine (l : Line) : Line := { voice := [], items := l.items.map normLItem }

/-- a cue without lines is written as an empty paragraph and read as one empty line -/
def normLines (ls : List Line) : List Line := if ls.isEmpty then [{ items := [] }] else ls.map normLine

/-- an optional reference is empty or defined -/
def refOk (ids : List Str) (r : Option Str) : Bool :=
  match normRef r with
  | some v => ids.contains v
  | none => true

/-- **representable run**: `zIndex` (if any) is an integer, the text has no line feed (known finding
    `ttml-newline-in-text-becomes-line-break`), the style reference is empty or defined -/
def runOk (styleIds : List Str) (li : LItem) : Bool :=
  attrsOk li.attrs && !li.text.contains '\n' && refOk styleIds li.style

example : runOk ["a".toList] { text := " x ".toList, style := some "a".toList, attrs := some [("TTMLColor".toList, "red".toList), ("TTMLZIndex".toList, "-3".toList)] } = true := by decide
example : runOk [] { text := "a\nb".toList } = false := by decide

theorem normRef_getD (r : Option Str) :
    (if (normRef r).getD [] ≠ [] then some ((normRef r).getD []) else none) = normRef r := by
  cases r with
  | none => rfl
  | some v =>
    by_cases h : v = []
    · simp [normRef, h]
    · simp [normRef, h]

theorem mkItem_inItemOf (li : LItem) : C03.mkItem (inItemOf li) li.text = normLItem li := by
  unfold C03.mkItem normLItem inItemOf
  simp only [normRef_getD]

theorem goodRun_inItemOf {styleIds : List Str} {li : LItem} (h : runOk styleIds li = true) :
    C03.GoodRun styleIds (inItemOf li) := by
  simp only [runOk, Bool.and_eq_true, Bool.not_eq_true', List.contains_eq_mem, decide_eq_false_iff_not] at h
  obtain ⟨⟨_, hnl⟩, href⟩ := h
  refine ⟨⟨rfl, ?_⟩, hnl⟩
  unfold refOk at href
  unfold inItemOf
  cases hr : normRef li.style with
  | none => left; rfl
  | some v =>
    right
    rw [hr] at href
    simpa using href

/-- **Line splitting of the decoded items.** -/
theorem linesLoop_itemsOf (styleIds : List Str) (ls : List Line)
    (h : ∀ l ∈ ls, ∀ li ∈ l.items, runOk styleIds li = true) :
    linesLoop styleIds (itemsOf ls) [] [] = some (normLines ls) := by
  cases ls with
  | nil => rfl
  | cons l ls =>
    unfold itemsOf
    rw [C03.linesLoop_lines styleIds _ (by simp) ?_]
    · simp only [normLines, isEmpty_cons, Bool.false_eq_true, ↓reduceIte, map_map]
      congr 1
      apply map_congr_left
      intro l' _
      simp only [Function.comp, normLine, map_map]
      congr 1
      apply map_congr_left
      intro li _
      exact mkItem_inItemOf li
    · intro rl hrl r hr
      obtain ⟨l0, hl0, rfl⟩ := mem_map.mp hrl
      obtain ⟨li, hli, rfl⟩ := mem_map.mp hr
      exact goodRun_inItemOf (h l0 hl0 li hli)

end TTMLDoc
end Astisub
