import Astisub.Lemmas.STLGsiRT

/-!
# Lemmas/STLFile — the whole file: `read (writeBody …)` for open subtitling (display standard 0)
-/

namespace Astisub
namespace C05
open Go STL

/-- a cue whose lines are repertoire rows -/
structure RCue where
  startAt : Int
  endAt : Int
  just : Option Int := none
  vp : Option Int := none
  rows : List RRun

/-- the cue as the writer sees it -/
def RCue.toW (c : RCue) : WCue :=
  { startAt := c.startAt, endAt := c.endAt, just := c.just, vp := c.vp, lines := c.rows.map fun r => [r.toW] }

/-- every row is over the repertoire and not blank, and the encoded text fits the 112-byte text field -/
def RCue.ok (c : RCue) : Prop := (∀ r ∈ c.rows, r.ok) ∧ (encodeText (cueString c.toW)).length ≤ 112

theorem chunks_flatten (blocks : List Bytes) (h : ∀ b ∈ blocks, b.length = 128) (fuel : Nat) (hf : blocks.length < fuel) :
    chunks 128 fuel blocks.flatten = blocks := by
  induction blocks generalizing fuel with
  | nil =>
    cases fuel with
    | zero => omega
    | succ f => rfl
  | cons b bs ih =>
    cases fuel with
    | zero => omega
    | succ f =>
      have hb : b.length = 128 := h b (by simp)
      have hne : (b ++ bs.flatten).isEmpty = false := by
        cases b with
        | nil => simp at hb
        | cons x xs => rfl
      simp only [List.flatten_cons, chunks, hne, Bool.false_eq_true, if_false]
      rw [List.take_left' hb, List.drop_left' hb, ih (fun b' hb' => h b' (by simp [hb'])) f (by simp at hf; omega)]

theorem ttiFold_blocks (R : GSI) (G : WGSI) (off : Int) (hfr : R.m.framerate = G.m.framerate) (hdsc : R.m.dsc = [0x30])
    (l : List (RCue × Nat)) (hok : ∀ p ∈ l, p.1.ok) :
    ttiFold R off none (l.map fun p => ttiBytes G (p.2 + 1) p.1.toW)
      = some (l.map fun p => ttiCue R G off p.1.toW p.1.rows) := by
  induction l with
  | nil => rfl
  | cons p ps ih =>
    have hp := hok p (by simp)
    simp only [List.map_cons, ttiFold]
    rw [ttiItem_ttiBytes R G off (p.2 + 1) p.1.toW p.1.rows hfr hdsc rfl hp.1 hp.2]
    simp only
    rw [ih (fun q hq => hok q (by simp [hq]))]
    rfl

theorem zipIdx_toW (rcs : List RCue) (G : WGSI) :
    ((rcs.map RCue.toW).zipIdx.map fun (c, k) => ttiBytes G (k + 1) c)
      = (rcs.zipIdx.map fun p => ttiBytes G (p.2 + 1) p.1.toW) := by
  rw [List.zipIdx_map, List.map_map]
  rfl

theorem zipIdx_map_fst {α β} (l : List α) (f : α → β) (n : Nat) : (l.zipIdx n).map (fun p => f p.1) = l.map f := by
  induction l generalizing n with
  | nil => rfl
  | cons a as ih => simp [List.zipIdx_cons, ih]

theorem mem_zipIdx_fst {α} {l : List α} {n : Nat} {p : α × Nat} (h : p ∈ l.zipIdx n) : p.1 ∈ l := by
  induction l generalizing n with
  | nil => cases h
  | cons a as ih =>
    rw [List.zipIdx_cons] at h
    rcases List.mem_cons.mp h with rfl | h
    · simp
    · exact List.mem_cons_of_mem _ (ih h)

/-- the metadata the reader returns: the programme start is dropped on request -/
def readMeta (ig : Bool) (R : GSI) : Meta := if ig then { R.m with tcp := 0 } else R.m

theorem read_writeBody (ig : Bool) (now : Date) (md : Option Meta) (rcs : List RCue)
    (hG : GsiOK (newGSI now md (rcs.map RCue.toW))) (hdsc : (newGSI now md (rcs.map RCue.toW)).m.dsc = [0x30])
    (hok : ∀ c ∈ rcs, c.ok) :
    STL.read ig (writeBody now md (rcs.map RCue.toW))
      = .ok (readMeta ig (gsiBack (newGSI now md (rcs.map RCue.toW))),
             rcs.map fun c => ttiCue (gsiBack (newGSI now md (rcs.map RCue.toW))) (newGSI now md (rcs.map RCue.toW))
               (readMeta ig (gsiBack (newGSI now md (rcs.map RCue.toW)))).tcp c.toW c.rows) := by
  generalize hGd : newGSI now md (rcs.map RCue.toW) = G at hG hdsc ⊢
  have hbody : writeBody now md (rcs.map RCue.toW)
      = gsiBytes G ++ (rcs.zipIdx.map fun p => ttiBytes G (p.2 + 1) p.1.toW).flatten := by
    unfold writeBody; rw [hGd, zipIdx_toW]
  have hblk : ∀ b ∈ (rcs.zipIdx.map fun p => ttiBytes G (p.2 + 1) p.1.toW), b.length = 128 := by
    intro b hb
    obtain ⟨p, _, rfl⟩ := List.mem_map.mp hb
    exact ttiBytes_length _ _ _
  have hflen : (rcs.zipIdx.map fun p => ttiBytes G (p.2 + 1) p.1.toW).flatten.length = 128 * rcs.length := by
    rw [flatten_const_length _ _ 128 (fun p => ttiBytes_length _ _ _), List.length_zipIdx]
  have hlen : ¬ (writeBody now md (rcs.map RCue.toW)).length < 1024 := by
    rw [hbody, List.length_append, gsiBytes_length]; omega
  have htake : (writeBody now md (rcs.map RCue.toW)).take 1024 = gsiBytes G := by
    rw [hbody, List.take_left' (gsiBytes_length G)]
  have hdrop : (writeBody now md (rcs.map RCue.toW)).drop 1024
      = (rcs.zipIdx.map fun p => ttiBytes G (p.2 + 1) p.1.toW).flatten := by
    rw [hbody, List.drop_left' (gsiBytes_length G)]
  have hR : (gsiBack G).m.dsc = [0x30] := hdsc
  have hfr : (gsiBack G).m.framerate = G.m.framerate := rfl
  unfold STL.read
  rw [if_neg hlen, htake, parseGSI_gsiBytes G hG]
  simp only [hdrop]
  rw [chunks_flatten _ hblk _ (by rw [List.length_map, List.length_zipIdx, hflen]; omega)]
  have hfold := ttiFold_blocks (gsiBack G) G (readMeta ig (gsiBack G)).tcp hfr hR rcs.zipIdx
    (by intro p hp; exact hok p.1 (mem_zipIdx_fst hp))
  rw [zipIdx_map_fst rcs (fun c => ttiCue (gsiBack G) G (readMeta ig (gsiBack G)).tcp c.toW c.rows)] at hfold
  unfold readMeta at hfold ⊢
  rw [hfold]
  simp only [hflen, Nat.mul_mod_right, ne_eq, not_true_eq_false, if_false]

end C05
end Astisub
