import Astisub.Lemmas.SRTTokFuel
import Astisub.Lemmas.SRTSpecRuns

/-!
# Lemmas/SRTRead2Tag — every tag the independent SubRip decoder recognises is one tokenizer token

`tag_sim`: whenever `Spec.SRT.tagAt` recognises an emphasis tag (in any ASCII case) at the head of
the input, one iteration of the HTML tokenizer model (`Go.tokStep`) emits the pending text and
exactly one start / end tag token, resumes where the decoder resumes, and `SRT.stepTok` applies the
decoder's style update to the running style.
-/

namespace Astisub
namespace SRTRead2
open Go SRT Spec.SRT SRTDoc
open List

/-! ## characters -/

/-- the per-character map of `toLowerAscii` -/
def lc (c : Char) : Char := if 'A' ≤ c ∧ c ≤ 'Z' then Char.ofNat (c.toNat + 32) else c

theorem toLowerAscii_eq_map (s : Str) : toLowerAscii s = s.map lc := rfl

/-- an ASCII letter -/
def nameCh (c : Char) : Prop := ('a' ≤ c ∧ c ≤ 'z') ∨ ('A' ≤ c ∧ c ≤ 'Z')

instance (c : Char) : Decidable (nameCh c) := by unfold nameCh; exact inferInstance

/-- a character whose lower-case image is a lower-case letter is a letter -/
theorem nameCh_of_lc {x y : Char} (h : lc x = y) (hy : 'a' ≤ y ∧ y ≤ 'z') : nameCh x := by
  unfold lc at h
  by_cases hx : 'A' ≤ x ∧ x ≤ 'Z'
  · exact Or.inr hx
  · rw [if_neg hx] at h
    subst h
    exact Or.inl hy

theorem nameCh_ne {x : Char} (h : nameCh x) (c : Char) (hc : ¬ nameCh c) : x ≠ c := by
  intro e; subst e; exact hc h

theorem nameCh_isLetter {x : Char} (h : nameCh x) : isLetter x = true := by
  unfold nameCh at h
  simp only [isLetter, Bool.or_eq_true, Bool.and_eq_true, decide_eq_true_eq]
  exact h

theorem nameCh_isTagWS {x : Char} (h : nameCh x) : isTagWS x = false := by
  have h1 := nameCh_ne h ' ' (by decide)
  have h2 := nameCh_ne h '\n' (by decide)
  have h3 := nameCh_ne h '\r' (by decide)
  have h4 := nameCh_ne h '\t' (by decide)
  have h5 := nameCh_ne h '\x0c' (by decide)
  simp [isTagWS, h1, h2, h3, h4, h5]

/-- upper-case letters go to lower-case letters -/
theorem lc_upper_range : ∀ n : Nat, n < 91 → 65 ≤ n → 'a' ≤ Char.ofNat (n + 32) ∧ Char.ofNat (n + 32) ≤ 'z' := by
  decide

/-- a character whose lower-case image is not a lower-case letter is that image -/
theorem eq_of_lc {x y : Char} (h : lc x = y) (hy : ¬ ('a' ≤ y ∧ y ≤ 'z')) : x = y := by
  unfold lc at h
  by_cases hx : 'A' ≤ x ∧ x ≤ 'Z'
  · rw [if_pos hx] at h
    exfalso
    apply hy
    rw [← h]
    have h1 : 65 ≤ x.toNat := by
      have := hx.1
      rw [Char.le_def, UInt32.le_iff_toNat_le] at this
      exact this
    have h2 : x.toNat ≤ 90 := by
      have := hx.2
      rw [Char.le_def, UInt32.le_iff_toNat_le] at this
      exact this
    exact lc_upper_range x.toNat (by omega) h1
  · rw [if_neg hx] at h
    exact h

/-! ## the shape of the input behind a case-insensitive prefix test -/

theorem shape_of_hasPrefix (p : Str) : ∀ (s : Str) (n : Nat), p.length ≤ n →
    hasPrefix p (toLowerAscii (s.take n)) = true → ∃ q, q.map lc = p ∧ s = q ++ s.drop p.length := by
  induction p with
  | nil => intro s n _ _; exact ⟨[], rfl, rfl⟩
  | cons x ps ih =>
    intro s n hn h
    obtain ⟨m, rfl⟩ : ∃ m, n = m + 1 := ⟨n - 1, by simp at hn; omega⟩
    cases s with
    | nil => simp [hasPrefix, toLowerAscii, dropPrefix?] at h
    | cons c s' =>
      rw [toLowerAscii_eq_map] at h
      simp only [hasPrefix, List.take_succ_cons, List.map_cons, dropPrefix?] at h
      by_cases hx : x = lc c
      · rw [if_pos hx] at h
        obtain ⟨q, hq, hs⟩ := ih s' m (by simp at hn; omega) h
        refine ⟨c :: q, by simp [hq, hx], ?_⟩
        simp only [List.length_cons, List.drop_succ_cons, List.cons_append]
        rw [← hs]
      · rw [if_neg hx] at h
        simp at h

theorem shape_of_dropPrefix (p : Str) : ∀ (s rest : Str),
    dropPrefix? p (toLowerAscii (s.take p.length) ++ s.drop p.length) = some rest →
      ∃ q, q.map lc = p ∧ s = q ++ rest := by
  induction p with
  | nil => intro s rest h; simp [dropPrefix?, toLowerAscii] at h; exact ⟨[], rfl, by simp [h]⟩
  | cons x ps ih =>
    intro s rest h
    cases s with
    | nil => simp [toLowerAscii, dropPrefix?] at h
    | cons c s' =>
      rw [toLowerAscii_eq_map] at h
      simp only [List.length_cons, List.take_succ_cons, List.map_cons, List.drop_succ_cons, List.cons_append,
        dropPrefix?] at h
      by_cases hx : x = lc c
      · rw [if_pos hx] at h
        obtain ⟨q, hq, hs⟩ := ih s' rest h
        exact ⟨c :: q, by simp [hq, hx], by simp [hs]⟩
      · rw [if_neg hx] at h
        simp at h

/-! ## `readTag` on a name made of letters -/

theorem nameCh_nameStop {x : Char} (h : nameCh x) : (!(isTagWS x || x == '/' || x == '>')) = true := by
  have h1 := nameCh_isTagWS h
  have h2 := nameCh_ne h '/' (by decide)
  have h3 := nameCh_ne h '>' (by decide)
  simp [h1, h2, h3]

theorem nameCh_keyStop {x : Char} (h : nameCh x) : (!(isTagWS x || x == '/' || x == '=' || x == '>')) = true := by
  have h1 := nameCh_isTagWS h
  have h2 := nameCh_ne h '/' (by decide)
  have h3 := nameCh_ne h '>' (by decide)
  have h4 := nameCh_ne h '=' (by decide)
  simp [h1, h2, h3, h4]

/-- `<name>`: a name of letters directly followed by `>` -/
theorem readTag_simple (nm rest : Str) (hnm : ∀ x ∈ nm, nameCh x) :
    readTag (nm ++ '>' :: rest) = some (nm, [], rest) := by
  have hname : (nm ++ '>' :: rest).takeWhile (fun c => !(isTagWS c || c == '/' || c == '>')) = nm :=
    takeWhile_append_stop _ nm '>' rest (fun x hx => nameCh_nameStop (hnm x hx)) (by simp)
  unfold readTag
  simp only [hname]
  simp [isTagWS, readAttrs]

/-- `key="v">` in the attribute loop -/
theorem readAttrs_kv (n : Nat) (k : Char) (ks v after : Str) (hk : nameCh k) (hks : ∀ x ∈ ks, nameCh x)
    (hv : ∀ ch ∈ v, ch ≠ '"') :
    readAttrs (n + 2) (k :: (ks ++ '=' :: '"' :: (v ++ '"' :: '>' :: after))) []
      = some ([(k :: ks, v)], after) := by
  have hkey : (k :: (ks ++ '=' :: '"' :: (v ++ '"' :: '>' :: after))).takeWhile
      (fun c => !(isTagWS c || c == '/' || c == '=' || c == '>')) = k :: ks := by
    have := takeWhile_append_stop (fun c => !(isTagWS c || c == '/' || c == '=' || c == '>')) (k :: ks) '='
      ('"' :: (v ++ '"' :: '>' :: after))
      (by
        intro x hx
        rcases List.mem_cons.mp hx with e | e
        · subst e; exact nameCh_keyStop hk
        · exact nameCh_keyStop (hks x e))
      (by simp)
    simpa using this
  have hval : (v ++ '"' :: '>' :: after).takeWhile (· != '"') = v :=
    takeWhile_append_stop _ v '"' _ (by intro ch h; simpa using hv ch h) (by simp)
  have hgt := nameCh_ne hk '>' (by decide)
  rw [readAttrs]
  · simp only [hkey]
    simp [isTagWS, hval, readAttrs]
  · simp
  · intro r; simp [hgt]

/-- `name key="v">`: a name of letters, one space, one double-quoted attribute -/
theorem readTag_kv (nm : Str) (k : Char) (ks v after : Str) (hnm : ∀ x ∈ nm, nameCh x) (hk : nameCh k)
    (hks : ∀ x ∈ ks, nameCh x) (hv : ∀ ch ∈ v, ch ≠ '"') :
    readTag (nm ++ ' ' :: k :: (ks ++ '=' :: '"' :: (v ++ '"' :: '>' :: after)))
      = some (nm, [(k :: ks, v)], after) := by
  generalize hz : ks ++ '=' :: '"' :: (v ++ '"' :: '>' :: after) = z
  have hname : (nm ++ ' ' :: k :: z).takeWhile (fun c => !(isTagWS c || c == '/' || c == '>')) = nm :=
    takeWhile_append_stop _ nm ' ' _ (fun x hx => nameCh_nameStop (hnm x hx)) (by simp [isTagWS])
  have hdrop : (nm ++ ' ' :: k :: z).drop nm.length = ' ' :: k :: z := by simp
  have hws : (' ' :: k :: z).dropWhile isTagWS = k :: z := by
    have h1 : isTagWS ' ' = true := by decide
    simp [h1, nameCh_isTagWS hk]
  obtain ⟨n, hn⟩ : ∃ n, (k :: z).length + 1 = n + 2 := ⟨z.length, by simp⟩
  unfold readTag
  simp only [hname, hdrop, hws, hn]
  subst hz
  rw [readAttrs_kv n k ks v after hk hks hv]
  simp

/-! ## one iteration of the tokenizer on a tag -/

theorem tokStep_startTag (d : Char) (tl after raw name acc : Str) (attrs : List (Str × Str)) (out : List Tok)
    (hd : isLetter d = true) (hr : readTag (d :: tl) = some (name, attrs, after))
    (hsplit : '<' :: d :: tl = raw ++ after)
    (hrawtag : rawTags.contains (String.ofList (toLowerAscii name)) = false)
    (hamp : attrs.any (fun kv => kv.2.contains '&') = false)
    (hself : (raw.dropLast.getLast? == some '/') = false) :
    tokStep ('<' :: d :: tl) acc out
      = .next after [] (Tok.startTag raw (toLowerAscii name) (lowerKV attrs) :: flushText acc out) := by
  have hlt : ('<' != '<') = false := by decide
  have h0 : ('<' == '\x00') = false := by decide
  unfold tokStep
  simp only [h0, hlt, hd, hr, hrawtag, hamp, hsplit, take_raw, hself, flushText]
  simp

theorem tokStep_endTag (e : Char) (tl after raw name acc : Str) (attrs : List (Str × Str)) (out : List Tok)
    (he : isLetter e = true) (hr : readTag (e :: tl) = some (name, attrs, after))
    (hsplit : '<' :: '/' :: e :: tl = raw ++ after) :
    tokStep ('<' :: '/' :: e :: tl) acc out
      = .next after [] (Tok.endTag raw (toLowerAscii name) :: flushText acc out) := by
  have hlt : ('<' != '<') = false := by decide
  have h0 : ('<' == '\x00') = false := by decide
  have hs : isLetter '/' = false := by decide
  have hgt : (e == '>') = false := by
    cases h : e == '>'
    · rfl
    · simp at h; subst h; simp [isLetter] at he
  unfold tokStep
  simp only [h0, hlt, hs, he, hr, hgt, hsplit, take_raw, flushText]
  simp

/-! ## from the lower-cased prefix to the characters of the input -/

/-- lower-case letter -/
def lowCh (c : Char) : Prop := 'a' ≤ c ∧ c ≤ 'z'

instance (c : Char) : Decidable (lowCh c) := by unfold lowCh; exact inferInstance

theorem map_lc_fixed : ∀ (q p : Str), q.map lc = p → (∀ c ∈ p, ¬ lowCh c) → q = p := by
  intro q
  induction q with
  | nil => intro p h _; simpa using h
  | cons x q ih =>
    intro p h hp
    cases p with
    | nil => simp at h
    | cons y p =>
      simp only [List.map_cons, List.cons.injEq] at h
      have e := eq_of_lc h.1 (hp y (by simp))
      rw [e, ih p h.2 (fun c hc => hp c (by simp [hc]))]

theorem map_lc_name : ∀ (q p : Str), q.map lc = p → (∀ c ∈ p, lowCh c) → ∀ x ∈ q, nameCh x := by
  intro q
  induction q with
  | nil => intro p _ _ x hx; simp at hx
  | cons a q ih =>
    intro p h hp x hx
    cases p with
    | nil => simp at h
    | cons y p =>
      simp only [List.map_cons, List.cons.injEq] at h
      rcases List.mem_cons.mp hx with e | e
      · subst e; exact nameCh_of_lc h.1 (hp y (by simp))
      · exact ih p h.2 (fun c hc => hp c (by simp [hc])) x e

theorem getLast_ne_slash (l : Str) (h : ∀ x ∈ l, x ≠ '/') : (l.getLast? == some '/') = false := by
  cases hl : l.getLast? with
  | none => rfl
  | some a =>
    have := h a (List.mem_of_getLast? hl)
    simp [this]

/-! ## the three tag forms -/

/-- `<name>` in any case, `name` not a raw-text element: one start tag token -/
theorem start_form (y : Char) (ys s acc : Str) (out : List Tok) (n : Nat) (hn : ys.length + 3 ≤ n)
    (hlow : ∀ c ∈ y :: ys, lowCh c) (hraw : rawTags.contains (String.ofList (y :: ys)) = false)
    (h : hasPrefix ('<' :: (y :: ys) ++ ['>']) (toLowerAscii (s.take n)) = true) :
    ∃ raw, tokStep s acc out
      = .next (s.drop (ys.length + 3)) [] (Tok.startTag raw (y :: ys) [] :: flushText acc out) := by
  obtain ⟨q, hq, hs⟩ := shape_of_hasPrefix _ s n (by simpa using hn) h
  have hlen : ('<' :: (y :: ys) ++ ['>']).length = ys.length + 3 := by simp
  rw [hlen] at hs
  generalize s.drop (ys.length + 3) = rest at hs ⊢
  rw [show '<' :: (y :: ys) ++ ['>'] = ['<'] ++ ((y :: ys) ++ ['>']) by simp] at hq
  obtain ⟨q1, q2, rfl, h1, h2⟩ := List.map_eq_append_iff.mp hq
  obtain ⟨nm, q3, rfl, h3, h4⟩ := List.map_eq_append_iff.mp h2
  have e1 := map_lc_fixed q1 _ h1 (by intro c hc; simp at hc; subst hc; decide)
  have e3 := map_lc_fixed q3 _ h4 (by intro c hc; simp at hc; subst hc; decide)
  have hnc := map_lc_name nm _ h3 hlow
  subst e1 e3
  cases nm with
  | nil => simp at h3
  | cons e nm' =>
    have he := hnc e (by simp)
    subst hs
    refine ⟨'<' :: (e :: nm') ++ ['>'], ?_⟩
    have hr : readTag (e :: (nm' ++ '>' :: rest)) = some (e :: nm', [], rest) := readTag_simple (e :: nm') rest hnc
    have hself : ((('<' :: (e :: nm') ++ ['>']).dropLast).getLast? == some '/') = false := by
      rw [List.dropLast_concat]
      apply getLast_ne_slash
      intro x hx
      rcases List.mem_cons.mp hx with e' | e'
      · subst e'; decide
      · exact nameCh_ne (hnc x e') '/' (by decide)
    have := tokStep_startTag e (nm' ++ '>' :: rest) rest ('<' :: (e :: nm') ++ ['>']) (e :: nm') acc [] out
      (nameCh_isLetter he) hr (by simp) (by rw [toLowerAscii_eq_map, h3]; exact hraw) rfl hself
    rw [toLowerAscii_eq_map, h3] at this
    simpa [lowerKV] using this

/-- `</name>` in any case: one end tag token -/
theorem end_form (y : Char) (ys s acc : Str) (out : List Tok) (n : Nat) (hn : ys.length + 4 ≤ n)
    (hlow : ∀ c ∈ y :: ys, lowCh c)
    (h : hasPrefix ('<' :: '/' :: (y :: ys) ++ ['>']) (toLowerAscii (s.take n)) = true) :
    ∃ raw, tokStep s acc out
      = .next (s.drop (ys.length + 4)) [] (Tok.endTag raw (y :: ys) :: flushText acc out) := by
  obtain ⟨q, hq, hs⟩ := shape_of_hasPrefix _ s n (by simpa using hn) h
  have hlen : ('<' :: '/' :: (y :: ys) ++ ['>']).length = ys.length + 4 := by simp
  rw [hlen] at hs
  generalize s.drop (ys.length + 4) = rest at hs ⊢
  rw [show '<' :: '/' :: (y :: ys) ++ ['>'] = ['<', '/'] ++ ((y :: ys) ++ ['>']) by simp] at hq
  obtain ⟨q1, q2, rfl, h1, h2⟩ := List.map_eq_append_iff.mp hq
  obtain ⟨nm, q3, rfl, h3, h4⟩ := List.map_eq_append_iff.mp h2
  have e1 := map_lc_fixed q1 _ h1 (by intro c hc; simp at hc; rcases hc with hc | hc <;> (subst hc; decide))
  have e3 := map_lc_fixed q3 _ h4 (by intro c hc; simp at hc; subst hc; decide)
  have hnc := map_lc_name nm _ h3 hlow
  subst e1 e3
  cases nm with
  | nil => simp at h3
  | cons e nm' =>
    have he := hnc e (by simp)
    subst hs
    refine ⟨'<' :: '/' :: (e :: nm') ++ ['>'], ?_⟩
    have hr : readTag (e :: (nm' ++ '>' :: rest)) = some (e :: nm', [], rest) := readTag_simple (e :: nm') rest hnc
    have := tokStep_endTag e (nm' ++ '>' :: rest) rest ('<' :: '/' :: (e :: nm') ++ ['>']) (e :: nm') acc [] out
      (nameCh_isLetter he) hr (by simp)
    rw [toLowerAscii_eq_map, h3] at this
    simpa using this

theorem drop_takeWhile_length {α} (p : α → Bool) (l : List α) :
    l.drop (l.takeWhile p).length = l.dropWhile p := by
  induction l with
  | nil => simp
  | cons a l ih =>
    by_cases h : p a = true
    · simp [h, ih]
    · simp [h]

theorem of_mem_takeWhile {α} (p : α → Bool) (l : List α) : ∀ x ∈ l.takeWhile p, p x = true := by
  induction l with
  | nil => intro x hx; simp at hx
  | cons a l ih =>
    intro x hx
    by_cases h : p a = true
    · simp only [List.takeWhile_cons, h, if_true] at hx
      rcases List.mem_cons.mp hx with e | e
      · subst e; exact h
      · exact ih x e
    · simp [h] at hx

/-- `<font color="v">` in any case, `v` free of `&`: one start tag token with the attribute `color` -/
theorem font_form (s rest v after acc : Str) (out : List Tok)
    (h : dropPrefix? "<font color=\"".toList (toLowerAscii (s.take 13) ++ s.drop 13) = some rest)
    (hv : rest.takeWhile (· != '"') = v) (hd : rest.drop v.length = '"' :: '>' :: after)
    (hamp : v.contains '&' = false) :
    ∃ raw, tokStep s acc out
      = .next after [] (Tok.startTag raw "font".toList [("color".toList, v)] :: flushText acc out) := by
  obtain ⟨q, hq, hs⟩ := shape_of_dropPrefix "<font color=\"".toList s rest h
  -- the rest of the input is `v">after`
  have hrest : rest = v ++ '"' :: '>' :: after := by
    have h1 := drop_takeWhile_length (· != '"') rest
    rw [hv, hd] at h1
    have h2 := List.takeWhile_append_dropWhile (p := (· != '"')) (l := rest)
    rw [hv, ← h1] at h2
    exact h2.symm
  have hvq : ∀ ch ∈ v, ch ≠ '"' := by
    intro ch hch
    rw [← hv] at hch
    have := of_mem_takeWhile _ rest ch hch
    simpa using this
  have hampv : '&' ∉ v := by
    intro hm
    have : v.contains '&' = true := by simp [hm]
    rw [hamp] at this
    exact absurd this (by decide)
  -- the thirteen characters in front of it
  rw [show "<font color=\"".toList = ['<'] ++ (['f','o','n','t'] ++ ([' '] ++ (['c','o','l','o','r'] ++ ['=', '"'])))
    from rfl] at hq
  obtain ⟨q1, q2, rfl, h1, h2⟩ := List.map_eq_append_iff.mp hq
  obtain ⟨nm, q3, rfl, h3, h4⟩ := List.map_eq_append_iff.mp h2
  obtain ⟨q4, q5, rfl, h5, h6⟩ := List.map_eq_append_iff.mp h4
  obtain ⟨key, q6, rfl, h7, h8⟩ := List.map_eq_append_iff.mp h6
  have e1 := map_lc_fixed q1 _ h1 (by intro c hc; simp at hc; subst hc; decide)
  have e4 := map_lc_fixed q4 _ h5 (by intro c hc; simp at hc; subst hc; decide)
  have e6 := map_lc_fixed q6 _ h8 (by intro c hc; simp at hc; rcases hc with hc | hc <;> (subst hc; decide))
  have hnm := map_lc_name nm _ h3 (by intro c hc; simp at hc; rcases hc with hc | hc | hc | hc <;> (subst hc; decide))
  have hkey := map_lc_name key _ h7
    (by intro c hc; simp at hc; rcases hc with hc | hc | hc | hc | hc <;> (subst hc; decide))
  subst e1 e4 e6
  cases nm with
  | nil => simp at h3
  | cons d nm' =>
  cases key with
  | nil => simp at h7
  | cons k ks =>
    have hdl := hnm d (by simp)
    have hk := hkey k (by simp)
    have hnm' : ∀ x ∈ nm', nameCh x := fun x hx => hnm x (by simp [hx])
    have hks : ∀ x ∈ ks, nameCh x := fun x hx => hkey x (by simp [hx])
    subst hs hrest
    have hr := readTag_kv (d :: nm') k ks v after hnm hk hks hvq
    refine ⟨(('<' :: (d :: nm') ++ ' ' :: k :: (ks ++ '=' :: '"' :: v)) ++ ['"']) ++ ['>'], ?_⟩
    have hself : ((((('<' :: (d :: nm') ++ ' ' :: k :: (ks ++ '=' :: '"' :: v)) ++ ['"']) ++ ['>']).dropLast).getLast?
        == some '/') = false := by
      rw [List.dropLast_concat, List.getLast?_concat]
      decide
    have := tokStep_startTag d (nm' ++ ' ' :: k :: (ks ++ '=' :: '"' :: (v ++ '"' :: '>' :: after))) after
      ((('<' :: (d :: nm') ++ ' ' :: k :: (ks ++ '=' :: '"' :: v)) ++ ['"']) ++ ['>']) (d :: nm') acc [(k :: ks, v)] out
      (nameCh_isLetter hdl) hr (by simp) (by rw [toLowerAscii_eq_map, h3]; decide) (by simp [hampv]) hself
    rw [toLowerAscii_eq_map, h3] at this
    have hkv : lowerKV [(k :: ks, v)] = [("color".toList, v)] := by
      simp only [lowerKV, List.map_cons, List.map_nil]
      rw [toLowerAscii_eq_map, h7]
      rfl
    rw [hkv] at this
    simpa using this

/-! ## the reader's style update -/

/-- what `tag_sim` says about the token `t`: the reader's `stepTok` leaves the items alone and updates
    the running style as the decoder's `f` does -/
def StyleSim (t : Tok) (f : Sty → Sty) : Prop :=
  ∀ (r : Run) (items : List LItem),
    (stepTok (r, items) t).2 = items ∧ styOf (stepTok (r, items) t).1 = f (styOf r)

theorem styleSim_b (raw : Str) : StyleSim (.startTag raw ['b'] []) (fun y => { y with bold := true }) := by
  intro r items; simp [stepTok, styOf]
theorem styleSim_i (raw : Str) : StyleSim (.startTag raw ['i'] []) (fun y => { y with italic := true }) := by
  intro r items; simp [stepTok, styOf]
theorem styleSim_u (raw : Str) : StyleSim (.startTag raw ['u'] []) (fun y => { y with underline := true }) := by
  intro r items; simp [stepTok, styOf]
theorem styleSim_eb (raw : Str) : StyleSim (.endTag raw ['b']) (fun y => { y with bold := false }) := by
  intro r items; simp [stepTok, styOf]
theorem styleSim_ei (raw : Str) : StyleSim (.endTag raw ['i']) (fun y => { y with italic := false }) := by
  intro r items; simp [stepTok, styOf]
theorem styleSim_eu (raw : Str) : StyleSim (.endTag raw ['u']) (fun y => { y with underline := false }) := by
  intro r items; simp [stepTok, styOf]
theorem styleSim_efont (raw : Str) :
    StyleSim (.endTag raw ['f', 'o', 'n', 't']) (fun y => { y with color := none }) := by
  intro r items; simp [stepTok, styOf]
theorem styleSim_font (raw v : Str) :
    StyleSim (.startTag raw "font".toList [("color".toList, v)]) (fun y => { y with color := some v }) := by
  intro r items; simp [stepTok, styOf, List.lookup]

/-! ## all tags -/

/-- `tag_sim` for any input (a recognised tag starts with `<` and a letter or `/` anyway) -/
theorem tag_sim_gen (s : Str) (f : Sty → Sty) (after : Str) (h : tagAt s = some (f, after))
    (acc : Str) (out : List Tok) :
    ∃ t : Tok, tokStep s acc out = .next after [] (t :: flushText acc out) ∧ StyleSim t f := by
  unfold tagAt at h
  dsimp only at h
  split at h
  · rename_i hp
    simp only [Option.some.injEq, Prod.mk.injEq] at h
    obtain ⟨rfl, rfl⟩ := h
    obtain ⟨raw, hst⟩ := start_form 'b' [] s acc out 8 (by simp) (by intro c hc; simp at hc; subst hc; decide)
      (by decide) hp
    exact ⟨_, hst, styleSim_b raw⟩
  split at h
  · rename_i hp
    simp only [Option.some.injEq, Prod.mk.injEq] at h
    obtain ⟨rfl, rfl⟩ := h
    obtain ⟨raw, hst⟩ := end_form 'b' [] s acc out 8 (by simp) (by intro c hc; simp at hc; subst hc; decide) hp
    exact ⟨_, hst, styleSim_eb raw⟩
  split at h
  · rename_i hp
    simp only [Option.some.injEq, Prod.mk.injEq] at h
    obtain ⟨rfl, rfl⟩ := h
    obtain ⟨raw, hst⟩ := start_form 'i' [] s acc out 8 (by simp) (by intro c hc; simp at hc; subst hc; decide)
      (by decide) hp
    exact ⟨_, hst, styleSim_i raw⟩
  split at h
  · rename_i hp
    simp only [Option.some.injEq, Prod.mk.injEq] at h
    obtain ⟨rfl, rfl⟩ := h
    obtain ⟨raw, hst⟩ := end_form 'i' [] s acc out 8 (by simp) (by intro c hc; simp at hc; subst hc; decide) hp
    exact ⟨_, hst, styleSim_ei raw⟩
  split at h
  · rename_i hp
    simp only [Option.some.injEq, Prod.mk.injEq] at h
    obtain ⟨rfl, rfl⟩ := h
    obtain ⟨raw, hst⟩ := start_form 'u' [] s acc out 8 (by simp) (by intro c hc; simp at hc; subst hc; decide)
      (by decide) hp
    exact ⟨_, hst, styleSim_u raw⟩
  split at h
  · rename_i hp
    simp only [Option.some.injEq, Prod.mk.injEq] at h
    obtain ⟨rfl, rfl⟩ := h
    obtain ⟨raw, hst⟩ := end_form 'u' [] s acc out 8 (by simp) (by intro c hc; simp at hc; subst hc; decide) hp
    exact ⟨_, hst, styleSim_eu raw⟩
  split at h
  · rename_i hp
    simp only [Option.some.injEq, Prod.mk.injEq] at h
    obtain ⟨rfl, rfl⟩ := h
    obtain ⟨raw, hst⟩ := end_form 'f' ['o', 'n', 't'] s acc out 8 (by simp)
      (by intro c hc; simp at hc; rcases hc with hc | hc | hc | hc <;> (subst hc; decide)) hp
    exact ⟨_, hst, styleSim_efont raw⟩
  split at h
  · rename_i rest hdp
    split at h
    · rename_i after' hdrop
      split at h
      · simp at h
      · rename_i hcont
        simp only [Option.some.injEq, Prod.mk.injEq] at h
        obtain ⟨rfl, rfl⟩ := h
        have hamp : (rest.takeWhile (· != '"')).contains '&' = false := by
          cases hc : (rest.takeWhile (· != '"')).contains '&' with
          | false => rfl
          | true => rw [hc] at hcont; simp at hcont
        obtain ⟨raw, hst⟩ := font_form s rest _ _ acc out hdp rfl hdrop hamp
        exact ⟨_, hst, styleSim_font raw _⟩
    · simp at h
  · simp at h

/-- **HEADLINE.** every emphasis tag the independent SubRip decoder recognises is turned by one
    iteration of the tokenizer model into exactly one start / end tag token (after the pending text),
    the scan resumes where the decoder resumes, and the reader's `stepTok` applies the decoder's style
    update to its running style -/
theorem tag_sim (c : Char) (tl : Str) (f : Sty → Sty) (after : Str)
    (h : tagAt ('<' :: c :: tl) = some (f, after)) (acc : Str) (out : List Tok) :
    ∃ t : Tok, tokStep ('<' :: c :: tl) acc out = .next after [] (t :: flushText acc out) ∧
      ∀ (r : Run) (items : List LItem),
        (stepTok (r, items) t).2 = items ∧ styOf (stepTok (r, items) t).1 = f (styOf r) :=
  tag_sim_gen _ f after h acc out

end SRTRead2
end Astisub
