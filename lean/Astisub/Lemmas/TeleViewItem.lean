import Astisub.Lemmas.TeleDecode
import Astisub.Driver.Teletext
import Std.Data.String.ToNat

/-!
# Lemmas/TeleViewItem — the driver's `viewItem` reads `itemOf r` back as `denote (viewM r)`

`viewItem` (Driver/Teletext.lean) looks the teletext attributes up in the sorted key/value list of a line item.
Sorting does not matter for look-ups (keys are distinct), the eight colours are recognised, the flags are the
style's, and the blank counts survive `toString` / `String.toNat?`.
-/

namespace Astisub
namespace Teletext
open Go

/-! ## look-ups in a sorted key/value list -/

theorem find?_perm {α} (p : α → Bool) {l1 l2 : List α} (h : l1.Perm l2)
    (hu : ∀ a ∈ l1, ∀ b ∈ l1, p a = true → p b = true → a = b) : l1.find? p = l2.find? p := by
  induction h with
  | nil => rfl
  | cons x _ ih =>
    simp only [List.find?_cons]
    split
    · rfl
    · exact ih (fun a ha b hb => hu a (List.mem_cons_of_mem _ ha) b (List.mem_cons_of_mem _ hb))
  | swap x y l =>
    simp only [List.find?_cons]
    cases hx : p x <;> cases hy : p y <;> simp only []
    exact congrArg some (hu y (by simp) x (by simp) hy hx)
  | trans h1 _ ih1 ih2 =>
    exact (ih1 hu).trans (ih2 (fun a ha b hb => hu a (h1.symm.subset ha) b (h1.symm.subset hb)))

theorem eq_of_nodup_map {α β} (f : α → β) : ∀ (l : List α), (l.map f).Nodup → ∀ a ∈ l, ∀ b ∈ l, f a = f b → a = b
  | [], _, a, ha, _, _, _ => by cases ha
  | x :: l, hn, a, ha, b, hb, hab => by
    simp only [List.map_cons, List.nodup_cons] at hn
    rcases List.mem_cons.mp ha with e1 | e1 <;> rcases List.mem_cons.mp hb with e2 | e2
    · rw [e1, e2]
    · subst e1; exact absurd (hab ▸ List.mem_map_of_mem e2) hn.1
    · subst e2; exact absurd (hab ▸ List.mem_map_of_mem e1) hn.1
    · exact eq_of_nodup_map f l hn.2 a e1 b e2 hab

/-- the set entries of an optional key/value list -/
def rawKV (l : List (Str × Option Str)) : KV := l.filterMap fun e => e.2.map fun v => (e.1, v)

theorem mkAttrs_eq (l : List (String × Option Str)) :
    mkAttrs l = sortKV (rawKV (l.map fun e => (e.1.toList, e.2))) := by
  unfold mkAttrs rawKV
  rw [List.filterMap_map]
  rfl

theorem rawKV_keys_sublist : ∀ (l : List (Str × Option Str)), ((rawKV l).map (·.1)).Sublist (l.map (·.1))
  | [] => List.Sublist.slnil
  | e :: l => by
    unfold rawKV
    simp only [List.filterMap_cons, List.map_cons]
    cases e.2 with
    | none => exact (rawKV_keys_sublist l).cons _
    | some v => exact (rawKV_keys_sublist l).cons₂ _

theorem find?_rawKV_none (k : Str) : ∀ (l : List (Str × Option Str)), (∀ e ∈ l, e.1 ≠ k) →
    (rawKV l).find? (fun e => e.1 == k) = none
  | [], _ => rfl
  | e :: l, h => by
    unfold rawKV
    simp only [List.filterMap_cons]
    have ih := find?_rawKV_none k l (fun x hx => h x (by simp [hx]))
    unfold rawKV at ih
    cases e.2 with
    | none => exact ih
    | some v =>
      simp only [Option.map_some, List.find?_cons]
      have : (e.1 == k) = false := by simp [h e (by simp)]
      rw [this]; exact ih

/-- look-up in the set entries = look-up in the optional list -/
theorem find?_rawKV (k : Str) : ∀ (l : List (Str × Option Str)), (l.map (·.1)).Nodup →
    ((rawKV l).find? (fun e => e.1 == k)).map (·.2) = (l.find? (fun e => e.1 == k)).bind (·.2)
  | [], _ => rfl
  | e :: l, hn => by
    simp only [List.map_cons, List.nodup_cons] at hn
    have ih := find?_rawKV k l hn.2
    by_cases hk : e.1 = k
    · have hk' : (e.1 == k) = true := by simp [hk]
      simp only [List.find?_cons, hk', Option.bind_some]
      unfold rawKV
      simp only [List.filterMap_cons]
      cases hv : e.2 with
      | none =>
        have := find?_rawKV_none k l (fun x hx hxk => hn.1 (by rw [hk, ← hxk]; exact List.mem_map_of_mem hx))
        unfold rawKV at this
        simp only [this, Option.map_none]
      | some v => simp only [Option.map_some, List.find?_cons, hk']
    · have hk' : (e.1 == k) = false := by simp [hk]
      simp only [List.find?_cons, hk']
      rw [← ih]
      unfold rawKV
      simp only [List.filterMap_cons]
      cases e.2 with
      | none => rfl
      | some v => simp only [Option.map_some, List.find?_cons, hk']

/-- **look-up in `mkAttrs`**: sorting and dropping unset entries do not matter when the keys are distinct -/
theorem kvGet_mkAttrs (l : List (String × Option Str)) (hn : (l.map (·.1.toList)).Nodup) (k : String) :
    Driver.TT.kvGet (some (mkAttrs l)) k = (l.find? (fun e => e.1.toList == k.toList)).bind (·.2) := by
  unfold Driver.TT.kvGet
  simp only [mkAttrs_eq, sortKV]
  have hn' : ((l.map fun e => (e.1.toList, e.2)).map (·.1)).Nodup := by
    rw [List.map_map]; exact hn
  have hraw : ((rawKV (l.map fun e => (e.1.toList, e.2))).map (·.1)).Nodup := hn'.sublist (rawKV_keys_sublist _)
  rw [← find?_perm _ (List.mergeSort_perm _ _).symm, find?_rawKV k.toList _ hn', List.find?_map]
  · have : ((fun e : Str × Option Str => e.1 == k.toList) ∘ fun e : String × Option Str => (e.1.toList, e.2)) =
        fun e => e.1.toList == k.toList := rfl
    rw [this]
    cases l.find? (fun e => e.1.toList == k.toList) <;> rfl
  · intro a ha b hb hpa hpb
    exact eq_of_nodup_map (·.1) _ hraw a ha b hb (by simp at hpa hpb; rw [hpa, hpb])

/-! ## the attributes of `itemOf r` -/

/-- the optional entries `appendTeletextLineItem` sets -/
def entries (r : MRun) : List (String × Option Str) := [
  ("TTMLColor", r.1.color.map fun c => (colorStrings c).2),
  ("TeletextColor", r.1.color.map fun c => (colorStrings c).1),
  ("TeletextDoubleHeight", r.1.dh.map boolStr), ("TeletextDoubleSize", r.1.ds.map boolStr),
  ("TeletextDoubleWidth", r.1.dw.map boolStr),
  ("TeletextSpacesAfter", some (natStr (countLeading r.2.reverse))),
  ("TeletextSpacesBefore", some (natStr (countLeading r.2)))]

theorem entries_nodup (r : MRun) : ((entries r).map (·.1.toList)).Nodup := by
  simp only [entries, List.map_cons, List.map_nil]
  decide

theorem itemOf_attrs (r : MRun) : (itemOf r).attrs = some (mkAttrs (entries r)) := rfl

theorem kvGet_itemOf (r : MRun) (k : String) :
    Driver.TT.kvGet (itemOf r).attrs k = ((entries r).find? (fun e => e.1.toList == k.toList)).bind (·.2) := by
  rw [itemOf_attrs, kvGet_mkAttrs _ (entries_nodup r)]

theorem get_color (r : MRun) : Driver.TT.kvGet (itemOf r).attrs "TeletextColor" = r.1.color.map fun c => (colorStrings c).1 := by
  rw [kvGet_itemOf]; simp [entries]
theorem get_ttml (r : MRun) : Driver.TT.kvGet (itemOf r).attrs "TTMLColor" = r.1.color.map fun c => (colorStrings c).2 := by
  rw [kvGet_itemOf]; simp [entries]
theorem get_dh (r : MRun) : Driver.TT.kvGet (itemOf r).attrs "TeletextDoubleHeight" = r.1.dh.map boolStr := by
  rw [kvGet_itemOf]; simp [entries]
theorem get_ds (r : MRun) : Driver.TT.kvGet (itemOf r).attrs "TeletextDoubleSize" = r.1.ds.map boolStr := by
  rw [kvGet_itemOf]; simp [entries]
theorem get_dw (r : MRun) : Driver.TT.kvGet (itemOf r).attrs "TeletextDoubleWidth" = r.1.dw.map boolStr := by
  rw [kvGet_itemOf]; simp [entries]
theorem get_after (r : MRun) :
    Driver.TT.kvGet (itemOf r).attrs "TeletextSpacesAfter" = some (natStr (countLeading r.2.reverse)) := by
  rw [kvGet_itemOf]; simp [entries]
theorem get_before (r : MRun) :
    Driver.TT.kvGet (itemOf r).attrs "TeletextSpacesBefore" = some (natStr (countLeading r.2)) := by
  rw [kvGet_itemOf]; simp [entries]

theorem natStr_toNat (n : Nat) : (String.ofList (natStr n)).toNat? = some n := by
  unfold natStr
  rw [String.ofList_toList]
  exact Nat.toNat?_repr n

theorem flag_eq (o : Option Bool) : (o.map boolStr == some "true".toList) = o.getD false := by
  cases o with
  | none => rfl
  | some b => cases b <;> decide

set_option maxRecDepth 8192 in
/-- the driver's colour table recognises the two colour attributes of each of the eight teletext colours -/
theorem colour_table : ∀ col, col < 8 →
    Driver.TT.colours.findIdx? (fun e => e.1.toList == (colorStrings col).1) = some col ∧
    (Driver.TT.colours[col]?).map (·.2.toList) = some (colorStrings col).2 := by decide

/-- **`viewItem ∘ itemOf`**: for a raw run whose colour (if any) is one of the eight teletext colours, the driver reads
    the item back as: the attributes the style denotes, the item's trimmed text, the blank counts -/
theorem viewItem_itemOf (r : MRun) (h : ∀ col, r.1.color = some col → col < 8) :
    Driver.TT.viewItem (itemOf r) =
      some { attr := attrOf r.1, text := trimSpace r.2, before := countLeading r.2, after := countLeading r.2.reverse } := by
  unfold Driver.TT.viewItem
  simp only [get_color, get_ttml, get_dh, get_ds, get_dw, get_after, get_before, Option.bind_some, natStr_toNat, flag_eq]
  cases hcol : r.1.color with
  | none => simp [attrOf, hcol, itemOf]
  | some col =>
    have h8 : col < 8 := h col hcol
    simp only [Option.map_some, (colour_table col h8).1, (colour_table col h8).2, BEq.rfl, if_true]
    simp [attrOf, hcol, itemOf]

end Teletext
end Astisub
