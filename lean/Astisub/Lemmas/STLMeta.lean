import Astisub.Lemmas.STLDecide

/-!
# Lemmas/STLMeta — from the metadata the caller passes to `WriteToSTL` to the GSI block: `newGSI` keeps
well-formed metadata well-formed
-/

namespace Astisub
namespace C05
open Go STL

def firstStart (cues : List WCue) : Int := match cues with | c :: _ => c.startAt | [] => 0

/-- **metadata the format can carry under display standard 0** (decidable), for a document written on day `now`
    whose first cue starts at `first`: frame rate 25 or 30, open subtitling, the eleven text values fit their
    fields and start and end with a graphic ASCII character, the dates (or `now` in their place) exist, the
    numbers (or the writer's defaults 40 and 23) are within 0–99, programme start and first cue below 100 h -/
def MetaOK (now : Date) (m : Meta) (first : Int) : Prop :=
  (m.framerate = 25 ∨ m.framerate = 30) ∧ m.dsc = [0x30] ∧ fieldOK 32 m.title = true ∧
  fieldOK 32 m.origEpisode = true ∧ fieldOK 32 m.translProgram = true ∧ fieldOK 32 m.translEpisode = true ∧
  fieldOK 32 m.translName = true ∧ fieldOK 32 m.translContact = true ∧ fieldOK 16 m.slr = true ∧
  fieldOK 3 m.country = true ∧ fieldOK 32 m.publisher = true ∧ fieldOK 32 m.editorName = true ∧
  fieldOK 32 m.editorContact = true ∧
  dateOK (m.creation.getD now) = true ∧ dateOK (m.revisionDate.getD now) = true ∧
  (0 ≤ m.revisionNumber ∧ m.revisionNumber < 100) ∧
  (0 ≤ m.maxChars.getD 40 ∧ m.maxChars.getD 40 < 100) ∧
  (0 ≤ m.maxRows.getD 23 ∧ m.maxRows.getD 23 < 100) ∧
  m.tcp < 360000000000000 ∧ first + m.tcp < 360000000000000

instance (now : Date) (m : Meta) (first : Int) : Decidable (MetaOK now m first) := by unfold MetaOK; infer_instance

theorem langCodes_ok : ∀ e ∈ Generated.STL.languages, fieldOK 2 e.2.2 = true := by decide

theorem langCode_ok (name : Bytes) : fieldOK 2 ((languageCodeOf name).getD (lit "0F")) = true := by
  unfold languageCodeOf
  cases h : Generated.STL.languages.find? fun e => e.2.1 == name with
  | none => decide
  | some e => exact langCodes_ok e (List.mem_of_find?_eq_some h)

theorem newGSI_ok (now : Date) (m : Meta) (cues : List WCue) (h : MetaOK now m (firstStart cues)) :
    GsiOK (newGSI now (some m) cues) ∧ (newGSI now (some m) cues).m.dsc = [0x30] := by
  obtain ⟨hfr, hdsc, htitle, horig, htp, hte, htn, htc, hslr, hcountry, hpub, hen, hec, hcd, hrd, hrn, hmc, hmr, htcp, htcf⟩ := h
  have hdfc : (dfcOf m.framerate).isSome = true := by rcases hfr with e | e <;> rw [e] <;> decide
  have hd : (if m.dsc.isEmpty = true then (defaultMeta now).dsc else m.dsc) = [0x30] := by rw [hdsc]; rfl
  refine ⟨?_, ?_⟩
  · unfold GsiOK newGSI
    simp only [hdfc, if_true, hd, Option.getD_some]
    exact ⟨hfr, by decide, langCode_ok _, htitle, horig, htp, hte, htn, htc, hslr, hcountry, hpub, hen, hec, hcd, hrd, hrn,
      hmc, hmr, htcp, htcf⟩
  · unfold newGSI
    exact hd

end C05
end Astisub
