import Astisub.Lemmas.SRTDoc
import Astisub.Lemmas.SRTStr

/-!
# Lemmas/SRTLine — one written text line, read back

`lineStr l` (the bytes `Line.srtBytes` writes, without the LF) is the concatenation of the raw
texts of `lineToks l`; for a representable line the tokenizer returns exactly these tokens and
`parseTextSrt` folds them into the runs of `normLine l`, leaving the running style empty.
-/

namespace Astisub
namespace SRTDoc
open Go SRT List

/-- opening tags of a run, in the writer's order: font, b, i, u -/
def openers (r : Run) : List Tok :=
  (match r.color with | some c => [tokFont c] | none => []) ++ (if r.bold then [tokB] else [])
    ++ (if r.italics then [tokI] else []) ++ (if r.underline then [tokU] else [])

/-- closing tags, in the writer's order: u, i, b, font -/
def closers (r : Run) : List Tok :=
  (if r.underline then [tokEU] else []) ++ (if r.italics then [tokEI] else [])
    ++ (if r.bold then [tokEB] else []) ++ (match r.color with | some _ => [tokEFont] | none => [])

def runToks (li : LItem) : List Tok :=
  openers (styleOf li) ++ Tok.text (escapeHTML li.text) :: closers (styleOf li)

def lineToks (l : Line) : List Tok := l.items.flatMap runToks

/-- **Writer = tokens.** what the writer emits for a run without `SRTPosition` is the raw text of `runToks` -/
theorem runBytes_eq (li : LItem) (hpos : (kvGet li.attrs "SRTPosition").getD [] = []) :
    runBytes li = (runToks li).flatMap Tok.raw := by
  unfold runBytes runToks openers closers styleOf
  simp only [hpos]
  cases hc : kvGet li.attrs "SRTColor" with
  | none =>
    cases (kvGet li.attrs "SRTBold").isSome <;> cases (kvGet li.attrs "SRTItalics").isSome <;>
      cases (kvGet li.attrs "SRTUnderline").isSome <;>
      simp [Tok.raw, tokB, tokI, tokU, tokEB, tokEI, tokEU]
  | some c =>
    by_cases hne : c = []
    · subst hne
      cases (kvGet li.attrs "SRTBold").isSome <;> cases (kvGet li.attrs "SRTItalics").isSome <;>
        cases (kvGet li.attrs "SRTUnderline").isSome <;>
        simp [Tok.raw, tokB, tokI, tokU, tokEB, tokEI, tokEU]
    · cases (kvGet li.attrs "SRTBold").isSome <;> cases (kvGet li.attrs "SRTItalics").isSome <;>
        cases (kvGet li.attrs "SRTUnderline").isSome <;>
        simp [Tok.raw, tokB, tokI, tokU, tokEB, tokEI, tokEU, tokFont, tokEFont, hne]

/-! ### the tokens are writer tokens -/

theorem mem_openers {r : Run} {t : Tok} (h : t ∈ openers r) :
    (∃ c, r.color = some c ∧ t = tokFont c) ∨ t = tokB ∨ t = tokI ∨ t = tokU := by
  unfold openers at h
  simp only [List.mem_append] at h
  rcases h with ((h | h) | h) | h
  · cases hc : r.color with
    | none => simp [hc] at h
    | some c => simp [hc] at h; exact Or.inl ⟨c, rfl, h⟩
  · split at h <;> simp at h; exact Or.inr (Or.inl h)
  · split at h <;> simp at h; exact Or.inr (Or.inr (Or.inl h))
  · split at h <;> simp at h; exact Or.inr (Or.inr (Or.inr h))

theorem mem_closers {r : Run} {t : Tok} (h : t ∈ closers r) :
    t = tokEU ∨ t = tokEI ∨ t = tokEB ∨ t = tokEFont := by
  unfold closers at h
  simp only [List.mem_append] at h
  rcases h with ((h | h) | h) | h
  · split at h <;> simp at h; exact Or.inl h
  · split at h <;> simp at h; exact Or.inr (Or.inl h)
  · split at h <;> simp at h; exact Or.inr (Or.inr (Or.inl h))
  · cases hc : r.color with
    | none => simp [hc] at h
    | some c => simp [hc] at h; exact Or.inr (Or.inr (Or.inr h))

theorem openers_tags (r : Run) : ∀ t ∈ openers r, t.isText = false := by
  intro t ht
  rcases mem_openers ht with ⟨c, _, rfl⟩ | rfl | rfl | rfl <;> rfl

theorem closers_tags (r : Run) : ∀ t ∈ closers r, t.isText = false := by
  intro t ht
  rcases mem_closers ht with rfl | rfl | rfl | rfl <;> rfl

theorem openers_writer (r : Run) (hc : ∀ c, r.color = some c → colorOK c = true) : ∀ t ∈ openers r, WriterTok t := by
  intro t ht
  rcases mem_openers ht with ⟨c, h, rfl⟩ | rfl | rfl | rfl
  · exact .font c (hc c h)
  · exact .b
  · exact .i
  · exact .u

theorem closers_writer (r : Run) : ∀ t ∈ closers r, WriterTok t := by
  intro t ht
  rcases mem_closers ht with rfl | rfl | rfl | rfl
  · exact .eu
  · exact .ei
  · exact .eb
  · exact .efont

theorem openers_ne_nil (r : Run) (h : styled r = true) : openers r ≠ [] := by
  rcases r with ⟨b, i, u, c⟩
  cases b <;> cases i <;> cases u <;> cases c <;> simp [openers, styled] at h ⊢

theorem closers_ne_nil (r : Run) (h : styled r = true) : closers r ≠ [] := by
  rcases r with ⟨b, i, u, c⟩
  cases b <;> cases i <;> cases u <;> cases c <;> simp [closers, styled] at h ⊢

theorem openers_plain (r : Run) (h : styled r = false) : openers r = [] := by
  rcases r with ⟨b, i, u, c⟩
  cases b <;> cases i <;> cases u <;> cases c <;> simp [openers, styled] at h ⊢

theorem closers_plain (r : Run) (h : styled r = false) : closers r = [] := by
  rcases r with ⟨b, i, u, c⟩
  cases b <;> cases i <;> cases u <;> cases c <;> simp [closers, styled] at h ⊢

/-! ### no two text tokens are adjacent -/

theorem noAdj_cons_tag (t : Tok) (ts : List Tok) (h : t.isText = false) : noAdjText (t :: ts) = noAdjText ts := by
  cases ts with
  | nil => rfl
  | cons b r => simp [noAdjText, h]

theorem noAdj_tags_append (a b : List Tok) (h : ∀ t ∈ a, t.isText = false) : noAdjText (a ++ b) = noAdjText b := by
  induction a with
  | nil => rfl
  | cons t a ih =>
    rw [List.cons_append, noAdj_cons_tag _ _ (h t (by simp)), ih (fun x hx => h x (by simp [hx]))]

theorem noAdj_text_cons (r : Str) (ts : List Tok) :
    noAdjText (Tok.text r :: ts) = (!headIsText ts && noAdjText ts) := by
  cases ts with
  | nil => rfl
  | cons b r' => simp [noAdjText, headIsText, Tok.isText]

theorem headIsText_tags_append (a b : List Tok) (hne : a ≠ []) (h : ∀ t ∈ a, t.isText = false) :
    headIsText (a ++ b) = false := by
  cases a with
  | nil => exact absurd rfl hne
  | cons t a => simp [headIsText, h t (by simp)]

theorem headIsText_runToks (li : LItem) (rest : List Tok) : headIsText (runToks li ++ rest) = plainRun li := by
  unfold runToks plainRun
  cases hs : styled (styleOf li) with
  | true =>
    rw [List.append_assoc, headIsText_tags_append _ _ (openers_ne_nil _ hs) (openers_tags _)]; rfl
  | false => rw [openers_plain _ hs]; rfl

theorem noAdj_runToks (li : LItem) (rest : List Tok) :
    noAdjText (runToks li ++ rest) = (!(plainRun li && headIsText rest) && noAdjText rest) := by
  unfold runToks plainRun
  cases hs : styled (styleOf li) with
  | true =>
    rw [List.append_assoc, noAdj_tags_append _ _ (openers_tags _), List.cons_append, noAdj_text_cons,
      headIsText_tags_append _ _ (closers_ne_nil _ hs) (closers_tags _), noAdj_tags_append _ _ (closers_tags _)]
    simp
  | false =>
    rw [openers_plain _ hs, closers_plain _ hs]
    simp [noAdj_text_cons]

theorem headIsText_flatMap (items : List LItem) :
    headIsText (items.flatMap runToks) = (match items.head? with | some li => plainRun li | none => false) := by
  cases items with
  | nil => rfl
  | cons li rest => rw [List.flatMap_cons, headIsText_runToks]; rfl

theorem noAdj_lineToks (items : List LItem) (h : noAdjPlain items = true) : noAdjText (items.flatMap runToks) = true := by
  induction items with
  | nil => rfl
  | cons li rest ih =>
    rw [List.flatMap_cons, noAdj_runToks, headIsText_flatMap]
    cases rest with
    | nil => simp [noAdjText]
    | cons b r =>
      simp only [noAdjPlain, Bool.and_eq_true] at h
      rw [ih h.2]
      simpa using h.1

/-! ### the fold of `parseTextSrt` over the tokens of a run -/

theorem foldl_openers (r : Run) (items : List LItem) : (openers r).foldl stepTok (({} : Run), items) = (r, items) := by
  rcases r with ⟨b, i, u, c⟩
  cases b <;> cases i <;> cases u <;> cases c <;>
    simp [openers, stepTok, tokB, tokI, tokU, tokFont, List.lookup]

theorem foldl_closers (r : Run) (items : List LItem) : (closers r).foldl stepTok (r, items) = (({} : Run), items) := by
  rcases r with ⟨b, i, u, c⟩
  cases b <;> cases i <;> cases u <;> cases c <;>
    simp [closers, stepTok, tokEB, tokEI, tokEU, tokEFont]

/-! ### escaped text: not blank, no `<`, no NUL -/

theorem mem_dropWhile_of_false {α} (p : α → Bool) (l : List α) (c : α) (hc : c ∈ l) (hp : p c = false) :
    c ∈ l.dropWhile p := by
  induction l with
  | nil => simp at hc
  | cons x xs ih =>
    rw [List.dropWhile_cons]
    split
    · rename_i hx
      rcases List.mem_cons.mp hc with rfl | h
      · rw [hp] at hx; exact absurd hx (by simp)
      · exact ih h
    · exact hc

theorem trimSpace_ne_nil_of_mem (s : Str) (c : Char) (hc : c ∈ s) (hp : isSpace c = false) : trimSpace s ≠ [] := by
  unfold trimSpace trimRight trimLeft
  have h1 : c ∈ s.dropWhile isSpace := mem_dropWhile_of_false _ _ _ hc hp
  have h2 : c ∈ ((s.dropWhile isSpace).reverse.dropWhile isSpace) :=
    mem_dropWhile_of_false _ _ _ (by simpa using h1) hp
  intro h
  have : c ∈ ((s.dropWhile isSpace).reverse.dropWhile isSpace).reverse := by simpa using h2
  rw [h] at this
  simp at this

theorem esc1_has_ink (c : Char) (h : visible c = true) : ∃ d ∈ C01.esc1 c, isSpace d = false := by
  unfold C01.esc1
  split
  · exact ⟨'&', by simp, by decide⟩
  · split
    · exact ⟨'&', by simp, by decide⟩
    · split
      · exact ⟨'&', by simp, by decide⟩
      · rename_i h1 h2 h3
        refine ⟨c, by simp, ?_⟩
        simp only [visible, Bool.or_eq_true, Bool.not_eq_eq_eq_not, Bool.not_true, beq_iff_eq] at h
        rcases h with h | h
        · exact h
        · exact absurd h h3

theorem escape_not_blank (t : Str) (h : t.any visible = true) : trimSpace (escapeHTML t) ≠ [] := by
  obtain ⟨c, hc, hv⟩ := List.any_eq_true.mp h
  obtain ⟨d, hd, hs⟩ := esc1_has_ink c hv
  refine trimSpace_ne_nil_of_mem _ d ?_ hs
  rw [C01.escape_eq_flatMap]
  exact List.mem_flatMap.mpr ⟨c, hc, hd⟩

theorem escape_ne_nil (t : Str) (h : t.any visible = true) : escapeHTML t ≠ [] := by
  intro h0
  have := escape_not_blank t h
  rw [h0] at this
  exact this rfl

theorem esc1_no_char (c x : Char) (hx : x ≠ '&' ∧ x ≠ 'a' ∧ x ≠ 'm' ∧ x ≠ 'p' ∧ x ≠ ';' ∧ x ≠ 'l' ∧ x ≠ 't' ∧ x ≠ 'n' ∧ x ≠ 'b' ∧ x ≠ 's')
    (hc : c ≠ x) : x ∉ C01.esc1 c := by
  obtain ⟨h1, h2, h3, h4, h5, h6, h7, h8, h9, h10⟩ := hx
  unfold C01.esc1
  split
  · simp [h1, h2, h3, h4, h5]
  · split
    · simp [h1, h5, h6, h7]
    · split
      · simp [h1, h4, h5, h8, h9, h10]
      · simp; exact fun e => hc e.symm

/-- a character outside `& a m p ; l t n b s` is in the escaped text only if it was in the text -/
theorem escape_no_char (t : Str) (x : Char)
    (hx : x ≠ '&' ∧ x ≠ 'a' ∧ x ≠ 'm' ∧ x ≠ 'p' ∧ x ≠ ';' ∧ x ≠ 'l' ∧ x ≠ 't' ∧ x ≠ 'n' ∧ x ≠ 'b' ∧ x ≠ 's')
    (h : x ∉ t) : x ∉ escapeHTML t := by
  rw [C01.escape_eq_flatMap]
  intro hm
  obtain ⟨c, hc, hd⟩ := List.mem_flatMap.mp hm
  exact esc1_no_char c x hx (fun e => h (e ▸ hc)) hd

theorem escape_plain (t : Str) (h0 : '\x00' ∉ t) : ∀ c ∈ escapeHTML t, plainChar c = true := by
  intro c hc
  have h1 : c ≠ '<' := fun e => C01.escape_no_lt t (e ▸ hc)
  have h2 : c ≠ '\x00' := fun e => escape_no_char t '\x00' (by decide) h0 (e ▸ hc)
  simp [plainChar, h1, h2]

theorem foldl_runToks (li : LItem) (items : List LItem) (hvis : li.text.any visible = true) :
    (runToks li).foldl stepTok (({} : Run), items) = (({} : Run), items ++ [normRun li]) := by
  unfold runToks
  rw [List.foldl_append, foldl_openers, List.foldl_cons]
  have h := escape_not_blank li.text hvis
  have : stepTok (styleOf li, items) (Tok.text (escapeHTML li.text))
      = (styleOf li, items ++ [normRun li]) := by
    simp only [stepTok, ne_eq, h, not_false_eq_true, ↓reduceIte, C01.unescape_escape, normRun]
  rw [this, foldl_closers]

/-! ### consequences of `RepRun` / `RepLine` -/

theorem repRun_vis {li : LItem} (h : RepRun li = true) : li.text.any visible = true := by
  simp only [RepRun, Bool.and_eq_true] at h; exact h.1.1.1.1
theorem repRun_chars {li : LItem} (h : RepRun li = true) :
    ∀ c ∈ li.text, c ≠ '\n' ∧ c ≠ '\r' ∧ c ≠ '\x00' := by
  simp only [RepRun, Bool.and_eq_true] at h
  intro c hc
  have := List.all_eq_true.mp h.1.1.1.2 c hc
  simpa [and_assoc] using this
theorem repRun_noArrow {li : LItem} (h : RepRun li = true) : Go.contains arrow li.text = false := by
  simp only [RepRun, Bool.and_eq_true] at h; simpa using h.1.1.2
theorem repRun_pos {li : LItem} (h : RepRun li = true) : (kvGet li.attrs "SRTPosition").getD [] = [] := by
  simp only [RepRun, Bool.and_eq_true] at h; simpa using h.1.2
theorem repRun_color {li : LItem} (h : RepRun li = true) : ∀ c, (styleOf li).color = some c → colorRep c = true := by
  simp only [RepRun, Bool.and_eq_true] at h
  intro c hc; have := h.2; rw [hc] at this; exact this

theorem colorRep_ok {c : Str} (h : colorRep c = true) : colorOK c = true := by
  unfold colorRep at h; unfold colorOK
  apply List.all_eq_true.mpr
  intro x hx
  have := List.all_eq_true.mp h x hx
  simp only [Bool.and_eq_true] at this ⊢
  exact ⟨⟨this.1.1.1.1.1, this.1.1.1.1.2⟩, this.2⟩

theorem repLine_items_ne {l : Line} (h : RepLine l = true) : l.items ≠ [] := by
  simp only [RepLine, Bool.and_eq_true] at h
  intro e; rw [e] at h; simp at h
theorem repLine_runs {l : Line} (h : RepLine l = true) : ∀ li ∈ l.items, RepRun li = true := by
  simp only [RepLine, Bool.and_eq_true] at h
  exact List.all_eq_true.mp h.1.1.1.2
theorem repLine_noAdj {l : Line} (h : RepLine l = true) : noAdjPlain l.items = true := by
  simp only [RepLine, Bool.and_eq_true] at h; exact h.1.1.2

theorem runToks_writer (li : LItem) (h : RepRun li = true) : ∀ t ∈ runToks li, WriterTok t := by
  intro t ht
  unfold runToks at ht
  rcases List.mem_append.mp ht with ht | ht
  · exact openers_writer _ (fun c hc => colorRep_ok (repRun_color h c hc)) t ht
  · rcases List.mem_cons.mp ht with rfl | ht
    · exact .text _ (escape_ne_nil _ (repRun_vis h)) (escape_plain _ (fun hm => (repRun_chars h _ hm).2.2 rfl))
    · exact closers_writer _ t ht

theorem runsBytes_eq (items : List LItem) (h : ∀ li ∈ items, RepRun li = true) :
    (items.map runBytes).flatten = (items.flatMap runToks).flatMap Tok.raw := by
  induction items with
  | nil => rfl
  | cons li rest ih =>
    rw [List.map_cons, List.flatten_cons, List.flatMap_cons, List.flatMap_append,
      runBytes_eq li (repRun_pos (h li (by simp))), ih (fun x hx => h x (by simp [hx]))]

theorem lineStr_eq (l : Line) (h : ∀ li ∈ l.items, RepRun li = true) : lineStr l = (lineToks l).flatMap Tok.raw :=
  runsBytes_eq l.items h

/-- **Tokenizer on a written line.** -/
theorem tokenize_lineStr (l : Line) (h : RepLine l = true) : tokenize (lineStr l) = .ok (lineToks l) := by
  rw [lineStr_eq l (repLine_runs h)]
  apply tokenize_writerToks
  · intro t ht
    obtain ⟨li, hli, ht⟩ := List.mem_flatMap.mp ht
    exact runToks_writer li (repLine_runs h li hli) t ht
  · exact noAdj_lineToks _ (repLine_noAdj h)

theorem foldl_lineToks (items acc : List LItem) (h : ∀ li ∈ items, RepRun li = true) :
    (items.flatMap runToks).foldl stepTok (({} : Run), acc) = (({} : Run), acc ++ items.map normRun) := by
  induction items generalizing acc with
  | nil => simp
  | cons li rest ih =>
    rw [List.flatMap_cons, List.foldl_append, foldl_runToks li acc (repRun_vis (h li (by simp))),
      ih _ (fun x hx => h x (by simp [hx]))]
    simp

/-! ### `strings.TrimSpace` leaves a written line alone -/

theorem trimSpace_id_edges (s : Str) (hh : ∀ c, s.head? = some c → isSpace c = false)
    (hl : ∀ c, s.getLast? = some c → isSpace c = false) : trimSpace s = s := by
  cases s with
  | nil => rfl
  | cons c t =>
    have h1 : (c :: t).dropWhile isSpace = c :: t := by simp [List.dropWhile, hh c rfl]
    unfold trimSpace trimRight trimLeft
    rw [h1]
    obtain ⟨d, hd⟩ : ∃ d, (c :: t).getLast? = some d := ⟨_, List.getLast?_eq_some_getLast (by simp)⟩
    obtain ⟨pre, hpre⟩ := List.getLast?_eq_some_iff.mp hd
    have h2 := hl d hd
    rw [hpre]
    simp [h2]

theorem head_openers (r : Run) (h : styled r = true) (y : Str) :
    ((openers r).flatMap Tok.raw ++ y).head? = some '<' := by
  rcases r with ⟨b, i, u, c⟩
  cases c with
  | some c => simp [openers, tokFont, Tok.raw]
  | none => cases b <;> cases i <;> cases u <;> simp [openers, styled, tokB, tokI, tokU, Tok.raw] at h ⊢

theorem last_closers (r : Run) (h : styled r = true) (y : Str) :
    (y ++ (closers r).flatMap Tok.raw).getLast? = some '>' := by
  rcases r with ⟨b, i, u, c⟩
  cases c with
  | some c => cases b <;> cases i <;> cases u <;> simp [closers, tokEB, tokEI, tokEU, tokEFont, Tok.raw, List.getLast?_append]
  | none => cases b <;> cases i <;> cases u <;>
      simp [closers, styled, tokEB, tokEI, tokEU, Tok.raw, List.getLast?_append] at h ⊢

theorem head_esc1 (c : Char) (hv : visible c = true) (y : Str) :
    ∃ d, (C01.esc1 c ++ y).head? = some d ∧ isSpace d = false := by
  unfold C01.esc1
  split
  · exact ⟨'&', by simp, by decide⟩
  · split
    · exact ⟨'&', by simp, by decide⟩
    · split
      · exact ⟨'&', by simp, by decide⟩
      · rename_i h1 h2 h3
        refine ⟨c, by simp, ?_⟩
        simp only [visible, Bool.or_eq_true, Bool.not_eq_eq_eq_not, Bool.not_true, beq_iff_eq] at hv
        rcases hv with h | h
        · exact h
        · exact absurd h h3

theorem last_esc1 (c : Char) (hv : visible c = true) (y : Str) :
    ∃ d, (y ++ C01.esc1 c).getLast? = some d ∧ isSpace d = false := by
  unfold C01.esc1
  split
  · exact ⟨';', by simp [List.getLast?_append], by decide⟩
  · split
    · exact ⟨';', by simp [List.getLast?_append], by decide⟩
    · split
      · exact ⟨';', by simp [List.getLast?_append], by decide⟩
      · rename_i h1 h2 h3
        refine ⟨c, by simp, ?_⟩
        simp only [visible, Bool.or_eq_true, Bool.not_eq_eq_eq_not, Bool.not_true, beq_iff_eq] at hv
        rcases hv with h | h
        · exact h
        · exact absurd h h3

/-- the bytes of a run, in three parts -/
theorem runBytes_parts (li : LItem) (h : RepRun li = true) :
    runBytes li = (openers (styleOf li)).flatMap Tok.raw ++ (escapeHTML li.text ++ (closers (styleOf li)).flatMap Tok.raw) := by
  rw [runBytes_eq li (repRun_pos h)]
  simp [runToks, Tok.raw]

theorem head_runBytes (li : LItem) (h : RepRun li = true)
    (he : styled (styleOf li) = true ∨ li.text.head?.any visible = true) (y : Str) :
    ∃ d, (runBytes li ++ y).head? = some d ∧ isSpace d = false := by
  rw [runBytes_parts li h]
  cases hs : styled (styleOf li) with
  | true => exact ⟨'<', by rw [List.append_assoc, head_openers _ hs], by decide⟩
  | false =>
    rw [openers_plain _ hs, closers_plain _ hs]
    rcases he with he | he
    · rw [hs] at he; exact absurd he (by simp)
    · cases ht : li.text with
      | nil => rw [ht] at he; simp at he
      | cons c t =>
        rw [ht] at he
        simp only [List.head?_cons, Option.any_some] at he
        obtain ⟨d, hd, hsp⟩ := head_esc1 c he (escapeHTML t ++ y)
        refine ⟨d, ?_, hsp⟩
        rw [← hd, escapeHTML_cons]
        simp

theorem last_runBytes (li : LItem) (h : RepRun li = true)
    (he : styled (styleOf li) = true ∨ li.text.getLast?.any visible = true) (y : Str) :
    ∃ d, (y ++ runBytes li).getLast? = some d ∧ isSpace d = false := by
  rw [runBytes_parts li h]
  cases hs : styled (styleOf li) with
  | true =>
    refine ⟨'>', ?_, by decide⟩
    rw [← List.append_assoc, ← List.append_assoc, last_closers _ hs]
  | false =>
    rw [openers_plain _ hs, closers_plain _ hs]
    rcases he with he | he
    · rw [hs] at he; exact absurd he (by simp)
    · cases ht : li.text.getLast? with
      | none => rw [ht] at he; simp at he
      | some c =>
        rw [ht] at he
        simp only [Option.any_some] at he
        obtain ⟨pre, hpre⟩ := List.getLast?_eq_some_iff.mp ht
        obtain ⟨d, hd, hsp⟩ := last_esc1 c he (y ++ escapeHTML pre)
        refine ⟨d, ?_, hsp⟩
        rw [← hd, hpre, C01.escape_eq_flatMap, C01.escape_eq_flatMap]
        simp

theorem repLine_head {l : Line} (h : RepLine l = true) :
    ∃ li rest, l.items = li :: rest ∧ (styled (styleOf li) = true ∨ li.text.head?.any visible = true) := by
  simp only [RepLine, Bool.and_eq_true] at h
  have h1 := h.1.2
  cases hi : l.items with
  | nil => rw [hi] at h1; simp at h1
  | cons li rest => rw [hi] at h1; exact ⟨li, rest, rfl, by simpa using h1⟩

theorem repLine_last {l : Line} (h : RepLine l = true) :
    ∃ pre li, l.items = pre ++ [li] ∧ (styled (styleOf li) = true ∨ li.text.getLast?.any visible = true) := by
  simp only [RepLine, Bool.and_eq_true] at h
  have h1 := h.2
  cases hi : l.items.getLast? with
  | none => rw [hi] at h1; simp at h1
  | some li =>
    rw [hi] at h1
    obtain ⟨pre, hpre⟩ := List.getLast?_eq_some_iff.mp hi
    exact ⟨pre, li, hpre, by simpa using h1⟩

/-- **Trim.** the reader's `strings.TrimSpace` does not change a written line -/
theorem trimSpace_lineStr (l : Line) (h : RepLine l = true) : trimSpace (lineStr l) = lineStr l := by
  apply trimSpace_id_edges
  · intro c hc
    obtain ⟨li, rest, hi, he⟩ := repLine_head h
    obtain ⟨d, hd, hsp⟩ := head_runBytes li (repLine_runs h li (by simp [hi])) he (rest.map runBytes).flatten
    unfold lineStr at hc
    rw [hi, List.map_cons, List.flatten_cons, hd] at hc
    cases hc; exact hsp
  · intro c hc
    obtain ⟨pre, li, hi, he⟩ := repLine_last h
    obtain ⟨d, hd, hsp⟩ := last_runBytes li (repLine_runs h li (by simp [hi])) he (pre.map runBytes).flatten
    unfold lineStr at hc
    rw [hi, List.map_append, List.flatten_append, List.map_singleton, List.flatten_singleton, hd] at hc
    cases hc; exact hsp

theorem lineStr_ne_nil (l : Line) (h : RepLine l = true) : lineStr l ≠ [] := by
  obtain ⟨li, rest, hi, he⟩ := repLine_head h
  obtain ⟨d, hd, _⟩ := head_runBytes li (repLine_runs h li (by simp [hi])) he (rest.map runBytes).flatten
  unfold lineStr
  rw [hi, List.map_cons, List.flatten_cons]
  intro e; rw [e] at hd; simp at hd

/-! ### no line break inside a written line -/

theorem tag_no_char (t : Tok) (x : Char) (hx : x = '\n' ∨ x = '\r')
    (ht : t = tokB ∨ t = tokI ∨ t = tokU ∨ t = tokEB ∨ t = tokEI ∨ t = tokEU ∨ t = tokEFont) : x ∉ t.raw := by
  rcases hx with rfl | rfl <;> rcases ht with rfl | rfl | rfl | rfl | rfl | rfl | rfl <;> decide

theorem runBytes_no_break (li : LItem) (h : RepRun li = true) (x : Char) (hx : x = '\n' ∨ x = '\r') : x ∉ runBytes li := by
  rw [runBytes_parts li h]
  have hxe : x ≠ '&' ∧ x ≠ 'a' ∧ x ≠ 'm' ∧ x ≠ 'p' ∧ x ≠ ';' ∧ x ≠ 'l' ∧ x ≠ 't' ∧ x ≠ 'n' ∧ x ≠ 'b' ∧ x ≠ 's' := by
    rcases hx with rfl | rfl <;> decide
  intro hm
  simp only [List.mem_append, List.mem_flatMap] at hm
  rcases hm with ⟨t, ht, hr⟩ | hm | ⟨t, ht, hr⟩
  · rcases mem_openers ht with ⟨c, hc, rfl⟩ | rfl | rfl | rfl
    · have hcr := List.all_eq_true.mp (repRun_color h c hc)
      simp only [tokFont, Tok.raw, List.mem_append] at hr
      rcases hr with (hr | hr) | hr
      · rcases hx with rfl | rfl <;> revert hr <;> decide
      · have := hcr x hr
        rcases hx with rfl | rfl <;> simp at this
      · rcases hx with rfl | rfl <;> revert hr <;> decide
    · exact tag_no_char _ x hx (by simp) hr
    · exact tag_no_char _ x hx (by simp) hr
    · exact tag_no_char _ x hx (by simp) hr
  · refine escape_no_char li.text x hxe ?_ hm
    intro hm'
    have := repRun_chars h x hm'
    rcases hx with rfl | rfl
    · exact this.1 rfl
    · exact this.2.1 rfl
  · rcases mem_closers ht with rfl | rfl | rfl | rfl <;> exact tag_no_char _ x hx (by simp) hr

theorem lineStr_no_break (l : Line) (h : RepLine l = true) (x : Char) (hx : x = '\n' ∨ x = '\r') : x ∉ lineStr l := by
  unfold lineStr
  intro hm
  obtain ⟨bs, hbs, hx'⟩ := List.mem_flatten.mp hm
  obtain ⟨li, hli, rfl⟩ := List.mem_map.mp hbs
  exact runBytes_no_break li (repLine_runs h li hli) x hx hx'

/-! ### no `-->` in a written text line -/

/-- a piece that neither contains nor helps to complete `-->`, whatever precedes it, and after which
    the scan starts afresh -/
def Safe (a : Str) : Prop := ∀ q, scanArrow q a = false ∧ arrowEnd q a = 0

theorem Safe.append {a b : Str} (ha : Safe a) (hb : Safe b) : Safe (a ++ b) := by
  intro q
  rw [scanArrow_append, arrowEnd_append, (ha q).1, (ha q).2, (hb 0).1, (hb 0).2]
  simp

theorem safe_lt (a : Str) (h0 : scanArrow 0 a = false) (he : arrowEnd 0 a = 0) : Safe ('<' :: a) := by
  intro q
  rw [scanArrow_other q a (by decide) (by decide), arrowEnd_other q a (by decide)]
  exact ⟨h0, he⟩

theorem safe_tag (t : Tok) (ht : t = tokB ∨ t = tokI ∨ t = tokU ∨ t = tokEB ∨ t = tokEI ∨ t = tokEU ∨ t = tokEFont) :
    Safe t.raw := by
  rcases ht with rfl | rfl | rfl | rfl | rfl | rfl | rfl <;> exact safe_lt _ (by decide) (by decide)

theorem safe_font (c : Str) (hc : '>' ∉ c) : Safe (tokFont c).raw := by
  have e : (tokFont c).raw = '<' :: ("font color=\"".toList ++ c ++ "\">".toList) := by simp [tokFont, Tok.raw]
  rw [e]
  apply safe_lt
  · rw [scanArrow_append, scanArrow_append, scanArrow_no_gt _ _ hc]
    have : ∀ q, scanArrow q "\">".toList = false := by
      intro q; rw [show "\">".toList = '"' :: ['>'] from rfl, scanArrow_other q _ (by decide) (by decide)]; decide
    rw [this]; decide
  · rw [show "font color=\"".toList ++ c ++ "\">".toList = ("font color=\"".toList ++ c ++ ['"']) ++ ['>'] by simp]
    exact arrowEnd_snoc _ _ _ (by decide)

theorem safe_flatMap (ts : List Tok) (h : ∀ t ∈ ts, Safe t.raw) (hne : ts ≠ []) : Safe (ts.flatMap Tok.raw) := by
  induction ts with
  | nil => exact absurd rfl hne
  | cons t ts ih =>
    rw [List.flatMap_cons]
    cases ts with
    | nil => simpa using h t (by simp)
    | cons t' ts' => exact (h t (by simp)).append (ih (fun x hx => h x (by simp [hx])) (by simp))

theorem colorRep_no_gt {c : Str} (h : colorRep c = true) : '>' ∉ c := by
  intro hm
  have := List.all_eq_true.mp h '>' hm
  simp at this

theorem safe_openers (li : LItem) (h : RepRun li = true) (hs : styled (styleOf li) = true) :
    Safe ((openers (styleOf li)).flatMap Tok.raw) := by
  apply safe_flatMap _ _ (openers_ne_nil _ hs)
  intro t ht
  rcases mem_openers ht with ⟨c, hc, rfl⟩ | rfl | rfl | rfl
  · exact safe_font c (colorRep_no_gt (repRun_color h c hc))
  · exact safe_tag _ (by simp)
  · exact safe_tag _ (by simp)
  · exact safe_tag _ (by simp)

theorem safe_closers (r : Run) (hs : styled r = true) : Safe ((closers r).flatMap Tok.raw) := by
  apply safe_flatMap _ _ (closers_ne_nil _ hs)
  intro t ht
  rcases mem_closers ht with rfl | rfl | rfl | rfl <;> exact safe_tag _ (by simp)

theorem scan_escape (li : LItem) (h : RepRun li = true) : scanArrow 0 (escapeHTML li.text) = false := by
  have := scanArrow_escape 0 li.text []
  simp only [List.append_nil] at this
  rw [this, ← contains_arrow_eq]
  exact repRun_noArrow h

theorem safe_styled_run (li : LItem) (h : RepRun li = true) (hs : styled (styleOf li) = true) : Safe (runBytes li) := by
  rw [runBytes_parts li h]
  have ho := safe_openers li h hs
  have hc := safe_closers _ hs
  intro q
  rw [scanArrow_append, arrowEnd_append, (ho q).1, (ho q).2, scanArrow_append, arrowEnd_append,
    scan_escape li h, (hc _).1, (hc _).2]
  simp

theorem plain_runBytes (li : LItem) (h : RepRun li = true) (hs : styled (styleOf li) = false) :
    runBytes li = escapeHTML li.text := by
  rw [runBytes_parts li h, openers_plain _ hs, closers_plain _ hs]; simp

theorem scan_runs (items : List LItem) (h : ∀ li ∈ items, RepRun li = true) (hadj : noAdjPlain items = true) :
    ∀ q, (q = 0 ∨ (match items.head? with | some li => styled (styleOf li) = true | none => True)) →
      scanArrow q (items.map runBytes).flatten = false := by
  induction items with
  | nil => intro q _; rfl
  | cons li rest ih =>
    intro q hq
    have hli := h li (by simp)
    have hrest : ∀ x ∈ rest, RepRun x = true := fun x hx => h x (by simp [hx])
    have hadj' : noAdjPlain rest = true := by
      cases rest with
      | nil => rfl
      | cons b r => simp only [noAdjPlain, Bool.and_eq_true] at hadj; exact hadj.2
    rw [List.map_cons, List.flatten_cons, scanArrow_append]
    cases hs : styled (styleOf li) with
    | true =>
      have hsafe := safe_styled_run li hli hs
      rw [(hsafe q).1, (hsafe q).2, ih hrest hadj' 0 (Or.inl rfl)]; rfl
    | false =>
      have hq0 : q = 0 := by
        rcases hq with hq | hq
        · exact hq
        · simp [hs] at hq
      subst hq0
      rw [plain_runBytes li hli hs, scan_escape li hli, Bool.false_or]
      apply ih hrest hadj'
      right
      cases rest with
      | nil => trivial
      | cons b r =>
        simp only [noAdjPlain, Bool.and_eq_true, plainRun, hs] at hadj
        simpa using hadj.1

/-- **No arrow.** a written text line is never taken for a timing line -/
theorem lineStr_no_arrow (l : Line) (h : RepLine l = true) : Go.contains arrow (lineStr l) = false := by
  unfold lineStr arrow
  rw [contains_arrow_eq]
  exact scan_runs l.items (repLine_runs h) (repLine_noAdj h) 0 (Or.inl rfl)

/-- **A written text line, parsed.** `parseTextSrt` returns the runs of `normLine l` and an empty running style -/
theorem parseText_lineStr (l : Line) (h : RepLine l = true) :
    parseText (lineStr l) {} = .ok (({} : Run), normLine l) := by
  unfold parseText
  have hne : trimSpace (lineStr l) ≠ [] := by rw [trimSpace_lineStr l h]; exact lineStr_ne_nil l h
  simp only [hne, ↓reduceIte, tokenize_lineStr l h]
  rw [show lineToks l = l.items.flatMap runToks from rfl, foldl_lineToks l.items [] (repLine_runs h)]
  simp [normLine]

end SRTDoc
end Astisub
