import Astisub.Lemmas.SRTRead2Block
import Astisub.Lemmas.SRTRead2Tag
import Astisub.Lemmas.SRTRead2Time

/-!
# Lemmas/SRTRead2Doc — whole documents: the reader model against `Spec.SRT.decode`, line lists

`main_go` runs the block-by-block simulation along `Spec.SRT.blocks.go`; `run_eq_runG` connects
`SRT.run` (which trims every scanned line and strips a byte order mark from the first one) with `runG`
on the prepared lines; the last part treats the first line of a document (byte order mark).
-/

namespace Astisub
namespace SRTRead2
open Go SRT SRTDoc
open Spec.SRT (GRun GCue Sty runsOf tagAt cueLines timing timeMs decodeBlock)

theorem tagSim : TagSim := fun c tl f after h acc out => tag_sim c tl f after h acc out
theorem timeSim : TimeSim := fun s ms h hb => parseSRT_of_timeMs s ms h hb

/-! ## the decoder's block splitter on trimmed lines -/

theorem dropWhile_idem {α} (p : α → Bool) (l : List α) : (l.dropWhile p).dropWhile p = l.dropWhile p := by
  induction l with
  | nil => rfl
  | cons x xs ih =>
    by_cases hx : p x = true
    · simp only [List.dropWhile_cons, hx, ↓reduceIte, ih]
    · simp only [List.dropWhile_cons, hx, Bool.false_eq_true, ↓reduceIte]

theorem trimSpace_idem (s : Str) : trimSpace (trimSpace s) = trimSpace s := by
  unfold trimSpace trimRight trimLeft
  have h1 : (((s.dropWhile isSpace).reverse.dropWhile isSpace).reverse).dropWhile isSpace
      = ((s.dropWhile isSpace).reverse.dropWhile isSpace).reverse := by
    cases hq : ((s.dropWhile isSpace).reverse.dropWhile isSpace).reverse with
    | nil => rfl
    | cons y ys =>
      have hsplit := List.takeWhile_append_dropWhile (p := isSpace) (l := (s.dropWhile isSpace).reverse)
      have ha : s.dropWhile isSpace = y :: ys ++ ((s.dropWhile isSpace).reverse.takeWhile isSpace).reverse := by
        have := congrArg List.reverse hsplit
        rw [List.reverse_append, List.reverse_reverse, hq] at this
        exact this.symm
      have hx := List.head?_dropWhile_not isSpace s
      rw [ha] at hx
      simp only [List.cons_append, List.head?_cons] at hx
      simp only [List.dropWhile_cons, hx, Bool.false_eq_true, ↓reduceIte]
  rw [h1, List.reverse_reverse, dropWhile_idem]

theorem go_map_trim (ls cur : List Str) :
    Spec.SRT.blocks.go ls cur = Spec.SRT.blocks.go (ls.map trimSpace) cur := by
  induction ls generalizing cur with
  | nil => rfl
  | cons l ls ih =>
    simp only [List.map_cons, Spec.SRT.blocks.go, trimSpace_idem]
    split
    · split
      · exact ih []
      · rw [ih []]
    · exact ih _

/-- with a block under way, the splitter takes the non-empty lines up to the next empty line (or the
    end) into it -/
theorem go_cur : ∀ (ls cur : List Str), (∀ l ∈ ls, trimSpace l = l) → cur ≠ [] →
    ∃ b rest, ls = b ++ rest ∧ (∀ l ∈ b, l ≠ []) ∧ (rest = [] ∨ ∃ rest', rest = [] :: rest') ∧
      Spec.SRT.blocks.go ls cur = (cur.reverse ++ b) :: Spec.SRT.blocks.go rest [] := by
  intro ls
  induction ls with
  | nil =>
    intro cur _ hc
    refine ⟨[], [], rfl, by simp, Or.inl rfl, ?_⟩
    rw [go_nil]
    cases cur with
    | nil => exact absurd rfl hc
    | cons _ _ => simp [go_nil]
  | cons l ls ih =>
    intro cur ht hc
    have hl := ht l (by simp)
    by_cases hb : l = []
    · subst hb
      refine ⟨[], [] :: ls, rfl, by simp, Or.inr ⟨ls, rfl⟩, ?_⟩
      rw [go_blank [] ls cur hl, go_blank [] ls [] hl]
      cases cur with
      | nil => exact absurd rfl hc
      | cons _ _ => simp
    · rw [go_line l ls cur hl hb]
      obtain ⟨b, rest, h1, h2, h3, h4⟩ := ih (l :: cur) (fun x hx => ht x (by simp [hx])) (by simp)
      refine ⟨l :: b, rest, by rw [h1]; rfl, ?_, h3, ?_⟩
      · intro x hx
        rcases List.mem_cons.mp hx with rfl | hx
        · exact hb
        · exact h2 x hx
      · rw [h4]; simp

/-! ## along the blocks -/

/-- decoder lines / reader lines: equal, except for the first line -/
def HeadRelL (dls mls : List Str) : Prop :=
  (dls = [] ∧ mls = []) ∨ ∃ d m rest, dls = d :: rest ∧ mls = m :: rest ∧ HeadRel d m

theorem headRelL_refl (ls : List Str) : HeadRelL ls ls := by
  cases ls with
  | nil => exact Or.inl ⟨rfl, rfl⟩
  | cons l ls => exact Or.inr ⟨l, l, ls, rfl, rfl, headRel_refl timeSim l⟩

theorem main_go : ∀ (k : Nat) (dls mls : List Str), dls.length ≤ k → (∀ l ∈ dls, trimSpace l = l) →
    HeadRelL dls mls → ∀ (st : St) (cues : List GCue) (n : Nat), Good st cues n [] → (cues = [] ∨ 1 ≤ n) →
    ∀ cs, Spec.SRT.mapM decodeBlock (Spec.SRT.blocks.go dls []) = some cs → (∀ c ∈ cs, InRangeCue c) →
    runG st mls ≠ .unmodelled → ∃ st' n', runG st mls = .ok st' ∧ Good st' (cues ++ cs) n' [] := by
  intro k
  induction k with
  | zero =>
    intro dls mls hk _ hrel st cues n hg _ cs hdec _ _
    have : dls = [] := by cases dls with | nil => rfl | cons _ _ => simp at hk
    subst this
    rcases hrel with ⟨_, rfl⟩ | ⟨d, m, rest, h, _, _⟩
    · simp only [Spec.SRT.blocks.go, List.isEmpty_nil, ↓reduceIte, Spec.SRT.mapM, Option.some.injEq] at hdec
      subst hdec
      exact ⟨st, n, rfl, by simpa using hg⟩
    · cases h
  | succ k ih =>
    intro dls mls hk htr hrel st cues n hg hn cs hdec hrange hm
    rcases hrel with ⟨rfl, rfl⟩ | ⟨d, m, rest, rfl, rfl, hdm⟩
    · simp only [Spec.SRT.blocks.go, List.isEmpty_nil, ↓reduceIte, Spec.SRT.mapM, Option.some.injEq] at hdec
      subst hdec
      exact ⟨st, n, rfl, by simpa using hg⟩
    · have htr' : ∀ l ∈ rest, trimSpace l = l := fun x hx => htr x (by simp [hx])
      have hd := htr d (by simp)
      by_cases hb : d = []
      · -- an empty line
        subst hb
        have hmnil := hdm.1 rfl
        subst hmnil
        rw [go_blank [] rest [] hd] at hdec
        simp only [List.isEmpty_nil, ↓reduceIte] at hdec
        obtain ⟨st1, hstep, hg1⟩ := good_blank hg
        rw [runG_cons_ok _ hstep] at hm ⊢
        exact ih rest rest (by simp only [List.length_cons] at hk; omega) htr' (headRelL_refl rest) st1 cues (n + 1)
          hg1 (Or.inr (by omega)) cs hdec hrange hm
      · -- a block
        rw [go_line d rest [] hd hb] at hdec
        obtain ⟨b, rest2, rfl, hbne, hrest2, hgo⟩ := go_cur rest [d] htr' (by simp)
        rw [hgo] at hdec
        obtain ⟨c, cs', hdc, hdec', rfl⟩ := mapM_cons_some _ _ _ _ hdec
        have hdc' : decodeBlock (d :: b) = some c := by simpa using hdc
        have hmb : runG st ((m :: b) ++ rest2) ≠ .unmodelled := by simpa using hm
        have htl : ∀ l ∈ b, trimSpace l ≠ [] := by
          intro l hl
          rw [htr' l (by simp [hl])]
          exact hbne l hl
        obtain ⟨st1, hrun1, hg1⟩ := block_sim tagSim timeSim hg hn d m b hdm c hdc' (hrange c (by simp)) htl
          (runG_prefix_modelled hmb)
        have hsplit : runG st (m :: (b ++ rest2)) = runG st1 rest2 := by
          have := runG_append st (m :: b) rest2
          rw [hrun1] at this
          simpa using this
        rw [hsplit] at hm ⊢
        have hrange' : ∀ c ∈ cs', InRangeCue c := fun x hx => hrange x (by simp [hx])
        rcases hrest2 with rfl | ⟨rest', rfl⟩
        · simp only [Spec.SRT.blocks.go, List.isEmpty_nil, ↓reduceIte, Spec.SRT.mapM, Option.some.injEq] at hdec'
          subst hdec'
          exact ⟨st1, 0, rfl, hg1⟩
        · have hd2 : trimSpace ([] : Str) = [] := trimSpace_nil
          rw [go_blank [] rest' [] hd2] at hdec'
          simp only [List.isEmpty_nil, ↓reduceIte] at hdec'
          obtain ⟨st2, hstep2, hg2⟩ := good_blank hg1
          rw [runG_cons_ok _ hstep2] at hm ⊢
          have hlen : rest'.length ≤ k := by
            simp only [List.length_cons, List.length_append] at hk; omega
          obtain ⟨st3, n3, hrun3, hg3⟩ := ih rest' rest' hlen (fun x hx => htr' x (by simp [hx])) (headRelL_refl rest')
            st2 (cues ++ [c]) 1 hg2 (Or.inr (by omega)) cs' hdec' hrange' hm
          exact ⟨st3, n3, hrun3, by simpa using hg3⟩

/-! ## `SRT.run` and `SRT.read` through `runG` -/

theorem stepG_lineNum {st st' : St} {l : Str} (h : stepG st l = .ok st') : st'.lineNum = st.lineNum + 1 := by
  unfold stepG at h
  split at h
  · dsimp only at h
    repeat' split at h
    all_goals first | (injection h with h; rw [← h]) | cases h
  · repeat' split at h
    all_goals first | (injection h with h; rw [← h]) | cases h

theorem run_eq_runG : ∀ (ls : List Str) (st : St), 1 ≤ st.lineNum →
    run st (ls.map some) = runG st (ls.map trimSpace) := by
  intro ls
  induction ls with
  | nil => intro st _; rfl
  | cons l ls ih =>
    intro st h
    have hp : prepLine st.lineNum l = trimSpace l := by
      unfold prepLine
      have : ¬ (st.lineNum + 1 = 1) := by omega
      simp only [this, ↓reduceIte]
    simp only [List.map_cons, run, runG, step_eq, hp]
    cases hs : stepG st (trimSpace l) with
    | ok st' => exact ih st' (by rw [stepG_lineNum hs]; omega)
    | err => rfl
    | unmodelled => rfl

theorem run_first (l : Str) (ls : List Str) :
    run {} ((l :: ls).map some) = runG {} (prepLine 0 l :: ls.map trimSpace) := by
  simp only [List.map_cons, run, runG, step_eq]
  cases hs : stepG {} (prepLine 0 l) with
  | ok st' => exact run_eq_runG ls st' (by rw [stepG_lineNum hs]; exact Nat.le_add_left 1 _)
  | err => rfl
  | unmodelled => rfl

theorem read_eq (lines : List (Option Str)) :
    read lines = match run {} lines with
      | .ok st => .ok (finish st)
      | .err => .err
      | .unmodelled => .unmodelled := rfl

end SRTRead2
end Astisub
