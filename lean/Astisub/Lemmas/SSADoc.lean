import Astisub.Model.SSA
import Astisub.Lemmas.SSAStr
import Astisub.Lemmas.SSAEvent
import Astisub.Lemmas.SSAStyle
import Astisub.Props.C04

/-!
# Lemmas/SSADoc — lines of a written document under the reader's scan loop (`SSA.step`, `SSA.run`)

* `step_kv`: a `Header: content` line reaches the section's handler with exactly this header and content;
* `run_dialogues`: the `Dialogue:` lines the writer emits add the normalised events;
* `run_styles`: the `Style:` lines the writer emits add the styles with the attributes of the Format's columns.
-/

namespace Astisub
namespace SSA
open Go List

/-! ### trimming -/

theorem trimLeft_of {s : Str} (h : ∀ x, s.head? = some x → isSpace x = false) : trimLeft s = s :=
  dropWhile_head h

theorem trimRight_of {s : Str} (h : ∀ x, s.getLast? = some x → isSpace x = false) : trimRight s = s := by
  unfold trimRight
  rw [dropWhile_head (by simpa using h)]
  simp

theorem trimmed_append_cons (a b : Str) (c : Char) (ha : ∀ x, a.head? = some x → isSpace x = false)
    (hc : isSpace c = false) (hb : ∀ x, b.getLast? = some x → isSpace x = false) : Trimmed (a ++ c :: b) := by
  constructor
  · intro x hx
    cases a with
    | nil => simp at hx; subst hx; exact hc
    | cons a0 as => simp at hx; subst hx; exact ha _ rfl
  · intro x hx
    rw [getLast?_append] at hx
    cases b with
    | nil => simp at hx; subst hx; exact hc
    | cons b0 bs =>
      rw [getLast?_cons_cons] at hx
      cases hl : (b0 :: bs).getLast? with
      | none => simp at hl
      | some d => rw [hl] at hx; simp at hx; subst hx; exact hb _ hl

theorem trimSpace_space_cons (s : Str) (h : Trimmed s) : trimSpace (' ' :: s) = s := by
  have : trimLeft (' ' :: s) = s := by
    unfold trimLeft
    rw [dropWhile_cons]
    have : isSpace ' ' = true := by decide
    rw [this]
    exact dropWhile_head h.1
  unfold trimSpace
  rw [this, trimRight_of h.2]

theorem trimRight_snoc_space (s : Str) : trimRight (s ++ [' ']) = trimRight s := by
  unfold trimRight
  have : isSpace ' ' = true := by decide
  simp [this]

/-! ### a `Header: content` line -/

def kvLine (hdr content : Str) : Str := hdr ++ ": ".toList ++ content

/-- a header that is found again in front of the first `:`: not empty, no `:`, nothing to trim,
    not starting like a section header or a comment -/
def HeaderOK (hdr : Str) : Prop :=
  hdr ≠ [] ∧ ':' ∉ hdr ∧ Trimmed hdr ∧ hdr.head? ≠ some '[' ∧ hdr.head? ≠ some ';'

instance (hdr : Str) : Decidable (HeaderOK hdr) :=
  inferInstanceAs (Decidable (hdr ≠ [] ∧ ':' ∉ hdr ∧ Trimmed hdr ∧ hdr.head? ≠ some '[' ∧ hdr.head? ≠ some ';'))

/-- the line after `TrimSpace` -/
def kvTrim (hdr content : Str) : Str := hdr ++ ':' :: (if content = [] then [] else ' ' :: content)

theorem trimSpace_kvLine (hdr content : Str) (hh : HeaderOK hdr) (hc : Trimmed content) :
    trimSpace (kvLine hdr content) = kvTrim hdr content := by
  obtain ⟨hne, _, htr, _, _⟩ := hh
  have hhead : ∀ x, hdr.head? = some x → isSpace x = false := htr.1
  have e : ": ".toList = [':', ' '] := by decide
  unfold kvLine kvTrim
  rw [e]
  by_cases h0 : content = []
  · subst h0
    simp only [append_nil, ↓reduceIte]
    unfold trimSpace
    rw [trimLeft_of (by
      intro x hx
      cases hdr with
      | nil => exact absurd rfl hne
      | cons a as => simp at hx; subst hx; exact hhead _ rfl)]
    rw [show hdr ++ [':', ' '] = (hdr ++ [':']) ++ [' '] by simp, trimRight_snoc_space,
      trimRight_of (by intro x hx; simp at hx; subst hx; decide)]
  · simp only [h0, ↓reduceIte]
    rw [show hdr ++ [':', ' '] ++ content = hdr ++ ':' :: (' ' :: content) by simp]
    apply trimSpace_of_trimmed
    apply trimmed_append_cons _ _ _ hhead (by decide)
    intro x hx
    cases content with
    | nil => exact absurd rfl h0
    | cons c cs =>
      rw [getLast?_cons_cons] at hx
      exact hc.2 x hx

theorem kvTrim_content (content : Str) (hc : Trimmed content) :
    trimSpace (if content = [] then [] else ' ' :: content) = content := by
  by_cases h0 : content = []
  · subst h0; rfl
  · simp only [h0, ↓reduceIte]; exact trimSpace_space_cons content hc

/-- **A `Header: content` line** (not the first line of the document) is handed to the handler of
    the current section with exactly this header and this content -/
theorem step_kv (st : St) (hdr content : Str) (hf : st.first = false) (hh : HeaderOK hdr) (hc : Trimmed content) :
    step st (kvLine hdr content) =
      match st.sec with
      | .scriptInfo =>
        (match st.info.parse hdr content with
         | .ok i => .ok { st with info := i }
         | .err => .err
         | .unmodelled => .unmodelled)
      | .events => eventsLine st hdr content
      | .styles => stylesLine st hdr content
      | _ => .ok st := by
  obtain ⟨sec, format, info, styles, events, first⟩ := st
  simp only at hf
  subst hf
  have ht := trimSpace_kvLine hdr content hh hc
  obtain ⟨hne, hcolon, htr, hb, hs⟩ := hh
  obtain ⟨h0, hdr', rfl⟩ : ∃ h0 hdr', hdr = h0 :: hdr' := by
    cases hdr with
    | nil => exact absurd rfl hne
    | cons a as => exact ⟨a, as, rfl⟩
  have hb' : ¬ '[' = h0 := by intro e; subst e; exact hb rfl
  have hs' : ¬ h0 = ';' := by intro e; subst e; exact hs rfl
  have hsplit : splitC ':' (kvTrim (h0 :: hdr') content)
      = (h0 :: hdr') :: splitC ':' (if content = [] then [] else ' ' :: content) := splitC_append _ hcolon
  obtain ⟨p, ps, hp⟩ : ∃ p ps, splitC ':' (if content = [] then [] else ' ' :: content) = p :: ps := by
    cases h : splitC ':' (if content = [] then [] else ' ' :: content) with
    | nil => exact absurd h (C04.splitC_ne_nil _ _)
    | cons p ps => exact ⟨p, ps, rfl⟩
  have hjoin : join [':'] (p :: ps) = (if content = [] then [] else ' ' :: content) := by
    rw [← hp]; exact C04.join_splitC _ _
  unfold step
  simp only [ht, Bool.false_eq_true, ↓reduceIte]
  rw [hsplit, hp]
  have hpre : hasPrefix ['['] (kvTrim (h0 :: hdr') content) = false := by
    simp [kvTrim, hasPrefix, dropPrefix?, hb']
  have hemp : (kvTrim (h0 :: hdr') content).isEmpty = false := by simp [kvTrim]
  have hhead : (kvTrim (h0 :: hdr') content).head? = some h0 := by simp [kvTrim]
  simp only [hemp, hpre, Bool.false_and, Bool.false_eq_true, ↓reduceIte, hhead, Option.some.injEq, hs',
    length_cons, head?_cons, headD_cons, tail_cons, trimSpace_of_trimmed htr, hjoin, kvTrim_content content hc]
  have hlen : ¬ (ps.length + 1 + 1 < 2) := by omega
  simp only [hlen, decide_false, reduceCtorEq, Bool.or_self, Bool.false_eq_true, ↓reduceIte]
  cases sec <;> first | rfl | (cases hq : info.parse (h0 :: hdr') content <;> simp [hq])

/-! ### joined cells need no trimming -/

theorem getLast_append_cons {a b : Str} {c x : Char} (h : (a ++ c :: b).getLast? = some x) :
    x = c ∨ b.getLast? = some x := by
  rw [getLast?_append] at h
  cases b with
  | nil => simp at h; exact Or.inl h.symm
  | cons b0 bs =>
    rw [getLast?_cons_cons] at h
    cases hl : (b0 :: bs).getLast? with
    | none => simp at hl
    | some d => rw [hl] at h; simp at h; subst h; exact Or.inr rfl

theorem join_comma_last (mid : List Str) (last : Str) (hl : ∀ x, last.getLast? = some x → isSpace x = false) :
    ∀ x, (join [','] (mid ++ [last])).getLast? = some x → isSpace x = false := by
  induction mid with
  | nil => simpa [join] using hl
  | cons m ms ih =>
    intro x hx
    have e : join [','] (m :: ms ++ [last]) = m ++ ',' :: join [','] (ms ++ [last]) := by
      cases hms : ms ++ [last] with
      | nil => simp at hms
      | cons y ys => simp [join, hms]
    rw [e] at hx
    rcases getLast_append_cons hx with rfl | h
    · decide
    · exact ih x h

/-- cells joined with commas need no trimming when the first cell starts and the last cell ends with a non-space -/
theorem trimmed_join_comma (c0 : Str) (mid : List Str) (last : Str)
    (hh : ∀ x, c0.head? = some x → isSpace x = false) (hl : ∀ x, last.getLast? = some x → isSpace x = false) :
    Trimmed (join [','] (c0 :: (mid ++ [last]))) := by
  have e : join [','] (c0 :: (mid ++ [last])) = c0 ++ ',' :: join [','] (mid ++ [last]) := by
    cases hms : mid ++ [last] with
    | nil => simp at hms
    | cons y ys => simp [join]
  rw [e]
  exact trimmed_append_cons _ _ _ hh (by decide) (join_comma_last mid last hl)

/-! ### the `[Events]` block -/

/-- the line the writer emits for an event -/
def dialogueLine (v4plus : Bool) (e : Event) : Str := "Dialogue: ".toList ++ e.row v4plus

theorem dialogueLine_kv (v4plus : Bool) (e : Event) : dialogueLine v4plus e = kvLine "Dialogue".toList (e.row v4plus) := by
  unfold dialogueLine kvLine
  rw [show "Dialogue: ".toList = "Dialogue".toList ++ ": ".toList by decide]

theorem trimmed_event_row (e : Event) (v : Bool) (ht : Trimmed e.text) : Trimmed (e.row v) := by
  have hrow : ∀ c0 : Str, join [','] [c0, Duration.formatSSA e.startAt, Duration.formatSSA e.endAt, e.style, e.name,
      itoa (e.marginL.getD 0), itoa (e.marginR.getD 0), itoa (e.marginV.getD 0), e.effect, e.text]
      = join [','] (c0 :: ([Duration.formatSSA e.startAt, Duration.formatSSA e.endAt, e.style, e.name,
      itoa (e.marginL.getD 0), itoa (e.marginR.getD 0), itoa (e.marginV.getD 0), e.effect] ++ [e.text])) := fun _ => rfl
  unfold Event.row
  rw [hrow]
  apply trimmed_join_comma _ _ _ _ ht.2
  intro x hx
  cases v
  · have : x = 'M' := by
      by_cases hm : e.marked = some true
      · simp only [Bool.false_eq_true, ↓reduceIte, hm] at hx
        have h2 : "Marked=1".toList.head? = some 'M' := by decide
        rw [h2] at hx; exact (Option.some.inj hx).symm
      · simp only [Bool.false_eq_true, ↓reduceIte, hm] at hx
        have h2 : "Marked=0".toList.head? = some 'M' := by decide
        rw [h2] at hx; exact (Option.some.inj hx).symm
    subst this; decide
  · simp only [↓reduceIte] at hx
    exact (trimmed_itoa _).1 x hx

/-- a `Dialogue:` line written for a good event adds the event in normal form -/
theorem step_dialogue (st : St) (v4plus : Bool) (e : Event) (hf : st.first = false) (hsec : st.sec = .events)
    (hfmt : st.format = eventFormat v4plus) (he : EventCells e) (ht : Trimmed e.text) :
    step st (dialogueLine v4plus e)
      = .ok { st with events := st.events ++ [e.norm "Dialogue".toList v4plus] } := by
  rw [dialogueLine_kv, step_kv st _ _ hf (by decide) (trimmed_event_row e v4plus ht)]
  obtain ⟨sec, format, info, styles, events, first⟩ := st
  simp only at hf hsec hfmt
  subst hf hsec hfmt
  simp only
  unfold eventsLine
  have h1 : ¬ "Dialogue".toList = "Format".toList := by decide
  have h2 : (eventFormat v4plus).isEmpty = false := by cases v4plus <;> rfl
  have hrow : eventRow "Dialogue".toList (e.row v4plus) (eventFormat v4plus) = some (e.norm "Dialogue".toList v4plus) := by
    cases v4plus
    · exact eventRow_row_v4 e _ he
    · exact eventRow_row_v4plus e _ he
  simp only [h1, ↓reduceIte, h2, Bool.false_eq_true, ne_eq, not_true_eq_false, hrow]

/-- **The `Dialogue:` lines** the writer emits for good events add exactly these events, normalised, in order -/
theorem run_dialogues (v4plus : Bool) : ∀ (es : List Event) (st : St), st.first = false → st.sec = .events →
    st.format = eventFormat v4plus → (∀ e ∈ es, EventCells e ∧ Trimmed e.text) →
    run st (es.map (dialogueLine v4plus))
      = .ok { st with events := st.events ++ es.map (Event.norm "Dialogue".toList v4plus) } := by
  intro es
  induction es with
  | nil => intro st _ _ _ _; simp [run]
  | cons e es ih =>
    intro st hf hsec hfmt h
    obtain ⟨he, ht⟩ := h e (by simp)
    simp only [map_cons, run, step_dialogue st v4plus e hf hsec hfmt he ht]
    have := ih { st with events := st.events ++ [e.norm "Dialogue".toList v4plus] } hf hsec hfmt
      (fun e' he' => h e' (by simp [he']))
    rw [this]
    simp

/-! ### Format lines -/

def formatLine (cols : List Str) : Str := "Format: ".toList ++ join ", ".toList cols

theorem formatLine_kv (cols : List Str) : formatLine cols = kvLine "Format".toList (join ", ".toList cols) := by
  unfold formatLine kvLine
  rw [show "Format: ".toList = "Format".toList ++ ": ".toList by decide]

/-- a column name: not empty, no comma, nothing to trim -/
def ColOK (c : Str) : Prop := c ≠ [] ∧ ',' ∉ c ∧ Trimmed c

instance (c : Str) : Decidable (ColOK c) := inferInstanceAs (Decidable (c ≠ [] ∧ ',' ∉ c ∧ Trimmed c))

theorem join_commaspace (c : Str) (cs : List Str) :
    join ", ".toList (c :: cs) = join [','] (c :: cs.map fun x => ' ' :: x) := by
  have e : ", ".toList = [',', ' '] := by decide
  rw [e]
  induction cs generalizing c with
  | nil => rfl
  | cons d ds ih =>
    have : join [',', ' '] (c :: d :: ds) = c ++ [',', ' '] ++ join [',', ' '] (d :: ds) := rfl
    rw [this, ih d]
    cases ds with
    | nil => simp [join]
    | cons d' ds' => simp [join]

theorem format_cols (cols : List Str) (hne : cols ≠ []) (h : ∀ c ∈ cols, ColOK c) :
    (splitC ',' (join ", ".toList cols)).map trimSpace = cols ∧ Trimmed (join ", ".toList cols) := by
  cases cols with
  | nil => exact absurd rfl hne
  | cons c cs =>
    have hc := h c (by simp)
    rw [join_commaspace]
    constructor
    · rw [splitC_joined _ (by simp) (by
        intro p hp
        rcases mem_cons.mp hp with rfl | hp
        · exact hc.2.1
        · obtain ⟨x, hx, rfl⟩ := mem_map.mp hp
          intro hm
          rcases mem_cons.mp hm with e | hm
          · exact absurd e (by decide)
          · exact (h x (by simp [hx])).2.1 hm)]
      rw [map_cons, trimSpace_of_trimmed hc.2.2, map_map]
      congr 1
      have : ∀ l : List Str, (∀ x ∈ l, ColOK x) → map (trimSpace ∘ fun x => ' ' :: x) l = l := by
        intro l
        induction l with
        | nil => intro _; rfl
        | cons x xs ih =>
          intro hl
          rw [map_cons, ih (fun y hy => hl y (by simp [hy]))]
          simp only [Function.comp, trimSpace_space_cons x (hl x (by simp)).2.2]
      exact this cs (fun x hx => h x (by simp [hx]))
    · rcases eq_nil_or_concat cs with rfl | ⟨mid, last, rfl⟩
      · simpa [join] using hc.2.2
      · rw [concat_eq_append, map_append, map_cons, map_nil]
        apply trimmed_join_comma _ _ _ hc.2.2.1
        intro x hx
        have hl := h last (by simp)
        cases hlast : last with
        | nil => exact absurd hlast hl.1
        | cons l0 ls =>
          rw [hlast, getLast?_cons_cons] at hx
          rw [hlast] at hl
          exact hl.2.2.2 x hx

/-! ### section headers, blank lines -/

theorem step_blank (st : St) (hf : st.first = false) : step st [] = .ok st := by
  obtain ⟨sec, format, info, styles, events, first⟩ := st
  simp only at hf
  subst hf
  rfl

theorem step_events_header (st : St) (hf : st.first = false) :
    step st "[Events]".toList = .ok { st with sec := .events, format := [] } := by
  obtain ⟨sec, format, info, styles, events, first⟩ := st
  simp only at hf
  subst hf
  rfl

theorem step_styles_header (st : St) (v4plus : Bool) (hf : st.first = false) :
    step st (if v4plus then "[V4+ Styles]".toList else "[V4 Styles]".toList) = .ok { st with sec := .styles, format := [] } := by
  obtain ⟨sec, format, info, styles, events, first⟩ := st
  simp only at hf
  subst hf
  cases v4plus <;> rfl

theorem step_info_header : step {} "[Script Info]".toList = .ok { sec := .scriptInfo, first := false } := rfl

/-- a `Format:` line right after the section header sets the section's columns -/
theorem step_format (st : St) (cols : List Str) (hf : st.first = false) (hsec : st.sec = .events ∨ st.sec = .styles)
    (hfmt : st.format = []) (hne : cols ≠ []) (h : ∀ c ∈ cols, ColOK c) :
    step st (formatLine cols) = .ok { st with format := cols } := by
  obtain ⟨h1, h2⟩ := format_cols cols hne h
  rw [formatLine_kv, step_kv st _ _ hf (by decide) h2]
  obtain ⟨sec, format, info, styles, events, first⟩ := st
  simp only at hf hsec hfmt
  subst hf hfmt
  rcases hsec with rfl | rfl
  · simp only [eventsLine, ↓reduceIte, h1, mergeFormat, drop_nil, append_nil]
  · simp only [stylesLine, ↓reduceIte, h1, mergeFormat, drop_nil, append_nil]

theorem eventFormat_cols (v : Bool) : eventFormat v ≠ [] ∧ ∀ c ∈ eventFormat v, ColOK c := by
  cases v <;> exact ⟨by simp [eventFormat], by decide⟩

theorem col_colOK (f : Fld) : ColOK f.col.toList := by cases f <;> decide

theorem formatOf_cols (fs : List Fld) : formatOf fs ≠ [] ∧ ∀ c ∈ formatOf fs, ColOK c := by
  refine ⟨by simp [formatOf], ?_⟩
  intro c hc
  rcases mem_cons.mp hc with rfl | hc
  · decide
  · obtain ⟨f, _, rfl⟩ := mem_map.mp hc
    exact col_colOK f

/-! ### the styles block -/

def styleLine (row : Str) : Str := "Style: ".toList ++ row

theorem styleLine_kv (row : Str) : styleLine row = kvLine "Style".toList row := by
  unfold styleLine kvLine
  rw [show "Style: ".toList = "Style".toList ++ ": ".toList by decide]

def ValTrimmed : Val → Prop
  | .s str => Trimmed str
  | _ => True

instance : (v : Val) → Decidable (ValTrimmed v)
  | .s str => inferInstanceAs (Decidable (Trimmed str))
  | .b _ => isTrue trivial
  | .c _ => isTrue trivial
  | .f _ => isTrue trivial
  | .i _ => isTrue trivial

/-- the name and the font name of the style need no trimming (the reader trims the line) -/
def StyleTrimmed (s : Style) : Prop := Trimmed s.name ∧ ∀ f ∈ Fld.all, ∀ v, s.vals.get f = some v → ValTrimmed v

instance (s : Style) : Decidable (StyleTrimmed s) :=
  inferInstanceAs (Decidable (Trimmed s.name ∧ ∀ f ∈ Fld.all, ∀ v, s.vals.get f = some v → ValTrimmed v))

theorem hex_not_spaceFin : ∀ d : Fin 16, isSpace (hexDigitLower d.val) = false := by decide

theorem formatFloat3_numChar (bits : Nat) (str : Str) (h : formatFloat3 bits = some str) : ∀ c ∈ str, numChar c = true := by
  unfold formatFloat3 at h
  split at h
  · cases h
  · rename_i neg m e _
    simp only [Option.some.injEq] at h
    subst h
    intro c hc
    simp only [mem_append, mem_cons] at hc
    rcases hc with (hc | hc) | rfl | hc
    · split at hc
      · simp at hc; subst hc; decide
      · simp at hc
    · exact (digitStr_itoaNat _).numChar c hc
    · decide
    · exact numChar_padLeft0 _ _ c hc

theorem cell_trimmed (v : Val) (cell : Str) (h : v.ssa = some cell) (hv : ValTrimmed v) : Trimmed cell := by
  cases v with
  | b b => cases b <;> (simp only [Val.ssa, Option.some.injEq] at h; subst h; decide)
  | c c =>
    simp only [Val.ssa, Option.some.injEq] at h
    subst h
    apply trimmed_of_noSpace
    intro x hx
    unfold colourString at hx
    rcases mem_append.mp hx with hx | hx
    · have : x = '&' ∨ x = 'H' := by simpa using hx
      rcases this with rfl | rfl <;> decide
    · have k : ∀ n, isSpace (hexDigitLower (n % 16)) = false := fun n => hex_not_spaceFin ⟨n % 16, Nat.mod_lt _ (by decide)⟩
      simp only [hex8, mem_cons, not_mem_nil, or_false] at hx
      rcases hx with rfl | rfl | rfl | rfl | rfl | rfl | rfl | rfl <;> exact k _
  | f bits =>
    exact trimmed_of_noSpace fun x hx => numChar_not_space (formatFloat3_numChar bits cell h x hx)
  | i i =>
    simp only [Val.ssa, Option.some.injEq] at h
    subst h
    exact trimmed_itoa i
  | s str =>
    simp only [Val.ssa, Option.some.injEq] at h
    subst h
    exact hv

theorem cells_trimmed (s : Style) (ht : StyleTrimmed s) : ∀ (fs : List Fld) (cs : List Str),
    allSome (fs.map (cellOf s)) = some cs → ∀ c ∈ cs, Trimmed c := by
  intro fs
  induction fs with
  | nil =>
    intro cs h c hc
    simp only [map_nil, allSome, Option.some.injEq] at h
    subst h
    cases hc
  | cons f fs ih =>
    intro cs h
    simp only [map_cons, allSome] at h
    cases hcell : cellOf s f with
    | none => rw [hcell] at h; simp at h
    | some c0 =>
      cases hrest : allSome (fs.map (cellOf s)) with
      | none => rw [hcell, hrest] at h; simp at h
      | some cs' =>
        rw [hcell, hrest] at h
        simp only [Option.some.injEq] at h
        subst h
        intro c hc
        rcases mem_cons.mp hc with rfl | hc
        · unfold cellOf at hcell
          cases hget : s.vals.get f with
          | none => simp only [hget, Option.some.injEq] at hcell; subst hcell; exact trimmed_nil
          | some v =>
            simp only [hget] at hcell
            exact cell_trimmed v c hcell (ht.2 f (C04.fld_all_complete f) v hget)
        · exact ih cs' hrest c hc

theorem trimmed_style_row (s : Style) (fs : List Fld) (ht : StyleTrimmed s) (row : Str)
    (hrow : s.row (formatOf fs) = some row) : Trimmed row := by
  rw [row_formatOf] at hrow
  cases hcs : allSome (fs.map (cellOf s)) with
  | none => rw [hcs] at hrow; cases hrow
  | some cs =>
    rw [hcs] at hrow
    simp only [Option.map_some, Option.some.injEq] at hrow
    subst hrow
    have hc := cells_trimmed s ht fs cs hcs
    rcases eq_nil_or_concat cs with rfl | ⟨mid, last, rfl⟩
    · simpa [join] using ht.1
    · rw [concat_eq_append]
      exact trimmed_join_comma _ _ _ ht.1.1 (hc last (by simp)).2

/-- a `Style:` line written for a good style adds the style with its attributes in the Format's columns -/
theorem step_style (st : St) (fs : List Fld) (s : Style) (row : Str) (hf : st.first = false) (hsec : st.sec = .styles)
    (hfmt : st.format = formatOf fs) (hnd : fs.Nodup) (hs : StyleOK s) (ht : StyleTrimmed s)
    (hrow : s.row (formatOf fs) = some row) :
    step st (styleLine row) = .ok { st with styles := st.styles ++ [{ name := s.name, vals := pick s fs }] } := by
  rw [styleLine_kv, step_kv st _ _ hf (by decide) (trimmed_style_row s fs ht row hrow)]
  obtain ⟨sec, format, info, styles, events, first⟩ := st
  simp only at hf hsec hfmt
  subst hf hsec hfmt
  simp only
  unfold stylesLine
  have h1 : ¬ "Style".toList = "Format".toList := by decide
  have h2 : (formatOf fs).isEmpty = false := rfl
  simp only [h1, ↓reduceIte, h2, Bool.false_eq_true, ne_eq, not_true_eq_false, styleRow_row s fs hs hnd row hrow]

/-- **The `Style:` lines** the writer emits for good styles add exactly these styles, in order, each
    with its name and its attributes in the columns of the Format -/
theorem run_styles (fs : List Fld) (hnd : fs.Nodup) : ∀ (ss : List Style) (rows : List Str) (st : St),
    st.first = false → st.sec = .styles → st.format = formatOf fs →
    (∀ s ∈ ss, StyleOK s ∧ StyleTrimmed s) → allSome (ss.map fun s => s.row (formatOf fs)) = some rows →
    run st (rows.map styleLine)
      = .ok { st with styles := st.styles ++ ss.map fun s => { name := s.name, vals := pick s fs } } := by
  intro ss
  induction ss with
  | nil =>
    intro rows st _ _ _ _ h
    simp only [map_nil, allSome, Option.some.injEq] at h
    subst h
    simp [run]
  | cons s ss ih =>
    intro rows st hf hsec hfmt h hrows
    simp only [map_cons, allSome] at hrows
    cases hrow : s.row (formatOf fs) with
    | none => rw [hrow] at hrows; simp at hrows
    | some row =>
      cases hrest : allSome (ss.map fun s => s.row (formatOf fs)) with
      | none => rw [hrow, hrest] at hrows; simp at hrows
      | some rows' =>
        rw [hrow, hrest] at hrows
        simp only [Option.some.injEq] at hrows
        subst hrows
        obtain ⟨hs, ht⟩ := h s (by simp)
        simp only [map_cons, run, step_style st fs s row hf hsec hfmt hnd hs ht hrow]
        have := ih rows' { st with styles := st.styles ++ [{ name := s.name, vals := pick s fs }] } hf hsec hfmt
          (fun s' hs' => h s' (by simp [hs'])) hrest
        rw [this]
        simp

/-! ### the two blocks after the script info -/

theorem run_append (a b : List Str) : ∀ st : St, run st (a ++ b) =
    match run st a with
    | .ok st' => run st' b
    | .err => .err
    | .unmodelled => .unmodelled := by
  induction a with
  | nil => intro st; rfl
  | cons l ls ih =>
    intro st
    simp only [cons_append, run]
    cases step st l with
    | ok st' => exact ih st'
    | err => rfl
    | unmodelled => rfl

theorem run_append_ok {a b : List Str} {st st' : St} (h : run st a = .ok st') : run st (a ++ b) = run st' b := by
  rw [run_append, h]

/-- the lines of the styles block (nothing when there is no style) -/
def stylesBlock (v4plus : Bool) (fs : List Fld) (rows : List Str) : List Str :=
  if rows = [] then [] else
  [[], if v4plus then "[V4+ Styles]".toList else "[V4 Styles]".toList, formatLine (formatOf fs)] ++ rows.map styleLine

/-- the lines of the events block -/
def eventsBlock (v4plus : Bool) (es : List Event) : List Str :=
  [[], "[Events]".toList, formatLine (eventFormat v4plus)] ++ es.map (dialogueLine v4plus)

theorem run_stylesBlock (v4plus : Bool) (fs : List Fld) (hnd : fs.Nodup) (ss : List Style) (rows : List Str) (st : St)
    (hf : st.first = false) (h : ∀ s ∈ ss, StyleOK s ∧ StyleTrimmed s)
    (hrows : allSome (ss.map fun s => s.row (formatOf fs)) = some rows) (hne : ss ≠ []) :
    run st (stylesBlock v4plus fs rows)
      = .ok { st with sec := .styles, format := formatOf fs,
                      styles := st.styles ++ ss.map fun s => { name := s.name, vals := pick s fs } } := by
  have hr : rows ≠ [] := by
    intro e
    subst e
    cases ss with
    | nil => exact hne rfl
    | cons s ss =>
      simp only [map_cons, allSome] at hrows
      split at hrows <;> simp at hrows
  unfold stylesBlock
  rw [if_neg hr]
  simp only [cons_append, nil_append, run, step_blank st hf, step_styles_header st v4plus hf]
  rw [step_format { st with sec := .styles, format := [] } (formatOf fs) hf (Or.inr rfl) rfl (formatOf_cols fs).1
    (formatOf_cols fs).2]
  simp only
  rw [run_styles fs hnd ss rows { st with sec := .styles, format := formatOf fs } hf rfl rfl h hrows]

theorem run_eventsBlock (v4plus : Bool) (es : List Event) (st : St) (hf : st.first = false)
    (h : ∀ e ∈ es, EventCells e ∧ Trimmed e.text) :
    run st (eventsBlock v4plus es)
      = .ok { st with sec := .events, format := eventFormat v4plus,
                      events := st.events ++ es.map (Event.norm "Dialogue".toList v4plus) } := by
  unfold eventsBlock
  simp only [cons_append, nil_append, run, step_blank st hf, step_events_header st hf]
  rw [step_format { st with sec := .events, format := [] } (eventFormat v4plus) hf (Or.inl rfl) rfl
    (eventFormat_cols v4plus).1 (eventFormat_cols v4plus).2]
  simp only
  rw [run_dialogues v4plus es { st with sec := .events, format := eventFormat v4plus } hf rfl rfl h]

/-! ### the written document as lines -/

theorem unlines_append (a b : List Str) : unlines (a ++ b) = unlines a ++ unlines b := by
  simp [unlines]

theorem unlines_cons (a : Str) (b : List Str) : unlines (a :: b) = a ++ '\n' :: unlines b := by
  simp [unlines]

/-- the sorted styles of a cue list as the writer sees them -/
def writerStyles (s : Subs) : List Style := (s.styles.mergeSort fun a b => !strLt b.id a.id).map styleOfDef

def isV4plus (s : Subs) : Bool := kvGet s.metadata "SSAScriptType" = some "v4.00+".toList

theorem block_text (hdr fmtl : Str) (ls : List Str) :
    ('\n' :: (hdr ++ ['\n'])) ++ fmtl ++ ['\n'] ++ unlines ls = unlines ([[], hdr, fmtl] ++ ls) := by
  simp [unlines]

theorem events_text (v : Bool) (items : List CItem) :
    "\n[Events]\n".toList ++ "Format: ".toList ++ join ", ".toList (eventFormat v) ++ ['\n'] ++
        unlines (map (fun it => "Dialogue: ".toList ++ (eventOfItem it).row v) items)
      = unlines (eventsBlock v (map eventOfItem items)) := by
  have e1 : "\n[Events]\n".toList = '\n' :: ("[Events]".toList ++ ['\n']) := by decide
  have e2 : map (fun it => "Dialogue: ".toList ++ (eventOfItem it).row v) items
      = map (dialogueLine v) (map eventOfItem items) := by rw [map_map]; rfl
  rw [e1, e2, append_assoc _ "Format: ".toList]
  exact block_text "[Events]".toList (formatLine (eventFormat v)) _

theorem styles_text (p : Prop) [Decidable p] (fs : List Fld) (rows : List Str) (hr : rows ≠ []) :
    (if p then "\n[V4+ Styles]\n".toList else "\n[V4 Styles]\n".toList) ++ "Format: ".toList ++
        join ", ".toList (formatOf fs) ++ ['\n'] ++ unlines (map (fun r => "Style: ".toList ++ r) rows)
      = unlines (stylesBlock (decide p) fs rows) := by
  have e1 : "\n[V4+ Styles]\n".toList = '\n' :: ("[V4+ Styles]".toList ++ ['\n']) := by decide
  have e2 : "\n[V4 Styles]\n".toList = '\n' :: ("[V4 Styles]".toList ++ ['\n']) := by decide
  unfold stylesBlock
  rw [if_neg hr]
  by_cases hp : p
  · simp only [hp, ↓reduceIte, decide_true]
    rw [e1, append_assoc _ "Format: ".toList]
    exact block_text "[V4+ Styles]".toList (formatLine (formatOf fs)) _
  · simp only [hp, ↓reduceIte, decide_false, Bool.false_eq_true]
    rw [e2, append_assoc _ "Format: ".toList]
    exact block_text "[V4 Styles]".toList (formatLine (formatOf fs)) _

/-- **Shape of the written document**: the script-info text, then the lines of the styles block, then
    the lines of the events block -/
theorem write_ok_lines (s : Subs) (out : Str) (h : write s = .ok out) :
    ∃ infoTxt rows, (infoOfMeta s.metadata).bytes = some infoTxt ∧
      allSome ((writerStyles s).map fun st => st.row (formatOf (formatFlds (writerStyles s)))) = some rows ∧
      out = infoTxt ++ unlines (stylesBlock (isV4plus s) (formatFlds (writerStyles s)) rows)
              ++ unlines (eventsBlock (isV4plus s) (s.items.map eventOfItem)) := by
  unfold write at h
  split at h
  · cases h
  split at h
  · cases h
  simp only [writer_format] at h
  split at h
  · rename_i i sb hi hsb
    simp only [Res.ok.injEq] at h
    subst h
    refine ⟨i, ?_⟩
    have hev := events_text (isV4plus s) s.items
    change (if (writerStyles s).isEmpty = true then some [] else _) = some sb at hsb
    by_cases hemp : (writerStyles s).isEmpty = true
    · rw [if_pos hemp] at hsb
      simp only [Option.some.injEq] at hsb
      subst hsb
      have : writerStyles s = [] := by simpa using hemp
      refine ⟨[], hi, by rw [this]; rfl, ?_⟩
      rw [← hev]
      have e0 : unlines (stylesBlock (isV4plus s) (formatFlds (writerStyles s)) []) = [] := rfl
      rw [e0]
      rfl
    · rw [if_neg hemp] at hsb
      change Option.map _ (allSome (map (fun st => st.row (formatOf (formatFlds (writerStyles s)))) (writerStyles s))) = some sb at hsb
      cases hrows : allSome (map (fun st => st.row (formatOf (formatFlds (writerStyles s)))) (writerStyles s)) with
      | none => rw [hrows] at hsb; cases hsb
      | some rows =>
        rw [hrows] at hsb
        simp only [Option.map_some, Option.some.injEq] at hsb
        subst hsb
        refine ⟨rows, hi, rfl, ?_⟩
        have hr : rows ≠ [] := by
          intro e
          subst e
          cases hw : writerStyles s with
          | nil => rw [hw] at hemp; exact hemp rfl
          | cons a as =>
            rw [hw] at hrows
            simp only [map_cons, allSome] at hrows
            split at hrows <;> simp at hrows
        have hst : _ = unlines (stylesBlock (isV4plus s) (formatFlds (writerStyles s)) rows) :=
          styles_text (kvGet s.metadata "SSAScriptType" = some "v4.00+".toList) (formatFlds (writerStyles s)) rows hr
        rw [← hev, ← hst]
        rfl
  · cases h

/-- the script-info text is `[Script Info]` and further lines -/
theorem info_bytes_lines (b : Info) (txt : Str) (h : b.bytes = some txt) :
    ∃ ls, txt = unlines ("[Script Info]".toList :: ls) := by
  unfold Info.bytes at h
  simp only [Option.map_eq_some_iff] at h
  obtain ⟨ls, _, rfl⟩ := h
  exact ⟨_, rfl⟩

/-- splitting the text at line feeds gives the lines back (and a last empty one) -/
theorem splitC_unlines (ls : List Str) (h : ∀ l ∈ ls, '\n' ∉ l) : splitC '\n' (unlines ls) = ls ++ [[]] := by
  induction ls with
  | nil => rfl
  | cons l ls ih =>
    rw [unlines_cons, splitC_append _ (h l (by simp)), ih (fun x hx => h x (by simp [hx]))]
    rfl

/-- **Styles and events sections.** From any reader state (not at the first line), the lines the
    writer emits after the script info — the styles block for good styles, the events block for
    good events — are scanned without error and add exactly these styles and these events -/
theorem run_body (v4plus : Bool) (fs : List Fld) (hnd : fs.Nodup) (ss : List Style) (rows : List Str) (es : List Event)
    (st : St) (hf : st.first = false) (hs : ∀ s ∈ ss, StyleOK s ∧ StyleTrimmed s)
    (hrows : allSome (ss.map fun s => s.row (formatOf fs)) = some rows)
    (he : ∀ e ∈ es, EventCells e ∧ Trimmed e.text) :
    run st (stylesBlock v4plus fs rows ++ eventsBlock v4plus es)
      = .ok { st with sec := .events, format := eventFormat v4plus,
                      styles := st.styles ++ ss.map (fun s => { name := s.name, vals := pick s fs }),
                      events := st.events ++ es.map (Event.norm "Dialogue".toList v4plus) } := by
  cases ss with
  | nil =>
    simp only [map_nil, allSome, Option.some.injEq] at hrows
    subst hrows
    have : stylesBlock v4plus fs [] = [] := rfl
    rw [this, nil_append, run_eventsBlock v4plus es st hf he]
    simp
  | cons s ss =>
    rw [run_append_ok (run_stylesBlock v4plus fs hnd (s :: ss) rows st hf hs hrows (by simp))]
    exact run_eventsBlock v4plus es
      (St.mk .styles (formatOf fs) st.info (st.styles ++ map (fun s => { name := s.name, vals := pick s fs }) (s :: ss))
        st.events st.first) hf he

end SSA
end Astisub
