import Astisub.Lemmas.TotTeletext

/-!
# Lemmas/TotTeletextPage — character sets, rows, pages and the data loop of the teletext reader, checked

Checked variants of `teletextCharacterDecoder.updateCharset` / `decode`, `parseTeletextRow`,
`teletextPage.parse`, and of the loop of `ReadFromTeletext` built on `process` (`teletext.go`).
Index obligations: the `*v2.g0` dereference and the `d.c[positions[k]] = v` store of `updateCharset`
(discharged by facts about the package's tables: every entry of `teletextCharsets` has a G0 set, the
thirteen national positions are below 96), and `d.c[b-0x20]` of `decode` (guarded by
`b < 0x20 || b > 0x7f ⇒ nothing`, fix-4 of C06, together with the fact that `updateCharset` has run
before any row is decoded: `DecOk`).
-/

namespace Astisub
namespace Tot
namespace Teletext
open Astisub.Teletext Generated.Teletext Go

/-! ## monadic fold -/

def foldlC {σ α} (f : σ → α → Chk σ) : σ → List α → Chk σ
  | s, [] => pure s
  | s, a :: as => do
    let s' ← f s a
    foldlC f s' as

theorem foldlC_inv {σ α} {f : σ → α → Chk σ} {g : σ → α → σ} (I : σ → Prop) (l : List α)
    (hstep : ∀ s a, I s → a ∈ l → f s a = .ok (g s a) ∧ I (g s a)) :
    ∀ s, I s → foldlC f s l = .ok (l.foldl g s) ∧ I (l.foldl g s) := by
  induction l with
  | nil => intro s hs; exact ⟨rfl, hs⟩
  | cons a as ih =>
    intro s hs
    have h1 := hstep s a hs (by simp)
    unfold foldlC
    rw [h1.1]
    exact ih (fun s' a' hs' ha' => hstep s' a' hs' (by simp [ha'])) _ h1.2

/-! ## tables -/

def entryOk (e : Nat × Nat × Option Nat × Option Nat) : Bool :=
  (match e.2.2.1 with | some g => decide (g < g0Tables.length) | none => false) &&
  (match e.2.2.2 with | some n => decide (n < natTables.length) | none => true)

/-- every entry of `teletextCharsets` has a G0 set and valid table references -/
theorem charsets_entryOk : ∀ e ∈ charsets, entryOk e = true := by decide

theorem positions_lt : ∀ p ∈ positions, p < 96 := by decide
theorem g0_rows : ∀ t ∈ g0Tables, t.length = 96 := by decide
theorem nat_rows : ∀ t ∈ natTables, t.length = 13 := by decide
theorem positions_len : positions.length = 13 := by decide

theorem toCharset_length (t : List (List Nat)) : (toCharset t).length = t.length := by simp [toCharset]

/-! ## `updateCharset` -/

/-- `for k, v := range nationalOptionSubset { d.c[positions[k]] = v }`: `positions[k]` and the store into the 96-entry array -/
def patchNationalC : Charset → List Nat → List Str → Chk Charset
  | c, p :: ps, v :: vs => if p < c.length then patchNationalC (c.set p v) ps vs else .error .index
  | _, [], _ :: _ => .error .index
  | c, _, [] => pure c

theorem patchNationalC_eq : ∀ (ps : List Nat) (c : Charset) (vs : List Str), (∀ p ∈ ps, p < c.length) → vs.length ≤ ps.length →
    patchNationalC c ps vs = .ok (patchNational c ps vs) ∧ (patchNational c ps vs).length = c.length := by
  intro ps
  induction ps with
  | nil =>
    intro c vs _ hl
    cases vs with
    | nil => exact ⟨rfl, rfl⟩
    | cons v vs => simp at hl
  | cons p ps ih =>
    intro c vs hp hl
    cases vs with
    | nil => exact ⟨rfl, rfl⟩
    | cons v vs =>
      unfold patchNationalC patchNational
      rw [if_pos (hp p (by simp))]
      have := ih (c.set p v) vs (by intro q hq; rw [List.length_set]; exact hp q (by simp [hq])) (by simpa using hl)
      rw [List.length_set] at this
      exact this

/-- the body of `updateCharset` once it recomputes: map look-ups, `*v2.g0`, the national patch -/
def computeCharsetC (triplet code : Nat) : Chk Charset :=
  match lookupCharset (keyOf triplet) code with
  | some (g0?, nat) => do
    let g0 ← deref g0?
    let tbl ← idx g0Tables g0
    let c := toCharset tbl
    match nat with
    | some n => do
      let nt ← idx natTables n
      patchNationalC c positions (toCharset nt)
    | none => pure c
  | none => do
    let tbl ← idx g0Tables defaultG0
    pure (toCharset tbl)

theorem lookupCharset_mem {key code : Nat} {x : Option Nat × Option Nat} (h : lookupCharset key code = some x) :
    ∃ e ∈ charsets, x = e.2.2 := by
  unfold lookupCharset at h
  cases hf : charsets.find? (fun e => e.1 == key && e.2.1 == code) with
  | none => rw [hf] at h; cases h
  | some e =>
    rw [hf] at h
    exact ⟨e, List.mem_of_find?_eq_some hf, by simpa using h.symm⟩

theorem getD_mem {α} {l : List α} {i : Nat} (h : i < l.length) (d : α) : l.getD i d ∈ l := by
  rw [List.getD_eq_getElem?_getD, List.getElem?_eq_getElem h]
  exact List.getElem_mem h

theorem computeCharsetC_eq (triplet code : Nat) :
    computeCharsetC triplet code = .ok (computeCharset triplet code) ∧ (computeCharset triplet code).length = 96 := by
  unfold computeCharsetC computeCharset
  cases hl : lookupCharset (keyOf triplet) code with
  | none =>
    have h0 : defaultG0 < g0Tables.length := by decide
    simp only [idx_ok h0 [], ok_bind, pure_eq]
    refine ⟨rfl, ?_⟩
    show (toCharset (g0Tables.getD defaultG0 [])).length = 96
    rw [toCharset_length]; exact g0_rows _ (getD_mem h0 [])
  | some x =>
    obtain ⟨e, he, rfl⟩ := lookupCharset_mem hl
    have hok := charsets_entryOk e he
    unfold entryOk at hok
    obtain ⟨k, c, g0?, nat⟩ := e
    simp only at hok ⊢
    cases g0? with
    | none => simp at hok
    | some g0 =>
      simp only [Bool.and_eq_true, decide_eq_true_eq] at hok
      have hg := hok.1
      have hlen : (toCharset (g0Tables.getD g0 [])).length = 96 := by
        rw [toCharset_length]; exact g0_rows _ (getD_mem hg [])
      simp only [deref, ok_bind, idx_ok hg []]
      cases nat with
      | none => exact ⟨rfl, hlen⟩
      | some n =>
        have hn : n < natTables.length := by simpa using hok.2
        simp only [idx_ok hn [], ok_bind]
        have := patchNationalC_eq positions (toCharset (g0Tables.getD g0 [])) (toCharset (natTables.getD n []))
          (by intro p hp; rw [hlen]; exact positions_lt p hp)
          (by rw [toCharset_length, nat_rows _ (getD_mem hn []), positions_len]; exact Nat.le_refl _)
        exact ⟨this.1, by rw [this.2]; exact hlen⟩

/-- the decoder's table is the full 96-entry array once `updateCharset` has run -/
def DecOk (d : Dec) : Prop := d.last.isSome = true → d.c.length = 96

theorem dec_init_ok : DecOk {} := by intro h; cases h

/-- `updateCharset(code, false)` -/
def updateCharsetC (triplet : Nat) (d : Dec) (code : Nat) : Chk Dec :=
  if d.last == some code then pure d else do
  let c ← computeCharsetC triplet code
  pure { last := some code, c := c }

theorem updateCharsetC_eq (triplet : Nat) (d : Dec) (code : Nat) (hd : DecOk d) :
    updateCharsetC triplet d code = .ok (updateCharset triplet d code) ∧
    (updateCharset triplet d code).c.length = 96 ∧ DecOk (updateCharset triplet d code) := by
  unfold updateCharsetC updateCharset
  by_cases h : (d.last == some code) = true
  · rw [if_pos h, if_pos h]
    have : d.last.isSome = true := by
      have : d.last = some code := by simpa using h
      rw [this]; rfl
    exact ⟨rfl, hd this, hd⟩
  · rw [if_neg h, if_neg h]
    have := computeCharsetC_eq triplet code
    rw [this.1]
    exact ⟨rfl, this.2, fun _ => this.2⟩

/-! ## rows -/

/-- `teletextCharacterDecoder.decode`: `d.c[b-0x20]` behind the range guard (fix-4) -/
def decodeCharC (c : Charset) (v : Nat) : Chk Str :=
  if v < 0x20 || v > 0x7f then pure [] else idx c (v - 0x20)

theorem decodeCharC_eq (c : Charset) (v : Nat) (hc : c.length = 96) : decodeCharC c v = .ok (decodeChar c v) := by
  unfold decodeCharC decodeChar
  by_cases h : (decide (v < 0x20) || decide (v > 0x7f)) = true
  · rw [if_pos h, if_pos h]; rfl
  · rw [if_neg h, if_neg h]
    simp only [Bool.or_eq_true, decide_eq_true_eq, not_or] at h
    exact idx_ok (by omega) []

/-- without the range guard a byte above 0x7f indexes past the 96-entry table -/
example (c : Charset) (hc : c.length = 96) : idx c (0xff - 0x20) = .error .index := idx_panics (by omega)

/-- one column of `parseTeletextRow`; the table look-up is evaluated up front -/
def rowStepC (c : Charset) (s : RowSt) (v : Nat) : Chk RowSt := do
  let ch ← decodeCharC c v
  pure (
    let color : Option Nat := if v < 8 then some v else none
    let s := if v = 0xa then { s with started := false } else if v = 0xb then { s with started := true } else s
    let dh : Option Bool := if v = 0xc then some false else if v = 0xd then some true else none
    let ds : Option Bool := if v = 0xc then some false else if v = 0xf then some true else none
    let dw : Option Bool := if v = 0xc then some false else if v = 0xe then some true else none
    if color.isSome || dh.isSome || ds.isSome || dw.isSome then
      if (color.isSome && color != s.style.color) || ptrDiffers dh s.style.dh || ptrDiffers ds s.style.ds || ptrDiffers dw s.style.dw then
        let s := if s.started || !s.text.isEmpty then { s with items := appendItem s.items s.text s.style, text := [] } else s
        let st := s.style
        let st := if color.isSome then { st with color := color } else st
        let st := if dh.isSome then { st with dh := dh } else st
        let st := if ds.isSome then { st with ds := ds } else st
        let st := if dw.isSome then { st with dw := dw } else st
        { s with style := st }
      else s
    else if s.started then { s with text := s.text ++ ch }
    else s)

theorem rowStepC_eq (c : Charset) (s : RowSt) (v : Nat) (hc : c.length = 96) : rowStepC c s v = .ok (rowStep c s v) := by
  unfold rowStepC
  rw [decodeCharC_eq c v hc]
  rfl

/-- `parseTeletextRow` -/
def parseRowC (c : Charset) (row : List Nat) : Chk (Option Line) := do
  let s ← foldlC (rowStepC c) {} row
  let items := appendItem s.items s.text s.style
  pure (if items.isEmpty then none else some { items := items })

theorem parseRowC_eq (c : Charset) (row : List Nat) (hc : c.length = 96) : parseRowC c row = .ok (parseRow c row) := by
  unfold parseRowC parseRow
  have := (foldlC_inv (f := rowStepC c) (g := rowStep c) (fun _ => True) row
    (fun s a _ _ => ⟨rowStepC_eq c s a hc, trivial⟩) {} trivial).1
  rw [this]
  rfl

/-! ## pages -/

/-- `teletextPage.parse` -/
def parsePageC (triplet : Nat) (first : Int) (st : Dec × List CItem) (p : Page) : Chk (Dec × List CItem) := do
  let d ← updateCharsetC triplet st.1 p.charsetCode
  if p.data.isEmpty then pure (d, st.2) else
  let rows := p.rows.mergeSort (fun a b => decide (a ≤ b))
  let lines ← mapC (fun y => parseRowC d.c (getData p.data y)) rows
  pure (d, st.2 ++ [{ startAt := p.start - first, endAt := p.end_ - first, lines := lines.filterMap id }])

theorem parsePageC_eq (triplet : Nat) (first : Int) (st : Dec × List CItem) (p : Page) (hd : DecOk st.1) :
    parsePageC triplet first st p = .ok (parsePage triplet first st p) ∧ DecOk (parsePage triplet first st p).1 := by
  unfold parsePageC parsePage
  have hu := updateCharsetC_eq triplet st.1 p.charsetCode hd
  rw [hu.1]
  simp only [ok_bind]
  by_cases he : p.data.isEmpty = true
  · rw [if_pos he, if_pos he]; exact ⟨rfl, hu.2.2⟩
  · rw [if_neg he, if_neg he]
    rw [mapC_ok (g := fun y => parseRow (updateCharset triplet st.1 p.charsetCode).c (getData p.data y))
      (fun y _ => parseRowC_eq _ _ hu.2.1)]
    simp only [ok_bind, pure_eq, List.filterMap_map]
    exact ⟨rfl, hu.2.2⟩

/-! ## the reader -/

/-- the invariant of the reader's accumulator: the page buffer's -/
def AccOk (a : Acc) : Prop := BufOk a.buf

def feedC (a : Acc) (payload : List Nat) (t : Int) : Chk Acc := do
  let first := match a.first with | none => t | some f => if f > t then t else f
  let last := match a.last with | none => t | some l => if l < t then t else l
  let r ← processC a.buf payload t
  pure { buf := r.1, first := some first, last := some last, pages := a.pages ++ r.2 }

theorem feedC_eq (a : Acc) (payload : List Nat) (t : Int) (ha : AccOk a) (hp : Bytes256 payload) :
    feedC a payload t = .ok (feed a payload t) ∧ AccOk (feed a payload t) := by
  unfold feedC feed
  rw [processC_eq a.buf payload t ha hp]
  exact ⟨rfl, process_ok a.buf payload t ha⟩

/-- `dump` and the `parse` loop at the end of `ReadFromTeletext` -/
def finishC (a : Acc) : Chk Subs := do
  let pages := a.pages ++ (match a.buf.current with
    | some p => [{ p with end_ := a.last.getD 0 }]
    | none => [])
  let r ← foldlC (parsePageC (tripletOf a.buf.x28 a.buf.m29) (a.first.getD 0)) ({}, []) pages
  pure { items := r.2 }

theorem finishC_eq (a : Acc) : finishC a = .ok (finish a) := by
  unfold finishC finish
  have := (foldlC_inv (f := parsePageC (tripletOf a.buf.x28 a.buf.m29) (a.first.getD 0))
    (g := parsePage (tripletOf a.buf.x28 a.buf.m29) (a.first.getD 0)) (fun st => DecOk st.1)
    (a.pages ++ (match a.buf.current with | some p => [{ p with end_ := a.last.getD 0 }] | none => []))
    (fun st p hst _ => parsePageC_eq _ _ st p hst) ({}, []) dec_init_ok).1
  simp only [this, ok_bind, pure_eq]
  rfl

/-- the hook driver `VerifTeletextRun`: every (time, payload) pair of the chosen PID, then `finish` -/
def runPESC (page : Nat) (pes : List (Int × List Nat)) : Chk Subs := do
  let a ← foldlC (fun a p => feedC a p.2 p.1) { buf := newBuf page } pes
  finishC a

theorem runPESC_eq (page : Nat) (pes : List (Int × List Nat)) (h : ∀ p ∈ pes, Bytes256 p.2) :
    runPESC page pes = .ok (runPES page pes) := by
  unfold runPESC runPES
  have := (foldlC_inv (f := fun a p => feedC a p.2 p.1) (g := fun a (p : Int × List Nat) => feed a p.2 p.1) AccOk pes
    (fun a p ha hp => feedC_eq a p.2 p.1 ha (h p hp)) { buf := newBuf page } (newBuf_ok page)).1
  rw [this]
  exact finishC_eq _

/-- every payload of the demultiplexer's PES data is a byte string -/
def DataOk (d : Data) : Prop :=
  match d with
  | .pes _ _ _ _ payload => Bytes256 payload
  | _ => True

/-- the data loop of `ReadFromTeletext` after the rewind -/
def readLoopC (page pid : Nat) (pass : List Data) (endOk : Bool) : Chk (Astisub.Teletext.Res Subs) :=
  if !endOk then pure .err else do
  let a ← foldlC (fun (a : Acc) d =>
    match d with
    | .pes p sid pts pcr payload =>
      if p != pid % 65536 || sid != some 189 then pure a else
      match pts.orElse fun _ => pcr with
      | none => pure a
      | some t => feedC a payload t
    | _ => pure a) { buf := newBuf page } pass
  let s ← finishC a
  pure (.ok s)

theorem readLoopC_eq (page pid : Nat) (pass : List Data) (endOk : Bool) (h : ∀ d ∈ pass, DataOk d) :
    readLoopC page pid pass endOk = .ok (readLoop page pid pass endOk) := by
  unfold readLoopC readLoop
  by_cases he : (!endOk) = true
  · rw [if_pos he, if_pos he]; rfl
  · rw [if_neg he, if_neg he]
    have := (foldlC_inv
      (f := fun (a : Acc) d =>
        match d with
        | .pes p sid pts pcr payload =>
          if p != pid % 65536 || sid != some 189 then pure a else
          match pts.orElse fun _ => pcr with
          | none => pure a
          | some t => feedC a payload t
        | _ => pure a)
      (g := fun (a : Acc) d =>
        match d with
        | .pes p sid pts pcr payload =>
          if p != pid % 65536 || sid != some 189 then a else
          match pts.orElse fun _ => pcr with
          | none => a
          | some t => feed a payload t
        | _ => a) AccOk pass
      (by
        intro a d ha hd
        cases d with
        | pes p sid pts pcr payload =>
          simp only
          split
          · exact ⟨rfl, ha⟩
          · split
            · exact ⟨rfl, ha⟩
            · exact feedC_eq a payload _ ha (h _ hd)
        | pmt s => exact ⟨rfl, ha⟩
        | other => exact ⟨rfl, ha⟩
        | nil => exact ⟨rfl, ha⟩)
      { buf := newBuf page } (newBuf_ok page)).1
    rw [this]
    simp only [ok_bind, finishC_eq, pure_eq]
    rfl

end Teletext
end Tot
end Astisub
