import Astisub.Lemmas.SSARead2Scalar

/-!
# Lemmas/SSARead2Step — one iteration of the reader's scan loop, on the decoder's classification of the line
-/

namespace Astisub
namespace SSAR
open Go SSA

/-- `step` after the line has been trimmed and the byte-order mark removed -/
def stepL (st : St) (line : Str) : Res St :=
  let st := { st with first := false }
  if line.isEmpty then .ok st
  else if hasPrefix ['['] line && hasSuffix [']'] line then
    let n := toLowerSec (line.drop 1).dropLast
    if n = "events".toList then .ok { st with sec := .events, format := [] }
    else if n = "script info".toList then .ok { st with sec := .scriptInfo }
    else if n = "v4 styles".toList || n = "v4+ styles".toList || n = "v4 styles+".toList then
      .ok { st with sec := .styles, format := [] }
    else .ok { st with sec := .unknown }
  else if st.sec = .unknown then .ok st
  else if line.head? = some ';' then
    .ok { st with info := { st.info with comments := st.info.comments ++ [trimSpace (line.drop 1)] } }
  else
    let split := splitC ':' line
    if split.length < 2 || split.head? = some [] then .ok st else
    let header := trimSpace (split.headD [])
    let content := trimSpace (join [':'] split.tail)
    match st.sec with
    | .scriptInfo =>
      match st.info.parse header content with
      | .ok i => .ok { st with info := i }
      | .err => .err
      | .unmodelled => .unmodelled
    | .events => eventsLine st header content
    | .styles => stylesLine st header content
    | _ => .ok st

theorem step_eq (st : St) (raw : Str) :
    step st raw = stepL st (if st.first then trimPrefix bom (trimSpace raw) else trimSpace raw) := rfl

def runL : St → List Str → Res St
  | st, [] => .ok st
  | st, l :: ls =>
    match stepL st l with
    | .ok st' => runL st' ls
    | .err => .err
    | .unmodelled => .unmodelled


theorem hasPrefix_single (c : Char) (s : Str) : hasPrefix [c] s = (s.head? == some c) := by
  cases s with
  | nil => simp [hasPrefix, dropPrefix?]
  | cons x xs =>
    by_cases h : c = x
    · subst h; simp [hasPrefix, dropPrefix?]
    · have : ¬ x = c := fun e => h e.symm
      simp [hasPrefix, dropPrefix?, h, this]

theorem hasSuffix_single (c : Char) (s : Str) : hasSuffix [c] s = (s.getLast? == some c) := by
  unfold hasSuffix
  rw [List.reverse_singleton, hasPrefix_single, List.head?_reverse]

theorem ofList_eq_iff (n : Str) (s : String) : String.ofList n = s ↔ n = s.toList :=
  ⟨fun h => by rw [← h, String.toList_ofList], fun h => by rw [h, String.ofList_toList]⟩

/-- the model's header test is the decoder's -/
theorem header_test (l : Str) : (hasPrefix ['['] l && hasSuffix [']'] l) = (Spec.SSA.secKind l).isSome := by
  rw [hasPrefix_single, hasSuffix_single]
  cases l with
  | nil => simp [Spec.SSA.secKind]
  | cons x xs =>
    by_cases hx : x = '['
    · subst hx
      simp only [List.head?_cons, beq_self_eq_true, Bool.true_and, Spec.SSA.secKind, List.getLast?_cons]
      cases hg : xs.getLast? with
      | none => simp
      | some y =>
        by_cases hy : y = ']'
        · subst hy; simp
        · simp [hy]
    · have : Spec.SSA.secKind (x :: xs) = none := by
        unfold Spec.SSA.secKind
        split
        · rename_i h; cases h; exact absurd rfl hx
        · rfl
      simp [this, hx]


theorem lowerFin : ∀ k : Fin 26, Char.ofNat (65 + k.val + 32) ≠ Char.ofNat 0x130 ∧ Char.ofNat (65 + k.val + 32) ≠ Char.ofNat 0x212A := by
  decide

theorem lower_not_special (c : Char) (h1 : 'A' ≤ c) (h2 : c ≤ 'Z') :
    Char.ofNat (c.toNat + 32) ≠ Char.ofNat 0x130 ∧ Char.ofNat (c.toNat + 32) ≠ Char.ofNat 0x212A := by
  rw [Char.le_def, UInt32.le_iff_toNat_le] at h1 h2
  have e1 : c.val.toNat = c.toNat := rfl
  have a1 : ('A' : Char).val.toNat = 65 := by decide
  have a2 : ('Z' : Char).val.toNat = 90 := by decide
  rw [e1, a1] at h1
  rw [e1, a2] at h2
  have := lowerFin ⟨c.toNat - 65, by omega⟩
  have e : 65 + (c.toNat - 65) + 32 = c.toNat + 32 := by omega
  simp only [e] at this
  exact this

def plainName (l : Str) : Bool := !(l.any fun c => c = Char.ofNat 0x130 || c = Char.ofNat 0x212A)

theorem toLowerSec_plain (n : Str) (h : plainName n = true) : toLowerSec n = Spec.SSA.lowerAscii n := by
  unfold toLowerSec toLowerAscii Spec.SSA.lowerAscii
  rw [List.map_map]
  apply List.map_congr_left
  intro c hc
  have hs : c ≠ Char.ofNat 0x130 ∧ c ≠ Char.ofNat 0x212A := by
    unfold plainName at h
    simp only [Bool.not_eq_true', List.any_eq_false, Bool.or_eq_true, decide_eq_true_eq, not_or] at h
    exact h c hc
  simp only [Function.comp]
  by_cases hu : 'A' ≤ c ∧ c ≤ 'Z'
  · have := lower_not_special c hu.1 hu.2
    simp [hu, this.1, this.2]
  · simp [hu, hs.1, hs.2]

theorem plainName_sub (x : Char) (rest : Str) (h : plainName (x :: rest) = true) : plainName rest.dropLast = true := by
  unfold plainName at *
  simp only [Bool.not_eq_true', List.any_eq_false, Bool.or_eq_true, decide_eq_true_eq, not_or] at *
  intro c hc
  exact h c (List.mem_cons_of_mem _ (List.dropLast_subset _ hc))

/-- the state after a section header of kind `k` -/
def enter (k : Spec.SSA.SecKind) (st : St) : St :=
  match k with
  | .events => { st with first := false, sec := .events, format := [] }
  | .info => { st with first := false, sec := .scriptInfo }
  | .styles => { st with first := false, sec := .styles, format := [] }
  | .unknown => { st with first := false, sec := .unknown }

theorem secKind_cons (rest : Str) (k : Spec.SSA.SecKind) (hk : Spec.SSA.secKind ('[' :: rest) = some k) :
    k = (let n := Spec.SSA.lowerAscii rest.dropLast
      if n = "script info".toList then .info else if n = "events".toList then .events
      else if n = "v4 styles".toList ∨ n = "v4+ styles".toList ∨ n = "v4 styles+".toList then .styles else .unknown) := by
  unfold Spec.SSA.secKind at hk
  simp only at hk
  split at hk
  · simp only [Option.some.injEq, ofList_eq_iff, Bool.or_eq_true, decide_eq_true_eq, or_assoc] at hk
    exact hk.symm
  · cases hk

theorem or3 (n a b c : Str) : ((decide (n = a) || decide (n = b) || decide (n = c)) = true) ↔ (n = a ∨ n = b ∨ n = c) := by
  simp [or_assoc]

theorem enter_chain (st : St) (n : Str) :
    (if n = "events".toList then Res.ok { st with first := false, sec := .events, format := [] }
      else if n = "script info".toList then .ok { st with first := false, sec := .scriptInfo }
      else if (n = "v4 styles".toList || n = "v4+ styles".toList || n = "v4 styles+".toList) = true then
        .ok { st with first := false, sec := .styles, format := [] }
      else .ok { st with first := false, sec := .unknown }) =
    .ok (enter (if n = "script info".toList then .info else if n = "events".toList then .events
      else if n = "v4 styles".toList ∨ n = "v4+ styles".toList ∨ n = "v4 styles+".toList then .styles else .unknown) st) := by
  by_cases h2 : n = "events".toList
  · have h1 : ¬ n = "script info".toList := by rw [h2]; decide
    rw [if_pos h2, if_neg h1, if_pos h2]; rfl
  · rw [if_neg h2]
    by_cases h1 : n = "script info".toList
    · rw [if_pos h1, if_pos h1]; rfl
    · rw [if_neg h1, if_neg h1, if_neg h2]
      by_cases h3 : n = "v4 styles".toList ∨ n = "v4+ styles".toList ∨ n = "v4 styles+".toList
      · rw [if_pos h3, if_pos ((or3 _ _ _ _).mpr h3)]; rfl
      · rw [if_neg h3, if_neg (fun h => h3 ((or3 _ _ _ _).mp h))]; rfl

/-- **Section header.** On a line the decoder classifies as a header of kind `k` (without `İ` / `K`) the reader
    enters the section of that kind -/
theorem stepL_header (st : St) (l : Str) (k : Spec.SSA.SecKind) (hk : Spec.SSA.secKind l = some k)
    (hp : plainName l = true) : stepL st l = .ok (enter k st) := by
  have ht := header_test l
  rw [hk] at ht
  cases l with
  | nil => simp [Spec.SSA.secKind] at hk
  | cons x rest =>
    have hx : x = '[' := by
      unfold Spec.SSA.secKind at hk
      split at hk
      · rename_i h; cases h; rfl
      · cases hk
    subst hx
    have hlow := toLowerSec_plain _ (plainName_sub _ _ hp)
    rw [secKind_cons rest k hk]
    unfold stepL
    simp only [ht, List.isEmpty_cons, Bool.false_eq_true, ↓reduceIte, Option.isSome_some, List.drop_succ_cons, List.drop_zero, hlow]
    exact enter_chain st _


theorem st_first_eta (st : St) (hf : st.first = false) : { st with first := false } = st := by
  cases st; simp at hf; subst hf; rfl

theorem splitC_head_nil (x : Char) (xs : Str) : (splitC ':' (x :: xs)).head? = some [] ↔ x = ':' := by
  unfold splitC
  by_cases h : x = ':'
  · simp [h]
  · simp only [h, ↓reduceIte, iff_false]
    cases splitC ':' xs <;> simp

/-- what the body of a `match` on the section does with a `Key: value` line -/
def kvStep (st : St) (k v : Str) : Res St :=
  match st.sec with
  | .scriptInfo =>
    match st.info.parse k v with
    | .ok i => .ok { st with info := i }
    | .err => .err
    | .unmodelled => .unmodelled
  | .events => eventsLine st k v
  | .styles => stylesLine st k v
  | _ => .ok st

/-- **Body line.** On a line that is not a section header, the reader acts on the decoder's classification of the
    line: ignored in an unknown section; a comment is collected; a line without `:` (or starting with `:`) is
    skipped; a `Key: value` line is handed to the section's handler with the decoder's key and value -/
theorem stepL_body (st : St) (l : Str) (hl : Spec.SSA.secKind l = none) (hne : l ≠ []) (hf : st.first = false) :
    stepL st l =
      if st.sec = .unknown then .ok st else
      match Spec.SSA.classify l with
      | .comment c => .ok { st with info := { st.info with comments := st.info.comments ++ [c] } }
      | .junk => .ok st
      | .kv k v => if l.head? = some ':' then .ok st else kvStep st k v := by
  have ht := header_test l
  rw [hl] at ht
  unfold stepL
  rw [st_first_eta st hf]
  cases l with
  | nil => exact absurd rfl hne
  | cons x xs =>
    simp only [List.isEmpty_cons, Bool.false_eq_true, ↓reduceIte, ht, Option.isSome_none]
    by_cases hu : st.sec = .unknown
    · simp [hu]
    · simp only [hu, ↓reduceIte, List.head?_cons, Option.some.injEq]
      by_cases hx : x = ';'
      · subst hx
        simp [Spec.SSA.classify]
      · have hc : Spec.SSA.classify (x :: xs) = match Spec.SSA.keyValue (x :: xs) with
            | some (k, v) => .kv k v | none => .junk := by
          unfold Spec.SSA.classify
          split
          · rename_i h; cases h; exact absurd rfl hx
          · rfl
        rw [hc, keyValue_split]
        simp only [hx, ↓reduceIte]
        by_cases hlen : (splitC ':' (x :: xs)).length < 2
        · simp [hlen]
        · simp only [hlen, decide_false, Bool.false_or, ↓reduceIte]
          by_cases hh : x = ':'
          · have := (splitC_head_nil x xs).mpr hh
            subst hh
            simp [this]
          · have h1 : ¬ (splitC ':' (x :: xs)).head? = some [] := fun h => hh ((splitC_head_nil x xs).mp h)
            simp only [hh, ↓reduceIte]
            rw [if_neg (by simpa using h1)]
            rfl

end SSAR
end Astisub
