import Astisub.Lemmas.C13WRVtt
import Astisub.Props.C01doc

/-!
# Lemmas/C13WRStrip — `RemoveStyling` on the cue model `Subs`

`removeStylingSubs`: the definition lists are emptied; every cue loses its style reference, region
reference and inline attributes; every run loses its style reference and inline attributes.
Nothing else is addressed (numbers, instants, comments, voices, texts, in-cue instants, metadata).
-/

namespace Astisub
namespace C13WR
open Go List

def stripRun (li : LItem) : LItem := { li with style := none, attrs := none }

def stripLine (l : Line) : Line := { l with items := l.items.map stripRun }

def stripItem (it : CItem) : CItem :=
  { it with style := none, region := none, attrs := none, lines := it.lines.map stripLine }

/-- **`Subtitles.RemoveStyling` on `Subs`** -/
def removeStylingSubs (s : Subs) : Subs :=
  { s with items := s.items.map stripItem, regions := [], styles := [] }

/-- what the harness snapshots around the call (`same=`): per cue its instants and number, per line
    the voice, per run the text and the in-cue instant -/
def cueShot (s : Subs) : List (Int × Int × Int × List (Str × List (Str × Int))) :=
  s.items.map fun it => (it.startAt, it.endAt, it.index,
    it.lines.map fun l => (l.voice, l.items.map fun li => (li.text, li.startAt)))

theorem cueShot_removeStylingSubs (s : Subs) : cueShot (removeStylingSubs s) = cueShot s := by
  simp [cueShot, removeStylingSubs, stripItem, stripLine, stripRun, Function.comp_def]

theorem cueShot_optimizeSubs (s : Subs) : cueShot (optimizeSubs s) = cueShot s := by
  simp [cueShot, optimizeSubs_items]

theorem runRefs_stripItem (it : CItem) : runRefs (stripItem it) = (runRefs it).map fun _ => none := by
  simp [runRefs, stripItem, stripLine, stripRun, map_flatMap, flatMap_map, Function.comp_def]

/-- the abstraction commutes with `RemoveStyling` too -/
theorem removeStyling_graphOf (s : Subs) : Graph.removeStyling (graphOf s) = graphOf (removeStylingSubs s) := by
  simp only [Graph.removeStyling, graphOf, removeStylingSubs, map_map, map_nil]
  congr 1
  apply map_congr_left
  intro it _
  simp only [Function.comp, gItem, runRefs_stripItem, map_map]
  have h1 : gchain [] (stripItem it).style = [] := rfl
  have h2 : (stripItem it).region = none := rfl
  rw [h1, h2]
  congr 1

/-! ### what is left is representable whenever times and text are -/

/-- times and texts TTML can carry: at least one cue, instants in `[0, 100 h)`, no line feed in a run -/
def ttmlPlainOk (s : Subs) : Bool :=
  !s.items.isEmpty && s.items.all fun it =>
    TTMLDoc.timeOk it.startAt && TTMLDoc.timeOk it.endAt &&
    it.lines.all fun l => l.items.all fun li => !li.text.contains '\n'

theorem attrsOk_none : TTMLDoc.attrsOk none = true := rfl

theorem outAttrs_none : TTML.outAttrs none = [] := by decide

open TTMLDoc in
/-- after `RemoveStyling` the TTML proviso is a condition on instants and text alone -/
theorem rep_removeStylingSubs (s : Subs) : rep (removeStylingSubs s) = ttmlPlainOk s := by
  simp only [rep, removeStylingSubs, ttmlPlainOk, map_nil, all_nil, Bool.and_true, all_map, isEmpty_map]
  have hnd : decide (([] : List Str).Nodup) = true := by decide
  rw [hnd]
  simp only [Bool.and_true]
  congr 1
  apply all_congr rfl
  intro it
  simp only [Function.comp, cueOk, stripItem, attrsOk_none, all_map, Bool.and_true]
  have hr : ∀ ids, refOk ids none = true := fun _ => rfl
  simp only [hr, Bool.and_true]
  congr 1
  apply all_congr rfl
  intro l
  simp only [Function.comp, stripLine, all_map]
  apply all_congr rfl
  intro li
  simp only [Function.comp, runOk, stripRun, attrsOk_none, hr, Bool.and_true, Bool.true_and]

open TTMLDoc in
/-- in particular: what TTML could carry with its styling, it can carry without -/
theorem rep_removeStylingSubs_of_rep (s : Subs) (h : rep s = true) : rep (removeStylingSubs s) = true := by
  rw [rep_removeStylingSubs]
  simp only [rep, Bool.and_eq_true, all_eq_true, Bool.not_eq_true'] at h
  obtain ⟨⟨⟨⟨⟨hne, _⟩, _⟩, _⟩, _⟩, hit⟩ := h
  simp only [ttmlPlainOk, Bool.and_eq_true, all_eq_true, Bool.not_eq_true']
  refine ⟨hne, fun it hi => ?_⟩
  have := hit it hi
  simp only [cueOk, Bool.and_eq_true, all_eq_true] at this
  obtain ⟨⟨⟨⟨⟨t1, t2⟩, _⟩, _⟩, _⟩, hl⟩ := this
  refine ⟨⟨t1, t2⟩, fun l hl' li hli => ?_⟩
  have := hl l hl' li hli
  simp only [runOk, Bool.and_eq_true] at this
  simpa using this.1.2

open TTMLDoc in
theorem xmlCarries_removeStylingSubs (s : Subs) (h : xmlCarries s = true) : xmlCarries (removeStylingSubs s) = true := by
  simp only [xmlCarries, Bool.and_eq_true, all_eq_true] at h ⊢
  obtain ⟨⟨⟨⟨h1, h2⟩, _⟩, _⟩, h5⟩ := h
  refine ⟨⟨⟨⟨h1, h2⟩, fun d hd => by cases hd⟩, fun d hd => by cases hd⟩, ?_⟩
  intro it hit
  obtain ⟨it0, hit0, rfl⟩ := mem_map.mp hit
  obtain ⟨_, hlines⟩ := h5 it0 hit0
  refine ⟨⟨⟨rfl, rfl⟩, fun x hx => by
    rw [show (stripItem it0).attrs = none from rfl, outAttrs_none] at hx; cases hx⟩, ?_⟩
  intro l hl li hli
  obtain ⟨l0, hl0, rfl⟩ := mem_map.mp hl
  obtain ⟨li0, hli0, rfl⟩ := mem_map.mp hli
  obtain ⟨⟨ht, _⟩, _⟩ := hlines l0 hl0 li0 hli0
  exact ⟨⟨ht, rfl⟩, fun x hx => by
    rw [show (stripRun li0).attrs = none from rfl, outAttrs_none] at hx; cases hx⟩

/-- comments, instants, voices and texts WebVTT can carry (the predicates of `DocOk` on cues without any
    attribute), at most `int64` cues, and the timestamp map of the metadata -/
def vttPlainOk (s : Subs) : Bool :=
  !s.items.isEmpty && (s.items.all fun it =>
    VTT.commentsOk it.comments &&
    decide (0 ≤ it.startAt) && decide (it.startAt < 360000000000000) &&
    decide (0 ≤ it.endAt) && decide (it.endAt < 360000000000000) &&
    it.lines.all fun l => VTT.lineFit (stripLine l)) &&
  decide (s.items.length ≤ int64Max) && VTT.tsmapOk s

open VTT in
theorem cueSetting_strip (s : Subs) (it : CItem) (k : String) :
    cueSetting (removeStylingSubs s) (stripItem it) k = none := rfl

open VTT in
theorem styleLines_removeStylingSubs (s : Subs) : styleLines (removeStylingSubs s) = [] := by
  simp [styleLines, removeStylingSubs, VTT.sortDefs]

open VTT in
/-- after `RemoveStyling` the WebVTT proviso is a condition on comments, instants, voices and text alone -/
theorem docOk_removeStylingSubs (s : Subs) : DocOk (removeStylingSubs s) = vttPlainOk s := by
  have hts : tsmapOk (removeStylingSubs s) = tsmapOk s := rfl
  have hse : styleEndOk (removeStylingSubs s) = true := by
    simp [styleEndOk, styleLines_removeStylingSubs]
  have hitems : (removeStylingSubs s).items = s.items.map stripItem := rfl
  have hreg : (removeStylingSubs s).regions = [] := rfl
  have hnd : decide (([] : List Str).Nodup) = true := by decide
  unfold DocOk
  rw [hts, hse, styleLines_removeStylingSubs, hitems, hreg]
  simp only [vttPlainOk, map_nil, all_nil, Bool.and_true, all_map, isEmpty_map, length_map, hnd]
  congr 3
  apply all_congr rfl
  intro it
  have hopt : optOk none = true := rfl
  have hrr : regionRefOk (removeStylingSubs s) (stripItem it).region = true := rfl
  have e1 : (stripItem it).comments = it.comments := rfl
  have e2 : (stripItem it).startAt = it.startAt := rfl
  have e3 : (stripItem it).endAt = it.endAt := rfl
  have e4 : (stripItem it).lines = it.lines.map stripLine := rfl
  simp only [Function.comp, cueOk2, cueSetting_strip, hopt, hrr, e1, e2, e3, e4, Bool.and_true, all_map]
  rfl

theorem stripRun_idem (li : LItem) : stripRun (stripRun li) = stripRun li := rfl
theorem stripLine_idem (l : Line) : stripLine (stripLine l) = stripLine l := by
  simp [stripLine, stripRun, Function.comp_def]

/-- SubRip's proviso only looks at cues: after `RemoveStyling` it is the proviso of the stripped cues -/
theorem srtRep_removeStylingSubs (s : Subs) :
    SRTDoc.Rep (removeStylingSubs s)
      = (!s.items.isEmpty && decide (s.items.length ≤ int64Max) && s.items.all fun it => SRTDoc.RepItem (stripItem it)) := by
  simp [SRTDoc.Rep, removeStylingSubs, all_map, Function.comp_def]

end C13WR
end Astisub
