import Astisub.Lemmas.VTT3WDocDefs

/-!
# Lemmas/VTT3WDocLines — from the written text back to its lines and blocks (decoder side)

* `splitLines_unlines`: the decoder's line splitter on LF-terminated lines without CR / LF;
* `segLines` / `go_segLines`: lines made of groups of non-blank trimmed lines, each group preceded by one
  blank line, are cut by the decoder's `blocks` into exactly those groups.
-/

namespace Astisub
namespace VTT3W
open Go Spec.VTT VTTRead

/-! ### `splitLines ∘ unlines` -/

theorem splitLines_line (l : Str) (hl : VTT.NoBreak l) (rest : Str) :
    ∀ acc : Str, splitLines (l ++ '\n' :: rest) acc = (acc.reverse ++ l) :: splitLines rest [] := by
  induction l with
  | nil => intro acc; simp [splitLines_lf]
  | cons c cs ih =>
    intro acc
    have hc := hl c (by simp)
    rw [List.cons_append, splitLines_other c _ _ hc.1 hc.2, ih (fun x hx => hl x (by simp [hx]))]
    simp

theorem splitLines_unlines (ls : List Str) (h : ∀ l ∈ ls, VTT.NoBreak l) :
    splitLines (VTT.unlines ls) [] = ls := by
  induction ls with
  | nil => simp [VTT.unlines, splitLines_nil]
  | cons l ls ih =>
    rw [VTT.unlines_cons, splitLines_line l (h l (by simp)), ih (fun x hx => h x (by simp [hx]))]
    simp

/-! ### groups of lines separated by blank lines -/

/-- the groups, each preceded by one blank line -/
def segLines : List (List Str) → List Str
  | [] => []
  | b :: bs => ([] :: b) ++ segLines bs

theorem segLines_append (a b : List (List Str)) : segLines (a ++ b) = segLines a ++ segLines b := by
  induction a with
  | nil => rfl
  | cons x xs ih => simp [segLines, ih]

theorem trimSpace_nil : trimSpace ([] : Str) = [] := by decide

theorem go_blines (b : List Str) (hb : ∀ l ∈ b, BLine l) (rest : List Str) :
    ∀ cur : List Str, blocks.go (b ++ rest) cur = blocks.go rest (b.reverse ++ cur) := by
  induction b with
  | nil => intro cur; rfl
  | cons l ls ih =>
    intro cur
    have hl := hb l (by simp)
    rw [List.cons_append, go_cons, hl.1, if_neg hl.2, ih (fun x hx => hb x (by simp [hx]))]
    simp

theorem go_blank_nil (rest : List Str) : blocks.go ([] :: rest) [] = blocks.go rest [] := by
  rw [go_cons, trimSpace_nil]
  simp

theorem go_blank_cons (rest : List Str) (cur : List Str) (h : cur ≠ []) :
    blocks.go ([] :: rest) cur = cur.reverse :: blocks.go rest [] := by
  rw [go_cons, trimSpace_nil]
  have : cur.isEmpty = false := by cases cur <;> simp_all
  simp [this]

/-- the decoder's `blocks` on grouped lines: the groups -/
theorem go_segLines (bs : List (List Str)) (hne : ∀ b ∈ bs, b ≠ []) (hbl : ∀ b ∈ bs, ∀ l ∈ b, BLine l) :
    ∀ cur : List Str, blocks.go (segLines bs) cur = (if cur.isEmpty then [] else [cur.reverse]) ++ bs := by
  induction bs with
  | nil =>
    intro cur
    rw [segLines, go_nil]
    simp
  | cons b bs ih =>
    intro cur
    have ihb := ih (fun x hx => hne x (by simp [hx])) (fun x hx => hbl x (by simp [hx]))
    have hb : b ≠ [] := hne b (by simp)
    have hbr : (b.reverse ++ ([] : List Str)).isEmpty = false := by
      cases b with
      | nil => exact absurd rfl hb
      | cons x xs => simp
    have step : blocks.go (b ++ segLines bs) [] = b :: bs := by
      rw [go_blines b (hbl b (by simp)), ihb, hbr]
      simp
    rw [segLines, List.cons_append]
    by_cases hc : cur = []
    · subst hc
      rw [go_blank_nil, step]
      simp
    · rw [go_blank_cons _ _ hc, step]
      have : cur.isEmpty = false := by cases cur <;> simp_all
      simp [this]

theorem blocks_segLines (bs : List (List Str)) (hne : ∀ b ∈ bs, b ≠ []) (hbl : ∀ b ∈ bs, ∀ l ∈ b, BLine l) :
    blocks (segLines bs) = bs := by
  rw [blocks_eq, go_segLines bs hne hbl]
  simp

/-! ### the header -/

theorem metaLine_nil : metaLine [] = false := by decide

theorem takeWhile_meta (hdr : List Str) (hh : ∀ l ∈ hdr, metaLine l = true) (rest : List Str) :
    (hdr ++ ([] : Str) :: rest).takeWhile metaLine = hdr := by
  induction hdr with
  | nil => simp [metaLine_nil]
  | cons l ls ih =>
    rw [List.cons_append, List.takeWhile_cons, hh l (by simp)]
    simp only [if_true]
    rw [ih (fun x hx => hh x (by simp [hx]))]

theorem okHeader_webvtt : okHeader "WEBVTT".toList = true := by decide

/-- the decoder's block list for: `WEBVTT`, header metadata lines (trimmed), then groups -/
theorem docBlocks_written (hdr : List Str) (bs : List (List Str)) (hbs : bs ≠ [])
    (hh : ∀ l ∈ hdr, metaLine l = true) (hht : ∀ l ∈ hdr, trimSpace l = l)
    (hne : ∀ b ∈ bs, b ≠ []) (hbl : ∀ b ∈ bs, ∀ l ∈ b, BLine l)
    (hnb : ∀ l ∈ ("WEBVTT".toList :: hdr) ++ segLines bs, VTT.NoBreak l) :
    docBlocks (VTT.unlines (("WEBVTT".toList :: hdr) ++ segLines bs))
      = some ((if hdr.isEmpty then [] else [hdr]) ++ bs) := by
  have hstrip : stripBom (VTT.unlines (("WEBVTT".toList :: hdr) ++ segLines bs))
      = VTT.unlines (("WEBVTT".toList :: hdr) ++ segLines bs) := by
    rw [List.cons_append, VTT.unlines_cons]
    rfl
  unfold docBlocks
  rw [hstrip, splitLines_unlines _ hnb]
  simp only [List.cons_append]
  rw [okHeader_webvtt]
  simp only [Bool.not_true, Bool.false_eq_true, if_false]
  obtain ⟨b0, bs', rfl⟩ : ∃ b0 bs', bs = b0 :: bs' := by
    cases bs with
    | nil => exact absurd rfl hbs
    | cons a b => exact ⟨a, b, rfl⟩
  have hseg : segLines (b0 :: bs') = ([] : Str) :: (b0 ++ segLines bs') := rfl
  have htw : (hdr ++ segLines (b0 :: bs')).takeWhile metaLine = hdr := by
    rw [hseg]; exact takeWhile_meta hdr hh _
  rw [htw]
  have hmap : hdr.map trimSpace = hdr := by
    have : ∀ (l : List Str), (∀ x ∈ l, trimSpace x = x) → l.map trimSpace = l := by
      intro l
      induction l with
      | nil => intro _; rfl
      | cons x xs ih => intro h; simp [h x (by simp), ih (fun y hy => h y (by simp [hy]))]
    exact this hdr hht
  rw [hmap, List.drop_left, blocks_segLines _ hne hbl]

end VTT3W
end Astisub
