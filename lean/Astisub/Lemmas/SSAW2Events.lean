import Astisub.Lemmas.SSAW2Text

/-!
# Lemmas/SSAW2Events — the decoder's event-row reader and `[Events]` section reader on what the writer emits

* `eventOf_row` — `Spec.SSA.eventOf` on a written `Dialogue` row (the writer's fixed Format) returns `eventR`;
* `eventsOf_block` — `Spec.SSA.eventsOf` on the written `Format:` line followed by the written `Dialogue:` lines
  (after `TrimSpace`) returns the list of `eventR`s.
-/

namespace Astisub
namespace SSAW
open Go SSA SSAR List
open Spec.SSA (GVal GStyle GRun GEvent GDoc REvent)

/-! ### E1: one row -/

theorem optc_bridge {α : Type} (format cells : List Str) (c : String) (f : Str → Option α) :
    optc ((format.map String.ofList).zip cells) c f =
      match (format.zip cells).lookup c.toList with
      | none => some none
      | some cell => (f cell).map some := by
  unfold optc
  rw [lookup_bridge]
  cases (format.zip cells).lookup c.toList <;> rfl

/-- the association list of a written row, keyed by `Str` -/
def rowPairs (v : Bool) (e : Event) : List (Str × Str) := (eventFormat v).zip (e.pre v ++ [e.text])

theorem lk_start (v : Bool) (e : Event) : (rowPairs v e).lookup "Start".toList = some (Duration.formatSSA e.startAt) := by
  cases v <;> rfl
theorem lk_end (v : Bool) (e : Event) : (rowPairs v e).lookup "End".toList = some (Duration.formatSSA e.endAt) := by
  cases v <;> rfl
theorem lk_style (v : Bool) (e : Event) : (rowPairs v e).lookup "Style".toList = some e.style := by
  cases v <;> rfl
theorem lk_name (v : Bool) (e : Event) : (rowPairs v e).lookup "Name".toList = some e.name := by
  cases v <;> rfl
theorem lk_marginL (v : Bool) (e : Event) : (rowPairs v e).lookup "MarginL".toList = some (itoa (e.marginL.getD 0)) := by
  cases v <;> rfl
theorem lk_marginR (v : Bool) (e : Event) : (rowPairs v e).lookup "MarginR".toList = some (itoa (e.marginR.getD 0)) := by
  cases v <;> rfl
theorem lk_marginV (v : Bool) (e : Event) : (rowPairs v e).lookup "MarginV".toList = some (itoa (e.marginV.getD 0)) := by
  cases v <;> rfl
theorem lk_effect (v : Bool) (e : Event) : (rowPairs v e).lookup "Effect".toList = some e.effect := by
  cases v <;> rfl
theorem lk_text (v : Bool) (e : Event) : (rowPairs v e).lookup "Text".toList = some e.text := by
  cases v <;> rfl
theorem lk_layer_true (e : Event) : (rowPairs true e).lookup "Layer".toList = some (itoa (e.layer.getD 0)) := rfl
theorem lk_layer_false (e : Event) : (rowPairs false e).lookup "Layer".toList = none := rfl
theorem lk_marked_true (e : Event) : (rowPairs true e).lookup "Marked".toList = none := rfl
theorem lk_marked_false (e : Event) : (rowPairs false e).lookup "Marked".toList =
    some (if e.marked = some true then "Marked=1".toList else "Marked=0".toList) := rfl

theorem markedOf_cell (m : Option Bool) :
    markedOf (if m = some true then "Marked=1".toList else "Marked=0".toList) = some (decide (m = some true)) := by
  by_cases hb : m = some true
  · simp [hb, markedOf]
  · rw [if_neg hb]; simp only [hb, decide_false]; decide


/-- **E1.** the decoder reads a written `Dialogue` row back as the event the writer was given: times in centiseconds,
    `Layer` only in v4+, `Marked` only in v4, unset margins as 0, the text as the lines `textOf` gives -/
theorem eventOf_row (v : Bool) (e : Event) (lines : List (List GRun)) (h : EventCells e)
    (ht : Spec.SSA.textOf e.text = some lines) :
    Spec.SSA.eventOf ((eventFormat v).map String.ofList) (e.row v) = some (eventR v e lines) := by
  obtain ⟨hc, hl⟩ := Event.cells e v h
  have hlen : ((eventFormat v).map String.ofList).length = 10 := by cases v <;> rfl
  rw [eventOf_eq, hlen, if_neg (by omega), ← absorb_eq, hc]
  have hp : (eventFormat v).zip (e.pre v ++ [e.text]) = rowPairs v e := rfl
  simp only [optc_bridge, lookup_bridge, hp]
  cases v
  · simp only [lk_start, lk_end, lk_style, lk_name, lk_marginL, lk_marginR, lk_marginV, lk_effect, lk_text,
      lk_layer_false, lk_marked_false, spec_timeOf_formatSSA _ h.start, spec_timeOf_formatSSA _ h.stop,
      spec_intOf_itoa, markedOf_cell, ht, Option.map_some, Option.getD_some, eventR]
    rfl
  · simp only [lk_start, lk_end, lk_style, lk_name, lk_marginL, lk_marginR, lk_marginV, lk_effect, lk_text,
      lk_layer_true, lk_marked_true, spec_timeOf_formatSSA _ h.start, spec_timeOf_formatSSA _ h.stop,
      spec_intOf_itoa, ht, Option.map_some, Option.getD_some, eventR]
    rfl

/-! ### E2: the section -/

theorem eventFormat_check (v : Bool) :
    (Spec.SSA.nodup ((eventFormat v).map String.ofList) &&
      ((eventFormat v).map String.ofList).all fun c => Spec.SSA.eventCols.contains c) = true := by
  cases v <;> decide

theorem eventsOf_format (v : Bool) (ls : List Str) :
    Spec.SSA.eventsOf (kvTrim "Format".toList (join ", ".toList (eventFormat v)) :: ls) none
      = Spec.SSA.eventsOf ls (some ((eventFormat v).map String.ofList)) := by
  obtain ⟨hne, hcol⟩ := eventFormat_cols v
  obtain ⟨hsplit, htr⟩ := format_cols (eventFormat v) hne hcol
  have hcols : (splitC ',' (join ", ".toList (eventFormat v))).map (fun c => String.ofList (trimSpace c))
      = (eventFormat v).map String.ofList := by
    conv => rhs; rw [← hsplit, map_map]
    rfl
  rw [Spec.SSA.eventsOf, classify_kvTrim _ _ (by decide) htr]
  simp only [↓reduceIte, Option.isSome_none, Bool.false_eq_true, hcols, eventFormat_check]

theorem eventsOf_dialogue (cols : List String) (row : Str) (ls : List Str) (r : REvent) (rest : List REvent)
    (hr : Trimmed row) (h1 : Spec.SSA.eventOf cols row = some r) (h2 : Spec.SSA.eventsOf ls (some cols) = some rest) :
    Spec.SSA.eventsOf (kvTrim "Dialogue".toList row :: ls) (some cols) = some (r :: rest) := by
  rw [Spec.SSA.eventsOf, classify_kvTrim _ _ (by decide) hr]
  have : ¬ "Dialogue".toList = "Format".toList := by decide
  simp only [this, ↓reduceIte, h1, h2]

theorem eventsOf_rows (v : Bool) (tl : Event → List (List GRun)) : ∀ (es : List Event),
    (∀ e ∈ es, EventCells e ∧ Trimmed e.text ∧ Spec.SSA.textOf e.text = some (tl e)) →
    Spec.SSA.eventsOf (es.map (fun e => kvTrim "Dialogue".toList (e.row v))) (some ((eventFormat v).map String.ofList))
      = some (es.map fun e => eventR v e (tl e)) := by
  intro es
  induction es with
  | nil => intro _; rfl
  | cons e es ih =>
    intro h
    obtain ⟨h1, h2, h3⟩ := h e (by simp)
    rw [map_cons, map_cons]
    exact eventsOf_dialogue _ _ _ _ _ (trimmed_event_row e v h2) (eventOf_row v e _ h1 h3)
      (ih fun x hx => h x (by simp [hx]))

/-- **E2.** the decoder reads the written `[Events]` section (Format line, then one `Dialogue` line per event) back
    as the list of these events -/
theorem eventsOf_block (v : Bool) (es : List Event) (tl : Event → List (List GRun))
    (h : ∀ e ∈ es, EventCells e ∧ Trimmed e.text ∧ Spec.SSA.textOf e.text = some (tl e)) :
    Spec.SSA.eventsOf (kvTrim "Format".toList (join ", ".toList (eventFormat v)) ::
        es.map (fun e => kvTrim "Dialogue".toList (e.row v))) none
      = some (es.map fun e => eventR v e (tl e)) := by
  rw [eventsOf_format, eventsOf_rows v tl es h]

end SSAW
end Astisub
