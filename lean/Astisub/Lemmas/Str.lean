import Astisub.Go.Strconv

/-! # Lemmas/Str — digit strings, `itoa`/`atoi`, padding -/

namespace Astisub
namespace Go

theorem digitChar_lt {k : Nat} (h : k < 10) :
    k = 0 ∨ k = 1 ∨ k = 2 ∨ k = 3 ∨ k = 4 ∨ k = 5 ∨ k = 6 ∨ k = 7 ∨ k = 8 ∨ k = 9 := by omega

theorem digitVal_digitChar {k : Nat} (h : k < 10) : digitVal (digitChar k) = some k := by
  rcases digitChar_lt h with h|h|h|h|h|h|h|h|h|h <;> subst h <;> decide

theorem isSpace_digitChar {k : Nat} (h : k < 10) : isSpace (digitChar k) = false := by
  rcases digitChar_lt h with h|h|h|h|h|h|h|h|h|h <;> subst h <;> decide

theorem digitChar_ne_colon {k : Nat} (h : k < 10) : (digitChar k = ':') = False := by
  rcases digitChar_lt h with h|h|h|h|h|h|h|h|h|h <;> subst h <;> decide

theorem digitChar_ne_comma {k : Nat} (h : k < 10) : (digitChar k = ',') = False := by
  rcases digitChar_lt h with h|h|h|h|h|h|h|h|h|h <;> subst h <;> decide

theorem digitChar_ne_dot {k : Nat} (h : k < 10) : (digitChar k = '.') = False := by
  rcases digitChar_lt h with h|h|h|h|h|h|h|h|h|h <;> subst h <;> decide

theorem digitChar_ne_minus {k : Nat} (h : k < 10) : (digitChar k = '-') = False := by
  rcases digitChar_lt h with h|h|h|h|h|h|h|h|h|h <;> subst h <;> decide

theorem digitChar_ne_plus {k : Nat} (h : k < 10) : (digitChar k = '+') = False := by
  rcases digitChar_lt h with h|h|h|h|h|h|h|h|h|h <;> subst h <;> decide

theorem itoaNat_lt10 {v : Nat} (h : v < 10) : itoaNat v = [digitChar v] := by
  simp [itoaNat, itoaAux, h]

theorem itoaNat_lt100 {v : Nat} (h1 : 10 ≤ v) (h2 : v < 100) :
    itoaNat v = [digitChar (v / 10), digitChar (v % 10)] := by
  obtain ⟨w, rfl⟩ : ∃ w, v = w + 1 := ⟨v - 1, by omega⟩
  have h3 : ¬ (w + 1 < 10) := by omega
  have h4 : (w + 1) / 10 < 10 := by omega
  simp [itoaNat, itoaAux, h3, h4]

theorem itoaNat_lt1000 {v : Nat} (h1 : 100 ≤ v) (h2 : v < 1000) :
    itoaNat v = [digitChar (v / 100), digitChar (v / 10 % 10), digitChar (v % 10)] := by
  obtain ⟨w, rfl⟩ : ∃ w, v = w + 2 := ⟨v - 2, by omega⟩
  have h3 : ¬ (w + 2 < 10) := by omega
  have h4 : ¬ ((w + 2) / 10 < 10) := by omega
  have h5 : (w + 2) / 100 < 10 := by omega
  have h6 : (w + 2) / 10 / 10 = (w + 2) / 100 := by omega
  simp [itoaNat, itoaAux, h3, h4, h5, h6]

/-- two-digit rendering of a value below 100 -/
def dd (v : Nat) : Str := [digitChar (v / 10), digitChar (v % 10)]
/-- three-digit rendering of a value below 1000 -/
def ddd (v : Nat) : Str := [digitChar (v / 100), digitChar (v / 10 % 10), digitChar (v % 10)]

theorem padLeft0_2 {v : Nat} (h : v < 100) : padLeft0 2 (itoaNat v) = dd v := by
  by_cases h1 : v < 10
  · have : v / 10 = 0 := by omega
    have : v % 10 = v := by omega
    simp [itoaNat_lt10 h1, padLeft0, dd, *]; rfl
  · simp [itoaNat_lt100 (by omega) h, padLeft0, dd]

theorem padLeft0_3 {v : Nat} (h : v < 1000) : padLeft0 3 (itoaNat v) = ddd v := by
  by_cases h1 : v < 10
  · have : v / 100 = 0 := by omega
    have : v / 10 % 10 = 0 := by omega
    have : v % 10 = v := by omega
    simp [itoaNat_lt10 h1, padLeft0, ddd, *]; rfl
  · by_cases h2 : v < 100
    · have : v / 100 = 0 := by omega
      have : v / 10 % 10 = v / 10 := by omega
      simp [itoaNat_lt100 (by omega) h2, padLeft0, ddd, *]; rfl
    · simp [itoaNat_lt1000 (by omega) h, padLeft0, ddd]

end Go
end Astisub

namespace Astisub
namespace Go
open List

theorem splitC_not_mem {c : Char} {s : Str} (h : c ∉ s) : splitC c s = [s] := by
  induction s with
  | nil => rfl
  | cons x xs ih =>
    have hx : ¬ x = c := fun e => h (by simp [e])
    have hxs : c ∉ xs := fun e => h (by simp [e])
    simp [splitC, hx, ih hxs]

theorem splitC_append {c : Char} {a : Str} (b : Str) (h : c ∉ a) :
    splitC c (a ++ c :: b) = a :: splitC c b := by
  induction a with
  | nil => simp [splitC]
  | cons x xs ih =>
    have hx : ¬ x = c := fun e => h (by simp [e])
    have hxs : c ∉ xs := fun e => h (by simp [e])
    simp [splitC, hx, ih hxs]

theorem trimSpace_id {s : Str} (h : ∀ c ∈ s, isSpace c = false) : trimSpace s = s := by
  have key : ∀ l : Str, (∀ c ∈ l, isSpace c = false) → l.dropWhile isSpace = l := by
    intro l hl
    cases l with
    | nil => rfl
    | cons x xs => simp [dropWhile, hl x (by simp)]
  unfold trimSpace trimRight trimLeft
  rw [key s h, key s.reverse (by intro c hc; exact h c (by simpa using hc))]
  simp

/-- the string consists of decimal digits -/
def DigitStr (s : Str) : Prop := ∀ c ∈ s, ∃ k, k < 10 ∧ c = digitChar k

theorem DigitStr.noSpace {s : Str} (h : DigitStr s) : ∀ c ∈ s, isSpace c = false := by
  intro c hc; obtain ⟨k, hk, rfl⟩ := h c hc; exact isSpace_digitChar hk

theorem DigitStr.not_mem {s : Str} (h : DigitStr s) {c : Char} (hc : c = ':' ∨ c = '.' ∨ c = ',') : c ∉ s := by
  intro hm
  obtain ⟨k, hk, rfl⟩ := h c hm
  rcases hc with e | e | e
  · exact (digitChar_ne_colon hk).mp e
  · exact (digitChar_ne_dot hk).mp e
  · exact (digitChar_ne_comma hk).mp e

theorem digitStr_dd {v : Nat} (h : v < 100) : DigitStr (dd v) := by
  intro c hc
  simp [dd] at hc
  rcases hc with rfl | rfl
  · exact ⟨v / 10, by omega, rfl⟩
  · exact ⟨v % 10, by omega, rfl⟩

theorem digitStr_ddd {v : Nat} (h : v < 1000) : DigitStr (ddd v) := by
  intro c hc
  simp [ddd] at hc
  rcases hc with rfl | rfl | rfl
  · exact ⟨v / 100, by omega, rfl⟩
  · exact ⟨v / 10 % 10, by omega, rfl⟩
  · exact ⟨v % 10, by omega, rfl⟩

theorem atoi_dd {v : Nat} (h : v < 100) : atoi (dd v) = some (v : Int) := by
  have d1 : v / 10 < 10 := by omega
  have d2 : v % 10 < 10 := by omega
  have hb : (0 * 10 + v / 10) * 10 + v % 10 = v := by omega
  have hle : v ≤ int64Max := by unfold int64Max; omega
  unfold atoi dd
  split
  · rename_i r heq; simp at heq; exact absurd heq.1 (by rw [digitChar_ne_minus d1]; exact id)
  · rename_i r heq; simp at heq; exact absurd heq.1 (by rw [digitChar_ne_plus d1]; exact id)
  · simp [parseDigits, digitsVal, digitVal_digitChar d1, digitVal_digitChar d2]
    unfold int64Max; omega

theorem atoi_ddd {v : Nat} (h : v < 1000) : atoi (ddd v) = some (v : Int) := by
  have d1 : v / 100 < 10 := by omega
  have d2 : v / 10 % 10 < 10 := by omega
  have d3 : v % 10 < 10 := by omega
  have hb : ((0 * 10 + v / 100) * 10 + v / 10 % 10) * 10 + v % 10 = v := by omega
  have hle : v ≤ int64Max := by unfold int64Max; omega
  unfold atoi ddd
  split
  · rename_i r heq; simp at heq; exact absurd heq.1 (by rw [digitChar_ne_minus d1]; exact id)
  · rename_i r heq; simp at heq; exact absurd heq.1 (by rw [digitChar_ne_plus d1]; exact id)
  · simp [parseDigits, digitsVal, digitVal_digitChar d1, digitVal_digitChar d2, digitVal_digitChar d3]
    unfold int64Max; omega

end Go
end Astisub
