import Astisub.Lemmas.TTMLRead2Defs

/-!
# Lemmas/TTMLRead2Dec — the independent decoder inside one `<p>`

`Spec.TTML.step` is a state machine over the tokens of the document.  Here: every token list on which it runs from
the start tag of a paragraph to a finished document has the shape `ParaBody r its` (`TTMLRead2Defs`) up to the end
tag of the paragraph, and the cue it appends there has the lines `semP mkTG mkSG its`.
-/

namespace Astisub
namespace TTMLR
open Go TTML
open Spec.TTML (St PState Tok step run GRun hasNL allSpace ref? styling)

/-- a state inside a paragraph: `base` is the state at `<p>` (its path is the paragraph's), `pre` the elements open
    inside the paragraph -/
def inP (base : St) (pre : List Str) (p : PState) : St :=
  { base with path := pre ++ base.path, p := some p, finished := false }

/-- the state after the end tag of the paragraph, whose lines are `dc.1 ++ [dc.2]` -/
def closeP (base : St) (p : PState) (dc : List (List GRun) × List GRun) : St :=
  { base with
      path := base.path.tail
      finished := base.path.tail.isEmpty
      p := none
      doc := { base.doc with cues := base.doc.cues ++
        [{ b := p.b, e := p.e, style := p.style, region := p.region, attrs := p.attrs, lines := dc.1 ++ [dc.2] }] } }

def mkG (sty : Option Str) (sa : Spec.TTML.AttrL) (s : Str) : GRun := { text := s, style := sty, attrs := sa }

def nlAttr (a : List XAttr) : Bool := a.any (fun x => x.2.2.any fun c => c = '\n')

/-! ## one step, by mode -/

theorem step_other (base : St) (pre : List Str) (p : PState) :
    step (inP base pre p) .other = some (inP base pre p) := by
  unfold step
  simp [inP]

/-! ### inside a `br` -/

theorem step_br_text (base : St) (pre : List Str) (p : PState) (hb : p.inBr = true) (s : Str) :
    step (inP base pre p) (.text s) = none := by
  unfold step
  simp [inP, hb]

theorem step_br_start (base : St) (pre : List Str) (p : PState) (hb : p.inBr = true) (sp n : Str) (a : List XAttr) :
    step (inP base pre p) (.start sp n a) = none := by
  unfold step
  simp [inP, hb]

theorem step_br_stop (base : St) (n : Str) (pre : List Str) (p : PState) (hb : p.inBr = true)
    (hne : base.path ≠ []) :
    step (inP base (n :: pre) p) .stop = some (inP base pre { p with inBr := false }) := by
  unfold step
  have : (pre ++ base.path).isEmpty = false := by
    cases pre <;> cases hp : base.path <;> simp_all
  simp [inP, hb, this]

/-! ### directly inside `<p>` -/

theorem step_top_text (base : St) (p : PState) (hs : p.span = none) (hb : p.inBr = false) (s : Str) :
    step (inP base [] p) (.text s) =
      if allSpace s then (if hasNL s then some (inP base [] p) else none)
      else if hasNL s then none
      else if p.done.isEmpty && p.cur.isEmpty && (s.head?.map isSpace).getD false then none
      else some (inP base [] { p with cur := p.cur ++ [mkTG s] }) := by
  unfold step
  simp only [inP, hs, hb, List.nil_append, Bool.false_eq_true, if_false, mkTG]

theorem step_top_start (base : St) (p : PState) (hs : p.span = none) (hb : p.inBr = false) (hl : base.path.length = 4)
    (sp n : Str) (a : List XAttr) :
    step (inP base [] p) (.start sp n a) =
      if nlAttr a then none
      else if n = "br".toList then some (inP base [n] { p with done := p.done ++ [p.cur], cur := [], inBr := true })
      else if n = "span".toList then
        match ref? a "style", styling a with
        | some sty, some sa => some (inP base [n] { p with span := some (sty, sa), seg := [] })
        | _, _ => none
      else none := by
  unfold step
  simp only [inP, hs, hb, List.nil_append, Bool.false_eq_true, if_false, nlAttr, List.length_cons, hl,
    Option.isNone_none, Bool.and_true, decide_true, Bool.and_self]
  by_cases h1 : (a.any fun x => x.2.2.any fun c => c = '\n') = true
  · simp [h1]
  · simp only [h1, if_false]
    by_cases h2 : n = "br".toList
    · simp [h2]
    · simp only [h2, if_false]
      by_cases h3 : n = "span".toList
      · simp only [h3, decide_true, if_true, Bool.false_eq_true, if_false, List.cons_append, List.nil_append]
        cases ref? a "style" <;> cases styling a <;> rfl
      · simp only [h3, decide_false, Bool.false_eq_true, if_false]

theorem step_top_stop (base : St) (p : PState) (hs : p.span = none) (hb : p.inBr = false) (hl : base.path.length = 4) :
    step (inP base [] p) .stop = some (closeP base p (p.done, p.cur)) := by
  unfold step
  cases hp : base.path with
  | nil => simp [hp] at hl
  | cons n rest =>
    simp [inP, closeP, hp, hs, hb]

/-! ### inside a `span` -/

theorem step_span_text (base : St) (pre : List Str) (p : PState) (sty : Option Str) (sa : Spec.TTML.AttrL)
    (hs : p.span = some (sty, sa)) (hb : p.inBr = false) (s : Str) :
    step (inP base pre p) (.text s) =
      if hasNL s then none else some (inP base pre { p with seg := p.seg ++ s }) := by
  unfold step
  simp only [inP, hs, hb, Bool.false_eq_true, if_false]

theorem step_span_start (base : St) (pre : List Str) (p : PState) (sty : Option Str) (sa : Spec.TTML.AttrL)
    (hs : p.span = some (sty, sa)) (hb : p.inBr = false) (sp n : Str) (a : List XAttr) :
    step (inP base pre p) (.start sp n a) =
      if nlAttr a then none
      else if n = "br".toList then
        some (inP base (n :: pre) { p with done := p.done ++ [p.cur ++ [mkG sty sa p.seg]], cur := [], seg := [], inBr := true })
      else none := by
  unfold step
  simp only [inP, hs, hb, Bool.false_eq_true, if_false, nlAttr, mkG]
  by_cases h1 : (a.any fun x => x.2.2.any fun c => c = '\n') = true
  · simp [h1]
  · simp only [h1, if_false]
    by_cases h2 : n = "br".toList
    · simp [h2]
    · simp [h2]

theorem step_span_stop (base : St) (n : Str) (pre : List Str) (p : PState) (sty : Option Str) (sa : Spec.TTML.AttrL)
    (hs : p.span = some (sty, sa)) (hb : p.inBr = false) (hne : base.path ≠ []) :
    step (inP base (n :: pre) p) .stop =
      some (inP base pre { p with cur := p.cur ++ [mkG sty sa p.seg], span := none, seg := [] }) := by
  unfold step
  have : (pre ++ base.path).isEmpty = false := by
    cases pre <;> cases hp : base.path <;> simp_all
  simp [inP, hs, hb, this, mkG]


/-! ## running through a paragraph -/

open Driver.TTMLD (specToks)

theorem specToks_start (sp n : Str) (a : List XAttr) (T : List XTok) :
    specToks (.start sp n a :: T) = .start sp n a :: specToks T := rfl
theorem specToks_stop (sp n : Str) (T : List XTok) : specToks (.stop sp n :: T) = .stop :: specToks T := rfl
theorem specToks_text (s : Str) (T : List XTok) : specToks (.text s :: T) = .text s :: specToks T := rfl
theorem specToks_other (T : List XTok) : specToks (.other :: T) = .other :: specToks T := rfl

theorem run_cons (t : Tok) (ts : List Tok) (st : St) :
    run (t :: ts) st = match step st t with | some st' => run ts st' | none => none := rfl

/-- what the class guarantees for the items of a paragraph, and what the decoder checked -/
def good (its : List PItem) : Prop :=
  (∀ a segs, PItem.span a segs ∈ its →
    (ref? a "style").isSome = true ∧ (styling a).isSome = true ∧ a.all attrFits = true) ∧
  (∀ a, PItem.br a ∈ its → a.all attrFits = true ∧ brFits a = true)

theorem good_nil : good [] := ⟨fun _ _ h => absurd h List.not_mem_nil, fun _ h => absurd h List.not_mem_nil⟩

theorem good_text {s : Str} {its : List PItem} (h : good its) : good (.text s :: its) := by
  refine ⟨fun a segs hm => ?_, fun a hm => ?_⟩
  · cases hm with
    | tail _ hm => exact h.1 a segs hm
  · cases hm with
    | tail _ hm => exact h.2 a hm

theorem good_br {a : List XAttr} {its : List PItem} (h : good its) (h1 : a.all attrFits = true) (h2 : brFits a = true) :
    good (.br a :: its) := by
  refine ⟨fun a' segs hm => ?_, fun a' hm => ?_⟩
  · cases hm with
    | tail _ hm => exact h.1 a' segs hm
  · cases hm with
    | head => exact ⟨h1, h2⟩
    | tail _ hm => exact h.2 a' hm

theorem good_span {a : List XAttr} {segs : List Str} {its : List PItem} (h : good its)
    (h1 : (ref? a "style").isSome = true) (h2 : (styling a).isSome = true) (h3 : a.all attrFits = true) :
    good (.span a segs :: its) := by
  refine ⟨fun a' segs' hm => ?_, fun a' hm => ?_⟩
  · cases hm with
    | head => exact ⟨h1, h2, h3⟩
    | tail _ hm => exact h.1 a' segs' hm
  · cases hm with
    | tail _ hm => exact h.2 a' hm

/-- from a state directly inside `<p>` with lines `dc`: the rest of the paragraph is grammatical, and the decoder
    goes on after its end tag with the cue appended -/
def TopConcl (T : List XTok) (base : St) (p : PState) (dc : List (List GRun) × List GRun) (stF : St) : Prop :=
  ∃ r R its, T = r ++ R ∧ ParaBody r its ∧ good its ∧
    run (specToks R) (closeP base p (semP mkTG mkSG its dc)) = some stF

def glue (seg : Str) : List Str → List Str
  | [] => [seg]
  | s :: r => (seg ++ s) :: r

def SpanConcl (T : List XTok) (base : St) (p : PState) (sty : Option Str) (sa : Spec.TTML.AttrL) (stF : St) : Prop :=
  ∃ b T' segs, T = b ++ T' ∧ SpanBody b segs ∧ segs ≠ [] ∧
    TopConcl T' base p (spanFin (mkG sty sa) p.done p.cur (glue p.seg segs)) stF

theorem spanFin_cons {α : Type} (mk : Str → α) (d : List (List α)) (c : List α) (s : Str) (segs : List Str)
    (hne : segs ≠ []) : spanFin mk d c (s :: segs) = spanFin mk (d ++ [c ++ [mk s]]) [] segs := by
  cases segs with
  | nil => exact absurd rfl hne
  | cons y ys =>
    cases ys with
    | nil => simp [spanFin]
    | cons z zs =>
      simp only [spanFin]
      cases h : (z :: zs).getLast? with
      | none => simp at h
      | some l => simp [h, List.dropLast]

theorem spanBody_ne {b : List XTok} {segs : List Str} (h : SpanBody b segs) : segs ≠ [] := by
  induction h with
  | stop => simp
  | other _ ih => exact ih
  | text _ _ _ => simp
  | br _ _ _ => simp

theorem fits_cons {t : XTok} {T : List XTok} (h : (t :: T).all tokFits = true) :
    tokFits t = true ∧ T.all tokFits = true := by
  simpa using h

theorem para_all (T : List XTok) :
    (∀ base p stF, p.span = none → p.inBr = false → base.path.length = 4 → T.all tokFits = true →
      run (specToks T) (inP base [] p) = some stF → stF.finished = true → TopConcl T base p (p.done, p.cur) stF) ∧
    (∀ base n p stF, p.span = none → p.inBr = true → base.path.length = 4 → T.all tokFits = true →
      run (specToks T) (inP base [n] p) = some stF → stF.finished = true →
      ∃ b T', T = b ++ T' ∧ BrBody b ∧ TopConcl T' base p (p.done, p.cur) stF) ∧
    (∀ base n p sty sa stF, p.span = some (sty, sa) → p.inBr = false → base.path.length = 4 → T.all tokFits = true →
      run (specToks T) (inP base [n] p) = some stF → stF.finished = true → SpanConcl T base p sty sa stF) ∧
    (∀ base n m p sty sa stF, p.span = some (sty, sa) → p.inBr = true → base.path.length = 4 → T.all tokFits = true →
      run (specToks T) (inP base [m, n] p) = some stF → stF.finished = true →
      ∃ b T', T = b ++ T' ∧ BrBody b ∧ SpanConcl T' base p sty sa stF) := by
  induction T with
  | nil =>
    have hn : ∀ base pre p stF, run (specToks []) (inP base pre p) = some stF → stF.finished = true → False := by
      intro base pre p stF h hf
      have : stF = inP base pre p := by simpa [specToks, run] using h.symm
      rw [this] at hf
      simp [inP] at hf
    exact ⟨fun base p stF _ _ _ _ h hf => (hn _ _ _ _ h hf).elim, fun base n p stF _ _ _ _ h hf => (hn _ _ _ _ h hf).elim,
      fun base n p sty sa stF _ _ _ _ h hf => (hn _ _ _ _ h hf).elim,
      fun base n m p sty sa stF _ _ _ _ h hf => (hn _ _ _ _ h hf).elim⟩
  | cons t T ih =>
    obtain ⟨ihTop, ihBr, ihSpan, ihSBr⟩ := ih
    have hne : ∀ base : St, base.path.length = 4 → base.path ≠ [] := by
      intro base h e; rw [e] at h; simp at h
    refine ⟨?_, ?_, ?_, ?_⟩
    · -- directly inside <p>
      intro base p stF hs hb hl hfit hrun hfin
      obtain ⟨hft, hfT⟩ := fits_cons hfit
      cases t with
      | other =>
        rw [specToks_other, run_cons, step_other] at hrun
        obtain ⟨r, R, its, e, hpb, hg, hr⟩ := ihTop base p stF hs hb hl hfT hrun hfin
        exact ⟨.other :: r, R, its, by rw [e]; rfl, .other hpb, hg, hr⟩
      | text s =>
        rw [specToks_text, run_cons, step_top_text base p hs hb] at hrun
        by_cases h1 : allSpace s = true
        · rw [if_pos h1] at hrun
          by_cases h2 : hasNL s = true
          · rw [if_pos h2] at hrun
            obtain ⟨r, R, its, e, hpb, hg, hr⟩ := ihTop base p stF hs hb hl hfT hrun hfin
            exact ⟨.text s :: r, R, its, by rw [e]; rfl, .ws h1 hpb, hg, hr⟩
          · rw [if_neg h2] at hrun; cases hrun
        · rw [if_neg h1] at hrun
          by_cases h2 : hasNL s = true
          · rw [if_pos h2] at hrun; cases hrun
          · rw [if_neg h2] at hrun
            by_cases h3 : (p.done.isEmpty && p.cur.isEmpty && (s.head?.map isSpace).getD false) = true
            · rw [if_pos h3] at hrun; cases hrun
            · rw [if_neg h3] at hrun
              obtain ⟨r, R, its, e, hpb, hg, hr⟩ :=
                ihTop base { p with cur := p.cur ++ [mkTG s] } stF hs hb hl hfT hrun hfin
              exact ⟨.text s :: r, R, .text s :: its, by rw [e]; rfl,
                .text (by simpa using h1) (by simpa using h2) hpb, good_text hg, hr⟩
      | stop sp n =>
        rw [specToks_stop, run_cons, step_top_stop base p hs hb hl] at hrun
        exact ⟨[.stop sp n], T, [], rfl, .stop sp n, good_nil, hrun⟩
      | start sp n a =>
        rw [specToks_start, run_cons, step_top_start base p hs hb hl] at hrun
        have hfa : a.all attrFits = true ∧ ((n != "br".toList) = true ∨ brFits a = true) := by
          simpa [tokFits] using hft
        by_cases h1 : nlAttr a = true
        · rw [if_pos h1] at hrun; cases hrun
        · rw [if_neg h1] at hrun
          by_cases h2 : n = "br".toList
          · rw [if_pos h2] at hrun
            obtain ⟨b, T', e, hbb, r, R, its, e', hpb, hg, hr⟩ :=
              ihBr base n { p with done := p.done ++ [p.cur], cur := [], inBr := true } stF hs rfl hl hfT hrun hfin
            have hbf : brFits a = true := by
              rcases hfa.2 with h | h
              · simp [h2] at h
              · exact h
            refine ⟨.start sp n a :: b ++ r, R, .br a :: its, ?_, ?_, good_br hg hfa.1 hbf, hr⟩
            · rw [e, e']; simp
            · rw [h2]; exact .br hbb hpb
          · rw [if_neg h2] at hrun
            by_cases h3 : n = "span".toList
            · rw [if_pos h3] at hrun
              cases hr1 : ref? a "style" with
              | none => rw [hr1] at hrun; cases hrun
              | some sty =>
                cases hr2 : styling a with
                | none => rw [hr1, hr2] at hrun; cases hrun
                | some sa =>
                  rw [hr1, hr2] at hrun
                  obtain ⟨b, T', segs, e, hsb, hsne, r, R, its, e', hpb, hg, hr⟩ :=
                    ihSpan base n { p with span := some (sty, sa), seg := [] } sty sa stF rfl hb hl hfT hrun hfin
                  refine ⟨.start sp n a :: b ++ r, R, .span a segs :: its, ?_, ?_,
                    good_span hg (by rw [hr1]; rfl) (by rw [hr2]; rfl) hfa.1, ?_⟩
                  · rw [e, e']; simp
                  · rw [h3]; exact .span hsb hpb
                  · have hm : mkSG a = mkG sty sa := by
                      funext s; simp [mkSG, mkG, hr1, hr2]
                    have hgl : glue [] segs = segs := by
                      cases segs with
                      | nil => exact absurd rfl hsne
                      | cons x xs => rfl
                    simp only [semP, hm]
                    rw [hgl] at hr
                    exact hr
            · rw [if_neg h3] at hrun; cases hrun
    · -- inside a <br> directly inside <p>
      intro base n p stF hs hb hl hfit hrun hfin
      obtain ⟨hft, hfT⟩ := fits_cons hfit
      cases t with
      | other =>
        rw [specToks_other, run_cons, step_other] at hrun
        obtain ⟨b, T', e, hbb, hc⟩ := ihBr base n p stF hs hb hl hfT hrun hfin
        exact ⟨.other :: b, T', by rw [e]; rfl, .other hbb, hc⟩
      | text s => rw [specToks_text, run_cons, step_br_text base _ p hb] at hrun; cases hrun
      | start sp n' a => rw [specToks_start, run_cons, step_br_start base _ p hb] at hrun; cases hrun
      | stop sp n' =>
        rw [specToks_stop, run_cons, step_br_stop base n [] p hb (hne base hl)] at hrun
        have := ihTop base { p with inBr := false } stF hs rfl hl hfT hrun hfin
        exact ⟨[.stop sp n'], T, rfl, .stop sp n', this⟩
    · -- inside a <span>
      intro base n p sty sa stF hs hb hl hfit hrun hfin
      obtain ⟨hft, hfT⟩ := fits_cons hfit
      cases t with
      | other =>
        rw [specToks_other, run_cons, step_other] at hrun
        obtain ⟨b, T', segs, e, hsb, hsne, hc⟩ := ihSpan base n p sty sa stF hs hb hl hfT hrun hfin
        exact ⟨.other :: b, T', segs, by rw [e]; rfl, .other hsb, hsne, hc⟩
      | text s =>
        rw [specToks_text, run_cons, step_span_text base _ p sty sa hs hb] at hrun
        by_cases h2 : hasNL s = true
        · rw [if_pos h2] at hrun; cases hrun
        · rw [if_neg h2] at hrun
          obtain ⟨b, T', segs, e, hsb, hsne, hc⟩ :=
            ihSpan base n { p with seg := p.seg ++ s } sty sa stF hs hb hl hfT hrun hfin
          cases segs with
          | nil => exact absurd rfl hsne
          | cons x xs =>
            refine ⟨.text s :: b, T', (s ++ x) :: xs, by rw [e]; rfl, .text (by simpa using h2) hsb, by simp, ?_⟩
            have hc' : TopConcl T' base p (spanFin (mkG sty sa) p.done p.cur (glue (p.seg ++ s) (x :: xs))) stF := hc
            simpa [glue, List.append_assoc] using hc'
      | start sp n' a =>
        rw [specToks_start, run_cons, step_span_start base _ p sty sa hs hb] at hrun
        by_cases h1 : nlAttr a = true
        · rw [if_pos h1] at hrun; cases hrun
        · rw [if_neg h1] at hrun
          by_cases h2 : n' = "br".toList
          · rw [if_pos h2] at hrun
            obtain ⟨b, T', e, hbb, b2, T2, segs, e2, hsb, hsne, hc⟩ :=
              ihSBr base n n' { p with done := p.done ++ [p.cur ++ [mkG sty sa p.seg]], cur := [], seg := [], inBr := true }
                sty sa stF hs rfl hl hfT hrun hfin
            refine ⟨.start sp n' a :: b ++ b2, T2, [] :: segs, ?_, ?_, by simp, ?_⟩
            · rw [e, e2]; simp
            · rw [h2]; exact .br hbb hsb
            · have hgl : glue [] segs = segs := by
                cases segs with
                | nil => exact absurd rfl hsne
                | cons x xs => rfl
              simp only [glue, List.append_nil]
              rw [spanFin_cons _ _ _ _ _ hsne]
              rw [hgl] at hc
              exact hc
          · rw [if_neg h2] at hrun; cases hrun
      | stop sp n' =>
        rw [specToks_stop, run_cons, step_span_stop base n [] p sty sa hs hb (hne base hl)] at hrun
        have := ihTop base { p with cur := p.cur ++ [mkG sty sa p.seg], span := none, seg := [] } stF rfl hb hl hfT hrun hfin
        refine ⟨[.stop sp n'], T, [[]], rfl, .stop sp n', by simp, ?_⟩
        have this' : TopConcl T base p (p.done, p.cur ++ [mkG sty sa p.seg]) stF := this
        simpa [glue, spanFin] using this'
    · -- inside a <br> inside a <span>
      intro base n m p sty sa stF hs hb hl hfit hrun hfin
      obtain ⟨hft, hfT⟩ := fits_cons hfit
      cases t with
      | other =>
        rw [specToks_other, run_cons, step_other] at hrun
        obtain ⟨b, T', e, hbb, hc⟩ := ihSBr base n m p sty sa stF hs hb hl hfT hrun hfin
        exact ⟨.other :: b, T', by rw [e]; rfl, .other hbb, hc⟩
      | text s => rw [specToks_text, run_cons, step_br_text base _ p hb] at hrun; cases hrun
      | start sp n' a => rw [specToks_start, run_cons, step_br_start base _ p hb] at hrun; cases hrun
      | stop sp n' =>
        rw [specToks_stop, run_cons, step_br_stop base m [n] p hb (hne base hl)] at hrun
        have := ihSpan base n { p with inBr := false } sty sa stF hs rfl hl hfT hrun hfin
        exact ⟨[.stop sp n'], T, rfl, .stop sp n', this⟩

end TTMLR
end Astisub
