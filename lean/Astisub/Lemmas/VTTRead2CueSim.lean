import Astisub.Lemmas.VTTRead2Cue

/-!
# Lemmas/VTTRead2CueSim — a cue block of the decoder is read as the same cue by the reader's loop
-/

set_option linter.unusedSimpArgs false

namespace Astisub
namespace VTTRead
open Go Spec.VTT
open VTT (St step run Block)

/-! ### the first piece of a split is a prefix -/

theorem splitOnAux_head (sep : Str) : ∀ (fuel : Nat) (s acc : Str),
    ∃ k tail, splitOnAux sep fuel s acc = (acc.reverse ++ s.take k) :: tail := by
  intro fuel
  induction fuel with
  | zero => intro s acc; exact ⟨0, [], by simp [splitOnAux]⟩
  | succ n ih =>
    intro s acc
    cases s with
    | nil => exact ⟨0, [], by simp [splitOnAux]⟩
    | cons x xs =>
      simp only [splitOnAux]
      cases dropPrefix? sep (x :: xs) with
      | some rest => exact ⟨0, splitOnAux sep n rest [], by simp⟩
      | none =>
        obtain ⟨k, tail, e⟩ := ih xs (x :: acc)
        exact ⟨k + 1, tail, by simp [e]⟩

theorem splitOn_arrow_head {t l : Str} {rest : List Str} (h : splitOn Spec.VTT.arrow t = l :: rest) :
    ∃ k, l = t.take k := by
  unfold splitOn at h
  have : Spec.VTT.arrow.isEmpty = false := by decide
  rw [this] at h
  simp only [Bool.false_eq_true, if_false] at h
  obtain ⟨k, tail, e⟩ := splitOnAux_head Spec.VTT.arrow (t.length + 1) t []
  rw [e] at h
  simp only [List.reverse_nil, List.nil_append, List.cons.injEq] at h
  exact ⟨k, h.1.symm⟩

/-- a timing line the decoder accepts starts with a digit -/
theorem timing_head_digit {t l r : Str} {s : Nat} (hb : BLine t) (hsp : splitOn Spec.VTT.arrow t = [l, r])
    (ht : timeMs l = some s) : ∃ c tl, t = c :: tl ∧ isDig c = true := by
  obtain ⟨k, hk⟩ := splitOn_arrow_head hsp
  obtain ⟨c, r', htr, hc⟩ := timeMs_head_digit l s ht
  cases t with
  | nil => exact absurd rfl hb.2
  | cons c0 tl0 =>
    have hc0 : isSpace c0 = false := (trimmed_of_bline hb).1 c0 rfl
    cases k with
    | zero =>
      simp only [List.take_zero] at hk
      subst hk
      simp [trimSpace, trimLeft, trimRight] at htr
    | succ k' =>
      simp only [List.take_succ_cons] at hk
      obtain ⟨a, b', ha, _, hd⟩ := trim_decomp l
      rw [htr, hk] at hd
      cases a with
      | nil =>
        simp only [List.nil_append, List.cons_append, List.cons.injEq] at hd
        refine ⟨c0, tl0, rfl, ?_⟩
        rw [hd.1]; exact hc
      | cons x xs =>
        simp only [List.cons_append, List.cons.injEq] at hd
        have := ha x (by simp)
        rw [← hd.1, hc0] at this
        cases this

/-! ### identifiers -/

theorem atoiLoose_third (l : Str) (h : ∀ c r, l = c :: r → c ≠ '-' ∧ c ≠ '+') :
    atoiLoose l = match parseDigits l with
      | some v => if v ≤ int64Max then (v : Int) else (int64Max : Int)
      | none => atoiGarbage false l := by
  unfold atoiLoose
  split
  · rename_i r; exact absurd rfl (h '-' r rfl).1
  · rename_i r; exact absurd rfl (h '+' r rfl).2
  · rfl

theorem cueId_facts {l : Str} {id : Int} (h : cueId l = some id) : opener l = false ∧ atoiLoose l = id := by
  unfold cueId at h
  cases ho : opener l with
  | true => rw [ho] at h; simp at h
  | false =>
    rw [ho] at h
    simp only [Bool.false_eq_true, if_false] at h
    refine ⟨rfl, ?_⟩
    cases hn : natOf l with
    | some n =>
      rw [hn] at h
      simp only at h
      by_cases hlt : n < 2 ^ 62
      · rw [if_pos hlt] at h
        simp only [Option.some.injEq] at h
        obtain ⟨h1, h2, h3, _⟩ := natOf_spec hn
        rw [atoiLoose_third]
        · have : parseDigits l = some n := by
            unfold parseDigits
            cases l with
            | nil => exact absurd rfl h2
            | cons c r => simpa using h1
          rw [this]
          simp only
          have : n ≤ int64Max := by unfold int64Max; omega
          rw [if_pos this]; exact h
        · intro c r e
          have hd := h3 c (by rw [e]; simp)
          constructor
          · intro e2; subst e2; revert hd; decide
          · intro e2; subst e2; revert hd; decide
      · rw [if_neg hlt] at h; cases h
    | none =>
      rw [hn] at h
      simp only at h
      have hpd : parseDigits l = none := by
        cases hp : parseDigits l with
        | none => rfl
        | some v =>
          exfalso
          have hdig := VTT.parseDigits_dig hp
          have hne : l ≠ [] := by
            intro e; subst e; simp [parseDigits] at hp
          unfold natOf at hn
          have hall : l.all isDigit = true := by
            rw [List.all_eq_true]; intro c hc; exact hdig c hc
          simp [hall, hne] at hn
      cases l with
      | nil =>
        simp only [Option.some.injEq] at h
        rw [← h]; rfl
      | cons c r =>
        simp only at h
        by_cases hs : (c = '+' ∨ c = '-')
        · have : (decide (c = '+') || decide (c = '-')) = true := by simpa using hs
          rw [if_pos this] at h; cases h
        · have : ¬ (decide (c = '+') || decide (c = '-')) = true := by simpa using hs
          rw [if_neg this] at h
          by_cases hg : Go.uint64Max < Go.leadVal (c :: r) 0
          · rw [if_pos hg] at h; cases h
          · rw [if_neg hg] at h
            simp only [Option.some.injEq] at h
            rw [atoiLoose_third _ (by
              intro c' r' e
              simp only [List.cons.injEq] at e
              rw [← e.1]
              exact ⟨fun x => hs (Or.inr x), fun x => hs (Or.inl x)⟩), hpd]
            simp only [atoiGarbage, if_neg hg]
            exact h

/-! ### from the timing line to the end of the block -/

theorem flush_append (st : St) (c : CItem) :
    VTT.flush { st with done := VTT.flush st, cur := c, curListed := true } = VTT.flush st ++ [c] := by
  simp [VTT.flush]

theorem sim_cue_core {ok : Str → Bool} (T : TextLayer ok) {ds : DocSt} {ms0 : St} (id : Int)
    (hcues : mapM cueView (VTT.flush ms0) = some (ds.cues.map slim))
    (hregs : ms0.regions.map regionView = ds.regions) (hcomm : ms0.comments = ds.comments)
    (hidx : ms0.index = id) (hblock : ms0.block = .none) (htags : ms0.tags = [])
    (timing : Str) (text : List Str) (l r e : Str) (sets : List Str) (s en : Nat) (a : Settings) (lines : List GLine)
    (hbt : BLine timing) (hbx : ∀ x ∈ text, BLine x ∧ ok x = true)
    (hany : text.any (contains Spec.VTT.arrow) = false)
    (hat : contains Spec.VTT.arrow timing = true)
    (hsp : splitOn Spec.VTT.arrow timing = [l, r]) (hf : fields r = e :: sets)
    (ht1 : timeMs l = some s) (ht2 : timeMs e = some en) (hset : cueSettings ds.regions sets {} = some a)
    (htext : cueText text [] = some lines) :
    run ms0 ((timing :: text).map some) = .unmodelled ∨
    ∃ ms', run ms0 ((timing :: text).map some) = .ok ms' ∧
      mapM cueView (VTT.flush ms') = some ((ds.cues ++ [mkCue ds id s en a lines]).map slim) ∧
      ms'.regions = ms0.regions ∧ ms'.styles = ms0.styles ∧ ms'.styleSeen = ms0.styleSeen ∧ ms'.tsmap = ms0.tsmap ∧
      ms'.comments = [] ∧ ms'.index = 0 ∧ ms'.curListed = true := by
  obtain ⟨c, tl, hct, hdig⟩ := timing_head_digit hbt hsp ht1
  obtain ⟨d1, d2, d3, d4, _⟩ := VTT.digit_line_tests c tl hdig
  rw [← hct] at d1 d2 d3 d4
  have hnt : noteTest timing = false := by
    unfold noteTest
    simp only [Bool.or_eq_false_iff, decide_eq_false_iff_not]
    exact ⟨by rw [d1]; exact fun x => x, d2⟩
  obtain ⟨b, hb1, hrel⟩ := settings_of_cueSettings ds.regions ms0.regions hregs sets {} {} a
    ⟨rfl, rfl, rfl, rfl, rfl, rfl⟩ hset
  simp only [List.map_cons, run]
  rw [step_timing ms0 timing l r e sets [] hbt.1 hbt.2 hblock hnt d3 d4 (by rw [arrow_eq]; exact hat)
    (by rw [arrow_eq]; exact hsp) hf]
  by_cases hsm : (!VTT.smallNumbers l || !VTT.smallNumbers e) = true
  · left; rw [if_pos hsm]
  · rw [if_neg hsm, parseVTT_of_timeMs l s ht1, parseVTT_of_timeMs e en ht2]
    simp only [hb1]
    have htx : ∀ x ∈ text, BLine x ∧ ok x = true ∧ contains Spec.VTT.arrow x = false := by
      intro x hx
      refine ⟨(hbx x hx).1, (hbx x hx).2, ?_⟩
      have := List.any_eq_false.mp hany x hx
      simpa using this
    have hrun := run_text_lines T text [] lines
      { ms0 with done := VTT.flush ms0,
                 cur := { index := ms0.index, startAt := (s : Int) * 1000000, endAt := (en : Int) * 1000000,
                          region := b.region, comments := ms0.comments, lines := [],
                          attrs := some (mkAttrs [("WebVTTAlign", optStr b.align), ("WebVTTLine", optStr b.line),
                            ("WebVTTPosition", optStr b.position), ("WebVTTSize", optStr b.size),
                            ("WebVTTVertical", optStr b.vertical)]) },
                 curListed := true, block := .text, index := 0, comments := [] }
      rfl (by simpa using htags) T.good_nil htx htext
    rcases hrun with hrun | ⟨hv, tags', hrun⟩
    · left; exact hrun
    · right
      refine ⟨_, hrun, ?_, rfl, rfl, rfl, rfl, rfl, rfl, rfl⟩
      simp only [List.nil_append]
      show mapM cueView (VTT.flush ms0 ++ [_]) = _
      rw [List.map_append]
      apply mapM_append_one _ _ _ _ _ hcues
      rw [hidx, hcomm]
      exact cueView_built id s en b a hrel ds.comments lines hv

theorem cueTextOf_one (timing : Str) (text : List Str) (h : contains Spec.VTT.arrow timing = true) :
    cueTextOf (timing :: text) = text := by
  simp [cueTextOf, h]

theorem cueTextOf_two (l1 timing : Str) (text : List Str) (h : contains Spec.VTT.arrow l1 = false) :
    cueTextOf (l1 :: timing :: text) = text := by
  simp [cueTextOf, h]

/-- a cue block -/
theorem sim_cue {ok : Str → Bool} (T : TextLayer ok) {ds ds' : DocSt} {ms : St} (hR : R ds ms) (hB : Between ms)
    (b : List Str) (hl : ∀ l ∈ b, BLine l) (hok : ∀ l ∈ cueTextOf b, ok l = true)
    (h : cueBlock ds b = some ds') :
    run ms (b.map some) = .unmodelled ∨ ∃ ms', run ms (b.map some) = .ok ms' ∧ R ds' ms' := by
  rw [cueBlock_eq] at h
  cases hp : partsOf b with
  | none => rw [hp] at h; cases h
  | some pr =>
    obtain ⟨id, timing, text⟩ := pr
    rw [hp] at h
    simp only at h
    obtain ⟨hat, hshape⟩ := partsOf_inv hp
    obtain ⟨l, r, e, sets, s, en, a, lines, hany, hsp, hf, ht1, ht2, hset, htext, hds⟩ := cueCore_inv h
    subst hds
    rcases hshape with ⟨hb, hid⟩ | ⟨l1, hb, ha1, hcid⟩
    · subst hb; subst hid
      rw [cueTextOf_one _ _ hat] at hok
      have hcore := sim_cue_core T 0 hR.cues hR.regions hR.comments hR.index hB.1 hB.2 timing text l r e sets s en a lines
        (hl timing (by simp)) (fun x hx => ⟨hl x (by simp [hx]), hok x hx⟩) hany hat hsp hf ht1 ht2 hset htext
      rcases hcore with hc | ⟨ms', hrun, h1, h2, h3, h4, h5, h6, h7, h8⟩
      · left; exact hc
      · right
        refine ⟨ms', hrun, ⟨h1, by rw [h2]; exact hR.regions, by rw [h3]; exact hR.styles, ?_, ?_, by rw [h5]; exact hR.tsmap,
          h6, h7, ?_⟩⟩
        · intro hs; rw [h3]; apply hR.seen; rw [← h4]; exact hs
        · intro x hx; rw [h3] at hx; exact hR.closed x hx
        · intro hc; rw [h8] at hc; cases hc
    · subst hb
      rw [cueTextOf_two _ _ _ ha1] at hok
      obtain ⟨hop, hal⟩ := cueId_facts hcid
      obtain ⟨o1, o2, o3, o4⟩ := opener_false hop
      have hb1 := hl l1 (by simp)
      simp only [List.map_cons, run]
      rw [step_id ms l1 hb1.1 hb1.2 hB.1 o1 o3 o2 o4 (by rw [arrow_eq]; exact ha1)]
      simp only
      have hcore := sim_cue_core T (ms0 := { ms with index := atoiLoose l1 }) id hR.cues hR.regions hR.comments hal hB.1 hB.2
        timing text l r e sets s en a lines
        (hl timing (by simp)) (fun x hx => ⟨hl x (by simp [hx]), hok x hx⟩) hany hat hsp hf ht1 ht2 hset htext
      simp only [List.map_cons, run] at hcore
      rcases hcore with hc | ⟨ms', hrun, h1, h2, h3, h4, h5, h6, h7, h8⟩
      · left; exact hc
      · right
        refine ⟨ms', hrun, ⟨h1, by rw [h2]; exact hR.regions, by rw [h3]; exact hR.styles, ?_, ?_, by rw [h5]; exact hR.tsmap,
          h6, h7, ?_⟩⟩
        · intro hs; rw [h3]; apply hR.seen; rw [← h4]; exact hs
        · intro x hx; rw [h3] at hx; exact hR.closed x hx
        · intro hc; rw [h8] at hc; cases hc

end VTTRead
end Astisub
