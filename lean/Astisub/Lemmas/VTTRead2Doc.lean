import Astisub.Lemmas.VTTRead2Block

/-!
# Lemmas/VTTRead2Doc — all the blocks of a document: the decoder's fold over `blocks` against the
reader's loop over the lines
-/

set_option linter.unusedSimpArgs false

namespace Astisub
namespace VTTRead
open Go Spec.VTT
open VTT (St step run Block)

def F (acc : Option DocSt) (b : List Str) : Option DocSt :=
  match acc with | some st => block st b | none => none

theorem foldBlocks_eq (bs : List (List Str)) : foldBlocks bs = bs.foldl F (some {}) := rfl

theorem foldl_F_none (bs : List (List Str)) : bs.foldl F none = none := by
  induction bs with
  | nil => rfl
  | cons b bs ih => simpa [List.foldl, F] using ih

theorem run_trim_mid (st : St) (A : List (Option Str)) (l : Str) (B : List (Option Str)) :
    run st (A ++ some l :: B) = run st (A ++ some (trimSpace l) :: B) := by
  rw [run_append, run_append]
  cases run st A with
  | ok st' => simp only [run]; rw [step_trim]
  | err => rfl
  | unmodelled => rfl

theorem go_nil (cur : List Str) : blocks.go [] cur = if cur.isEmpty then [] else [cur.reverse] := by
  simp [blocks.go]

theorem go_cons (l : Str) (ls cur : List Str) :
    blocks.go (l :: ls) cur =
      if trimSpace l = [] then (if cur.isEmpty then blocks.go ls [] else cur.reverse :: blocks.go ls [])
      else blocks.go ls (trimSpace l :: cur) := by
  simp [blocks.go]

theorem goodRun_of_unmodelled {ds : DocSt} : GoodRun .unmodelled ds := Or.inl rfl

theorem sim_go {ok : Str → Bool} (T : TextLayer ok) (lines : List Str) :
    ∀ (cur : List Str) (ds ds' : DocSt) (ms0 : St), R ds ms0 → Between ms0 → (∀ l ∈ cur, BLine l) →
      (∀ b ∈ blocks.go lines cur, blockOKWith ok b = true) →
      (blocks.go lines cur).foldl F (some ds) = some ds' →
      GoodRun (run ms0 ((cur.reverse ++ lines).map some)) ds' := by
  induction lines with
  | nil =>
    intro cur ds ds' ms0 hR hB hcur hok h
    rw [go_nil] at h hok
    simp only [List.append_nil]
    by_cases hc : cur.isEmpty = true
    · rw [if_pos hc] at h
      have : cur = [] := by simpa using hc
      subst this
      simp only [List.foldl, Option.some.injEq] at h
      subst h
      exact Or.inr ⟨ms0, rfl, hR⟩
    · rw [if_neg hc] at h hok
      simp only [List.foldl, F] at h
      exact sim_block T hR hB cur.reverse (fun l hl => hcur l (List.mem_reverse.mp hl)) (hok _ (by simp)) h
  | cons l ls ih =>
    intro cur ds ds' ms0 hR hB hcur hok h
    rw [go_cons] at h hok
    by_cases hb : trimSpace l = []
    · rw [if_pos hb] at h hok
      by_cases hc : cur.isEmpty = true
      · rw [if_pos hc] at h hok
        have : cur = [] := by simpa using hc
        subst this
        obtain ⟨ms1, hs, hR1, hB1⟩ := step_blank_R hR l hb
        simp only [List.reverse_nil, List.nil_append, List.map_cons, run]
        rw [hs]
        have := ih [] ds ds' ms1 hR1 hB1 (by intro x hx; cases hx) hok h
        simpa using this
      · rw [if_neg hc] at h hok
        simp only [List.foldl] at h
        cases hblk : F (some ds) cur.reverse with
        | none => rw [hblk, foldl_F_none] at h; cases h
        | some ds1 =>
          rw [hblk] at h
          simp only [F] at hblk
          have hsim := sim_block T hR hB cur.reverse (fun x hx => hcur x (List.mem_reverse.mp hx)) (hok _ (by simp)) hblk
          rw [List.map_append, run_append]
          rcases hsim with hu | ⟨ms1, hrun, hR1⟩
          · rw [hu]; exact goodRun_of_unmodelled
          · rw [hrun]
            simp only [List.map_cons, run]
            obtain ⟨ms2, hs, hR2, hB2⟩ := step_blank_R hR1 l hb
            rw [hs]
            have := ih [] ds1 ds' ms2 hR2 hB2 (by intro x hx; cases hx) (fun b hb' => hok b (by simp [hb'])) h
            simpa using this
    · rw [if_neg hb] at h hok
      have := ih (trimSpace l :: cur) ds ds' ms0 hR hB
        (by
          intro x hx
          rcases List.mem_cons.mp hx with e | e
          · subst e; exact ⟨trimSpace_idem l, hb⟩
          · exact hcur x e) hok h
      rw [List.map_append, List.map_cons, run_trim_mid]
      simpa [List.reverse_cons, List.append_assoc] using this

end VTTRead
end Astisub
