import Astisub.Lemmas.STLRWClock

/-!
# Lemmas/STLRWShape — slices of a file of the shape `H ++ (M ++ (T ++ B))` (256 + 8 + 760 bytes, then the TTI blocks)
-/

namespace Astisub
namespace C05
open Go STL

theorem shape_take256 (H M T B : Bytes) (hH : H.length = 256) : (H ++ (M ++ (T ++ B))).take 256 = H :=
  List.take_left' hH

theorem shape_tcp (H M T B : Bytes) (hH : H.length = 256) (hM : M.length = 8) :
    ((H ++ (M ++ (T ++ B))).drop 256).take 8 = M := by
  rw [List.drop_left' hH, List.take_left' hM]

theorem shape_drop264 (H M T B : Bytes) (hH : H.length = 256) (hM : M.length = 8) :
    (H ++ (M ++ (T ++ B))).drop 264 = T ++ B := by
  rw [← List.append_assoc]
  exact List.drop_left' (by rw [List.length_append, hH, hM])

theorem shape_tail (H M T B : Bytes) (hH : H.length = 256) (hM : M.length = 8) (hT : T.length = 760) :
    ((H ++ (M ++ (T ++ B))).drop 264).take 760 = T := by
  rw [shape_drop264 H M T B hH hM, List.take_left' hT]

theorem gsiTail_length (g : WGSI) : (gsiTail g).length = 760 := by
  have := gsiBytes_length g
  rw [gsi_split, List.length_append, List.length_append, gsiHead_length, gsiTcpField_length] at this
  omega

/-- the three parts of the GSI block of a written file -/
theorem written_parts (now : Date) (md : Option Meta) (cs : List MCue) :
    (writeBody now md (cs.map MCue.toW)).take 256 = gsiHead (newGSI now md (cs.map MCue.toW)) ∧
    ((writeBody now md (cs.map MCue.toW)).drop 256).take 8 = gsiTcpField (newGSI now md (cs.map MCue.toW)) ∧
    ((writeBody now md (cs.map MCue.toW)).drop 264).take 760 = gsiTail (newGSI now md (cs.map MCue.toW)) := by
  rw [writeBody_eq, gsi_split]
  simp only [List.append_assoc]
  exact ⟨shape_take256 _ _ _ _ (gsiHead_length _), shape_tcp _ _ _ _ (gsiHead_length _) (gsiTcpField_length _),
    shape_tail _ _ _ _ (gsiHead_length _) (gsiTcpField_length _) (gsiTail_length _)⟩

theorem shape_drop1024 (H M T B : Bytes) (hH : H.length = 256) (hM : M.length = 8) (hT : T.length = 760) :
    (H ++ (M ++ (T ++ B))).drop 1024 = B := by
  rw [← List.append_assoc, ← List.append_assoc]
  exact List.drop_left' (by rw [List.length_append, List.length_append, hH, hM, hT])

theorem shape_take1024 (H M T B : Bytes) (hH : H.length = 256) (hM : M.length = 8) (hT : T.length = 760) :
    (H ++ (M ++ (T ++ B))).take 1024 = H ++ (M ++ T) := by
  have e : H ++ (M ++ (T ++ B)) = (H ++ (M ++ T)) ++ B := by simp only [List.append_assoc]
  rw [e]
  exact List.take_left' (by rw [List.length_append, List.length_append, hH, hM, hT])

theorem shape_length (H M T B : Bytes) (hH : H.length = 256) (hM : M.length = 8) (hT : T.length = 760) :
    (H ++ (M ++ (T ++ B))).length = 1024 + B.length := by
  rw [List.length_append, List.length_append, List.length_append, hH, hM, hT]; omega

/-- **write, read, write again** as one function: the file written on day `now` for metadata `m` and cues `cues`, and
    the file written on day `now2` from what the reader (not ignoring the programme start) returns for it, through
    the check's view `Driver.STLD.cueOf`; `none` when one of the three steps does not answer -/
def rewriteOf (now now2 : Date) (m : Meta) (cues : List WCue) : Option (Bytes × Bytes) :=
  match write now (some m) cues with
  | .ok out =>
    match STL.read false out with
    | .ok (m2, items2) =>
      match write now2 (some m2) (items2.map Driver.STLD.cueOf) with
      | .ok again => some (out, again)
      | _ => none
    | _ => none
  | _ => none

theorem rewriteOf_eq (now now2 : Date) (m : Meta) (cues : List WCue) (out again : Bytes) (m2 : Meta) (items2 : List CItem)
    (hw : write now (some m) cues = .ok out) (hr : STL.read false out = .ok (m2, items2))
    (hw2 : write now2 (some m2) (items2.map Driver.STLD.cueOf) = .ok again) :
    rewriteOf now now2 m cues = some (out, again) := by
  unfold rewriteOf
  rw [hw]
  simp only [hr, hw2]

end C05
end Astisub
