import Astisub.Lemmas.VTTDefs
import Astisub.Props.C02

/-!
# Lemmas/VTTText — the text tokens of a written WebVTT line

A text token of a written line is `pre ++ <ts₁>x₁ ++ <ts₂>x₂ …` (escaped texts, hence `<`-free,
separated by inline timestamps).  `splitTs` finds exactly these pieces and `textToken` turns them
into the runs with the timestamps truncated to the millisecond.
-/

namespace Astisub
namespace VTT
open Go List
open SRT (escapeHTML unescapeHTML)

/-- the inline timestamp as `runBytes` writes it -/
def tsText (t : Int) : Str := '<' :: Duration.formatVTT t ++ ['>']

theorem tsDig_digitChar {k : Nat} (h : k < 10) : isDig (digitChar k) = true := by
  rcases digitChar_lt h with h|h|h|h|h|h|h|h|h|h <;> subst h <;> decide

theorem digitChar_ne_lt {k : Nat} (h : k < 10) : digitChar k ≠ '<' := by
  rcases digitChar_lt h with h|h|h|h|h|h|h|h|h|h <;> subst h <;> decide

theorem digitChar_ne_nul {k : Nat} (h : k < 10) : digitChar k ≠ '\x00' := by
  rcases digitChar_lt h with h|h|h|h|h|h|h|h|h|h <;> subst h <;> decide

/-- the twelve characters of a rendered instant -/
def stamp (a b c d e f g i j : Nat) : Str :=
  [digitChar a, digitChar b, ':', digitChar c, digitChar d, ':', digitChar e, digitChar f, '.',
   digitChar g, digitChar i, digitChar j]

theorem format_stamp (t : Int) (h0 : 0 ≤ t) (h1 : t < 360000000000000) :
    ∃ a b c d e f g i j : Nat, a < 10 ∧ b < 10 ∧ c < 10 ∧ d < 10 ∧ e < 10 ∧ f < 10 ∧ g < 10 ∧ i < 10 ∧ j < 10 ∧
      Duration.formatVTT t = stamp a b c d e f g i j := by
  obtain ⟨h, m, s, fr, hh, hm, hs, hf, hfmt, _⟩ := C16.format_shape3 t '.' h0 h1
  refine ⟨h / 10, h % 10, m / 10, m % 10, s / 10, s % 10, fr / 100, fr / 10 % 10, fr % 10,
    by omega, by omega, by omega, by omega, by omega, by omega, by omega, by omega, by omega, ?_⟩
  unfold Duration.formatVTT
  rw [hfmt]
  simp [C16.canon3, dd, ddd, stamp]

theorem tsAt_stamp (a b c d e f g i j : Nat) (ha : a < 10) (hb : b < 10) (hc : c < 10) (hd : d < 10)
    (he : e < 10) (hf : f < 10) (hg : g < 10) (hi : i < 10) (hj : j < 10) (rest : Str) :
    tsAt (stamp a b c d e f g i j ++ '>' :: rest) = some (stamp a b c d e f g i j, rest) := by
  have hcol : isDig ':' = false := by decide
  simp [tsAt, msTail, stamp, List.takeWhile, tsDig_digitChar, ha, hb, hc, hd, he, hf, hg, hi, hj, hcol]

theorem smallNumbers_stamp (a b c d e f g i j : Nat) (ha : a < 10) (hb : b < 10) (hc : c < 10) (hd : d < 10)
    (he : e < 10) (hf : f < 10) (hg : g < 10) (hi : i < 10) (hj : j < 10) :
    smallNumbers (stamp a b c d e f g i j) = true := by
  have hcol : isDig ':' = false := by decide
  have hdot : isDig '.' = false := by decide
  simp [smallNumbers, smallNumbers.go, stamp, tsDig_digitChar, ha, hb, hc, hd, he, hf, hg, hi, hj, hcol, hdot]

theorem tsAt_format (t : Int) (h0 : 0 ≤ t) (h1 : t < 360000000000000) (rest : Str) :
    tsAt (Duration.formatVTT t ++ '>' :: rest) = some (Duration.formatVTT t, rest) := by
  obtain ⟨a, b, c, d, e, f, g, i, j, ha, hb, hc, hd, he, hf, hg, hi, hj, hfmt⟩ := format_stamp t h0 h1
  rw [hfmt]; exact tsAt_stamp a b c d e f g i j ha hb hc hd he hf hg hi hj rest

theorem smallNumbers_format (t : Int) (h0 : 0 ≤ t) (h1 : t < 360000000000000) :
    smallNumbers (Duration.formatVTT t) = true := by
  obtain ⟨a, b, c, d, e, f, g, i, j, ha, hb, hc, hd, he, hf, hg, hi, hj, hfmt⟩ := format_stamp t h0 h1
  rw [hfmt]; exact smallNumbers_stamp a b c d e f g i j ha hb hc hd he hf hg hi hj

theorem format_length (t : Int) (h0 : 0 ≤ t) (h1 : t < 360000000000000) :
    (Duration.formatVTT t).length = 12 := by
  obtain ⟨a, b, c, d, e, f, g, i, j, _, _, _, _, _, _, _, _, _, hfmt⟩ := format_stamp t h0 h1
  rw [hfmt]; rfl

/-- the characters of a rendered instant are neither `<` nor NUL -/
theorem format_chars (t : Int) (h0 : 0 ≤ t) (h1 : t < 360000000000000) :
    ∀ c ∈ Duration.formatVTT t, c ≠ '<' ∧ c ≠ '\x00' := by
  obtain ⟨a, b, c, d, e, f, g, i, j, ha, hb, hc, hd, he, hf, hg, hi, hj, hfmt⟩ := format_stamp t h0 h1
  rw [hfmt]
  intro x hx
  simp only [stamp, mem_cons, not_mem_nil, or_false] at hx
  rcases hx with rfl|rfl|rfl|rfl|rfl|rfl|rfl|rfl|rfl|rfl|rfl|rfl
  all_goals first
    | exact ⟨by decide, by decide⟩
    | exact ⟨digitChar_ne_lt (by assumption), digitChar_ne_nul (by assumption)⟩

/-- the first character of a rendered instant is a digit -/
theorem format_head (t : Int) (h0 : 0 ≤ t) (h1 : t < 360000000000000) :
    ∃ k r, k < 10 ∧ Duration.formatVTT t = digitChar k :: r := by
  obtain ⟨a, b, c, d, e, f, g, i, j, ha, _, _, _, _, _, _, _, _, hfmt⟩ := format_stamp t h0 h1
  exact ⟨a, _, ha, by rw [hfmt]; rfl⟩

/-! ### `splitTs` on a written text token -/

/-- one segment: an inline timestamp and the `<`-free text after it -/
def segBytes (p : Int × Str) : Str := tsText p.1 ++ p.2

/-- a written text token: `<`-free text, then segments -/
def segsBytes (pre : Str) (segs : List (Int × Str)) : Str := pre ++ (segs.map segBytes).flatten

/-- the instants are in the writer's range and the texts contain no `<` -/
def SegsOk (segs : List (Int × Str)) : Prop :=
  ∀ p ∈ segs, 0 ≤ p.1 ∧ p.1 < 360000000000000 ∧ '<' ∉ p.2

theorem splitTs_char (fuel : Nat) (c : Char) (rest : Str) (h : c ≠ '<') :
    splitTs (fuel + 1) (c :: rest) = (c :: (splitTs fuel rest).1, (splitTs fuel rest).2) := by
  simp [splitTs, h]

theorem splitTs_text (x : Str) (hx : '<' ∉ x) (fuel : Nat) (r : Str) :
    splitTs (fuel + x.length) (x ++ r) = (x ++ (splitTs fuel r).1, (splitTs fuel r).2) := by
  induction x with
  | nil => simp
  | cons c x ih =>
    have hc : c ≠ '<' := fun e => hx (by simp [e])
    have hx' : '<' ∉ x := fun e => hx (by simp [e])
    rw [show fuel + (c :: x).length = (fuel + x.length) + 1 by simp; omega]
    rw [List.cons_append, splitTs_char _ _ _ hc, ih hx']
    rfl

theorem splitTs_ts (fuel : Nat) (t : Int) (h0 : 0 ≤ t) (h1 : t < 360000000000000) (rest : Str) :
    splitTs (fuel + 1) (tsText t ++ rest)
      = ([], (Duration.formatVTT t, (splitTs fuel rest).1) :: (splitTs fuel rest).2) := by
  have : tsText t ++ rest = '<' :: (Duration.formatVTT t ++ '>' :: rest) := by simp [tsText]
  rw [this]
  simp [splitTs, tsAt_format t h0 h1]

theorem segBytes_length (p : Int × Str) (h0 : 0 ≤ p.1) (h1 : p.1 < 360000000000000) :
    (segBytes p).length = 14 + p.2.length := by
  simp [segBytes, tsText, format_length p.1 h0 h1]; omega

theorem splitTs_segs (segs : List (Int × Str)) (hs : SegsOk segs) (fuel : Nat)
    (hf : ((segs.map segBytes).flatten).length < fuel) :
    splitTs fuel ((segs.map segBytes).flatten) = ([], segs.map fun p => (Duration.formatVTT p.1, p.2)) := by
  induction segs generalizing fuel with
  | nil => cases fuel <;> simp [splitTs]
  | cons p segs ih =>
    obtain ⟨h0, h1, hlt⟩ := hs p (by simp)
    have hs' : SegsOk segs := fun q hq => hs q (by simp [hq])
    simp only [map_cons, flatten_cons, length_append, segBytes_length p h0 h1] at hf ⊢
    obtain ⟨k, rfl⟩ : ∃ k, fuel = (k + p.2.length) + 1 := ⟨fuel - p.2.length - 1, by omega⟩
    rw [segBytes, List.append_assoc, splitTs_ts _ _ h0 h1, splitTs_text _ hlt, ih hs' k (by omega)]
    simp

theorem splitTs_segsBytes (pre : Str) (hpre : '<' ∉ pre) (segs : List (Int × Str)) (hs : SegsOk segs) :
    splitTs ((segsBytes pre segs).length + 1) (segsBytes pre segs)
      = (pre, segs.map fun p => (Duration.formatVTT p.1, p.2)) := by
  unfold segsBytes
  rw [show (pre ++ (segs.map segBytes).flatten).length + 1 = (((segs.map segBytes).flatten).length + 1) + pre.length by
    simp; omega]
  rw [splitTs_text _ hpre, splitTs_segs segs hs _ (by omega)]
  simp

/-! ### `textToken` on a written text token -/

/-- truncation of an instant to the millisecond -/
def truncMs (t : Int) : Int := t - t % 1000000

/-- what one segment adds: a blank text leaves its instant pending, any other text is a run -/
def ttStep (attrs : Attrs) (acc : List LItem × Int) (p : Int × Str) : List LItem × Int :=
  if trimSpace p.2 = [] then (acc.1, truncMs p.1)
  else (acc.1 ++ [{ text := unescapeHTML p.2, startAt := truncMs p.1, attrs := attrs }], 0)

def ttFirst (attrs : Attrs) (pre : Str) (pending : Int) : List LItem :=
  if trimSpace pre ≠ [] then [{ text := unescapeHTML pre, startAt := pending, attrs := attrs }] else []

/-- the runs and the pending instant a written text token yields -/
def ttVal (attrs : Attrs) (pre : Str) (segs : List (Int × Str)) (pending : Int) : List LItem × Int :=
  segs.foldl (ttStep attrs) (ttFirst attrs pre pending, if trimSpace pre ≠ [] then 0 else pending)

theorem ttVal_snoc (attrs : Attrs) (pre : Str) (segs : List (Int × Str)) (pending : Int) (p : Int × Str) :
    ttVal attrs pre (segs ++ [p]) pending = ttStep attrs (ttVal attrs pre segs pending) p := by
  simp [ttVal, foldl_append]

theorem ttVal_nil_nil (attrs : Attrs) (pending : Int) : ttVal attrs [] [] pending = ([], pending) := by
  simp [ttVal, ttFirst, trimSpace, trimLeft, trimRight]

theorem foldl_model_step (attrs : Attrs) (segs : List (Int × Str)) (hs : SegsOk segs) (init : List LItem × Int) :
    (segs.map fun p => (Duration.formatVTT p.1, p.2)).foldl (fun (acc : List LItem × Int) (p : Str × Str) =>
        let t := (Duration.parseVTT p.1).getD 0
        if trimSpace p.2 = [] then (acc.1, t)
        else (acc.1 ++ [{ text := unescapeHTML p.2, startAt := t, attrs := attrs }], 0)) init
      = segs.foldl (ttStep attrs) init := by
  induction segs generalizing init with
  | nil => rfl
  | cons p segs ih =>
    obtain ⟨h0, h1, _⟩ := hs p (by simp)
    have hs' : SegsOk segs := fun q hq => hs q (by simp [hq])
    simp only [map_cons, foldl_cons]
    rw [ih hs']
    congr 1
    simp only [C16.vtt_roundtrip p.1 h0 h1, Option.getD_some, ttStep, truncMs]

theorem ttStep_fst_indep (attrs : Attrs) (a : List LItem) (x y : Int) (p : Int × Str) :
    ttStep attrs (a, x) p = ttStep attrs (a, y) p := by
  simp [ttStep]

theorem textToken_segsBytes (attrs : Attrs) (pre : Str) (segs : List (Int × Str)) (pending : Int)
    (hpre : '<' ∉ pre) (hs : SegsOk segs) (hgood : pre = [] ∨ trimSpace pre ≠ [])
    (hne : pre ≠ [] ∨ segs ≠ []) :
    textToken attrs (segsBytes pre segs) pending = some (ttVal attrs pre segs pending) := by
  unfold textToken
  rw [splitTs_segsBytes pre hpre segs hs]
  simp only []
  cases segs with
  | nil =>
    have hp : pre ≠ [] := by rcases hne with h | h; exact h; exact absurd rfl h
    have hnb : trimSpace pre ≠ [] := by rcases hgood with h | h; exact absurd h hp; exact h
    simp [segsBytes, ttVal, ttFirst, hnb]
  | cons p segs =>
    have hsm : ((p :: segs).map fun p => (Duration.formatVTT p.1, p.2)).any (fun p => !smallNumbers p.1) = false := by
      rw [List.any_eq_false]
      intro q hq
      obtain ⟨r, hr, rfl⟩ := List.mem_map.mp hq
      obtain ⟨h0, h1, _⟩ := hs r hr
      simp [smallNumbers_format r.1 h0 h1]
    rw [if_neg (by simp), if_neg (by rw [hsm]; simp)]
    rw [foldl_model_step attrs _ hs]
    simp only [ttVal, foldl_cons, ttFirst]
    rw [ttStep_fst_indep attrs _ pending (if trimSpace pre ≠ [] then 0 else pending)]

end VTT
end Astisub
