import Astisub.Driver.VTT

/-!
# Lemmas/VTTRead2Defs — vocabulary of the WebVTT *read* clause (C02read)

* the pieces of `Driver.vttView` by name (`runView`, `lineView`, `cueView`, `regionView`);
* the class of documents of the theorem: `InClass` — decidable, on the decoder's own block
  structure (`docBlocks`), listing exactly the documents of the decoder's class on which the reader
  model is known to differ (each with a witness in `Props/C02read.lean`);
* the outcome `Good`: what the `vtt.read` case of the driver checks.
-/

namespace Astisub
namespace VTTRead
open Go Spec.VTT

/-! ### the view, piece by piece -/

def modelTag (g : GTag) : VTT.Tag := { name := g.name, classes := g.classes, annotation := g.annotation }

def runView (li : LItem) : Option GRun :=
  if li.startAt % 1000000 ≠ 0 || li.startAt < 0 then none else
  some { text := li.text, tags := (VTT.tagsOfAttrs li.attrs).map Driver.specTag,
         ts := if li.startAt = 0 then none else some (li.startAt / 1000000).toNat }

def lineView (l : Line) : Option GLine :=
  match mapM runView l.items with
  | some runs => some { voice := l.voice, runs := runs }
  | none => none

def cueView (it : CItem) : Option GCue :=
  if it.startAt % 1000000 ≠ 0 || it.endAt % 1000000 ≠ 0 || it.startAt < 0 || it.endAt < 0 then none else
  match mapM lineView it.lines with
  | none => none
  | some lines =>
    some { id := it.index, comments := it.comments, startMs := (it.startAt / 1000000).toNat, endMs := (it.endAt / 1000000).toNat,
           align := Driver.attrStr it.attrs "WebVTTAlign", line := Driver.attrStr it.attrs "WebVTTLine",
           position := Driver.attrStr it.attrs "WebVTTPosition", size := Driver.attrStr it.attrs "WebVTTSize",
           vertical := Driver.attrStr it.attrs "WebVTTVertical", region := it.region, lines := lines }

def regionView (d : Def) : GRegion :=
  { id := d.id, lines := Driver.attrStr d.attrs "WebVTTLines", anchor := Driver.attrStr d.attrs "WebVTTRegionAnchor",
    scroll := Driver.attrStr d.attrs "WebVTTScroll", viewport := Driver.attrStr d.attrs "WebVTTViewportAnchor",
    width := Driver.attrStr d.attrs "WebVTTWidth" }

def tsmapView (s : Subs) : Option (Int × Int) :=
  match SRT.kvGet s.metadata "WebVTTTimestampMap" with
  | some v => match splitC ',' v with
    | [l, m] => match atoi l, atoi m with
      | some l, some m => some (l, m)
      | _, _ => none
    | _ => none
  | none => none

theorem vttView_eq (s : Subs) :
    Driver.vttView s =
      match mapM cueView s.items with
      | none => none
      | some cues => some { cues := cues, regions := (Proto.sortDefs s.regions).map regionView,
                            styles := VTT.styleLines s, tsmap := tsmapView s } := rfl

/-! ### the decoder's block list -/

/-- a line of header metadata (may follow `WEBVTT` without a blank line) -/
def metaLine (l : Str) : Bool :=
  hasPrefix "Region: ".toList (trimSpace l) || hasPrefix "X-TIMESTAMP-MAP".toList (trimSpace l)

def stripBom (doc : Str) : Str :=
  match doc with | c :: rest => if c = Char.ofNat 0xFEFF then rest else doc | [] => doc

def okHeader (first : Str) : Bool :=
  match dropPrefix? "WEBVTT".toList first with
  | some [] => true
  | some (c :: _) => isBlank c
  | none => false

/-- the blocks `Spec.VTT.decode` folds `Spec.VTT.block` over; `none` = no `WEBVTT` line -/
def docBlocks (doc : Str) : Option (List (List Str)) :=
  match splitLines (stripBom doc) [] with
  | [] => none
  | first :: rest =>
    if !okHeader first then none else
    let hdr := rest.takeWhile metaLine
    some ((if hdr.isEmpty then [] else [hdr.map trimSpace]) ++ blocks (rest.drop hdr.length))

def foldBlocks (bs : List (List Str)) : Option DocSt :=
  bs.foldl (fun (acc : Option DocSt) b => match acc with | some st => block st b | none => none) (some {})

def docOf (st : DocSt) : GDoc := { cues := st.cues, regions := st.regions, styles := st.styles, tsmap := st.tsmap }

/-- `Spec.VTT.decode`, with its pieces named -/
def decode2 (doc : Str) : Option GDoc :=
  match splitLines (stripBom doc) [] with
  | [] => none
  | first :: rest =>
    if !okHeader first then none else
    let hdr := rest.takeWhile metaLine
    let bs := (if hdr.isEmpty then [] else [hdr.map trimSpace]) ++ blocks (rest.drop hdr.length)
    match foldBlocks bs with
    | some st => some (docOf st)
    | none => none

theorem decode_eq2 (doc : Str) : decode doc = decode2 doc := rfl

theorem decode_eq (doc : Str) :
    decode doc = match docBlocks doc with
      | none => none
      | some bs => (foldBlocks bs).map docOf := by
  rw [decode_eq2]
  unfold decode2 docBlocks
  split
  · rfl
  · rename_i _ first rest _
    by_cases h : (!okHeader first) = true
    · simp only [h, if_true]
    · simp only [h, Bool.false_eq_true, if_false]
      cases foldBlocks _ <;> rfl

/-! ### the class -/

/-- the text lines of a cue block (what follows the timing line) -/
def cueTextOf (b : List Str) : List Str :=
  match b with
  | l1 :: rest =>
    if contains arrow l1 then rest
    else match rest with
      | _ :: rest' => rest'
      | [] => []
  | [] => []

/-- a comment line the library reads like the standard does: `NOTE` is followed by exactly one
    space (the library knows neither `NOTE<tab>` nor that further white space is not text) -/
def noteOK (l : Str) : Bool :=
  !hasPrefix "NOTE\t".toList l &&
  (match dropPrefix? "NOTE ".toList l with
   | some (c :: _) => !isSpace c
   | _ => true)

/-- the number of lines of a region fits the library's `int` -/
def regionOK (l : Str) : Bool :=
  match regionLine l with
  | some r => decide (r.lines.length ≤ 18)
  | none => true

/-- cue text: no inline timestamp (`<` + digit), and inside a tag none of `=` (the HTML tokenizer
    reads quoted attribute values), form feed (white space to the tokenizer and to `\s`, not to the
    standard), `|` (separator of the tag list in the protocol's `WebVTTTags` attribute) and CR / LF
    (never inside a line of a document).
    The flag says whether the scan is inside a tag. -/
def scanOK : Bool → Str → Bool
  | _, [] => true
  | false, c :: cs =>
    if c = '<' then (match cs with | d :: _ => !isDigit d | [] => true) && scanOK true cs
    else scanOK false cs
  | true, c :: cs =>
    if c = '>' then scanOK false cs
    else !(c = '=' || c = '\x0c' || c = '|' || c = '\n' || c = '\r') && scanOK true cs

def lineOK (l : Str) : Bool := scanOK false l

def blockOK (b : List Str) : Bool :=
  match b with
  | [] => true
  | first :: _ =>
    if (noteLine first).isSome then b.all noteOK
    else b.all regionOK && (cueTextOf b).all lineOK

/-- the documents of the theorem (inside the decoder's class) -/
def InClass (doc : Str) : Bool :=
  match docBlocks doc with
  | some bs => bs.all blockOK
  | none => true

/-- the cue-list item the reader builds for a run of the decoder (no inline timestamp) -/
def runItem (r : GRun) : LItem := { text := r.text, startAt := 0, attrs := VTT.tagsAttrs (r.tags.map modelTag) }

/-! ### the outcome -/

/-- what the `vtt.read` case checks of the reader's answer `r` against the denotation `g`:
    unless the model does not cover the input (`unmodelled`: the case is not judged), the answer is
    a cue list whose normalised view is the normalised denotation -/
def Good (r : SRT.Res Subs) (g : GDoc) : Prop :=
  r = .unmodelled ∨ ∃ s, r = .ok s ∧ (Driver.vttView s).map norm = some (norm g)

end VTTRead
end Astisub
