import Astisub.Spec.SRT
import Astisub.Lemmas.SRTDoc
import Astisub.Lemmas.SRTTiming
import Astisub.Lemmas.SRTStr
import Astisub.Props.C16

/-!
# Lemmas/SRTSpecTime — the independent decoder on a written timing line
-/

namespace Astisub
namespace SRTDoc
open Go SRT

/-! ## digits -/

theorem isDigit_digitChar {k : Nat} (h : k < 10) : Spec.SRT.isDigit (digitChar k) = true := by
  rcases digitChar_lt h with h|h|h|h|h|h|h|h|h|h <;> subst h <;> decide

theorem toNat_digitChar {k : Nat} (h : k < 10) : (digitChar k).toNat - 48 = k := by
  rcases digitChar_lt h with h|h|h|h|h|h|h|h|h|h <;> subst h <;> decide

theorem natOf_dd {v : Nat} (h : v < 100) : Spec.SRT.natOf (dd v) = some v := by
  have d1 : v / 10 < 10 := by omega
  have d2 : v % 10 < 10 := by omega
  unfold Spec.SRT.natOf dd
  simp only [List.isEmpty_cons, List.all_cons, List.all_nil, isDigit_digitChar d1, isDigit_digitChar d2,
    List.foldl_cons, List.foldl_nil, toNat_digitChar d1, toNat_digitChar d2]
  simp
  omega

theorem natOf_ddd {v : Nat} (h : v < 1000) : Spec.SRT.natOf (ddd v) = some v := by
  have d1 : v / 100 < 10 := by omega
  have d2 : v / 10 % 10 < 10 := by omega
  have d3 : v % 10 < 10 := by omega
  unfold Spec.SRT.natOf ddd
  simp only [List.isEmpty_cons, List.all_cons, List.all_nil, isDigit_digitChar d1, isDigit_digitChar d2,
    isDigit_digitChar d3, List.foldl_cons, List.foldl_nil, toNat_digitChar d1, toNat_digitChar d2,
    toNat_digitChar d3]
  simp
  omega

theorem span_loop_prefix {α} (p : α → Bool) (a : List α) (c : α) (b acc : List α) (ha : ∀ x ∈ a, p x = true)
    (hc : p c = false) : List.span.loop p (a ++ c :: b) acc = (acc.reverse ++ a, c :: b) := by
  induction a generalizing acc with
  | nil => simp [List.span.loop, hc]
  | cons x a ih =>
    have hx := ha x (by simp)
    rw [List.cons_append, List.span.loop, hx]
    simp only
    rw [ih (x :: acc) (fun y hy => ha y (by simp [hy]))]
    simp

theorem span_prefix {α} (p : α → Bool) (a : List α) (c : α) (b : List α) (ha : ∀ x ∈ a, p x = true) (hc : p c = false) :
    (a ++ c :: b).span p = (a, c :: b) := by
  unfold List.span
  rw [span_loop_prefix p a c b [] ha hc]
  simp

/-! ## `timeMs` -/

theorem timeMs_canon3 (x : Str) (h m s f : Nat) (hh : h < 100) (hm : m < 60) (hs : s < 60) (hf : f < 1000)
    (hx : trimSpace x = C16.canon3 h m s f ',') :
    Spec.SRT.timeMs x = some (((h * 60 + m) * 60 + s) * 1000 + f) := by
  have hrev : (C16.canon3 h m s f ',').reverse = (ddd f).reverse ++ ',' :: (dd h ++ ':' :: dd m ++ ':' :: dd s).reverse := by
    unfold C16.canon3; simp
  have hspan : (C16.canon3 h m s f ',').reverse.span (fun c => Spec.SRT.isDigit c)
      = ((ddd f).reverse, ',' :: (dd h ++ ':' :: dd m ++ ':' :: dd s).reverse) := by
    rw [hrev]
    apply span_prefix
    · intro c hc
      obtain ⟨k, hk, rfl⟩ := digitStr_ddd hf c (by simpa using hc)
      exact isDigit_digitChar hk
    · decide
  have hl : (ddd f).length = 3 := rfl
  have hsplit : splitC ':' (dd h ++ ':' :: (dd m ++ ':' :: dd s)) = [dd h, dd m, dd s] := by
    have := C16.hms_split h m s hh (by omega) (by omega)
    simpa using this
  have hne : ddd f ≠ [] := by simp [ddd]
  unfold Spec.SRT.timeMs
  simp only [hx, hspan]
  simp [hm, hs, hl, hne, hsplit, natOf_dd hh, natOf_dd (show m < 100 by omega), natOf_dd (show s < 100 by omega),
    natOf_ddd hf]

theorem timeMs_format (x : Str) (t : Int) (h0 : 0 ≤ t) (h1 : t < 360000000000000)
    (hx : trimSpace x = Duration.formatSRT t) : Spec.SRT.timeMs x = some (t / 1000000).toNat := by
  obtain ⟨h, m, s, f, hh, hm, hs, hf, hfmt, hval⟩ := C16.format_shape3 t ',' h0 h1
  have hx' : trimSpace x = C16.canon3 h m s f ',' := by rw [hx]; exact hfmt
  rw [timeMs_canon3 x h m s f hh hm hs hf hx']
  unfold Duration.nsPerMs Duration.nsPerS Duration.nsPerMin Duration.nsPerH at hval
  congr 1
  omega

/-! ## `timing` -/

/-- no dash: `strings.Split(x, "-->")` is `[x]` -/
theorem splitOn_arrow_no_dash (x : Str) (h : '-' ∉ x) : Go.splitOn "-->".toList x = [x] := by
  unfold Go.splitOn
  have he : ("-->".toList).isEmpty = false := rfl
  simp only [he, Bool.false_eq_true, ↓reduceIte]
  have ha : "-->".toList = '-' :: ['-', '>'] := rfl
  rw [ha, SRTTiming.splitOnAux_last '-' _ x h _ [] (by omega)]
  simp

theorem timing_no_dash (x : Str) (h : '-' ∉ x) : Spec.SRT.timing x = none := by
  unfold Spec.SRT.timing
  rw [splitOn_arrow_no_dash x h]

theorem digitStr_no_dash {x : Str} (h : DigitStr x) : '-' ∉ x := by
  intro hm
  obtain ⟨k, hk, e⟩ := h _ hm
  exact (digitChar_ne_minus hk).mp e.symm

theorem contains_arrow_no_dash (x : Str) (h : '-' ∉ x) : Go.contains "-->".toList x = false := by
  rw [contains_arrow_eq]
  exact scanArrow_zero_no_dash x h

theorem timing_timingStr (it : CItem) (hs0 : 0 ≤ it.startAt) (hs1 : it.startAt < 360000000000000)
    (he0 : 0 ≤ it.endAt) (he1 : it.endAt < 360000000000000) :
    Spec.SRT.timing (timingStr it) = some ((it.startAt / 1000000).toNat, (it.endAt / 1000000).toNat) := by
  have e : timingStr it = SRTTiming.timingLine it.startAt it.endAt := rfl
  have hsplit := SRTTiming.splitOn_timingLine it.startAt it.endAt hs0 hs1 he0 he1
  have ha : SRT.arrow = "-->".toList := rfl
  rw [ha] at hsplit
  unfold Spec.SRT.timing
  rw [e, hsplit]
  simp only [SRTTiming.fields_right it.endAt he0 he1]
  rw [timeMs_format _ it.startAt hs0 hs1
      (SRTTiming.trimSpace_append_space _ (SRTTiming.formatSRT_ne_nil _ hs0 hs1) (SRTTiming.formatSRT_noSpace _ hs0 hs1)),
    timeMs_format _ it.endAt he0 he1 (trimSpace_id (SRTTiming.formatSRT_noSpace _ he0 he1))]

end SRTDoc
end Astisub
