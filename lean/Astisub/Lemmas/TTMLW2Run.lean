import Astisub.Lemmas.TTMLW2Elems

/-!
# Lemmas/TTMLW2Run — the independent decoder's state machine over the pieces of a written document

`Spec.TTML.step` / `run` on: the root element, `head`, `metadata` (title, copyright), `styling` / `layout` with their
definitions, `body`, `div`, and one paragraph (spans and `br`).
-/

namespace Astisub
namespace TTMLW2
open Go TTML List
open Driver.TTMLD (nsTTML nsTTS nsTTM nsXML ttmlAttrsOf)
open Spec.TTML (St PState GDoc GRun GCue GDef step run hasNL attr? ref? styling natAttr denote)
open TTMLR (pRoot pStyle pRegion pTitle pCopy pPara map_root map_style map_region map_title map_copy map_para inP closeP mkG)

/-- decoder state outside a paragraph: nothing finished, no frame / tick rate -/
def mkS (path : List Str) (doc : GDoc) (buf : Str) : St :=
  { path := path, fr := 0, tr := 0, doc := doc, p := none, buf := buf, finished := false }

abbrev pHead : List Str := ['h', 'e', 'a', 'd'] :: pRoot
abbrev pMeta : List Str := ['m', 'e', 't', 'a', 'd', 'a', 't', 'a'] :: pHead
abbrev pStyling : List Str := ['s', 't', 'y', 'l', 'i', 'n', 'g'] :: pHead
abbrev pLayout : List Str := ['l', 'a', 'y', 'o', 'u', 't'] :: pHead
abbrev pBody : List Str := ['b', 'o', 'd', 'y'] :: pRoot
abbrev pDiv : List Str := ['d', 'i', 'v'] :: pBody

theorem map_head : pHead.map String.ofList = ["head", "tt"] := by decide
theorem map_meta : pMeta.map String.ofList = ["metadata", "head", "tt"] := by decide
theorem map_styling : pStyling.map String.ofList = ["styling", "head", "tt"] := by decide
theorem map_layout : pLayout.map String.ofList = ["layout", "head", "tt"] := by decide
theorem map_body : pBody.map String.ofList = ["body", "tt"] := by decide
theorem map_div : pDiv.map String.ofList = ["div", "body", "tt"] := by decide

/-! ### `run` -/

theorem run_append (a b : List Spec.TTML.Tok) (st : St) : run (a ++ b) st = (run a st).bind (run b) := by
  induction a generalizing st with
  | nil => rfl
  | cons t a ih =>
    simp only [List.cons_append, run]
    cases step st t with
    | none => rfl
    | some st' => exact ih st'

theorem run_append_some {a : List Spec.TTML.Tok} {st st' : St} (b : List Spec.TTML.Tok) (h : run a st = some st') :
    run (a ++ b) st = run b st' := by
  rw [run_append, h]; rfl

theorem run_step {t : Spec.TTML.Tok} {st st' : St} (ts : List Spec.TTML.Tok) (h : step st t = some st') : run (t :: ts) st = run ts st' := by
  rw [run, h]

theorem run_one {t : Spec.TTML.Tok} {st st' : St} (h : step st t = some st') : run [t] st = some st' := by
  rw [run, h]; rfl

/-! ### elements that are only entered and left -/

section plain
variable (doc : GDoc) (buf sp : Str)

theorem step_head : step (mkS pRoot doc buf) (.start sp ['h', 'e', 'a', 'd'] []) = some (mkS pHead doc buf) := by
  unfold step
  simp only [mkS, Bool.false_eq_true, if_false, List.any_nil, map_head]
  simp

theorem step_metadata :
    step (mkS pHead doc buf) (.start sp ['m', 'e', 't', 'a', 'd', 'a', 't', 'a'] []) = some (mkS pMeta doc buf) := by
  unfold step
  simp only [mkS, Bool.false_eq_true, if_false, List.any_nil, map_meta]
  simp

theorem step_styling :
    step (mkS pHead doc buf) (.start sp ['s', 't', 'y', 'l', 'i', 'n', 'g'] []) = some (mkS pStyling doc buf) := by
  unfold step
  simp only [mkS, Bool.false_eq_true, if_false, List.any_nil, map_styling]
  simp

theorem step_layout :
    step (mkS pHead doc buf) (.start sp ['l', 'a', 'y', 'o', 'u', 't'] []) = some (mkS pLayout doc buf) := by
  unfold step
  simp only [mkS, Bool.false_eq_true, if_false, List.any_nil, map_layout]
  simp

theorem step_body : step (mkS pRoot doc buf) (.start sp ['b', 'o', 'd', 'y'] []) = some (mkS pBody doc buf) := by
  unfold step
  simp only [mkS, Bool.false_eq_true, if_false, List.any_nil, map_body]
  simp

theorem step_div : step (mkS pBody doc buf) (.start sp ['d', 'i', 'v'] []) = some (mkS pDiv doc buf) := by
  unfold step
  simp only [mkS, Bool.false_eq_true, if_false, List.any_nil, map_div]
  simp

/-- an end tag outside a paragraph that closes neither `title` nor `copyright` -/
theorem step_close (n : Str) (rest : List Str) (h1 : n :: rest ≠ pTitle) (h2 : n :: rest ≠ pCopy) :
    step (mkS (n :: rest) doc buf) .stop = some { mkS rest doc buf with finished := rest.isEmpty } := by
  unfold step
  simp only [mkS, Bool.false_eq_true, if_false]
  split
  · rename_i heq; exact absurd (TTMLR.map_ofList_eq heq) h1
  · rename_i heq; exact absurd (TTMLR.map_ofList_eq heq) h2
  · rfl

theorem step_close' (n : Str) (rest : List Str) (hne : rest ≠ []) (h1 : n :: rest ≠ pTitle) (h2 : n :: rest ≠ pCopy) :
    step (mkS (n :: rest) doc buf) .stop = some (mkS rest doc buf) := by
  rw [step_close doc buf n rest h1 h2]
  cases rest with
  | nil => exact absurd rfl hne
  | cons a r => rfl

end plain

/-! ### the root element -/

theorem step_root (sp : Str) (m : Attrs) :
    step {} (.start sp ['t', 't'] (rootR m)) = some (mkS pRoot { lang := TTMLDoc.langIn m } []) := by
  obtain ⟨h1, h2, h3, h4⟩ := root_fields m
  have hnl : (rootR m).any (fun a => a.2.2.any fun c => c = '\n') = false := h4
  unfold step
  simp only [Bool.false_eq_true, if_false, hnl, List.map_cons, List.map_nil]
  have e : [String.ofList ['t', 't']] = ["tt"] := by decide
  simp only [e, h1, h2, h3]
  unfold TTMLDoc.langIn
  cases TTMLDoc.normRef (langOut m) <;> rfl

/-! ### `metadata` -/

section metaSec
variable (doc : GDoc) (sp : Str)

theorem step_title_open (buf : Str) :
    step (mkS pMeta doc buf) (.start sp ['t', 'i', 't', 'l', 'e'] []) = some (mkS pTitle doc []) := by
  unfold step
  simp only [mkS, Bool.false_eq_true, if_false, List.any_nil, map_title]

theorem step_title_text (buf s : Str) : step (mkS pTitle doc buf) (.text s) = some (mkS pTitle doc (buf ++ s)) := by
  unfold step
  simp only [mkS, Bool.false_eq_true, if_false, map_title]

theorem step_title_close (buf : Str) :
    step (mkS pTitle doc buf) .stop = some (mkS pMeta { doc with title := buf } buf) := by
  unfold step
  simp only [mkS, Bool.false_eq_true, if_false, map_title]
  rfl

theorem step_copy_open (buf : Str) :
    step (mkS pMeta doc buf) (.start sp ['c', 'o', 'p', 'y', 'r', 'i', 'g', 'h', 't'] []) = some (mkS pCopy doc []) := by
  unfold step
  simp only [mkS, Bool.false_eq_true, if_false, List.any_nil, map_copy]

theorem step_copy_text (buf s : Str) : step (mkS pCopy doc buf) (.text s) = some (mkS pCopy doc (buf ++ s)) := by
  unfold step
  simp only [mkS, Bool.false_eq_true, if_false, map_copy]

theorem step_copy_close (buf : Str) :
    step (mkS pCopy doc buf) .stop = some (mkS pMeta { doc with copyright := buf } buf) := by
  unfold step
  simp only [mkS, Bool.false_eq_true, if_false, map_copy]
  rfl

end metaSec

/-! ### definitions -/

theorem step_style (doc : GDoc) (buf sp : Str) (A : List XAttr) (g : GDef) (hg : Spec.TTML.mkDef A = some g)
    (hnl : nlAttr A = false) :
    step (mkS pStyling doc buf) (.start sp ['s', 't', 'y', 'l', 'e'] A)
      = some (mkS pStyle { doc with styles := doc.styles ++ [g] } buf) := by
  have hnl' : A.any (fun a => a.2.2.any fun c => c = '\n') = false := hnl
  unfold step
  simp only [mkS, Bool.false_eq_true, if_false, hnl', map_style, hg, Option.map_some]

theorem step_region (doc : GDoc) (buf sp : Str) (A : List XAttr) (g : GDef) (hg : Spec.TTML.mkDef A = some g)
    (hnl : nlAttr A = false) :
    step (mkS pLayout doc buf) (.start sp ['r', 'e', 'g', 'i', 'o', 'n'] A)
      = some (mkS pRegion { doc with regions := doc.regions ++ [g] } buf) := by
  have hnl' : A.any (fun a => a.2.2.any fun c => c = '\n') = false := hnl
  unfold step
  simp only [mkS, Bool.false_eq_true, if_false, hnl', map_region, hg, Option.map_some]

/-! ### paragraphs -/

theorem step_p (doc : GDoc) (buf sp : Str) (A : List XAttr) (b e : Str) (cb ce : Nat × Nat) (sty reg : Option Str)
    (sa : Spec.TTML.AttrL) (h1 : attr? A "begin" = some (some b)) (h2 : attr? A "end" = some (some e))
    (h3 : ref? A "style" = some sty) (h4 : ref? A "region" = some reg) (h5 : styling A = some sa)
    (h6 : denote b 0 0 = some cb) (h7 : denote e 0 0 = some ce) (hnl : nlAttr A = false) :
    step (mkS pDiv doc buf) (.start sp ['p'] A)
      = some (inP (mkS pPara doc buf) [] { b := cb, e := ce, style := sty, region := reg, attrs := sa }) := by
  have hnl' : A.any (fun a => a.2.2.any fun c => c = '\n') = false := hnl
  unfold step
  simp only [mkS, Bool.false_eq_true, if_false, hnl', map_para, h1, h2, h3, h4, h5, h6, h7]
  rfl

/-- the state of a paragraph between two children: finished lines, current line -/
def pst (c : PState) (done : List (List GRun)) (cur : List GRun) : PState :=
  { c with done := done, cur := cur, span := none, seg := [], inBr := false }

/-- the run the decoder makes of a written `span` -/
def runG (li : LItem) : GRun := { text := li.text, style := li.style, attrs := ttmlAttrsOf li.attrs }

theorem nlAttr_eq (a : List XAttr) : TTMLR.nlAttr a = nlAttr a := rfl

theorem span_ne_br : (['s', 'p', 'a', 'n'] : Str) ≠ "br".toList := by decide

section para
variable (doc : GDoc) (buf : Str) (c : PState)

theorem base_len : (mkS pPara doc buf).path.length = 4 := rfl
theorem base_ne : (mkS pPara doc buf).path ≠ [] := by simp [mkS]

/-- `<span …>text</span>` appends one run to the current line -/
theorem run_span (li : LItem) (h : runW li = true) (done : List (List GRun)) (cur : List GRun) :
    run ((spanOf li).map sTok) (inP (mkS pPara doc buf) [] (pst c done cur))
      = some (inP (mkS pPara doc buf) [] (pst c done (cur ++ [runG li]))) := by
  obtain ⟨h1, h2, h3⟩ := span_fields li h
  have htxt : hasNL li.text = false := by
    simp only [runW, Bool.and_eq_true, okStr, Bool.not_eq_true'] at h; exact h.1.1
  have hstart : step (inP (mkS pPara doc buf) [] (pst c done cur)) (.start nsTTML ['s', 'p', 'a', 'n'] (spanAttrs li))
      = some (inP (mkS pPara doc buf) [['s', 'p', 'a', 'n']]
          { pst c done cur with span := some (li.style, ttmlAttrsOf li.attrs), seg := [] }) := by
    rw [TTMLR.step_top_start _ _ rfl rfl (base_len doc buf), nlAttr_eq, h3]
    simp only [Bool.false_eq_true, if_false, if_neg span_ne_br, h1, h2]
    rfl
  have hstop : ∀ seg : Str,
      step (inP (mkS pPara doc buf) [['s', 'p', 'a', 'n']]
          { pst c done cur with span := some (li.style, ttmlAttrsOf li.attrs), seg := seg }) .stop
        = some (inP (mkS pPara doc buf) [] (pst c done (cur ++ [{ text := seg, style := li.style, attrs := ttmlAttrsOf li.attrs }]))) := by
    intro seg
    rw [TTMLR.step_span_stop _ _ _ _ li.style (ttmlAttrsOf li.attrs) rfl rfl (base_ne doc buf)]
    rfl
  unfold spanOf
  by_cases ht : li.text.isEmpty = true
  · have ht' : li.text = [] := by simpa using ht
    simp only [ht, if_true, append_nil, singleton_append, map_cons, map_nil, sTok, el_span]
    change run (Spec.TTML.Tok.start nsTTML ['s', 'p', 'a', 'n'] (spanAttrs li) :: _) _ = _
    rw [run_step _ hstart, run_one (hstop [])]
    simp only [runG, ht']
  · simp only [ht, Bool.false_eq_true, if_false, singleton_append, cons_append, nil_append, map_cons, map_nil, sTok, el_span]
    change run (Spec.TTML.Tok.start nsTTML ['s', 'p', 'a', 'n'] (spanAttrs li) :: _) _ = _
    rw [run_step _ hstart]
    have htext : step (inP (mkS pPara doc buf) [['s', 'p', 'a', 'n']]
          { pst c done cur with span := some (li.style, ttmlAttrsOf li.attrs), seg := [] }) (.text li.text)
        = some (inP (mkS pPara doc buf) [['s', 'p', 'a', 'n']]
          { pst c done cur with span := some (li.style, ttmlAttrsOf li.attrs), seg := li.text }) := by
      rw [TTMLR.step_span_text _ _ _ li.style (ttmlAttrsOf li.attrs) rfl rfl, htxt]
      rfl
    rw [run_step _ htext, run_one (hstop li.text)]
    rfl

/-- `<br></br>` directly inside `<p>` ends the current line -/
theorem run_br (done : List (List GRun)) (cur : List GRun) :
    run (brTok.map sTok) (inP (mkS pPara doc buf) [] (pst c done cur))
      = some (inP (mkS pPara doc buf) [] (pst c (done ++ [cur]) [])) := by
  have hstart : step (inP (mkS pPara doc buf) [] (pst c done cur)) (.start nsTTML ['b', 'r'] [])
      = some (inP (mkS pPara doc buf) [['b', 'r']] { pst c done cur with done := done ++ [cur], cur := [], inBr := true }) := by
    rw [TTMLR.step_top_start _ _ rfl rfl (base_len doc buf)]
    have : TTMLR.nlAttr [] = false := rfl
    rw [this]
    rfl
  have hstop : step (inP (mkS pPara doc buf) [['b', 'r']] { pst c done cur with done := done ++ [cur], cur := [], inBr := true }) .stop
      = some (inP (mkS pPara doc buf) [] (pst c (done ++ [cur]) [])) := by
    rw [TTMLR.step_br_stop _ _ _ _ rfl (base_ne doc buf)]
    rfl
  unfold brTok
  simp only [map_cons, map_nil, sTok, el_br]
  rw [run_step _ hstart, run_one hstop]

theorem run_spans (l : List LItem) (h : ∀ li ∈ l, runW li = true) (done : List (List GRun)) :
    ∀ cur : List GRun, run (((l.map spanOf).flatten).map sTok) (inP (mkS pPara doc buf) [] (pst c done cur))
      = some (inP (mkS pPara doc buf) [] (pst c done (cur ++ l.map runG))) := by
  induction l with
  | nil => intro cur; simp [run]
  | cons li l ih =>
    intro cur
    rw [map_cons, flatten_cons, map_append, run_append_some _ (run_span doc buf c li (h li (by simp)) done cur),
      ih (fun x hx => h x (by simp [hx]))]
    simp

/-- the lines of a non-empty paragraph body -/
theorem run_bodyOf (l : Line) (ls : List Line) (h : ∀ l' ∈ l :: ls, ∀ li ∈ l'.items, runW li = true) :
    ∀ done : List (List GRun), ∃ d cu,
      run ((TTMLDoc.bodyOf (l :: ls)).map sTok) (inP (mkS pPara doc buf) [] (pst c done []))
        = some (inP (mkS pPara doc buf) [] (pst c d cu)) ∧
      d ++ [cu] = done ++ (l :: ls).map fun l' => l'.items.map runG := by
  induction ls generalizing l with
  | nil =>
    intro done
    refine ⟨done, l.items.map runG, ?_, by simp⟩
    have := run_spans doc buf c l.items (h l (by simp)) done []
    simpa [TTMLDoc.bodyOf, TTMLDoc.spansW] using this
  | cons l' ls ih =>
    intro done
    obtain ⟨d, cu, hr, hd⟩ := ih l' (fun x hx => h x (by simp [hx])) (done ++ [l.items.map runG])
    refine ⟨d, cu, ?_, by rw [hd]; simp⟩
    rw [TTMLDoc.bodyOf, map_append, map_append, TTMLDoc.spansW, append_assoc,
      run_append_some _ (run_spans doc buf c l.items (h l (by simp)) done []),
      nil_append, run_append_some _ (run_br doc buf c done _), hr]

end para

end TTMLW2
end Astisub
