import Astisub.Lemmas.SSARead2Step
import Astisub.Lemmas.SSA2Info

/-!
# Lemmas/SSARead2Lines — from the scanned lines to the decoder's lines: trimming, blank lines, the byte-order mark
-/

namespace Astisub
namespace SSAR
open Go SSA

/-- what `ReadFromSSA` makes of the final loop state -/
def finish (r : Res St) : Res Subs :=
  match r with
  | .ok st =>
    let styles := styleMap st.styles
    let ids := styles.map (·.name)
    .ok { items := (st.events.filter fun e => e.category = "Dialogue".toList).map (eventItem ids),
          styles := styles.map Style.toDef,
          metadata := st.info.metadata }
  | .err => .err
  | .unmodelled => .unmodelled

theorem read_eq_finish (lines : List Str) : SSA.read lines = finish (run {} lines) := by
  unfold SSA.read finish
  cases run {} lines <;> rfl

/-! ### the scanner's accumulator -/

theorem lines_split_snoc (b : Char) : ∀ (s acc : Str),
    Spec.SSA.splitLines s (acc ++ [b]) =
      match Spec.SSA.splitLines s acc with
      | [] => [[b]]
      | l :: ls => (b :: l) :: ls := by
  intro s acc
  induction s, acc using Spec.SSA.splitLines.induct with
  | case1 acc h =>
    have : acc = [] := by simpa using h
    subst this
    simp [Spec.SSA.splitLines]
  | case2 acc h =>
    rw [Spec.SSA.splitLines.eq_1, Spec.SSA.splitLines.eq_1]
    simp [h]
  | case3 rest acc ih => rw [Spec.SSA.splitLines.eq_2, Spec.SSA.splitLines.eq_2]; simp
  | case4 rest acc ih => rw [Spec.SSA.splitLines.eq_3, Spec.SSA.splitLines.eq_3]; simp
  | case5 rest acc h ih => rw [Spec.SSA.splitLines.eq_4 _ _ h, Spec.SSA.splitLines.eq_4 _ _ h]; simp
  | case6 c rest acc h1 h2 h3 ih =>
    rw [Spec.SSA.splitLines.eq_5 _ _ _ h1 h2 h3, Spec.SSA.splitLines.eq_5 _ _ _ h1 h2 h3]
    exact ih

theorem lines_split_cons (b : Char) (s : Str) (h2 : b ≠ '\n') (h3 : b ≠ '\r') :
    Spec.SSA.splitLines (b :: s) [] =
      match Spec.SSA.splitLines s [] with
      | [] => [[b]]
      | l :: ls => (b :: l) :: ls := by
  rw [Spec.SSA.splitLines.eq_5 _ _ _ (fun _ h _ => h3 h) h2 h3]
  exact lines_split_snoc b s []

theorem lines_split_head (c : Char) (t : Str) (l : Str) (ls : List Str)
    (h : Spec.SSA.splitLines (c :: t) [] = l :: ls) :
    ((c = '\n' ∨ c = '\r') → l = []) ∧ (c ≠ '\n' → c ≠ '\r' → l.head? = some c) := by
  by_cases h2 : c = '\n'
  · subst h2
    rw [Spec.SSA.splitLines.eq_3] at h
    simp at h
    simp [h.1.symm]
  · by_cases h3 : c = '\r'
    · subst h3
      have : l = [] := by
        cases t with
        | nil => rw [Spec.SSA.splitLines.eq_4 _ _ (by simp)] at h; simp at h; exact h.1
        | cons x xs =>
          by_cases hx : x = '\n'
          · subst hx; rw [Spec.SSA.splitLines.eq_2] at h; simp at h; exact h.1
          · rw [Spec.SSA.splitLines.eq_4 _ _ (by simp [hx])] at h; simp at h; exact h.1
      simp [this]
    · rw [lines_split_cons c t h2 h3] at h
      refine ⟨fun hc => by rcases hc with hc | hc <;> contradiction, fun _ _ => ?_⟩
      split at h <;> (simp at h; simp [← h.1])

/-! ### trimming around the byte-order mark -/

theorem lines_dropWhile_snoc (p : Char → Bool) (b : Char) (hb : p b = false) : ∀ a : Str,
    (a ++ [b]).dropWhile p = a.dropWhile p ++ [b] := by
  intro a
  induction a with
  | nil => simp [List.dropWhile, hb]
  | cons x xs ih =>
    by_cases hx : p x = true
    · simp [hx, ih]
    · simp [hx]

theorem lines_bom_not_space : isSpace (Char.ofNat 0xFEFF) = false := by decide

theorem lines_trimSpace_bom (l : Str) : trimSpace (Char.ofNat 0xFEFF :: l) = Char.ofNat 0xFEFF :: trimRight l := by
  unfold trimSpace trimLeft
  rw [List.dropWhile_cons, lines_bom_not_space]
  simp only [Bool.false_eq_true, ↓reduceIte]
  unfold trimRight
  rw [List.reverse_cons, lines_dropWhile_snoc _ _ lines_bom_not_space, List.reverse_append]
  rfl

theorem lines_trimPrefix_bom (l : Str) : trimPrefix bom (Char.ofNat 0xFEFF :: l) = l := by
  simp [trimPrefix, bom, dropPrefix?]

theorem lines_trimPrefix_bracket (l : Str) (h : l.head? = some '[') : trimPrefix bom l = l := by
  cases l with
  | nil => cases h
  | cons x xs =>
    simp only [List.head?_cons, Option.some.injEq] at h
    subst h
    have : ¬ (Char.ofNat 0xFEFF = '[') := by decide
    simp [trimPrefix, bom, dropPrefix?, this]

theorem lines_trimPrefix_nil : trimPrefix bom [] = [] := by
  simp [trimPrefix, bom, dropPrefix?]

theorem lines_trimSpace_noLeft (l : Str) (h : l = [] ∨ ∃ c, l.head? = some c ∧ isSpace c = false) :
    trimSpace l = trimRight l := by
  unfold trimSpace trimLeft
  rcases h with h | ⟨c, hc, hs⟩
  · subst h; rfl
  · cases l with
    | nil => cases hc
    | cons x xs =>
      simp only [List.head?_cons, Option.some.injEq] at hc
      subst hc
      rw [List.dropWhile_cons, hs]
      rfl

/-! ### the loops -/


theorem lines_stepL_nil (st : St) : stepL st [] = .ok { st with first := false } := rfl

/-- after the first line: the reader's loop is the clean loop over the trimmed non-blank lines -/
theorem lines_run_eq_runL : ∀ (raws : List Str) (st : St), st.first = false →
    run st raws = runL st ((raws.map trimSpace).filter fun l => !l.isEmpty) := by
  intro raws
  induction raws with
  | nil => intro st _; rfl
  | cons r rs ih =>
    intro st hf
    have hs : step st r = stepL st (trimSpace r) := by rw [step_eq, hf]; rfl
    rw [List.map_cons, List.filter_cons]
    by_cases he : (trimSpace r).isEmpty = true
    · have hn : trimSpace r = [] := by simpa using he
      simp only [he, Bool.not_true, Bool.false_eq_true, ↓reduceIte]
      rw [run, hs, hn, lines_stepL_nil, st_first_eta st hf]
      exact ih st hf
    · simp only [he, Bool.not_false, ↓reduceIte]
      rw [run, runL, hs]
      cases h : stepL st (trimSpace r) with
      | ok st' => exact ih st' (step_first st st' r (hs.trans h))
      | err => rfl
      | unmodelled => rfl

/-- `finish` does not see the `first` flag -/
theorem lines_finish_runL_first (st : St) (ls : List Str) :
    finish (runL { st with first := false } ls) = finish (runL st ls) := by
  cases ls with
  | nil => rfl
  | cons l ls => rfl

/-- the whole loop, first line included -/
theorem lines_finish_run_cons (st : St) (r0 : Str) (rs : List Str) :
    finish (run st (r0 :: rs)) =
      finish (runL st (((if st.first then trimPrefix bom (trimSpace r0) else trimSpace r0) :: rs.map trimSpace).filter
        fun l => !l.isEmpty)) := by
  generalize hl : (if st.first then trimPrefix bom (trimSpace r0) else trimSpace r0) = l0
  have hs : step st r0 = stepL st l0 := by rw [step_eq, hl]
  rw [List.filter_cons]
  by_cases he : l0.isEmpty = true
  · have hn : l0 = [] := by simpa using he
    simp only [he, Bool.not_true, Bool.false_eq_true, ↓reduceIte]
    rw [run, hs, hn, lines_stepL_nil]
    simp only
    rw [lines_run_eq_runL rs _ rfl]
    exact lines_finish_runL_first st _
  · simp only [he, Bool.not_false, ↓reduceIte]
    rw [run, runL, hs]
    cases h : stepL st l0 with
    | ok st' =>
      simp only
      rw [lines_run_eq_runL rs st' (step_first st st' r0 (hs.trans h))]
    | err => rfl
    | unmodelled => rfl

/-- no byte-order mark -/
theorem lines_finish_noBom (text : Str) (hs : stripBom text = text)
    (hfirst : ∀ l ls, specLines text = l :: ls → l.head? = some '[') :
    finish (run {} (Spec.SSA.splitLines text [])) = finish (runL {} (specLines text)) := by
  unfold specLines at hfirst ⊢
  rw [hs] at hfirst ⊢
  cases hr : Spec.SSA.splitLines text [] with
  | nil => rfl
  | cons r0 rs =>
    rw [hr] at hfirst
    rw [lines_finish_run_cons]
    simp only [↓reduceIte, List.map_cons]
    by_cases he : (trimSpace r0).isEmpty = true
    · have hn : trimSpace r0 = [] := by simpa using he
      rw [hn, lines_trimPrefix_nil]
    · have := hfirst (trimSpace r0) ((rs.map trimSpace).filter fun l => !l.isEmpty)
        (by rw [List.map_cons, List.filter_cons]; simp [he])
      rw [lines_trimPrefix_bracket _ this]

/-- the line after a byte-order mark does not start with a blank -/
theorem lines_after_bom (c : Char) (t l : Str) (ls : List Str)
    (hb : bomOk (Char.ofNat 0xFEFF :: c :: t) = true)
    (h : Spec.SSA.splitLines (c :: t) [] = l :: ls) : trimSpace l = trimRight l := by
  apply lines_trimSpace_noLeft
  have hh := lines_split_head c t l ls h
  simp only [bomOk, decide_true, Bool.not_true, Bool.false_or, Bool.or_eq_true, Bool.not_eq_true',
    decide_eq_true_eq] at hb
  by_cases hc : c = '\n' ∨ c = '\r'
  · exact .inl (hh.1 hc)
  · have h2 : c ≠ '\n' := fun e => hc (.inl e)
    have h3 : c ≠ '\r' := fun e => hc (.inr e)
    refine .inr ⟨c, hh.2 h2 h3, ?_⟩
    rcases hb with (hb | hb) | hb
    · exact hb
    · exact absurd hb h2
    · exact absurd hb h3

/-- with a byte-order mark -/
theorem lines_finish_bom (t : Str) (hb : bomOk (Char.ofNat 0xFEFF :: t) = true) :
    finish (run {} (Spec.SSA.splitLines (Char.ofNat 0xFEFF :: t) [])) =
      finish (runL {} (specLines (Char.ofNat 0xFEFF :: t))) := by
  have hs : stripBom (Char.ofNat 0xFEFF :: t) = t := by simp [stripBom]
  unfold specLines
  rw [hs, lines_split_cons _ t (by decide) (by decide)]
  cases hr : Spec.SSA.splitLines t [] with
  | nil =>
    simp only
    rw [lines_finish_run_cons]
    simp only [↓reduceIte]
    rw [lines_trimSpace_bom, lines_trimPrefix_bom]
    rfl
  | cons l ls =>
    simp only
    rw [lines_finish_run_cons]
    simp only [↓reduceIte]
    rw [lines_trimSpace_bom, lines_trimPrefix_bom, List.map_cons]
    cases t with
    | nil => simp [Spec.SSA.splitLines] at hr
    | cons c t' => rw [lines_after_bom c t' l ls hb hr]

/-- **Lines.** The reader's loop over the scanned lines (`Spec.SSA.splitLines text []`, what the scanner delivers)
    ends like the clean loop `runL` over the decoder's lines (`specLines text`: byte-order mark removed, trimmed, blank
    lines dropped), provided a byte-order mark is not followed by blanks (`bomOk`) and the first non-blank line starts
    with `[` (true whenever the decoder accepts the document) -/
theorem finish_run_lines (text : Str) (hb : bomOk text = true)
    (hfirst : ∀ l ls, specLines text = l :: ls → l.head? = some '[') :
    finish (run {} (Spec.SSA.splitLines text [])) = finish (runL {} (specLines text)) := by
  cases text with
  | nil => exact lines_finish_noBom [] rfl hfirst
  | cons c t =>
    by_cases hc : c = Char.ofNat 0xFEFF
    · subst hc; exact lines_finish_bom t hb
    · exact lines_finish_noBom (c :: t) (by simp [stripBom, hc]) hfirst

end SSAR
end Astisub
