import Astisub.Lemmas.VTT3WTextF

/-!
# Lemmas/VTT3WTextG — `chunksOK` over the pieces of a written line

Every piece of text of a written line (between two `<…>`s) is a concatenation of escaped texts of runs,
`escapeHTML u` with `u` empty or visible: blank neither before nor after decoding the character references.
-/

namespace Astisub
namespace VTT3W
open Go Spec.VTT List
open VTT (runTags runOk runColor tsPart itemsBytes lineBody)
open VTTRead (chunkOK chunksOK)
open SRT (escapeHTML unescapeHTML)

theorem chunksOK_nil (b : Bool) (acc : Str) : chunksOK b [] acc = chunkOK acc.reverse := by
  cases b <;> simp only [chunksOK]

theorem chunksOK_false_cons (c : Char) (cs acc : Str) :
    chunksOK false (c :: cs) acc =
      if c = '<' then chunkOK acc.reverse && chunksOK true cs [] else chunksOK false cs (c :: acc) := by
  simp only [chunksOK]

theorem chunksOK_true_cons (c : Char) (cs acc : Str) :
    chunksOK true (c :: cs) acc = if c = '>' then chunksOK false cs [] else chunksOK true cs [] := by
  simp only [chunksOK]

theorem chunksOK_text (x : Str) (hx : ∀ c ∈ x, c ≠ '<') :
    ∀ (r acc : Str), chunksOK false (x ++ r) acc = chunksOK false r (x.reverse ++ acc) := by
  induction x with
  | nil => intro r acc; rfl
  | cons c x ih =>
    intro r acc
    rw [cons_append, chunksOK_false_cons, if_neg (hx c (by simp)), ih (fun d hd => hx d (by simp [hd]))]
    simp

theorem chunksOK_body (body after : Str) (hb : ∀ c ∈ body, c ≠ '>') :
    ∀ acc : Str, chunksOK true (body ++ '>' :: after) acc = chunksOK false after [] := by
  induction body with
  | nil => intro acc; rw [nil_append, chunksOK_true_cons, if_pos rfl]
  | cons c body ih =>
    intro acc
    rw [cons_append, chunksOK_true_cons, if_neg (hb c (by simp))]
    exact ih (fun d hd => hb d (by simp [hd])) []

theorem chunksOK_tag (body after acc : Str) (hb : ∀ c ∈ body, c ≠ '>') :
    chunksOK false ('<' :: (body ++ '>' :: after)) acc = (chunkOK acc.reverse && chunksOK false after []) := by
  rw [chunksOK_false_cons, if_pos rfl, chunksOK_body body after hb]

/-! ### a piece of text -/

/-- empty or visible -/
def GoodU (u : Str) : Prop := u = [] ∨ trimSpace u ≠ []

theorem escape_append (a b : Str) : escapeHTML (a ++ b) = escapeHTML a ++ escapeHTML b := by
  rw [C01.escape_eq_flatMap, C01.escape_eq_flatMap, C01.escape_eq_flatMap, flatMap_append]

theorem escape_nil : escapeHTML [] = [] := by
  rw [C01.escape_eq_flatMap]; rfl

theorem chunkOK_nil : chunkOK [] = true := by decide

theorem chunkOK_esc (u : Str) (h : GoodU u) : chunkOK (escapeHTML u) = true := by
  rcases h with h | h
  · subst h; rw [escape_nil]; exact chunkOK_nil
  · unfold chunkOK
    rw [C01.unescape_escape, decide_eq_false h, decide_eq_false (VTT.escape_nonblank h)]
    rfl

theorem goodU_append (u t : Str) (h : trimSpace t ≠ []) : GoodU (u ++ t) := by
  right
  obtain ⟨c, hc, hs⟩ := VTT.exists_nonspace h
  exact VTT.trimSpace_ne_nil c (by simp [hc]) hs

/-- the `chunksOK` property of a rest of the line: from any piece `escapeHTML u` read so far -/
def Q4 (r : Str) : Prop := ∀ u, GoodU u → chunksOK false r (escapeHTML u).reverse = true

theorem Q4_nil : Q4 [] := by
  intro u hu
  rw [chunksOK_nil, reverse_reverse]
  exact chunkOK_esc u hu

theorem Q4_tag (body r : Str) (hb : ∀ c ∈ body, c ≠ '>') (hr : Q4 r) : Q4 ('<' :: (body ++ '>' :: r)) := by
  intro u hu
  rw [chunksOK_tag body r _ hb, reverse_reverse, chunkOK_esc u hu, Bool.true_and]
  have := hr [] (Or.inl rfl)
  rw [escape_nil] at this
  exact this

theorem Q4_open (t : VTT.Tag) (r : Str) (h : WT t) (hr : Q4 r) : Q4 (VTT.Tag.startTag t ++ r) := by
  have w := VTT.wf_facts h.1
  have e : VTT.Tag.startTag t ++ r = '<' :: (startBody t ++ '>' :: r) := by
    rw [startTag_body t w.name_ne]; simp
  rw [e]
  exact Q4_tag _ r (fun c hc => (startBody_chars t w c hc).2.1) hr

theorem Q4_close (t : VTT.Tag) (r : Str) (h : WT t) (hr : Q4 r) : Q4 (VTT.Tag.endTag t ++ r) := by
  have w := VTT.wf_facts h.1
  have e : VTT.Tag.endTag t ++ r = '<' :: (('/' :: t.name) ++ '>' :: r) := by
    simp [VTT.Tag.endTag, w.name_ne, litClose]
  rw [e]
  refine Q4_tag _ r ?_ hr
  intro c hc
  rcases mem_cons.mp hc with e | hc
  · subst e; decide
  · exact (alnum_safe (w.alnum c hc)).1.2.1

theorem Q4_ts (li : LItem) (r : Str) (h : WI li) (hr : Q4 r) : Q4 (tsPart li ++ r) := by
  unfold tsPart
  split
  · have e : VTT.tsText li.startAt ++ r = '<' :: (Duration.formatVTT li.startAt ++ '>' :: r) := by
      simp [VTT.tsText]
    rw [e]
    have hch := format_tagchars li.startAt h.1 h.2
    exact Q4_tag _ r (fun c hc => timeChar_ne (hch c hc) '>' (by decide) (by decide) (by decide)) hr
  · simpa using hr

theorem Q4_text (t r : Str) (h : trimSpace t ≠ []) (hr : Q4 r) : Q4 (escapeHTML t ++ r) := by
  intro u hu
  rw [chunksOK_text _ (fun c hc e => C01.escape_no_lt t (e ▸ hc)), ← reverse_append, ← escape_append]
  exact hr (u ++ t) (goodU_append u t h)

theorem Q4_voice (v r : Str) (hv : VTT.voiceOk v = true) (hr : Q4 r) :
    Q4 (("<v ".toList ++ v ++ ['>']) ++ r) := by
  rw [voice_tag_eq]
  exact Q4_tag _ r (fun c hc => (voice_chars v hv c hc).1) hr

end VTT3W
end Astisub
