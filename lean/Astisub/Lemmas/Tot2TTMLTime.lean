import Astisub.Lemmas.Tot2Duration
import Astisub.Model.TTML

/-!
# Lemmas/Tot2TTMLTime — `TTMLInDuration.UnmarshalText` / `duration` (`ttml.go`) with Go's run-time checks explicit

Sites of `UnmarshalText`:

* `matches[1]`, `matches[2]`, `matches[3]` of `ttmlRegexpOffsetTime.FindStringSubmatch(text)` (behind `matches != nil`),
  `matches[1][:len(matches[1])-len(matches[2])]` and `matches[2][1:]` (behind `len(matches[2]) > 0`);
* `big.Int.Quo` by `10^len(fraction)` in `ttmlOffsetDuration` (division by zero panics in `math/big`);
* `indexes[0]`, `indexes[1]` of `ttmlRegexpClockTimeFrames.FindStringIndex(text)` (behind `indexes != nil`),
  `text[indexes[0]+1 : indexes[1]]`, `text[:indexes[0]]`;
* `parseDuration` (`Tot.Dur.parseC`).

Sites of `duration` / `ttmlUnitsDuration`: `big.Int.Quo` by `10^len(fraction) * rate` — behind the guards
`d.tickrate > 0`, `d.framerate > 0`, which are proved necessary.

The model's regular-expression recognisers answer the *parts* (`offsetTime`: integer digits, fraction
digits, metric; `clockFrames`: text before the colon, digits after it).  What the Go code receives is
the submatch slice / index pair; `offsetMatches` and `clockIndexes` rebuild those from the parts
(group 2 is `"." ++ fraction` or empty, group 1 is the integer digits followed by group 2; the match
of `\:[\d]+$` runs from the colon to the end of the text) and the checked code takes them apart again
with Go's index and slice expressions.
-/

namespace Astisub
namespace Tot
namespace TTML
open Go Astisub.TTML

/-! ## offset times -/

/-- group 2 of `^(\d+(\.\d+)?)(h|m|s|ms|f|t)$` -/
def group2 (fp : Str) : Str := if fp.isEmpty then [] else '.' :: fp

/-- `ttmlRegexpOffsetTime.FindStringSubmatch(text)`: `none` = nil, else whole match and groups 1–3 -/
def offsetMatches (s : Str) : Option (List Str) :=
  (offsetTime s).map fun (ip, fp, m) => [s, ip ++ group2 fp, group2 fp, m]

/-- the head of `UnmarshalText`: integer, fraction and metric out of the submatch slice -/
def offsetPartsC (ms : List Str) : Chk (Str × Str × Str) := do
  let m1 ← idx ms 1
  let m2 ← idx ms 2
  let (integer, fraction) ←
    (if m2.length > 0 then do
      let i ← slcToI m1 ((m1.length : Int) - (m2.length : Int))
      let f ← slcFrom m2 1
      pure (i, f)
    else pure (m1, ([] : Str)) : Chk (Str × Str))
  let metric ← idx ms 3
  pure (integer, fraction, metric)

theorem offsetPartsC_eq (s ip fp m : Str) :
    offsetPartsC [s, ip ++ group2 fp, group2 fp, m] = .ok (ip, fp, m) := by
  unfold offsetPartsC
  simp only [idx, List.getElem?_cons_zero, List.getElem?_cons_succ, ok_bind]
  cases fp with
  | nil => simp [group2]
  | cons c cs =>
    have h2 : group2 (c :: cs) = '.' :: c :: cs := rfl
    rw [h2]
    have hlen : ((ip ++ '.' :: c :: cs).length : Int) - (('.' :: c :: cs).length : Int) = (ip.length : Int) := by
      simp only [List.length_append, List.length_cons]; omega
    rw [if_pos (by simp), hlen, slcToI_ok (by simp), slcFrom_ok (by simp)]
    simp

/-- `ttmlOffsetDuration` with the `big.Int` quotient checked -/
def offsetDurationC (ip fp : Str) (tb : Int) : Chk (Option Int) := do
  let v ← tdivC ((natOfDigits (ip ++ fp) : Int) * tb) ((10 : Int) ^ fp.length)
  pure (if v ≤ 9223372036854775807 then some v else none)

theorem ten_pow_pos (k : Nat) : (0 : Int) < (10 : Int) ^ k := Int.pow_pos (by decide)

theorem offsetDurationC_eq (ip fp : Str) (tb : Int) (htb : 0 ≤ tb) :
    offsetDurationC ip fp tb = .ok (offsetDuration ip fp tb) := by
  unfold offsetDurationC offsetDuration
  have hp := ten_pow_pos fp.length
  rw [tdivC_ok (by omega)]
  simp only [ok_bind, pure_eq]
  rw [Int.tdiv_eq_ediv_of_nonneg (Int.mul_nonneg (Int.natCast_nonneg _) htb)]

theorem timebase_nonneg (m : Str) : 0 ≤ timebase m := by
  unfold timebase
  split
  · decide
  · split
    · decide
    · split <;> decide

/-! ## clock times with frames -/

/-- `ttmlRegexpClockTimeFrames.FindStringIndex(text)`: `none` = nil, else start and end of the match -/
def clockIndexes (s : Str) : Option (List Nat) :=
  (clockFrames s).map fun (pre, _) => [pre.length, s.length]

theorem dropWhile_head_false {α} (p : α → Bool) : ∀ (l : List α) (x : α) (xs : List α),
    l.dropWhile p = x :: xs → p x = false := by
  intro l
  induction l with
  | nil => intro x xs h; simp at h
  | cons a as ih =>
    intro x xs h
    rw [List.dropWhile_cons] at h
    split at h
    · exact ih x xs h
    · rename_i hp
      injection h with h1 _
      subst h1
      simpa using hp

/-- the recogniser splits the text: before the colon, the colon, the digits -/
theorem clockFrames_split {s pre suf : Str} (h : clockFrames s = some (pre, suf)) : s = pre ++ ':' :: suf := by
  unfold clockFrames at h
  simp only at h
  split at h
  · cases h
  · rename_i x pre' hd
    split at h
    · injection h with h
      injection h with h1 h2
      have hx : (x != ':') = false := dropWhile_head_false (fun c => c != ':') _ _ _ hd
      have hx' : x = ':' := by simpa using hx
      have hs : s.reverse = s.reverse.takeWhile (fun c => c != ':') ++ s.reverse.dropWhile (fun c => c != ':') :=
        (List.takeWhile_append_dropWhile).symm
      rw [hd] at hs
      have := congrArg List.reverse hs
      rw [List.reverse_reverse, List.reverse_append, List.reverse_cons] at this
      rw [this, h1, h2, hx']
      simp
    · cases h

theorem slc_suffix {α} (pre : List α) (c : α) (suf : List α) :
    ((pre ++ c :: suf).drop (pre.length + 1)).take ((pre ++ c :: suf).length - (pre.length + 1)) = suf := by
  have h : pre ++ c :: suf = (pre ++ [c]) ++ suf := by simp
  have hl : pre.length + 1 = (pre ++ [c]).length := by simp
  rw [h, hl, List.drop_left]
  apply List.take_of_length_le
  simp only [List.length_append, List.length_cons, List.length_nil]
  omega

/-! ## `UnmarshalText` -/

/-- the `parseDuration` call at the end of `UnmarshalText` -/
def plainC (text : Str) : Chk (Option InDur) := do
  let d ← Dur.parseC text '.' 3
  pure (d.map fun d => ({ d := d } : InDur))

/-- **`TTMLInDuration.UnmarshalText` with every index / slice expression and the `big.Int` quotient checked** -/
def timeExprC (text : Str) : Chk (Option InDur) :=
  match offsetMatches text with
  | some ms => do
    let (ip, fp, m) ← offsetPartsC ms
    if m = "t".toList then pure ((atoi ip).map fun v => ({ ticks := v, ticksFraction := fp } : InDur))
    else if m = "f".toList then pure ((atoi ip).map fun v => ({ frames := v, framesFraction := fp } : InDur))
    else do
      let v ← offsetDurationC ip fp (timebase m)
      pure (v.map fun v => ({ d := v } : InDur))
  | none =>
    match clockIndexes text with
    | some indexes =>
      if countColons text = 3 then do
        let i0 ← idx indexes 0
        let i1 ← idx indexes 1
        let fr ← slc text (i0 + 1) i1
        match atoi fr with
        | none => pure none
        | some f => do
          let pre ← slcTo text i0
          let d ← Dur.parseC (pre ++ ".000".toList) '.' 3
          pure (d.map fun d => ({ d := d, frames := f } : InDur))
      else plainC text
    | none => plainC text

theorem plainC_eq (text : Str) : plainC text = .ok ((Duration.parse text '.' 3).map fun d => ({ d := d } : InDur)) := by
  unfold plainC; rw [Dur.parseC_eq]; rfl

/-- never panics and is the model, for every attribute text -/
theorem timeExprC_eq (text : Str) : timeExprC text = .ok (timeExpr text) := by
  unfold timeExprC timeExpr offsetMatches
  cases ho : offsetTime text with
  | some p =>
    obtain ⟨ip, fp, m⟩ := p
    simp only [Option.map_some, offsetPartsC_eq, ok_bind]
    split
    · rfl
    · split
      · rfl
      · rw [offsetDurationC_eq _ _ _ (timebase_nonneg m)]; rfl
  | none =>
    simp only [Option.map_none]
    unfold clockIndexes
    cases hc : clockFrames text with
    | none =>
      simp only [Option.map_none, plainC_eq, ite_self]
    | some q =>
      obtain ⟨pre, suf⟩ := q
      simp only [Option.map_some]
      by_cases h3 : countColons text = 3
      · rw [if_pos h3, if_pos h3]
        have hs := clockFrames_split hc
        simp only [idx, List.getElem?_cons_zero, List.getElem?_cons_succ, ok_bind]
        have h1 : slc text (pre.length + 1) text.length = .ok suf := by
          rw [slc_ok (by rw [hs]; simp) (Nat.le_refl _)]
          congr 1
          rw [hs]
          exact slc_suffix pre ':' suf
        have h2 : slcTo text pre.length = .ok pre := by
          rw [slcTo_ok (by rw [hs]; simp)]
          congr 1
          rw [hs]; simp
        rw [h1]
        simp only [ok_bind]
        cases atoi suf with
        | none => rfl
        | some f =>
          simp only [h2, ok_bind, Dur.parseC_eq]
          rfl
      · rw [if_neg h3, if_neg h3, plainC_eq]

/-! ## `duration` -/

/-- `ttmlUnitsDuration` with the `big.Int` quotient checked -/
def unitsDurationC (n : Int) (fp : Str) (rate : Int) : Chk Int :=
  tdivC ((n * (10 : Int) ^ fp.length + (natOfDigits fp : Int)) * 1000000000) ((10 : Int) ^ fp.length * rate)

theorem unitsDurationC_eq (n : Int) (fp : Str) (rate : Int) (hr : rate ≠ 0) :
    unitsDurationC n fp rate = .ok (unitsDuration n fp rate) := by
  unfold unitsDurationC unitsDuration
  have hp := ten_pow_pos fp.length
  exact tdivC_ok (Int.mul_ne_zero (by omega) hr)

/-- the guards `d.tickrate > 0` / `d.framerate > 0` are necessary: at rate 0 the quotient panics -/
theorem unitsDurationC_zero (n : Int) (fp : Str) : unitsDurationC n fp 0 = .error .divZero := by
  unfold unitsDurationC
  rw [Int.mul_zero]
  rfl

/-- `TTMLInDuration.duration()` -/
def durationC (d : InDur) (framerate tickrate : Int) : Chk Int :=
  if (d.ticks > 0 ∨ d.ticksFraction ≠ []) ∧ tickrate > 0 then unitsDurationC d.ticks d.ticksFraction tickrate
  else if (d.frames > 0 ∨ d.framesFraction ≠ []) ∧ framerate > 0 then do
    let u ← unitsDurationC d.frames d.framesFraction framerate
    pure (d.d + u)
  else pure d.d

/-- never panics and is the model, for every parsed value and every frame / tick rate (zero and negative included) -/
theorem durationC_eq (d : InDur) (framerate tickrate : Int) :
    durationC d framerate tickrate = .ok (duration d framerate tickrate) := by
  unfold durationC duration
  split
  · rename_i h
    exact unitsDurationC_eq _ _ _ (by omega)
  · split
    · rename_i h
      rw [unitsDurationC_eq _ _ _ (by omega)]
      rfl
    · rfl

/-- the pinned shape without the rate guards: ticks present ⇒ divide by the tick rate -/
def durationU (d : InDur) (tickrate : Int) : Chk Int :=
  if d.ticks > 0 ∨ d.ticksFraction ≠ [] then unitsDurationC d.ticks d.ticksFraction tickrate else pure d.d

/-- without `tickrate > 0`, a tick count in a document without `ttp:tickRate` divides by zero -/
theorem durationU_panics (d : InDur) (h : d.ticks > 0 ∨ d.ticksFraction ≠ []) : durationU d 0 = .error .divZero := by
  unfold durationU
  rw [if_pos h]
  exact unitsDurationC_zero _ _

example : timeExprC "1.5s".toList = .ok (some { d := 1500000000 }) := by rfl
example : timeExprC "00:00:01:12".toList = .ok (some { d := 1000000000, frames := 12 }) := by rfl
example : timeExprC "10t".toList = .ok (some { ticks := 10 }) := by rfl

end TTML
end Tot
end Astisub
