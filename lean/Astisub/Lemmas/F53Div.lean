import Astisub.Lemmas.F53Round

/-!
# Lemmas/F53Div — `Dy.div` is correctly rounded (the sticky-bit argument)

`Dy.div` computes `q = ⌊n·2^k / d⌋` with `q ≥ 2⁵⁵`, appends one more bit that is set iff the
remainder is non-zero, and rounds. `sticky` shows that rounding `2q + (1 if r ≠ 0)` gives the same
result as rounding the exact `2q + f` with `0 ≤ f < 2`, `f = 0 ↔ r = 0`: the appended bit sits at
least two positions below the rounding position, so it can neither create nor hide a tie.
-/

namespace Astisub
namespace F53
open Go

/-- rounding after replacing a fractional tail `0 < f < 2` by the sticky bit `1` -/
theorem sticky_pos (q : ℕ) (f : ℚ) (hq : 2 ^ 53 ≤ q) (hf0 : 0 < f) (hf2 : f < 2) :
    rnd (2 * (q : ℚ) + f) = rnd (((2 * q + 1 : ℕ) : ℚ)) := by
  -- the common binade
  have hq0 : 2 * q ≠ 0 := by
    have : 0 < 2 ^ 53 := by positivity
    omega
  have lb := bitlen_lb hq0
  have ub := bitlen_ub (2 * q)
  have hbl : ¬ bitlen (2 * q) ≤ 54 := by
    rw [bitlen_le_iff]
    have : 2 ^ 54 = 2 * 2 ^ 53 := by norm_num
    omega
  obtain ⟨s, hs⟩ : ∃ s : ℕ, bitlen (2 * q) = s + 2 + 53 := ⟨bitlen (2 * q) - 55, by omega⟩
  rw [hs] at lb ub
  have e1 : s + 2 + 53 - 1 = s + 54 := by omega
  have e2 : 2 ^ (s + 2 + 53) = 2 * 2 ^ (s + 54) := by
    rw [show s + 2 + 53 = (s + 54) + 1 by omega, pow_succ]; ring
  have e3 : 2 ^ (s + 54) = 2 ^ s * 2 ^ 54 := by rw [pow_add]
  rw [e1] at lb
  rw [e2] at ub
  rw [e3] at lb ub
  generalize hh : 2 ^ s = h at lb ub
  have hhpos : 0 < h := by rw [← hh]; positivity
  -- h = 2^s ; P = 2^(s+2) = 4h ; 2^(s+54) = h * 2^54
  have lbq : (h : ℚ) * 2 ^ 54 ≤ 2 * (q : ℚ) := by exact_mod_cast lb
  have ubq : 2 * (q : ℚ) + 2 ≤ 2 * ((h : ℚ) * 2 ^ 54) := by
    have : 2 * q + 2 ≤ 2 * (h * 2 ^ 54) := by omega
    exact_mod_cast this
  have hP : (2 : ℚ) ^ ((s + 2 : ℕ) : ℤ) = 4 * (h : ℚ) := by
    rw [zpow_natCast, pow_add, ← hh]; push_cast; ring
  have hlo : (2 : ℚ) ^ (((s + 2 : ℕ) : ℤ) + 52) = (h : ℚ) * 2 ^ 54 := by
    rw [p2_add, hP]; norm_num; ring
  have hhi : (2 : ℚ) ^ (((s + 2 : ℕ) : ℤ) + 53) = 2 * ((h : ℚ) * 2 ^ 54) := by
    rw [p2_add, hP]; norm_num; ring
  have hhq : (0 : ℚ) < h := by exact_mod_cast hhpos
  -- W = 2q+1
  set z : ℤ := rne (((2 * q + 1 : ℕ) : ℚ) / 2 ^ ((s + 2 : ℕ) : ℤ)) with hzdef
  have hz : IsRNE (((2 * q + 1 : ℕ) : ℚ) / 2 ^ ((s + 2 : ℕ) : ℤ)) z := rne_spec _
  have hW1 : (2 : ℚ) ^ (((s + 2 : ℕ) : ℤ) + 52) ≤ |((2 * q + 1 : ℕ) : ℚ)| := by
    rw [hlo, abs_of_nonneg (by positivity)]; push_cast; linarith
  have hW2 : |((2 * q + 1 : ℕ) : ℚ)| < (2 : ℚ) ^ (((s + 2 : ℕ) : ℤ) + 53) := by
    rw [hhi, abs_of_nonneg (by positivity)]; push_cast; linarith
  have hV1 : (2 : ℚ) ^ (((s + 2 : ℕ) : ℤ) + 52) ≤ |2 * (q : ℚ) + f| := by
    rw [hlo, abs_of_nonneg (by positivity)]; linarith
  have hV2 : |2 * (q : ℚ) + f| < (2 : ℚ) ^ (((s + 2 : ℕ) : ℤ) + 53) := by
    rw [hhi, abs_of_nonneg (by positivity)]; linarith
  rw [rnd_eq hW1 hW2 hz]
  apply rnd_eq hV1 hV2
  -- transfer the nearest-even property
  have hPpos : (0 : ℚ) < 2 ^ ((s + 2 : ℕ) : ℤ) := p2_pos _
  rw [isRNE_div_iff hPpos] at hz ⊢
  rw [hP] at hz ⊢
  obtain ⟨hz1, _⟩ := hz
  have hz1' := abs_le.mp hz1
  -- integer form: -2h ≤ 2q + 1 - 4hz ≤ 2h
  generalize ht : (h : ℤ) * z = t at *
  have htq : (h : ℚ) * (z : ℚ) = (t : ℚ) := by rw [← ht]; push_cast; ring
  have i1 : -(2 * (h : ℤ)) ≤ 2 * (q : ℤ) + 1 - 4 * t := by
    have : ((-(2 * (h : ℤ)) : ℤ) : ℚ) ≤ ((2 * (q : ℤ) + 1 - 4 * t : ℤ) : ℚ) := by
      push_cast; rw [← htq]; push_cast at hz1'; linarith [hz1'.1]
    exact_mod_cast this
  have i2 : 2 * (q : ℤ) + 1 - 4 * t ≤ 2 * (h : ℤ) := by
    have : ((2 * (q : ℤ) + 1 - 4 * t : ℤ) : ℚ) ≤ ((2 * (h : ℤ) : ℤ) : ℚ) := by
      push_cast; rw [← htq]; push_cast at hz1'; linarith [hz1'.2]
    exact_mod_cast this
  have j1 : -(2 * (h : ℤ)) ≤ 2 * (q : ℤ) - 4 * t := by omega
  have j2 : 2 * (q : ℤ) - 4 * t + 2 ≤ 2 * (h : ℤ) := by omega
  have j1q : -(2 * (h : ℚ)) ≤ 2 * (q : ℚ) - 4 * (t : ℚ) := by exact_mod_cast j1
  have j2q : 2 * (q : ℚ) - 4 * (t : ℚ) + 2 ≤ 2 * (h : ℚ) := by exact_mod_cast j2
  have hlt : |2 * (q : ℚ) + f - (z : ℚ) * (4 * (h : ℚ))| < 4 * (h : ℚ) / 2 := by
    rw [abs_lt]
    have : (z : ℚ) * (4 * (h : ℚ)) = 4 * (t : ℚ) := by rw [← htq]; ring
    rw [this]
    constructor <;> linarith
  exact ⟨le_of_lt hlt, fun h => absurd h (ne_of_lt hlt)⟩

/-- the sticky-bit lemma -/
theorem sticky (q : ℕ) (f : ℚ) (hq : 2 ^ 53 ≤ q) (hf0 : 0 ≤ f) (hf2 : f < 2) :
    rnd (2 * (q : ℚ) + f) = rnd (((2 * q + (if f = 0 then 0 else 1) : ℕ) : ℚ)) := by
  by_cases hf : f = 0
  · subst hf; simp
  · rw [if_neg hf]
    exact sticky_pos q f hq (lt_of_le_of_ne hf0 (Ne.symm hf)) hf2

/-- the quotient has at least 56 bits -/
theorem div_q_big (n d : ℕ) (hn : n ≠ 0) (hd : d ≠ 0) :
    2 ^ 55 ≤ n * 2 ^ (56 + bitlen d - bitlen n) / d := by
  have lb := bitlen_lb hn
  have ub := bitlen_ub d
  have hbn := bitlen_ne_zero hn
  rw [Nat.le_div_iff_mul_le (Nat.pos_of_ne_zero hd)]
  obtain ⟨a, ha⟩ : ∃ a, bitlen n = a + 1 := ⟨bitlen n - 1, by omega⟩
  rw [ha] at lb ⊢
  simp only [Nat.add_sub_cancel] at lb
  generalize bitlen d = bd at *
  calc 2 ^ 55 * d ≤ 2 ^ 55 * 2 ^ bd := Nat.mul_le_mul_left _ (le_of_lt ub)
    _ = 2 ^ (55 + bd) := by rw [pow_add]
    _ ≤ 2 ^ (a + (56 + bd - (a + 1))) := Nat.pow_le_pow_right (by norm_num) (by omega)
    _ = 2 ^ a * 2 ^ (56 + bd - (a + 1)) := by rw [pow_add]
    _ ≤ n * 2 ^ (56 + bd - (a + 1)) := Nat.mul_le_mul_right _ lb

theorem val_div_sign (a b : ℤ) :
    (a : ℚ) / (b : ℚ)
      = (if ((decide (a < 0)) != (decide (b < 0))) then -1 else 1) * ((a.natAbs : ℚ) / (b.natAbs : ℚ)) := by
  have ea : (a : ℚ) = if a < 0 then -(a.natAbs : ℚ) else (a.natAbs : ℚ) := by
    split
    · have : a = -(a.natAbs : ℤ) := by omega
      conv_lhs => rw [this]
      push_cast; simp
    · have : a = (a.natAbs : ℤ) := by omega
      conv_lhs => rw [this]
      push_cast; simp
  have eb : (b : ℚ) = if b < 0 then -(b.natAbs : ℚ) else (b.natAbs : ℚ) := by
    split
    · have : b = -(b.natAbs : ℤ) := by omega
      conv_lhs => rw [this]
      push_cast; simp
    · have : b = (b.natAbs : ℤ) := by omega
      conv_lhs => rw [this]
      push_cast; simp
  rw [ea, eb]
  by_cases h1 : a < 0 <;> by_cases h2 : b < 0 <;> simp [h1, h2, div_neg, neg_div]

/-- **`Dy.div` is correctly rounded**: the value is `rnd` of the exact quotient (0 when the
    divisor is 0, as in ℚ). -/
theorem div_val (x y : Dy) : (Dy.div x y).val = rnd (x.val / y.val) := by
  unfold Dy.div
  by_cases h0 : x.m.natAbs = 0 ∨ y.m.natAbs = 0
  · simp only [h0, ↓reduceIte]
    have : x.val / y.val = 0 := by
      rcases h0 with h | h
      · have : x.m = 0 := Int.natAbs_eq_zero.mp h
        unfold Dy.val; rw [this]; simp
      · have : y.m = 0 := Int.natAbs_eq_zero.mp h
        unfold Dy.val; rw [this]; simp
    rw [this, rnd_zero]; simp [Dy.val]
  · simp only [h0, ↓reduceIte]
    have hn : x.m.natAbs ≠ 0 := fun h => h0 (Or.inl h)
    have hd : y.m.natAbs ≠ 0 := fun h => h0 (Or.inr h)
    have hym : y.m ≠ 0 := fun h => hd (by rw [h]; rfl)
    rw [round_val]
    have hqb := div_q_big _ _ hn hd
    generalize hk : 56 + bitlen y.m.natAbs - bitlen x.m.natAbs = k at *
    have hdm := Nat.div_add_mod (x.m.natAbs * 2 ^ k) y.m.natAbs
    have hlt := Nat.mod_lt (x.m.natAbs * 2 ^ k) (Nat.pos_of_ne_zero hd)
    generalize hq : x.m.natAbs * 2 ^ k / y.m.natAbs = q at *
    generalize hr : x.m.natAbs * 2 ^ k % y.m.natAbs = r at *
    generalize hnn : x.m.natAbs = n at *
    generalize hdd : y.m.natAbs = d at *
    have hdq : (0 : ℚ) < d := by exact_mod_cast Nat.pos_of_ne_zero hd
    -- the exact quotient, scaled
    set f : ℚ := 2 * (r : ℚ) / d with hf
    have hf0 : 0 ≤ f := by rw [hf]; positivity
    have hf2 : f < 2 := by
      rw [hf, div_lt_iff₀ hdq]
      have : (r : ℚ) < d := by exact_mod_cast hlt
      linarith
    have hfz : f = 0 ↔ r = 0 := by
      rw [hf]
      constructor
      · intro h
        rcases div_eq_zero_iff.mp h with h | h
        · have : (r : ℚ) = 0 := by linarith
          exact_mod_cast this
        · exact absurd h (ne_of_gt hdq)
      · intro h; rw [h]; simp
    have hV : (n : ℚ) / d * 2 ^ ((k : ℤ) + 1) = 2 * (q : ℚ) + f := by
      have : (n : ℚ) * 2 ^ k = d * q + r := by exact_mod_cast hdm.symm
      rw [p2_add, zpow_natCast, hf]
      field_simp
      linarith
    have hst := sticky q f (le_trans (by norm_num) hqb) hf0 hf2
    have hif : (if f = 0 then 0 else 1 : ℕ) = (if r = 0 then 0 else 1 : ℕ) := by
      by_cases c : r = 0
      · rw [if_pos c, if_pos (hfz.mpr c)]
      · rw [if_neg c, if_neg (fun h => c (hfz.mp h))]
    rw [hif] at hst
    -- assemble
    have hquot : x.val / y.val
        = (if ((decide (x.m < 0)) != (decide (y.m < 0))) then -1 else 1)
            * (2 * (q : ℚ) + f) * 2 ^ (x.e - y.e - (k : ℤ) - 1) := by
      unfold Dy.val
      have : (x.m : ℚ) * 2 ^ x.e / ((y.m : ℚ) * 2 ^ y.e)
          = (x.m : ℚ) / (y.m : ℚ) * 2 ^ ((k : ℤ) + 1) * 2 ^ (x.e - y.e - (k : ℤ) - 1) := by
        rw [mul_assoc, ← p2_add, show (k : ℤ) + 1 + (x.e - y.e - (k : ℤ) - 1) = x.e + (-y.e) by ring,
          p2_add, zpow_neg]
        field_simp [p2_ne]
      rw [this, val_div_sign _ _, hnn, hdd, mul_assoc _ ((n : ℚ) / d), hV]
    rw [hquot, rnd_scale, val_mk]
    generalize ((decide (x.m < 0)) != (decide (y.m < 0))) = sg
    cases sg
    · simp only [Bool.false_eq_true, ↓reduceIte]
      rw [one_mul, hst]
      rw [show ((((2 * q + (if r = 0 then 0 else 1) : ℕ) : ℤ) : ℚ))
            = (((2 * q + (if r = 0 then 0 else 1) : ℕ) : ℚ)) by push_cast; ring]
      rw [rnd_scale]
    · simp only [↓reduceIte]
      rw [show (-1 : ℚ) * (2 * (q : ℚ) + f) = -(2 * (q : ℚ) + f) by ring, rnd_neg, hst]
      rw [show (((-((2 * q + (if r = 0 then 0 else 1) : ℕ) : ℤ) : ℤ) : ℚ))
            = -(((2 * q + (if r = 0 then 0 else 1) : ℕ) : ℚ)) by push_cast; ring]
      rw [show -(((2 * q + (if r = 0 then 0 else 1) : ℕ) : ℚ)) * 2 ^ (x.e - y.e - (k : ℤ) - 1)
            = -((((2 * q + (if r = 0 then 0 else 1) : ℕ) : ℚ)) * 2 ^ (x.e - y.e - (k : ℤ) - 1)) by ring,
          rnd_neg, rnd_scale]
      ring

end F53
end Astisub
