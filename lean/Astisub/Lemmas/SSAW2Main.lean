import Astisub.Lemmas.SSAW2Decode
import Astisub.Lemmas.SSAW2Events
import Astisub.Lemmas.SSAW2BridgeMeta
import Astisub.Lemmas.SSAW2BridgeEvents

/-!
# Lemmas/SSAW2Main — `Spec.SSA.decode (write s) = Spec.SSA.denote s`: assembling the pieces
-/

namespace Astisub
namespace SSAW
open Go SSA SSAR List
open Spec.SSA (SecKind secKind sections stylesOf eventsOf infoOf commentsOf GDoc GStyle GEvent GRun REvent resolve strLe nodup)

/-! ### what `denote` says is `docG` -/

theorem mem_mergeSort_iff {α} (le : α → α → Bool) (l : List α) (a : α) : a ∈ l.mergeSort le ↔ a ∈ l :=
  (mergeSort_perm l le).mem_iff

/-- **Bridge.** Under `RepRead` (distinct style identifiers) and `Extra` (64-bit integers, no empty style reference),
    the denotation of a cue list is the document spelled out from the writer's typed values. -/
theorem bridge (s : Subs) (want : GDoc) (hd : Spec.SSA.denote s = some want) (hr : RepRead s) (hx : Extra s want) :
    want = docG s := by
  obtain ⟨gi, L, evs, _, _, hitems, hgi, hL, hevs, rfl⟩ := denote_some s want hd
  have h64 := hx.ints
  unfold wantInts64 ints64 at h64
  simp only [Bool.and_eq_true] at h64
  obtain ⟨h64i, h64s, h64e⟩ := h64
  have hLs : ∀ g ∈ L, attrs64 g.attrs = true := by
    intro g hg
    exact all_eq_true.mp h64s g ((mem_mergeSort_iff _ _ _).mpr hg)
  unfold docG
  rw [← bridge_info s.metadata gi hgi h64i, ← bridge_styles s L hL hLs hr.2.2.2,
    ← bridge_events s evs hitems hevs (fun g hg => all_eq_true.mp h64e g hg) hx.styleRef]

/-! ### small facts -/

theorem allSome_mem {α β} (f : α → Option β) : ∀ (l : List α) (rs : List β), allSome (l.map f) = some rs →
    ∀ r ∈ rs, ∃ a ∈ l, f a = some r := by
  intro l
  induction l with
  | nil =>
    intro rs h r hr
    simp only [map_nil, allSome, Option.some.injEq] at h
    subst h
    cases hr
  | cons a l ih =>
    intro rs h
    simp only [map_cons, allSome] at h
    cases hfa : f a with
    | none => rw [hfa] at h; simp at h
    | some r0 =>
      cases hrest : allSome (l.map f) with
      | none => rw [hfa, hrest] at h; simp at h
      | some rs' =>
        rw [hfa, hrest] at h
        simp only [Option.some.injEq] at h
        subst h
        intro r hr
        rcases mem_cons.mp hr with rfl | hr
        · exact ⟨a, mem_cons_self, hfa⟩
        · obtain ⟨a', ha', hf'⟩ := ih rs' hrest r hr
          exact ⟨a', mem_cons_of_mem _ ha', hf'⟩

theorem allSome_nil_iff {α β} (f : α → Option β) (l : List α) (h : allSome (l.map f) = some []) : l = [] := by
  cases l with
  | nil => rfl
  | cons a l =>
    simp only [map_cons, allSome] at h
    split at h <;> simp at h

theorem nodup_ofList (l : List Str) (h : l.Nodup) : nodup (l.map String.ofList) = true := by
  rw [spec_nodup_iff]
  unfold Nodup at h ⊢
  rw [pairwise_map]
  exact h.imp fun hne he => hne (by
    have := congrArg String.toList he
    simpa [String.toList_ofList] using this)

/-- no raw line of the written document contains a line feed -/
theorem docLinesW_nl (s : Subs) (rows : List Str) (hr : RepRead s)
    (hrows : allSome ((writerStyles s).map fun st => st.row (formatOf (formatFlds (writerStyles s)))) = some rows) :
    ∀ l ∈ docLinesW s rows, '\n' ∉ l := by
  obtain ⟨hinfo, hstyles, hevents, _⟩ := hr
  intro l hl
  unfold docLinesW at hl
  rcases mem_append.mp hl with hl | hl
  · rcases mem_append.mp hl with hl | hl
    · rcases mem_cons.mp hl with rfl | hl
      · decide
      · unfold infoRaw at hl
        rcases mem_append.mp hl with hl | hl
        · obtain ⟨c, hc, rfl⟩ := mem_map.mp hl
          intro hm
          rcases mem_append.mp hm with hm | hm
          · revert hm; decide
          · exact (hinfo.1 c hc).2 hm
        · obtain ⟨⟨f, v, t⟩, hp, rfl⟩ := mem_map.mp hl
          obtain ⟨_, hget, ht⟩ := mem_infoTriples.mp hp
          obtain ⟨t', ht', _, hnl, _⟩ := parse_written {} f v (hinfo.2 f (si_all_complete f) v hget)
          rw [ht] at ht'
          injection ht' with ht'
          subst ht'
          unfold kvLine
          intro hm
          simp only [mem_append] at hm
          rcases hm with (hm | hm) | hm
          · exact si_header_nl f hm
          · revert hm; decide
          · exact hnl hm
    · exact stylesBlock_nl _ _ rows
        (rows_nl _ (writerStyles s) rows (fun st hst => (hstyles st hst).2.2) hrows) l hl
  · exact eventsBlock_nl _ _ (fun e he => ⟨(hevents e he).1, (hevents e he).2.2⟩) l hl

/-! ### the decoder on the written document -/

/-- the lines of an event's text as the decoder cuts them (`[]` when it refuses the text) -/
def tlOf (e : Event) : List (List GRun) := (Spec.SSA.textOf e.text).getD []

/-- **The decoder on the written document** returns `docG s`, given that the text has no CR. -/
theorem decode_docG (s : Subs) (out : Str) (want : GDoc) (hd : Spec.SSA.denote s = some want) (hr : RepRead s)
    (hx : Extra s want) (hw : write s = .ok out) (hcr : '\r' ∉ out) :
    Spec.SSA.decode out = some (docG s) := by
  obtain ⟨rows, hrows, rfl⟩ := written_lines s out hw
  have hb : InfoDec (infoOfMeta s.metadata) := ⟨hr.1, hx.timer⟩
  have hrT : ∀ r ∈ rows, Trimmed r := by
    intro r hr'
    obtain ⟨st, hst, hrow⟩ := allSome_mem _ _ _ hrows r hr'
    exact trimmed_style_row st _ (hr.2.1 st hst).2.1 r hrow
  have heT : ∀ e ∈ s.items.map eventOfItem, Trimmed e.text := fun e he => (hr.2.2.1 e he).2.1
  rw [decode_eq, specLines_written s rows hb hrT heT (docLinesW_nl s rows hr hrows) hcr, sections_written s rows hrT heT]
  -- the three parsers
  obtain ⟨hcom, hinfo⟩ := infoOf_written _ hb
  have htext : ∀ e ∈ s.items.map eventOfItem,
      EventCells e ∧ Trimmed e.text ∧ Spec.SSA.textOf e.text = some (tlOf e) := by
    intro e he
    obtain ⟨it, hit, rfl⟩ := mem_map.mp he
    obtain ⟨hne, hlines⟩ := denote_item_lines s want hd hx it hit
    have := textOf_written (itemRuns it) hne (fun l hl => (hlines l hl).1) (fun l hl => (hlines l hl).2)
    rw [← eventOfItem_text] at this
    refine ⟨(hr.2.2.1 _ he).1, (hr.2.2.1 _ he).2.1, ?_⟩
    unfold tlOf
    rw [this]
    rfl
  have hE : eventsOf (eventsBodyT (isV4plus s) (s.items.map eventOfItem)) none
      = some ((s.items.map eventOfItem).map fun e => eventR (isV4plus s) e (tlOf e)) :=
    eventsOf_block (isV4plus s) (s.items.map eventOfItem) tlOf htext
  have hev : ∀ names : List Str,
      ((s.items.map eventOfItem).map fun e => eventR (isV4plus s) e (tlOf e)).map
        (fun r => ({ r.ev with style := resolve names r.styleName } : GEvent))
      = s.items.map (eventG (isV4plus s) names) := by
    intro names
    rw [map_map, map_map]
    apply map_congr_left
    intro it hit
    obtain ⟨hne, hlines⟩ := denote_item_lines s want hd hx it hit
    have := textOf_written (itemRuns it) hne (fun l hl => (hlines l hl).1) (fun l hl => (hlines l hl).2)
    rw [← eventOfItem_text] at this
    simp only [Function.comp, eventG, tlOf, this, Option.getD_some]
    rfl
  have hcE := (eventsBodyT_facts (isV4plus s) _ heT).1
  by_cases h0 : rows = []
  · rw [if_pos h0]
    simp only
    have hws : writerStyles s = [] := by
      subst h0
      exact allSome_nil_iff _ _ hrows
    rw [decodeSecs_two _ _ _ _ hinfo hE, hev, hcom, hcE, append_nil]
    unfold docG styleIds
    rw [hws]
    simp [mergeSort]
  · rw [if_neg h0]
    simp only
    have hS : stylesOf (stylesBodyT (formatFlds (writerStyles s)) rows) none = some ((writerStyles s).map styleG) :=
      stylesOf_block (formatFlds (writerStyles s)) (formatFlds_nodup _) (writerStyles s) rows
      (fun st hst => ⟨(hr.2.1 st hst).1, (hr.2.1 st hst).2.1, hx.floats st hst,
        fun f hf => formatFlds_covering _ st hst f hf⟩) hrows
    have hnames : ((writerStyles s).map styleG).map (·.name) = styleIds s := by
      unfold styleIds; rw [map_map]; rfl
    have hcS := (stylesBodyT_facts (formatFlds (writerStyles s)) rows hrT).1
    rw [decodeSecs_three _ _ _ _ _ _ hinfo hS hE
      (by rw [hnames]; exact nodup_ofList _ hr.2.2.2)
      (by
        rw [hnames, any_eq_false]
        intro n hn
        simpa using denote_names_star s want hd n hn),
      hnames, hev, hcom, hcS, hcE, append_nil, append_nil]
    rfl

end SSAW
end Astisub
