import Astisub.Lemmas.VTTRead2Cue
import Astisub.Lemmas.VTT2Region

/-!
# Lemmas/VTTRead2View — the driver's view of the reader's result (`VTT.result`), field by field,
and its normal form: the last step of the WebVTT read clause (C02read)
-/

namespace Astisub
namespace VTTRead
open Go Spec.VTT List

/-! ### cues: `slim` disappears under `norm` -/

theorem filter_map_filter {α β} (p : α → Bool) (q : β → Bool) (f : α → β)
    (h : ∀ x, p x = false → q (f x) = false) :
    ∀ l : List α, ((l.filter p).map f).filter q = (l.map f).filter q := by
  intro l
  induction l with
  | nil => rfl
  | cons a l ih =>
    cases hp : p a with
    | true => simp only [filter_cons, hp, if_true, map_cons]; rw [ih]
    | false =>
      simp only [filter_cons, hp, Bool.false_eq_true, if_false, map_cons, h a hp]
      exact ih

theorem mergeRuns_nil : mergeRuns [] = [] := by
  simp [mergeRuns]

theorem normLine_empty (l : GLine) (h : (!l.runs.isEmpty) = false) : (!(normLine l).runs.isEmpty) = false := by
  have e : l.runs = [] := by
    cases hr : l.runs with
    | nil => rfl
    | cons a r => rw [hr] at h; simp at h
  unfold normLine
  simp only [e, mergeRuns_nil, filter_nil, isEmpty_nil, Bool.not_true]

/-- what `norm` does to one cue -/
def normCue (c : GCue) : GCue :=
  { c with comments := c.comments.map trimSpace, lines := (c.lines.map normLine).filter fun l => !l.runs.isEmpty }

theorem norm_eq (g : GDoc) :
    norm g = { cues := g.cues.map normCue, regions := sortRegions g.regions, styles := g.styles, tsmap := g.tsmap } := rfl

theorem normCue_slim (c : GCue) : normCue (slim c) = normCue c := by
  unfold normCue slim
  simp only
  rw [filter_map_filter (fun l : GLine => !l.runs.isEmpty) (fun l : GLine => !l.runs.isEmpty) normLine normLine_empty]

theorem map_normCue_slim (cues : List GCue) : (cues.map slim).map normCue = cues.map normCue := by
  rw [map_map]
  apply map_congr_left
  intro c _
  exact normCue_slim c

/-! ### regions: the two sorts agree -/

def leG (a b : GRegion) : Bool := !(String.ofList b.id < String.ofList a.id)

theorem leG_trans (a b c : GRegion) : leG a b = true → leG b c = true → leG a c = true := by
  unfold leG
  simp only [Bool.not_eq_true', decide_eq_false_iff_not]
  intro h1 h2 h3
  have := String.le_trans (String.not_lt.mp h1) (String.not_lt.mp h2)
  exact absurd h3 (String.not_lt.mpr this)

theorem leG_total (a b : GRegion) : (leG a b || leG b a) = true := by
  unfold leG
  simp only [Bool.or_eq_true, Bool.not_eq_true', decide_eq_false_iff_not]
  rcases String.le_total (String.ofList a.id) (String.ofList b.id) with h | h
  · exact Or.inl (String.not_lt.mpr h)
  · exact Or.inr (String.not_lt.mpr h)

theorem sortRegions_eq (l : List GRegion) : sortRegions l = l.mergeSort leG := rfl

theorem sortRegions_idem (l : List GRegion) : sortRegions (sortRegions l) = sortRegions l := by
  rw [sortRegions_eq, sortRegions_eq]
  exact mergeSort_of_pairwise (pairwise_mergeSort leG_trans leG_total l)

theorem sortDefs_view (rs : List Def) : (Proto.sortDefs rs).map regionView = sortRegions (rs.map regionView) := by
  unfold Proto.sortDefs
  rw [sortRegions_eq]
  apply map_mergeSort
  intro a _ b _
  rfl

theorem regions_result (rs : List Def) :
    sortRegions ((Proto.sortDefs rs).map regionView) = sortRegions (rs.map regionView) := by
  rw [sortDefs_view, sortRegions_idem]

/-! ### styles -/

theorem style_keys_pairwise (a b : Option Str) :
    ([("WebVTTStyles", a), ("WebVTTTags", b)] : List (String × Option Str)).Pairwise (fun x y => x.1 ≠ y.1) := by
  simp [pairwise_cons]

theorem kvGet_styles (a b : Option Str) :
    SRT.kvGet (some (mkAttrs [("WebVTTStyles", a), ("WebVTTTags", b)])) "WebVTTStyles" = a := by
  rw [srt_kvGet_eq]
  exact SSA.kvGet_mkAttrs_mem _ (style_keys_pairwise a b) "WebVTTStyles" a (.head _)

/-- `styleLines` on a single style -/
theorem styleLines_single (s : Subs) (d : Def) (h : s.styles = [d]) :
    VTT.styleLines s = match SRT.kvGet d.attrs "WebVTTStyles" with
      | some v => splitC '\n' v
      | none => [] := by
  unfold VTT.styleLines VTT.sortDefs
  rw [h, mergeSort_singleton]
  simp only [flatMap_cons, flatMap_nil, append_nil]
  rfl

theorem styleLines_nil (s : Subs) (h : s.styles = []) : VTT.styleLines s = [] := by
  unfold VTT.styleLines VTT.sortDefs
  rw [h]
  simp

/-- the default style of the reader's result -/
def defStyle (ms : VTT.St) : Def :=
  { id := VTT.defaultStyleID,
    attrs := some (mkAttrs [("WebVTTStyles", if ms.styles.isEmpty then none else some (join ['\n'] ms.styles)),
                            ("WebVTTTags", if ms.tags.isEmpty then none else some (VTT.tagsStr ms.tags))]) }

theorem result_styles_seen (ms : VTT.St) (hs : ms.styleSeen = true) : (VTT.result ms).styles = [defStyle ms] := by
  simp only [VTT.result, hs, if_true, defStyle]

theorem result_styles_unseen (ms : VTT.St) (hs : ms.styleSeen = false) : (VTT.result ms).styles = [] := by
  simp only [VTT.result, hs, Bool.false_eq_true, if_false]

theorem styles_result (ms : VTT.St) (hseen : ms.styleSeen = false → ms.styles = [])
    (hnl : ∀ l ∈ ms.styles, '\n' ∉ l) : VTT.styleLines (VTT.result ms) = ms.styles := by
  cases hs : ms.styleSeen with
  | false =>
    rw [styleLines_nil _ (result_styles_unseen ms hs), hseen hs]
  | true =>
    rw [styleLines_single _ _ (result_styles_seen ms hs)]
    unfold defStyle
    simp only
    rw [kvGet_styles]
    cases hst : ms.styles with
    | nil => rfl
    | cons a r =>
      simp only [isEmpty_cons, Bool.false_eq_true, if_false]
      rw [← hst]
      exact SSA.splitC_join_nl ms.styles (by rw [hst]; simp) hnl

/-! ### the time-stamp map -/

theorem lookup_single (K v : Str) : List.lookup K [(K, v)] = some v := by
  simp

theorem tsmap_some (s : Subs) (l m : Int) (hl : Int64 l) (hm : Int64 m)
    (h : s.metadata = some [("WebVTTTimestampMap".toList, itoa l ++ ',' :: itoa m)]) :
    tsmapView s = some (l, m) := by
  unfold tsmapView SRT.kvGet
  rw [h]
  simp only
  rw [lookup_single]
  simp only
  rw [VTT.splitC_kv ',' (itoa l) (itoa m) (comma_not_mem_itoa l) (comma_not_mem_itoa m)]
  simp only
  rw [atoi_itoa l hl, atoi_itoa m hm]

theorem tsmap_result (ms : VTT.St) (hts : ∀ l m, ms.tsmap = some (l, m) → Int64 l ∧ Int64 m) :
    tsmapView (VTT.result ms) = ms.tsmap := by
  cases h : ms.tsmap with
  | none =>
    have e : (VTT.result ms).metadata = none := by simp only [VTT.result, h, Option.map_none]
    unfold tsmapView SRT.kvGet
    rw [e]
  | some p =>
    obtain ⟨l, m⟩ := p
    obtain ⟨hl, hm⟩ := hts l m h
    exact tsmap_some _ l m hl hm (by simp only [VTT.result, h, Option.map_some])

/-! ### assembly -/

/-- **the view of the reader's result**, normalised, is the normal form of the document state the
    reader's state stands for -/
theorem view_result (ms : VTT.St) (cues : List GCue) (gregs : List GRegion)
    (hc : Spec.VTT.mapM cueView (VTT.flush ms) = some (cues.map slim))
    (hr : ms.regions.map regionView = gregs)
    (hseen : ms.styleSeen = false → ms.styles = [])
    (hnl : ∀ l ∈ ms.styles, '\n' ∉ l)
    (hts : ∀ l m, ms.tsmap = some (l, m) → Int64 l ∧ Int64 m) :
    (Driver.vttView (VTT.result ms)).map norm =
      some (norm { cues := cues, regions := gregs, styles := ms.styles, tsmap := ms.tsmap }) := by
  rw [vttView_eq]
  have hi : (VTT.result ms).items = VTT.flush ms := rfl
  have hg : (VTT.result ms).regions = ms.regions := rfl
  rw [hi, hc]
  simp only [Option.map_some]
  rw [norm_eq, norm_eq]
  simp only
  rw [map_normCue_slim, hg, regions_result, hr, styles_result ms hseen hnl, tsmap_result ms hts]

end VTTRead
end Astisub
