import Astisub.Lemmas.SSAW2Shape
import Astisub.Lemmas.SSAW2Styles

/-!
# Lemmas/SSAW2Decode — the decoder after the sections have been cut, on the sections of a written document
-/

namespace Astisub
namespace SSAW
open Go SSA SSAR List
open Spec.SSA (SecKind secKind sections stylesOf eventsOf infoOf commentsOf GDoc GStyle GEvent REvent resolve strLe nodup)

theorem secKind_info : secKind "[Script Info]".toList = some .info := by decide
theorem secKind_events : secKind "[Events]".toList = some .events := by decide
theorem secKind_styles (v : Bool) : secKind (if v then "[V4+ Styles]".toList else "[V4 Styles]".toList) = some .styles := by
  cases v <;> decide

theorem decodeSecs_three (bi bs be : List Str) (gi : List (String × Spec.SSA.GVal)) (S : List GStyle) (E : List REvent)
    (hi : infoOf bi = some gi) (hs : stylesOf bs none = some S) (he : eventsOf be none = some E)
    (hn : nodup ((S.map (·.name)).map String.ofList) = true)
    (hstar : (S.map (·.name)).any (fun n => n.head? = some '*') = false) :
    decodeSecs [(.info, bi), (.styles, bs), (.events, be)] =
      some { comments := commentsOf bi ++ (commentsOf bs ++ commentsOf be), info := gi,
             styles := S.mergeSort (fun a b => strLe a.name b.name),
             events := E.map fun r => { r.ev with style := resolve (S.map (·.name)) r.styleName } } := by
  have hn' : nodup (map (String.ofList ∘ fun x : GStyle => x.name) S) = true := by rw [← map_map]; exact hn
  unfold decodeSecs
  simp [Spec.SSA.mapM, hi, hs, he, hn', hstar]

theorem decodeSecs_two (bi be : List Str) (gi : List (String × Spec.SSA.GVal)) (E : List REvent)
    (hi : infoOf bi = some gi) (he : eventsOf be none = some E) :
    decodeSecs [(.info, bi), (.events, be)] =
      some { comments := commentsOf bi ++ commentsOf be, info := gi, styles := [],
             events := E.map fun r => { r.ev with style := resolve [] r.styleName } } := by
  unfold decodeSecs
  simp [Spec.SSA.mapM, hi, he, nodup]

/-! ### bodies of the styles / events sections: no comments, no headers -/

theorem body_kv {α} (hdr content : α → Str) (l : List α) (h : ∀ a ∈ l, HeaderOK (hdr a) ∧ Trimmed (content a)) :
    commentsOf (l.map fun a => kvTrim (hdr a) (content a)) = [] ∧
    ∀ x ∈ l.map (fun a => kvTrim (hdr a) (content a)), secKind x = none := by
  constructor
  · have := (kv_lines (l.map fun a => (hdr a, content a)) (by
      intro p hp
      obtain ⟨a, ha, rfl⟩ := mem_map.mp hp
      exact h a ha)).1
    rw [map_map] at this
    exact this
  · intro x hx
    obtain ⟨a, ha, rfl⟩ := mem_map.mp hx
    exact secKind_kvTrim _ _ (h a ha).1

theorem infoBody_secKind (b : Info) : ∀ x ∈ infoBody b, secKind x = none := by
  intro x hx
  unfold infoBody at hx
  rcases mem_append.mp hx with hx | hx
  · obtain ⟨c, _, rfl⟩ := mem_map.mp hx
    exact secKind_commentTrim c
  · obtain ⟨p, _, rfl⟩ := mem_map.mp hx
    exact secKind_kvTrim _ _ (si_headerOK p.1)

/-- the body of the trimmed styles block -/
def stylesBodyT (fs : List Fld) (rows : List Str) : List Str :=
  kvTrim "Format".toList (join ", ".toList (formatOf fs)) :: rows.map (kvTrim "Style".toList)

/-- the body of the trimmed events block -/
def eventsBodyT (v4plus : Bool) (es : List Event) : List Str :=
  kvTrim "Format".toList (join ", ".toList (eventFormat v4plus)) :: es.map fun e => kvTrim "Dialogue".toList (e.row v4plus)

theorem stylesBodyT_facts (fs : List Fld) (rows : List Str) (hr : ∀ r ∈ rows, Trimmed r) :
    commentsOf (stylesBodyT fs rows) = [] ∧ ∀ x ∈ stylesBodyT fs rows, secKind x = none := by
  have := body_kv (fun p : Str × Str => p.1) (fun p => p.2)
    (("Format".toList, join ", ".toList (formatOf fs)) :: rows.map fun r => ("Style".toList, r)) (by
      intro p hp
      rcases mem_cons.mp hp with rfl | hp
      · exact ⟨show HeaderOK "Format".toList by decide, (format_cols _ (formatOf_cols fs).1 (formatOf_cols fs).2).2⟩
      · obtain ⟨r, hr', rfl⟩ := mem_map.mp hp
        exact ⟨show HeaderOK "Style".toList by decide, hr r hr'⟩)
  rw [map_cons, map_map] at this
  exact this

theorem eventsBodyT_facts (v : Bool) (es : List Event) (he : ∀ e ∈ es, Trimmed e.text) :
    commentsOf (eventsBodyT v es) = [] ∧ ∀ x ∈ eventsBodyT v es, secKind x = none := by
  have := body_kv (fun p : Str × Str => p.1) (fun p => p.2)
    (("Format".toList, join ", ".toList (eventFormat v)) :: es.map fun e => ("Dialogue".toList, e.row v)) (by
      intro p hp
      rcases mem_cons.mp hp with rfl | hp
      · exact ⟨show HeaderOK "Format".toList by decide, (format_cols _ (eventFormat_cols v).1 (eventFormat_cols v).2).2⟩
      · obtain ⟨e, he', rfl⟩ := mem_map.mp hp
        exact ⟨show HeaderOK "Dialogue".toList by decide, trimmed_event_row e v (he e he')⟩)
  rw [map_cons, map_map] at this
  exact this

/-- **Sections of the written document.** -/
theorem sections_written (s : Subs) (rows : List Str) (hr : ∀ r ∈ rows, Trimmed r)
    (he : ∀ e ∈ s.items.map eventOfItem, Trimmed e.text) :
    sections (docLinesT s rows) =
      some (if rows = [] then
              [(.info, infoBody (infoOfMeta s.metadata)), (.events, eventsBodyT (isV4plus s) (s.items.map eventOfItem))]
            else
              [(.info, infoBody (infoOfMeta s.metadata)), (.styles, stylesBodyT (formatFlds (writerStyles s)) rows),
               (.events, eventsBodyT (isV4plus s) (s.items.map eventOfItem))]) := by
  unfold docLinesT stylesT eventsT
  by_cases h0 : rows = []
  · rw [if_pos h0, if_pos h0, append_nil]
    exact sections_two _ _ _ _ _ _ secKind_info secKind_events (infoBody_secKind _) (eventsBodyT_facts _ _ he).2
  · rw [if_neg h0, if_neg h0]
    exact sections_three _ _ _ _ _ _ _ _ _ secKind_info (secKind_styles _) secKind_events (infoBody_secKind _)
      (stylesBodyT_facts _ _ hr).2 (eventsBodyT_facts _ _ he).2

end SSAW
end Astisub
