import Astisub.Lemmas.OPSStable
import Astisub.Lemmas.OPSInverse
import Astisub.Props.C10
import Astisub.Props.C11

/-!
# Lemmas/OPSInverseOrder — the inverse law, with the order of the cues

`OPSInverse.unfragLoop_pieces` gives the cues of `unfragment (fragment f xs)` as a multiset.
Here: if `xs` was ordered by start, they also come in the order of `xs` (cues with equal starts
keep their relative order, because `Order` is stable and `Unfragment` never moves a cue).

Device: the *stem* of a cue — start, text, content (everything `Unfragment` leaves alone).  The
stems of the pieces are pairwise different; the stems of the result and the stems of `xs` are both
sub-sequences of the stems of the ordered piece list, and a duplicate-free list has at most one
sub-sequence with given members.
-/

namespace Astisub
namespace OPS
open Ops Spec List

/-! ### generic list facts -/

/-- two sub-sequences of a duplicate-free list with the same members are equal -/
theorem sublist_unique {α : Type} {l l1 l2 : List α} (hn : l.Nodup) (h1 : l1 <+ l) (h2 : l2 <+ l)
    (hp : l1 ~ l2) : l1 = l2 := by
  refine Perm.eq_of_pairwise (le := fun a b => [a, b] <+ l) ?_ ?_ ?_ hp
  · intro a b _ _ hab hba
    exact (nodup_pair_asymm hn hab hba).elim
  · rw [pairwise_iff_forall_sublist]; intro a b h; exact h.trans h1
  · rw [pairwise_iff_forall_sublist]; intro a b h; exact h.trans h2

/-- two lists with the same members whose images under `g` are the same duplicate-free list are equal -/
theorem eq_of_perm_of_map_eq {α β : Type} (g : α → β) {as bs : List α} (hp : as ~ bs)
    (hm : as.map g = bs.map g) (hn : (bs.map g).Nodup) : as = bs := by
  refine Perm.eq_of_pairwise (le := fun a b => [g a, g b] <+ bs.map g) ?_ ?_ ?_ hp
  · intro a b _ _ hab hba
    exact (nodup_pair_asymm hn hab hba).elim
  · rw [pairwise_iff_forall_sublist]; intro a b h
    have := h.map g
    rwa [hm] at this
  · rw [pairwise_iff_forall_sublist]; intro a b h
    exact h.map g

/-! ### stems -/

abbrev Key := Int × Int × String × (List (List String) × Nat)
abbrev Stem := Int × String × (List (List String) × Nat)

def stemOf (k : Key) : Stem := (k.1, k.2.2.1, k.2.2.2)

def stem (it : Item) : Stem := (it.startAt, it.str, it.content)

theorem stemOf_cueKey (it : Item) : stemOf (cueKey it) = stem it := rfl

theorem map_stemOf_cueKey (l : List Item) : (l.map cueKey).map stemOf = l.map stem := by
  rw [map_map]; rfl

theorem Ext.stem {y z : Item} (h : Ext y z) : stem z = stem y := by
  unfold OPS.stem Item.content
  rw [h.str, h.2.1, h.2.2.1, h.2.2.2.1]

/-- the starts of a run increase strictly -/
theorem Run.starts_lt {s : String} {e : Int} : ∀ {a : Int} {ps : List Item}, Run s e a ps →
    ps.Pairwise (fun p q => p.startAt < q.startAt)
  | _, [], _ => Pairwise.nil
  | _, p :: ps, h => by
    obtain ⟨h1, h2, _, h4⟩ := h
    refine pairwise_cons.mpr ⟨?_, Run.starts_lt h4⟩
    intro q hq
    have := (Run.mem h4 q hq).1
    omega

/-- the pieces of separated cues have pairwise different stems -/
theorem pieces_stem_nodup (f : Int) (hf : 0 < f) (xs : List Item) (hsep : Separated xs) :
    ((xs.flatMap (cut f)).map stem).Nodup := by
  rw [nodup_iff_pairwise_ne, pairwise_map, pairwise_flatMap]
  constructor
  · intro c hc
    have hrun := cut_run f hf c (hsep.pos c hc)
    refine (Run.starts_lt hrun).imp ?_
    intro p q hlt heq
    have : p.startAt = q.startAt := congrArg Prod.fst heq
    omega
  · refine (Pairwise.and_mem.mp hsep.apart).imp ?_
    rintro c d ⟨hc, hd, hnt⟩ x hx y hy heq
    have hx' := Run.mem (cut_run f hf c (hsep.pos c hc)) x hx
    have hy' := Run.mem (cut_run f hf d (hsep.pos d hd)) y hy
    have h1 : x.startAt = y.startAt := congrArg Prod.fst heq
    have h2 : x.str = y.str := congrArg (fun s => s.2.1) heq
    apply hnt
    refine ⟨?_, by omega, by omega⟩
    rw [← hx'.2.2.2, ← hy'.2.2.2]; exact h2

/-! ### the first piece of every cue -/

/-- the first piece of a cue (the cue itself if it is not cut) -/
def firstPiece (f : Int) (it : Item) : Item := (cut f it).headD it

theorem firstPiece_spec (f : Int) (hf : 0 < f) (it : Item) (hpos : it.startAt < it.endAt) :
    [firstPiece f it] <+ cut f it ∧ stem (firstPiece f it) = stem it := by
  have hrun := cut_run f hf it hpos
  have hcon := (cut_pieces f hf it).content
  unfold firstPiece
  cases hcut : cut f it with
  | nil =>
    rw [hcut] at hrun
    have : it.startAt = it.endAt := hrun
    omega
  | cons p ps =>
    rw [hcut] at hrun hcon
    obtain ⟨h1, _, h3, _⟩ := hrun
    refine ⟨by simp, ?_⟩
    show stem p = stem it
    unfold stem
    rw [h1, h3, hcon p (by simp)]

theorem firsts_sublist (f : Int) (hf : 0 < f) (xs : List Item) (hpos : ∀ it ∈ xs, it.startAt < it.endAt) :
    xs.map (firstPiece f) <+ xs.flatMap (cut f) := by
  induction xs with
  | nil => simp
  | cons c t ih =>
    rw [map_cons, flatMap_cons]
    have h1 := (firstPiece_spec f hf c (hpos c (by simp))).1
    have h2 := ih (fun it hit => hpos it (by simp [hit]))
    exact h1.append h2

theorem firsts_stem (f : Int) (hf : 0 < f) (xs : List Item) (hpos : ∀ it ∈ xs, it.startAt < it.endAt) :
    (xs.map (firstPiece f)).map stem = xs.map stem := by
  rw [map_map]
  apply map_congr_left
  intro c hc
  exact (firstPiece_spec f hf c (hpos c hc)).2

theorem firsts_sorted (f : Int) (hf : 0 < f) (xs : List Item) (hpos : ∀ it ∈ xs, it.startAt < it.endAt)
    (hs : Sorted xs) : Sorted (xs.map (firstPiece f)) := by
  unfold Sorted
  rw [pairwise_map]
  refine (Pairwise.and_mem.mp hs).imp ?_
  rintro c d ⟨hc, hd, hle⟩
  have h1 : (firstPiece f c).startAt = c.startAt :=
    congrArg Prod.fst (firstPiece_spec f hf c (hpos c hc)).2
  have h2 : (firstPiece f d).startAt = d.startAt :=
    congrArg Prod.fst (firstPiece_spec f hf d (hpos d hd)).2
  omega

/-! ### the inverse law -/

/-- the list the outer loop of `Unfragment` runs on after `Fragment` -/
theorem unfragment_fragment_eq (f : Int) (xs : List Item) :
    unfragment (fragment f xs) = unfragLoop (order (fragment f xs)) := C11.unfragment_eq _

/-- multiset form (no order assumed on `xs`) -/
theorem unfragment_fragment_perm (f : Int) (hf : 0 < f) (xs : List Item) (hsep : Separated xs) :
    (unfragment (fragment f xs)).map cueKey ~ xs.map cueKey := by
  rw [unfragment_fragment_eq]
  exact unfragLoop_pieces f hf _ xs rfl hsep _ (C12.order_sorted _)
    ((C12.order_perm _).trans (C10.fragment_perm f hf xs))

/-- ordered form: for `xs` ordered by start the cues come back in the same order -/
theorem unfragment_fragment_eq_keys (f : Int) (hf : 0 < f) (xs : List Item) (hs : Sorted xs)
    (hsep : Separated xs) : (unfragment (fragment f xs)).map cueKey = xs.map cueKey := by
  have hperm := unfragment_fragment_perm f hf xs hsep
  rw [unfragment_fragment_eq] at hperm ⊢
  -- the ordered piece list
  have hL : order (fragment f xs) ~ xs.flatMap (cut f) :=
    (C12.order_perm _).trans (C10.fragment_perm f hf xs)
  have hLn : ((order (fragment f xs)).map stem).Nodup :=
    ((hL.map stem).nodup_iff).mpr (pieces_stem_nodup f hf xs hsep)
  -- the result's stems are a sub-sequence of the piece list's stems
  obtain ⟨sub, hsub, hext⟩ := unfragLoop_ext (order (fragment f xs))
  have h1 : (unfragLoop (order (fragment f xs))).map stem <+ (order (fragment f xs)).map stem := by
    rw [← C11.All2.map_eq stem stem hext (fun a b h => (Ext.stem h).symm)]
    exact hsub.map stem
  -- so are the stems of `xs` (through the first pieces, by stability of `Order`)
  have h2 : xs.map stem <+ (order (fragment f xs)).map stem := by
    rw [← firsts_stem f hf xs hsep.pos]
    apply Sublist.map
    have hfs := firsts_sorted f hf xs hsep.pos hs
    apply C12.order_stable_sublist _ _ hfs
    have hsub2 : xs.map (firstPiece f) <+ xs.flatMap (cut f) := firsts_sublist f hf xs hsep.pos
    unfold fragment
    by_cases h : xs = [] ∨ f ≤ 0
    · rcases h with h | h
      · subst h; simp
      · omega
    · simp only [h, ↓reduceIte]
      exact C12.order_stable_sublist _ _ hfs hsub2
  have hstems : (unfragLoop (order (fragment f xs))).map stem = xs.map stem := by
    apply sublist_unique hLn h1 h2
    have := hperm.map stemOf
    rwa [map_stemOf_cueKey, map_stemOf_cueKey] at this
  refine eq_of_perm_of_map_eq stemOf hperm ?_ ?_
  · rw [map_stemOf_cueKey, map_stemOf_cueKey]; exact hstems
  · rw [map_stemOf_cueKey]; exact hLn.sublist h2

end OPS
end Astisub
