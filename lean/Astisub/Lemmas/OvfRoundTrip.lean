import Astisub.Props.C16
import Astisub.Lemmas.OvfDuration

/-!
# Lemmas/OvfRoundTrip — the timestamp round trip of C16 holds for the `int64` evaluation

`Props/C16` proves `parse (format t) = t truncated` for `0 ≤ t < 100 h` in the unbounded model. Here the
fields of a canonical rendering are computed through the string stages (`msPart_canon3`,
`hmsPart_canon`), they satisfy `CombineOK`, hence the same round trip holds when both the writer's
`/`, `%` and the reader's products and sums are evaluated in wrap-around `int64`.
-/

namespace Astisub
namespace Ovf
open Go Duration List C16

theorem msPart_canon3 (h m s f : Nat) (hh : h < 100) (hm : m < 100) (hs : s < 100) (hf : f < 1000)
    (sep : Char) (hsep : sep = '.' ∨ sep = ',') :
    msPart (canon3 h m s f sep) sep 3 = some (((f : Int), 0), dd h ++ ':' :: dd m ++ ':' :: dd s) := by
  have hsepF : sep ∉ ddd f := (digitStr_ddd hf).not_mem (by rcases hsep with e | e <;> simp [e])
  unfold msPart canon3
  rw [splitC_append _ (hms_not_mem h m s hh hm hs sep hsep), splitC_not_mem hsepF]
  simp only [length_cons, length_nil, ge_iff_le, Nat.le_refl, ↓reduceIte, getLast?_cons_cons,
    getLast?_singleton, Option.getD_some, dropLast_cons_cons, dropLast_singleton, join]
  rw [trimSpace_id (digitStr_ddd hf).noSpace, atoi_ddd hf]
  have hl : (ddd f).length = 3 := rfl
  simp [hl]

theorem hmsPart_canon (h m s : Nat) (hh : h < 100) (hm : m < 100) (hs : s < 100) :
    hmsPart (dd h ++ ':' :: dd m ++ ':' :: dd s) = some ((s : Int), (m : Int), (h : Int)) := by
  unfold hmsPart
  rw [trimSpace_id (hms_noSpace h m s hh hm hs), hms_split h m s hh hm hs]
  simp only
  rw [trimSpace_id (digitStr_dd hs).noSpace, trimSpace_id (digitStr_dd hm).noSpace,
    trimSpace_id (digitStr_dd hh).noSpace, atoi_dd hs, atoi_dd hm, atoi_dd hh]
  have hl2 : (dd h).length = 2 := rfl
  simp [hl2]

theorem msPart_canon2 (h m s f : Nat) (hh : h < 100) (hm : m < 100) (hs : s < 100) (hf : f < 100)
    (sep : Char) (hsep : sep = '.' ∨ sep = ',') :
    msPart (canon2 h m s f sep) sep 3 = some (((f : Int), 1), dd h ++ ':' :: dd m ++ ':' :: dd s) := by
  have hsepF : sep ∉ dd f := (digitStr_dd hf).not_mem (by rcases hsep with e | e <;> simp [e])
  unfold msPart canon2
  rw [splitC_append _ (hms_not_mem h m s hh hm hs sep hsep), splitC_not_mem hsepF]
  simp only [length_cons, length_nil, ge_iff_le, Nat.le_refl, ↓reduceIte, getLast?_cons_cons,
    getLast?_singleton, Option.getD_some, dropLast_cons_cons, dropLast_singleton, join]
  rw [trimSpace_id (digitStr_dd hf).noSpace, atoi_dd hf]
  have hl : (dd f).length = 2 := rfl
  simp [hl]

/-- a canonical rendering with three fraction digits is in range -/
theorem parseOK_canon3 (h m s f : Nat) (hh : h < 100) (hm : m < 100) (hs : s < 100) (hf : f < 1000)
    (sep : Char) (hsep : sep = '.' ∨ sep = ',') : ParseOK (canon3 h m s f sep) sep 3 := by
  unfold ParseOK
  rw [msPart_canon3 h m s f hh hm hs hf sep hsep]
  show optAll (hmsPart (dd h ++ ':' :: dd m ++ ':' :: dd s)) _
  rw [hmsPart_canon h m s hh hm hs]
  show CombineOK (f : Int) 0 (s : Int) (m : Int) (h : Int)
  apply combineOK_wide (by decide)
  · rw [Int.pow_zero, Int.mul_one]; omega
  · omega
  · omega
  · omega

/-- … and so is one with two fraction digits read at the three-digit scale (SSA) -/
theorem parseOK_canon2 (h m s f : Nat) (hh : h < 100) (hm : m < 100) (hs : s < 100) (hf : f < 100)
    (sep : Char) (hsep : sep = '.' ∨ sep = ',') : ParseOK (canon2 h m s f sep) sep 3 := by
  unfold ParseOK
  rw [msPart_canon2 h m s f hh hm hs hf sep hsep]
  show optAll (hmsPart (dd h ++ ':' :: dd m ++ ':' :: dd s)) _
  rw [hmsPart_canon h m s hh hm hs]
  show CombineOK (f : Int) 1 (s : Int) (m : Int) (h : Int)
  apply combineOK_wide (by decide)
  · rw [Int.pow_one]; omega
  · omega
  · omega
  · omega

/-- **Round trip in `int64`, three fraction digits** (SubRip, WebVTT, TTML clock times) -/
theorem parseW_formatW3 (t : Int) (sep : Char) (hsep : sep = '.' ∨ sep = ',')
    (h0 : 0 ≤ t) (h1 : t < 360000000000000) :
    parseW (formatW t sep 3) sep 3 = some (t - t % 1000000) := by
  have ht : fits64 t := by unfold fits64; omega
  rw [formatW_eq t sep 3 ht h0, ← parse_format3 t sep hsep h0 h1]
  obtain ⟨h, m, s, f, hh, hm, hs, hf, hfmt, _⟩ := format_shape3 t sep h0 h1
  rw [hfmt]
  exact parseW_eq _ sep 3 (parseOK_canon3 h m s f hh (by omega) (by omega) hf sep hsep)

/-- **Round trip in `int64`, two fraction digits written, three read** (SSA / ASS) -/
theorem parseW_formatW2 (t : Int) (sep : Char) (hsep : sep = '.' ∨ sep = ',')
    (h0 : 0 ≤ t) (h1 : t < 360000000000000) :
    parseW (formatW t sep 2) sep 3 = some (t - t % 10000000) := by
  have ht : fits64 t := by unfold fits64; omega
  rw [formatW_eq t sep 2 ht h0, ← parse_format2 t sep hsep h0 h1]
  obtain ⟨h, m, s, f, hh, hm, hs, hf, hfmt, _⟩ := format_shape2 t sep h0 h1
  rw [hfmt]
  exact parseW_eq _ sep 3 (parseOK_canon2 h m s f hh (by omega) (by omega) hf sep hsep)

end Ovf
end Astisub
