import Astisub.Lemmas.SSAW2Denote

/-!
# Lemmas/SSAW2BridgeMeta — the denotation of the script info and of the styles, through the writer's typed values

`Spec.SSA.view` / `Spec.SSA.denote` read the canonical attribute texts with the decoder's own scalar readers
(`canonVal`); the writer turns the same texts into typed values with `Val.ofCanon`.  On accepted texts (and integers
that fit 64 bits) the two agree:

* `gval_ofCanon` — one value;
* `bridge_info` — the script info: `attrsView infoTable m = some gi → gi = infoG (infoOfMeta m)`;
* `bridge_style`, `bridge_styles` — one style; the sorted style list.
-/

namespace Astisub
namespace SSAW
open Go SSA SSAR List
open Spec.SSA (GVal GStyle GRun GEvent GDoc REvent)

/-! ### one value -/

theorem hexNat_fold_of_hexOf : ∀ (s : Str) (acc c : Nat), Spec.SSA.hexOf s acc = some c →
    s.foldl (fun a ch => a * 16 + (digitValBase ch).getD 0) acc = c
  | [], acc, c, h => by
    simp only [Spec.SSA.hexOf, Option.some.injEq] at h
    subst h; rfl
  | ch :: cs, acc, c, h => by
    unfold Spec.SSA.hexOf at h
    cases hv : Spec.SSA.hexVal ch with
    | none => rw [hv] at h; cases h
    | some d =>
      rw [hv] at h
      simp only at h
      obtain ⟨e1, _⟩ := hexVal_digitValBase hv
      simp only [List.foldl_cons, e1, Option.getD_some]
      exact hexNat_fold_of_hexOf cs _ c h

theorem hexNat_of_hexOf {s : Str} {c : Nat} (h : Spec.SSA.hexOf s 0 = some c) : hexNat s = c :=
  hexNat_fold_of_hexOf s 0 c h

/-- when `strconv.Atoi` succeeds, dropping its error changes nothing -/
theorem atoiLoose_of_atoi {s : Str} {v : Int} (h : atoi s = some v) : atoiLoose s = v := by
  unfold atoi at h
  unfold atoiLoose
  split at h
  · rename_i r
    cases hp : parseDigits r with
    | none => rw [hp] at h; cases h
    | some n =>
      rw [hp] at h
      simp only at h ⊢
      split at h
      · rename_i hle
        cases h
        simp only [if_pos hle, ↓reduceIte]
      · cases h
  · rename_i r
    cases hp : parseDigits r with
    | none => rw [hp] at h; cases h
    | some n =>
      rw [hp] at h
      simp only at h ⊢
      split at h
      · rename_i hle
        cases h
        simp only [if_pos hle, Bool.false_eq_true, ↓reduceIte]
      · cases h
  · rename_i h1 h2
    cases hp : parseDigits s with
    | none => rw [hp] at h; cases h
    | some n =>
      rw [hp] at h
      simp only at h
      split at h
      · rename_i hle
        cases h
        simp only [if_pos hle, Bool.false_eq_true, ↓reduceIte]
      · cases h

theorem atoiLoose_of_intOf {s : Str} {v : Int} (h : Spec.SSA.intOf s = some v) (hr : In64 v = true) : atoiLoose s = v :=
  atoiLoose_of_atoi (atoi_of_intOf h hr)

/-- per value: what `view`/`denote` read from the canonical text is the typed value the writer works with -/
theorem gval_ofCanon (k : Kind) (str : Str) (gv : GVal) (h : Spec.SSA.canonVal (gk k) str = some gv)
    (h64 : match gv with | .i v => In64 v = true | _ => True) : gval (Val.ofCanon k str) = gv := by
  cases k with
  | bool =>
    simp only [gk, Spec.SSA.canonVal] at h
    simp only [Val.ofCanon, gval]
    split at h
    · rename_i ht; cases h; simp [ht]
    · rename_i ht
      split at h
      · cases h; simpa using ht
      · cases h
  | colour =>
    simp only [gk, Spec.SSA.canonVal] at h
    cases hh : Spec.SSA.hexOf str 0 with
    | none => rw [hh] at h; cases h
    | some c =>
      rw [hh] at h
      simp only [Option.map_some, Option.some.injEq] at h
      subst h
      simp only [Val.ofCanon, gval, hexNat_of_hexOf hh]
  | float =>
    simp only [gk, Spec.SSA.canonVal] at h
    split at h
    · rename_i r
      cases hn : Spec.SSA.natOf r with
      | none => rw [hn] at h; cases h
      | some bits =>
        rw [hn] at h
        simp only [Option.map_some, Option.some.injEq] at h
        subst h
        obtain ⟨_, _, e⟩ := natOf_spec hn
        simp only [Val.ofCanon, gval, List.drop_succ_cons, List.drop_zero, e]
    · cases h
  | int =>
    simp only [gk, Spec.SSA.canonVal] at h
    cases hn : Spec.SSA.intOf str with
    | none => rw [hn] at h; cases h
    | some v =>
      rw [hn] at h
      simp only [Option.map_some, Option.some.injEq] at h
      subst h
      simp only at h64
      simp only [Val.ofCanon, gval, atoiLoose_of_intOf hn h64]
  | str =>
    simp only [gk, Spec.SSA.canonVal, Option.some.injEq] at h
    subst h
    rfl

/-! ### a table of attributes -/

theorem attrs64_cons (p : String × GVal) (r : List (String × GVal)) :
    attrs64 (p :: r) = ((match p.2 with | .i v => In64 v | _ => true) && attrs64 r) := rfl

/-- the view of a table of attributes, entry by entry, against the writer's typed values -/
theorem bridge_table {κ} (hdr key : κ → String) (kind : κ → Kind) (a : Attrs) :
    ∀ (fs : List κ) (l : List (Option (String × GVal))),
      fs.map (fun f => viewEntry a (hdr f, key f, gk (kind f))) = l.map some →
      attrs64 (l.filterMap id) = true →
      l.filterMap id =
        fs.filterMap fun f => ((SSA.kvGet a (key f)).map fun s => Val.ofCanon (kind f) s).map fun v => (hdr f, gval v)
  | [], l, h, _ => by
    cases l with
    | nil => rfl
    | cons x l => simp at h
  | f :: fs, l, h, h64 => by
    cases l with
    | nil => simp at h
    | cons x l =>
      simp only [List.map_cons, List.cons.injEq] at h
      obtain ⟨hx, hl⟩ := h
      simp only [viewEntry, spec_kvGet_eq] at hx
      rw [List.filterMap_cons (l := fs)]
      cases hk : SSA.kvGet a (key f) with
      | none =>
        rw [hk] at hx
        simp only [Option.some.injEq] at hx
        subst hx
        simp only [List.filterMap_cons, id, Option.map_none]
        exact bridge_table hdr key kind a fs l hl (by simpa [List.filterMap_cons] using h64)
      | some s =>
        rw [hk] at hx
        simp only at hx
        cases hc : Spec.SSA.canonVal (gk (kind f)) s with
        | none => rw [hc] at hx; simp at hx
        | some v =>
          rw [hc] at hx
          simp only [Option.map_some, Option.some.injEq] at hx
          subst hx
          simp only [List.filterMap_cons, id, Option.map_some] at h64 ⊢
          rw [attrs64_cons, Bool.and_eq_true] at h64
          have hv : gval (Val.ofCanon (kind f) s) = v := by
            apply gval_ofCanon _ _ _ hc
            cases v with
            | i n => exact h64.1
            | _ => trivial
          rw [hv, bridge_table hdr key kind a fs l hl h64.2]

theorem filterMap_congr_mem {α β} (l : List α) (f g : α → Option β) (h : ∀ x ∈ l, f x = g x) :
    l.filterMap f = l.filterMap g := by
  induction l with
  | nil => rfl
  | cons x l ih =>
    rw [List.filterMap_cons, List.filterMap_cons, h x (by simp), ih (fun y hy => h y (by simp [hy]))]

/-! ### the script info -/

theorem bridge_info (m : Attrs) (gi : List (String × GVal)) (h : Spec.SSA.attrsView Spec.SSA.infoTable m = some gi)
    (h64 : attrs64 gi = true) : gi = infoG (infoOfMeta m) := by
  rw [attrsView_eq, infoTable_eq, List.map_map] at h
  cases hm : Spec.SSA.mapM id (SI.all.map ((viewEntry m) ∘ fun f => (f.header, f.key, gk f.kind))) with
  | none => rw [hm] at h; cases h
  | some l =>
    rw [hm] at h
    simp only [Option.map_some, Option.some.injEq] at h
    subst h
    rw [mapM_id_eq_some] at hm
    rw [bridge_table SI.header SI.key SI.kind m SI.all l hm h64]
    unfold infoG
    apply filterMap_congr_mem
    intro f hf
    simp only [infoOfMeta, Vals.get]
    have e := lookup_tab (fun f => (SSA.kvGet m f.key).map fun s => Val.ofCanon f.kind s) SI.all f
    rw [if_pos hf] at e
    simp only [Option.map_map, Function.comp_def] at e
    rw [e]

/-! ### the styles -/

theorem bridge_style (d : Def) (a : List (String × GVal)) (h : Spec.SSA.attrsView Spec.SSA.styleTable d.attrs = some a)
    (h64 : attrs64 a = true) : ({ name := d.id, attrs := a } : GStyle) = styleG (styleOfDef d) := by
  rw [attrsView_eq, styleTable_eq, List.map_map] at h
  cases hm : Spec.SSA.mapM id (Fld.all.map ((viewEntry d.attrs) ∘ fun f => (f.col, f.key, gk f.kind))) with
  | none => rw [hm] at h; cases h
  | some l =>
    rw [hm] at h
    simp only [Option.map_some, Option.some.injEq] at h
    subst h
    rw [mapM_id_eq_some] at hm
    rw [bridge_table Fld.col Fld.key Fld.kind d.attrs Fld.all l hm h64]
    unfold styleG
    congr 1
    apply filterMap_congr_mem
    intro f hf
    simp only [styleOfDef, Vals.get]
    have e := lookup_tab (fun f => (SSA.kvGet d.attrs f.key).map fun s => Val.ofCanon f.kind s) Fld.all f
    rw [if_pos hf] at e
    simp only [Option.map_map, Function.comp_def] at e
    rw [e]

/-- the styles of the view, one by one -/
theorem bridge_styles_map : ∀ (ds : List Def) (L : List GStyle),
    Spec.SSA.mapM (fun (d : Def) => (Spec.SSA.attrsView Spec.SSA.styleTable d.attrs).map fun a => ({ name := d.id, attrs := a } : GStyle)) ds = some L →
    (∀ g ∈ L, attrs64 g.attrs = true) → L = ds.map fun d => styleG (styleOfDef d)
  | [], L, h, _ => by
    simp only [Spec.SSA.mapM, Option.some.injEq] at h
    subst h; rfl
  | d :: ds, L, h, h64 => by
    unfold Spec.SSA.mapM at h
    cases ha : Spec.SSA.attrsView Spec.SSA.styleTable d.attrs with
    | none => rw [ha] at h; simp at h
    | some a =>
      rw [ha] at h
      simp only [Option.map_some] at h
      split at h
      · rename_i b bs hb hbs
        simp only [Option.some.injEq] at hb h
        subst hb
        subst h
        rw [List.map_cons, bridge_styles_map ds bs hbs (fun g hg => h64 g (by simp [hg]))]
        rw [bridge_style d a ha (h64 { name := d.id, attrs := a } (by simp))]
      · cases h

/-! ### the order on style names -/

theorem strLe_iff (a b : Str) : Spec.SSA.strLe a b = true ↔ String.ofList a ≤ String.ofList b := by
  unfold Spec.SSA.strLe
  simp only [Bool.not_eq_true', decide_eq_false_iff_not, String.not_lt]

theorem strLe_trans (a b c : Str) (h1 : Spec.SSA.strLe a b = true) (h2 : Spec.SSA.strLe b c = true) :
    Spec.SSA.strLe a c = true := by
  rw [strLe_iff] at *
  exact String.le_trans h1 h2

theorem strLe_total (a b : Str) : (Spec.SSA.strLe a b || Spec.SSA.strLe b a) = true := by
  rw [Bool.or_eq_true, strLe_iff, strLe_iff]
  exact String.le_total _ _

theorem strLe_antisymm (a b : Str) (h1 : Spec.SSA.strLe a b = true) (h2 : Spec.SSA.strLe b a = true) : a = b := by
  rw [strLe_iff] at *
  exact String.ofList_injective (String.le_antisymm h1 h2)

theorem eq_of_nodup_map {α β} (f : α → β) : ∀ (l : List α), (l.map f).Nodup → ∀ a ∈ l, ∀ b ∈ l, f a = f b → a = b
  | [], _, a, ha, _, _, _ => by cases ha
  | x :: l, hnd, a, ha, b, hb, e => by
    rw [List.map_cons, List.nodup_cons] at hnd
    rw [List.mem_cons] at ha hb
    rcases ha with ha | ha <;> rcases hb with hb | hb
    · rw [ha, hb]
    · subst ha
      exact absurd (e ▸ List.mem_map_of_mem hb) hnd.1
    · subst hb
      exact absurd (e ▸ List.mem_map_of_mem ha) hnd.1
    · exact eq_of_nodup_map f l hnd.2 a ha b hb e

/-- the comparator of the style sort -/
def nameLe (a b : GStyle) : Bool := Spec.SSA.strLe a.name b.name

theorem nameLe_eq : (fun (a b : GStyle) => Spec.SSA.strLe a.name b.name) = nameLe := rfl

theorem pairwise_mergeSort_nameLe (L : List GStyle) : (L.mergeSort nameLe).Pairwise (fun a b => nameLe a b = true) :=
  List.pairwise_mergeSort (le := nameLe) (fun a b c h1 h2 => strLe_trans a.name b.name c.name h1 h2)
    (fun a b => strLe_total a.name b.name) L

/-- sorting two permutations of a list of styles with distinct names gives the same list -/
theorem mergeSort_styles_perm (L R : List GStyle) (hp : L.Perm R) (hnd : (R.map (·.name)).Nodup) :
    L.mergeSort (fun a b => Spec.SSA.strLe a.name b.name) = R.mergeSort (fun a b => Spec.SSA.strLe a.name b.name) := by
  rw [nameLe_eq]
  have hL : (L.mergeSort nameLe).Perm L := List.mergeSort_perm L nameLe
  have hR : (R.mergeSort nameLe).Perm R := List.mergeSort_perm R nameLe
  have hanti : ∀ a b : GStyle, a ∈ L.mergeSort nameLe → b ∈ R.mergeSort nameLe →
      nameLe a b = true → nameLe b a = true → a = b := by
    intro a b ha hb h1 h2
    have ha' : a ∈ R := hp.subset (hL.subset ha)
    have hb' : b ∈ R := hR.subset hb
    have e : a.name = b.name := strLe_antisymm a.name b.name h1 h2
    exact eq_of_nodup_map (fun g : GStyle => g.name) R hnd a ha' b hb' e
  have hperm : (L.mergeSort nameLe).Perm (R.mergeSort nameLe) := hL.trans (hp.trans hR.symm)
  exact List.Perm.eq_of_pairwise (le := fun a b => nameLe a b = true) hanti
    (pairwise_mergeSort_nameLe L) (pairwise_mergeSort_nameLe R) hperm

theorem bridge_styles (s : Subs) (L : List GStyle)
    (h : Spec.SSA.mapM (fun (d : Def) => (Spec.SSA.attrsView Spec.SSA.styleTable d.attrs).map fun a => ({ name := d.id, attrs := a } : GStyle)) s.styles = some L)
    (h64 : ∀ g ∈ L, attrs64 g.attrs = true) (hnd : (styleIds s).Nodup) :
    L.mergeSort (fun a b => Spec.SSA.strLe a.name b.name) =
      ((writerStyles s).map styleG).mergeSort (fun a b => Spec.SSA.strLe a.name b.name) := by
  have hL := bridge_styles_map s.styles L h h64
  subst hL
  apply mergeSort_styles_perm
  · unfold writerStyles
    rw [List.map_map]
    exact ((List.mergeSort_perm s.styles _).map _).symm
  · have e : ((writerStyles s).map styleG).map (·.name) = styleIds s := by
      unfold styleIds
      rw [List.map_map]
      rfl
    rw [e]
    exact hnd

end SSAW
end Astisub
