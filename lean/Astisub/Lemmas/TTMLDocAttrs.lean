import Astisub.Lemmas.TTMLDocXml
import Astisub.Lemmas.Str

/-!
# Lemmas/TTMLDocAttrs — the `tts:*` attributes and the `style` reference of an element, written and read back

`TTML.outAttrs` writes the `TTML*` entries of a `StyleAttributes` value as `tts:<name>` attributes in
the order of `TTML.attrTable`; `TTML.itemOfStart` (the decoder of `TTMLInStyleAttributes` and of the
`style` attribute) reads every one of them back into the field it came from.
-/

namespace Astisub
namespace TTMLDoc
open Go TTML List

/-! ### what the reader stores -/

/-- an optional reference as the reader stores it: `""` (written as no attribute at all) is no reference -/
def normRef (r : Option Str) : Option Str :=
  match r with
  | some v => if v = [] then none else some v
  | none => none

/-- the value of a `TTMLIn*` attribute field: `zIndex` is an `int` (parsed, printed canonically), the others strings -/
def inVal (f : String) (v : Str) : Option Str := if f = "ZIndex" then (parseIntAttr v).map itoa else some v

/-- the field of `TTMLInStyleAttributes` that the table row `p` fills from `a` -/
def inEntry (a : Attrs) (p : String × String) : Option (Str × Str) :=
  (kvGet a ("TTML" ++ p.1)).bind fun v => (inVal p.1 v).map fun v' => (p.1.toList, v')

/-- the set fields of `TTMLInStyleAttributes` after decoding what `outAttrs a` wrote: keyed by field name, in struct order -/
def inKV (a : Attrs) : KV := attrTable.filterMap (inEntry a)

/-- the style attributes are representable: `TTMLZIndex`, if set, is an integer (`*int` in `TTMLInStyleAttributes`;
    anything else makes `xml.Decode` fail) -/
def attrsOk (a : Attrs) : Bool :=
  match kvGet a "TTMLZIndex" with
  | some v => (parseIntAttr v).isSome
  | none => true

example : attrsOk (some [("TTMLColor".toList, "red".toList), ("TTMLZIndex".toList, " +7".toList)]) = true := by decide
example : attrsOk (some [("TTMLZIndex".toList, "x".toList)]) = false := by decide
example : inKV (some [("TTMLColor".toList, "red".toList), ("TTMLZIndex".toList, " +7".toList)])
    = [("Color".toList, "red".toList), ("ZIndex".toList, "7".toList)] := by decide

/-! ### the attribute list as the tokenizer reports it -/

/-- the raw attribute the table row `p` contributes -/
def rawEntry (a : Attrs) (p : String × String) : Option (Str × Str × Str) :=
  (kvGet a ("TTML" ++ p.1)).map fun v => ("tts".toList, p.2.toList, v)

/-- the XML local names of the table as character lists (`String.toList` of a literal is slow in the kernel:
    it is done once, here) -/
def rowNames : List Str :=
  [['b', 'a', 'c', 'k', 'g', 'r', 'o', 'u', 'n', 'd', 'C', 'o', 'l', 'o', 'r'],
   ['c', 'o', 'l', 'o', 'r'],
   ['d', 'i', 'r', 'e', 'c', 't', 'i', 'o', 'n'],
   ['d', 'i', 's', 'p', 'l', 'a', 'y'],
   ['d', 'i', 's', 'p', 'l', 'a', 'y', 'A', 'l', 'i', 'g', 'n'],
   ['e', 'x', 't', 'e', 'n', 't'],
   ['f', 'o', 'n', 't', 'F', 'a', 'm', 'i', 'l', 'y'],
   ['f', 'o', 'n', 't', 'S', 'i', 'z', 'e'],
   ['f', 'o', 'n', 't', 'S', 't', 'y', 'l', 'e'],
   ['f', 'o', 'n', 't', 'W', 'e', 'i', 'g', 'h', 't'],
   ['l', 'i', 'n', 'e', 'H', 'e', 'i', 'g', 'h', 't'],
   ['o', 'p', 'a', 'c', 'i', 't', 'y'],
   ['o', 'r', 'i', 'g', 'i', 'n'],
   ['o', 'v', 'e', 'r', 'f', 'l', 'o', 'w'],
   ['p', 'a', 'd', 'd', 'i', 'n', 'g'],
   ['s', 'h', 'o', 'w', 'B', 'a', 'c', 'k', 'g', 'r', 'o', 'u', 'n', 'd'],
   ['t', 'e', 'x', 't', 'A', 'l', 'i', 'g', 'n'],
   ['t', 'e', 'x', 't', 'D', 'e', 'c', 'o', 'r', 'a', 't', 'i', 'o', 'n'],
   ['t', 'e', 'x', 't', 'O', 'u', 't', 'l', 'i', 'n', 'e'],
   ['u', 'n', 'i', 'c', 'o', 'd', 'e', 'B', 'i', 'd', 'i'],
   ['v', 'i', 's', 'i', 'b', 'i', 'l', 'i', 't', 'y'],
   ['w', 'r', 'a', 'p', 'O', 'p', 't', 'i', 'o', 'n'],
   ['w', 'r', 'i', 't', 'i', 'n', 'g', 'M', 'o', 'd', 'e'],
   ['z', 'I', 'n', 'd', 'e', 'x']]

/-- the field names of the table as character lists -/
def fieldNames : List Str :=
  [['B', 'a', 'c', 'k', 'g', 'r', 'o', 'u', 'n', 'd', 'C', 'o', 'l', 'o', 'r'],
   ['C', 'o', 'l', 'o', 'r'],
   ['D', 'i', 'r', 'e', 'c', 't', 'i', 'o', 'n'],
   ['D', 'i', 's', 'p', 'l', 'a', 'y'],
   ['D', 'i', 's', 'p', 'l', 'a', 'y', 'A', 'l', 'i', 'g', 'n'],
   ['E', 'x', 't', 'e', 'n', 't'],
   ['F', 'o', 'n', 't', 'F', 'a', 'm', 'i', 'l', 'y'],
   ['F', 'o', 'n', 't', 'S', 'i', 'z', 'e'],
   ['F', 'o', 'n', 't', 'S', 't', 'y', 'l', 'e'],
   ['F', 'o', 'n', 't', 'W', 'e', 'i', 'g', 'h', 't'],
   ['L', 'i', 'n', 'e', 'H', 'e', 'i', 'g', 'h', 't'],
   ['O', 'p', 'a', 'c', 'i', 't', 'y'],
   ['O', 'r', 'i', 'g', 'i', 'n'],
   ['O', 'v', 'e', 'r', 'f', 'l', 'o', 'w'],
   ['P', 'a', 'd', 'd', 'i', 'n', 'g'],
   ['S', 'h', 'o', 'w', 'B', 'a', 'c', 'k', 'g', 'r', 'o', 'u', 'n', 'd'],
   ['T', 'e', 'x', 't', 'A', 'l', 'i', 'g', 'n'],
   ['T', 'e', 'x', 't', 'D', 'e', 'c', 'o', 'r', 'a', 't', 'i', 'o', 'n'],
   ['T', 'e', 'x', 't', 'O', 'u', 't', 'l', 'i', 'n', 'e'],
   ['U', 'n', 'i', 'c', 'o', 'd', 'e', 'B', 'i', 'd', 'i'],
   ['V', 'i', 's', 'i', 'b', 'i', 'l', 'i', 't', 'y'],
   ['W', 'r', 'a', 'p', 'O', 'p', 't', 'i', 'o', 'n'],
   ['W', 'r', 'i', 't', 'i', 'n', 'g', 'M', 'o', 'd', 'e'],
   ['Z', 'I', 'n', 'd', 'e', 'x']]

theorem rowNames_eq : attrTable.map (fun p => p.2.toList) = rowNames := by rfl
theorem fieldNames_eq : attrTable.map (fun p => p.1.toList) = fieldNames := by rfl

theorem row_mem {p : String × String} (hp : p ∈ attrTable) : p.2.toList ∈ rowNames := by
  rw [← rowNames_eq]; exact mem_map_of_mem (f := fun p : String × String => p.2.toList) hp

theorem rowNames_no_colon : ∀ x ∈ rowNames, ':' ∉ x := by decide +kernel

theorem tts_toList : "tts:".toList = ['t', 't', 's'] ++ [':'] := by rfl
theorem tts_toList' : "tts".toList = ['t', 't', 's'] := by rfl

theorem splitName_tts : ∀ p ∈ attrTable, splitName ("tts:" ++ p.2).toList = ("tts".toList, p.2.toList) := by
  intro p hp
  have hc := rowNames_no_colon _ (row_mem hp)
  unfold splitName
  rw [String.toList_append, tts_toList, append_assoc, singleton_append,
    splitC_append _ (by decide), splitC_not_mem hc, tts_toList']

theorem rawAttr_tts {p : String × String} (hp : p ∈ attrTable) (v : Str) :
    rawAttr (("tts:" ++ p.2).toList, v) = ("tts".toList, p.2.toList, v) := by
  unfold rawAttr
  rw [splitName_tts p hp]
  rfl

theorem filterMap_congr' {α β : Type} {f g : α → Option β} {l : List α} (h : ∀ x ∈ l, f x = g x) :
    l.filterMap f = l.filterMap g := by
  induction l with
  | nil => rfl
  | cons x l ih =>
    rw [filterMap_cons, filterMap_cons, h x (by simp), ih (fun y hy => h y (by simp [hy]))]

theorem rawAttrs_outAttrs (a : Attrs) : (outAttrs a).map rawAttr = attrTable.filterMap (rawEntry a) := by
  unfold outAttrs
  rw [map_filterMap]
  apply filterMap_congr'
  intro p hp
  obtain ⟨f, x⟩ := p
  simp only [rawEntry]
  cases kvGet a ("TTML" ++ f) with
  | none => rfl
  | some v => simp only [Option.map_some]; rw [rawAttr_tts hp]

theorem style_toList : "style".toList = ['s', 't', 'y', 'l', 'e'] := by rfl

theorem row_not_style : ∀ p ∈ attrTable, p.2.toList ≠ "style".toList := by
  intro p hp e
  have h : ['s', 't', 'y', 'l', 'e'] ∉ rowNames := by decide +kernel
  rw [style_toList] at e
  exact h (e ▸ row_mem hp)

theorem rowNames_nodup : rowNames.Nodup := by decide +kernel
theorem fieldNames_nodup : fieldNames.Nodup := by decide +kernel

theorem find_self {α β : Type} [DecidableEq β] (f : α → β) (l : List α) (h : (l.map f).Nodup) {p : α} (hp : p ∈ l) :
    l.find? (fun q => f q = f p) = some p := by
  induction l with
  | nil => simp at hp
  | cons a l ih =>
    rw [map_cons, nodup_cons] at h
    by_cases ha : a = p
    · subst ha; simp
    · have hp' : p ∈ l := by
        rcases mem_cons.mp hp with e | e
        · exact absurd e.symm ha
        · exact e
      have hne : f a ≠ f p := fun e => h.1 (e ▸ mem_map_of_mem hp')
      rw [find?_cons]
      simp only [hne, decide_false]
      exact ih h.2 hp'

theorem row_find : ∀ p ∈ attrTable, attrTable.find? (fun q => q.2.toList = p.2.toList) = some p := by
  intro p hp
  exact find_self (fun q : String × String => q.2.toList) attrTable (by rw [rowNames_eq]; exact rowNames_nodup) hp

theorem fields_nodup : (attrTable.map (·.1.toList)).Nodup := by
  rw [fieldNames_eq]; exact fieldNames_nodup

theorem kvSet_fresh (kv : KV) (k v : Str) (h : k ∉ kv.map (·.1)) : kvSet kv k v = kv ++ [(k, v)] := by
  unfold kvSet
  congr 1
  rw [filter_eq_self]
  intro p hp
  have : p.1 ≠ k := fun e => h (e ▸ mem_map_of_mem hp)
  simpa using this

/-- one table attribute is stored under its field name -/
theorem itemOfStart_row (name : Str) {p : String × String} (hp : p ∈ attrTable) (v v' : Str)
    (hv : inVal p.1 v = some v') (rest : List (Str × Str × Str)) (it : InItem) :
    itemOfStart name (("tts".toList, p.2.toList, v) :: rest) it
      = itemOfStart name rest { it with attrs := kvSet it.attrs p.1.toList v' } := by
  rw [itemOfStart]
  simp only [row_not_style p hp, ↓reduceIte, row_find p hp]
  unfold inVal at hv
  by_cases hz : p.1 = "ZIndex"
  · simp only [hz, ↓reduceIte] at hv ⊢
    cases hpi : parseIntAttr v with
    | none => rw [hpi] at hv; simp at hv
    | some z =>
      rw [hpi] at hv
      simp only [Option.map_some, Option.some.injEq] at hv
      simp only [hv]
  · simp only [hz, ↓reduceIte, Option.some.injEq] at hv ⊢
    rw [hv]

theorem inVal_ok (a : Attrs) (hok : attrsOk a = true) (f : String) (v : Str)
    (hv : kvGet a ("TTML" ++ f) = some v) : ∃ v', inVal f v = some v' := by
  unfold inVal
  by_cases hz : f = "ZIndex"
  · subst hz
    have e : ("TTML" ++ "ZIndex" : String) = "TTMLZIndex" := by decide
    rw [e] at hv
    unfold attrsOk at hok
    rw [hv] at hok
    simp only [↓reduceIte]
    cases hpi : parseIntAttr v with
    | none => simp [hpi] at hok
    | some z => exact ⟨_, rfl⟩
  · simp [hz]

/-- **the written `tts:*` attributes are read back field by field** (rows `tbl` of the table, accumulator `it`
    holding none of their fields yet) -/
theorem itemOfStart_rows (a : Attrs) (hok : attrsOk a = true) (name : Str) :
    ∀ (tbl : List (String × String)) (it : InItem),
      (∀ p ∈ tbl, p ∈ attrTable) → (tbl.map (·.1.toList)).Nodup →
      (∀ p ∈ tbl, p.1.toList ∉ it.attrs.map (·.1)) →
      itemOfStart name (tbl.filterMap (rawEntry a)) it
        = some { it with name := name, attrs := it.attrs ++ tbl.filterMap (inEntry a) } := by
  intro tbl
  induction tbl with
  | nil => intro it _ _ _; simp [itemOfStart]
  | cons p tbl ih =>
    intro it hmem hnd hfresh
    rw [map_cons, nodup_cons] at hnd
    have hp : p ∈ attrTable := hmem p (by simp)
    have hmem' : ∀ q ∈ tbl, q ∈ attrTable := fun q hq => hmem q (by simp [hq])
    cases hk : kvGet a ("TTML" ++ p.1) with
    | none =>
      have e1 : rawEntry a p = none := by simp [rawEntry, hk]
      have e2 : inEntry a p = none := by simp [inEntry, hk]
      rw [filterMap_cons, e1, filterMap_cons, e2]
      exact ih it hmem' hnd.2 (fun q hq => hfresh q (by simp [hq]))
    | some v =>
      obtain ⟨v', hv'⟩ := inVal_ok a hok p.1 v hk
      have e1 : rawEntry a p = some ("tts".toList, p.2.toList, v) := by simp [rawEntry, hk]
      have e2 : inEntry a p = some (p.1.toList, v') := by simp [inEntry, hk, hv']
      rw [filterMap_cons, e1, filterMap_cons, e2]
      simp only
      rw [itemOfStart_row name hp v v' hv', kvSet_fresh _ _ _ (hfresh p (by simp))]
      rw [ih _ hmem' hnd.2 ?_]
      · simp
      · intro q hq
        simp only [map_append, map_cons, map_nil, mem_append, mem_singleton, not_or]
        refine ⟨hfresh q (by simp [hq]), fun e => hnd.1 ?_⟩
        rw [← e]
        exact mem_map_of_mem (f := fun x : String × String => x.1.toList) hq

/-- `splitName` of the literal attribute name `style` -/
theorem rawAttr_style (v : Str) : rawAttr ("style".toList, v) = ([], "style".toList, v) := by
  unfold rawAttr
  have : splitName "style".toList = ([], "style".toList) := by decide
  rw [this]; rfl

/-- the optional `style` attribute, raw -/
theorem rawAttrs_optStyle (r : Option Str) :
    (optAttr "style" r).map rawAttr = (match normRef r with | some v => [([], "style".toList, v)] | none => []) := by
  cases r with
  | none => rfl
  | some v =>
    cases v with
    | nil => rfl
    | cons c cs =>
      have e : optAttr "style" (some (c :: cs)) = [("style".toList, c :: cs)] := rfl
      rw [e, map_cons, map_nil, rawAttr_style]
      rfl

/-- **Attributes of an element (target 3).** The `style` reference and the `tts:*` attributes the writer
    puts on a `span`, `p`, `style` or `region` are decoded into: the reference (`""` when absent) and
    the fields `inKV a`, in struct order, each under the name of the field it was written from. -/
theorem itemOfStart_written (name : Str) (r : Option Str) (a : Attrs) (hok : attrsOk a = true) :
    itemOfStart name ((optAttr "style" r ++ outAttrs a).map rawAttr) {}
      = some { name := name, style := (normRef r).getD [], text := [], attrs := inKV a } := by
  rw [map_append, rawAttrs_optStyle, rawAttrs_outAttrs]
  have hrows := fun it h => itemOfStart_rows a hok name attrTable it (fun _ h => h) fields_nodup h
  cases hr : normRef r with
  | none =>
    simp only [nil_append]
    rw [hrows {} (by simp)]
    rfl
  | some v =>
    simp only [cons_append, nil_append]
    rw [itemOfStart]
    simp only [↓reduceIte]
    rw [hrows _ (by simp)]
    rfl

/-! ### field by field -/

theorem lookup_filterMap {α : Type} (key : α → Str) (val : α → Option Str) (l : List α)
    (hnd : (l.map key).Nodup) {p : α} (hp : p ∈ l) :
    (l.filterMap fun q => (val q).map fun v => (key q, v)).lookup (key p) = val p := by
  induction l with
  | nil => simp at hp
  | cons a l ih =>
    rw [map_cons, nodup_cons] at hnd
    rw [filterMap_cons]
    by_cases ha : a = p
    · subst ha
      cases hv : val a with
      | some v => simp [List.lookup]
      | none =>
        simp only [Option.map_none]
        -- no later entry has this key
        have : ∀ (l' : List α), (∀ q ∈ l', key q ≠ key a) →
            (l'.filterMap fun q => (val q).map fun v => (key q, v)).lookup (key a) = none := by
          intro l'
          induction l' with
          | nil => intro _; rfl
          | cons b l' ih' =>
            intro hb
            rw [filterMap_cons]
            cases val b with
            | none => exact ih' (fun q hq => hb q (by simp [hq]))
            | some w =>
              have hne : (key a == key b) = false := by
                simpa using fun e => hb b (by simp) e.symm
              simp only [Option.map_some, List.lookup, hne]
              exact ih' (fun q hq => hb q (by simp [hq]))
        exact this l (fun q hq e => hnd.1 (e ▸ mem_map_of_mem hq))
    · have hp' : p ∈ l := by
        rcases mem_cons.mp hp with e | e
        · exact absurd e.symm ha
        · exact e
      have hne : key p ≠ key a := fun e => hnd.1 (e ▸ mem_map_of_mem hp')
      cases val a with
      | none => exact ih hnd.2 hp'
      | some w =>
        have hb : (key p == key a) = false := by simpa using hne
        simp only [Option.map_some, List.lookup, hb]
        exact ih hnd.2 hp'

/-- **Every attribute of the table is read back into the field it was written from (target 3):** the field
    `f` of the decoded `TTMLInStyleAttributes` holds the value of `TTML<f>` (`zIndex`: parsed and printed again) -/
theorem inKV_get (a : Attrs) {p : String × String} (hp : p ∈ attrTable) :
    TTML.get (inKV a) p.1 = (kvGet a ("TTML" ++ p.1)).bind (inVal p.1) := by
  have e : inKV a = attrTable.filterMap fun q =>
      ((kvGet a ("TTML" ++ q.1)).bind (inVal q.1)).map fun v => (q.1.toList, v) := by
    unfold inKV
    apply filterMap_congr'
    intro q _
    unfold inEntry
    cases kvGet a ("TTML" ++ q.1) with
    | none => rfl
    | some v => simp
  unfold TTML.get
  rw [e]
  exact lookup_filterMap (fun q : String × String => q.1.toList) _ attrTable fields_nodup hp

theorem inKV_get_str (a : Attrs) {p : String × String} (hp : p ∈ attrTable) (hz : p.1 ≠ "ZIndex") :
    TTML.get (inKV a) p.1 = kvGet a ("TTML" ++ p.1) := by
  rw [inKV_get a hp]
  cases kvGet a ("TTML" ++ p.1) with
  | none => rfl
  | some v => simp [inVal, hz]

end TTMLDoc
end Astisub
