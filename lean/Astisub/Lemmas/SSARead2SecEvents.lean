import Astisub.Lemmas.SSARead2Info
import Astisub.Lemmas.SSARead2Event

/-!
# Lemmas/SSARead2SecEvents — an `[Events]` section: the reader's loop and `Spec.SSA.eventsOf`
-/

namespace Astisub
namespace SSAR
open Go SSA
open Spec.SSA (SecKind secKind classify eventsOf eventOf nodup eventCols)

/-- the reader's Format list and the decoder's column list of the current `[Events]` section correspond -/
def FmtE (format : List Str) (fmt : Option (List String)) : Prop :=
  match fmt with
  | none => format = []
  | some cols => format ≠ [] ∧ cols = format.map String.ofList ∧ nodup cols = true ∧
      cols.all (fun c => eventCols.contains c) = true

/-- the reader's events and the decoder's events correspond: for every set of style names (none starting with `*`)
    the view of the item the reader builds is the decoder's event with its style reference resolved -/
def EvRel (es : List Event) (rs : List Spec.SSA.REvent) : Prop :=
  (∀ e ∈ es, e.category = "Dialogue".toList) ∧
  ∀ names : List Str, (∀ n ∈ names, n.head? ≠ some '*') →
    es.map (fun e => Spec.SSA.eventView (eventItem names e)) =
      rs.map (fun r => some { r.ev with style := Spec.SSA.resolve names r.styleName })

theorem eventsLine_format (st : St) (v : Str) :
    eventsLine st "Format".toList v = .ok { st with format := mergeFormat st.format ((splitC ',' v).map trimSpace) } := by
  unfold eventsLine; simp

theorem eventsLine_other (st : St) (k v : Str) (h1 : k ≠ "Format".toList) (h2 : k ≠ "Dialogue".toList) (hf : st.format ≠ []) :
    eventsLine st k v = .ok st := by
  unfold eventsLine
  have : st.format.isEmpty = false := by cases h : st.format <;> simp_all
  rw [if_neg h1, this]
  simp only [Bool.false_eq_true, ↓reduceIte]
  rw [if_pos h2]

theorem eventsLine_dialogue (st : St) (v : Str) (hf : st.format ≠ []) :
    eventsLine st "Dialogue".toList v = match eventRow "Dialogue".toList v st.format with
      | some e => .ok { st with events := st.events ++ [e] }
      | none => .err := by
  unfold eventsLine
  have : st.format.isEmpty = false := by cases h : st.format <;> simp_all
  have hne : ¬ "Dialogue".toList = "Format".toList := by decide
  rw [if_neg hne, this]
  simp only [Bool.false_eq_true, ↓reduceIte]
  rw [if_neg (fun h => h rfl)]
  cases eventRow "Dialogue".toList v st.format <;> rfl

/-- **Events section.** Whenever the decoder reads the body of an `[Events]` section as the events `rs` (64-bit
    integers), the reader's loop succeeds on it, appends one `Dialogue` event per decoded event — related by `EvRel` —
    collects the comments, and changes nothing else -/
theorem run_events_sec : ∀ (body : List Str) (st : St) (fmt : Option (List String)) (rs : List Spec.SSA.REvent),
    st.sec = .events → st.first = false → (∀ l ∈ body, BodyLine l) → FmtE st.format fmt →
    eventsOf body fmt = some rs → (∀ r ∈ rs, event64 r.ev = true) →
    ∃ st', runL st body = .ok st' ∧ st'.sec = .events ∧ st'.first = false ∧ st'.styles = st.styles ∧
      st'.info.vals = st.info.vals ∧ st'.info.comments = st.info.comments ++ Spec.SSA.commentsOf body ∧
      ∃ es, st'.events = st.events ++ es ∧ EvRel es rs := by
  intro body
  induction body with
  | nil =>
    intro st fmt rs hs hf _ _ hd _
    simp only [eventsOf, Option.some.injEq] at hd
    subst hd
    exact ⟨st, rfl, hs, hf, rfl, rfl, by simp [Spec.SSA.commentsOf], [], by simp, by simp [EvRel]⟩
  | cons l ls ih =>
    intro st fmt rs hs hf hb hfmt hd h64
    have hl := hb l (by simp)
    have hu : ¬ st.sec = .unknown := by rw [hs]; decide
    have hb' : ∀ x ∈ ls, BodyLine x := fun x hx => hb x (by simp [hx])
    rw [runL, stepL_body st l hl.1 hl.2 hf, if_neg hu, commentsOf_cons]
    rw [eventsOf] at hd
    cases hc : classify l with
    | comment c =>
      rw [hc] at hd
      simp only at hd ⊢
      obtain ⟨st', h1, h2, h3, h4, h5, h6, h7⟩ :=
        ih { st with info := { st.info with comments := st.info.comments ++ [c] } } fmt rs hs hf hb' hfmt hd h64
      exact ⟨st', h1, h2, h3, h4, h5, by rw [h6]; simp, h7⟩
    | junk =>
      rw [hc] at hd
      simp only at hd ⊢
      obtain ⟨st', h1, h2, h3, h4, h5, h6, h7⟩ := ih st fmt rs hs hf hb' hfmt hd h64
      exact ⟨st', h1, h2, h3, h4, h5, by rw [h6]; simp, h7⟩
    | kv k v =>
      rw [hc] at hd
      simp only at hd ⊢
      by_cases hcol : l.head? = some ':'
      · rw [if_pos hcol]
        have hk := classify_kv_colon hc hcol
        subst hk
        have e1 : ¬ ([] : Str) = "Format".toList := by decide
        have e2 : ¬ ([] : Str) = "Dialogue".toList := by decide
        rw [if_neg e1, if_neg e2] at hd
        cases fmt with
        | none => simp at hd
        | some cols =>
          simp only [Option.isNone_some, Bool.false_eq_true, ↓reduceIte] at hd
          obtain ⟨st', h1, h2, h3, h4, h5, h6, h7⟩ := ih st (some cols) rs hs hf hb' hfmt hd h64
          exact ⟨st', h1, h2, h3, h4, h5, by rw [h6]; simp, h7⟩
      · rw [if_neg hcol, kvStep_events st k v hs]
        by_cases hF : k = "Format".toList
        · subst hF
          rw [if_pos rfl] at hd
          cases fmt with
          | some cols => simp at hd
          | none =>
            simp only [Option.isSome_none, Bool.false_eq_true, ↓reduceIte] at hd
            split at hd
            · rename_i hcond
              rw [Bool.and_eq_true] at hcond
              have hfe : st.format = [] := hfmt
              rw [eventsLine_format]
              simp only
              have hm : mergeFormat st.format ((splitC ',' v).map trimSpace) = (splitC ',' v).map trimSpace := by
                rw [hfe]; simp [mergeFormat]
              rw [hm]
              have hfmt' : FmtE ((splitC ',' v).map trimSpace) (some ((splitC ',' v).map fun c => String.ofList (trimSpace c))) := by
                refine ⟨?_, by rw [List.map_map]; rfl, hcond.1, hcond.2⟩
                intro e
                exact splitC_ne_nil ',' v (List.map_eq_nil_iff.mp e)
              obtain ⟨st', h1, h2, h3, h4, h5, h6, h7⟩ :=
                ih { st with format := (splitC ',' v).map trimSpace } _ rs hs hf hb' hfmt' hd h64
              exact ⟨st', h1, h2, h3, h4, h5, by rw [h6]; simp, h7⟩
            · cases hd
        · rw [if_neg hF] at hd
          by_cases hS : k = "Dialogue".toList
          · subst hS
            rw [if_pos rfl] at hd
            cases fmt with
            | none => simp at hd
            | some cols =>
              simp only at hd
              obtain ⟨hne, hcols, hnd, hall⟩ := hfmt
              cases hrow : eventOf cols v with
              | none => simp [hrow] at hd
              | some r =>
                cases hrest : eventsOf ls (some cols) with
                | none => simp [hrow, hrest] at hd
                | some rest =>
                  simp only [hrow, hrest, Option.some.injEq] at hd
                  subst hd
                  rw [hcols] at hrow hnd hall
                  obtain ⟨e, hm1, hm2, hm3⟩ := eventRow_spec st.format v r hnd hall hrow (h64 r (by simp))
                  rw [eventsLine_dialogue st v hne, hm1]
                  simp only
                  obtain ⟨st', h1, h2, h3, h4, h5, h6, es, h7, h8, h9⟩ :=
                    ih { st with events := st.events ++ [e] } (some cols) rest hs hf hb' ⟨hne, hcols, by rw [hcols]; exact hnd, by rw [hcols]; exact hall⟩ hrest
                      (fun x hx => h64 x (by simp [hx]))
                  refine ⟨st', h1, h2, h3, h4, h5, by rw [h6]; simp, e :: es, by rw [h7]; simp, ?_, ?_⟩
                  · intro x hx
                    rcases List.mem_cons.mp hx with rfl | hx
                    · exact hm2
                    · exact h8 x hx
                  · intro names hn
                    simp only [List.map_cons, hm3 names hn, h9 names hn]
          · rw [if_neg hS] at hd
            cases fmt with
            | none => simp at hd
            | some cols =>
              simp only [Option.isNone_some, Bool.false_eq_true, ↓reduceIte] at hd
              rw [eventsLine_other st k v hF hS hfmt.1]
              obtain ⟨st', h1, h2, h3, h4, h5, h6, h7⟩ := ih st (some cols) rs hs hf hb' hfmt hd h64
              exact ⟨st', h1, h2, h3, h4, h5, by rw [h6]; simp, h7⟩

end SSAR
end Astisub
