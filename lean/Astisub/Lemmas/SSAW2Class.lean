import Astisub.Lemmas.SSAW2Main

/-!
# Lemmas/SSAW2Class — the written document is in the class of the read clause (`SSAR.InClass`)
-/

namespace Astisub
namespace SSAW
open Go SSA SSAR List
open Spec.SSA (SecKind secKind sections classify infoTable intOf GDoc)

theorem headerLine_plain (l : Str) (hk : secKind l = none) :
    ((secKind l).isNone || !(l.any fun c => c = Char.ofNat 0x130 || c = Char.ofNat 0x212A)) = true := by
  rw [hk]; rfl

theorem headersOk_written (s : Subs) (rows : List Str) (hr : ∀ r ∈ rows, Trimmed r)
    (he : ∀ e ∈ s.items.map eventOfItem, Trimmed e.text) : headersOk (docLinesT s rows) = true := by
  unfold headersOk
  rw [all_eq_true]
  intro l hl
  unfold docLinesT at hl
  rcases mem_append.mp hl with hl | hl
  · rcases mem_append.mp hl with hl | hl
    · rcases mem_cons.mp hl with rfl | hl
      · decide
      · exact headerLine_plain l (infoBody_secKind _ l hl)
    · unfold stylesT at hl
      split at hl
      · cases hl
      · rcases mem_append.mp hl with hl | hl
        · rcases mem_cons.mp hl with rfl | hl
          · cases isV4plus s <;> decide
          · rcases mem_cons.mp hl with rfl | hl
            · exact headerLine_plain _ ((stylesBodyT_facts _ rows hr).2 _ mem_cons_self)
            · cases hl
        · exact headerLine_plain _ ((stylesBodyT_facts (formatFlds (writerStyles s)) rows hr).2 _ (mem_cons_of_mem _ hl))
  · unfold eventsT at hl
    rcases mem_append.mp hl with hl | hl
    · rcases mem_cons.mp hl with rfl | hl
      · decide
      · rcases mem_cons.mp hl with rfl | hl
        · exact headerLine_plain _ ((eventsBodyT_facts (isV4plus s) _ he).2 _ mem_cons_self)
        · cases hl
    · exact headerLine_plain _ ((eventsBodyT_facts (isV4plus s) (s.items.map eventOfItem) he).2 _ (mem_cons_of_mem _ hl))

theorem in64_of_int64 {v : Int} (h : Int64 v) : In64 v = true := by
  unfold In64
  simp only [Bool.and_eq_true, decide_eq_true_eq]
  exact h

theorem infoLineOk_body (b : Info) (hb : InfoDec b) : ∀ l ∈ infoBody b, infoLineOk l = true := by
  intro l hl
  unfold infoBody at hl
  rcases mem_append.mp hl with hl | hl
  · obtain ⟨c, hc, rfl⟩ := mem_map.mp hl
    unfold infoLineOk
    rw [classify_commentTrim c (hb.1.1 c hc).1]
  · obtain ⟨⟨f, v, t⟩, hp, rfl⟩ := mem_map.mp hl
    obtain ⟨_, hget, ht⟩ := mem_infoTriples.mp hp
    have hs : SIOK f v := hb.1.2 f (si_all_complete f) v hget
    obtain ⟨htr, hcase⟩ := value_text f v t hs (valTimer_of b hb f v hget) ht
    unfold infoLineOk
    rw [classify_kvTrim _ _ (si_headerOK f) htr]
    simp only [ofList_header, infoTable_lookup]
    rcases hcase with ⟨e, i, rfl, hi⟩ | ⟨e, bits, rfl, _⟩ | ⟨e, rfl, _⟩ <;> rw [e]
    · have h64 : Int64 i := hs.2
      simp [gk, hi, in64_of_int64 h64]
    · rfl
    · rfl

/-- **The written document is in the class of the read clause.** -/
theorem inClass_written (s : Subs) (out : Str) (want : GDoc) (hr : RepRead s)
    (hx : Extra s want) (hw : write s = .ok out) (hcr : '\r' ∉ out) (hdec : Spec.SSA.decode out = some want) :
    InClass out = true := by
  obtain ⟨rows, hrows, rfl⟩ := written_lines s out hw
  have hb : InfoDec (infoOfMeta s.metadata) := ⟨hr.1, hx.timer⟩
  have hrT : ∀ r ∈ rows, Trimmed r := by
    intro r hr'
    obtain ⟨st, hst, hrow⟩ := allSome_mem _ _ _ hrows r hr'
    exact trimmed_style_row st _ (hr.2.1 st hst).2.1 r hrow
  have heT : ∀ e ∈ s.items.map eventOfItem, Trimmed e.text := fun e he => (hr.2.2.1 e he).2.1
  have hbom : bomOk (unlines (docLinesW s rows)) = true := by
    unfold docLinesW
    rw [cons_append, cons_append, unlines_cons]
    rfl
  have h64 : ints64 want = true := by
    have := hx.ints
    unfold wantInts64 at this
    simp only [Bool.and_eq_true] at this
    exact this.2
  unfold InClass
  rw [hbom, specLines_written s rows hb hrT heT (docLinesW_nl s rows hr hrows) hcr, headersOk_written s rows hrT heT,
    sections_written s rows hrT heT, hdec]
  simp only [Bool.and_self, Bool.true_and, h64, Bool.and_true]
  have hinfo : (infoBody (infoOfMeta s.metadata)).all infoLineOk = true :=
    all_eq_true.mpr (infoLineOk_body _ hb)
  unfold infoOk
  by_cases h0 : rows = []
  · rw [if_pos h0]
    simp [hinfo]
  · rw [if_neg h0]
    simp [hinfo]

end SSAW
end Astisub
