import Astisub.Lemmas.SSARead2Scalar
import Astisub.Lemmas.SSA2Fix

/-!
# Lemmas/SSARead2Style — one `Style:` row under any Format line the decoder accepts: model = decoder

* `styleTable_eq`: the decoder's table is the model's (`Fld.all`, `Fld.col`, `Fld.key`, `gk ∘ Fld.kind`);
* `colOfName_name_iff`, `colOfName_fld_iff`: what a Format column means to the model, in terms of `normCol`;
* `vals_get_set`, `lookup_cons_ite`, `mapM_id_eq_some`: list bookkeeping;
* `parseVal_of_valOf`: a cell the decoder accepts is parsed by the model, and its canonical text is read back by the view;
* `styleField_step`, `styleFields_inv`: the fold of `newSSAStyleFromString`, attribute by attribute (`cellUpd`);
* `styleRow_spec_of_nodup`, `styleRow_spec`: the row.
-/

namespace Astisub
namespace SSAR
open Go SSA

def gk : Kind → Spec.SSA.GKind
  | .bool => .bool | .colour => .colour | .float => .float | .int => .int | .str => .str

theorem styleTable_eq : Spec.SSA.styleTable = Fld.all.map (fun f => (f.col, f.key, gk f.kind)) := by rfl

/-! ### columns -/

theorem normCol_tertiary : Spec.SSA.normCol "TertiaryColour".toList = "OutlineColour" := by decide

theorem normCol_of_ne {c : Str} (h : c ≠ "TertiaryColour".toList) : Spec.SSA.normCol c = String.ofList c := by
  unfold Spec.SSA.normCol; rw [if_neg h]

theorem col_ne_Name (f : Fld) : f.col ≠ "Name" := by
  intro h; exact col_ne_name f (by rw [h])

theorem col_injective {f g : Fld} (h : f.col = g.col) : f = g := col_toList_injective f g (by rw [h])

theorem colOfName_name_iff (c : Str) : colOfName c = some .name ↔ Spec.SSA.normCol c = "Name" := by
  constructor
  · intro h
    unfold colOfName at h
    by_cases h1 : c = "Name".toList
    · subst h1; decide
    · rw [if_neg h1] at h
      by_cases h2 : c = "TertiaryColour".toList
      · rw [if_pos h2] at h; cases h
      · rw [if_neg h2] at h
        cases hf : Fld.all.find? fun f => f.col.toList = c <;> rw [hf] at h <;> cases h
  · intro h
    by_cases h2 : c = "TertiaryColour".toList
    · subst h2; exact absurd h (by decide)
    · rw [normCol_of_ne h2] at h
      have : c = "Name".toList := by rw [← h, String.toList_ofList]
      subst this; decide

theorem colOfName_fld_iff (c : Str) (f : Fld) : colOfName c = some (.fld f) ↔ Spec.SSA.normCol c = f.col := by
  constructor
  · intro h
    unfold colOfName at h
    by_cases h1 : c = "Name".toList
    · rw [if_pos h1] at h; cases h
    · rw [if_neg h1] at h
      by_cases h2 : c = "TertiaryColour".toList
      · rw [if_pos h2] at h
        have : f = .outlineColour := by injection h with h; injection h with h; exact h.symm
        subst this; subst h2; decide
      · rw [if_neg h2] at h
        rw [normCol_of_ne h2]
        cases hf : Fld.all.find? fun f => f.col.toList = c with
        | none => rw [hf] at h; cases h
        | some g =>
          rw [hf] at h
          have : g = f := by injection h with h; injection h
          subst this
          have := List.find?_some hf
          simp only [decide_eq_true_eq] at this
          rw [← this, String.ofList_toList]
  · intro h
    by_cases h2 : c = "TertiaryColour".toList
    · subst h2
      rw [normCol_tertiary] at h
      have : f = .outlineColour := (col_injective (f := .outlineColour) h).symm
      subst this; decide
    · rw [normCol_of_ne h2] at h
      have : c = f.col.toList := by rw [← h, String.toList_ofList]
      subst this
      exact C04.col_roundtrip f

/-! ### values of a style -/

theorem lookup_cons_ite {α β} [BEq α] [LawfulBEq α] [DecidableEq α] (a k : α) (b : β) (as : List (α × β)) :
    List.lookup a ((k, b) :: as) = if a = k then some b else List.lookup a as := by
  rw [List.lookup_cons]
  by_cases h : a = k
  · subst h; simp
  · have : (a == k) = false := by simp [h]
    rw [this, if_neg h]

theorem vals_get_set {κ} [DecidableEq κ] (l : Vals κ) (k k' : κ) (v : Val) :
    (l.set k v).get k' = if k' = k then some v else l.get k' := by
  unfold Vals.set Vals.get
  induction l with
  | nil => rw [List.filter_nil, List.nil_append, lookup_cons_ite]
  | cons p l ih =>
    obtain ⟨a, b⟩ := p
    by_cases h : a = k
    · subst h
      rw [List.filter_cons, if_neg (by simp), ih, lookup_cons_ite]
      by_cases h' : k' = a <;> simp [h']
    · rw [List.filter_cons, if_pos (by simp [h]), List.cons_append, lookup_cons_ite, lookup_cons_ite, ih]
      by_cases h' : k' = a
      · subst h'; simp [h]
      · simp [h']

/-! ### one cell -/

def pvOpt (k : Kind) (cell : Str) : Option Val := match parseVal k cell with | .ok v => some v | _ => none

theorem parseVal_of_valOf (k : Kind) (cell : Str) (gv : Spec.SSA.GVal) (h : Spec.SSA.valOf (gk k) cell = some gv)
    (h64 : ∀ v, gv = .i v → In64 v = true) :
    ∃ mv, parseVal k cell = .ok mv ∧ Spec.SSA.canonVal (gk k) mv.canon = some gv := by
  cases k with
  | bool =>
    simp only [gk, Spec.SSA.valOf, Option.map_eq_some_iff] at h
    obtain ⟨b, hb, rfl⟩ := h
    refine ⟨.b b, ?_, ?_⟩
    · simp only [parseVal]; rw [atoiLoose_of_boolOf hb]
    · cases b <;> decide
  | colour =>
    simp only [gk, Spec.SSA.valOf, Option.map_eq_some_iff] at h
    obtain ⟨c, hc, rfl⟩ := h
    obtain ⟨hp, hlt⟩ := parseColour_of_colourOf hc
    refine ⟨.c c, ?_, ?_⟩
    · simp only [parseVal, hp]
    · simp only [gk, Spec.SSA.canonVal, Val.canon, hexOf_hex8 c hlt, Option.map_some]
  | float =>
    simp only [gk, Spec.SSA.valOf, Option.map_eq_some_iff] at h
    obtain ⟨b, hb, rfl⟩ := h
    refine ⟨.f b, ?_, ?_⟩
    · simp only [parseVal, parseFloat_of_floatOf hb]
    · simp only [gk, Spec.SSA.canonVal, Val.canon, spec_natOf_itoaNat, Option.map_some]
  | int =>
    simp only [gk, Spec.SSA.valOf, Option.map_eq_some_iff] at h
    obtain ⟨v, hv, rfl⟩ := h
    refine ⟨.i v, ?_, ?_⟩
    · simp only [parseVal, atoi_of_intOf hv (h64 v rfl)]
    · simp only [gk, Spec.SSA.canonVal, Val.canon, spec_intOf_itoa, Option.map_some]
  | str =>
    simp only [gk, Spec.SSA.valOf, Option.some.injEq] at h
    subst h
    exact ⟨.s cell, rfl, rfl⟩

/-! ### `mapM id` -/

theorem mapM_id_eq_some {α} (l : List (Option α)) (a : List α) : Spec.SSA.mapM id l = some a ↔ l = a.map some := by
  induction l generalizing a with
  | nil =>
    cases a <;> simp [Spec.SSA.mapM]
  | cons x l ih =>
    cases x with
    | none => cases a <;> simp [Spec.SSA.mapM]
    | some x =>
      cases hm : Spec.SSA.mapM id l with
      | none =>
        cases a with
        | nil => simp [Spec.SSA.mapM, hm]
        | cons y a =>
          simp only [Spec.SSA.mapM, hm, id, List.map_cons, List.cons.injEq, Option.some.injEq]
          constructor
          · intro h; cases h
          · rintro ⟨_, hl⟩
            rw [(ih a).mpr hl] at hm; cases hm
      | some bs =>
        have := (ih bs).mp hm
        subst this
        cases a with
        | nil => simp [Spec.SSA.mapM, hm]
        | cons y a =>
          simp only [Spec.SSA.mapM, hm, id, Option.some.injEq, List.cons.injEq, List.map_cons]
          constructor
          · rintro ⟨rfl, rfl⟩; exact ⟨rfl, rfl⟩
          · rintro ⟨rfl, h⟩
            exact ⟨rfl, (List.map_inj_right (fun _ _ h => Option.some.inj h)).mp h⟩

/-! ### the fold -/

/-- what a (possibly absent, possibly empty) cell does to an attribute -/
def cellUpd {α} (o : Option Str) (old : α) (new : Str → α) : α :=
  match o with | some cell => if cell.isEmpty then old else new cell | none => old

theorem cellUpd_combine {α} (x k : String) (cell : Str) (r : Option Str) (old : α) (new : Str → α) (h : x = k → r = none) :
    cellUpd r (cellUpd (if x = k then some cell else none) old new) new
      = cellUpd (if x = k then some cell else r) old new := by
  by_cases hx : x = k
  · simp only [h hx, if_pos hx]; rfl
  · simp only [if_neg hx]; rfl

theorem styleField_step (st : Style) (c cell : Str)
    (hp : ∀ f : Fld, Spec.SSA.normCol c = f.col → cell.isEmpty = false → ∃ mv, parseVal f.kind cell = .ok mv) :
    ∃ st1, styleField st c cell = .ok st1 ∧
      st1.name = cellUpd (if "Name" = Spec.SSA.normCol c then some cell else none) st.name id ∧
      ∀ f : Fld, st1.vals.get f = cellUpd (if f.col = Spec.SSA.normCol c then some cell else none) (st.vals.get f) (pvOpt f.kind) := by
  unfold styleField
  by_cases he : cell.isEmpty = true
  · rw [if_pos he]
    refine ⟨st, rfl, ?_, ?_⟩
    · by_cases h : "Name" = Spec.SSA.normCol c <;> simp [h, cellUpd, he]
    · intro f
      by_cases h : f.col = Spec.SSA.normCol c <;> simp [h, cellUpd, he]
  · rw [if_neg he]
    have he' : cell.isEmpty = false := by simpa using he
    cases hc : colOfName c with
    | none =>
      refine ⟨st, rfl, ?_, ?_⟩
      · have : ¬ "Name" = Spec.SSA.normCol c := by
          intro h; rw [(colOfName_name_iff c).mpr h.symm] at hc; cases hc
        rw [if_neg this]; rfl
      · intro f
        have : ¬ f.col = Spec.SSA.normCol c := by
          intro h; rw [(colOfName_fld_iff c f).mpr h.symm] at hc; cases hc
        rw [if_neg this]; rfl
    | some col =>
      cases col with
      | name =>
        have hn := (colOfName_name_iff c).mp hc
        refine ⟨{ st with name := cell }, rfl, ?_, ?_⟩
        · rw [if_pos hn.symm]; simp [cellUpd, he']
        · intro f
          have : ¬ f.col = Spec.SSA.normCol c := by rw [hn]; exact col_ne_Name f
          rw [if_neg this]; rfl
      | fld g =>
        have hg := (colOfName_fld_iff c g).mp hc
        obtain ⟨mv, hmv⟩ := hp g hg he'
        dsimp only
        rw [hmv]
        refine ⟨_, rfl, ?_, ?_⟩
        · have : ¬ "Name" = Spec.SSA.normCol c := by rw [hg]; exact fun h => col_ne_Name g h.symm
          rw [if_neg this]; rfl
        · intro f
          simp only [vals_get_set]
          by_cases hfg : f = g
          · subst hfg
            rw [if_pos rfl, if_pos hg.symm]
            simp [cellUpd, he', pvOpt, hmv]
          · have : ¬ f.col = Spec.SSA.normCol c := by rw [hg]; exact fun h => hfg (col_injective h)
            rw [if_neg hfg, if_neg this]; rfl

theorem nodup_cons {a : String} {as : List String} (h : Spec.SSA.nodup (a :: as) = true) :
    as.contains a = false ∧ Spec.SSA.nodup as = true := by
  simpa [Spec.SSA.nodup] using h

/-- the (column, cell) pairs as the decoder sees them -/
def normPairs (ps : List (Str × Str)) : List (String × Str) := ps.map (Prod.map Spec.SSA.normCol id)

theorem normPairs_lookup_none (ps : List (Str × Str)) (k : String)
    (h : (ps.map fun p => Spec.SSA.normCol p.1).contains k = false) : (normPairs ps).lookup k = none := by
  rw [List.lookup_eq_none_iff]
  intro p hp
  obtain ⟨q, hq, rfl⟩ := List.mem_map.mp hp
  simp only [List.contains_eq_mem, List.mem_map, decide_eq_false_iff_not, not_exists, not_and] at h
  simpa [Prod.map] using fun e => h q hq e.symm

theorem styleFields_inv : ∀ (ps : List (Str × Str)) (st : Style),
    Spec.SSA.nodup (ps.map fun p => Spec.SSA.normCol p.1) = true →
    (∀ (f : Fld) (cell : Str), (normPairs ps).lookup f.col = some cell → cell.isEmpty = false →
      ∃ mv, parseVal f.kind cell = .ok mv) →
    ∃ st', styleFields st ps = .ok st' ∧
      st'.name = cellUpd ((normPairs ps).lookup "Name") st.name id ∧
      ∀ f : Fld, st'.vals.get f = cellUpd ((normPairs ps).lookup f.col) (st.vals.get f) (pvOpt f.kind)
  | [], st, _, _ => ⟨st, rfl, rfl, fun _ => rfl⟩
  | (c, cell) :: rest, st, hnd, hp => by
    obtain ⟨hnc, hnd'⟩ := nodup_cons hnd
    have hk : ∀ x : String, x = Spec.SSA.normCol c → (normPairs rest).lookup x = none := by
      intro x hx; subst hx; exact normPairs_lookup_none rest _ hnc
    have hlk : ∀ x : String, (normPairs ((c, cell) :: rest)).lookup x
        = if x = Spec.SSA.normCol c then some cell else (normPairs rest).lookup x :=
      fun x => lookup_cons_ite x _ cell (normPairs rest)
    obtain ⟨st1, h1, hn1, hv1⟩ := styleField_step st c cell
      (fun f hf he => hp f cell (by rw [hlk, if_pos hf.symm]) he)
    obtain ⟨st', h2, hn2, hv2⟩ := styleFields_inv rest st1 hnd' (fun f cell' hl he => hp f cell' (by
      rw [hlk]
      by_cases hx : f.col = Spec.SSA.normCol c
      · rw [hk _ hx] at hl; cases hl
      · rw [if_neg hx]; exact hl) he)
    refine ⟨st', ?_, ?_, ?_⟩
    · simp only [styleFields, h1]; exact h2
    · rw [hn2, hn1, hlk, cellUpd_combine _ _ _ _ _ _ (hk _)]
    · intro f
      rw [hv2, hv1, hlk, cellUpd_combine _ _ _ _ _ _ (hk _)]

/-- the decoder's entry of one table row -/
def specEntry (pairs : List (String × Str)) : String × String × Spec.SSA.GKind → Option (Option (String × Spec.SSA.GVal)) :=
  fun (col, _, kind) =>
    match pairs.lookup col with
    | none => some none
    | some cell => if cell.isEmpty then some none else (Spec.SSA.valOf kind cell).map fun v => some (col, v)

theorem specStyleRow_eq (cols : List String) (v : Str) :
    specStyleRow cols v =
      if (splitC ',' v).length ≠ cols.length then none else
      (Spec.SSA.mapM id (Spec.SSA.styleTable.map (specEntry (cols.zip (splitC ',' v))))).map fun a =>
        { name := ((cols.zip (splitC ',' v)).lookup "Name").getD [], attrs := a.filterMap id } := rfl

/-- the view's entry of one table row -/
def viewEntry (a : Attrs) : String × String × Spec.SSA.GKind → Option (Option (String × Spec.SSA.GVal)) :=
  fun (col, key, kind) =>
    match Spec.SSA.kvGet a key with
    | none => some none
    | some s => (Spec.SSA.canonVal kind s).map fun v => some (col, v)

theorem attrsView_eq (table : List (String × String × Spec.SSA.GKind)) (a : Attrs) :
    Spec.SSA.attrsView table a = (Spec.SSA.mapM id (table.map (viewEntry a))).map fun l => l.filterMap id := rfl

/-- `styleRow_spec` without the (unneeded) hypothesis that every column is known: the model ignores unknown columns
    and so does the decoder's table -/
theorem styleRow_spec_of_nodup (format : List Str) (v : Str) (gs : Spec.SSA.GStyle)
    (hnd : Spec.SSA.nodup (format.map Spec.SSA.normCol) = true)
    (hrow : specStyleRow (format.map Spec.SSA.normCol) v = some gs) (h64 : attrs64 gs.attrs = true) :
    ∃ ms, styleRow v format = .ok ms ∧ styleView ms = some gs := by
  rw [specStyleRow_eq] at hrow
  by_cases hlen : (splitC ',' v).length ≠ (format.map Spec.SSA.normCol).length
  · rw [if_pos hlen] at hrow; cases hrow
  rw [if_neg hlen] at hrow
  have hlen' : (splitC ',' v).length = format.length := by simpa using hlen
  obtain ⟨a, hmap, rfl⟩ := Option.map_eq_some_iff.mp hrow
  rw [mapM_id_eq_some] at hmap
  have hpairs : (format.map Spec.SSA.normCol).zip (splitC ',' v) = normPairs (format.zip (splitC ',' v)) :=
    List.zip_map_left
  rw [hpairs] at hmap ⊢
  have h64' : ∀ (col : String) (i : Int), (col, Spec.SSA.GVal.i i) ∈ a.filterMap id → In64 i = true := by
    intro col i hm
    have := List.all_eq_true.mp h64 _ hm
    exact this
  -- what the decoder says of every field
  have hE : ∀ f : Fld, ∃ x, x ∈ a ∧ specEntry (normPairs (format.zip (splitC ',' v))) (f.col, f.key, gk f.kind) = some x := by
    intro f
    have hm : (f.col, f.key, gk f.kind) ∈ Spec.SSA.styleTable := by
      rw [styleTable_eq]; exact List.mem_map.mpr ⟨f, C04.fld_all_complete f, rfl⟩
    have := List.mem_map_of_mem (f := specEntry (normPairs (format.zip (splitC ',' v)))) hm
    rw [hmap] at this
    obtain ⟨x, hx, he⟩ := List.mem_map.mp this
    exact ⟨x, hx, he.symm⟩
  have hcell : ∀ (f : Fld) (cell : Str), (normPairs (format.zip (splitC ',' v))).lookup f.col = some cell →
      cell.isEmpty = false →
      ∃ mv, parseVal f.kind cell = .ok mv ∧
        (Spec.SSA.canonVal (gk f.kind) mv.canon).map (fun v => some (f.col, v))
          = specEntry (normPairs (format.zip (splitC ',' v))) (f.col, f.key, gk f.kind) := by
    intro f cell hl he
    obtain ⟨x, hx, hEx⟩ := hE f
    simp only [specEntry, hl, he, Bool.false_eq_true, ↓reduceIte, Option.map_eq_some_iff] at hEx ⊢
    obtain ⟨gv, hgv, rfl⟩ := hEx
    have hin : (f.col, gv) ∈ a.filterMap id := List.mem_filterMap.mpr ⟨_, hx, rfl⟩
    obtain ⟨mv, hmv, hc⟩ := parseVal_of_valOf f.kind cell gv hgv (fun i hi => h64' f.col i (hi ▸ hin))
    exact ⟨mv, hmv, by rw [hc, hgv]⟩
  -- the model's fold
  have hfst : ((format.zip (splitC ',' v)).map fun p => Spec.SSA.normCol p.1) = format.map Spec.SSA.normCol := by
    rw [show (fun p : Str × Str => Spec.SSA.normCol p.1) = Spec.SSA.normCol ∘ Prod.fst from rfl,
      ← List.map_map, List.map_fst_zip (by omega)]
  obtain ⟨ms, hms, hname, hvals⟩ := styleFields_inv (format.zip (splitC ',' v)) {} (by rw [hfst]; exact hnd)
    (fun f cell hl he => (hcell f cell hl he).imp fun _ h => h.1)
  refine ⟨ms, ?_, ?_⟩
  · unfold styleRow
    simp only [hlen', ne_eq, not_true_eq_false, ↓reduceIte]
    exact hms
  · unfold styleView defView
    rw [attrsView_eq]
    have hv : Spec.SSA.styleTable.map (viewEntry ms.toDef.attrs)
        = Spec.SSA.styleTable.map (specEntry (normPairs (format.zip (splitC ',' v)))) := by
      rw [styleTable_eq, List.map_map, List.map_map]
      apply List.map_congr_left
      intro f _
      have hk : Spec.SSA.kvGet ms.toDef.attrs f.key = (ms.vals.get f).map Val.canon := kvGet_toDef_key ms f
      simp only [Function.comp, viewEntry, hk, hvals f]
      cases hl : (normPairs (format.zip (splitC ',' v))).lookup f.col with
      | none => simp only [specEntry, hl]; rfl
      | some cell =>
        by_cases he : cell.isEmpty = true
        · simp only [specEntry, hl, cellUpd, he, ↓reduceIte]; rfl
        · have he' : cell.isEmpty = false := by simpa using he
          obtain ⟨mv, hmv, hc⟩ := hcell f cell hl he'
          rw [← hc]
          simp only [cellUpd, he', Bool.false_eq_true, ↓reduceIte, pvOpt, hmv, Option.map_some]
    rw [hv, hmap, (mapM_id_eq_some _ _).mpr rfl]
    simp only [Option.map_some, Option.some.injEq]
    have : ms.toDef.id = ((normPairs (format.zip (splitC ',' v))).lookup "Name").getD [] := by
      show ms.name = _
      rw [hname]
      cases hl : (normPairs (format.zip (splitC ',' v))).lookup "Name" with
      | none => rfl
      | some cell =>
        by_cases he : cell.isEmpty = true
        · simp only [cellUpd, he, ↓reduceIte, Option.getD_some]
          exact (List.isEmpty_iff.mp he).symm
        · simp only [cellUpd, he, Bool.false_eq_true, ↓reduceIte, Option.getD_some, id]
    rw [this]

/-- **Style row.** `format` is the model's Format (trimmed column names, any permutation / subset the decoder accepts:
    distinct after `TertiaryColour ↦ OutlineColour`, all known).  If the decoder reads the row `v` as the style `gs`
    and the integers of `gs` fit 64 bits, `newSSAStyleFromString` succeeds and `view` maps its result to `gs`. -/
theorem styleRow_spec (format : List Str) (v : Str) (gs : Spec.SSA.GStyle)
    (hnd : Spec.SSA.nodup (format.map Spec.SSA.normCol) = true)
    (hall : (format.map Spec.SSA.normCol).all (fun c => c = "Name" || (Spec.SSA.styleTable.lookup c).isSome) = true)
    (hrow : specStyleRow (format.map Spec.SSA.normCol) v = some gs) (h64 : attrs64 gs.attrs = true) :
    ∃ ms, styleRow v format = .ok ms ∧ styleView ms = some gs := by
  have _ := hall
  exact styleRow_spec_of_nodup format v gs hnd hrow h64

end SSAR
end Astisub
