import Astisub.Props.C06

/-!
# Lemmas/TeleFrame — the data-unit loop of `process` and the specification's `dataUnits`

`unitLoop` (model of the loop in `teletextPageBuffer.process`) walks over `id, len, len bytes` records and
hands each one to `parseDataUnit`; `Spec.Teletext.dataUnits` cuts the same bytes into `(id, bytes)` pairs.
Here: whenever the specification can cut the field (all units complete), the model visits exactly those
units, in order; and only the subtitle units (id 3, at least 44 bytes, framing code 0xe4) can change the
page buffer.
-/

namespace Astisub
namespace Teletext
open Go Generated.Teletext

/-- a data unit as the specification returns it: identifier, bytes -/
abbrev DUnit := Nat × List Nat

/-- the bytes of a data unit in a PES data field: identifier, length, bytes -/
def encodeUnit (u : DUnit) : List Nat := u.1 :: u.2.length :: u.2

/-- the bytes of a sequence of complete data units -/
def encodeUnits (us : List DUnit) : List Nat := us.flatMap encodeUnit

/-- hand the units to `parseDataUnit`, in order -/
def feedUnits (t : Int) (b : Buf) (us : List DUnit) : Buf :=
  us.foldl (fun b u => parseDataUnit b u.2 u.1 t) b

/-- a unit the packet parser gets to see: EBU subtitle data (id 3), a whole teletext packet, framing code 0xe4 -/
def isSubtitleUnit (u : DUnit) : Bool := u.1 == 3 && decide (44 ≤ u.2.length) && nth u.2 1 == 0xe4

theorem encodeUnits_cons (u : DUnit) (us : List DUnit) :
    encodeUnits (u :: us) = u.1 :: u.2.length :: (u.2 ++ encodeUnits us) := by
  simp [encodeUnits, encodeUnit]

theorem encodeUnits_length_cons (u : DUnit) (us : List DUnit) :
    (encodeUnits (u :: us)).length = 2 + u.2.length + (encodeUnits us).length := by
  rw [encodeUnits_cons]; simp; omega

/-- the specification cuts the encoding of a list of units back into that list (any fuel that covers the bytes) -/
theorem dataUnits_encodeUnits : ∀ (us : List DUnit) (fuel : Nat), (encodeUnits us).length ≤ fuel →
    Spec.Teletext.dataUnits fuel (encodeUnits us) = some us
  | [], fuel, _ => by simp [encodeUnits, Spec.Teletext.dataUnits]
  | u :: us, 0, h => by rw [encodeUnits_length_cons] at h; omega
  | u :: us, fuel + 1, h => by
    rw [encodeUnits_length_cons] at h
    rw [encodeUnits_cons, Spec.Teletext.dataUnits]
    have hl : ¬ (u.2 ++ encodeUnits us).length < u.2.length := by simp
    rw [if_neg hl, List.drop_left, dataUnits_encodeUnits us fuel (by omega), List.take_left]
    rfl

/-- conversely: whatever the specification cuts out of a field is a list of units whose encoding is the field -/
theorem dataUnits_some : ∀ (fuel : Nat) (data : List Nat) (us : List DUnit),
    Spec.Teletext.dataUnits fuel data = some us → data = encodeUnits us
  | fuel, [], us, h => by
    cases fuel <;> simp [Spec.Teletext.dataUnits] at h <;> subst h <;> rfl
  | 0, _ :: _, us, h => by simp [Spec.Teletext.dataUnits] at h
  | fuel + 1, [_], us, h => by simp [Spec.Teletext.dataUnits] at h
  | fuel + 1, id :: len :: rest, us, h => by
    rw [Spec.Teletext.dataUnits] at h
    by_cases hl : rest.length < len
    · simp [hl] at h
    · rw [if_neg hl] at h
      cases hr : Spec.Teletext.dataUnits fuel (rest.drop len) with
      | none => simp [hr] at h
      | some us' =>
        simp [hr] at h
        subst h
        have ih := dataUnits_some fuel _ us' hr
        rw [encodeUnits_cons]
        have hlen : (rest.take len).length = len := by simp; omega
        simp only [hlen, ← ih, List.take_append_drop]

/-- the model's loop visits exactly the units the specification cuts, in order -/
theorem unitLoop_dataUnits : ∀ (fuel : Nat) (b : Buf) (data : List Nat) (t : Int) (us : List DUnit),
    Spec.Teletext.dataUnits fuel data = some us → unitLoop fuel b data t = feedUnits t b us
  | fuel, b, [], t, us, h => by
    cases fuel <;> simp [Spec.Teletext.dataUnits] at h <;> subst h <;> simp [unitLoop, feedUnits]
  | 0, _, _ :: _, _, us, h => by simp [Spec.Teletext.dataUnits] at h
  | fuel + 1, _, [_], _, us, h => by simp [Spec.Teletext.dataUnits] at h
  | fuel + 1, b, id :: len :: rest, t, us, h => by
    rw [Spec.Teletext.dataUnits] at h
    by_cases hl : rest.length < len
    · simp [hl] at h
    · rw [if_neg hl] at h
      cases hr : Spec.Teletext.dataUnits fuel (rest.drop len) with
      | none => simp [hr] at h
      | some us' =>
        simp [hr] at h
        subst h
        have hl' : ¬ len > rest.length := by omega
        rw [unitLoop, if_neg hl', unitLoop_dataUnits fuel _ _ t us' hr]
        simp [feedUnits]

/-- a unit that is not a subtitle unit leaves the page buffer alone -/
theorem parseDataUnit_not_subtitle (b : Buf) (u : DUnit) (t : Int) (h : isSubtitleUnit u = false) :
    parseDataUnit b u.2 u.1 t = b := by
  by_cases h1 : u.1 = 3
  · by_cases h2 : u.2.length < 44
    · exact C06.C06_unit_short b _ _ t h2
    · have h3 : nth u.2 1 ≠ 0xe4 := by
        intro h3
        simp [isSubtitleUnit, h1, h3] at h
        omega
      exact C06.C06_unit_framing b _ _ t h3
  · exact C06.C06_unit_not_subtitle b _ _ t h1

/-- only the subtitle units matter -/
theorem feedUnits_filter (t : Int) : ∀ (us : List DUnit) (b : Buf),
    feedUnits t b us = feedUnits t b (us.filter isSubtitleUnit)
  | [], b => rfl
  | u :: us, b => by
    cases h : isSubtitleUnit u
    · have := parseDataUnit_not_subtitle b u t h
      simp only [feedUnits, List.foldl_cons, List.filter_cons, h] at *
      rw [this]; exact feedUnits_filter t us b
    · simp only [feedUnits, List.foldl_cons, List.filter_cons, h] at *
      exact feedUnits_filter t us _

theorem feedUnits_append (t : Int) (b : Buf) (us vs : List DUnit) :
    feedUnits t b (us ++ vs) = feedUnits t (feedUnits t b us) vs := by
  simp [feedUnits]

/-- `process` on an EBU data field whose units are complete -/
theorem process_dataUnits (b : Buf) (ident : Nat) (rest : List Nat) (t : Int) (us : List DUnit)
    (hid : 0x10 ≤ ident ∧ ident ≤ 0x1f) (h : Spec.Teletext.dataUnits rest.length rest = some us) :
    process b (ident :: rest) t =
      ({ feedUnits t b us with done := [] }, (feedUnits t b us).done) := by
  have : (decide (0x10 ≤ ident) && decide (ident ≤ 0x1f)) = true := by simp [hid.1, hid.2]
  simp only [process, this, Bool.not_true]
  rw [unitLoop_dataUnits _ b rest t us h]
  simp

end Teletext
end Astisub
