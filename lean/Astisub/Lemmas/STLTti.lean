import Astisub.Lemmas.STLText

/-!
# Lemmas/STLTti — one TTI block: what the reader makes of the 128 bytes the writer emits

A *repertoire row* (`RRun`) is one line of a cue made of one run: a sequence of repertoire units
(`C05.RepUnit`: table characters, letters with one floating diacritic) in one style (italics, underline,
boxing on or off).  The writer brackets the text with the style codes, joins the rows with 0x8A, encodes
and pads with 0x8F; the open-subtitling reader splits at 0x8A and runs the row loop.
-/

namespace Astisub
namespace C05
open Go STL

/-- one row of repertoire text in one style -/
structure RRun where
  units : List Unit
  italics : Bool := false
  underline : Bool := false
  boxing : Bool := false

namespace RRun

/-- the code points of the row -/
def text (r : RRun) : List Nat := r.units.flatMap (·.text)

/-- the run as the writer sees it -/
def toW (r : RRun) : WRun := { text := r.text, italics := r.italics, underline := r.underline, boxing := r.boxing }

def preCodes (r : RRun) : Bytes :=
  (if r.boxing then [0x84] else []) ++ (if r.underline then [0x82] else []) ++ (if r.italics then [0x80] else [])

def postCodes (r : RRun) : Bytes :=
  (if r.italics then [0x81] else []) ++ (if r.underline then [0x83] else []) ++ (if r.boxing then [0x85] else [])

/-- the bytes of the row in the text field: style on, text, style off -/
def bytes (r : RRun) : Bytes := r.preCodes ++ (r.units.flatMap (·.bytes) ++ r.postCodes)

def allUnits (r : RRun) : List Unit := r.preCodes.map codeUnit ++ (r.units ++ r.postCodes.map codeUnit)

/-- the style of the run the reader builds: an attribute is set (to true) iff the writer switched it on -/
def sty (r : RRun) : LSty :=
  { boxing := if r.boxing then some true else none, underline := if r.underline then some true else none,
    italics := if r.italics then some true else none }

/-- the line the reader returns for the row -/
def line (r : RRun) : Line :=
  { items := [{ text := trimSpace (str r.text), attrs := some (mkAttrs (stlAttrs r.sty)) }] }

/-- the row is over the repertoire and not blank -/
def ok (r : RRun) : Prop := (∀ u ∈ r.units, RepUnit u) ∧ trimSpace (str r.text) ≠ []

end RRun

theorem flatMap_codeUnit_text (cs : Bytes) : (cs.map codeUnit).flatMap (·.text) = cs := by
  induction cs with
  | nil => rfl
  | cons c cs ih => simp [codeUnit, List.flatMap_cons] at ih ⊢; exact ih

theorem flatMap_codeUnit_bytes (cs : Bytes) : (cs.map codeUnit).flatMap (·.bytes) = cs := by
  induction cs with
  | nil => rfl
  | cons c cs ih => simp [codeUnit, List.flatMap_cons] at ih ⊢; exact ih

theorem RRun.allUnits_bytes (r : RRun) : r.allUnits.flatMap (·.bytes) = r.bytes := by
  unfold RRun.allUnits RRun.bytes
  rw [List.flatMap_append, List.flatMap_append, flatMap_codeUnit_bytes, flatMap_codeUnit_bytes]

theorem RRun.allUnits_text (r : RRun) : r.allUnits.flatMap (·.text) = runString r.toW := by
  unfold RRun.allUnits
  rw [List.flatMap_append, List.flatMap_append, flatMap_codeUnit_text, flatMap_codeUnit_text]
  unfold runString RRun.toW RRun.preCodes RRun.postCodes RRun.text
  cases r.italics <;> cases r.underline <;> cases r.boxing <;> simp

theorem RRun.preCodes_isCode (r : RRun) : ∀ c ∈ r.preCodes, isCode c := by
  unfold RRun.preCodes isCode
  cases r.italics <;> cases r.underline <;> cases r.boxing <;> simp

theorem RRun.postCodes_isCode (r : RRun) : ∀ c ∈ r.postCodes, isCode c := by
  unfold RRun.postCodes isCode
  cases r.italics <;> cases r.underline <;> cases r.boxing <;> simp

theorem isCode_ctl {c : Nat} (h : isCode c) : c ∈ ctlCodes := by
  unfold isCode at h
  have : c = 0x80 ∨ c = 0x81 ∨ c = 0x82 ∨ c = 0x83 ∨ c = 0x84 ∨ c = 0x85 := by omega
  rcases this with rfl | rfl | rfl | rfl | rfl | rfl <;> decide

theorem RRun.allUnits_encGood (r : RRun) (h : ∀ u ∈ r.units, RepUnit u) : ∀ u ∈ r.allUnits, encGood u := by
  intro u hu
  unfold RRun.allUnits at hu
  simp only [List.mem_append, List.mem_map] at hu
  rcases hu with ⟨c, hc, rfl⟩ | hu | ⟨c, hc, rfl⟩
  · exact codeUnit_encGood c (isCode_ctl (r.preCodes_isCode c hc))
  · exact good_encGood (repUnit_good (h u hu))
  · exact codeUnit_encGood c (isCode_ctl (r.postCodes_isCode c hc))

theorem RRun.bytes_ne_break (r : RRun) (h : ∀ u ∈ r.units, RepUnit u) : ∀ b ∈ r.bytes, b ≠ 0x8A := by
  intro b hb
  unfold RRun.bytes at hb
  simp only [List.mem_append] at hb
  rcases hb with hb | hb | hb
  · have := r.preCodes_isCode b hb; unfold isCode at this; omega
  · have := units_bytes r.units h b hb; unfold tableByte at this; omega
  · have := r.postCodes_isCode b hb; unfold isCode at this; omega

/-! ## the text field of a cue -/

/-- the units of a whole cue: the rows with the line break between them -/
def cueUnits : List RRun → List Unit
  | [] => []
  | [r] => r.allUnits
  | r :: r2 :: rs => r.allUnits ++ codeUnit 0x8A :: cueUnits (r2 :: rs)

theorem cueUnits_text (rows : List RRun) :
    (cueUnits rows).flatMap (·.text) = joinN [0x8A] (rows.map fun r => runString r.toW) := by
  induction rows with
  | nil => rfl
  | cons r rs ih =>
    cases rs with
    | nil => simp [cueUnits, joinN, RRun.allUnits_text]
    | cons r2 rs' =>
      simp only [cueUnits, List.map_cons, joinN, List.flatMap_append, List.flatMap_cons, RRun.allUnits_text]
      simp only [List.map_cons] at ih
      rw [ih]; simp [codeUnit]

theorem cueUnits_bytes (rows : List RRun) :
    (cueUnits rows).flatMap (·.bytes) = joinN [0x8A] (rows.map RRun.bytes) := by
  induction rows with
  | nil => rfl
  | cons r rs ih =>
    cases rs with
    | nil => simp [cueUnits, joinN, RRun.allUnits_bytes]
    | cons r2 rs' =>
      simp only [cueUnits, List.map_cons, joinN, List.flatMap_append, List.flatMap_cons, RRun.allUnits_bytes]
      simp only [List.map_cons] at ih
      rw [ih]; simp [codeUnit]

theorem cueUnits_encGood (rows : List RRun) (h : ∀ r ∈ rows, ∀ u ∈ r.units, RepUnit u) :
    ∀ u ∈ cueUnits rows, encGood u := by
  induction rows with
  | nil => intro u hu; cases hu
  | cons r rs ih =>
    cases rs with
    | nil => exact r.allUnits_encGood (h r (by simp))
    | cons r2 rs' =>
      intro u hu
      simp only [cueUnits, List.mem_append, List.mem_cons] at hu
      rcases hu with hu | rfl | hu
      · exact r.allUnits_encGood (h r (by simp)) u hu
      · exact codeUnit_encGood _ (by decide)
      · exact ih (fun r' hr' => h r' (by simp [hr'])) u hu

theorem joinN_single (l : List WRun) (r : WRun) (h : l = [r]) : joinN [0x20] (l.map runString) = runString r := by
  subst h; rfl

/-- the text of a cue whose lines are single runs -/
theorem cueString_rows (c : WCue) (rows : List RRun) (hl : c.lines = rows.map fun r => [r.toW]) :
    cueString c = joinN [0x8A] (rows.map fun r => runString r.toW) := by
  unfold cueString
  rw [hl, List.map_map]
  congr 1

/-- **the writer's text field**: the rows' bytes joined by the line-break code -/
theorem encode_cue (c : WCue) (rows : List RRun) (hl : c.lines = rows.map fun r => [r.toW])
    (h : ∀ r ∈ rows, ∀ u ∈ r.units, RepUnit u) :
    encodeText (cueString c) = joinN [0x8A] (rows.map RRun.bytes) := by
  rw [cueString_rows c rows hl, ← cueUnits_text, encodeText_units _ (cueUnits_encGood rows h), cueUnits_bytes]

/-! ## the reader on one row -/

theorem openFold_pre (r : RRun) : openFold { acc := none } r.preCodes = some { acc := none, sty := r.sty } := by
  unfold RRun.preCodes RRun.sty
  cases r.italics <;> cases r.underline <;> cases r.boxing <;> rfl

theorem units_decode (us : List Unit) (h : ∀ u ∈ us, RepUnit u) :
    decodeAll none (us.flatMap (·.bytes)) = (us.flatMap (·.text), none) :=
  (text_roundtrip us (fun u hu => repUnit_good (h u hu))).2

/-- **one row.** The bytes of a repertoire row — followed by any amount of padding — are read as one line
    with one run: the row's text (blanks at both ends removed) in the row's style; no diacritic is left
    pending -/
theorem openRow_run (r : RRun) (h : r.ok) (k : Nat) :
    openRow none (r.bytes ++ List.replicate k 0x8F) = some (some r.line, none) := by
  obtain ⟨hu, hnb⟩ := h
  unfold openRow RRun.bytes
  rw [List.append_assoc, List.append_assoc, openFold_append, openFold_pre]
  simp only
  rw [openFold_append, openFold_text _ (fun b hb => tableByte_textByte (units_bytes r.units hu b hb)), units_decode r.units hu]
  simp only [List.nil_append]
  obtain ⟨st', h1, h2, h3⟩ := openFold_close r.postCodes r.postCodes_isCode k
    { acc := none, sty := r.sty, text := str (r.units.flatMap (·.text)) } hnb
  rw [h1]
  simp only [h3, h2]
  simp [RRun.line, RRun.text]

/-! ## splitting the text field into rows -/

/-- the rows with the padding glued to the last one (a field without rows is one row of padding) -/
def appendLast (p : Bytes) : List Bytes → List Bytes
  | [] => [p]
  | [r] => [r ++ p]
  | r :: r2 :: rs => r :: appendLast p (r2 :: rs)

theorem appendLast_length (p : Bytes) (rows : List Bytes) : (appendLast p rows).length = max 1 rows.length := by
  induction rows with
  | nil => rfl
  | cons r rs ih =>
    cases rs with
    | nil => rfl
    | cons r2 rs' => simp only [appendLast, List.length_cons] at ih ⊢; omega

theorem splitRows_join_pad (rows : List Bytes) (p : Bytes) (h : ∀ r ∈ rows, ∀ x ∈ r, x ≠ 0x8A) (hp : ∀ x ∈ p, x ≠ 0x8A) :
    splitRows (joinN [0x8A] rows ++ p) = appendLast p rows := by
  induction rows with
  | nil => simpa [joinN, appendLast] using splitRows_single p hp
  | cons r rs ih =>
    cases rs with
    | nil =>
      simp only [joinN, appendLast]
      apply splitRows_single
      intro x hx
      rcases List.mem_append.mp hx with hx | hx
      · exact h r (by simp) x hx
      · exact hp x hx
    | cons r2 rs' =>
      have : joinN [0x8A] (r :: r2 :: rs') ++ p = r ++ 0x8A :: (joinN [0x8A] (r2 :: rs') ++ p) := by simp [joinN]
      rw [this, splitRows_append r _ (h r (by simp)), ih (fun r' hr' => h r' (by simp [hr']))]
      rfl

/-- all rows of the field, one after the other, each with a fresh decoder state -/
theorem rowsFold_rows (rows : List RRun) (h : ∀ r ∈ rows, r.ok) (k : Nat) :
    rowsFold true none (appendLast (List.replicate k 0x8F) (rows.map RRun.bytes)) = some (rows.map RRun.line, none) := by
  induction rows with
  | nil =>
    simp only [List.map_nil, appendLast, rowsFold, if_true]
    have : openRow none (List.replicate k 0x8F) = some (none, none) := by
      unfold openRow
      rw [openFold_pad]
      rfl
    rw [this]
    rfl
  | cons r rs ih =>
    cases rs with
    | nil =>
      simp only [List.map_cons, List.map_nil, appendLast, rowsFold, if_true]
      rw [openRow_run r (h r (by simp)) k]
      rfl
    | cons r2 rs' =>
      have hr := openRow_run r (h r (by simp)) 0
      simp only [List.replicate_zero, List.append_nil] at hr
      have ih' := ih (fun r' hr' => h r' (by simp [hr']))
      simp only [List.map_cons] at ih'
      simp only [List.map_cons, appendLast, rowsFold, if_true]
      rw [hr]
      simp only
      rw [ih']
      rfl

/-! ## the fixed part of the block -/

theorem tti_layout (x0 x1 x2 x3 x4 t0 t1 t2 t3 u0 u1 u2 u3 v j z : Nat) (text : Bytes) (ht : text.length = 112) :
    let p := [x0, x1, x2, x3, x4] ++ [t0, t1, t2, t3] ++ [u0, u1, u2, u3] ++ [v, j, z] ++ text
    p.getD 3 0 = x3 ∧ slice p 5 9 = [t0, t1, t2, t3] ∧ slice p 9 13 = [u0, u1, u2, u3] ∧
      p.getD 13 0 = v ∧ p.getD 14 0 = j ∧ slice p 16 128 = text := by
  simp [slice, ← ht]

/-! ## the whole block -/

/-- the instant the reader assigns to the timecode the writer emits for instant `T`: the start of the
    frame `T` lies in (`C05.frameInstant_floor`) -/
def frameInstant (fr : Int) (T : Int) : Int :=
  Duration.parseSTLBytes true (Duration.formatSTLBytes T fr.toNat) fr

/-- the cue the reader builds from the block the writer emits for `c` (rows `rows`), `off` being the
    programme start the reader subtracts -/
def ttiCue (G : GSI) (g : WGSI) (off : Int) (c : WCue) (rows : List RRun) : CItem :=
  { startAt := frameInstant g.m.framerate (c.startAt + g.m.tcp) - off,
    endAt := frameInstant g.m.framerate (c.endAt + g.m.tcp) - off,
    attrs := itemAttrs (justCode c.just) (vpByte (c.vp.getD 20) g.m.dsc) (G.m.maxRows.getD 0) (max 1 rows.length),
    lines := rows.map RRun.line }

theorem padR_fit (f n : Nat) (s : Bytes) (h : s.length ≤ n) : padR f n s = s ++ List.replicate (n - s.length) f := by
  unfold padR
  apply List.take_of_length_le
  simp; omega

theorem ttiItem_ttiBytes (G : GSI) (g : WGSI) (off : Int) (idx : Nat) (c : WCue) (rows : List RRun)
    (hfr : G.m.framerate = g.m.framerate) (hdsc : G.m.dsc = [0x30])
    (hl : c.lines = rows.map fun r => [r.toW]) (hok : ∀ r ∈ rows, r.ok)
    (hfit : (encodeText (cueString c)).length ≤ 112) :
    ttiItem G off none (ttiBytes g idx c) = some (some (ttiCue G g off c rows), none) := by
  have hrep : ∀ r ∈ rows, ∀ u ∈ r.units, RepUnit u := fun r hr => (hok r hr).1
  obtain ⟨t0, t1, t2, t3, ht⟩ : ∃ t0 t1 t2 t3, Duration.formatSTLBytes (c.startAt + g.m.tcp) g.m.framerate.toNat = [t0, t1, t2, t3] :=
    ⟨_, _, _, _, rfl⟩
  obtain ⟨u0, u1, u2, u3, hu⟩ : ∃ u0 u1 u2 u3, Duration.formatSTLBytes (c.endAt + g.m.tcp) g.m.framerate.toNat = [u0, u1, u2, u3] :=
    ⟨_, _, _, _, rfl⟩
  have henc := encode_cue c rows hl hrep
  have htext : padR 0x8F 112 (encodeText (cueString c))
      = joinN [0x8A] (rows.map RRun.bytes) ++ List.replicate (112 - (encodeText (cueString c)).length) 0x8F := by
    rw [padR_fit _ _ _ hfit, henc]
  obtain ⟨h3, h5, h9, h13, h14, h16⟩ := tti_layout 0 (idx % 256) (idx / 256 % 256) 255 0 t0 t1 t2 t3 u0 u1 u2 u3
    (vpByte (c.vp.getD 20) g.m.dsc) (justCode c.just) 0 (padR 0x8F 112 (encodeText (cueString c))) (padR_length _ _ _)
  have hsplit : splitRows (padR 0x8F 112 (encodeText (cueString c)))
      = appendLast (List.replicate (112 - (encodeText (cueString c)).length) 0x8F) (rows.map RRun.bytes) := by
    rw [htext]
    apply splitRows_join_pad
    · intro rb hrb x hx
      obtain ⟨r, hr, rfl⟩ := List.mem_map.mp hrb
      exact r.bytes_ne_break (hrep r hr) x hx
    · intro x hx; rw [List.eq_of_mem_replicate hx]; decide
  have hb : ttiBytes g idx c = [0, idx % 256, idx / 256 % 256, 255, 0] ++ [t0, t1, t2, t3] ++ [u0, u1, u2, u3]
      ++ [vpByte (c.vp.getD 20) g.m.dsc, justCode c.just, 0] ++ padR 0x8F 112 (encodeText (cueString c)) := by
    rw [← ht, ← hu]; rfl
  have h255 : ((255 : Nat) == 0xFE) = false := by decide
  have h30 : (([0x30] : Bytes) == [0x30]) = true := by decide
  rw [hb]
  unfold ttiItem
  simp only [h3, h5, h9, h13, h14, h16, hsplit, hdsc, h255, h30, Bool.false_eq_true, if_false,
    rowsFold_rows rows hok, appendLast_length, List.length_map]
  unfold ttiCue frameInstant
  rw [ht, hu, hfr]

end C05
end Astisub
