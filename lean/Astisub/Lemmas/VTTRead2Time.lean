import Astisub.Lemmas.VTTRead2Defs
import Astisub.Lemmas.Str
import Astisub.Lemmas.SSAStr
import Astisub.Lemmas.VTTTiming
import Astisub.Lemmas.VTT2TsMap
import Astisub.Lemmas.VTTLine

/-!
# Lemmas/VTTRead2Time — the specification's time syntax is read by the model's `parseDuration`

`Spec.VTT.timeMs s = some ms → Duration.parseVTT s = some (ms * 10⁶)` and the timestamp-map line.
-/

namespace Astisub
namespace VTTRead
open Go List Spec.VTT

/-! ### digits -/

theorem isDigit_range {c : Char} (h : isDigit c = true) : 48 ≤ c.toNat ∧ c.toNat ≤ 57 := by
  simp only [isDigit, Bool.and_eq_true, decide_eq_true_eq] at h
  exact ⟨h.1, h.2⟩

theorem isDigit_noSpace {c : Char} (h : isDigit c = true) : isSpace c = false := by
  have ⟨a1, a2⟩ := isDigit_range h
  cases hs : isSpace c with
  | false => rfl
  | true =>
    simp only [isSpace, Bool.or_eq_true, Bool.and_eq_true, decide_eq_true_eq, beq_iff_eq] at hs
    omega

theorem isDigit_ne {c : Char} (h : isDigit c = true) (x : Char) (hx : isDigit x = false) : c ≠ x := by
  intro e; subst e; rw [h] at hx; cases hx

theorem isDigit_digitVal {c : Char} (h : isDigit c = true) : digitVal c = some (c.toNat - 48) := by
  simp only [isDigit, Bool.and_eq_true, decide_eq_true_eq] at h
  simp [digitVal, h]

theorem isDigit_isDig {c : Char} (h : isDigit c = true) : Go.isDig c = true := h

/-- the fold of `natOf` is `digitsVal` -/
theorem digitsVal_foldl : ∀ (t : Str) (acc : Nat), (∀ c ∈ t, isDigit c = true) →
    digitsVal t acc = some (t.foldl (fun a c => a * 10 + (c.toNat - 48)) acc) := by
  intro t
  induction t with
  | nil => intro acc _; rfl
  | cons x xs ih =>
    intro acc h
    rw [digitsVal, isDigit_digitVal (h x (by simp))]
    exact ih _ (fun c hc => h c (by simp [hc]))

theorem foldl_bound : ∀ (t : Str) (acc : Nat), (∀ c ∈ t, isDigit c = true) →
    t.foldl (fun a c => a * 10 + (c.toNat - 48)) acc < (acc + 1) * 10 ^ t.length := by
  intro t
  induction t with
  | nil => intro acc _; simp
  | cons x xs ih =>
    intro acc h
    have ⟨a1, a2⟩ := isDigit_range (h x (by simp))
    have := ih (acc * 10 + (x.toNat - 48)) (fun c hc => h c (by simp [hc]))
    simp only [foldl_cons, length_cons]
    refine Nat.lt_of_lt_of_le this ?_
    rw [Nat.pow_succ, Nat.mul_comm (10 ^ xs.length) 10, ← Nat.mul_assoc]
    exact Nat.mul_le_mul_right _ (by omega)

theorem natOf_spec {t : Str} {n : Nat} (h : natOf t = some n) :
    digitsVal t 0 = some n ∧ t ≠ [] ∧ (∀ c ∈ t, isDigit c = true) ∧ n < 10 ^ t.length := by
  unfold natOf at h
  split at h
  · cases h
  · rename_i hc
    simp only [Bool.or_eq_true, Bool.not_eq_true', not_or, Bool.not_eq_false] at hc
    have hd : ∀ c ∈ t, isDigit c = true := by simpa using hc.2
    have hne : t ≠ [] := by intro e; subst e; simp at hc
    injection h with h
    subst h
    refine ⟨digitsVal_foldl t 0 hd, hne, hd, ?_⟩
    simpa using foldl_bound t 0 hd

theorem natOf_atoi {t : Str} {n : Nat} (h : natOf t = some n) (hn : n ≤ int64Max) : atoi t = some (n : Int) := by
  obtain ⟨h1, h2, h3, _⟩ := natOf_spec h
  cases t with
  | nil => exact absurd rfl h2
  | cons x xs =>
    have hx := h3 x (by simp)
    have e1 : x ≠ '-' := isDigit_ne hx _ (by decide)
    have e2 : x ≠ '+' := isDigit_ne hx _ (by decide)
    have hp : parseDigits (x :: xs) = some n := by simp [parseDigits, h1]
    unfold atoi
    split
    · rename_i r heq; injection heq with a _; exact absurd a e1
    · rename_i r heq; injection heq with a _; exact absurd a e2
    · rw [hp]; simp [hn]

theorem natOf_noSpace {t : Str} {n : Nat} (h : natOf t = some n) : ∀ c ∈ t, isSpace c = false :=
  fun c hc => isDigit_noSpace ((natOf_spec h).2.2.1 c hc)

theorem natOf_trim {t : Str} {n : Nat} (h : natOf t = some n) : trimSpace t = t :=
  trimSpace_id (natOf_noSpace h)

/-! ### `splitC`, `join`, `trimSpace` -/

theorem splitC_ne_nil (c : Char) (s : Str) : splitC c s ≠ [] := by
  cases s with
  | nil => simp [splitC]
  | cons x xs =>
    unfold splitC
    split
    · simp
    · split <;> simp

theorem join_splitC (c : Char) : ∀ s : Str, join [c] (splitC c s) = s := by
  intro s
  induction s with
  | nil => rfl
  | cons x xs ih =>
    unfold splitC
    by_cases hx : x = c
    · subst hx
      simp only [if_true]
      cases hs : splitC x xs with
      | nil => exact absurd hs (splitC_ne_nil x xs)
      | cons h t => rw [hs] at ih; simp [join, ih]
    · simp only [hx, if_false]
      cases hs : splitC c xs with
      | nil => exact absurd hs (splitC_ne_nil c xs)
      | cons h t =>
        rw [hs] at ih
        cases t with
        | nil => simpa [join] using ih
        | cons b r => simp only [join] at ih ⊢; simp [ih]

theorem splitC_parts (c : Char) : ∀ s : Str, ∀ p ∈ splitC c s, c ∉ p := by
  intro s
  induction s with
  | nil => intro p hp; simp [splitC] at hp; subst hp; simp
  | cons x xs ih =>
    intro p hp
    unfold splitC at hp
    by_cases hx : x = c
    · simp only [hx, if_true, mem_cons] at hp
      rcases hp with rfl | hp
      · simp
      · exact ih p hp
    · simp only [hx, if_false] at hp
      cases hs : splitC c xs with
      | nil => exact absurd hs (splitC_ne_nil c xs)
      | cons h t =>
        rw [hs] at hp ih
        simp only [mem_cons] at hp
        rcases hp with rfl | hp
        · have := ih h (by simp)
          simp only [mem_cons, not_or]
          exact ⟨fun e => hx e.symm, this⟩
        · exact ih p (by simp [hp])

theorem splitC_two_inv {c : Char} {t x y : Str} (h : splitC c t = [x, y]) :
    t = x ++ c :: y ∧ c ∉ x ∧ c ∉ y := by
  have hj := join_splitC c t
  have hp := splitC_parts c t
  rw [h] at hj hp
  refine ⟨by simpa [join] using hj.symm, hp x (by simp), hp y (by simp)⟩

theorem dropWhile_all_append {p : Char → Bool} : ∀ (a r : Str), (∀ c ∈ a, p c = true) →
    (a ++ r).dropWhile p = r.dropWhile p := by
  intro a
  induction a with
  | nil => intro r _; rfl
  | cons x xs ih =>
    intro r h
    simp only [cons_append, dropWhile_cons, h x (by simp), if_true]
    exact ih r (fun c hc => h c (by simp [hc]))

theorem dropWhile_trimmed_append {m b : Str} (hm : ∀ c, m.head? = some c → isSpace c = false)
    (hb : ∀ c ∈ b, isSpace c = true) : (m ++ b).dropWhile isSpace = if m = [] then [] else m ++ b := by
  cases m with
  | nil => simpa using (VTT.dropWhile_eq_nil_iff isSpace b).mpr hb
  | cons x xs => simp [hm x rfl]

/-- `TrimSpace` removes the white space around a trimmed string -/
theorem trimSpace_sandwich {a m b : Str} (ha : ∀ c ∈ a, isSpace c = true) (hb : ∀ c ∈ b, isSpace c = true)
    (hm : Trimmed m) : trimSpace (a ++ m ++ b) = m := by
  unfold trimSpace trimRight trimLeft
  rw [append_assoc, dropWhile_all_append a _ ha, dropWhile_trimmed_append hm.1 hb]
  by_cases hnil : m = []
  · simp [hnil]
  · simp only [hnil, if_false, reverse_append]
    rw [dropWhile_all_append b.reverse _ (by simpa using hb), dropWhile_head (by simpa using hm.2)]
    simp

theorem takeWhile_all {p : Char → Bool} : ∀ (l : Str), ∀ c ∈ l.takeWhile p, p c = true := by
  intro l
  induction l with
  | nil => intro c hc; cases hc
  | cons x xs ih =>
    intro c hc
    cases hx : p x with
    | false => simp [hx] at hc
    | true =>
      simp only [takeWhile_cons, hx, if_true, mem_cons] at hc
      rcases hc with rfl | hc
      · exact hx
      · exact ih c hc

/-- a string is its trimmed part between two runs of white space -/
theorem trim_decomp (s : Str) : ∃ a b : Str, (∀ c ∈ a, isSpace c = true) ∧ (∀ c ∈ b, isSpace c = true) ∧
    s = a ++ trimSpace s ++ b := by
  refine ⟨s.takeWhile isSpace, ((s.dropWhile isSpace).reverse.takeWhile isSpace).reverse, ?_, ?_, ?_⟩
  · intro c hc; exact takeWhile_all _ c hc
  · intro c hc; exact takeWhile_all _ c (mem_reverse.mp hc)
  · unfold trimSpace trimRight trimLeft
    rw [append_assoc, ← reverse_append, takeWhile_append_dropWhile, reverse_reverse, takeWhile_append_dropWhile]

/-! ### the shape of a time the specification accepts -/

/-- the `[h:]m:s` part -/
def hmsSpec (x : Str) : Option Nat :=
  match (splitC ':' x).map natOf with
  | [some h, some m, some sec] => if m < 60 && sec < 60 && h < 1000000 then some ((h * 60 + m) * 60 + sec) else none
  | [some m, some sec] => if m < 60 && sec < 60 then some (m * 60 + sec) else none
  | _ => none

def fracSpec (frac : Option Str) : Option Nat :=
  match frac with
  | none => some 0
  | some fr => if fr.length > 3 then none else (natOf fr).map (· * 10 ^ (3 - fr.length))

def timeOf (hms : Str) (frac : Option Str) : Option Nat :=
  match fracSpec frac, (splitC ':' hms).map natOf with
  | some f, [some h, some m, some sec] =>
    if m < 60 && sec < 60 && h < 1000000 then some (((h * 60 + m) * 60 + sec) * 1000 + f) else none
  | some f, [some m, some sec] =>
    if m < 60 && sec < 60 then some ((m * 60 + sec) * 1000 + f) else none
  | _, _ => none

def dotPair (t : Str) : Str × Option Str :=
  match splitC '.' t with
  | [a, b] => (a, some b)
  | _ => (t, none)

theorem timeMs_eq (s : Str) : timeMs s = timeOf (dotPair (trimSpace s)).1 (dotPair (trimSpace s)).2 := rfl

theorem timeOf_inv {x : Str} {fo : Option Str} {ms : Nat} (h : timeOf x fo = some ms) :
    ∃ f v, hmsSpec x = some v ∧ fracSpec fo = some f ∧ ms = v * 1000 + f := by
  unfold timeOf at h
  split at h
  · rename_i f hh m sec hf hs
    split at h
    · rename_i hc
      injection h with h
      exact ⟨f, _, by simp only [hmsSpec, hs, hc, if_true], hf, h.symm⟩
    · cases h
  · rename_i f m sec hf hs
    split at h
    · rename_i hc
      injection h with h
      exact ⟨f, _, by simp only [hmsSpec, hs, hc, if_true], hf, h.symm⟩
    · cases h
  · cases h

theorem fracSpec_some_inv {y : Str} {f : Nat} (h : fracSpec (some y) = some f) :
    ∃ fv, y.length ≤ 3 ∧ natOf y = some fv ∧ f = fv * 10 ^ (3 - y.length) := by
  unfold fracSpec at h
  simp only at h
  split at h
  · cases h
  · rename_i hl
    cases hn : natOf y with
    | none => rw [hn] at h; cases h
    | some fv =>
      rw [hn] at h
      injection h with h
      exact ⟨fv, by omega, rfl, h.symm⟩

theorem dotPair_cases (t : Str) :
    (∃ a b, splitC '.' t = [a, b] ∧ dotPair t = (a, some b)) ∨ dotPair t = (t, none) := by
  unfold dotPair
  split
  · rename_i a b hs; exact Or.inl ⟨a, b, hs, rfl⟩
  · exact Or.inr rfl

theorem timeMs_inv {s : Str} {ms : Nat} (h : timeMs s = some ms) :
    ∃ x f v, hmsSpec x = some v ∧ ms = v * 1000 + f ∧
      ((∃ y fv, splitC '.' (trimSpace s) = [x, y] ∧ y.length ≤ 3 ∧ natOf y = some fv ∧ f = fv * 10 ^ (3 - y.length))
        ∨ (x = trimSpace s ∧ f = 0)) := by
  rw [timeMs_eq] at h
  obtain ⟨f, v, h1, h2, h3⟩ := timeOf_inv h
  rcases dotPair_cases (trimSpace s) with ⟨a, b, hs, hd⟩ | hd
  · rw [hd] at h1 h2
    obtain ⟨fv, g1, g2, g3⟩ := fracSpec_some_inv h2
    exact ⟨a, f, v, h1, h3, Or.inl ⟨b, fv, hs, g1, g2, g3⟩⟩
  · rw [hd] at h1 h2
    simp only [fracSpec] at h2
    injection h2 with h2
    exact ⟨_, f, v, h1, h3, Or.inr ⟨rfl, h2.symm⟩⟩

theorem map3_inv {α β} {f : α → β} {l : List α} {a b c : β} (h : l.map f = [a, b, c]) :
    ∃ x y z, l = [x, y, z] ∧ f x = a ∧ f y = b ∧ f z = c := by
  match l, h with
  | [x, y, z], h => simp only [map_cons, map_nil, cons.injEq, and_true] at h; exact ⟨x, y, z, rfl, h.1, h.2.1, h.2.2⟩

theorem map2_inv {α β} {f : α → β} {l : List α} {a b : β} (h : l.map f = [a, b]) :
    ∃ x y, l = [x, y] ∧ f x = a ∧ f y = b := by
  match l, h with
  | [x, y], h => simp only [map_cons, map_nil, cons.injEq, and_true] at h; exact ⟨x, y, rfl, h.1, h.2⟩

theorem hmsSpec_inv {x : Str} {v : Nat} (h : hmsSpec x = some v) :
    (∃ ph pm ps hh m sec, splitC ':' x = [ph, pm, ps] ∧ natOf ph = some hh ∧ natOf pm = some m ∧ natOf ps = some sec ∧
      m < 60 ∧ sec < 60 ∧ hh < 1000000 ∧ v = (hh * 60 + m) * 60 + sec) ∨
    (∃ pm ps m sec, splitC ':' x = [pm, ps] ∧ natOf pm = some m ∧ natOf ps = some sec ∧
      m < 60 ∧ sec < 60 ∧ v = m * 60 + sec) := by
  unfold hmsSpec at h
  split at h
  · rename_i hh m sec hs
    obtain ⟨ph, pm, ps, e, e1, e2, e3⟩ := map3_inv hs
    split at h
    · rename_i hc
      simp only [Bool.and_eq_true, decide_eq_true_eq] at hc
      injection h with h
      exact Or.inl ⟨ph, pm, ps, hh, m, sec, e, e1, e2, e3, hc.1.1, hc.1.2, hc.2, h.symm⟩
    · cases h
  · rename_i m sec hs
    obtain ⟨pm, ps, e, e1, e2⟩ := map2_inv hs
    split at h
    · rename_i hc
      simp only [Bool.and_eq_true, decide_eq_true_eq] at hc
      injection h with h
      exact Or.inr ⟨pm, ps, m, sec, e, e1, e2, hc.1, hc.2, h.symm⟩
    · cases h
  · cases h

/-- the characters of an accepted `[h:]m:s` -/
theorem hmsSpec_chars {x : Str} {v : Nat} (h : hmsSpec x = some v) :
    x ≠ [] ∧ ∀ c ∈ x, isDigit c = true ∨ c = ':' := by
  have hj := join_splitC ':' x
  rcases hmsSpec_inv h with ⟨ph, pm, ps, hh, m, sec, e, e1, e2, e3, _⟩ | ⟨pm, ps, m, sec, e, e1, e2, _⟩
  · rw [e] at hj
    simp only [join] at hj
    have d1 := (natOf_spec e1).2.2.1
    have d2 := (natOf_spec e2).2.2.1
    have d3 := (natOf_spec e3).2.2.1
    rw [← hj]
    refine ⟨by simp, ?_⟩
    intro c hc
    simp only [mem_append, mem_cons, not_mem_nil, or_false] at hc
    rcases hc with (hc | hc) | (hc | hc) | hc
    · exact Or.inl (d1 c hc)
    · exact Or.inr hc
    · exact Or.inl (d2 c hc)
    · exact Or.inr hc
    · exact Or.inl (d3 c hc)
  · rw [e] at hj
    simp only [join] at hj
    have d2 := (natOf_spec e1).2.2.1
    have d3 := (natOf_spec e2).2.2.1
    rw [← hj]
    refine ⟨by simp, ?_⟩
    intro c hc
    simp only [mem_append, mem_cons, not_mem_nil, or_false] at hc
    rcases hc with (hc | hc) | hc
    · exact Or.inl (d2 c hc)
    · exact Or.inr hc
    · exact Or.inl (d3 c hc)

/-! ### the model's `parseDuration` -/

/-- `parseDuration` after the fraction has been cut off -/
def parseTail (ms : Int) (s : Str) : Option Int :=
  let hms := splitC ':' (trimSpace s)
  let fieldsOf : Option (Str × Str × Str) :=
    match hms with
    | [pm, ps] => some ([], pm, ps)
    | [ph, pm, ps] => some (ph, pm, ps)
    | _ => none
  match fieldsOf with
  | none => none
  | some (ph, pm, ps) =>
    match atoi (trimSpace ps), atoi (trimSpace pm) with
    | some sec, some min =>
      let hours : Option Int := if ph.length > 0 then atoi (trimSpace ph) else some 0
      match hours with
      | some h => some (ms * Duration.nsPerMs + sec * Duration.nsPerS + min * Duration.nsPerMin + h * Duration.nsPerH)
      | none => none
    | _, _ => none

def parseHead (i : Str) (sep : Char) (digits : Nat) : Option (Int × Str) :=
  let parts := splitC sep i
  if parts.length ≥ 2 then
    let s := trimSpace (parts.getLast?.getD [])
    if s.length > 3 then none else
    match atoi s with
    | none => none
    | some ms => some (ms * (10 : Int) ^ (digits - s.length), join [sep] parts.dropLast)
  else some (0, i)

theorem parse_eq (i : Str) (sep : Char) (digits : Nat) :
    Duration.parse i sep digits = match parseHead i sep digits with
      | none => none
      | some (ms, s) => parseTail ms s := rfl

theorem small_int64 {n : Nat} (h : n < 1000000) : n ≤ int64Max := by
  unfold int64Max; omega

theorem parseTail_hms {x : Str} {v : Nat} (h : hmsSpec x = some v) (ms : Int) (s : Str) (hs : trimSpace s = x) :
    parseTail ms s = some (ms * 1000000 + (v : Int) * 1000000000) := by
  unfold parseTail
  rcases hmsSpec_inv h with ⟨ph, pm, ps, hh, m, sec, e, e1, e2, e3, b1, b2, b3, rfl⟩ | ⟨pm, ps, m, sec, e, e1, e2, b1, b2, rfl⟩
  · have hl : ph.length > 0 := by
      have := (natOf_spec e1).2.1
      cases ph with
      | nil => exact absurd rfl this
      | cons _ _ => simp
    simp only [hs, e, natOf_trim e1, natOf_trim e2, natOf_trim e3, hl, if_true,
      natOf_atoi e1 (small_int64 b3), natOf_atoi e2 (small_int64 (by omega)), natOf_atoi e3 (small_int64 (by omega)),
      Duration.nsPerMs, Duration.nsPerS, Duration.nsPerMin, Duration.nsPerH]
    congr 1
    push_cast
    omega
  · simp only [hs, e, natOf_trim e1, natOf_trim e2, length_nil, Nat.lt_irrefl, if_false,
      natOf_atoi e1 (small_int64 (by omega)), natOf_atoi e2 (small_int64 (by omega)),
      Duration.nsPerMs, Duration.nsPerS, Duration.nsPerMin, Duration.nsPerH]
    congr 1
    push_cast
    omega

theorem parseHead_one {s : Str} {sep : Char} (h : sep ∉ s) (digits : Nat) : parseHead s sep digits = some (0, s) := by
  simp [parseHead, splitC_not_mem h]

theorem parseHead_two {s p q y : Str} {sep : Char} {n : Int} (h : splitC sep s = [p, q]) (hy : trimSpace q = y)
    (hl : y.length ≤ 3) (ha : atoi y = some n) (digits : Nat) :
    parseHead s sep digits = some (n * (10 : Int) ^ (digits - y.length), p) := by
  have hl' : ¬ y.length > 3 := by omega
  simp [parseHead, h, hy, hl', ha, join]

theorem space_ne {c x : Char} (hc : isSpace c = true) (hx : isSpace x = false) : c ≠ x := by
  intro e; subst e; rw [hc] at hx; cases hx

theorem not_mem_spaces {a : Str} (ha : ∀ c ∈ a, isSpace c = true) {x : Char} (hx : isSpace x = false) : x ∉ a :=
  fun hm => space_ne (ha x hm) hx rfl

theorem hmsSpec_noSpace {x : Str} {v : Nat} (h : hmsSpec x = some v) : ∀ c ∈ x, isSpace c = false := by
  intro c hc
  rcases (hmsSpec_chars h).2 c hc with hd | rfl
  · exact isDigit_noSpace hd
  · decide

theorem hmsSpec_no_dot {x : Str} {v : Nat} (h : hmsSpec x = some v) : '.' ∉ x := by
  intro hc
  rcases (hmsSpec_chars h).2 _ hc with hd | hd
  · exact absurd hd (by decide)
  · exact absurd hd (by decide)

theorem natOf_not_mem {y : Str} {n : Nat} (h : natOf y = some n) {x : Char} (hx : isDigit x = false) : x ∉ y :=
  fun hm => isDigit_ne ((natOf_spec h).2.2.1 x hm) x hx rfl

/-- **a time of the specification is read by the model, with the same value** -/
theorem parseVTT_of_timeMs (s : Str) (ms : Nat) (h : Spec.VTT.timeMs s = some ms) :
    Duration.parseVTT s = some ((ms : Int) * 1000000) := by
  obtain ⟨a, b, ha, hb, hs⟩ := trim_decomp s
  obtain ⟨x, f, v, hx, hms, hcase⟩ := timeMs_inv h
  have hxt : Trimmed x := trimmed_of_noSpace (hmsSpec_noSpace hx)
  have hdotsp : isSpace '.' = false := by decide
  unfold Duration.parseVTT
  rw [parse_eq]
  rcases hcase with ⟨y, fv, hsp, hl, hy, hf⟩ | ⟨hxe, hf⟩
  · obtain ⟨ht, hdx, hdy⟩ := splitC_two_inv hsp
    have hs' : s = (a ++ x) ++ '.' :: (y ++ b) := by rw [hs, ht]; simp
    have hsplit : splitC '.' s = [a ++ x, y ++ b] := by
      rw [hs']
      apply VTT.splitC_kv
      · simp only [mem_append, not_or]; exact ⟨not_mem_spaces ha hdotsp, hdx⟩
      · simp only [mem_append, not_or]; exact ⟨hdy, not_mem_spaces hb hdotsp⟩
    have hty : trimSpace (y ++ b) = y := by
      have := trimSpace_sandwich (a := []) (by simp) hb (trimmed_of_noSpace (natOf_noSpace hy))
      simpa using this
    have hfv : fv ≤ int64Max := by
      have h1 := (natOf_spec hy).2.2.2
      have h2 : 10 ^ y.length ≤ 10 ^ 3 := Nat.pow_le_pow_right (by omega) hl
      unfold int64Max; omega
    rw [parseHead_two hsplit hty hl (natOf_atoi hy hfv) 3]
    have htx : trimSpace (a ++ x) = x := by
      have := trimSpace_sandwich (b := []) ha (by simp) hxt
      simpa using this
    simp only []
    rw [parseTail_hms hx _ _ htx, hms, hf]
    refine congrArg some ?_
    have hw : ((fv * 10 ^ (3 - y.length) : Nat) : Int) = (fv : Int) * 10 ^ (3 - y.length) := by push_cast; rfl
    rw [← hw]
    generalize fv * 10 ^ (3 - y.length) = w
    omega
  · subst hxe
    have hdot : '.' ∉ s := by
      rw [hs]
      simp only [mem_append, not_or]
      exact ⟨⟨not_mem_spaces ha hdotsp, hmsSpec_no_dot hx⟩, not_mem_spaces hb hdotsp⟩
    rw [parseHead_one hdot 3]
    simp only []
    rw [parseTail_hms hx _ _ rfl, hms, hf]
    refine congrArg some ?_
    omega

example : Spec.VTT.timeMs "01:02:03.5".toList = some 3723500 := by decide

/-! ### the first character of a time -/

theorem natOf_head {t : Str} {n : Nat} (h : natOf t = some n) : ∃ c r, t = c :: r ∧ isDigit c = true := by
  obtain ⟨_, h2, h3, _⟩ := natOf_spec h
  cases t with
  | nil => exact absurd rfl h2
  | cons c r => exact ⟨c, r, rfl, h3 c (by simp)⟩

theorem hmsSpec_head {x : Str} {v : Nat} (h : hmsSpec x = some v) : ∃ c r, x = c :: r ∧ isDigit c = true := by
  have hj := join_splitC ':' x
  rcases hmsSpec_inv h with ⟨ph, pm, ps, hh, m, sec, e, e1, _⟩ | ⟨pm, ps, m, sec, e, e1, _⟩
  · obtain ⟨c, r, rfl, hc⟩ := natOf_head e1
    rw [e] at hj
    exact ⟨c, r ++ ':' :: (pm ++ ':' :: ps), by rw [← hj]; simp [join], hc⟩
  · obtain ⟨c, r, rfl, hc⟩ := natOf_head e1
    rw [e] at hj
    exact ⟨c, r ++ ':' :: ps, by rw [← hj]; simp [join], hc⟩

/-- the first field of an accepted time is a non-empty digit string -/
theorem timeMs_head_digit (s : Str) (ms : Nat) (h : Spec.VTT.timeMs s = some ms) :
    ∃ c r, trimSpace s = c :: r ∧ Spec.VTT.isDigit c = true := by
  obtain ⟨x, f, v, hx, _, hcase⟩ := timeMs_inv h
  obtain ⟨c, r, rfl, hc⟩ := hmsSpec_head hx
  rcases hcase with ⟨y, fv, hsp, _⟩ | ⟨hxe, _⟩
  · exact ⟨c, r ++ '.' :: y, by rw [(splitC_two_inv hsp).1]; simp, hc⟩
  · exact ⟨c, r, hxe.symm, hc⟩

/-- the characters of an accepted time -/
theorem timeMs_chars {s : Str} {ms : Nat} (h : timeMs s = some ms) :
    ∀ c ∈ s, isSpace c = true ∨ isDigit c = true ∨ c = ':' ∨ c = '.' := by
  obtain ⟨a, b, ha, hb, hs⟩ := trim_decomp s
  obtain ⟨x, f, v, hx, _, hcase⟩ := timeMs_inv h
  have hxc := (hmsSpec_chars hx).2
  intro c hc
  rw [hs] at hc
  simp only [mem_append] at hc
  rcases hc with (hc | hc) | hc
  · exact Or.inl (ha c hc)
  · rcases hcase with ⟨y, fv, hsp, _, hy, _⟩ | ⟨hxe, _⟩
    · rw [(splitC_two_inv hsp).1] at hc
      simp only [mem_append, mem_cons] at hc
      rcases hc with hc | hc | hc
      · rcases hxc c hc with hd | hd
        · exact Or.inr (Or.inl hd)
        · exact Or.inr (Or.inr (Or.inl hd))
      · exact Or.inr (Or.inr (Or.inr hc))
      · exact Or.inr (Or.inl ((natOf_spec hy).2.2.1 c hc))
    · rw [← hxe] at hc
      rcases hxc c hc with hd | hd
      · exact Or.inr (Or.inl hd)
      · exact Or.inr (Or.inr (Or.inl hd))
  · exact Or.inl (hb c hc)

/-! ### the timestamp-map line -/

theorem splitOnce_go_inv (k v : Str) : ∀ (fuel : Nat) (s acc : Str), splitOnce.go [':'] fuel s acc = [k, v] →
    acc.reverse ++ s = k ++ ':' :: v := by
  intro fuel
  induction fuel with
  | zero => intro s acc h; simp [splitOnce.go] at h
  | succ n ih =>
    intro s acc h
    cases s with
    | nil => simp [splitOnce.go] at h
    | cons x xs =>
      unfold splitOnce.go at h
      by_cases hx : ':' = x
      · subst hx
        simp only [dropPrefix?, if_true, cons.injEq, and_true] at h
        rw [h.1, h.2]
      · simp only [dropPrefix?, hx, if_false] at h
        have := ih xs (x :: acc) h
        simpa using this

theorem splitOnce_inv {p k v : Str} (h : splitOnce [':'] p = [k, v]) : p = k ++ ':' :: v := by
  unfold splitOnce at h
  simp only [isEmpty_cons, Bool.false_eq_true, if_false] at h
  simpa using splitOnce_go_inv k v _ p [] h

/-- one `key:value` part as the specification reads it -/
def kvSpec (p : Str) : Option (Str × Str) :=
  match splitOnce [':'] p with
  | [k, v] => some (toLowerAscii (trimSpace k), v)
  | _ => none

theorem kvSpec_inv {p k v : Str} (h : kvSpec p = some (k, v)) :
    ∃ k', splitOnce [':'] p = [k', v] ∧ toLowerAscii (trimSpace k') = k := by
  unfold kvSpec at h
  split at h
  · rename_i k' v' hs
    simp only [Option.some.injEq, Prod.mk.injEq] at h
    exact ⟨k', by rw [hs, h.2], h.1⟩
  · cases h

def tsPrefix : Str := "X-TIMESTAMP-MAP=".toList

def tsVal (loc ts : Str) : Option (Int × Int) :=
  match timeMs loc, natOf ts with
  | some l, some m => if m < 2 ^ 62 then some ((l : Int) * 1000000, (m : Int)) else none
  | _, _ => none

theorem tsVal_inv {loc ts : Str} {m : Int × Int} (h : tsVal loc ts = some m) :
    ∃ lms mv : Nat, timeMs loc = some lms ∧ natOf ts = some mv ∧ mv < 2 ^ 62 ∧ m = ((lms : Int) * 1000000, (mv : Int)) := by
  unfold tsVal at h
  split at h
  · rename_i lms mv h1 h2
    split at h
    · rename_i hb
      injection h with h
      exact ⟨lms, mv, h1, h2, hb, h.symm⟩
    · cases h
  · cases h

def tsCore (k1 v1 k2 v2 : Str) : Option (Int × Int) :=
  let (loc, ts) := if k1 = "local".toList then (v1, v2) else (v2, v1)
  if !((k1 = "local".toList && k2 = "mpegts".toList) || (k1 = "mpegts".toList && k2 = "local".toList)) then none else
  tsVal loc ts

theorem keys_inv {k1 k2 L M : Str}
    (hc : ¬ (!((k1 = L && k2 = M) || (k1 = M && k2 = L))) = true) : (k1 = L ∧ k2 = M) ∨ (k1 = M ∧ k2 = L) := by
  have hX : ((k1 = L && k2 = M) || (k1 = M && k2 = L)) = true := by
    cases hb : ((decide (k1 = L) && decide (k2 = M)) || (decide (k1 = M) && decide (k2 = L)))
    · rw [hb] at hc; exact absurd rfl hc
    · rfl
  simp only [Bool.or_eq_true, Bool.and_eq_true, decide_eq_true_eq] at hX
  exact hX

theorem local_ne_mpegts : "local".toList ≠ "mpegts".toList := by decide

theorem tsCore_inv {k1 v1 k2 v2 : Str} {m : Int × Int} (h : tsCore k1 v1 k2 v2 = some m) :
    ∃ lms mv : Nat, mv < 2 ^ 62 ∧ m = ((lms : Int) * 1000000, (mv : Int)) ∧
      ((k1 = "local".toList ∧ k2 = "mpegts".toList ∧ timeMs v1 = some lms ∧ natOf v2 = some mv) ∨
       (k1 = "mpegts".toList ∧ k2 = "local".toList ∧ timeMs v2 = some lms ∧ natOf v1 = some mv)) := by
  unfold tsCore at h
  split at h
  rename_i loc ts hpair
  split at h
  · cases h
  · rename_i hc
    obtain ⟨lms, mv, a1, a2, a3, a4⟩ := tsVal_inv h
    refine ⟨lms, mv, a3, a4, ?_⟩
    rcases keys_inv hc with ⟨e1, e2⟩ | ⟨e1, e2⟩
    · rw [if_pos e1] at hpair
      injection hpair with q1 q2
      subst q1 q2
      exact Or.inl ⟨e1, e2, a1, a2⟩
    · rw [if_neg (by rw [e1]; exact local_ne_mpegts.symm)] at hpair
      injection hpair with q1 q2
      subst q1 q2
      exact Or.inr ⟨e1, e2, a1, a2⟩

theorem tsmapLine_eq2 (l : Str) : tsmapLine l =
    match dropPrefix? tsPrefix l with
    | none => none
    | some rest =>
      match (splitC ',' rest).map kvSpec with
      | [some (k1, v1), some (k2, v2)] => tsCore k1 v1 k2 v2
      | _ => none := rfl

theorem tsmapLine_inv {l : Str} {m : Int × Int} (h : tsmapLine l = some m) :
    ∃ (rest p1 p2 ka va kb vb : Str) (lms mv : Nat),
      l = tsPrefix ++ rest ∧ splitC ',' rest = [p1, p2] ∧ splitOnce [':'] p1 = [ka, va] ∧ splitOnce [':'] p2 = [kb, vb] ∧
      mv < 2 ^ 62 ∧ m = ((lms : Int) * 1000000, (mv : Int)) ∧
      ((toLowerAscii (trimSpace ka) = "local".toList ∧ toLowerAscii (trimSpace kb) = "mpegts".toList ∧
          timeMs va = some lms ∧ natOf vb = some mv) ∨
       (toLowerAscii (trimSpace ka) = "mpegts".toList ∧ toLowerAscii (trimSpace kb) = "local".toList ∧
          timeMs vb = some lms ∧ natOf va = some mv)) := by
  rw [tsmapLine_eq2] at h
  split at h
  · cases h
  · rename_i rest hpre
    split at h
    · rename_i k1 v1 k2 v2 hparts
      obtain ⟨p1, p2, hsp, g1, g2⟩ := map2_inv hparts
      obtain ⟨ka, s1, c1⟩ := kvSpec_inv g1
      obtain ⟨kb, s2, c2⟩ := kvSpec_inv g2
      have hl := VTT.dropPrefix?_some hpre
      obtain ⟨lms, mv, b1, b2, b3⟩ := tsCore_inv h
      rw [← c1, ← c2] at b3
      exact ⟨rest, p1, p2, ka, v1, kb, v2, lms, mv, hl, hsp, s1, s2, b1, b2, b3⟩
    · cases h

/-! ### the characters of a timestamp-map line -/

/-- a character that cannot occur after `X-TIMESTAMP-MAP=` in an accepted line -/
def OddC (x : Char) : Prop :=
  isSpace x = false ∧ isDigit x = false ∧ x ≠ ':' ∧ x ≠ '.' ∧ x ≠ ',' ∧ ¬('A' ≤ x ∧ x ≤ 'Z') ∧
    x ∉ "local".toList ∧ x ∉ "mpegts".toList

instance (x : Char) : Decidable (OddC x) := by unfold OddC; infer_instance

theorem oddC_eq : OddC '=' := by decide
theorem oddC_gt : OddC '>' := by decide

/-- white space, digits, `:` and `.` -/
def ValC (v : Str) : Prop := ∀ c ∈ v, isSpace c = true ∨ isDigit c = true ∨ c = ':' ∨ c = '.'

def KeyC (k : Str) : Prop :=
  toLowerAscii (trimSpace k) = "local".toList ∨ toLowerAscii (trimSpace k) = "mpegts".toList

theorem valC_time {v : Str} {ms : Nat} (h : timeMs v = some ms) : ValC v := timeMs_chars h

theorem valC_nat {v : Str} {n : Nat} (h : natOf v = some n) : ValC v :=
  fun c hc => Or.inr (Or.inl ((natOf_spec h).2.2.1 c hc))

theorem valC_not_mem {v : Str} (h : ValC v) {x : Char} (hx : OddC x) : x ∉ v := by
  intro hm
  obtain ⟨h1, h2, h3, h4, _⟩ := hx
  rcases h x hm with e | e | e | e
  · rw [h1] at e; cases e
  · rw [h2] at e; cases e
  · exact h3 e
  · exact h4 e

theorem mem_toLower {x : Char} (hx : ¬('A' ≤ x ∧ x ≤ 'Z')) {t : Str} (h : x ∈ t) : x ∈ toLowerAscii t := by
  unfold toLowerAscii
  exact mem_map.mpr ⟨x, h, by simp only [hx, if_false]⟩

theorem keyC_not_mem {k : Str} (h : KeyC k) {x : Char} (hx : OddC x) : x ∉ k := by
  intro hm
  obtain ⟨h1, _, _, _, _, h6, h7, h8⟩ := hx
  obtain ⟨a, b, ha, hb, hs⟩ := trim_decomp k
  rw [hs] at hm
  simp only [mem_append] at hm
  rcases hm with (hm | hm) | hm
  · exact not_mem_spaces ha h1 hm
  · have := mem_toLower h6 hm
    rcases h with e | e
    · rw [e] at this; exact h7 this
    · rw [e] at this; exact h8 this
  · exact not_mem_spaces hb h1 hm

theorem part_not_mem {k v : Str} (hk : KeyC k) (hv : ValC v) {x : Char} (hx : OddC x) : x ∉ k ++ ':' :: v := by
  simp only [mem_append, mem_cons, not_or]
  exact ⟨keyC_not_mem hk hx, hx.2.2.1, valC_not_mem hv hx⟩

/-- what an accepted timestamp-map line looks like -/
theorem tsmapLine_shape {l : Str} {m : Int × Int} (h : tsmapLine l = some m) :
    ∃ (ka va kb vb : Str), l = tsPrefix ++ ((ka ++ ':' :: va) ++ ',' :: (kb ++ ':' :: vb)) ∧
      KeyC ka ∧ ValC va ∧ KeyC kb ∧ ValC vb := by
  obtain ⟨rest, p1, p2, ka, va, kb, vb, lms, mv, hl, hsp, s1, s2, _, _, hk⟩ := tsmapLine_inv h
  have hj := join_splitC ',' rest
  rw [hsp] at hj
  simp only [join] at hj
  refine ⟨ka, va, kb, vb, ?_, ?_⟩
  · rw [hl, ← hj, splitOnce_inv s1, splitOnce_inv s2]; simp
  · rcases hk with ⟨a1, a2, a3, a4⟩ | ⟨a1, a2, a3, a4⟩
    · exact ⟨Or.inl a1, valC_time a3, Or.inr a2, valC_nat a4⟩
    · exact ⟨Or.inr a1, valC_nat a4, Or.inl a2, valC_time a3⟩

theorem tsmapLine_not_mem {l : Str} {m : Int × Int} (h : tsmapLine l = some m) {x : Char} (hx : OddC x) :
    ∀ rest, l = tsPrefix ++ rest → x ∉ rest := by
  obtain ⟨ka, va, kb, vb, hl, c1, c2, c3, c4⟩ := tsmapLine_shape h
  intro rest hr
  have : rest = (ka ++ ':' :: va) ++ ',' :: (kb ++ ':' :: vb) := append_cancel_left (hr.symm.trans hl)
  rw [this]
  intro hm
  rcases mem_append.mp hm with hm | hm
  · exact part_not_mem c1 c2 hx hm
  · rcases mem_cons.mp hm with e | hm
    · exact hx.2.2.2.2.1 e
    · exact part_not_mem c3 c4 hx hm

/-- an accepted timestamp-map line is not a timing line -/
theorem tsmapLine_no_arrow (l : Str) (m : Int × Int) (h : Spec.VTT.tsmapLine l = some m) :
    Go.contains Spec.VTT.arrow l = false := by
  obtain ⟨rest, _, _, _, _, _, _, _, _, hl, _⟩ := tsmapLine_inv h
  have hr := tsmapLine_not_mem h oddC_gt rest hl
  have : '>' ∉ l := by
    rw [hl]
    simp only [mem_append, not_or]
    exact ⟨by decide, hr⟩
  exact VTT.contains_arrow_noGt this

/-! ### the model on the timestamp-map line -/

theorem mpegts_ne_local : ("mpegts".toList = "local".toList) = False := by decide

theorem tsParts_local {p k v : Str} (ps : List Str) (acc : Int × Int) {d : Int} (hs : splitOnce [':'] p = [k, v])
    (hk : toLowerAscii (trimSpace k) = "local".toList) (hsm : VTT.smallNumbers v = true)
    (hp : Duration.parseVTT v = some d) : VTT.tsParts (p :: ps) acc = VTT.tsParts ps (d, acc.2) := by
  rw [VTT.tsParts, hs]
  simp only [hk, hsm, hp, Bool.not_true, Bool.false_eq_true, if_false, if_true]

theorem tsParts_local_un {p k v : Str} (ps : List Str) (acc : Int × Int) (hs : splitOnce [':'] p = [k, v])
    (hk : toLowerAscii (trimSpace k) = "local".toList) (hsm : VTT.smallNumbers v = false) :
    VTT.tsParts (p :: ps) acc = .unmodelled := by
  rw [VTT.tsParts, hs]
  simp only [hk, hsm, Bool.not_false, if_true]

theorem tsParts_mpegts {p k v : Str} (ps : List Str) (acc : Int × Int) {n : Int} (hs : splitOnce [':'] p = [k, v])
    (hk : toLowerAscii (trimSpace k) = "mpegts".toList) (ha : atoi v = some n) :
    VTT.tsParts (p :: ps) acc = VTT.tsParts ps (acc.1, n) := by
  rw [VTT.tsParts, hs]
  simp only [hk, mpegts_ne_local, if_false, if_true, VTT.parseInt, ha]

theorem tsParts_nil (acc : Int × Int) : VTT.tsParts [] acc = .ok acc := by rw [VTT.tsParts]

theorem lt62_int64 {n : Nat} (h : n < 2 ^ 62) : n ≤ int64Max := by
  unfold int64Max; omega

theorem tsPrefix_eq : tsPrefix = "X-TIMESTAMP-MAP".toList ++ ['='] := by decide

/-- **the timestamp-map line of the specification is read by the model with the same values** (or
    the model steps outside its regex-free class: a digit run longer than six in the `LOCAL` time) -/
theorem parseTsMap_of_tsmapLine (l : Str) (m : Int × Int) (h : Spec.VTT.tsmapLine l = some m) :
    VTT.parseTsMap l = .ok m ∨ VTT.parseTsMap l = .unmodelled := by
  obtain ⟨rest, p1, p2, ka, va, kb, vb, lms, mv, hl, hsp, s1, s2, hb, hm, hk⟩ := tsmapLine_inv h
  have hne : '=' ∉ rest := tsmapLine_not_mem h oddC_eq rest hl
  have e1 : splitC '=' l = ["X-TIMESTAMP-MAP".toList, rest] := by
    rw [hl, tsPrefix_eq, append_assoc]
    exact VTT.splitC_kv '=' _ _ (by decide) hne
  have hmodel : VTT.parseTsMap l = VTT.tsParts [p1, p2] (0, 0) := by
    unfold VTT.parseTsMap
    rw [e1]
    simp only [hsp]
  rw [hmodel, hm]
  rcases hk with ⟨k1, k2, ht, hn⟩ | ⟨k1, k2, ht, hn⟩
  · cases hsm : VTT.smallNumbers va with
    | false => exact Or.inr (tsParts_local_un _ _ s1 k1 hsm)
    | true =>
      left
      rw [tsParts_local _ _ s1 k1 hsm (parseVTT_of_timeMs va lms ht),
        tsParts_mpegts _ _ s2 k2 (natOf_atoi hn (lt62_int64 hb)), tsParts_nil]
  · rw [tsParts_mpegts _ _ s1 k1 (natOf_atoi hn (lt62_int64 hb))]
    cases hsm : VTT.smallNumbers vb with
    | false => exact Or.inr (tsParts_local_un _ _ s2 k2 hsm)
    | true =>
      left
      rw [tsParts_local _ _ s2 k2 hsm (parseVTT_of_timeMs vb lms ht), tsParts_nil]

example : Spec.VTT.tsmapLine "X-TIMESTAMP-MAP=LOCAL:00:01.5,MPEGTS:900".toList = some (1500000000, 900) := by decide

end VTTRead
end Astisub
