import Astisub.Lemmas.ConvView
import Astisub.Model.SRT
import Astisub.Model.VTT

/-!
# Lemmas/ConvErase — the SubRip and WebVTT writers ignore foreign attributes (C07)

A cue list read from another format keeps that format's attributes (`TTMLColor`, `STL…`,
`Teletext…`, `SSA…`, …).  `eraseSRT` / `eraseVTT` remove everything the destination's writer does
not look at; the written text is the same, byte for byte.
-/

namespace Astisub
namespace ConvErase
open Go List
open SRT (kvGet)

/-- keep the attributes whose name is in `keys` -/
def keepAttrs (keys : List String) (a : Attrs) : Attrs :=
  a.map fun kv => kv.filter fun p => keys.any fun k => k.toList == p.1

theorem lookup_filter (l : KV) (p : Str → Bool) (k : Str) (hk : p k = true) :
    (l.filter fun kv => p kv.1).lookup k = l.lookup k := by
  induction l with
  | nil => rfl
  | cons a rest ih =>
    obtain ⟨a1, a2⟩ := a
    by_cases hp : p a1 = true
    · simp only [List.filter_cons, hp, if_true, List.lookup_cons, ih]
    · have hne : (k == a1) = false := by
        rw [beq_eq_false_iff_ne]
        intro e; subst e; exact hp hk
      simp [hp, List.lookup_cons, hne, ih]

/-- the attributes a writer asks for are still there -/
theorem kvGet_keep (keys : List String) (a : Attrs) (k : String) (hk : k ∈ keys) :
    kvGet (keepAttrs keys a) k = kvGet a k := by
  cases a with
  | none => rfl
  | some kv =>
    simp only [keepAttrs, kvGet, Option.map]
    exact lookup_filter kv (fun x => keys.any fun k => k.toList == x) k.toList
      (List.any_eq_true.mpr ⟨k, hk, by simp⟩)

/-! ## SubRip -/

def srtKeys : List String := ["SRTBold", "SRTColor", "SRTItalics", "SRTPosition", "SRTUnderline"]

/-- what the SubRip writer looks at: of a run its text and the five SubRip attributes; of a line its
    runs; of a cue its instants and lines; nothing of the regions, styles and metadata -/
def eraseSRTRun (li : LItem) : LItem := { text := li.text, attrs := keepAttrs srtKeys li.attrs }
def eraseSRTLine (l : Line) : Line := { items := l.items.map eraseSRTRun }
def eraseSRTItem (it : CItem) : CItem := { startAt := it.startAt, endAt := it.endAt, lines := it.lines.map eraseSRTLine }
def eraseSRT (s : Subs) : Subs := { items := s.items.map eraseSRTItem }

theorem srt_runBytes (li : LItem) : SRT.runBytes (eraseSRTRun li) = SRT.runBytes li := by
  unfold SRT.runBytes eraseSRTRun
  simp only [kvGet_keep srtKeys li.attrs "SRTColor" (by decide), kvGet_keep srtKeys li.attrs "SRTBold" (by decide),
    kvGet_keep srtKeys li.attrs "SRTItalics" (by decide), kvGet_keep srtKeys li.attrs "SRTUnderline" (by decide),
    kvGet_keep srtKeys li.attrs "SRTPosition" (by decide)]

theorem srt_itemBytes (k : Nat) (it : CItem) : SRT.itemBytes k (eraseSRTItem it) = SRT.itemBytes k it := by
  unfold SRT.itemBytes eraseSRTItem
  simp only [List.map_map]
  have : SRT.lineBytes ∘ eraseSRTLine = SRT.lineBytes := by
    funext l
    simp only [Function.comp, SRT.lineBytes, eraseSRTLine, List.map_map]
    have : SRT.runBytes ∘ eraseSRTRun = SRT.runBytes := by funext li; exact srt_runBytes li
    rw [this]
  rw [this]

/-- **The SubRip writer ignores foreign attributes.** erasing everything but instants, texts and the
    five SubRip run attributes does not change the written text -/
theorem srt_write_erase (s : Subs) : SRT.write (eraseSRT s) = SRT.write s := by
  have e : ∀ (items : List CItem) (k : Nat),
      ((items.map eraseSRTItem).zipIdx k).map (fun (x : CItem × Nat) => SRT.itemBytes x.2 x.1)
        = (items.zipIdx k).map (fun (x : CItem × Nat) => SRT.itemBytes x.2 x.1) := by
    intro items
    induction items with
    | nil => intro k; rfl
    | cons it rest ih => intro k; simp only [List.map_cons, List.zipIdx_cons, ih (k + 1), srt_itemBytes]
  have e0 : ((s.items.map eraseSRTItem).zipIdx.map fun (x : CItem × Nat) => match x with | (it, k) => SRT.itemBytes k it)
      = (s.items.zipIdx.map fun (x : CItem × Nat) => match x with | (it, k) => SRT.itemBytes k it) := e s.items 0
  unfold SRT.write eraseSRT
  simp only [List.isEmpty_map, e0]

/-! ## WebVTT -/

def vttRunKeys : List String := ["TTMLColor", "WebVTTTags"]
def vttCueKeys : List String := ["WebVTTAlign", "WebVTTLine", "WebVTTPosition", "WebVTTSize", "WebVTTVertical"]

/-- what the WebVTT writer looks at in the cues: of a run its text, start offset, `WebVTTTags` and
    `TTMLColor`; of a line its voice; of a cue its instants, comments, region and style references and
    the five cue settings.  (Regions, styles and metadata are kept whole.) -/
def eraseVTTRun (li : LItem) : LItem := { text := li.text, startAt := li.startAt, attrs := keepAttrs vttRunKeys li.attrs }
def eraseVTTLine (l : Line) : Line := { voice := l.voice, items := l.items.map eraseVTTRun }
def eraseVTTItem (it : CItem) : CItem :=
  { startAt := it.startAt, endAt := it.endAt, style := it.style, region := it.region, comments := it.comments,
    attrs := keepAttrs vttCueKeys it.attrs, lines := it.lines.map eraseVTTLine }
def eraseVTT (s : Subs) : Subs := { s with items := s.items.map eraseVTTItem }

theorem vtt_tags (li : LItem) : VTT.tagsOfAttrs (eraseVTTRun li).attrs = VTT.tagsOfAttrs li.attrs := by
  unfold VTT.tagsOfAttrs eraseVTTRun
  simp only [kvGet_keep vttRunKeys li.attrs "WebVTTTags" (by decide)]

theorem vtt_runBytes (prev next : Option LItem) (li : LItem) :
    VTT.runBytes (prev.map eraseVTTRun) (next.map eraseVTTRun) (eraseVTTRun li) = VTT.runBytes prev next li := by
  have hc : kvGet (eraseVTTRun li).attrs "TTMLColor" = kvGet li.attrs "TTMLColor" :=
    kvGet_keep vttRunKeys li.attrs "TTMLColor" (by decide)
  have ht := vtt_tags li
  unfold VTT.runBytes
  rw [hc, ht]
  cases prev <;> cases next <;> simp only [Option.map, vtt_tags] <;> rfl

theorem vtt_itemsBytes (items : List LItem) (prev : Option LItem) :
    VTT.itemsBytes (prev.map eraseVTTRun) (items.map eraseVTTRun) = VTT.itemsBytes prev items := by
  induction items generalizing prev with
  | nil => rfl
  | cons li rest ih =>
    simp only [List.map_cons, VTT.itemsBytes]
    have h1 : (rest.map eraseVTTRun).head? = rest.head?.map eraseVTTRun := by cases rest <;> rfl
    rw [h1, vtt_runBytes, ← ih (some li)]
    rfl

theorem vtt_lineBytes (l : Line) : VTT.lineBytes (eraseVTTLine l) = VTT.lineBytes l := by
  unfold VTT.lineBytes eraseVTTLine
  have := vtt_itemsBytes l.items none
  simp only [Option.map] at this
  simp only [this]

theorem vtt_getNE (a : Attrs) (k : String) (hk : k ∈ vttCueKeys) : VTT.getNE (keepAttrs vttCueKeys a) k = VTT.getNE a k := by
  unfold VTT.getNE
  rw [kvGet_keep vttCueKeys a k hk]

theorem vtt_fallback (a sty : Attrs) (k : String) (hk : k ∈ vttCueKeys) :
    VTT.fallback (keepAttrs vttCueKeys a) sty k = VTT.fallback a sty k := by
  unfold VTT.fallback
  rw [vtt_getNE a k hk]

theorem vtt_cueBytes (s : Subs) (k : Nat) (it : CItem) :
    VTT.cueBytes (eraseVTT s) k (eraseVTTItem it) = VTT.cueBytes s k it := by
  have hl : (it.lines.map eraseVTTLine).map VTT.lineBytes = it.lines.map VTT.lineBytes := by
    rw [List.map_map]
    apply List.map_congr_left
    intro l _
    exact vtt_lineBytes l
  have hs : VTT.styleAttrs (eraseVTT s) it.style = VTT.styleAttrs s it.style := rfl
  unfold VTT.cueBytes
  simp only [eraseVTTItem, hl, hs, vtt_fallback _ _ "WebVTTAlign" (by decide), vtt_fallback _ _ "WebVTTLine" (by decide),
    vtt_fallback _ _ "WebVTTPosition" (by decide), vtt_fallback _ _ "WebVTTSize" (by decide),
    vtt_fallback _ _ "WebVTTVertical" (by decide)]
  rfl

/-- **The WebVTT writer ignores foreign attributes.** erasing every run and cue attribute the writer
    does not ask for (and the inline style references, the indexes) does not change the written text -/
theorem vtt_write_erase (s : Subs) : VTT.write (eraseVTT s) = VTT.write s := by
  have e : ∀ (items : List CItem) (k : Nat),
      ((items.map eraseVTTItem).zipIdx k).map (fun (x : CItem × Nat) => VTT.cueBytes (eraseVTT s) x.2 x.1)
        = (items.zipIdx k).map (fun (x : CItem × Nat) => VTT.cueBytes s x.2 x.1) := by
    intro items
    induction items with
    | nil => intro k; rfl
    | cons it rest ih => intro k; simp only [List.map_cons, List.zipIdx_cons, ih (k + 1), vtt_cueBytes]
  have e0 : ((s.items.map eraseVTTItem).zipIdx.map fun (x : CItem × Nat) => match x with | (it, k) => VTT.cueBytes (eraseVTT s) k it)
      = (s.items.zipIdx.map fun (x : CItem × Nat) => match x with | (it, k) => VTT.cueBytes s k it) := e s.items 0
  have h1 : (eraseVTT s).items = s.items.map eraseVTTItem := rfl
  have h2 : VTT.header (eraseVTT s) = VTT.header s := rfl
  have h3 : VTT.styleLines (eraseVTT s) = VTT.styleLines s := rfl
  have h4 : (eraseVTT s).regions = s.regions := rfl
  have h5 : VTT.regionBytes (eraseVTT s) = VTT.regionBytes s := rfl
  unfold VTT.write
  simp only [h1, h2, h3, h4, h5, List.isEmpty_map, e0]

/-- the view is the same: erasing touches neither instants nor texts -/
theorem view_eraseSRT (s : Subs) : Spec.Conv.viewOf (eraseSRT s) = Spec.Conv.viewOf s := by
  simp only [ConvView.viewOf_eq, eraseSRT, List.map_map]
  apply List.map_congr_left
  intro it _
  refine ConvView.cueView_congr _ _ rfl rfl ?_
  simp only [ConvView.lineTexts, eraseSRTItem, List.map_map]
  apply List.map_congr_left
  intro l _
  simp [eraseSRTLine, eraseSRTRun, Function.comp_def]

theorem view_eraseVTT (s : Subs) : Spec.Conv.viewOf (eraseVTT s) = Spec.Conv.viewOf s := by
  simp only [ConvView.viewOf_eq, eraseVTT, List.map_map]
  apply List.map_congr_left
  intro it _
  refine ConvView.cueView_congr _ _ rfl rfl ?_
  simp only [ConvView.lineTexts, eraseVTTItem, List.map_map]
  apply List.map_congr_left
  intro l _
  simp [eraseVTTLine, eraseVTTRun, Function.comp_def]

end ConvErase
end Astisub
