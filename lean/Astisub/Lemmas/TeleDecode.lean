import Astisub.Lemmas.TeleCue

/-!
# Lemmas/TeleDecode — the whole reader from the PES level: `runPES` and the specification's `decode`

Both are computed from the same list of instances (the final state of the specification's automaton), the same
time origin and the same character set; cue by cue and row by row, from the same non-blank raw runs
(`rawCue`): the model makes line items of them (`itemOf`), the specification `VRun`s (`denote ∘ viewM`).
-/

namespace Astisub
namespace Teletext
open Go Generated.Teletext
open Spec.Teletext (Packet Inst St Cue VRun)

/-! ## the specification's `decode`, unfolded -/

/-- the cue the specification makes of an instance (`none`: outside its class) -/
def specCue (key : Nat) (first : Int) (ie : Inst × Int) : Option Cue :=
  (Spec.Teletext.mapM (fun (r : Nat × List (Option Nat)) =>
      (Spec.Teletext.rowRuns r.2).bind fun runs => Spec.Teletext.mapM (Spec.Teletext.viewRun key ie.1.code) runs)
    (sortedRows ie.1.rows)).map fun lines =>
      Spec.Teletext.normCue { startNs := ie.1.startNs - first, endNs := ie.2 - first, lines := lines.filter (!·.isEmpty) }

/-- the packets of the PES packets, as `decode` computes them -/
def specPackets (pes : List (Int × List Nat)) : Option (List (Int × List Packet)) :=
  Spec.Teletext.mapM (fun (p : Int × List Nat) => (Spec.Teletext.pesPackets p.2).map fun ps => (p.1, ps)) pes

theorem decode_eq (page : Nat) (t0 : Int) (d0 : List Nat) (pes : List (Int × List Nat)) (pk : List (Int × List Packet))
    (hpk : specPackets ((t0, d0) :: pes) = some pk)
    (hbad : (runSpec { sel := Spec.Teletext.selOf page } pk).bad = false)
    (hkeys : (runSpec { sel := Spec.Teletext.selOf page } pk).keys.any
      (· != (runSpec { sel := Spec.Teletext.selOf page } pk).keys.headD 0) = false) :
    Spec.Teletext.decode page ((t0, d0) :: pes) =
      Spec.Teletext.mapM
        (specCue ((runSpec { sel := Spec.Teletext.selOf page } pk).keys.headD 0) ((pes.map (·.1)).foldl min t0))
        ((finalInsts (runSpec { sel := Spec.Teletext.selOf page } pk) ((pes.map (·.1)).foldl max t0)).filter
          fun ie => !ie.1.rows.isEmpty) := by
  unfold specPackets at hpk
  unfold Spec.Teletext.decode
  rw [hpk]
  simp only [runSpec] at hbad hkeys
  simp only [hbad, hkeys, Bool.false_eq_true, if_false, List.map_cons]
  rfl

/-! ## the raw runs of a cue -/

/-- the non-blank raw runs of a row in character set `c` -/
def rowRaw (c : Charset) (r : SRow) : List MRun :=
  (modelRuns c (r.2.map storedCell)).filter fun x => nonblank (viewM x)

/-- the non-blank raw runs of the rows of an instance, rows in order, rows without such runs dropped -/
def cueRaw (c : Charset) (rows : List SRow) : List (List MRun) :=
  ((sortedRows rows).map (rowRaw c)).filter (!·.isEmpty)

theorem parseRow_rowRaw (c : Charset) (r : SRow) :
    parseRow c (r.2.map storedCell) =
      if (rowRaw c r).isEmpty then none else some { items := (rowRaw c r).map itemOf } := by
  rw [parseRow_items]
  unfold rowRaw
  simp only []
  cases (List.filter (fun x => nonblank (viewM x)) (modelRuns c (List.map storedCell r.2))) <;> rfl

theorem filterMap_lines (c : Charset) : ∀ (rows : List SRow),
    rows.filterMap (fun r => parseRow c (r.2.map storedCell)) =
      ((rows.map (rowRaw c)).filter (!·.isEmpty)).map fun L => ({ items := L.map itemOf } : Line)
  | [] => rfl
  | r :: rows => by
    rw [List.filterMap_cons, parseRow_rowRaw, filterMap_lines c rows]
    by_cases h : (rowRaw c r).isEmpty = true
    · simp [h, List.filter_cons]
    · simp [h, List.filter_cons]

/-- the model's cue, from the raw runs -/
theorem modelCue_eq (triplet : Nat) (first : Int) (ie : Inst × Int) :
    modelCue triplet first ie =
      { startAt := ie.1.startNs - first, endAt := ie.2 - first,
        lines := (cueRaw (computeCharset triplet ie.1.code) ie.1.rows).map fun L => ({ items := L.map itemOf } : Line) } := by
  unfold modelCue cueRaw
  rw [filterMap_lines]

theorem filter_map_isEmpty {α β} (f : List α → List β) (hf : ∀ l, (f l).isEmpty = l.isEmpty) : ∀ (ls : List (List α)),
    (ls.map f).filter (!·.isEmpty) = (ls.filter (!·.isEmpty)).map f
  | [] => rfl
  | l :: ls => by
    simp only [List.map_cons, List.filter_cons, hf l, filter_map_isEmpty f hf ls]
    cases l.isEmpty <;> simp

/-- the specification's cue, from the same raw runs -/
theorem specCue_eq (key : Nat) (first : Int) (ie : Inst × Int) (c : Charset) (hs : Solid c) (ha : Agrees key ie.1.code c)
    (hc : ∀ r ∈ ie.1.rows, CellsOK r.2) :
    specCue key first ie =
      some (Spec.Teletext.normCue
        { startNs := ie.1.startNs - first, endNs := ie.2 - first,
          lines := (cueRaw c ie.1.rows).map fun L => (L.map viewM).map denote }) := by
  unfold specCue
  rw [mapM_eq_map _ (fun r => ((rowRaw c r).map viewM).map denote)]
  · simp only [Option.map_some, cueRaw]
    congr 3
    have := filter_map_isEmpty (fun L : List MRun => (L.map viewM).map denote) (fun l => by cases l <;> rfl)
      ((sortedRows ie.1.rows).map (rowRaw c))
    rw [List.map_map] at this
    exact this
  · intro r hr
    exact row_views key ie.1.code c r.2 hs ha (hc r ((sortedRows_perm ie.1.rows).subset hr))

/-! ## end to end -/

/-- the cue of the model for an instance, in terms of the specification's designation `key` -/
def modelOf (key : Nat) (first : Int) (ie : Inst × Int) : CItem :=
  { startAt := ie.1.startNs - first, endAt := ie.2 - first,
    lines := (cueRaw (computeCharset (key * 1024) ie.1.code) ie.1.rows).map fun L => ({ items := L.map itemOf } : Line) }

/-- the cue of the specification for an instance -/
def specOf (key : Nat) (first : Int) (ie : Inst × Int) : Cue :=
  Spec.Teletext.normCue
    { startNs := ie.1.startNs - first, endNs := ie.2 - first,
      lines := (cueRaw (computeCharset (key * 1024) ie.1.code) ie.1.rows).map fun L => (L.map viewM).map denote }

theorem keyOf_mul (key : Nat) (h : key < 16) : keyOf (key * 1024) = key := by
  rw [C06.C06_key_of_triplet]; omega

theorem keyOf_lt (t : Nat) : keyOf t < 16 := by rw [C06.C06_key_of_triplet]; omega

theorem specPackets_cells : ∀ (pes : List (Int × List Nat)) (pk : List (Int × List Packet)), specPackets pes = some pk →
    ∀ p ∈ pk, ∀ q ∈ p.2, PacketCells q
  | [], pk, h => by
    simp [specPackets, mapM_nil] at h; subst h; intro p hp; cases hp
  | p :: pes, pk, h => by
    obtain ⟨q, pk', hq, hpk', e⟩ := mapM_cons _ _ _ _ h
    subst e
    intro r hr
    rcases List.mem_cons.mp hr with e | e
    · subst e
      cases hps : Spec.Teletext.pesPackets p.2 with
      | none => simp [hps] at hq
      | some ps =>
        simp [hps] at hq; subst hq
        exact pesPackets_cells p.2 ps hps
    · exact specPackets_cells pes pk' hpk' r e

theorem mapM_map_some {α β} (f : α → Option β) (g : α → β) (l : List α) (h : ∀ x ∈ l, f x = some (g x)) :
    Spec.Teletext.mapM f l = some (l.map g) := mapM_eq_map f g l h

/-- **End to end from the PES level.**  See `Props/C06doc.lean` (`C06_stream`) for the reading. -/
theorem stream_agree (page : Nat) (t0 : Int) (d0 : List Nat) (pes : List (Int × List Nat)) (pk : List (Int × List Packet))
    (hpage : page < 25600) (hb : ∀ p ∈ (t0, d0) :: pes, Bytes p.2)
    (hpk : specPackets ((t0, d0) :: pes) = some pk)
    (hbad : (runSpec { sel := Spec.Teletext.selOf page } pk).bad = false)
    (hkeys : (runSpec { sel := Spec.Teletext.selOf page } pk).keys.any
      (· != (runSpec { sel := Spec.Teletext.selOf page } pk).keys.headD 0) = false)
    (hknown : ∀ ie ∈ (finalInsts (runSpec { sel := Spec.Teletext.selOf page } pk) ((pes.map (·.1)).foldl max t0)).filter
        (fun ie => !ie.1.rows.isEmpty),
      (lookupCharset ((runSpec { sel := Spec.Teletext.selOf page } pk).keys.headD 0) ie.1.code).isSome = true) :
    let s := runSpec { sel := Spec.Teletext.selOf page } pk
    let first := (pes.map (·.1)).foldl min t0
    let last := (pes.map (·.1)).foldl max t0
    let key := s.keys.headD 0
    let L := (finalInsts s last).filter fun ie => !ie.1.rows.isEmpty
    runPES page ((t0, d0) :: pes) = { items := L.map (modelOf key first) } ∧
    Spec.Teletext.decode page ((t0, d0) :: pes) = some (L.map (specOf key first)) := by
  intro s first last key L
  have hsim := stream_sim ((t0, d0) :: pes) pk _ _ (ARel.init page hpage) hb hpk
  rcases hsim with hb' | hrel
  · rw [hbad] at hb'; cases hb'
  · have hinsts : InstsOK s := runSpec_insts pk _ (InstsOK.init _) (specPackets_cells _ pk hpk)
    obtain ⟨hfirst, hlast⟩ := first_last page t0 d0 pes
    have hkey := key_agrees _ _ hrel hkeys
    have hk16 : key < 16 := by
      show s.keys.headD 0 < 16
      rw [← hkey]; exact keyOf_lt _
    have hcs : ∀ code, computeCharset (tripletOf (runAcc { buf := newBuf page } ((t0, d0) :: pes)).buf.x28
        (runAcc { buf := newBuf page } ((t0, d0) :: pes)).buf.m29) code = computeCharset (key * 1024) code := by
      intro code
      apply computeCharset_congr
      rw [keyOf_mul key hk16]; exact hkey
    constructor
    · rw [runPES_eq, finish_cues _ s hrel hinsts, hfirst, hlast]
      simp only [Option.getD_some]
      congr 1
      apply List.map_congr_left
      intro ie _
      rw [modelCue_eq, hcs]
      rfl
    · rw [decode_eq page t0 d0 pes pk hpk hbad hkeys]
      apply mapM_map_some
      intro ie hie
      have hmem := (List.mem_filter.mp hie).1
      have hag : Agrees key ie.1.code (computeCharset (key * 1024) ie.1.code) := by
        have := computeCharset_agrees (key * 1024) ie.1.code (by rw [keyOf_mul key hk16]; exact hknown ie hie)
        rwa [keyOf_mul key hk16] at this
      exact specCue_eq key first ie _ (computeCharset_solid _ _) hag (finalInsts_ok s last hinsts ie hmem).2

theorem stream_empty (page : Nat) : runPES page [] = { items := [] } ∧ Spec.Teletext.decode page [] = some [] := by
  constructor
  · rfl
  · rfl

end Teletext
end Astisub
