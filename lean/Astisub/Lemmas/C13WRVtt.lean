import Astisub.Lemmas.C13WRDoc
import Astisub.Props.C02doc2

/-!
# Lemmas/C13WRVtt — the WebVTT proviso `DocOk` after `optimizeSubs`

The WebVTT writer resolves every setting of a cue / region through the style the cue / region refers
to (`styleAttrs`); those styles are reachable, hence kept, hence the written settings are the same.
The CSS block is the one thing that can change: it is collected from *all* style definitions, so
deleting an unreachable style deletes its CSS lines.  `DocOk` needs the block to end with `}`; that is
kept as an explicit hypothesis on the optimized list (`docOk_optimizeSubs`), and
`docOk_not_preserved` shows it cannot be dropped.
-/

namespace Astisub
namespace C13WR
open Go List VTT

/-- the attributes of the style a reachable reference names are the same after `Optimize` -/
theorem styleAttrs_optimizeSubs (s : Subs) (r : Option Str) (hr : s.items.isEmpty = false → r ∈ rootRefs s) :
    styleAttrs (optimizeSubs s) r = styleAttrs s r := by
  cases he : s.items.isEmpty with
  | true => rw [optimizeSubs_of_empty s he]
  | false =>
    cases r with
    | none => rfl
    | some id =>
      have hk : keepStyle s id = true := by
        simpa [keepStyle] using root_mem_used s id (hr he)
      have := findDef_filter s.styles (keepStyle s) id hk
      unfold findDef at this
      rw [optimizeSubs_of_ne s he]
      simp only [styleAttrs, keptStyles, this]

theorem cueSetting_optimizeSubs (s : Subs) (it : CItem) (hit : it ∈ s.items) (k : String) :
    cueSetting (optimizeSubs s) it k = cueSetting s it k := by
  unfold cueSetting
  rw [styleAttrs_optimizeSubs s it.style (fun _ => itemRefs_root s it hit _ (by simp [itemRefs]))]

theorem regSetting_optimizeSubs (s : Subs) (d : Def) (hd : d ∈ (optimizeSubs s).regions) (k : String) :
    regSetting (optimizeSubs s) d k = regSetting s d k := by
  unfold regSetting
  rw [styleAttrs_optimizeSubs s d.ref (fun he => by
    rw [optimizeSubs_of_ne s he] at hd
    exact regionRef_root s d hd)]

theorem regionRefOk_optimizeSubs (s : Subs) (it : CItem) (hit : it ∈ s.items)
    (h : regionRefOk s it.region = true) : regionRefOk (optimizeSubs s) it.region = true := by
  cases hr : it.region with
  | none => rfl
  | some r =>
    rw [hr] at h
    simp only [regionRefOk, Bool.and_eq_true, any_eq_true, decide_eq_true_eq] at h ⊢
    refine ⟨h.1, ?_⟩
    obtain ⟨d, hd, hid⟩ := h.2
    have := itemRegion_kept s it hit r hr (mem_map.mpr ⟨d, hd, hid⟩)
    obtain ⟨d', hd', hid'⟩ := mem_map.mp this
    exact ⟨d', hd', hid'⟩

theorem cueOk2_optimizeSubs (s : Subs) (it : CItem) (hit : it ∈ s.items) (h : cueOk2 s it = true) :
    cueOk2 (optimizeSubs s) it = true := by
  simp only [cueOk2, Bool.and_eq_true] at h ⊢
  simp only [cueSetting_optimizeSubs s it hit]
  obtain ⟨⟨⟨⟨⟨⟨⟨⟨⟨⟨⟨h1, h2⟩, h3⟩, h4⟩, h5⟩, h6⟩, h7⟩, h8⟩, h9⟩, h10⟩, h11⟩, h12⟩ := h
  exact ⟨⟨⟨⟨⟨⟨⟨⟨⟨⟨⟨h1, regionRefOk_optimizeSubs s it hit h2⟩, h3⟩, h4⟩, h5⟩, h6⟩, h7⟩, h8⟩, h9⟩, h10⟩, h11⟩, h12⟩

theorem regionOk_optimizeSubs (s : Subs) (d : Def) (hd : d ∈ (optimizeSubs s).regions) :
    regionOk (optimizeSubs s) d = regionOk s d := by
  simp only [regionOk, regSetting_optimizeSubs s d hd]

theorem readRegion_optimizeSubs (s : Subs) (d : Def) (hd : d ∈ (optimizeSubs s).regions) :
    readRegion (optimizeSubs s) d = readRegion s d := by
  simp only [readRegion, regSetting_optimizeSubs s d hd]

/-- the CSS lines after `Optimize` are CSS lines of the input -/
theorem styleLines_optimizeSubs_subset (s : Subs) : ∀ l ∈ styleLines (optimizeSubs s), l ∈ styleLines s := by
  intro l hl
  unfold styleLines at hl ⊢
  obtain ⟨d, hd, hl⟩ := mem_flatMap.mp hl
  refine mem_flatMap.mpr ⟨d, ?_, hl⟩
  have h1 : d ∈ (optimizeSubs s).styles := (mergeSort_perm _ _).mem_iff.mp hd
  exact (mergeSort_perm _ _).mem_iff.mpr ((optimizeSubs_styles_sublist s).subset h1)

theorem tsmapOk_optimizeSubs (s : Subs) : tsmapOk (optimizeSubs s) = tsmapOk s := by
  unfold tsmapOk; rw [optimizeSubs_metadata]

/-- **`DocOk` survives `Optimize`** as soon as the CSS block that is left can still be closed -/
theorem docOk_optimizeSubs (s : Subs) (h : DocOk s = true) (hend : styleEndOk (optimizeSubs s) = true) :
    DocOk (optimizeSubs s) = true := by
  simp only [DocOk, Bool.and_eq_true, Bool.not_eq_true', all_eq_true, decide_eq_true_eq] at h ⊢
  obtain ⟨⟨⟨⟨⟨⟨⟨h1, h2⟩, h3⟩, h4⟩, h5⟩, h6⟩, _⟩, h8⟩ := h
  refine ⟨⟨⟨⟨⟨⟨⟨?_, ?_⟩, ?_⟩, ?_⟩, ?_⟩, ?_⟩, hend⟩, ?_⟩
  · rw [optimizeSubs_items]; exact h1
  · intro it hit
    rw [optimizeSubs_items] at hit
    exact cueOk2_optimizeSubs s it hit (h2 it hit)
  · rw [optimizeSubs_items]; exact h3
  · intro d hd
    rw [regionOk_optimizeSubs s d hd]
    exact h4 d ((optimizeSubs_regions_sublist s).subset hd)
  · exact h5.sublist ((optimizeSubs_regions_sublist s).map _)
  · exact fun l hl => h6 l (styleLines_optimizeSubs_subset s l hl)
  · rw [tsmapOk_optimizeSubs]; exact h8

/-- the cues the WebVTT reader returns are the same with and without `Optimize` -/
theorem wanted2_items_optimizeSubs (s : Subs) : (wanted2 (optimizeSubs s)).items = (wanted2 s).items := by
  simp only [wanted2, optimizeSubs_items]
  apply map_congr_left
  intro x hx
  have hit : x.1 ∈ s.items := fst_mem_of_mem_zipIdx hx
  simp only [readCue2, readCue, cueSetting_optimizeSubs s x.1 hit]

/-- the regions the WebVTT reader returns after `Optimize`: the kept ones, each read as before -/
theorem wanted2_regions_optimizeSubs (s : Subs) :
    (wanted2 (optimizeSubs s)).regions = (VTT.sortDefs (optimizeSubs s).regions).map (readRegion s) := by
  simp only [wanted2, readRegions]
  apply map_congr_left
  intro d hd
  exact readRegion_optimizeSubs s d ((mergeSort_perm _ _).mem_iff.mp hd)

/-! ### the hypothesis on the CSS block cannot be dropped -/

/-- CSS spread over two styles, only the first of which is referred to -/
def cssSplit : Subs :=
  { items := [{ startAt := 0, endAt := 1000000000, style := some "a".toList,
                lines := [{ items := [{ text := "x".toList }] }] }],
    styles := [{ id := "a".toList, attrs := some [("WebVTTStyles".toList, "::cue {".toList)] },
               { id := "b".toList, attrs := some [("WebVTTStyles".toList, "}".toList)] }] }

theorem cssSplit_optimized : optimizeSubs cssSplit
    = { cssSplit with styles := [{ id := "a".toList, attrs := some [("WebVTTStyles".toList, "::cue {".toList)] }] } := by
  decide

theorem cssSplit_styleLines : styleLines cssSplit = ["::cue {".toList, "}".toList] := by
  have h : VTT.sortDefs cssSplit.styles = cssSplit.styles := by
    simp [VTT.sortDefs, List.mergeSort, cssSplit, strLt]
  simp only [styleLines, h]
  decide

theorem cssSplit_styleLines_opt : styleLines (optimizeSubs cssSplit) = ["::cue {".toList] := by
  rw [cssSplit_optimized]
  have h : VTT.sortDefs [({ id := "a".toList, attrs := some [("WebVTTStyles".toList, "::cue {".toList)] } : Def)]
      = [{ id := "a".toList, attrs := some [("WebVTTStyles".toList, "::cue {".toList)] }] := by
    simp [VTT.sortDefs]
  simp only [styleLines, h]
  decide

theorem cssSplit_docOk : DocOk cssSplit = true := by
  have h1 : cssSplit.items.all (cueOk2 cssSplit) = true := by decide
  have h2 : (!cssSplit.items.isEmpty) = true := rfl
  have h3 : decide (cssSplit.items.length ≤ int64Max) = true := by decide
  have h4 : cssSplit.regions.all (regionOk cssSplit) = true := rfl
  have h5 : decide ((cssSplit.regions.map (·.id)).Nodup) = true := by decide
  have h6 : (styleLines cssSplit).all styleLineOk = true := by rw [cssSplit_styleLines]; decide
  have h7 : styleEndOk cssSplit = true := by simp only [styleEndOk, cssSplit_styleLines]; decide
  have h8 : tsmapOk cssSplit = true := by decide
  unfold DocOk
  rw [h1, h2, h3, h4, h5, h6, h7, h8]
  rfl

/-- **`DocOk` is not preserved in general**: a CSS block whose closing brace sits in an unreachable
    style is cut open by `Optimize` -/
theorem docOk_not_preserved : DocOk cssSplit = true ∧ styleEndOk (optimizeSubs cssSplit) = false ∧
    DocOk (optimizeSubs cssSplit) = false := by
  have h : styleEndOk (optimizeSubs cssSplit) = false := by
    simp only [styleEndOk, cssSplit_styleLines_opt]; decide
  refine ⟨cssSplit_docOk, h, ?_⟩
  unfold DocOk
  rw [h]
  simp

end C13WR
end Astisub
