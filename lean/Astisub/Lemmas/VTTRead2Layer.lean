import Astisub.Lemmas.VTTRead2Main
import Astisub.Lemmas.VTTRead2Text
import Astisub.Lemmas.VTTRead2TagView

/-!
# Lemmas/VTTRead2Layer — the cue-text layer for `lineOK` lines, and the read clause for `InClass`
-/

namespace Astisub
namespace VTTRead
open Go Spec.VTT

/-- the cue-text layer: tokenizer + tag expression + text tokens against the decoder's `textLine`,
    for lines without inline timestamps (`lineOK`) -/
def textLayer : TextLayer lineOK where
  good stack := (∀ t ∈ stack, goodName t.name = true) ∧ (∀ t ∈ stack, tagOK t = true)
  good_nil := ⟨fun t ht => (by cases ht), fun t ht => (by cases ht)⟩
  agree := by
    intro l stack st hok hg h
    obtain ⟨hg1, hg2⟩ := hg
    have a := textLine_line_tagOK l stack st hok h hg2
    refine ⟨⟨textLine_goodStack l stack st hok hg1 h, a.1⟩, ?_, parseText_of_textLine l stack st hok hg1 h⟩
    intro r hr
    exact runView_runItem r (textLine_ts_none l stack st hok hg1 h r hr) (a.2 r hr)

/-- the read clause on character lines, for the class `InClass` -/
theorem read_chars (text : Str) (g : GDoc) (hin : InClass text = true) (h : decode text = some g) :
    Good (VTT.read ((splitLines text []).map some)) g :=
  read_decode_chars textLayer text g (by rw [← InClass_eq]; exact hin) h

/-- the read clause on bytes, for the class `InClass` -/
theorem read_bytes (doc : List UInt8) (text : Str) (g : GDoc) (hdec : Driver.decodeLine doc = some text)
    (hin : InClass text = true) (h : decode text = some g) :
    Good (VTT.read (Driver.docLines doc)) g :=
  read_decode_bytes textLayer doc text g hdec (by rw [← InClass_eq]; exact hin) h

end VTTRead
end Astisub
