import Astisub.Lemmas.STLRead2File
import Std.Data.String.ToInt

/-!
# Lemmas/STLRead2View — the `stl.read` check's views of the cues the reader model returns

`Driver.STLD.cueView`, `posOf`, `propagationOK`, `runView` read the attributes of a cue / run back out of the sorted
key/value lists through `String.toInt?`, `splitC`, the colour tables.  Here: applied to `docCue dsc mnr c` they give
back `c` (for cues of the decoder's class: justification code at most 3, colours at most 7).
-/

namespace Astisub
namespace C05
open Go STL

/-! ## numbers as strings -/

theorem digitChar_eq (k : Nat) (h : k < 10) : Nat.digitChar k = Go.digitChar k := by
  have : k = 0 ∨ k = 1 ∨ k = 2 ∨ k = 3 ∨ k = 4 ∨ k = 5 ∨ k = 6 ∨ k = 7 ∨ k = 8 ∨ k = 9 := by omega
  rcases this with rfl | rfl | rfl | rfl | rfl | rfl | rfl | rfl | rfl | rfl <;> rfl

theorem itoaAux_toDigitsCore : ∀ (fuel n : Nat) (acc : Str), itoaAux fuel n acc = Nat.toDigitsCore 10 fuel n acc
  | 0, _, _ => rfl
  | fuel + 1, n, acc => by
    unfold itoaAux Nat.toDigitsCore
    simp only
    by_cases h : n < 10
    · have h0 : n / 10 = 0 := by omega
      have h1 : n % 10 = n := by omega
      rw [if_pos h, if_pos h0, h1, digitChar_eq n h]
    · have h0 : ¬ n / 10 = 0 := by omega
      rw [if_neg h, if_neg h0, digitChar_eq (n % 10) (by omega)]
      exact itoaAux_toDigitsCore fuel (n / 10) _

/-- Go's `strconv.Itoa` (model) and Lean's `Nat.repr` print the same digits -/
theorem itoaNat_repr (n : Nat) : String.ofList (itoaNat n) = Nat.repr n := by
  unfold itoaNat Nat.repr Nat.toDigits
  rw [itoaAux_toDigitsCore]

theorem intOf_itoaNat (n : Nat) : Driver.STLD.intOf (itoaNat n) = some (n : Int) := by
  unfold Driver.STLD.intOf
  rw [itoaNat_repr]
  exact Nat.toInt?_repr n

theorem toString_nat_int (n : Nat) : (toString ((n : Nat) : Int)).toList = itoaNat n := by
  rw [← String.toList_ofList (l := itoaNat n), itoaNat_repr]
  rfl

theorem itoa_nat (n : Nat) : itoa ((n : Nat) : Int) = itoaNat n := by
  unfold itoa
  simp

theorem comma_not_digit (n : Nat) : ',' ∉ itoaNat n := by
  intro h
  obtain ⟨k, hk, e⟩ := itoaNat_digitStr n ',' h
  have : k = 0 ∨ k = 1 ∨ k = 2 ∨ k = 3 ∨ k = 4 ∨ k = 5 ∨ k = 6 ∨ k = 7 ∨ k = 8 ∨ k = 9 := by omega
  rcases this with rfl | rfl | rfl | rfl | rfl | rfl | rfl | rfl | rfl | rfl <;> exact absurd e (by decide)

/-! ## the cue attributes -/

def alignOf (jc : Nat) : Option Str :=
  if justOf jc == 4 then some "right".toList else if justOf jc == 2 then some "left".toList else none

def lineOfPos (vp : Nat) (mnr : Int) : Option Str :=
  if mnr > 0 then
    some (itoa (if mnr == 23 && vp > 0 then Int.tdiv (((vp : Int) - 1) * 100) mnr else Int.tdiv ((vp : Int) * 100) mnr) ++ ['%'])
  else none

def cueEntries (jc vp : Nat) (mnr : Int) (rows : Nat) : List (String × Option Str) :=
  [("STLJustification", some (itoaNat (justOf jc))),
   ("STLPosition", some (itoaNat vp ++ [','] ++ itoa mnr ++ [','] ++ itoaNat rows)),
   ("WebVTTAlign", alignOf jc), ("WebVTTLine", lineOfPos vp mnr)]

theorem itemAttrs_eq (jc vp : Nat) (mnr : Int) (rows : Nat) :
    itemAttrs jc vp mnr rows = some (mkAttrs (cueEntries jc vp mnr rows)) := rfl

theorem cueEntries_keys (jc vp : Nat) (mnr : Int) (rows : Nat) :
    (cueEntries jc vp mnr rows).Pairwise (fun a b => a.1 ≠ b.1) := by
  simp [cueEntries, List.pairwise_cons]

theorem kv_just (jc vp : Nat) (mnr : Int) (rows : Nat) :
    Driver.STLD.kv (itemAttrs jc vp mnr rows) "STLJustification" = some (itoaNat (justOf jc)) := by
  rw [itemAttrs_eq]
  unfold Driver.STLD.kv
  apply lookup_mkAttrs _ (cueEntries_keys _ _ _ _)
  intro v; simp [cueEntries]; exact eq_comm

theorem kv_pos (jc vp : Nat) (mnr : Int) (rows : Nat) :
    Driver.STLD.kv (itemAttrs jc vp mnr rows) "STLPosition"
      = some (itoaNat vp ++ [','] ++ itoa mnr ++ [','] ++ itoaNat rows) := by
  rw [itemAttrs_eq]
  unfold Driver.STLD.kv
  apply lookup_mkAttrs _ (cueEntries_keys _ _ _ _)
  intro v; simp [cueEntries]; exact eq_comm

theorem kv_align (jc vp : Nat) (mnr : Int) (rows : Nat) :
    Driver.STLD.kv (itemAttrs jc vp mnr rows) "WebVTTAlign" = alignOf jc := by
  rw [itemAttrs_eq]
  unfold Driver.STLD.kv
  apply lookup_mkAttrs _ (cueEntries_keys _ _ _ _)
  intro v; simp [cueEntries]; exact eq_comm

theorem kv_line (jc vp : Nat) (mnr : Int) (rows : Nat) :
    Driver.STLD.kv (itemAttrs jc vp mnr rows) "WebVTTLine" = lineOfPos vp mnr := by
  rw [itemAttrs_eq]
  unfold Driver.STLD.kv
  apply lookup_mkAttrs _ (cueEntries_keys _ _ _ _)
  intro v; simp [cueEntries]; exact eq_comm

/-- `STLPosition` is read back as (vertical position, maximum rows, rows) -/
theorem posOf_itemAttrs (jc vp mnr rows : Nat) :
    Driver.STLD.posOf (itemAttrs jc vp (mnr : Int) rows) = some ((vp : Int), (mnr : Int), (rows : Int)) := by
  unfold Driver.STLD.posOf
  rw [kv_pos, itoa_nat]
  have hs : splitC ',' (itoaNat vp ++ [','] ++ itoaNat mnr ++ [','] ++ itoaNat rows)
      = [itoaNat vp, itoaNat mnr, itoaNat rows] := by
    have e : itoaNat vp ++ [','] ++ itoaNat mnr ++ [','] ++ itoaNat rows
        = itoaNat vp ++ ',' :: (itoaNat mnr ++ ',' :: itoaNat rows) := by simp
    rw [e, splitC_append _ (comma_not_digit vp), splitC_append _ (comma_not_digit mnr), splitC_not_mem (comma_not_digit rows)]
  simp only [Option.map_some, hs, intOf_itoaNat]

theorem just_itemAttrs (jc vp : Nat) (mnr : Int) (rows : Nat) :
    (Driver.STLD.kv (itemAttrs jc vp mnr rows) "STLJustification").bind Driver.STLD.intOf = some ((justOf jc : Nat) : Int) := by
  rw [kv_just]
  exact intOf_itoaNat _

theorem justOf_back : ∀ jc : Fin 4, ((((justOf jc.val : Nat) : Int) - 1).toNat) = jc.val := by decide

/-! ## runs of the decoder's class -/

/-- a colour the teletext readers can name: one of the eight -/
def ColOK (r : Spec.STL.Run) : Prop := ∀ c, r.color = some c → c ≤ 7

instance (r : Spec.STL.Run) : Decidable (ColOK r) :=
  decidable_of_iff (r.color.all (· ≤ 7) = true) (by
    unfold ColOK
    cases r.color with
    | none => simp
    | some c => simp)

/-- the runs a row parser of the decoder can produce under display standard `dsc` -/
def RunOK (dsc : Nat) (r : Spec.STL.Run) : Prop := if dsc = 0 then OpenRun r else ColOK r

instance (dsc : Nat) (r : Spec.STL.Run) : Decidable (RunOK dsc r) := by unfold RunOK; infer_instance

theorem mkRun_col (s : Spec.STL.Sty) (t : Str) (hs : ∀ c, s.color = some c → c ≤ 7) :
    ∀ r ∈ (Spec.STL.mkRun s t true).toList, ColOK r := by
  intro r hr
  unfold Spec.STL.mkRun at hr
  split at hr
  · cases hr
  · simp only [Option.toList_some, List.mem_singleton] at hr
    subst hr
    exact hs

/-- the teletext row parser of the decoder only ever records the colours 0–7 -/
theorem tele_col : ∀ (n : Nat) (row : Bytes), row.length ≤ n →
    ∀ (s : Spec.STL.Sty) (box : Nat) (t : Str) (acc res : List Spec.STL.Run),
    Spec.STL.teleRow row s box t acc = some res → (∀ c, s.color = some c → c ≤ 7) → (∀ r ∈ acc, ColOK r) →
    ∀ r ∈ res, ColOK r
  | _, [], _, s, box, t, acc, res, h, hs, ha => by
    rw [spec_teleRow_nil] at h
    rw [← Option.some.inj h]
    intro r hr
    rcases List.mem_append.mp hr with hr | hr
    · exact ha r hr
    · exact mkRun_col s t hs r hr
  | 0, v :: rest, hlen, _, _, _, _, _, _, _, _ => by simp at hlen
  | n + 1, v :: rest, hlen, s, box, t, acc, res, h, hs, ha => by
    have hlen' : rest.length ≤ n := by simpa using hlen
    have ha' : ∀ r ∈ acc ++ (Spec.STL.mkRun s t true).toList, ColOK r := by
      intro r hr
      rcases List.mem_append.mp hr with hr | hr
      · exact ha r hr
      · exact mkRun_col s t hs r hr
    rw [spec_teleRow_cons] at h
    by_cases e1 : (v == 0x8F) = true
    · rw [if_pos e1] at h; exact tele_col n rest hlen' _ _ _ _ _ h hs ha
    rw [if_neg e1] at h
    by_cases e2 : (v == 0x0B) = true
    · rw [if_pos e2] at h; exact tele_col n rest hlen' _ _ _ _ _ h hs ha
    rw [if_neg e2] at h
    by_cases e3 : (v == 0x0A) = true
    · rw [if_pos e3] at h; exact tele_col n rest hlen' _ _ _ _ _ h hs ha
    rw [if_neg e3] at h
    by_cases e4 : v ≤ 0x07
    · rw [if_pos e4] at h
      by_cases hc : (s.color == some v) = true
      · rw [if_pos hc] at h; cases h
      · rw [if_neg hc] at h
        exact tele_col n rest hlen' _ _ _ _ _ h (by intro c hc; simp only [Option.some.injEq] at hc; omega) ha'
    rw [if_neg e4] at h
    by_cases e5 : (v == 0x0C) = true
    · rw [if_pos e5] at h
      by_cases hc : (s.dh == some true || s.ds == some true || s.dw == some true) = true
      · rw [if_pos hc] at h; exact tele_col n rest hlen' _ _ _ _ _ h hs ha'
      · rw [if_neg hc] at h; cases h
    rw [if_neg e5] at h
    by_cases e6 : (v == 0x0D) = true
    · rw [if_pos e6] at h
      by_cases hc : (s.dh == some true) = true
      · rw [if_pos hc] at h; cases h
      · rw [if_neg hc] at h; exact tele_col n rest hlen' _ _ _ _ _ h hs ha'
    rw [if_neg e6] at h
    by_cases e7 : (v == 0x0E) = true
    · rw [if_pos e7] at h
      by_cases hc : (s.dw == some true) = true
      · rw [if_pos hc] at h; cases h
      · rw [if_neg hc] at h; exact tele_col n rest hlen' _ _ _ _ _ h hs ha'
    rw [if_neg e7] at h
    by_cases e8 : (v == 0x0F) = true
    · rw [if_pos e8] at h
      by_cases hc : (s.ds == some true) = true
      · rw [if_pos hc] at h; cases h
      · rw [if_neg hc] at h; exact tele_col n rest hlen' _ _ _ _ _ h hs ha'
    rw [if_neg e8] at h
    cases hsc : Spec.STL.styCode s v with
    | some s' =>
      rw [hsc] at h
      simp only at h
      by_cases hc : (s' == s) = true
      · rw [if_pos hc] at h; cases h
      · rw [if_neg hc] at h
        have hcol : s'.color = s.color := by
          have hcode := styCode_isCode s s' v hsc
          unfold isCode at hcode
          have : v = 0x80 ∨ v = 0x81 ∨ v = 0x82 ∨ v = 0x83 ∨ v = 0x84 ∨ v = 0x85 := by omega
          rcases this with rfl | rfl | rfl | rfl | rfl | rfl <;>
            (simp only [Spec.STL.styCode] at hsc; rw [← Option.some.inj hsc])
        exact tele_col n rest hlen' _ _ _ _ _ h (by rw [hcol]; exact hs) ha'
    | none =>
      rw [hsc] at h
      simp only at h
      by_cases hlo : v < 0x20
      · rw [if_pos hlo] at h; cases h
      rw [if_neg hlo] at h
      by_cases hd : Spec.STL.isDia v = true
      · rw [if_pos hd] at h
        cases rest with
        | nil => cases h
        | cons k rest' =>
          simp only at h
          by_cases hl : Spec.STL.isLetter k = true
          · rw [if_pos hl] at h
            have hlen2 : rest'.length ≤ n := by simp at hlen'; omega
            by_cases hb : (box == 1) = true
            · rw [if_pos hb] at h; exact tele_col n rest' hlen2 _ _ _ _ _ h hs ha
            · rw [if_neg hb] at h; exact tele_col n rest' hlen2 _ _ _ _ _ h hs ha
          · rw [if_neg hl] at h; cases h
      · rw [if_neg hd] at h
        cases ht : Spec.STL.tab v with
        | none => rw [ht] at h; cases h
        | some cps =>
          rw [ht] at h
          simp only at h
          by_cases hb : (box == 1) = true
          · rw [if_pos hb] at h; exact tele_col n rest hlen' _ _ _ _ _ h hs ha
          · rw [if_neg hb] at h; exact tele_col n rest hlen' _ _ _ _ _ h hs ha

/-- the runs of a row, under either display standard, are runs the check can read back -/
theorem row_runs_ok (dsc : Nat) (row : Bytes) (res : List Spec.STL.Run)
    (h : (if dsc == 0 then Spec.STL.openRow row {} [] [] else Spec.STL.teleRow row {} 0 [] []) = some res) :
    ∀ r ∈ res, RunOK dsc r := by
  intro r hr
  unfold RunOK
  by_cases hd : dsc = 0
  · subst hd
    simp only [beq_self_eq_true, if_true] at h
    obtain ⟨segs, hs, _⟩ := open_row_agree row res h
    subst hs
    obtain ⟨g, _, rfl⟩ := List.mem_map.mp hr
    rw [if_pos rfl]
    exact openRun_runOf g
  · have hd0 : (dsc == 0) = false := by simpa using hd
    simp only [hd0, Bool.false_eq_true, if_false] at h
    rw [if_neg hd]
    exact tele_col row.length row (Nat.le_refl _) {} 0 [] [] res h (by intro c hc; cases hc) (by intro r hr; cases hr) r hr

theorem mapM_mem {α β} (f : α → Option β) : ∀ (l : List α) (r : List β), Spec.STL.mapM f l = some r →
    ∀ y ∈ r, ∃ x ∈ l, f x = some y
  | [], r, h, y, hy => by rw [mapM_nil_inv _ _ h] at hy; cases hy
  | a :: as, r, h, y, hy => by
    obtain ⟨x, xs, h1, h2, rfl⟩ := mapM_cons_inv _ _ _ _ h
    rcases List.mem_cons.mp hy with rfl | hy
    · exact ⟨a, by simp, h1⟩
    · obtain ⟨x', hx', hf⟩ := mapM_mem f as xs h2 y hy
      exact ⟨x', by simp [hx'], hf⟩

/-- a cue of the decoder's class: justification code 0–3, runs the check can read back -/
def CueOK (dsc : Nat) (c : Spec.STL.Cue) : Prop := c.just ≤ 3 ∧ ∀ l ∈ c.lines, ∀ r ∈ l, RunOK dsc r

instance (dsc : Nat) (c : Spec.STL.Cue) : Decidable (CueOK dsc c) := by unfold CueOK; infer_instance

theorem tti_cue_ok (fr dsc : Nat) (off : Int) (p : Bytes) (c : Spec.STL.Cue)
    (h : Spec.STL.tti fr dsc off p = some (some c)) : CueOK dsc c := by
  unfold Spec.STL.tti at h
  split at h
  · cases h
  · split at h
    · cases h
    · simp only at h
      split at h
      · cases h
      · split at h
        · cases h
        · rename_i hj
          split at h
          · cases h
          · rename_i ls hrows
            have hc := (Option.some.inj (Option.some.inj h)).symm
            subst hc
            refine ⟨by show p.getD 14 0 ≤ 3; omega, ?_⟩
            intro l hl r hr
            obtain ⟨row, _, hrow⟩ := mapM_mem _ _ _ hrows l (List.mem_filter.mp hl).1
            exact row_runs_ok dsc row l hrow r hr

theorem decode_cues_ok (ig : Bool) (doc : Bytes) (d : Spec.STL.Doc) (h : Spec.STL.decode ig doc = some d) :
    ∀ c ∈ d.cues, CueOK d.dsc c := by
  obtain ⟨cs, hcs, hcues⟩ := (decode_inv ig doc d h).cues
  intro c hc
  rw [hcues] at hc
  have hm : some c ∈ cs := by simpa using hc
  obtain ⟨p, _, hp⟩ := mapM_mem _ _ _ hcs (some c) hm
  exact tti_cue_ok d.fr d.dsc d.tcpNs p c hp

/-! ## the run attributes -/

def teleEntries (r : Spec.STL.Run) : List (String × Option Str) :=
  stlAttrs (lstyR r) ++
    [("TeletextColor", r.color.map colorSSA), ("TTMLColor", r.color.map colorTTML),
     ("TeletextDoubleHeight", optB r.dh), ("TeletextDoubleSize", optB r.ds), ("TeletextDoubleWidth", optB r.dw),
     ("TeletextSpacesBefore", some (itoaNat r.spacesBefore)), ("TeletextSpacesAfter", some (itoaNat r.spacesAfter))]

theorem teleItem_attrs (r : Spec.STL.Run) : (teleItem r).attrs = some (mkAttrs (teleEntries r)) := rfl

theorem teleEntries_keys (r : Spec.STL.Run) : (teleEntries r).Pairwise (fun a b => a.1 ≠ b.1) := by
  simp [teleEntries, stlAttrs, List.pairwise_cons]

theorem kvT (r : Spec.STL.Run) (k : String) (o : Option Str) (h : ∀ v, (k, some v) ∈ teleEntries r ↔ o = some v) :
    Driver.STLD.kv (teleItem r).attrs k = o := by
  rw [teleItem_attrs]
  unfold Driver.STLD.kv
  exact lookup_mkAttrs _ (teleEntries_keys r) k o h

theorem kvT_italics (r : Spec.STL.Run) : Driver.STLD.kv (teleItem r).attrs "STLItalics" = optB r.italic := by
  apply kvT; intro v; simp [teleEntries, stlAttrs, lstyR]; exact eq_comm
theorem kvT_underline (r : Spec.STL.Run) : Driver.STLD.kv (teleItem r).attrs "STLUnderline" = optB r.underline := by
  apply kvT; intro v; simp [teleEntries, stlAttrs, lstyR]; exact eq_comm
theorem kvT_boxing (r : Spec.STL.Run) : Driver.STLD.kv (teleItem r).attrs "STLBoxing" = optB r.boxing := by
  apply kvT; intro v; simp [teleEntries, stlAttrs, lstyR]; exact eq_comm
theorem kvT_color (r : Spec.STL.Run) : Driver.STLD.kv (teleItem r).attrs "TeletextColor" = r.color.map colorSSA := by
  apply kvT; intro v; cases hc : r.color <;> simp [teleEntries, stlAttrs, lstyR, hc, eq_comm]
theorem kvT_ttml (r : Spec.STL.Run) : Driver.STLD.kv (teleItem r).attrs "TTMLColor" = r.color.map colorTTML := by
  apply kvT; intro v; cases hc : r.color <;> simp [teleEntries, stlAttrs, lstyR, hc, eq_comm]
theorem kvT_dh (r : Spec.STL.Run) : Driver.STLD.kv (teleItem r).attrs "TeletextDoubleHeight" = optB r.dh := by
  apply kvT; intro v; simp [teleEntries, stlAttrs, lstyR]; exact eq_comm
theorem kvT_ds (r : Spec.STL.Run) : Driver.STLD.kv (teleItem r).attrs "TeletextDoubleSize" = optB r.ds := by
  apply kvT; intro v; simp [teleEntries, stlAttrs, lstyR]; exact eq_comm
theorem kvT_dw (r : Spec.STL.Run) : Driver.STLD.kv (teleItem r).attrs "TeletextDoubleWidth" = optB r.dw := by
  apply kvT; intro v; simp [teleEntries, stlAttrs, lstyR]; exact eq_comm
theorem kvT_before (r : Spec.STL.Run) :
    Driver.STLD.kv (teleItem r).attrs "TeletextSpacesBefore" = some (itoaNat r.spacesBefore) := by
  apply kvT; intro v; simp [teleEntries, stlAttrs, lstyR]; exact eq_comm
theorem kvT_after (r : Spec.STL.Run) :
    Driver.STLD.kv (teleItem r).attrs "TeletextSpacesAfter" = some (itoaNat r.spacesAfter) := by
  apply kvT; intro v; simp [teleEntries, stlAttrs, lstyR]; exact eq_comm

theorem optBool_of_kv (a : Attrs) (k : String) (o : Option Bool) (h : Driver.STLD.kv a k = optB o) :
    Driver.STLD.optBool a k = o := by
  unfold Driver.STLD.optBool
  rw [h]
  cases o with
  | none => rfl
  | some b => cases b <;> decide

theorem colorIdx_lit (s : String)
    (h : ["00000000", "000000ff", "00008000", "0000ffff", "00ff0000", "00ff00ff", "00ffff00", "00ffffff"].idxOf? s = some n) :
    Driver.STLD.colorIdx s.toList = some n := by
  unfold Driver.STLD.colorIdx
  rw [String.ofList_toList]
  exact h

/-- the driver's colour table recognises each of the eight teletext colours -/
theorem colorIdx_ssa (c : Nat) (h : c ≤ 7) : Driver.STLD.colorIdx (colorSSA c) = some c := by
  have : c = 0 ∨ c = 1 ∨ c = 2 ∨ c = 3 ∨ c = 4 ∨ c = 5 ∨ c = 6 ∨ c = 7 := by omega
  rcases this with rfl | rfl | rfl | rfl | rfl | rfl | rfl | rfl
  · exact colorIdx_lit "00000000" (by simp [List.idxOf?, List.findIdx?_cons])
  · exact colorIdx_lit "000000ff" (by simp [List.idxOf?, List.findIdx?_cons])
  · exact colorIdx_lit "00008000" (by simp [List.idxOf?, List.findIdx?_cons])
  · exact colorIdx_lit "0000ffff" (by simp [List.idxOf?, List.findIdx?_cons])
  · exact colorIdx_lit "00ff0000" (by simp [List.idxOf?, List.findIdx?_cons])
  · exact colorIdx_lit "00ff00ff" (by simp [List.idxOf?, List.findIdx?_cons])
  · exact colorIdx_lit "00ffff00" (by simp [List.idxOf?, List.findIdx?_cons])
  · exact colorIdx_lit "00ffffff" (by simp [List.idxOf?, List.findIdx?_cons])

theorem colorTTML_table (c : Nat) (h : c ≤ 7) :
    colorTTML c = (["#000000", "#ff0000", "#008000", "#ffff00", "#0000ff", "#ff00ff", "#00ffff", "#ffffff"].getD c "").toList := by
  have : c = 0 ∨ c = 1 ∨ c = 2 ∨ c = 3 ∨ c = 4 ∨ c = 5 ∨ c = 6 ∨ c = 7 := by omega
  rcases this with rfl | rfl | rfl | rfl | rfl | rfl | rfl | rfl <;> rfl

theorem natOf_some (a : Attrs) (k : String) (n : Nat) (h : Driver.STLD.kv a k = some (itoaNat n)) :
    Driver.STLD.natOf a k = n := by
  unfold Driver.STLD.natOf
  rw [h]
  simp [intOf_itoaNat]

/-- the check's view of a teletext run built by the library reader is the run the decoder denotes -/
theorem runView_teleItem (r : Spec.STL.Run) (h : ColOK r) : Driver.STLD.runView (teleItem r) = r := by
  unfold Driver.STLD.runView
  simp only [optBool_of_kv _ _ _ (kvT_italics r), optBool_of_kv _ _ _ (kvT_underline r), optBool_of_kv _ _ _ (kvT_boxing r),
    optBool_of_kv _ _ _ (kvT_dh r), optBool_of_kv _ _ _ (kvT_ds r), optBool_of_kv _ _ _ (kvT_dw r), kvT_color,
    natOf_some _ _ _ (kvT_before r), natOf_some _ _ _ (kvT_after r)]
  have hc : (r.color.map colorSSA).bind Driver.STLD.colorIdx = r.color := by
    cases hcol : r.color with
    | none => rfl
    | some c => simp only [Option.map_some, Option.bind_some]; exact colorIdx_ssa c (h c hcol)
  rw [hc]
  cases r
  rfl

theorem runView_runItem (dsc : Nat) (r : Spec.STL.Run) (h : RunOK dsc r) : Driver.STLD.runView (runItem dsc r) = r := by
  unfold RunOK at h
  unfold runItem
  by_cases hd : dsc = 0
  · rw [if_pos hd] at h ⊢
    unfold openItem
    rw [runView_itemOf, runOf_segOf r h]
  · rw [if_neg hd] at h ⊢
    exact runView_teleItem r h

/-! ## the cue -/

/-- **`cueView`**: the check reads the cue the reader model builds back as the cue the decoder denotes -/
theorem cueView_docCue (dsc mnr : Nat) (c : Spec.STL.Cue) (h : CueOK dsc c) :
    Driver.STLD.cueView (docCue dsc (mnr : Int) c) = some c := by
  obtain ⟨hj, hr⟩ := h
  unfold Driver.STLD.cueView
  have e : (docCue dsc (mnr : Int) c).attrs = itemAttrs c.just c.vp (mnr : Int) c.nrows := rfl
  rw [e, posOf_itemAttrs, just_itemAttrs]
  simp only
  have hjb := justOf_back ⟨c.just, by omega⟩
  simp only at hjb
  have hl : (docCue dsc (mnr : Int) c).lines.map (fun l => l.items.map Driver.STLD.runView) = c.lines := by
    unfold docCue
    simp only [List.map_map]
    have : ∀ l ∈ c.lines, ((fun l : Line => l.items.map Driver.STLD.runView) ∘
        fun l : List Spec.STL.Run => ({ items := l.map (runItem dsc) } : Line)) l = id l := by
      intro l hl
      simp only [Function.comp, List.map_map, id]
      have : ∀ r ∈ l, (Driver.STLD.runView ∘ runItem dsc) r = id r :=
        fun r hr' => runView_runItem dsc r (hr l hl r hr')
      rw [List.map_congr_left this, List.map_id]
    rw [List.map_congr_left this, List.map_id]
  rw [hl, hjb]
  cases c
  rfl

theorem maxRows_docCue (dsc mnr : Nat) (c : Spec.STL.Cue) :
    (Driver.STLD.posOf (docCue dsc (mnr : Int) c).attrs).any (fun p => p.2.1 == (mnr : Int)) = true := by
  have e : (docCue dsc (mnr : Int) c).attrs = itemAttrs c.just c.vp (mnr : Int) c.nrows := rfl
  rw [e, posOf_itemAttrs]
  simp

/-! ## attribute propagation -/

theorem align_ok : ∀ jc : Fin 4,
    (alignOf jc.val == (if (((justOf jc.val : Nat) : Int) == 2) = true then some "left".toList
      else if (((justOf jc.val : Nat) : Int) == 4) = true then some "right".toList else none)) = true := by decide

/-- the percentage `propagateSTLAttributes` computes, as a natural number -/
def pctNat (vp mnr : Nat) : Nat := if mnr = 23 ∧ vp > 0 then (vp - 1) * 100 / mnr else vp * 100 / mnr

theorem lineOfPos_nat (vp mnr : Nat) :
    lineOfPos vp (mnr : Int) = if mnr = 0 then none else some (itoaNat (pctNat vp mnr) ++ ['%']) := by
  unfold lineOfPos pctNat
  by_cases h0 : mnr = 0
  · subst h0; simp
  · have hpos : ((mnr : Int) > 0) := by omega
    rw [if_pos hpos, if_neg h0]
    congr 2
    by_cases hc : mnr = 23 ∧ vp > 0
    · have hc' : (((mnr : Int) == 23) && decide (vp > 0)) = true := by simp [hc.1, hc.2]
      rw [if_pos hc', if_pos hc, Int.tdiv_eq_ediv_of_nonneg (by omega)]
      have : ((vp : Int) - 1) * 100 / (mnr : Int) = (((vp - 1) * 100 / mnr : Nat) : Int) := by
        have e : ((vp : Int) - 1) = ((vp - 1 : Nat) : Int) := by omega
        rw [e]; norm_cast
      rw [this, itoa_nat]
    · have hc' : ¬ (((mnr : Int) == 23) && decide (vp > 0)) = true := by
        intro h
        simp only [Bool.and_eq_true, beq_iff_eq, decide_eq_true_eq] at h
        exact hc ⟨by omega, h.2⟩
      rw [if_neg hc', if_neg hc, Int.tdiv_eq_ediv_of_nonneg (by omega)]
      have : (vp : Int) * 100 / (mnr : Int) = ((vp * 100 / mnr : Nat) : Int) := by norm_cast
      rw [this, itoa_nat]

theorem wantLine_nat (vp mnr : Nat) :
    (if (mnr : Int) ≤ 0 then (none : Option Str)
     else some ((toString (if ((mnr : Int) == 23) = true ∧ (vp : Int) > 0 then ((vp : Int) - 1) * 100 / (mnr : Int)
        else (vp : Int) * 100 / (mnr : Int))).toList ++ ['%']))
    = if mnr = 0 then none else some (itoaNat (pctNat vp mnr) ++ ['%']) := by
  unfold pctNat
  by_cases h0 : mnr = 0
  · subst h0; simp
  · rw [if_neg (by omega), if_neg h0]
    congr 2
    by_cases hc : mnr = 23 ∧ vp > 0
    · have hc' : ((mnr : Int) == 23) = true ∧ (vp : Int) > 0 := ⟨by simp; omega, by omega⟩
      rw [if_pos hc', if_pos hc]
      have : ((vp : Int) - 1) * 100 / (mnr : Int) = (((vp - 1) * 100 / mnr : Nat) : Int) := by
        have e : ((vp : Int) - 1) = ((vp - 1 : Nat) : Int) := by omega
        rw [e]; norm_cast
      rw [this, toString_nat_int]
    · have hc' : ¬ (((mnr : Int) == 23) = true ∧ (vp : Int) > 0) := by
        intro h
        have h1 : (mnr : Int) = 23 := by simpa using h.1
        exact hc ⟨by omega, by omega⟩
      rw [if_neg hc', if_neg hc]
      have : (vp : Int) * 100 / (mnr : Int) = ((vp * 100 / mnr : Nat) : Int) := by norm_cast
      rw [this, toString_nat_int]

theorem colour_clause_tele (r : Spec.STL.Run) (h : ColOK r) :
    (match (Driver.STLD.kv (teleItem r).attrs "TeletextColor").bind Driver.STLD.colorIdx with
      | some c => Driver.STLD.kv (teleItem r).attrs "TTMLColor" ==
          some (["#000000", "#ff0000", "#008000", "#ffff00", "#0000ff", "#ff00ff", "#00ffff", "#ffffff"].getD c "").toList
      | none => (Driver.STLD.kv (teleItem r).attrs "TTMLColor").isNone) = true := by
  rw [kvT_color, kvT_ttml]
  cases hc : r.color with
  | none => rfl
  | some c =>
    simp only [Option.map_some, Option.bind_some, colorIdx_ssa c (h c hc), colorTTML_table c (h c hc)]
    simp

theorem colour_clause_open (r : Spec.STL.Run) :
    (match (Driver.STLD.kv (openItem r).attrs "TeletextColor").bind Driver.STLD.colorIdx with
      | some c => Driver.STLD.kv (openItem r).attrs "TTMLColor" ==
          some (["#000000", "#ff0000", "#008000", "#ffff00", "#0000ff", "#ff00ff", "#00ffff", "#ffffff"].getD c "").toList
      | none => (Driver.STLD.kv (openItem r).attrs "TTMLColor").isNone) = true := by
  have a1 : Driver.STLD.kv (openItem r).attrs "TeletextColor" = none :=
    lookup_absent (lsty (segOf r).2) "TeletextColor" (by decide)
  have a2 : Driver.STLD.kv (openItem r).attrs "TTMLColor" = none :=
    lookup_absent (lsty (segOf r).2) "TTMLColor" (by decide)
  rw [a1, a2]
  rfl

/-- **`propagationOK`**: the cross-format attributes of the cue the reader model builds are the ones the check
    recomputes from the STL attributes -/
theorem propagationOK_docCue (dsc mnr : Nat) (c : Spec.STL.Cue) (h : CueOK dsc c) :
    Driver.STLD.propagationOK (docCue dsc (mnr : Int) c) = true := by
  obtain ⟨hj, hr⟩ := h
  unfold Driver.STLD.propagationOK
  have e : (docCue dsc (mnr : Int) c).attrs = itemAttrs c.just c.vp (mnr : Int) c.nrows := rfl
  rw [e, posOf_itemAttrs, just_itemAttrs]
  simp only [kv_align, kv_line, wantLine_nat, lineOfPos_nat]
  have ha := align_ok ⟨c.just, by omega⟩
  simp only at ha
  rw [ha]
  simp only [beq_self_eq_true, Bool.true_and, List.all_eq_true]
  intro l hl li hli
  unfold docCue at hl
  simp only [List.mem_map] at hl
  obtain ⟨rl, hrl, rfl⟩ := hl
  simp only [List.mem_map] at hli
  obtain ⟨r, hrr, rfl⟩ := hli
  have hok := hr rl hrl r hrr
  unfold RunOK at hok
  unfold runItem
  by_cases hd : dsc = 0
  · rw [if_pos hd]; exact colour_clause_open r
  · rw [if_neg hd] at hok ⊢; exact colour_clause_tele r hok

end C05
end Astisub
