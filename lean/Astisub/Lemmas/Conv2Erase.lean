import Astisub.Lemmas.ConvErase
import Astisub.Lemmas.SSA2Fixpoint

/-!
# Lemmas/Conv2Erase — the SSA writer ignores foreign attributes (C07)

`eraseSSA` removes from a cue list everything `WriteToSSA` does not look at; the written text is the
same, for every cue list (`ssa_write_erase`), and so is the view (`view_eraseSSA`).
-/

namespace Astisub
namespace Conv2Erase
open Go List SSA ConvErase

theorem kvGet_eq (a : Attrs) (k : String) : SSA.kvGet a k = SRT.kvGet a k := rfl

theorem kvGet_keep' (keys : List String) (a : Attrs) (k : String) (hk : k ∈ keys) :
    SSA.kvGet (keepAttrs keys a) k = SSA.kvGet a k := by
  rw [kvGet_eq, kvGet_eq]; exact kvGet_keep keys a k hk

/-- what the writer reads of a cue's own attributes -/
def ssaCueKeys : List String :=
  ["SSAEffect", "SSALayer", "SSAMarginLeft", "SSAMarginRight", "SSAMarginVertical", "SSAMarked"]

/-- … of a style: the 23 `SSA…` style attributes -/
def ssaStyleKeys : List String := Fld.all.map Fld.key

/-- … of the metadata: `Comments`, `Title` and the 14 `SSA…` script-info keys -/
def ssaMetaKeys : List String := "Comments" :: SI.all.map SI.key

theorem fld_key_mem (f : Fld) : f.key ∈ ssaStyleKeys := by cases f <;> decide
theorem si_key_mem (f : SI) : f.key ∈ ssaMetaKeys := by cases f <;> decide

/-- what the SSA writer looks at: of a run its text and `SSAEffect`; of a line its voice and runs; of a
    cue its instants, style reference, six `SSA…` attributes and lines; of a style its identifier and the
    23 `SSA…` attributes; of the metadata `Comments`, `Title` and the `SSA…` keys; nothing of the regions -/
def eraseRun (li : LItem) : LItem := { text := li.text, attrs := keepAttrs ["SSAEffect"] li.attrs }
def eraseLine (l : Line) : Line := { voice := l.voice, items := l.items.map eraseRun }
def eraseItem (it : CItem) : CItem :=
  { startAt := it.startAt, endAt := it.endAt, style := it.style, attrs := keepAttrs ssaCueKeys it.attrs,
    lines := it.lines.map eraseLine }
def eraseDef (d : Def) : Def := { id := d.id, attrs := keepAttrs ssaStyleKeys d.attrs }
def eraseSSA (s : Subs) : Subs :=
  { items := s.items.map eraseItem, styles := s.styles.map eraseDef, metadata := keepAttrs ssaMetaKeys s.metadata }

theorem foldl_voice_erase (ls : List Line) (n : Str) :
    (ls.map eraseLine).foldl (fun (n : Str) l => if l.voice.isEmpty then n else l.voice) n
      = ls.foldl (fun (n : Str) l => if l.voice.isEmpty then n else l.voice) n := by
  induction ls generalizing n with
  | nil => rfl
  | cons l rest ih => simp only [map_cons, foldl_cons, eraseLine, ih]

theorem eventOfItem_erase (it : CItem) : eventOfItem (eraseItem it) = eventOfItem it := by
  have k : ∀ key, key ∈ ssaCueKeys → SSA.kvGet (keepAttrs ssaCueKeys it.attrs) key = SSA.kvGet it.attrs key :=
    fun key hk => kvGet_keep' ssaCueKeys it.attrs key hk
  have htext : (it.lines.map eraseLine).map (fun l => (l.items.map fun li => (SSA.kvGet li.attrs "SSAEffect").getD [] ++ li.text).flatten)
      = it.lines.map (fun l => (l.items.map fun li => (SSA.kvGet li.attrs "SSAEffect").getD [] ++ li.text).flatten) := by
    rw [map_map]
    apply map_congr_left
    intro l _
    simp only [Function.comp_apply, eraseLine, map_map]
    congr 1
    apply map_congr_left
    intro li _
    simp only [Function.comp_apply, eraseRun, kvGet_keep' ["SSAEffect"] li.attrs "SSAEffect" (by decide)]
  unfold eventOfItem
  simp only [eraseItem, k "SSAEffect" (by decide), k "SSALayer" (by decide), k "SSAMarginLeft" (by decide),
    k "SSAMarginRight" (by decide), k "SSAMarginVertical" (by decide), k "SSAMarked" (by decide), foldl_voice_erase, htext]

theorem styleOfDef_erase (d : Def) : styleOfDef (eraseDef d) = styleOfDef d := by
  unfold styleOfDef eraseDef
  simp only [kvGet_keep' ssaStyleKeys d.attrs _ (fld_key_mem _)]

theorem infoOfMeta_erase (m : Attrs) : infoOfMeta (keepAttrs ssaMetaKeys m) = infoOfMeta m := by
  unfold infoOfMeta
  simp only [kvGet_keep' ssaMetaKeys m _ (si_key_mem _), kvGet_keep' ssaMetaKeys m "Comments" (by decide)]

theorem writerStyles_erase (s : Subs) : writerStyles (eraseSSA s) = writerStyles s := by
  unfold writerStyles eraseSSA
  simp only
  rw [← map_mergeSort (r := fun a b : Def => !strLt b.id a.id) (f := eraseDef) (fun a _ b _ => rfl), map_map]
  apply map_congr_left
  intro d _
  exact styleOfDef_erase d

theorem isV4plus_erase (s : Subs) : isV4plus (eraseSSA s) = isV4plus s := by
  unfold isV4plus eraseSSA
  simp only [kvGet_keep' ssaMetaKeys s.metadata "SSAScriptType" (by decide)]

/-- **The SSA writer ignores foreign attributes.** erasing everything but what is listed at `eraseRun` …
    `eraseSSA` does not change what `WriteToSSA` answers (text, refusal or "outside the model") -/
theorem ssa_write_erase (s : Subs) : SSA.write (eraseSSA s) = SSA.write s := by
  rw [write_eq, write_eq, writerStyles_erase, isV4plus_erase]
  have h1 : (eraseSSA s).items.isEmpty = s.items.isEmpty := by simp [eraseSSA]
  have h2 : (eraseSSA s).items.any (fun it => it.startAt < 0 || it.endAt < 0) = s.items.any (fun it => it.startAt < 0 || it.endAt < 0) := by
    simp only [eraseSSA, any_map]
    rfl
  have h3 : (eraseSSA s).items.map (fun it => (eventOfItem it).row (isV4plus s)) = s.items.map (fun it => (eventOfItem it).row (isV4plus s)) := by
    simp only [eraseSSA, map_map]
    apply map_congr_left
    intro it _
    simp only [Function.comp_apply, eventOfItem_erase]
  have h4 : infoOfMeta (eraseSSA s).metadata = infoOfMeta s.metadata := infoOfMeta_erase s.metadata
  rw [h1, h2, h3, h4]

/-- the view does not see the erased attributes either -/
theorem view_eraseSSA (s : Subs) : Spec.Conv.viewOf (eraseSSA s) = Spec.Conv.viewOf s := by
  simp only [Spec.Conv.viewOf, eraseSSA, map_map]
  apply map_congr_left
  intro it _
  simp only [Function.comp_apply, eraseItem, map_map]
  have e : ((fun (l : Line) => Spec.Conv.squash (l.items.map (·.text)).flatten) ∘ eraseLine)
      = fun (l : Line) => Spec.Conv.squash (l.items.map (·.text)).flatten := by
    funext l
    simp only [Function.comp_apply, eraseLine, map_map]
    rfl
  rw [e]

end Conv2Erase
end Astisub
