import Astisub.Lemmas.VTT3Defs
import Astisub.Lemmas.VTTDoc

/-!
# Lemmas/VTT3WTextA — the independent decoder `Spec.VTT.textLine`, forward, piece by piece

The decoder on the pieces the writer emits: a character, an escaped character, a tag `<body>`;
`tagStep` on an opening tag, a closing tag, the voice tag, an inline timestamp.
-/

namespace Astisub
namespace VTT3W
open Go Spec.VTT List
open VTTRead (textLine_nil textLine_char textLine_amp textLine_lt tagStep headOf annOf)
open SRT (escapeHTML)

/-! ### string literals -/

theorem litAmp : "amp;".toList = ['a', 'm', 'p', ';'] := by decide
theorem litLt : "lt;".toList = ['l', 't', ';'] := by decide
theorem litNbsp : "nbsp;".toList = ['n', 'b', 's', 'p', ';'] := by decide
theorem litGt : "gt;".toList = ['g', 't', ';'] := by decide
theorem litLrm : "lrm;".toList = ['l', 'r', 'm', ';'] := by decide
theorem litRlm : "rlm;".toList = ['r', 'l', 'm', ';'] := by decide
theorem litAmp5 : "&amp;".toList = ['&', 'a', 'm', 'p', ';'] := by decide
theorem litLt4 : "&lt;".toList = ['&', 'l', 't', ';'] := by decide
theorem litNbsp6 : "&nbsp;".toList = ['&', 'n', 'b', 's', 'p', ';'] := by decide
theorem litV : "v".toList = ['v'] := by decide
theorem litVsp : "<v ".toList = ['<', 'v', ' '] := by decide
theorem litClose : "</".toList = ['<', '/'] := by decide

/-! ### the decoder's flush keeps what matters -/

/-- no zero timestamp pending, none in the runs -/
structure Inv (st : TextSt) : Prop where
  pend : st.pending ≠ some 0
  runs : ∀ r ∈ st.runs, r.ts ≠ some 0

theorem flushText_eq (st : TextSt) : Spec.VTT.flushText st =
    if st.acc.isEmpty then st else
    if trimSpace st.acc.reverse = [] then
      (if st.pending.isSome then { st with acc := [] }
       else { st with acc := [], runs := st.runs ++ [{ text := st.acc.reverse, tags := st.stack, ts := none }] })
    else { st with acc := [], pending := none,
                   runs := st.runs ++ [{ text := st.acc.reverse, tags := st.stack, ts := st.pending }] } := rfl

/-- the flush keeps the stack, the voice and the invariant -/
theorem flushText_keeps (st : TextSt) (h : Inv st) :
    (Spec.VTT.flushText st).stack = st.stack ∧ (Spec.VTT.flushText st).voice = st.voice ∧
      Inv (Spec.VTT.flushText st) := by
  rw [flushText_eq]
  by_cases h1 : st.acc.isEmpty = true
  · rw [if_pos h1]; exact ⟨rfl, rfl, h⟩
  · rw [if_neg h1]
    by_cases h2 : trimSpace st.acc.reverse = []
    · rw [if_pos h2]
      by_cases h3 : st.pending.isSome = true
      · rw [if_pos h3]; exact ⟨rfl, rfl, h.pend, h.runs⟩
      · rw [if_neg h3]
        refine ⟨rfl, rfl, h.pend, ?_⟩
        intro r hr
        rcases mem_append.mp hr with hr | hr
        · exact h.runs r hr
        · simp at hr; subst hr; simp
    · rw [if_neg h2]
      refine ⟨rfl, rfl, by simp, ?_⟩
      intro r hr
      rcases mem_append.mp hr with hr | hr
      · exact h.runs r hr
      · simp at hr; subst hr; exact h.pend

theorem flushText_empty (st : TextSt) (h : st.acc = []) : Spec.VTT.flushText st = st := by
  rw [flushText_eq, h]; rfl

theorem inv_acc (st : TextSt) (a : Str) (h : Inv st) : Inv { st with acc := a } := ⟨h.pend, h.runs⟩

/-! ### one character, one escaped character -/

theorem hasPrefix_self (p s : Str) : hasPrefix p (p ++ s) = true := by
  simp [hasPrefix, VTT.dropPrefix?_append]

/-- the decoder over one escaped character: one unit of fuel, the character joins the text -/
theorem textLine_esc1 (f : Nat) (c : Char) (rest : Str) (st : TextSt) :
    textLine (f + 1) (C01.esc1 c ++ rest) st = textLine f rest { st with acc := c :: st.acc } := by
  unfold C01.esc1
  by_cases h1 : c = '&'
  · subst h1
    rw [if_pos rfl, litAmp5]
    simp only [cons_append, nil_append]
    rw [textLine_amp, litAmp]
    have hp : hasPrefix ['a', 'm', 'p', ';'] ('a' :: 'm' :: 'p' :: ';' :: rest) = true :=
      hasPrefix_self ['a', 'm', 'p', ';'] rest
    rw [if_pos hp]
    rfl
  · rw [if_neg h1]
    by_cases h2 : c = '<'
    · subst h2
      rw [if_pos rfl, litLt4]
      simp only [cons_append, nil_append]
      rw [textLine_amp, litAmp, litLt]
      have hp1 : hasPrefix ['a', 'm', 'p', ';'] ('l' :: 't' :: ';' :: rest) = false :=
        VTT.hasPrefix_ne _ _ (by decide)
      have hp2 : hasPrefix ['l', 't', ';'] ('l' :: 't' :: ';' :: rest) = true :=
        hasPrefix_self ['l', 't', ';'] rest
      rw [if_neg (by rw [hp1]; decide), if_pos hp2]
      rfl
    · rw [if_neg h2]
      by_cases h3 : c = C01.nbsp
      · subst h3
        rw [if_pos rfl, litNbsp6]
        simp only [cons_append, nil_append]
        rw [textLine_amp, litAmp, litLt, litNbsp]
        have hp1 : hasPrefix ['a', 'm', 'p', ';'] ('n' :: 'b' :: 's' :: 'p' :: ';' :: rest) = false :=
          VTT.hasPrefix_ne _ _ (by decide)
        have hp2 : hasPrefix ['l', 't', ';'] ('n' :: 'b' :: 's' :: 'p' :: ';' :: rest) = false :=
          VTT.hasPrefix_ne _ _ (by decide)
        have hp3 : hasPrefix ['n', 'b', 's', 'p', ';'] ('n' :: 'b' :: 's' :: 'p' :: ';' :: rest) = true :=
          hasPrefix_self ['n', 'b', 's', 'p', ';'] rest
        rw [if_neg (by rw [hp1]; decide), if_neg (by rw [hp2]; decide), if_pos hp3]
        rfl
      · rw [if_neg h3]
        simp only [cons_append, nil_append]
        exact textLine_char f c rest st h2 h1

/-! ### a tag -/

theorem takeWhile_body (body after : Str) (hb : ∀ c ∈ body, c ≠ '>') :
    (body ++ '>' :: after).takeWhile (· != '>') = body := by
  rw [VTT.takeWhile_app_all body _ (by intro c hc; simpa using hb c hc)]
  simp

/-- the decoder at `<body>`: flush, then the tag step -/
theorem textLine_tag (f : Nat) (body after : Str) (st : TextSt)
    (hb : ∀ c ∈ body, c ≠ '>' ∧ c ≠ '<' ∧ c ≠ '&') :
    textLine (f + 1) ('<' :: (body ++ '>' :: after)) st =
      match tagStep body (flushText st) with
      | some st3 => textLine f after st3
      | none => none := by
  rw [textLine_lt, takeWhile_body body after (fun c hc => (hb c hc).1)]
  have hd : (body ++ '>' :: after).drop body.length = '>' :: after := by simp
  rw [hd]
  have hany : (body.any fun c => decide (c = '<') || decide (c = '&')) = false := by
    rw [any_eq_false]
    intro c hc
    simp [(hb c hc).2.1, (hb c hc).2.2]
  simp only [hany, Bool.false_eq_true, if_false]
  cases tagStep body (Spec.VTT.flushText st) <;> rfl

/-! ### the tag step, forward -/

theorem tagStep_push (c : Char) (tl : Str) (st : TextSt) (name : Str) (classes : List Str)
    (hc : c ≠ '/') (hd : isDigit c = false) (ha : isAlpha c = true) (hs : (c :: tl).contains '/' = false)
    (hsp : splitC '.' (headOf (c :: tl)) = name :: classes) (hcl : classes.any (·.isEmpty) = false)
    (hv : name ≠ "v".toList) :
    tagStep (c :: tl) st =
      some { st with stack := st.stack ++ [{ name := name, classes := classes, annotation := annOf (c :: tl) }] } := by
  rw [tagStep]
  · unfold headOf at hsp
    simp only [hd, ha, hs, hsp, hcl, hv, Bool.false_eq_true, if_false, if_true, annOf, headOf]
  · intro h; exact hc h

theorem tagStep_voice (c : Char) (tl : Str) (st : TextSt) (classes : List Str)
    (hc : c ≠ '/') (hd : isDigit c = false) (ha : isAlpha c = true) (hs : (c :: tl).contains '/' = false)
    (hsp : splitC '.' (headOf (c :: tl)) = "v".toList :: classes) (hcl : classes.any (·.isEmpty) = false)
    (hvo : st.voice = none) (hann : annOf (c :: tl) ≠ []) :
    tagStep (c :: tl) st = some { st with voice := some (annOf (c :: tl)) } := by
  rw [tagStep]
  · unfold headOf at hsp
    unfold annOf headOf at hann
    simp only [hd, ha, hs, hsp, hcl, hvo, hann, Bool.false_eq_true, if_false, if_true, annOf, headOf,
      Option.isSome_none, Bool.or_self, decide_false]
  · intro h; exact hc h

theorem tagStep_pop (name : Str) (st : TextSt) (g : GTag) (hv : name ≠ "v".toList)
    (hl : st.stack.getLast? = some g) (hn : g.name = name) :
    tagStep ('/' :: name) st = some { st with stack := st.stack.dropLast } := by
  simp only [tagStep, hv, if_false, hl, hn, if_true]

theorem tagStep_ts (c : Char) (tl : Str) (st : TextSt) (n : Nat) (hd : isDigit c = true)
    (hts : inlineTs (c :: tl) = some n) :
    tagStep (c :: tl) st = some { st with pending := some n } := by
  have hc : c ≠ '/' := by intro e; subst e; revert hd; decide
  rw [tagStep]
  · simp only [hd, hts, if_true]
  · intro h; exact hc h

/-! ### the characters of a written tag -/

/-- the decoder's tag for a tag of the library -/
def gOf (t : VTT.Tag) : GTag := { name := t.name, classes := t.classes, annotation := t.annotation }

/-- a character that may stand inside `<…>` for the decoder -/
def TagSafe (c : Char) : Prop := c ≠ '<' ∧ c ≠ '>' ∧ c ≠ '&' ∧ c ≠ '/'

theorem markup_safe {c : Char} (h : VTT.markup c = false) : TagSafe c ∧ c ≠ '=' := by
  simp [VTT.markup] at h
  exact ⟨⟨h.1.1.1.1, h.1.1.1.2, h.1.1.2, h.1.2⟩, h.2⟩

theorem alnum_safe {c : Char} (h : Char.isAlphanum c = true) : TagSafe c ∧ c ≠ '.' ∧ isBlank c = false := by
  refine ⟨⟨?_, ?_, ?_, ?_⟩, ?_, ?_⟩
  · intro e; subst e; revert h; decide
  · intro e; subst e; revert h; decide
  · intro e; subst e; revert h; decide
  · intro e; subst e; revert h; decide
  · intro e; subst e; revert h; decide
  · cases hb : isBlank c with
    | false => rfl
    | true =>
      simp [isBlank] at hb
      rcases hb with e | e <;> (subst e; revert h; decide)

theorem classChar_safe {c : Char} (h : VTT.classChar c = true) : TagSafe c ∧ c ≠ '.' ∧ isBlank c = false := by
  simp only [VTT.classChar, Bool.not_eq_true', Bool.or_eq_false_iff] at h
  obtain ⟨⟨h1, h2⟩, h3⟩ := h
  refine ⟨(markup_safe h1).1, by simpa using h2, ?_⟩
  cases hb : isBlank c with
  | false => rfl
  | true =>
    simp [isBlank] at hb
    rcases hb with e | e <;> (subst e; revert h3; decide)

theorem clsPart_chars {cs : List Str} (h : ∀ c ∈ cs, c ≠ [] ∧ ∀ x ∈ c, VTT.classChar x = true) :
    ∀ x ∈ VTT.clsPart cs, TagSafe x ∧ isBlank x = false := by
  intro x hx
  unfold VTT.clsPart at hx
  split at hx
  · simp at hx
  · rcases mem_cons.mp hx with e | hx
    · subst e; exact ⟨⟨by decide, by decide, by decide, by decide⟩, by decide⟩
    · rcases VTT.join_mem cs x hx with e | ⟨c, hc, hxc⟩
      · subst e; exact ⟨⟨by decide, by decide, by decide, by decide⟩, by decide⟩
      · have := classChar_safe ((h c hc).2 x hxc)
        exact ⟨this.1, this.2.2⟩

theorem annPart_chars {a : Str} (h : VTT.annOk a = true) : ∀ x ∈ VTT.annPart a, TagSafe x := by
  intro x hx
  unfold VTT.annPart at hx
  split at hx
  · simp at hx
  · rcases mem_cons.mp hx with e | hx
    · subst e; exact ⟨by decide, by decide, by decide, by decide⟩
    · exact (markup_safe ((VTT.annOk_facts h).2 x hx)).1

theorem isLetter_alpha {c : Char} (h : isLetter c = true) : isAlpha c = true ∧ isDigit c = false ∧ c ≠ '/' := by
  refine ⟨?_, ?_, ?_⟩
  · simpa [isLetter, isAlpha] using h
  · cases hd : isDigit c with
    | false => rfl
    | true =>
      have := VTTRead.isDigit_range hd
      simp [isLetter] at h
      have h1 : ∀ a b : Char, a ≤ b → a.toNat ≤ b.toNat := fun a b hab => hab
      rcases h with h | h
      · have := h1 _ _ h.1; simp at this; omega
      · have := h1 _ _ h.1; simp at this; omega
  · intro e; subst e; revert h; decide

/-- the body of a written opening tag -/
def startBody (t : VTT.Tag) : Str := t.name ++ VTT.clsPart t.classes ++ VTT.annPart t.annotation

theorem startTag_body (t : VTT.Tag) (h : t.name ≠ []) : VTT.Tag.startTag t = '<' :: (startBody t ++ ['>']) :=
  VTT.startTag_eq t h

theorem startBody_chars (t : VTT.Tag) (w : VTT.WF t) : ∀ c ∈ startBody t, TagSafe c := by
  intro c hc
  unfold startBody at hc
  rcases mem_append.mp hc with hc | hc
  · rcases mem_append.mp hc with hc | hc
    · exact (alnum_safe (w.alnum c hc)).1
    · exact (clsPart_chars w.cls c hc).1
  · exact annPart_chars w.ann c hc

theorem headOf_startBody (t : VTT.Tag) (w : VTT.WF t) : headOf (startBody t) = t.name ++ VTT.clsPart t.classes := by
  unfold headOf startBody
  rw [VTT.takeWhile_app_all]
  · have : (VTT.annPart t.annotation).takeWhile (fun ch => !isBlank ch) = [] := by
      unfold VTT.annPart
      split
      · rfl
      · rfl
    rw [this, append_nil]
  · intro c hc
    rcases mem_append.mp hc with hc | hc
    · simp [(alnum_safe (w.alnum c hc)).2.2]
    · simp [(clsPart_chars w.cls c hc).2]

theorem annOf_startBody (t : VTT.Tag) (w : VTT.WF t) : annOf (startBody t) = t.annotation := by
  unfold annOf
  rw [headOf_startBody t w]
  unfold startBody
  rw [VTT.drop_len_app]
  unfold VTT.annPart
  split
  · rename_i h; rw [h]; rfl
  · have : ' ' :: t.annotation = [' '] ++ t.annotation := rfl
    rw [this, VTTRead.trimSpace_ws_app [' '] _ (by intro d hd; simp at hd; subst hd; decide)]
    exact (VTT.annOk_facts w.ann).1

theorem split_head (t : VTT.Tag) (w : VTT.WF t) :
    splitC '.' (t.name ++ VTT.clsPart t.classes) = t.name :: t.classes := by
  have hn : '.' ∉ t.name := fun hm => (alnum_safe (w.alnum _ hm)).2.1 rfl
  unfold VTT.clsPart
  cases hcs : t.classes with
  | nil => simpa using splitC_not_mem hn
  | cons a rest =>
    have hdot : ∀ c ∈ a :: rest, '.' ∉ c := by
      intro c hc hm
      rw [← hcs] at hc
      exact (classChar_safe ((w.cls c hc).2 _ hm)).2.1 rfl
    simp only [isEmpty_cons, Bool.false_eq_true, if_false]
    rw [splitC_append _ hn, VTT.splitC_join (a :: rest) (by simp) hdot]

theorem classes_nonempty (t : VTT.Tag) (w : VTT.WF t) : t.classes.any (·.isEmpty) = false := by
  rw [any_eq_false]
  intro c hc
  have := (w.cls c hc).1
  cases c with
  | nil => exact absurd rfl this
  | cons => simp

/-- the decoder at the body of a written opening tag: push that tag -/
theorem tagStep_startBody (t : VTT.Tag) (h : t.wf = true) (st : TextSt) :
    tagStep (startBody t) st = some { st with stack := st.stack ++ [gOf t] } := by
  have w := VTT.wf_facts h
  obtain ⟨x, xs, e, hx⟩ := w.head
  have hb : startBody t = x :: (xs ++ VTT.clsPart t.classes ++ VTT.annPart t.annotation) := by
    simp [startBody, e]
  have hl := isLetter_alpha hx
  have hsl : (startBody t).contains '/' = false := by
    cases hc : (startBody t).contains '/' with
    | false => rfl
    | true =>
      have hm : '/' ∈ startBody t := by simpa using hc
      exact absurd rfl (startBody_chars t w _ hm).2.2.2
  have h1 := headOf_startBody t w
  have h2 := annOf_startBody t w
  rw [hb] at hsl h1 h2 ⊢
  rw [tagStep_push x _ st t.name t.classes hl.2.2 hl.2.1 hl.1 hsl (by rw [h1]; exact split_head t w)
    (classes_nonempty t w) (by rw [litV]; exact w.name_v), h2]
  rfl

end VTT3W
end Astisub
