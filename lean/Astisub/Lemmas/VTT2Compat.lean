import Astisub.Lemmas.VTT2Final
import Astisub.Props.C02doc

/-!
# Lemmas/VTT2Compat — the general round trip specialised: the statement `C02doc` left open
(cue lists with comments, no regions / STYLE block / timestamp map)
-/

namespace Astisub
namespace VTT
open Go List

theorem commentOk_first {c : Str} (h : C02doc.commentOk c = true) : firstCommentOk c = true := by
  simp only [C02doc.commentOk, Bool.and_eq_true] at h
  obtain ⟨⟨⟨⟨⟨⟨⟨⟨h1, h2⟩, h3⟩, _⟩, _⟩, _⟩, _⟩, _⟩, _⟩ := h
  simp only [firstCommentOk, noBreakB, Bool.and_eq_true]
  exact ⟨⟨h1, h2⟩, h3⟩

theorem commentOk_cont {c : Str} (h : C02doc.commentOk c = true) : contCommentOk c = true := by
  have hf := commentOk_first h
  simp only [C02doc.commentOk, Bool.and_eq_true] at h
  obtain ⟨⟨⟨⟨⟨⟨⟨⟨_, _⟩, _⟩, h4⟩, h5⟩, h6⟩, _⟩, _⟩, _⟩ := h
  simp only [contCommentOk, Bool.and_eq_true]
  exact ⟨⟨⟨hf, h4⟩, h5⟩, h6⟩

theorem commentsOk_of_all {cs : List Str} (h : cs.all C02doc.commentOk = true) : commentsOk cs = true := by
  cases cs with
  | nil => rfl
  | cons c cs =>
    simp only [all_cons, Bool.and_eq_true, all_eq_true] at h
    simp only [commentsOk, Bool.and_eq_true, all_eq_true]
    exact ⟨commentOk_first h.1, fun x hx => commentOk_cont (h.2 x hx)⟩

theorem cueOk2_of_cueOk {s : Subs} {it : CItem} (h : cueOk s { it with comments := [] } = true)
    (hc : it.comments.all C02doc.commentOk = true) : cueOk2 s it = true ∧ it.region = none := by
  simp only [cueOk, Bool.and_eq_true, beq_iff_eq] at h
  obtain ⟨⟨⟨⟨⟨⟨⟨⟨⟨⟨⟨_, hr⟩, hs0⟩, hs1⟩, he0⟩, he1⟩, hal⟩, hln⟩, hpo⟩, hsz⟩, hve⟩, hlines⟩ := h
  have hr' : it.region = none := hr
  refine ⟨?_, hr'⟩
  simp only [cueOk2, Bool.and_eq_true]
  refine ⟨⟨⟨⟨⟨⟨⟨⟨⟨⟨⟨commentsOk_of_all hc, ?_⟩, hs0⟩, hs1⟩, he0⟩, he1⟩, hal⟩, hln⟩, hpo⟩, hsz⟩, hve⟩, hlines⟩
  rw [hr']; rfl

/-- the statement `C02doc.write_read_comments_Statement` holds -/
theorem write_read_comments_proof : C02doc.write_read_comments_Statement := by
  intro s hne hok hlen hreg hsty hmeta
  have hcues : ∀ it ∈ s.items, cueOk2 s it = true ∧ it.region = none :=
    fun it hit => cueOk2_of_cueOk (hok it hit).1 (hok it hit).2
  have hdoc : DocOk s = true := by
    simp only [DocOk, Bool.and_eq_true, Bool.not_eq_true', all_eq_true, decide_eq_true_eq]
    refine ⟨⟨⟨⟨⟨⟨⟨?_, fun it hit => (hcues it hit).1⟩, hlen⟩, ?_⟩, ?_⟩, ?_⟩, ?_⟩, ?_⟩
    · cases h : s.items with
      | nil => exact absurd h hne
      | cons a b => rfl
    · rw [hreg]; intro d hd; cases hd
    · rw [hreg]; exact nodup_nil
    · rw [hsty]; intro l hl; cases hl
    · simp [styleEndOk, hsty]
    · simp [tsmapOk, hmeta]
  obtain ⟨doc, hw, hcr, hrd⟩ := read_write2 s hdoc
  refine ⟨doc, hw, hcr, ?_⟩
  rw [hrd]
  congr 1
  have h1 : readRegions s = [] := by simp [readRegions, hreg, sortDefs_nil]
  have h2 : tsmapVal s = none := by simp [tsmapVal, hmeta]
  have h3 : (s.items.zipIdx.map fun x => readCue2 s x.2 x.1)
      = s.items.zipIdx.map fun x => { readCue s x.2 x.1 with comments := x.1.comments } := by
    apply map_congr_left
    intro x hx
    have hmem : x.1 ∈ s.items := by
      have := (mem_zipIdx hx)
      simp at this
      rw [this.2]; exact getElem_mem _
    have hr := (hcues x.1 hmem).2
    simp [readCue2, readCue, hr]
  simp only [wanted2, h1, h2, h3, hsty, readSubs]
  rfl

end VTT
end Astisub
