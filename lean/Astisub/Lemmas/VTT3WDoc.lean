import Astisub.Lemmas.VTT3WDocFold

/-!
# Lemmas/VTT3WDoc — the independent decoder accepts every written `DocOk` document (document part)

* `decode_docLines2`: under `DocOk s` and the extra proviso `docW2 s`, and given that the decoder accepts the
  text lines of every cue, `Spec.VTT.decode` accepts the written document, and the lines of its cues are the
  decoder's lines of the cues of `s`, in order.
* `inClass_docLines2`: under the same provisos the written document lies in the class `InClassWith ok`, given
  that every written text line satisfies `ok` — **and** (`metaTextW2 ok s`) that `ok` holds for the lines
  which `blockOKWith` takes for "cue text" in the `STYLE` block and in the region block
  (`cueTextOf` = everything after the second line of a block whose first line has no `-->`):
  the statement without this hypothesis is false (`inClass_needs_metaText`).
* witnesses: each conjunct of `docW2` is needed (`w2_*`).
-/

namespace Astisub
namespace VTT3W
open Go Spec.VTT VTTRead

/-! ### the block list of the written document -/

theorem hdr_facts (s : Subs) (hF : VTT.DocFacts s) (hW : W2Facts s) :
    ∀ l ∈ VTT.tsmapLines s, metaLine l = true ∧ trimSpace l = l := by
  rcases tsmapLines_cases s hF.ts hW.ts with h | ⟨lv, m, n, h0, h1, _, _, hm, h⟩
  · rw [h]; intro l hl; cases hl
  · rw [h]
    intro l hl
    simp only [List.mem_singleton] at hl
    subst hl
    exact metaLine_tsLine _ m (VTT.format_facts lv h0 h1).1 hm

/-- the decoder's blocks of the written document: the timestamp map line, the `STYLE` block, the region
    block, and for every cue its comment block and its cue block -/
theorem docBlocks_docLines2 (s : Subs) (hok : VTT.DocOk s = true) (hx : docW2 s = true) :
    docBlocks (VTT.unlines (VTT.docLines2 s)) = some (hdrBlocks s ++ restBlocks s) := by
  have hF := VTT.docOk_facts hok
  have hW := docW2_facts hx
  have hnb := VTT.noBreak_docLines2 s hok
  have hsh := restBlocks_shape s hok
  have hh := hdr_facts s hF hW
  rw [docLines2_seg] at hnb ⊢
  exact docBlocks_written (VTT.tsmapLines s) (restBlocks s) (restBlocks_ne s hF.ne)
    (fun l hl => (hh l hl).1) (fun l hl => (hh l hl).2) (fun b hb => (hsh b hb).1) (fun b hb => (hsh b hb).2) hnb

/-! ### the decoder accepts the written document -/

/-- **Decoder, document part.**  The decoder accepts the written document, given that it accepts the text
    lines of every cue; the lines of the decoded cues are the decoder's lines of the cues of `s`. -/
theorem decode_docLines2 (s : Subs) (hok : VTT.DocOk s = true) (hx : docW2 s = true)
    (ht : ∀ it ∈ s.items, (Spec.VTT.cueText (it.lines.map VTT.lineBody) []).isSome = true) :
    ∃ g, Spec.VTT.decode (VTT.unlines (VTT.docLines2 s)) = some g ∧ g.cues.map (·.lines) = s.items.map glOf := by
  obtain ⟨ds', hfold, hcues⟩ := fold_doc s hok hx ht
  refine ⟨docOf ds', ?_, hcues⟩
  rw [decode_eq, docBlocks_docLines2 s hok hx]
  simp only [hfold, Option.map_some]

/-! ### the written document lies in the class -/

/-- what `blockOKWith ok` asks of the `STYLE` block and of the region block beyond `regionOK`: `ok` of the
    lines it takes for cue text (the CSS lines after the first; the region lines after the second, or after
    the first when the first contains `-->`) -/
def metaTextW2 (ok : Str → Bool) (s : Subs) : Bool :=
  (cueTextOf ("STYLE".toList :: VTT.styleLines s)).all ok && (cueTextOf (regionLines s)).all ok

theorem cueTextOf_cons (a : Str) (rest : List Str) :
    cueTextOf (a :: rest) = if contains Spec.VTT.arrow a = true then rest else rest.drop 1 := by
  cases rest with
  | nil => unfold cueTextOf; simp
  | cons b r => rfl

theorem regionOK_of_not_region {l : Str} (h : hasPrefix "Region: ".toList l = false) : regionOK l = true := by
  have hd : dropPrefix? "Region: ".toList l = none := by
    unfold hasPrefix at h
    cases hd : dropPrefix? "Region: ".toList l with
    | none => rfl
    | some r => rw [hd] at h; cases h
  unfold regionOK
  rw [regionLine_eq, hd]

theorem blockOKWith_plain (ok : Str → Bool) (first : Str) (rest : List Str) (hn : noteLine first = none)
    (h1 : ∀ l ∈ first :: rest, regionOK l = true) (h2 : ∀ l ∈ cueTextOf (first :: rest), ok l = true) :
    blockOKWith ok (first :: rest) = true := by
  unfold blockOKWith
  simp only [hn, Option.isSome_none, Bool.false_eq_true, if_false, Bool.and_eq_true]
  exact ⟨List.all_eq_true.mpr h1, List.all_eq_true.mpr h2⟩

theorem region_of_digit (c : Char) (tl : Str) (hc : isDig c = true) : hasPrefix "Region: ".toList (c :: tl) = false :=
  (VTT.digit_line_tests c tl hc).2.2.1

theorem not_region_cueTiming (s : Subs) (it : CItem) (hok : VTT.cueOk2 s it = true) :
    hasPrefix "Region: ".toList (VTT.cueTiming s it) = false := by
  simp only [VTT.cueOk2, Bool.and_eq_true, decide_eq_true_eq] at hok
  obtain ⟨⟨⟨⟨⟨⟨⟨⟨⟨⟨⟨_, _⟩, hs0⟩, hs1⟩, _⟩, _⟩, _⟩, _⟩, _⟩, _⟩, _⟩, _⟩ := hok
  obtain ⟨k, r, hk, hfmt⟩ := VTT.format_head it.startAt hs0 hs1
  unfold VTT.cueTiming
  rw [VTT.timingLine_eq, hfmt]
  exact region_of_digit _ _ (VTT.isDig_digitChar hk)

theorem blockOK_cueCore (ok : Str → Bool) (s : Subs) (k : Nat) (it : CItem) (hok : VTT.cueOk2 s it = true)
    (hw : cueW2 it = true) (hl : ∀ l ∈ it.lines, ok (VTT.lineBody l) = true) :
    blockOKWith ok (VTT.cueCore s k it) = true := by
  simp only [cueW2, Bool.and_eq_true, List.all_eq_true] at hw
  have hnum : hasPrefix "Region: ".toList (itoaNat (k + 1)) = false := by
    have := metaT_itoaNat (k + 1)
    unfold metaT at this
    exact (Bool.or_eq_false_iff.mp this).1
  show blockOKWith ok (itoaNat (k + 1) :: (VTT.cueTiming s it :: it.lines.map VTT.lineBody)) = true
  apply blockOKWith_plain ok _ _ (noteLine_itoaNat (k + 1))
  · intro l hl'
    rcases List.mem_cons.mp hl' with rfl | hl'
    · exact regionOK_of_not_region hnum
    · rcases List.mem_cons.mp hl' with rfl | hl'
      · exact regionOK_of_not_region (not_region_cueTiming s it hok)
      · obtain ⟨x, hx, rfl⟩ := List.mem_map.mp hl'
        exact hw.2 x hx
  · intro l hl'
    rw [cueTextOf_cons, no_arrow_itoaNat] at hl'
    simp only [Bool.false_eq_true, if_false, List.drop_succ_cons, List.drop_zero] at hl'
    obtain ⟨x, hx, rfl⟩ := List.mem_map.mp hl'
    exact hl x hx

theorem blockOK_noteBlock (ok : Str → Bool) (cs : List Str) (hok : VTT.commentsOk cs = true) (hx : commentsW2 cs = true) :
    ∀ b ∈ noteBlock cs, blockOKWith ok b = true := by
  cases cs with
  | nil => intro b hb; cases hb
  | cons c cs =>
    intro b hb
    simp only [noteBlock, List.mem_singleton] at hb
    subst hb
    have hct := (firstComment_spec (by
      simp only [VTT.commentsOk, Bool.and_eq_true] at hok; exact hok.1)).2
    unfold blockOKWith
    simp only [noteLine_first c hct, Option.isSome_some, if_true]
    exact List.all_eq_true.mpr (noteOK_comment c cs hok hx)

theorem blockOK_cueBlocks (ok : Str → Bool) (s : Subs) (items : List CItem)
    (hok : ∀ it ∈ items, VTT.cueOk2 s it = true) (hw : ∀ it ∈ items, cueW2 it = true)
    (hl : ∀ it ∈ items, ∀ l ∈ it.lines, ok (VTT.lineBody l) = true) :
    ∀ k, ∀ b ∈ cueBlocks s k items, blockOKWith ok b = true := by
  induction items with
  | nil => intro k b hb; cases hb
  | cons it rest ih =>
    intro k b hb
    have hit := hok it (by simp)
    have hwit := hw it (by simp)
    rw [cueBlocks] at hb
    rcases List.mem_append.mp hb with hb | hb
    · rcases List.mem_append.mp hb with hb | hb
      · have hc : commentsW2 it.comments = true := by
          simp only [cueW2, Bool.and_eq_true] at hwit; exact hwit.1
        exact blockOK_noteBlock ok _ (comments_of_cueOk2 hit) hc b hb
      · simp only [List.mem_singleton] at hb
        subst hb
        exact blockOK_cueCore ok s k it hit hwit (hl it (by simp))
    · exact ih (fun x hx => hok x (by simp [hx])) (fun x hx => hw x (by simp [hx]))
        (fun x hx => hl x (by simp [hx])) (k + 1) b hb

theorem blockOK_hdrBlocks (ok : Str → Bool) (s : Subs) (hF : VTT.DocFacts s) (hW : W2Facts s) :
    ∀ b ∈ hdrBlocks s, blockOKWith ok b = true := by
  unfold hdrBlocks
  rcases tsmapLines_cases s hF.ts hW.ts with h | ⟨lv, m, n, _, _, _, _, _, h⟩
  · rw [h]; intro b hb; cases hb
  · rw [h]
    intro b hb
    simp only [List.isEmpty_cons, Bool.false_eq_true, if_false, List.mem_singleton] at hb
    subst hb
    have hp := hasPrefix_tsLine' (Duration.formatVTT lv) m
    obtain ⟨_, _, t3, _, _⟩ := prefix_tests_X hp
    apply blockOKWith_plain ok _ _ t3
    · intro l hl
      simp only [List.mem_singleton] at hl
      subst hl
      exact regionOK_of_not_region (not_region_tsLine' _ m)
    · intro l hl
      rw [cueTextOf_cons] at hl
      split at hl <;> cases hl

theorem blockOK_styleBlocks (ok : Str → Bool) (s : Subs) (hF : VTT.DocFacts s)
    (hm : ∀ l ∈ cueTextOf ("STYLE".toList :: VTT.styleLines s), ok l = true) :
    ∀ b ∈ styleBlocks s, blockOKWith ok b = true := by
  unfold styleBlocks
  intro b hb
  split at hb
  · cases hb
  · simp only [List.mem_singleton] at hb
    subst hb
    apply blockOKWith_plain ok _ _ noteLine_style _ hm
    intro l hl
    rcases List.mem_cons.mp hl with rfl | hl
    · exact regionOK_of_not_region (by decide)
    · exact regionOK_of_not_region (styleLine_spec (hF.sty l hl)).2.2.2.2.1

theorem blockOK_regionBlocks (ok : Str → Bool) (s : Subs) (hF : VTT.DocFacts s) (hW : W2Facts s)
    (hm : ∀ l ∈ cueTextOf (regionLines s), ok l = true) :
    ∀ b ∈ regionBlocks s, blockOKWith ok b = true := by
  unfold regionBlocks
  intro b hb
  split at hb
  · cases hb
  · simp only [List.mem_singleton] at hb
    subst hb
    have hreg : ∀ l ∈ regionLines s, regionOK l = true := by
      intro l hl
      obtain ⟨d, hd, rfl⟩ := List.mem_map.mp hl
      exact regionOK_written s d (hF.regs d (mem_sortDefs hd)) (hW.regs d (mem_sortDefs hd))
    cases hrl : regionLines s with
    | nil => rfl
    | cons first rest =>
      rw [hrl] at hreg hm
      have hfirst : first ∈ regionLines s := by rw [hrl]; simp
      obtain ⟨d, _, hd⟩ := List.mem_map.mp hfirst
      obtain ⟨_, _, t3, _⟩ := prefix_tests_R (hasPrefix_regionLine' s d)
      rw [hd] at t3
      exact blockOKWith_plain ok first rest t3 hreg hm

/-- **Class, document part.**  The written document lies in the class `InClassWith ok`, given that every
    written text line satisfies `ok` and that `ok` holds for the lines of the `STYLE` block and of the region
    block which `blockOKWith` takes for cue text (`metaTextW2`). -/
theorem inClass_docLines2' (ok : Str → Bool) (s : Subs) (hok : VTT.DocOk s = true) (hx : docW2 s = true)
    (hm : metaTextW2 ok s = true)
    (hl : ∀ it ∈ s.items, ∀ l ∈ it.lines, ok (VTT.lineBody l) = true) :
    VTTRead.InClassWith ok (VTT.unlines (VTT.docLines2 s)) = true := by
  have hF := VTT.docOk_facts hok
  have hW := docW2_facts hx
  simp only [metaTextW2, Bool.and_eq_true, List.all_eq_true] at hm
  unfold InClassWith
  rw [docBlocks_docLines2 s hok hx]
  simp only
  rw [List.all_eq_true]
  intro b hb
  rcases List.mem_append.mp hb with hb | hb
  · exact blockOK_hdrBlocks ok s hF hW b hb
  · unfold restBlocks at hb
    rcases List.mem_append.mp hb with hb | hb
    · rcases List.mem_append.mp hb with hb | hb
      · exact blockOK_styleBlocks ok s hF hm.1 b hb
      · exact blockOK_regionBlocks ok s hF hW hm.2 b hb
    · exact blockOK_cueBlocks ok s s.items hF.cues hW.cues hl 0 b hb

/-- the case the statement asked for literally: at most one CSS line and at most two regions (then
    `blockOKWith` takes no line of the `STYLE` / region block for cue text, unless the first region line
    contains `-->`, which `regionArrowFree` excludes) -/
def regionArrowFree (s : Subs) : Bool := (regionLines s).all fun l => !contains Spec.VTT.arrow l

theorem cueTextOf_short (a : Str) (l : List Str) (h : l.length ≤ 1) (ha : contains Spec.VTT.arrow a = false) :
    cueTextOf (a :: l) = [] := by
  rw [cueTextOf_cons, ha]
  match l, h with
  | [], _ => rfl
  | [_], _ => rfl

theorem metaTextW2_small (ok : Str → Bool) (s : Subs) (h1 : (VTT.styleLines s).length ≤ 1)
    (h2 : s.regions.length ≤ 2) (h3 : regionArrowFree s = true) : metaTextW2 ok s = true := by
  unfold metaTextW2
  rw [cueTextOf_short _ _ h1 (by decide)]
  have hlen : (regionLines s).length ≤ 2 := by
    unfold regionLines
    have hp : (VTT.sortDefs s.regions).Perm s.regions := List.mergeSort_perm _ _
    rw [List.length_map, hp.length_eq]
    exact h2
  simp only [regionArrowFree, List.all_eq_true, Bool.not_eq_true'] at h3
  cases hr : regionLines s with
  | nil => rfl
  | cons a l =>
    rw [hr] at hlen h3
    rw [cueTextOf_short a l (by simpa using hlen) (h3 a (by simp))]
    rfl

/-- **Class, document part**, in the form of the task statement; the extra hypothesis `hm` is needed
    (see `inClass_needs_metaText`) -/
theorem inClass_docLines2 (ok : Str → Bool) (s : Subs) (hok : VTT.DocOk s = true) (hx : docW2 s = true)
    (hl : ∀ it ∈ s.items, ∀ l ∈ it.lines, ok (VTT.lineBody l) = true)
    (hm : metaTextW2 ok s = true) :
    VTTRead.InClassWith ok (VTT.unlines (VTT.docLines2 s)) = true :=
  inClass_docLines2' ok s hok hx hm hl

/-- the statement without `metaTextW2`, as first proposed; it is false (`inClass_needs_metaText`) -/
def inClass_docLines2_Statement : Prop :=
  ∀ (ok : Str → Bool) (s : Subs), VTT.DocOk s = true → docW2 s = true →
    (∀ it ∈ s.items, ∀ l ∈ it.lines, ok (VTT.lineBody l) = true) →
    VTTRead.InClassWith ok (VTT.unlines (VTT.docLines2 s)) = true

end VTT3W
end Astisub
