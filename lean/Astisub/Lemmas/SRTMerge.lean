import Astisub.Lemmas.SRTLine

/-!
# Lemmas/SRTMerge — adjacent unstyled runs

The writer puts nothing between two adjacent runs that carry no SubRip markup, so they are read
back as one run.  `mergeS` performs that merge on the cue list; the written text does not change.
-/

namespace Astisub
namespace SRTDoc
open Go SRT List

/-- merge every maximal group of adjacent unstyled runs into one run (texts concatenated; the
    attributes of the first are kept — they carry no SubRip markup) -/
def mergePlain : List LItem → List LItem
  | [] => []
  | a :: rest =>
    match mergePlain rest with
    | b :: r => if plainRun a && plainRun b then { a with text := a.text ++ b.text } :: r else a :: b :: r
    | [] => [a]

def mergeLine (l : Line) : Line := { l with items := mergePlain l.items }
def mergeItem (it : CItem) : CItem := { it with lines := it.lines.map mergeLine }
def mergeS (s : Subs) : Subs := { s with items := s.items.map mergeItem }

/-- no run asks for a position tag -/
def noPosition (s : Subs) : Bool :=
  s.items.all fun it => it.lines.all fun l => l.items.all fun li => (kvGet li.attrs "SRTPosition").getD [] == []

theorem escape_append (a b : Str) : escapeHTML (a ++ b) = escapeHTML a ++ escapeHTML b := by
  simp [C01.escape_eq_flatMap]

theorem runBytes_plain (li : LItem) (hpos : (kvGet li.attrs "SRTPosition").getD [] = []) (hs : plainRun li = true) :
    runBytes li = escapeHTML li.text := by
  have hs' : styled (styleOf li) = false := by simpa [plainRun] using hs
  rw [runBytes_eq li hpos]
  simp [runToks, openers_plain _ hs', closers_plain _ hs', Tok.raw]

theorem mergePlain_attrs (items : List LItem) : ∀ x ∈ mergePlain items, ∃ y ∈ items, x.attrs = y.attrs := by
  induction items with
  | nil => intro x hx; simp [mergePlain] at hx
  | cons a rest ih =>
    intro x hx
    simp only [mergePlain] at hx
    split at hx
    · rename_i b r hb
      split at hx
      · rcases List.mem_cons.mp hx with rfl | hx
        · exact ⟨a, by simp, rfl⟩
        · obtain ⟨y, hy, e⟩ := ih x (by rw [hb]; simp [hx])
          exact ⟨y, by simp [hy], e⟩
      · rcases List.mem_cons.mp hx with rfl | hx
        · exact ⟨x, by simp, rfl⟩
        · obtain ⟨y, hy, e⟩ := ih x (by rw [hb]; exact hx)
          exact ⟨y, by simp [hy], e⟩
    · simp at hx; subst hx; exact ⟨x, by simp, rfl⟩

theorem bytes_mergePlain (items : List LItem) (hpos : ∀ li ∈ items, (kvGet li.attrs "SRTPosition").getD [] = []) :
    ((mergePlain items).map runBytes).flatten = (items.map runBytes).flatten := by
  induction items with
  | nil => rfl
  | cons a rest ih =>
    have ih' := ih (fun li hli => hpos li (by simp [hli]))
    have ha := hpos a (by simp)
    simp only [List.map_cons, List.flatten_cons]
    rw [← ih']
    cases hb : mergePlain rest with
    | nil => simp [mergePlain, hb]
    | cons b r =>
      by_cases hp : (plainRun a && plainRun b) = true
      · simp only [mergePlain, hb, hp, ↓reduceIte, List.map_cons, List.flatten_cons]
        simp only [Bool.and_eq_true] at hp
        have hb' : (kvGet b.attrs "SRTPosition").getD [] = [] := by
          obtain ⟨y, hy, e⟩ := mergePlain_attrs rest b (by rw [hb]; simp)
          rw [e]; exact hpos y (by simp [hy])
        have e1 : runBytes { a with text := a.text ++ b.text } = escapeHTML (a.text ++ b.text) :=
          runBytes_plain { a with text := a.text ++ b.text } ha hp.1
        rw [e1, runBytes_plain a ha hp.1, runBytes_plain b hb' hp.2, escape_append]
        simp
      · simp [mergePlain, hb, hp]

theorem itemBytes_merge (k : Nat) (it : CItem)
    (h : ∀ l ∈ it.lines, ∀ li ∈ l.items, (kvGet li.attrs "SRTPosition").getD [] = []) :
    itemBytes k (mergeItem it) = itemBytes k it := by
  unfold itemBytes mergeItem
  simp only [List.map_map]
  have : it.lines.map (lineBytes ∘ mergeLine) = it.lines.map lineBytes := by
    apply List.map_congr_left
    intro l hl
    simp only [Function.comp, lineBytes, mergeLine]
    rw [bytes_mergePlain l.items (h l hl)]
  rw [this]

/-- **Same text.** merging adjacent unstyled runs does not change what the writer emits -/
theorem write_mergeS (s : Subs) (h : noPosition s = true) : write (mergeS s) = write s := by
  have hpos : ∀ it ∈ s.items, ∀ l ∈ it.lines, ∀ li ∈ l.items, (kvGet li.attrs "SRTPosition").getD [] = [] := by
    intro it hit l hl li hli
    have := List.all_eq_true.mp (List.all_eq_true.mp (List.all_eq_true.mp h it hit) l hl) li hli
    simpa using this
  unfold write mergeS
  simp only [List.isEmpty_map]
  have e : ∀ (items : List CItem) (k : Nat), (∀ it ∈ items, ∀ l ∈ it.lines, ∀ li ∈ l.items, (kvGet li.attrs "SRTPosition").getD [] = []) →
      ((items.map mergeItem).zipIdx k).map (fun (it, k) => itemBytes k it) = (items.zipIdx k).map (fun (it, k) => itemBytes k it) := by
    intro items
    induction items with
    | nil => intro k _; rfl
    | cons it rest ih =>
      intro k hh
      simp only [List.map_cons, List.zipIdx_cons]
      rw [ih (k + 1) (fun x hx => hh x (by simp [hx])), itemBytes_merge k it (hh it (by simp))]
  rw [e s.items 0 hpos]

end SRTDoc
end Astisub
