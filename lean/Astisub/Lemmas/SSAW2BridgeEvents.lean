import Astisub.Lemmas.SSAW2Denote

/-!
# Lemmas/SSAW2BridgeEvents — the denotation of the cues, through the writer's typed events (C04, W2)

* `denote_names_star`: no style name of the writer starts with `*`;
* `eventOfItem_text`: the text of a written event is the `\\n`-join of the lines of its runs;
* `denote_item_lines`: every line of every cue is a `GoodLine` whose text is `LineOK` (what the text lemmas need);
* `bridge_event` / `bridge_events`: what `denote` says about the cues is `eventG` of the cues.
-/

namespace Astisub
namespace SSAW
open Go SSA SSAR List
open Spec.SSA (GVal GStyle GRun GEvent GDoc REvent)

/-! ### style names, event text -/

theorem mem_styleIds (s : Subs) (n : Str) : n ∈ styleIds s ↔ n ∈ s.styles.map (·.id) := by
  unfold styleIds writerStyles
  simp only [map_map, mem_map, mem_mergeSort, Function.comp]
  constructor
  · rintro ⟨d, hd, rfl⟩; exact ⟨d, hd, rfl⟩
  · rintro ⟨d, hd, rfl⟩; exact ⟨d, hd, rfl⟩

theorem contains_styleIds (s : Subs) (n : Str) : (styleIds s).contains n = (s.styles.map (·.id)).contains n := by
  rw [Bool.eq_iff_iff]
  simp only [contains_iff_mem]
  exact mem_styleIds s n

theorem denote_names_star (s : Subs) (want : GDoc) (hd : Spec.SSA.denote s = some want) :
    ∀ n ∈ styleIds s, n.head? ≠ some '*' := by
  obtain ⟨_, _, _, _, hst, _⟩ := denote_some s want hd
  intro n hn
  rw [mem_styleIds, mem_map] at hn
  obtain ⟨d, hd', rfl⟩ := hn
  have := hst d hd'
  unfold styleOkB at this
  simp only [Bool.and_eq_true, decide_eq_true_eq] at this
  exact this.1.1.2

theorem eventOfItem_text (it : CItem) :
    (eventOfItem it).text = join "\\n".toList ((itemRuns it).map SSA.lineStr) := by
  unfold eventOfItem itemRuns
  simp only [map_map]
  congr 1
  apply map_congr_left
  intro l _
  simp only [Function.comp, SSA.lineStr, map_map]
  rfl


/-! ### the lines of a cue -/

/-- the run of a `LineItem` -/
def runOf (li : LItem) : Run := (SSA.kvGet li.attrs "SSAEffect", li.text)

theorem hasBreak_noPair : ∀ w : Str, Spec.SSA.hasBreak w = false →
    noPair '\\' 'n' w = true ∧ noPair '\\' 'N' w = true
  | [], _ => ⟨rfl, rfl⟩
  | c :: cs, h => by
    have ih : Spec.SSA.hasBreak cs = false := by
      unfold Spec.SSA.hasBreak at h
      split at h
      · cases h
      · cases h
      · rename_i heq; injection heq with _ h2; subst h2; exact h
      · rename_i heq; cases heq
    obtain ⟨i1, i2⟩ := hasBreak_noPair cs ih
    simp only [noPair, Bool.and_eq_true, Bool.not_eq_true', i1, i2, and_true]
    by_cases hc : c = '\\'
    · subst hc
      cases cs with
      | nil => simp
      | cons d ds =>
        by_cases h1 : d = 'n'
        · subst h1; simp [Spec.SSA.hasBreak] at h
        · by_cases h2 : d = 'N'
          · subst h2; simp [Spec.SSA.hasBreak] at h
          · simp [h1, h2]
    · simp [hc]

theorem cleanText_noBrace (t : Str) (h : Spec.SSA.cleanText t = true) : NoBrace t := by
  unfold Spec.SSA.cleanText at h
  simp only [Bool.and_eq_true, Bool.not_eq_true', any_eq_false, Bool.or_eq_true, decide_eq_true_eq, not_or] at h
  constructor
  · intro hm; exact (h.1.1 _ hm).1.1.1 rfl
  · intro hm; exact (h.1.1 _ hm).1.1.2 rfl

theorem wellFormedBlock_isBlock (e : Str) (h : Spec.SSA.wellFormedBlock e = true) : IsBlock e := by
  unfold Spec.SSA.wellFormedBlock at h
  split at h
  · rename_i rest
    simp only [Bool.and_eq_true, decide_eq_true_eq, Bool.not_eq_true', any_eq_false, Bool.or_eq_true, not_or,
      isEmpty_eq_false_iff] at h
    obtain ⟨⟨h1, h2⟩, h3⟩ := h
    have hr : rest.dropLast ++ ['}'] = rest := by
      have hne : rest ≠ [] := by intro e; subst e; cases h1
      have h4 := dropLast_concat_getLast hne
      rw [getLast?_eq_some_getLast hne] at h1
      injection h1 with h1
      rw [h1] at h4
      exact h4
    have hb : blockInner ('{' :: rest) = rest.dropLast := rfl
    refine ⟨?_, ?_, ?_, ?_⟩
    · rw [hb, cons_append, hr]
    · rw [hb]; exact h2
    · rw [hb]; intro hm; exact (h3 _ hm).1 rfl
    · rw [hb]; intro hm; exact (h3 _ hm).2 rfl
  · cases h

/-- the clause of `repLine` on one `LineItem` at position `k` of a line of `n` items -/
def itemClause (n : Nat) (p : LItem × Nat) : Bool :=
  Spec.SSA.cleanText p.1.text &&
    match Spec.SSA.kvGet p.1.attrs "SSAEffect" with
    | some e => Spec.SSA.wellFormedBlock e
    | none => p.2 = 0 && (!p.1.text.isEmpty || n = 1)

theorem repLine_eq (l : Line) :
    Spec.SSA.repLine l =
      (!l.items.isEmpty && trimSpace (lineWhole l) = lineWhole l && l.items.zipIdx.all (itemClause l.items.length)) := rfl

theorem blockRun_of_clause (n : Nat) (li : LItem) (k : Nat) (hk : k ≠ 0) (h : itemClause n (li, k) = true) :
    BlockRun (runOf li) := by
  unfold itemClause at h
  simp only [Bool.and_eq_true] at h
  obtain ⟨h1, h2⟩ := h
  rw [spec_kvGet_eq] at h2
  unfold runOf
  cases he : SSA.kvGet li.attrs "SSAEffect" with
  | none => rw [he] at h2; simp [hk] at h2
  | some e =>
    rw [he] at h2
    exact ⟨wellFormedBlock_isBlock e h2, cleanText_noBrace _ h1⟩

theorem blockRuns_of_clause (n : Nat) : ∀ (items : List LItem) (k : Nat), k ≠ 0 →
    (items.zipIdx k).all (itemClause n) = true → ∀ r ∈ items.map runOf, BlockRun r
  | [], _, _, _ => by intro r hr; cases hr
  | li :: rest, k, hk, h => by
    simp only [zipIdx_cons, all_cons, Bool.and_eq_true] at h
    intro r hr
    simp only [map_cons, mem_cons] at hr
    rcases hr with rfl | hr
    · exact blockRun_of_clause n li k hk h.1
    · exact blockRuns_of_clause n rest (k + 1) (by omega) h.2 r hr

theorem goodLine_of_repLine (l : Line) (h : Spec.SSA.repLine l = true) : GoodLine (l.items.map runOf) := by
  rw [repLine_eq] at h
  simp only [Bool.and_eq_true] at h
  obtain ⟨⟨h0, _⟩, h2⟩ := h
  cases hi : l.items with
  | nil => rw [hi] at h0; simp at h0
  | cons li rest =>
    rw [hi] at h2
    simp only [zipIdx_cons, all_cons, Bool.and_eq_true, Nat.zero_add] at h2
    obtain ⟨hli, hrest⟩ := h2
    have hbr := blockRuns_of_clause _ rest 1 (by omega) hrest
    have hli' := hli
    unfold itemClause at hli
    simp only [Bool.and_eq_true] at hli
    obtain ⟨hc, he⟩ := hli
    rw [spec_kvGet_eq] at he
    have hnb := cleanText_noBrace _ hc
    rw [map_cons]
    cases hk : SSA.kvGet li.attrs "SSAEffect" with
    | some e =>
      rw [hk] at he
      have hb : BlockRun (runOf li) := by
        unfold runOf; rw [hk]; exact ⟨wellFormedBlock_isBlock e he, hnb⟩
      have hr : runOf li = (some e, li.text) := by unfold runOf; rw [hk]
      rw [hr] at hb ⊢
      show ∀ r ∈ (some e, li.text) :: map runOf rest, BlockRun r
      intro r hr
      rcases mem_cons.mp hr with rfl | hr
      · exact hb
      · exact hbr r hr
    | none =>
      rw [hk] at he
      have hr : runOf li = (none, li.text) := by unfold runOf; rw [hk]
      rw [hr]
      cases rest with
      | nil => exact hnb
      | cons r2 rs =>
        simp at he
        have : li.text ≠ [] := he
        exact ⟨this, hnb, hbr⟩

theorem itemRuns_eq (it : CItem) : itemRuns it = it.lines.map fun l => l.items.map runOf := rfl

theorem lineStr_runs (l : Line) : SSA.lineStr (l.items.map runOf) = lineWhole l := by
  unfold SSA.lineStr lineWhole
  rw [map_map]
  rfl

theorem lineOK_of_repLine (l : Line) (h : Spec.SSA.repLine l = true) (hb : Spec.SSA.hasBreak (lineWhole l) = false) :
    LineOK (SSA.lineStr (l.items.map runOf)) := by
  rw [lineStr_runs]
  rw [repLine_eq] at h
  simp only [Bool.and_eq_true, decide_eq_true_eq] at h
  obtain ⟨h1, h2⟩ := hasBreak_noPair _ hb
  refine ⟨h1, h2, ?_⟩
  rw [← h.1.2]
  exact trimmed_trimSpace _

/-- the `lines` clause of `itemOkB` -/
theorem itemOkB_lines (names : List Str) (it : CItem) (h : itemOkB names it = true) :
    it.lines ≠ [] ∧ ∀ l ∈ it.lines, Spec.SSA.repLine l = true := by
  unfold itemOkB at h
  simp only [Bool.and_eq_true, all_eq_true, Bool.not_eq_true', isEmpty_eq_false_iff] at h
  exact ⟨h.1.2, fun l hl => (h.2 l hl).2⟩

theorem denote_item_lines (s : Subs) (want : GDoc) (hd : Spec.SSA.denote s = some want) (hx : Extra s want) :
    ∀ it ∈ s.items, itemRuns it ≠ [] ∧ ∀ l ∈ itemRuns it, GoodLine l ∧ LineOK (SSA.lineStr l) := by
  obtain ⟨_, _, _, _, _, hit, _⟩ := denote_some s want hd
  intro it hmem
  obtain ⟨hne, hrep⟩ := itemOkB_lines _ it (hit it hmem)
  rw [itemRuns_eq]
  refine ⟨by simpa using hne, ?_⟩
  intro r hr
  rw [mem_map] at hr
  obtain ⟨l, hl, rfl⟩ := hr
  exact ⟨goodLine_of_repLine l (hrep l hl), lineOK_of_repLine l (hrep l hl) (hx.breaks it hmem l hl)⟩


/-! ### one cue, all cues -/

/-- when `strconv.Atoi` succeeds, dropping its error changes nothing -/
theorem atoiLoose_of_atoi_ev {s : Str} {v : Int} (h : atoi s = some v) : atoiLoose s = v := by
  unfold atoi at h
  unfold atoiLoose
  split at h
  · rename_i r
    cases hp : parseDigits r with
    | none => rw [hp] at h; cases h
    | some n =>
      rw [hp] at h
      simp only at h ⊢
      by_cases hc : n ≤ int64Max + 1
      · rw [if_pos hc] at h; injection h with h; simp [hc, h]
      · rw [if_neg hc] at h; cases h
  · rename_i r
    cases hp : parseDigits r with
    | none => rw [hp] at h; cases h
    | some n =>
      rw [hp] at h
      simp only at h ⊢
      by_cases hc : n ≤ int64Max
      · rw [if_pos hc] at h; injection h with h; simp [hc, h]
      · rw [if_neg hc] at h; cases h
  · rename_i h1 h2
    cases hp : parseDigits s with
    | none => rw [hp] at h; cases h
    | some n =>
      rw [hp] at h
      simp only at h ⊢
      by_cases hc : n ≤ int64Max
      · rw [if_pos hc] at h; injection h with h; simp [hc, h]
      · rw [if_neg hc] at h; cases h

/-- an integer attribute: what `denote` reads (unbounded) is what `newSSAEventFromItem` reads when it fits 64 bits -/
theorem optInt_getD (a : Attrs) (k : String) (o : Option Int) (h : Spec.SSA.optInt a k = some o)
    (h64 : In64 (o.getD 0) = true) : ((SSA.kvGet a k).map atoiLoose).getD 0 = o.getD 0 := by
  unfold Spec.SSA.optInt at h
  rw [spec_kvGet_eq] at h
  cases hk : SSA.kvGet a k with
  | none => rw [hk] at h; injection h with h; subst h; rfl
  | some str =>
    rw [hk] at h
    simp only at h
    cases hi : Spec.SSA.intOf str with
    | none => rw [hi] at h; cases h
    | some v =>
      rw [hi] at h
      simp only [Option.map_some, Option.some.injEq] at h
      subst h
      simp only [Option.getD_some] at h64 ⊢
      simp only [Option.map_some, Option.getD_some]
      exact atoiLoose_of_atoi_ev (atoi_of_intOf hi h64)

/-- the `style` clause of `itemOkB` -/
theorem itemOkB_style (names : List Str) (it : CItem) (h : itemOkB names it = true) (id : Str) (hs : it.style = some id) :
    names.contains id = true := by
  unfold itemOkB at h
  rw [hs] at h
  simp only [Bool.and_eq_true] at h
  exact h.1.1.2.2

theorem bridge_styleRef (s : Subs) (it : CItem) (hok : itemOkB (s.styles.map (·.id)) it = true) (href : it.style ≠ some []) :
    it.style.bind (fun id => if (s.styles.map (·.id)).contains id then some id else none)
      = Spec.SSA.resolve (styleIds s) (eventOfItem it).style := by
  have e : (eventOfItem it).style = it.style.getD [] := rfl
  rw [e]
  cases hs : it.style with
  | none => rfl
  | some id =>
    have hc := itemOkB_style _ it hok id hs
    have hne : id ≠ [] := by intro e; subst e; exact href hs
    have hemp : id.isEmpty = false := by cases id with | nil => exact absurd rfl hne | cons _ _ => rfl
    simp only [Option.bind_some, hc, ↓reduceIte, Option.getD_some]
    unfold Spec.SSA.resolve
    rw [hemp, contains_styleIds, hc]
    rfl

theorem bridge_marked (it : CItem) :
    (Spec.SSA.kvGet it.attrs "SSAMarked" == some "true".toList) = decide ((eventOfItem it).marked = some true) := by
  have e : (eventOfItem it).marked = (SSA.kvGet it.attrs "SSAMarked").map fun s => decide (s = "true".toList) := rfl
  rw [e, spec_kvGet_eq]
  generalize "true".toList = t
  cases SSA.kvGet it.attrs "SSAMarked" with
  | none => rfl
  | some v =>
    by_cases hv : v = t
    · subst hv; simp
    · simp [hv]

theorem bridge_lines (it : CItem) :
    (it.lines.map fun l => l.items.map fun li => ({ effect := Spec.SSA.kvGet li.attrs "SSAEffect", text := li.text } : GRun))
      = itemLinesG it := by
  unfold itemLinesG itemRuns
  simp only [map_map]
  apply map_congr_left
  intro l _
  simp only [Function.comp, map_map]
  rfl

/-- one cue: what `denote` says is what the decoder is expected to return -/
theorem bridge_event (s : Subs) (it : CItem) (ge : GEvent)
    (hok : itemOkB (s.styles.map (·.id)) it = true)
    (hde : Spec.SSA.denoteEvent (isV4plus s) (s.styles.map (·.id)) it = some ge)
    (h64 : event64 ge = true) (href : it.style ≠ some []) :
    ge = eventG (isV4plus s) (styleIds s) it := by
  unfold Spec.SSA.denoteEvent at hde
  cases hl : Spec.SSA.optInt it.attrs "SSALayer" with
  | none => rw [hl] at hde; cases hde
  | some layer =>
  cases hml : Spec.SSA.optInt it.attrs "SSAMarginLeft" with
  | none => rw [hl, hml] at hde; cases hde
  | some ml =>
  cases hmr : Spec.SSA.optInt it.attrs "SSAMarginRight" with
  | none => rw [hl, hml, hmr] at hde; cases hde
  | some mr =>
  cases hmv : Spec.SSA.optInt it.attrs "SSAMarginVertical" with
  | none => rw [hl, hml, hmr, hmv] at hde; cases hde
  | some mv =>
  rw [hl, hml, hmr, hmv] at hde
  simp only [Option.some.injEq] at hde
  subst hde
  unfold event64 at h64
  simp only [Bool.and_eq_true] at h64
  obtain ⟨⟨⟨⟨⟨g1, g2⟩, g3⟩, g4⟩, _⟩, _⟩ := h64
  have eL : (eventOfItem it).marginL.getD 0 = ml.getD 0 := optInt_getD _ _ _ hml g2
  have eR : (eventOfItem it).marginR.getD 0 = mr.getD 0 := optInt_getD _ _ _ hmr g3
  have eV : (eventOfItem it).marginV.getD 0 = mv.getD 0 := optInt_getD _ _ _ hmv g4
  unfold eventG eventR
  simp only [eL, eR, eV, bridge_styleRef s it hok href, bridge_marked, bridge_lines]
  cases hv : isV4plus s with
  | false => rfl
  | true =>
    rw [hv] at g1
    have eY : (eventOfItem it).layer.getD 0 = layer.getD 0 := optInt_getD _ _ _ hl g1
    simp only [eY]
    rfl


theorem bridge_events_aux (s : Subs) : ∀ (its : List CItem) (evs : List GEvent),
    (∀ it ∈ its, itemOkB (s.styles.map (·.id)) it = true) →
    Spec.SSA.mapM (Spec.SSA.denoteEvent (isV4plus s) (s.styles.map (·.id))) its = some evs →
    (∀ g ∈ evs, event64 g = true) → (∀ it ∈ its, it.style ≠ some []) →
    evs = its.map (eventG (isV4plus s) (styleIds s))
  | [], evs, _, hde, _, _ => by
    simp only [Spec.SSA.mapM, Option.some.injEq] at hde
    subst hde; rfl
  | it :: rest, evs, hok, hde, h64, href => by
    simp only [Spec.SSA.mapM] at hde
    cases h1 : Spec.SSA.denoteEvent (isV4plus s) (s.styles.map (·.id)) it with
    | none => rw [h1] at hde; cases hde
    | some ge =>
      cases h2 : Spec.SSA.mapM (Spec.SSA.denoteEvent (isV4plus s) (s.styles.map (·.id))) rest with
      | none => rw [h1, h2] at hde; cases hde
      | some gs =>
        rw [h1, h2] at hde
        simp only [Option.some.injEq] at hde
        subst hde
        have e1 := bridge_event s it ge (hok it (by simp)) h1 (h64 ge (by simp)) (href it (by simp))
        have e2 := bridge_events_aux s rest gs (fun x hx => hok x (by simp [hx])) h2
          (fun g hg => h64 g (by simp [hg])) (fun x hx => href x (by simp [hx]))
        rw [map_cons, ← e1, ← e2]

theorem bridge_events (s : Subs) (evs : List GEvent)
    (hok : ∀ it ∈ s.items, itemOkB (s.styles.map (·.id)) it = true)
    (hde : Spec.SSA.mapM (Spec.SSA.denoteEvent (isV4plus s) (s.styles.map (·.id))) s.items = some evs)
    (h64 : ∀ g ∈ evs, event64 g = true) (href : ∀ it ∈ s.items, it.style ≠ some []) :
    evs = s.items.map (eventG (isV4plus s) (styleIds s)) :=
  bridge_events_aux s s.items evs hok hde h64 href

end SSAW
end Astisub
