import Astisub.Lemmas.F53Exec

/-!
# Lemmas/C16FFloor — `math.Floor`, `+` and `<` on the executable binary64 model

`Go/Float53.lean` has `round`, `ofInt`, `mul`, `sub`, `div`, `trunc`. The timestamp writers of
`subtitles.go` / `stl.go` additionally use `math.Floor`, float addition (`time.Duration.Hours()`
is `float64(hour) + float64(nsec)/(60*60*1e9)`) and a float comparison (`d.Hours() < 10`). They are
defined here, executable and in integer arithmetic like the rest of the model, and proved to be
what IEEE-754 prescribes:

* `Dy.floor x = ⌊x.val⌋` (and `= Dy.trunc x` for non-negative `x`),
* `(Dy.add x y).val = rnd (x.val + y.val)` (correctly rounded sum),
* `Dy.lt x y = true ↔ x.val < y.val`.

Nothing in `Go/Float53.lean` is changed.
-/

namespace Astisub
namespace Go

/-- `math.Floor(x)` as an integer (the result of `math.Floor` is an integer-valued double; every
    caller in the package converts or prints it as an integer). Lean's `/` on `Int` with a
    positive divisor is the floor division. -/
def Dy.floor (x : Dy) : Int :=
  if x.e ≥ 0 then x.m * (2 : Int) ^ x.e.toNat else x.m / (2 : Int) ^ (-x.e).toNat

/-- `x + y`: exact sum on the common exponent, then rounded (same scheme as `Dy.sub`) -/
def Dy.add (x y : Dy) : Dy :=
  let e := min x.e y.e
  Dy.round { m := x.m * (2 : Int) ^ (x.e - e).toNat + y.m * (2 : Int) ^ (y.e - e).toNat, e := e }

/-- `x < y` on doubles: compare the significands on the common exponent -/
def Dy.lt (x y : Dy) : Bool :=
  let e := min x.e y.e
  decide (x.m * (2 : Int) ^ (x.e - e).toNat < y.m * (2 : Int) ^ (y.e - e).toNat)

end Go

namespace F53
open Go

/-! ### floor -/

theorem floor_val (x : Dy) : x.floor = ⌊x.val⌋ := by
  unfold Dy.floor
  by_cases he : x.e ≥ 0
  · simp only [he, ↓reduceIte]
    obtain ⟨k, hk⟩ : ∃ k : ℕ, x.e = (k : ℤ) := ⟨x.e.toNat, by omega⟩
    have : x.val = ((x.m * 2 ^ k : ℤ) : ℚ) := by
      unfold Dy.val; rw [hk, zpow_natCast]; push_cast; ring
    rw [this, Int.floor_intCast, hk]; simp
  · simp only [he, ↓reduceIte]
    obtain ⟨k, hk⟩ : ∃ k : ℕ, x.e = -(k : ℤ) := ⟨(-x.e).toNat, by omega⟩
    have hk' : (-x.e).toNat = k := by omega
    rw [hk']
    have hv : x.val = (x.m : ℚ) / ((2 ^ k : ℕ) : ℚ) := by
      unfold Dy.val; rw [hk, zpow_neg, zpow_natCast]; push_cast; ring
    rw [hv, Rat.floor_intCast_div_natCast]
    push_cast; rfl

/-- for a non-negative double, Go's float → int conversion (`Dy.trunc`) is the floor -/
theorem floor_eq_trunc (x : Dy) (h : 0 ≤ x.val) : x.floor = x.trunc := by
  rw [floor_val, trunc_val]; unfold C15.tr; rw [if_pos h]

/-- the floor of an integer-valued double is that integer -/
theorem floor_ofInt (n : ℤ) (h : |n| ≤ 2 ^ 53) : (Dy.ofInt n).floor = n := by
  rw [floor_val, ofInt_val, rnd_int n h, Int.floor_intCast]

/-! ### addition -/

theorem add_eq_sub_neg (x y : Dy) : Dy.add x y = Dy.sub x ⟨-y.m, y.e⟩ := by
  unfold Dy.add Dy.sub
  simp only [Int.neg_mul, Int.sub_neg]

theorem val_neg_m (y : Dy) : (Dy.mk (-y.m) y.e).val = -y.val := by
  unfold Dy.val; push_cast; ring

/-- `x + y` is the correctly rounded sum. -/
theorem add_val (x y : Dy) : (Dy.add x y).val = rnd (x.val + y.val) := by
  rw [add_eq_sub_neg, sub_val, val_neg_m, sub_neg_eq_add]

/-! ### comparison -/

theorem val_common (x : Dy) (e : ℤ) (he : e ≤ x.e) :
    x.val = ((x.m * (2 : ℤ) ^ (x.e - e).toNat : ℤ) : ℚ) * 2 ^ e := by
  obtain ⟨k, hk⟩ : ∃ k : ℕ, x.e - e = (k : ℤ) := ⟨(x.e - e).toNat, by omega⟩
  have hk' : (x.e - e).toNat = k := by omega
  have hxe : x.e = (k : ℤ) + e := by omega
  unfold Dy.val
  rw [hk', hxe, p2_add, zpow_natCast]
  push_cast; ring

/-- `Dy.lt` decides the order of the values. -/
theorem lt_val (x y : Dy) : Dy.lt x y = true ↔ x.val < y.val := by
  unfold Dy.lt
  simp only [decide_eq_true_eq]
  have hp := p2_pos (min x.e y.e)
  rw [val_common x (min x.e y.e) (min_le_left _ _), val_common y (min x.e y.e) (min_le_right _ _)]
  rw [mul_lt_mul_iff_of_pos_right hp]
  exact Int.cast_lt.symm

end F53
end Astisub
