import Astisub.Model.Subs

/-!
# Lemmas/C13WRChain — the pointer chain behind a style reference of a `Subs`

In `Subs` (`Model/Subs.lean`) a reference to a style is an identifier; the definition it names
(the first one of `styles` with that identifier) may itself refer to a parent style.  The graph model
of C13 (`Model/Graph.lean`) sees a reference as the list of identifiers read along the pointer chain,
"a cyclic chain being cut where it first revisits an object".  `chain` computes exactly that list:
it follows `parentRef`, remembers what it visited (`seen`) and carries fuel; `chainEnds` says the
walk ended because the chain ended (or came back), not because the fuel ran out.  With fuel above
the number of definitions the walk always ends (`chainEnds_of_fuel`, a pigeonhole argument), more
fuel changes nothing (`chain_fuel`), and deleting definitions whose identifier is not on the chain
changes nothing (`chain_filter`).
-/

namespace Astisub
namespace C13WR
open Go List

/-- the definition an identifier names: the first one carrying it -/
def findDef (st : List Def) (id : Str) : Option Def := st.find? (fun d => d.id = id)

/-- the parent reference of the style an identifier names (`none`: no such style, or no parent) -/
def parentRef (st : List Def) (id : Str) : Option Str := (findDef st id).bind (·.ref)

/-- identifiers along the pointer chain of reference `x`: `x.ID, x.Style.ID, …`, cut where it first
    revisits an identifier (`seen`) — or when the fuel is spent -/
def chain (st : List Def) : Nat → List Str → Option Str → List Str
  | _, _, none => []
  | 0, _, some _ => []
  | n + 1, seen, some id => if id ∈ seen then [] else id :: chain st n (id :: seen) (parentRef st id)

/-- the walk of `chain` ended by itself (not by lack of fuel) -/
def chainEnds (st : List Def) : Nat → List Str → Option Str → Bool
  | _, _, none => true
  | 0, _, some _ => false
  | n + 1, seen, some id => if id ∈ seen then true else chainEnds st n (id :: seen) (parentRef st id)

/-- the chain of a reference, as the graph model sees it (fuel: one more than there are definitions) -/
def chainOf (st : List Def) (x : Option Str) : List Str := chain st (st.length + 1) [] x

theorem chain_none (st : List Def) (n : Nat) (seen : List Str) : chain st n seen none = [] := by
  cases n <;> rfl

theorem chainEnds_none (st : List Def) (n : Nat) (seen : List Str) : chainEnds st n seen none = true := by
  cases n <;> rfl

theorem chain_succ (st : List Def) (n : Nat) (seen : List Str) (id : Str) :
    chain st (n + 1) seen (some id)
      = if id ∈ seen then [] else id :: chain st n (id :: seen) (parentRef st id) := rfl

theorem chainEnds_succ (st : List Def) (n : Nat) (seen : List Str) (id : Str) :
    chainEnds st (n + 1) seen (some id)
      = if id ∈ seen then true else chainEnds st n (id :: seen) (parentRef st id) := rfl

theorem findDef_some {st : List Def} {id : Str} {d : Def} (h : findDef st id = some d) : d ∈ st ∧ d.id = id := by
  unfold findDef at h
  exact ⟨mem_of_find?_eq_some h, by simpa using find?_some h⟩

theorem findDef_none {st : List Def} {id : Str} (h : findDef st id = none) : ∀ d ∈ st, d.id ≠ id := by
  unfold findDef at h
  intro d hd
  simpa using (find?_eq_none.mp h) d hd

/-- with pairwise distinct identifiers a definition is the one its identifier names -/
theorem findDef_of_mem {st : List Def} (hnd : (st.map (·.id)).Nodup) {d : Def} (hd : d ∈ st) :
    findDef st d.id = some d := by
  induction st with
  | nil => cases hd
  | cons a rest ih =>
    simp only [map_cons, nodup_cons] at hnd
    unfold findDef
    rw [find?_cons]
    by_cases ha : a.id = d.id
    · simp only [ha, decide_true]
      rcases mem_cons.mp hd with rfl | hd'
      · rfl
      · exact absurd (ha ▸ mem_map.mpr ⟨d, hd', rfl⟩) hnd.1
    · simp only [ha, decide_false]
      rcases mem_cons.mp hd with rfl | hd'
      · exact absurd rfl ha
      · exact ih hnd.2 hd'

/-! ### the fuel suffices -/

theorem filter_length_lt {α : Type} (p q : α → Bool) (l : List α) (hpq : ∀ d ∈ l, p d = true → q d = true)
    (hex : ∃ d ∈ l, q d = true ∧ p d = false) : (l.filter p).length < (l.filter q).length := by
  induction l with
  | nil => obtain ⟨d, hd, _⟩ := hex; cases hd
  | cons a rest ih =>
    have hle : (rest.filter p).length ≤ (rest.filter q).length := by
      clear ih hex
      induction rest with
      | nil => simp
      | cons b r ihr =>
        have hb := hpq b (by simp)
        have := ihr (fun d hd => hpq d (by
          rcases mem_cons.mp hd with rfl | h
          · simp
          · simp [h]))
        simp only [filter_cons]
        cases hp : p b with
        | true => simp [hb hp]; omega
        | false => cases hq : q b <;> simp <;> omega
    obtain ⟨d, hd, hq, hp⟩ := hex
    simp only [filter_cons]
    rcases mem_cons.mp hd with rfl | hd'
    · simp only [hq, hp, if_true, length_cons]
      simp; omega
    · have := ih (fun d hd => hpq d (mem_cons_of_mem _ hd)) ⟨d, hd', hq, hp⟩
      have ha := hpq a (by simp)
      cases hpa : p a with
      | true => simp [ha hpa]; omega
      | false => cases hqa : q a <;> simp <;> omega

/-- how many definitions carry an identifier not visited yet -/
def unseen (st : List Def) (seen : List Str) : Nat := (st.filter (fun d => decide (d.id ∉ seen))).length

theorem unseen_nil (st : List Def) : unseen st [] = st.length := by simp [unseen]

/-- **pigeonhole**: every step of the walk that goes on visits a definition not visited before, so
    fuel above the number of unvisited definitions is never spent -/
theorem chainEnds_of_fuel (st : List Def) : ∀ (n : Nat) (seen : List Str) (x : Option Str),
    unseen st seen < n → chainEnds st n seen x = true := by
  intro n
  induction n with
  | zero => intro seen x h; omega
  | succ n ih =>
    intro seen x h
    cases x with
    | none => rfl
    | some id =>
      rw [chainEnds_succ]
      by_cases hs : id ∈ seen
      · simp [hs]
      · simp only [hs, if_false]
        cases hf : findDef st id with
        | none => simp [parentRef, hf, chainEnds_none]
        | some d =>
          obtain ⟨hd, hid⟩ := findDef_some hf
          apply ih
          have : unseen st (id :: seen) < unseen st seen := by
            unfold unseen
            apply filter_length_lt
            · intro e _ he
              simp only [mem_cons, not_or, decide_eq_true_eq] at he ⊢
              exact he.2
            · exact ⟨d, hd, by simp [hid, hs], by simp [hid]⟩
          omega

theorem chainOf_ends (st : List Def) (x : Option Str) : chainEnds st (st.length + 1) [] x = true :=
  chainEnds_of_fuel st _ _ _ (by rw [unseen_nil]; omega)

/-- a walk that ended is not changed by more fuel -/
theorem chain_fuel_succ (st : List Def) : ∀ (n : Nat) (seen : List Str) (x : Option Str),
    chainEnds st n seen x = true →
      chain st (n + 1) seen x = chain st n seen x ∧ chainEnds st (n + 1) seen x = true := by
  intro n
  induction n with
  | zero =>
    intro seen x h
    cases x with
    | none => exact ⟨rfl, rfl⟩
    | some id => cases h
  | succ n ih =>
    intro seen x h
    cases x with
    | none => exact ⟨rfl, rfl⟩
    | some id =>
      rw [chainEnds_succ] at h
      rw [chain_succ st (n + 1), chainEnds_succ st (n + 1), chain_succ st n]
      by_cases hs : id ∈ seen
      · simp [hs]
      · simp only [hs, if_false] at h ⊢
        obtain ⟨h1, h2⟩ := ih _ _ h
        exact ⟨by rw [h1], h2⟩

theorem chain_fuel (st : List Def) (n k : Nat) (seen : List Str) (x : Option Str)
    (h : chainEnds st n seen x = true) :
    chain st (n + k) seen x = chain st n seen x ∧ chainEnds st (n + k) seen x = true := by
  induction k with
  | zero => exact ⟨rfl, h⟩
  | succ k ih =>
    obtain ⟨h1, h2⟩ := chain_fuel_succ st (n + k) seen x ih.2
    exact ⟨by rw [← Nat.add_assoc, h1, ih.1], by rw [← Nat.add_assoc]; exact h2⟩

/-- any fuel above the number of definitions gives the chain -/
theorem chain_eq_chainOf (st : List Def) (n : Nat) (x : Option Str) (h : st.length + 1 ≤ n) :
    chain st n [] x = chainOf st x := by
  obtain ⟨k, rfl⟩ := Nat.exists_eq_add_of_le h
  exact (chain_fuel st _ k [] x (chainOf_ends st x)).1

/-! ### the chain is what one reads when following parents -/

theorem chainOf_none (st : List Def) : chainOf st none = [] := chain_none _ _ _

/-- the chain of a reference starts with the identifier referred to -/
theorem chainOf_some (st : List Def) (id : Str) :
    chainOf st (some id) = id :: chain st st.length [id] (parentRef st id) := by
  unfold chainOf; rw [chain_succ]; simp

theorem head_mem_chainOf (st : List Def) (id : Str) : id ∈ chainOf st (some id) := by
  rw [chainOf_some]; simp

/-- no identifier twice, none of those visited before -/
theorem chain_nodup (st : List Def) : ∀ (n : Nat) (seen : List Str) (x : Option Str),
    (chain st n seen x).Nodup ∧ ∀ y ∈ chain st n seen x, y ∉ seen := by
  intro n
  induction n with
  | zero => intro seen x; cases x <;> simp [chain]
  | succ n ih =>
    intro seen x
    cases x with
    | none => simp [chain]
    | some id =>
      rw [chain_succ]
      by_cases hs : id ∈ seen
      · simp [hs]
      · simp only [hs, if_false]
        obtain ⟨h1, h2⟩ := ih (id :: seen) (parentRef st id)
        refine ⟨nodup_cons.mpr ⟨fun h => (h2 id h) (by simp), h1⟩, ?_⟩
        intro y hy
        rcases mem_cons.mp hy with rfl | hy
        · exact hs
        · exact fun h => (h2 y hy) (mem_cons_of_mem _ h)

/-- everything on the chain lies in every parent-closed set that holds its start -/
theorem chain_subset_closed (st : List Def) (U : Str → Prop)
    (hU : ∀ id p, U id → parentRef st id = some p → U p) :
    ∀ (n : Nat) (seen : List Str) (x : Option Str), (∀ p, x = some p → U p) → ∀ y ∈ chain st n seen x, U y := by
  intro n
  induction n with
  | zero => intro seen x _ y hy; cases x <;> cases hy
  | succ n ih =>
    intro seen x hx y hy
    cases x with
    | none => cases hy
    | some id =>
      rw [chain_succ] at hy
      by_cases hs : id ∈ seen
      · simp [hs] at hy
      · simp only [hs, if_false] at hy
        rcases mem_cons.mp hy with rfl | hy
        · exact hx _ rfl
        · exact ih _ _ (fun p hp => hU id p (hx _ rfl) hp) y hy

/-- a walk that ended holds, with every identifier, the parent of the style it names — on the
    chain itself or among those visited before -/
theorem chain_parent (st : List Def) : ∀ (n : Nat) (seen : List Str) (x : Option Str),
    chainEnds st n seen x = true → ∀ id ∈ chain st n seen x, ∀ p, parentRef st id = some p →
      p ∈ seen ∨ p ∈ chain st n seen x := by
  intro n
  induction n with
  | zero => intro seen x _ id hid; cases x <;> cases hid
  | succ n ih =>
    intro seen x he id hid p hp
    cases x with
    | none => cases hid
    | some a =>
      rw [chain_succ] at hid ⊢
      rw [chainEnds_succ] at he
      by_cases hs : a ∈ seen
      · simp [hs] at hid
      · simp only [hs, if_false] at hid he ⊢
        rcases mem_cons.mp hid with rfl | hid
        · -- the head: its parent is where the walk goes next
          rw [hp] at he ⊢
          cases n with
          | zero => cases he
          | succ m =>
            rw [chain_succ]
            by_cases hps : p ∈ id :: seen
            · rcases mem_cons.mp hps with rfl | h
              · exact Or.inr (by simp)
              · exact Or.inl h
            · simp [hps]
        · rcases ih _ _ he id hid p hp with h | h
          · rcases mem_cons.mp h with rfl | h
            · exact Or.inr (by simp)
            · exact Or.inl h
          · exact Or.inr (mem_cons_of_mem _ h)

theorem chainOf_parent (st : List Def) (x : Option Str) (id : Str) (hid : id ∈ chainOf st x) (p : Str)
    (hp : parentRef st id = some p) : p ∈ chainOf st x := by
  rcases chain_parent st _ _ _ (chainOf_ends st x) id hid p hp with h | h
  · cases h
  · exact h

/-! ### deleting definitions that are not on the chain -/

theorem findDef_filter (st : List Def) (k : Str → Bool) (id : Str) (h : k id = true) :
    findDef (st.filter (fun d => k d.id)) id = findDef st id := by
  unfold findDef
  induction st with
  | nil => rfl
  | cons a rest ih =>
    by_cases ha : a.id = id
    · simp [ha, h]
    · cases hk : k a.id with
      | true => simp [hk, ha, ih]
      | false => simp [hk, ha, ih]

theorem chain_filter (st : List Def) (k : Str → Bool) : ∀ (n : Nat) (seen : List Str) (x : Option Str),
    (∀ y ∈ chain st n seen x, k y = true) →
      chain (st.filter (fun d => k d.id)) n seen x = chain st n seen x := by
  intro n
  induction n with
  | zero => intro seen x _; cases x <;> rfl
  | succ n ih =>
    intro seen x h
    cases x with
    | none => rfl
    | some id =>
      rw [chain_succ] at h
      rw [chain_succ, chain_succ]
      by_cases hs : id ∈ seen
      · simp [hs]
      · simp only [hs, if_false] at h ⊢
        have hk : k id = true := h id (by simp)
        have hp : parentRef (st.filter (fun d => k d.id)) id = parentRef st id := by
          unfold parentRef; rw [findDef_filter st k id hk]
        rw [hp, ih _ _ (fun y hy => h y (mem_cons_of_mem _ hy))]

/-- **the chain survives the deletion of definitions it does not pass through** -/
theorem chainOf_filter (st : List Def) (k : Str → Bool) (x : Option Str)
    (h : ∀ y ∈ chainOf st x, k y = true) : chainOf (st.filter (fun d => k d.id)) x = chainOf st x := by
  have hlen : (st.filter (fun d => k d.id)).length + 1 ≤ st.length + 1 := by
    have := length_filter_le (fun d => k d.id) st; omega
  rw [← chain_eq_chainOf (st.filter (fun d => k d.id)) (st.length + 1) x hlen]
  exact chain_filter st k _ _ _ h

end C13WR
end Astisub
