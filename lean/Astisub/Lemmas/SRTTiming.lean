import Astisub.Model.SRT
import Astisub.Props.C01

/-!
# Lemmas/SRTTiming — the SubRip timing line `HH:MM:SS,mmm --> HH:MM:SS,mmm` through `SRT.step`

The writer emits `formatSRT s ++ " --> " ++ formatSRT e`; the reader trims the line, looks for
`-->`, splits at it, takes the first field of the right part and parses both sides.  This file
proves, for all `0 ≤ s, e < 100 h`, what each of those stages returns and, combined, what
`SRT.step` returns on such a line.
-/

namespace Astisub
namespace SRTTiming
open Go SRT List

/-- the timing line of a cue as written by `SRT.itemBytes` -/
def timingLine (s e : Int) : Str := Duration.formatSRT s ++ " --> ".toList ++ Duration.formatSRT e

/-! ### general string lemmas -/

theorem dropWhile_isSpace_id {l : Str} (h : ∀ c ∈ l, isSpace c = false) : l.dropWhile isSpace = l := by
  cases l with
  | nil => rfl
  | cons x xs => simp [dropWhile, h x (by simp)]

theorem dropWhile_isSpace_head {x : Str} (r : Str) (hx : x ≠ []) (h : ∀ c ∈ x, isSpace c = false) :
    (x ++ r).dropWhile isSpace = x ++ r := by
  cases x with
  | nil => exact absurd rfl hx
  | cons a as => simp [h a (by simp)]

/-- a string that begins and ends with non-empty blocks free of white space is not trimmed -/
theorem trimSpace_wrap (x m y : Str) (hx : x ≠ []) (hy : y ≠ [])
    (hxs : ∀ c ∈ x, isSpace c = false) (hys : ∀ c ∈ y, isSpace c = false) :
    trimSpace (x ++ m ++ y) = x ++ m ++ y := by
  unfold trimSpace trimRight trimLeft
  rw [append_assoc, dropWhile_isSpace_head _ hx hxs]
  have hr : (x ++ (m ++ y)).reverse = y.reverse ++ (m.reverse ++ x.reverse) := by simp
  rw [hr, dropWhile_isSpace_head _ (by simpa using hy) (by intro c hc; exact hys c (by simpa using hc))]
  simp

/-- a single trailing space is trimmed off a non-empty block free of white space -/
theorem trimSpace_append_space (x : Str) (hx : x ≠ []) (hxs : ∀ c ∈ x, isSpace c = false) :
    trimSpace (x ++ [' ']) = x := by
  unfold trimSpace trimRight trimLeft
  rw [dropWhile_isSpace_head _ hx hxs]
  have hr : (x ++ [' ']).reverse = ' ' :: x.reverse := by simp
  have hsp : isSpace ' ' = true := by decide
  rw [hr, dropWhile_cons_of_pos hsp,
    dropWhile_isSpace_id (by intro c hc; exact hxs c (by simpa using hc))]
  simp

theorem dropPrefix?_self_append (p b : Str) : dropPrefix? p (p ++ b) = some b := by
  induction p with
  | nil => cases b <;> rfl
  | cons x xs ih => simp [dropPrefix?, ih]

/-- `strings.Contains(a + sub + b, sub)` -/
theorem contains_mid (sub a b : Str) (hsub : sub ≠ []) : Go.contains sub (a ++ sub ++ b) = true := by
  induction a with
  | nil =>
    cases sub with
    | nil => exact absurd rfl hsub
    | cons p ps =>
      have h := dropPrefix?_self_append (p :: ps) b
      simp only [nil_append, cons_append] at h ⊢
      unfold Go.contains hasPrefix
      rw [h]; rfl
  | cons x xs ih =>
    simp only [cons_append] at ih ⊢
    unfold Go.contains
    rw [ih]; simp

/-- splitting: a block without the separator's first character, then the separator -/
theorem splitOnAux_block (p : Char) (ps a b : Str) (hp : p ∉ a) :
    ∀ (fuel : Nat) (acc : Str), a.length < fuel →
      splitOnAux (p :: ps) fuel (a ++ (p :: ps) ++ b) acc
        = (acc.reverse ++ a) :: splitOnAux (p :: ps) (fuel - a.length - 1) b [] := by
  induction a with
  | nil =>
    intro fuel acc hf
    obtain ⟨f, rfl⟩ : ∃ f, fuel = f + 1 := ⟨fuel - 1, by simp at hf; omega⟩
    have h := dropPrefix?_self_append (p :: ps) b
    simp only [nil_append, cons_append] at h ⊢
    conv => lhs; unfold splitOnAux
    simp only [h]
    simp
  | cons x xs ih =>
    intro fuel acc hf
    obtain ⟨f, rfl⟩ : ∃ f, fuel = f + 1 := ⟨fuel - 1, by simp at hf; omega⟩
    have hx : ¬ p = x := fun e => hp (by simp [e])
    have hxs : p ∉ xs := fun e => hp (by simp [e])
    have hd : dropPrefix? (p :: ps) (x :: (xs ++ (p :: ps) ++ b)) = none := by
      simp [dropPrefix?, hx]
    have hf' : xs.length < f := by simp at hf; omega
    simp only [cons_append]
    conv => lhs; unfold splitOnAux
    simp only [hd]
    rw [ih hxs f (x :: acc) hf']
    simp

/-- splitting: a final block without the separator's first character -/
theorem splitOnAux_last (p : Char) (ps b : Str) (hp : p ∉ b) :
    ∀ (fuel : Nat) (acc : Str), b.length < fuel →
      splitOnAux (p :: ps) fuel b acc = [acc.reverse ++ b] := by
  induction b with
  | nil =>
    intro fuel acc hf
    obtain ⟨f, rfl⟩ : ∃ f, fuel = f + 1 := ⟨fuel - 1, by simp at hf; omega⟩
    simp [splitOnAux]
  | cons x xs ih =>
    intro fuel acc hf
    obtain ⟨f, rfl⟩ : ∃ f, fuel = f + 1 := ⟨fuel - 1, by simp at hf; omega⟩
    have hx : ¬ p = x := fun e => hp (by simp [e])
    have hxs : p ∉ xs := fun e => hp (by simp [e])
    have hd : dropPrefix? (p :: ps) (x :: xs) = none := by simp [dropPrefix?, hx]
    have hf' : xs.length < f := by simp at hf; omega
    conv => lhs; unfold splitOnAux
    simp only [hd]
    rw [ih hxs f (x :: acc) hf']
    simp

/-- `strings.Split(a + sep + b, sep)` when neither block has the separator's first character -/
theorem splitOn_two (p : Char) (ps a b : Str) (ha : p ∉ a) (hb : p ∉ b) :
    Go.splitOn (p :: ps) (a ++ (p :: ps) ++ b) = [a, b] := by
  unfold Go.splitOn
  have he : (p :: ps).isEmpty = false := rfl
  simp only [he, Bool.false_eq_true, ↓reduceIte]
  rw [splitOnAux_block p ps a b ha _ [] (by simp; omega),
    splitOnAux_last p ps b hb _ [] (by simp; omega)]
  simp

theorem fieldsAux_noSpace (w : Str) (hw : ∀ c ∈ w, isSpace c = false) :
    ∀ acc : Str, fieldsAux w acc = if (acc.reverse ++ w).isEmpty then [] else [acc.reverse ++ w] := by
  induction w with
  | nil => intro acc; simp [fieldsAux]
  | cons x xs ih =>
    intro acc
    have hx : isSpace x = false := hw x (by simp)
    have hxs : ∀ c ∈ xs, isSpace c = false := fun c hc => hw c (by simp [hc])
    conv => lhs; unfold fieldsAux
    simp only [hx, Bool.false_eq_true, ↓reduceIte]
    rw [ih hxs (x :: acc)]
    simp

/-- `strings.Fields(" " + w)` for a non-empty word -/
theorem fields_space_word (w : Str) (hne : w ≠ []) (hw : ∀ c ∈ w, isSpace c = false) :
    fields (' ' :: w) = [w] := by
  have hsp : isSpace ' ' = true := by decide
  unfold fields
  conv => lhs; unfold fieldsAux
  simp only [hsp, ↓reduceIte, isEmpty_nil]
  rw [fieldsAux_noSpace w hw []]
  cases w with
  | nil => exact absurd rfl hne
  | cons a as => simp

/-! ### the characters of a formatted time -/

/-- digit, `:` or `,` -/
def TimeChar (c : Char) : Prop := (∃ k, k < 10 ∧ c = digitChar k) ∨ c = ':' ∨ c = ','

theorem TimeChar.noSpace {c : Char} (h : TimeChar c) : isSpace c = false := by
  rcases h with ⟨k, hk, rfl⟩ | rfl | rfl
  · exact isSpace_digitChar hk
  · decide
  · decide

theorem TimeChar.ne_minus {c : Char} (h : TimeChar c) : c ≠ '-' := by
  rcases h with ⟨k, hk, rfl⟩ | rfl | rfl
  · exact fun e => (digitChar_ne_minus hk).mp e
  · decide
  · decide

theorem TimeChar.ne_lf {c : Char} (h : TimeChar c) : c ≠ '\n' := by
  intro e; subst e
  have := h.noSpace
  revert this; decide

theorem TimeChar.ne_cr {c : Char} (h : TimeChar c) : c ≠ '\r' := by
  intro e; subst e
  have := h.noSpace
  revert this; decide

theorem canon3_timeChar (h m s f : Nat) (hh : h < 100) (hm : m < 100) (hs : s < 100) (hf : f < 1000) :
    ∀ c ∈ C16.canon3 h m s f ',', TimeChar c := by
  unfold C16.canon3
  intro c hc
  simp only [mem_append, mem_cons] at hc
  rcases hc with ((hc | hc | hc) | hc | hc) | hc | hc
  · exact Or.inl (digitStr_dd hh c hc)
  · exact Or.inr (Or.inl hc)
  · exact Or.inl (digitStr_dd hm c hc)
  · exact Or.inr (Or.inl hc)
  · exact Or.inl (digitStr_dd hs c hc)
  · exact Or.inr (Or.inr hc)
  · exact Or.inl (digitStr_ddd hf c hc)

theorem canon3_ne_nil (h m s f : Nat) (sep : Char) : C16.canon3 h m s f sep ≠ [] := by
  unfold C16.canon3 dd; simp

theorem formatSRT_timeChar (t : Int) (h0 : 0 ≤ t) (h1 : t < 360000000000000) :
    ∀ c ∈ Duration.formatSRT t, TimeChar c := by
  obtain ⟨h, m, s, f, hh, hm, hs, hf, hfmt, _⟩ := C16.format_shape3 t ',' h0 h1
  unfold Duration.formatSRT
  rw [hfmt]
  exact canon3_timeChar h m s f hh (by omega) (by omega) hf

theorem formatSRT_ne_nil (t : Int) (h0 : 0 ≤ t) (h1 : t < 360000000000000) :
    Duration.formatSRT t ≠ [] := by
  obtain ⟨h, m, s, f, _, _, _, _, hfmt, _⟩ := C16.format_shape3 t ',' h0 h1
  unfold Duration.formatSRT
  rw [hfmt]
  exact canon3_ne_nil h m s f ','

theorem formatSRT_noSpace (t : Int) (h0 : 0 ≤ t) (h1 : t < 360000000000000) :
    ∀ c ∈ Duration.formatSRT t, isSpace c = false :=
  fun c hc => (formatSRT_timeChar t h0 h1 c hc).noSpace

theorem formatSRT_no_minus (t : Int) (h0 : 0 ≤ t) (h1 : t < 360000000000000) :
    '-' ∉ Duration.formatSRT t :=
  fun hc => (formatSRT_timeChar t h0 h1 _ hc).ne_minus rfl

/-- the line is `left ++ "-->" ++ right` -/
theorem timingLine_eq (s e : Int) :
    timingLine s e = (Duration.formatSRT s ++ [' ']) ++ arrow ++ (' ' :: Duration.formatSRT e) := by
  unfold timingLine arrow
  simp

theorem timingLine_eq' (s e : Int) :
    timingLine s e = Duration.formatSRT s ++ " --> ".toList ++ Duration.formatSRT e := rfl

section
variable (s e : Int) (hs0 : 0 ≤ s) (hs1 : s < 360000000000000) (he0 : 0 ≤ e) (he1 : e < 360000000000000)
include hs0 hs1 he0 he1

/-! ### 1. trimming -/

theorem trimSpace_timingLine : trimSpace (timingLine s e) = timingLine s e := by
  rw [timingLine_eq']
  exact trimSpace_wrap _ _ _ (formatSRT_ne_nil s hs0 hs1) (formatSRT_ne_nil e he0 he1)
    (formatSRT_noSpace s hs0 hs1) (formatSRT_noSpace e he0 he1)

/-! ### 2. the arrow is found -/

omit hs0 hs1 he0 he1 in
theorem contains_arrow_timingLine : Go.contains arrow (timingLine s e) = true := by
  rw [timingLine_eq]
  exact contains_mid arrow _ _ (by decide)

/-! ### 3. the split at the arrow -/

theorem splitOn_timingLine :
    Go.splitOn arrow (timingLine s e) = [Duration.formatSRT s ++ [' '], ' ' :: Duration.formatSRT e] := by
  rw [timingLine_eq]
  have ha : arrow = '-' :: ['-', '>'] := rfl
  rw [ha]
  apply splitOn_two
  · intro hc
    simp only [mem_append, mem_cons, not_mem_nil, or_false] at hc
    rcases hc with hc | hc
    · exact formatSRT_no_minus s hs0 hs1 hc
    · exact absurd hc (by decide)
  · intro hc
    simp only [mem_cons] at hc
    rcases hc with hc | hc
    · exact absurd hc (by decide)
    · exact formatSRT_no_minus e he0 he1 hc

/-! ### 4. the end token -/

omit hs0 hs1 in
theorem fields_right : fields (' ' :: Duration.formatSRT e) = [Duration.formatSRT e] :=
  fields_space_word _ (formatSRT_ne_nil e he0 he1) (formatSRT_noSpace e he0 he1)

end

/-! ### 5./6. the two parses -/

/-- the reader's parse of a canonical rendering followed by one space -/
theorem parse_canon3_space (h m s f : Nat) (hh : h < 100) (hm : m < 100) (hs : s < 100) (hf : f < 1000) :
    Duration.parse (C16.canon3 h m s f ',' ++ [' ']) ',' 3
      = some ((f : Int) * Duration.nsPerMs + (s : Int) * Duration.nsPerS + (m : Int) * Duration.nsPerMin
          + (h : Int) * Duration.nsPerH) := by
  have hsepF : ',' ∉ ddd f ++ [' '] := by
    intro hc
    simp only [mem_append, mem_cons, not_mem_nil, or_false] at hc
    rcases hc with hc | hc
    · exact (digitStr_ddd hf).not_mem (Or.inr (Or.inr rfl)) hc
    · exact absurd hc (by decide)
  have hshape : C16.canon3 h m s f ',' ++ [' ']
      = (dd h ++ ':' :: dd m ++ ':' :: dd s) ++ ',' :: (ddd f ++ [' ']) := by
    unfold C16.canon3; simp
  have hdddne : ddd f ≠ [] := by unfold ddd; simp
  unfold Duration.parse
  rw [hshape, splitC_append _ (C16.hms_not_mem h m s hh hm hs ',' (Or.inr rfl)), splitC_not_mem hsepF]
  simp only [length_cons, length_nil, ge_iff_le, Nat.le_refl, ↓reduceIte, getLast?_cons_cons,
    getLast?_singleton, Option.getD_some, dropLast_cons_cons, dropLast_singleton, join]
  rw [trimSpace_append_space _ hdddne (digitStr_ddd hf).noSpace, atoi_ddd hf]
  have hl : (ddd f).length = 3 := rfl
  simp only [hl, Nat.lt_irrefl, ↓reduceIte, Nat.sub_self, Int.pow_zero, Int.mul_one]
  rw [trimSpace_id (C16.hms_noSpace h m s hh hm hs), C16.hms_split h m s hh hm hs]
  simp only
  rw [trimSpace_id (digitStr_dd hs).noSpace, trimSpace_id (digitStr_dd hm).noSpace,
    trimSpace_id (digitStr_dd hh).noSpace, atoi_dd hs, atoi_dd hm, atoi_dd hh]
  have hl2 : (dd h).length = 2 := rfl
  simp [hl2]

theorem parseSRT_left (s : Int) (hs0 : 0 ≤ s) (hs1 : s < 360000000000000) :
    Duration.parseSRT (Duration.formatSRT s ++ [' ']) = some (s - s % 1000000) := by
  obtain ⟨h, m, sec, f, hh, hm, hs, hf, hfmt, hval⟩ := C16.format_shape3 s ',' hs0 hs1
  unfold Duration.parseSRT Duration.formatSRT
  rw [hfmt, parse_canon3_space h m sec f hh (by omega) (by omega) hf, hval]

theorem parseSRT_right (e : Int) (he0 : 0 ≤ e) (he1 : e < 360000000000000) :
    Duration.parseSRT (Duration.formatSRT e) = some (e - e % 1000000) := C01.timing_values e he0 he1

/-! ### 7. one physical line -/

section
variable (s e : Int) (hs0 : 0 ≤ s) (hs1 : s < 360000000000000) (he0 : 0 ≤ e) (he1 : e < 360000000000000)
include hs0 hs1 he0 he1

theorem timingLine_mem {c : Char} (hc : c ∈ timingLine s e) : TimeChar c ∨ c = ' ' ∨ c = '-' ∨ c = '>' := by
  rw [timingLine_eq'] at hc
  simp only [mem_append, String.toList] at hc
  rcases hc with (hc | hc) | hc
  · exact Or.inl (formatSRT_timeChar s hs0 hs1 c hc)
  · have : c ∈ [' ', '-', '-', '>', ' '] := hc
    simp only [mem_cons, not_mem_nil, or_false] at this
    rcases this with h | h | h | h | h <;> simp [h]
  · exact Or.inl (formatSRT_timeChar e he0 he1 c hc)

theorem no_newline_timingLine : '\n' ∉ timingLine s e := by
  intro hc
  rcases timingLine_mem s e hs0 hs1 he0 he1 hc with h | h | h | h
  · exact h.ne_lf rfl
  · exact absurd h (by decide)
  · exact absurd h (by decide)
  · exact absurd h (by decide)

theorem no_cr_timingLine : '\r' ∉ timingLine s e := by
  intro hc
  rcases timingLine_mem s e hs0 hs1 he0 he1 hc with h | h | h | h
  · exact h.ne_cr rfl
  · exact absurd h (by decide)
  · exact absurd h (by decide)
  · exact absurd h (by decide)

omit he0 he1 in
theorem timingLine_ne_nil : timingLine s e ≠ [] := by
  rw [timingLine_eq']
  have := formatSRT_ne_nil s hs0 hs1
  simp [this]

end

/-! ### 8. the reader's step on a timing line -/

/-- the state after the reader has consumed the timing line of a cue starting at `s`, ending at
    `e` (index candidate and flushed previous cue exactly as in `SRT.step`) -/
def afterTiming (st : St) (s e : Int) : St :=
  let (index, lines) :=
    match st.cur.lines.getLast? with
    | none => (([] : Str), st.cur.lines)
    | some l => if l.str ≠ [] then (l.str, st.cur.lines.dropLast) else ([], st.cur.lines)
  let lines := stripLines lines
  let prev := { st.cur with lines := lines }
  let done := if st.curListed then st.done ++ [prev] else st.done
  let idx : Int := if index ≠ [] then atoiLoose index else 0
  { done := done, cur := { index := idx, startAt := s - s % 1000000, endAt := e - e % 1000000, lines := [] },
    curListed := true, sa := {}, lineNum := st.lineNum + 1 }

theorem step_timingLine (st : St) (s e : Int)
    (hs0 : 0 ≤ s) (hs1 : s < 360000000000000) (he0 : 0 ≤ e) (he1 : e < 360000000000000)
    (hn : 0 < st.lineNum) :
    step st (some (timingLine s e)) = .ok (afterTiming st s e) := by
  have hn1 : ¬ (st.lineNum + 1 = 1) := by omega
  unfold step afterTiming
  simp only [trimSpace_timingLine s e hs0 hs1 he0 he1, hn1, ↓reduceIte,
    contains_arrow_timingLine s e, splitOn_timingLine s e hs0 hs1 he0 he1,
    fields_right e he0 he1, parseSRT_left s hs0 hs1, parseSRT_right e he0 he1]
  rfl

/-! ### non-vacuity: one concrete instance -/

example : timingLine 1000000000 2500000123 = "00:00:01,000 --> 00:00:02,500".toList := by decide

example : step { lineNum := 1 } (some (timingLine 1000000000 2500000123))
    = .ok (afterTiming { lineNum := 1 } 1000000000 2500000123) :=
  step_timingLine _ _ _ (by decide) (by decide) (by decide) (by decide) (by decide)

example : (afterTiming { lineNum := 1 } 1000000000 2500000123).cur.endAt = 2500000000 := by decide

end SRTTiming
end Astisub
