import Astisub.Lemmas.SSARead2Defs
import Astisub.Lemmas.SRTBytes
import Astisub.Driver.SSA

/-!
# Lemmas/SSARead2Bytes — bytes → lines: the scanner model on the bytes of a UTF-8 text delivers the decoder's lines
-/

namespace Astisub
namespace SSAR
open Go SSA SRTDoc

/-! ## a successful decoding: the bytes are the encoding of the text -/

theorem utf8_of_decodeLine (doc : List UInt8) (text : Str) (h : Driver.decodeLine doc = some text) :
    doc = Driver.utf8 text := by
  unfold Driver.decodeLine at h
  rw [String.fromUTF8?] at h
  split at h
  · rename_i hv
    simp only [Option.map_some, Option.some.injEq] at h
    subst h
    simp [Driver.utf8, byteArray_toList, String.fromUTF8]
  · simp at h

/-! ## `breakEOL` / `splitLine` / `linesOf` at a CR and at the end of the input -/

theorem breakEOL_cr (p rest : List UInt8) (hp : ∀ b ∈ p, b ≠ 10 ∧ b ≠ 13) :
    breakEOL (p ++ 13 :: rest) = (p, 13 :: rest) := by
  induction p with
  | nil => simp [breakEOL, isEOL]
  | cons c cs ih =>
    have hc := hp c (by simp)
    have := ih (fun b hb => hp b (by simp [hb]))
    simp [breakEOL, isEOL, hc.1, hc.2, this]

theorem breakEOL_none (p : List UInt8) (hp : ∀ b ∈ p, b ≠ 10 ∧ b ≠ 13) :
    breakEOL p = (p, []) := by
  induction p with
  | nil => simp [breakEOL]
  | cons c cs ih =>
    have hc := hp c (by simp)
    have := ih (fun b hb => hp b (by simp [hb]))
    simp [breakEOL, isEOL, hc.1, hc.2, this]

theorem splitLine_crlf (p rest : List UInt8) (hp : ∀ b ∈ p, b ≠ 10 ∧ b ≠ 13) :
    splitLine true (p ++ 13 :: 10 :: rest) true = .tok (p.length + 2) p := by
  unfold splitLine
  rw [breakEOL_cr p _ hp]
  simp

theorem splitLine_cr (p rest : List UInt8) (hp : ∀ b ∈ p, b ≠ 10 ∧ b ≠ 13)
    (hr : rest.head? ≠ some 10) :
    splitLine true (p ++ 13 :: rest) true = .tok (p.length + 1) p := by
  unfold splitLine
  rw [breakEOL_cr p _ hp]
  cases rest with
  | nil => simp
  | cons c r =>
    have : c ≠ 10 := by simpa using hr
    simp [this]

theorem splitLine_last (p : List UInt8) (hp : ∀ b ∈ p, b ≠ 10 ∧ b ≠ 13) (hne : p ≠ []) :
    splitLine true p true = .tok p.length p := by
  unfold splitLine
  rw [breakEOL_none p hp]
  simp [hne]

/-- a line without CR/LF followed by CR LF is the first line; the scan resumes after the LF -/
theorem linesOf_crlf (p rest : List UInt8) (hp : ∀ b ∈ p, b ≠ 10 ∧ b ≠ 13) :
    linesOf (p ++ 13 :: 10 :: rest) = p :: linesOf rest := by
  unfold linesOf
  rw [drain_tok (splitLine_crlf p rest hp)]
  have : p ++ 13 :: 10 :: rest = (p ++ [13, 10]) ++ rest := by simp
  rw [this, List.drop_left' (by simp)]

/-- a line without CR/LF followed by a CR that no LF follows is the first line;
    the scan resumes after the CR -/
theorem linesOf_cr (p rest : List UInt8) (hp : ∀ b ∈ p, b ≠ 10 ∧ b ≠ 13)
    (hr : rest.head? ≠ some 10) :
    linesOf (p ++ 13 :: rest) = p :: linesOf rest := by
  unfold linesOf
  rw [drain_tok (splitLine_cr p rest hp hr)]
  simp

/-- a final non-empty line without terminator is a line -/
theorem linesOf_last (p : List UInt8) (hp : ∀ b ∈ p, b ≠ 10 ∧ b ≠ 13) (hne : p ≠ []) :
    linesOf p = [p] := by
  unfold linesOf
  rw [drain_tok (splitLine_last p hp hne)]
  simp
  exact linesOf_nil

/-! ## UTF-8 facts -/

theorem utf8_cons (c : Char) (s : Str) :
    Driver.utf8 (c :: s) = String.utf8EncodeChar c ++ Driver.utf8 s := by
  simp [utf8_eq_flatMap]

theorem utf8_cr_cons (s : Str) : Driver.utf8 ('\r' :: s) = 13 :: Driver.utf8 s := by
  rw [utf8_cons]; rfl

theorem utf8_lf_cons (s : Str) : Driver.utf8 ('\n' :: s) = 10 :: Driver.utf8 s := by
  rw [utf8_cons]; rfl

theorem encodeChar_ne_nil (c : Char) : String.utf8EncodeChar c ≠ [] := by
  intro h
  have := String.length_utf8EncodeChar c
  rw [h] at this
  have hpos := Char.utf8Size_pos c
  simp only [List.length_nil] at this
  omega

theorem utf8_ne_nil (s : Str) (h : s ≠ []) : Driver.utf8 s ≠ [] := by
  cases s with
  | nil => exact absurd rfl h
  | cons c r =>
    rw [utf8_cons]
    simp [encodeChar_ne_nil c]

/-- the encoding of a text that does not start with LF does not start with the byte 10 -/
theorem utf8_head_ne_lf (s : Str) (h : ∀ r, s = '\n' :: r → False) :
    (Driver.utf8 s).head? ≠ some 10 := by
  cases s with
  | nil => simp [utf8_nil]
  | cons c r =>
    rw [utf8_cons]
    intro hh
    have hm : (10 : UInt8) ∈ String.utf8EncodeChar c := by
      cases he : String.utf8EncodeChar c with
      | nil => exact absurd he (encodeChar_ne_nil c)
      | cons b bs =>
        rw [he] at hh
        simp at hh
        simp [hh]
    exact h r (by rw [lf_mem_encodeChar hm])

/-! ## the scanner on the bytes of a text -/

theorem linesOf_utf8_splitLines (s acc : Str) (hacc : '\n' ∉ acc ∧ '\r' ∉ acc) :
    linesOf (Driver.utf8 acc.reverse ++ Driver.utf8 s) = (Spec.SSA.splitLines s acc).map Driver.utf8 := by
  induction s, acc using Spec.SSA.splitLines.induct with
  | case1 acc he =>
    have : acc = [] := by simpa using he
    subst this
    simp [Spec.SSA.splitLines, utf8_nil, linesOf_nil]
  | case2 acc he =>
    have hne : acc.reverse ≠ [] := by simpa using he
    have hp := utf8_no_eol acc.reverse (by simpa using hacc)
    rw [utf8_nil, List.append_nil, linesOf_last _ hp (utf8_ne_nil _ hne)]
    simp [Spec.SSA.splitLines, he]
  | case3 rest acc ih =>
    have hp := utf8_no_eol acc.reverse (by simpa using hacc)
    rw [utf8_cr_cons, utf8_lf_cons, linesOf_crlf _ _ hp, Spec.SSA.splitLines]
    have := ih (by simp)
    simp only [List.reverse_nil, utf8_nil, List.nil_append] at this
    rw [this]; simp
  | case4 rest acc ih =>
    have hp := utf8_no_eol acc.reverse (by simpa using hacc)
    rw [utf8_lf_cons, linesOf_lf _ _ hp, Spec.SSA.splitLines]
    have := ih (by simp)
    simp only [List.reverse_nil, utf8_nil, List.nil_append] at this
    rw [this]; simp
  | case5 rest acc hr ih =>
    have hp := utf8_no_eol acc.reverse (by simpa using hacc)
    rw [utf8_cr_cons, linesOf_cr _ _ hp (utf8_head_ne_lf rest hr), Spec.SSA.splitLines.eq_4 _ _ hr]
    have := ih (by simp)
    simp only [List.reverse_nil, utf8_nil, List.nil_append] at this
    rw [this]; simp
  | case6 c rest acc h1 h2 h3 ih =>
    rw [Spec.SSA.splitLines.eq_5 _ _ _ h1 h2 h3]
    have hc : '\n' ∉ c :: acc ∧ '\r' ∉ c :: acc := by
      refine ⟨?_, ?_⟩
      · simp only [List.mem_cons, not_or]; exact ⟨fun e => h2 e.symm, hacc.1⟩
      · simp only [List.mem_cons, not_or]; exact ⟨fun e => h3 e.symm, hacc.2⟩
    rw [← ih hc]
    congr 1
    rw [List.reverse_cons, utf8_append, List.append_assoc]
    congr 1
    exact utf8_append [c] rest

/-- **Bytes to lines.** If the whole document is valid UTF-8 (text `text`), then cutting the bytes into lines with
    the scanner model (`Go.linesOf`: LF, CRLF and lone CR end a line) and decoding every line gives exactly the
    lines `Spec.SSA.splitLines` cuts `text` into. -/
theorem docLines_of_decode (doc : List UInt8) (text : Str) (h : Driver.decodeLine doc = some text) :
    Driver.docLines doc = (Spec.SSA.splitLines text []).map some := by
  have hd := utf8_of_decodeLine doc text h
  subst hd
  have := linesOf_utf8_splitLines text [] (by simp)
  simp only [List.reverse_nil, utf8_nil, List.nil_append] at this
  unfold Driver.docLines
  rw [this, List.map_map]
  apply List.map_congr_left
  intro l _
  exact decodeLine_utf8 l

end SSAR
end Astisub
