import Astisub.Model.TTML

/-!
# Lemmas/TTMLDocXml — the ASSUMED CONTRACT of `encoding/xml` between `TTML.write` and `TTML.read`

The writer model ends at the element tree handed to `xml.Encoder` (`TTML.write : Subs → Option (List WTok)`,
names as written in the struct tags: `tts:color`, `xml:id`, `ttm:title`).  The reader model starts at
what `xml.Decoder.Decode(&TTMLIn)` produced (`TTML.read : Option TIn → Res Subs`): the fields of
`TTMLIn`, and for every `<p>` the token list of `"<p>" + stripIndent(innerxml) + "</p>"`.
So the two models do not meet at a token list; they meet at `encoding/xml` used in both
directions.  `unmarshal` below is that composition — `Marshal` (with any indentation) followed by
`Decode` into `TTMLIn` — as a function of the writer's token sequence.  **It is an assumption about
`encoding/xml`, not a theorem**; it is kept structural:

* element and attribute names are matched by their local name only (the struct tags of `TTMLIn`
  carry no name space): `localName "tts:color" = "color"`; the fields are found by their path
  `tt`, `head>metadata>title|copyright`, `head>styling>style`, `head>layout>region`, `body>div>p`;
* a string field takes the value of the last attribute with its name (`""` when absent), an `int`
  field is parsed (`parseIntAttr`), `begin` / `end` collect every value (one `UnmarshalText` call
  each), the embedded `TTMLInStyleAttributes` and `style` are filled exactly as the reader model
  fills a `TTMLInItem` (`TTML.itemOfStart`, which is the model of the same `encoding/xml` code path);
* character data of `title` / `copyright` is concatenated; all other character data outside `<p>`
  is ignored (so is the white space `Encoder.Indent` adds);
* the inner XML of a `<p>` is a byte string that is **not modelled**: it is `ix toks` for an
  arbitrary function `ix` of the paragraph's tokens (every theorem is for all `ix`); the harness
  computes `stripped = stripIndent inner`, and the contract is that tokenising
  `"<p>" + stripped + "</p>"` yields `<p>`, the paragraph's own tokens without indentation and with
  the prefixes unresolved (no name-space declaration is in scope: `Space` = the prefix, `xml` ↦ its
  URI), `</p>` — `rawTok`.  Character data is delivered unchanged; this is true of XML-legal
  characters only (`Encoder.EscapeText` replaces the others by U+FFFD), see `TTMLDoc.xmlCarries`.

What the harness checks of this on every run: the `ttml.write` stream compares the document-level
token list of the written bytes with `Driver.TTMLD.resolve (TTML.write s)` (same tokens as here, with
resolved name spaces), and feeds the `TTMLIn` view of the same bytes to `TTML.read`.
-/

namespace Astisub
namespace TTMLDoc
open Go TTML

/-- `prefix:local` ↦ (`prefix`, `local`); no colon: no prefix -/
def splitName (n : Str) : Str × Str :=
  match splitC ':' n with
  | [p, l] => (p, l)
  | _ => ([], n)

def localName (n : Str) : Str := (splitName n).2

def nsXML : Str := "http://www.w3.org/XML/1998/namespace".toList

/-- the `Space` of a name whose prefix is not declared in the text being tokenised -/
def rawSpace (p : Str) : Str := if p = "xml".toList then nsXML else p

def rawAttr (kv : Str × Str) : Str × Str × Str := (rawSpace (splitName kv.1).1, (splitName kv.1).2, kv.2)

/-- a token of the writer's tree as `xml.Decoder.Token()` reports it when no declaration is in scope -/
def rawTok : WTok → XTok
  | .start n a => .start (rawSpace (splitName n).1) (splitName n).2 (a.map rawAttr)
  | .stop n => .stop (rawSpace (splitName n).1) (splitName n).2
  | .text s => .text s

/-- a string field: every attribute with this local name is copied into it in turn (the last one stays);
    `""` when there is none -/
def lastAttr (a : List (Str × Str)) (name : String) : Str :=
  a.foldl (fun acc kv => if localName kv.1 = name.toList then kv.2 else acc) []

/-- every value of the attributes with this local name, in order -/
def allAttr (a : List (Str × Str)) (name : String) : List Str :=
  (a.filter fun kv => localName kv.1 = name.toList).map (·.2)

/-- `TTMLInStyle` / `TTMLInRegion` of a start tag; `none` = `zIndex` is not an integer (decoding fails) -/
def mkDef (a : List (Str × Str)) : Option InDef :=
  (itemOfStart [] (a.map rawAttr) {}).map fun it => { id := lastAttr a "id", style := it.style, attrs := it.attrs }

/-- `TTMLInSubtitle` of a `<p>` start tag, its tokens still to come -/
def mkSub (a : List (Str × Str)) : Option InSub :=
  (itemOfStart [] (a.map rawAttr) {}).map fun it =>
    { begins := allAttr a "begin", ends := allAttr a "end", id := lastAttr a "id", region := lastAttr a "region",
      style := it.style, attrs := it.attrs, inner := [], stripped := [], toks := [], toksOk := true }

inductive Ctx where
  | root | style | region | title | copyright | para | other
  deriving DecidableEq, Repr

/-- which field of `TTMLIn` the element with this path (local names, innermost first) goes to:
    `tt`, `head>styling>style`, `head>layout>region`, `head>metadata>title`, `head>metadata>copyright`, `body>div>p`
    (the names are spelt as character lists: `String.toList` of a literal is slow in the kernel) -/
def ctxOf (path : List Str) : Ctx :=
  if path = [['t', 't']] then .root
  else if path = [['s', 't', 'y', 'l', 'e'], ['s', 't', 'y', 'l', 'i', 'n', 'g'], ['h', 'e', 'a', 'd'], ['t', 't']] then .style
  else if path = [['r', 'e', 'g', 'i', 'o', 'n'], ['l', 'a', 'y', 'o', 'u', 't'], ['h', 'e', 'a', 'd'], ['t', 't']] then .region
  else if path = [['t', 'i', 't', 'l', 'e'], ['m', 'e', 't', 'a', 'd', 'a', 't', 'a'], ['h', 'e', 'a', 'd'], ['t', 't']] then .title
  else if path = [['c', 'o', 'p', 'y', 'r', 'i', 'g', 'h', 't'], ['m', 'e', 't', 'a', 'd', 'a', 't', 'a'], ['h', 'e', 'a', 'd'], ['t', 't']] then .copyright
  else if path = [['p'], ['d', 'i', 'v'], ['b', 'o', 'd', 'y'], ['t', 't']] then .para
  else .other

example : ctxOf ["style".toList, "styling".toList, "head".toList, "tt".toList] = .style := by decide
example : ctxOf ["copyright".toList, "metadata".toList, "head".toList, "tt".toList] = .copyright := by decide
example : ctxOf ["p".toList, "div".toList, "body".toList, "tt".toList] = .para := by decide

/-- decoder state -/
structure DSt where
  path : List Str := []
  finished : Bool := false
  framerate : Int := 0
  tickrate : Int := 0
  lang : Str := []
  title : Str := []
  copyright : Str := []
  regions : List InDef := []
  styles : List InDef := []
  subs : List InSub := []
  buf : Str := []
  cur : Option InSub := none
  deriving Inhabited

def pStart : XTok := .start [] "p".toList []
def pStop : XTok := .stop [] "p".toList

/-- one token of the tree; `ix` = the (unmodelled) inner XML bytes of a paragraph as a function of its tokens -/
def step (ix : List XTok → Str) (st : DSt) (t : WTok) : Option DSt :=
  if st.finished then some st else
  match st.cur with
  | some p =>
    match t with
    | .start n _ => some { st with path := localName n :: st.path, cur := some { p with toks := p.toks ++ [rawTok t] } }
    | .text _ => some { st with cur := some { p with toks := p.toks ++ [rawTok t] } }
    | .stop _ =>
      if st.path.length = 4 then
        some { st with path := st.path.tail, cur := none,
                       subs := st.subs ++ [{ p with inner := ix p.toks, stripped := stripIndent (ix p.toks),
                                                    toks := pStart :: p.toks ++ [pStop] }] }
      else some { st with path := st.path.tail, cur := some { p with toks := p.toks ++ [rawTok t] } }
  | none =>
    match t with
    | .start n a =>
      let path := localName n :: st.path
      match ctxOf path with
      | .root =>
        match parseIntAttr (lastAttr a "frameRate"), parseIntAttr (lastAttr a "tickRate") with
        | some fr, some tr => some { st with path := path, framerate := fr, tickrate := tr, lang := lastAttr a "lang" }
        | _, _ => none
      | .style => (mkDef a).map fun d => { st with path := path, styles := st.styles ++ [d] }
      | .region => (mkDef a).map fun d => { st with path := path, regions := st.regions ++ [d] }
      | .title => some { st with path := path, buf := [] }
      | .copyright => some { st with path := path, buf := [] }
      | .para => (mkSub a).map fun p => { st with path := path, cur := some p }
      | .other => if st.path.isEmpty then none else some { st with path := path }
    | .text s =>
      match ctxOf st.path with
      | .title => some { st with buf := st.buf ++ s }
      | .copyright => some { st with buf := st.buf ++ s }
      | _ => some st
    | .stop _ =>
      match st.path with
      | [] => none
      | _ :: rest =>
        match ctxOf st.path with
        | .title => some { st with path := rest, title := st.buf }
        | .copyright => some { st with path := rest, copyright := st.buf }
        | _ => some { st with path := rest, finished := rest.isEmpty }

def run (ix : List XTok → Str) : List WTok → DSt → Option DSt
  | [], st => some st
  | t :: ts, st =>
    match step ix st t with
    | some st' => run ix ts st'
    | none => none

def tinOf (st : DSt) : TIn :=
  { framerate := st.framerate, tickrate := st.tickrate, lang := st.lang, title := st.title, copyright := st.copyright,
    regions := st.regions, styles := st.styles, subs := st.subs }

/-- **The contract.** `xml.NewDecoder(bytes of Marshal(tree)).Decode(&TTMLIn)`; `none` = the decoder
    returns an error -/
def unmarshal (ix : List XTok → Str) (w : List WTok) : Option TIn :=
  match run ix w {} with
  | some st => if st.finished then some (tinOf st) else none
  | none => none

theorem run_append (ix : List XTok → Str) (a b : List WTok) (st : DSt) :
    run ix (a ++ b) st = (run ix a st).bind (run ix b) := by
  induction a generalizing st with
  | nil => rfl
  | cons t a ih =>
    simp only [List.cons_append, run]
    cases step ix st t with
    | none => rfl
    | some st' => exact ih st'

theorem run_append_some {ix : List XTok → Str} {a : List WTok} {st st' : DSt} (b : List WTok)
    (h : run ix a st = some st') : run ix (a ++ b) st = run ix b st' := by
  rw [run_append, h]; rfl

/-- XML-legal characters (`Char` of XML 1.0): what `Encoder.EscapeText` passes (escaped or not) -/
def xmlLegal (c : Char) : Bool :=
  let n := c.toNat
  n == 9 || n == 10 || n == 13 || (0x20 ≤ n && n ≤ 0xD7FF) || (0xE000 ≤ n && n ≤ 0xFFFD) || (0x10000 ≤ n && n ≤ 0x10FFFF)

end TTMLDoc
end Astisub
