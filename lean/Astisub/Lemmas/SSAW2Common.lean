import Astisub.Lemmas.SSAW2Defs

/-!
# Lemmas/SSAW2Common — how the decoder classifies the (trimmed) lines the writer emits
-/

namespace Astisub
namespace SSAW
open Go SSA SSAR List
open Spec.SSA (classify secKind)

/-- a trimmed `Header: content` line of the writer is a key/value line for the decoder -/
theorem classify_kvTrim (hdr content : Str) (hh : HeaderOK hdr) (hc : Trimmed content) :
    classify (kvTrim hdr content) = .kv hdr content := by
  have hkv := spec_keyValue_kvTrim hdr content hh hc
  obtain ⟨hne, _, _, _, hsemi⟩ := hh
  cases hdr with
  | nil => exact absurd rfl hne
  | cons x xs =>
    have hx : x ≠ ';' := fun e => hsemi (by rw [e]; rfl)
    unfold classify
    have e : kvTrim (x :: xs) content = x :: (xs ++ ':' :: (if content = [] then [] else ' ' :: content)) := rfl
    rw [e] at hkv ⊢
    split
    · rename_i rest heq
      injection heq with h1 _
      exact absurd h1 hx
    · rw [hkv]

/-- … and not a section header -/
theorem secKind_kvTrim (hdr content : Str) (hh : HeaderOK hdr) : secKind (kvTrim hdr content) = none := by
  obtain ⟨hne, _, _, hbr, _⟩ := hh
  cases hdr with
  | nil => exact absurd rfl hne
  | cons x xs =>
    have hx : x ≠ '[' := fun e => hbr (by rw [e]; rfl)
    have e : kvTrim (x :: xs) content = x :: (xs ++ ':' :: (if content = [] then [] else ' ' :: content)) := rfl
    rw [e]
    unfold secKind
    split
    · rename_i rest heq
      injection heq with h1 _
      exact absurd h1 hx
    · rfl

theorem kvTrim_ne_nil (hdr content : Str) : kvTrim hdr content ≠ [] := by
  unfold kvTrim
  simp

/-- a trimmed comment line of the writer is a comment for the decoder, with the same text -/
theorem classify_commentTrim (c : Str) (hc : Trimmed c) : classify (commentTrim c) = .comment c := by
  unfold commentTrim classify
  simp only
  rw [kvTrim_content c hc]

theorem secKind_commentTrim (c : Str) : secKind (commentTrim c) = none := rfl

/-- `TrimSpace` of a written comment line -/
theorem trimSpace_commentLine (c : Str) (hc : Trimmed c) : trimSpace ("; ".toList ++ c) = commentTrim c := by
  unfold commentTrim
  by_cases h0 : c = []
  · subst h0; decide
  · simp only [h0, ↓reduceIte]
    apply trimSpace_of_trimmed
    have e : "; ".toList ++ c = [] ++ ';' :: (' ' :: c) := rfl
    rw [e]
    apply trimmed_append_cons _ _ _ (by simp) (by decide)
    intro x hx
    cases c with
    | nil => exact absurd rfl h0
    | cons c0 cs =>
      rw [getLast?_cons_cons] at hx
      exact hc.2 x hx

end SSAW
end Astisub
