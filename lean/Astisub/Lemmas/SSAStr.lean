import Astisub.Lemmas.Str
import Astisub.Go.Numconv

/-!
# Lemmas/SSAStr — string facts the SSA round trips need

* `strconv.Itoa` produces a non-empty digit string (with an optional `-`) that `strconv.Atoi`
  reads back as the same number (all of `int64`);
* characters of `Itoa` output: no comma, no space;
* `strings.TrimSpace` is the identity exactly on strings whose first and last characters are not spaces;
* `strings.Split(strings.Join(ls, sep), sep) = ls` for a two-character separator that does not occur in the pieces.
-/

namespace Astisub
namespace Go
open List

/-! ### digits of `itoaNat` -/

theorem digitChar_sub48' {k : Nat} (h : k < 10) : (digitChar k).toNat - 48 = k := by
  rcases digitChar_lt h with h|h|h|h|h|h|h|h|h|h <;> subst h <;> decide

theorem natOfDigits_snoc (a : Str) (c : Char) : natOfDigits (a ++ [c]) = natOfDigits a * 10 + (c.toNat - 48) := by
  simp [natOfDigits, foldl_append]

theorem DigitStr.app {a b : Str} (ha : DigitStr a) (hb : DigitStr b) : DigitStr (a ++ b) := by
  intro c hc
  rcases mem_append.mp hc with h | h
  · exact ha c h
  · exact hb c h

theorem digitStr_single {k : Nat} (h : k < 10) : DigitStr [digitChar k] := by
  intro c hc
  simp at hc
  exact ⟨k, h, hc⟩

/-- what `itoaAux` computes: a non-empty digit string spelling `n`, put in front of the accumulator -/
theorem itoaAux_spec' : ∀ (fuel n : Nat) (acc : Str), n < fuel →
    ∃ ds : Str, itoaAux fuel n acc = ds ++ acc ∧ DigitStr ds ∧ ds ≠ [] ∧ natOfDigits ds = n := by
  intro fuel
  induction fuel with
  | zero => intro n acc h; omega
  | succ fuel ih =>
    intro n acc h
    by_cases h10 : n < 10
    · refine ⟨[digitChar n], by simp [itoaAux, h10], digitStr_single h10, by simp, ?_⟩
      simp [natOfDigits, digitChar_sub48' h10]
    · obtain ⟨ds, e, hd, hne, hv⟩ := ih (n / 10) (digitChar (n % 10) :: acc) (by omega)
      have hm : n % 10 < 10 := by omega
      refine ⟨ds ++ [digitChar (n % 10)], by simp [itoaAux, h10, e], hd.app (digitStr_single hm), by simp, ?_⟩
      rw [natOfDigits_snoc, hv, digitChar_sub48' hm]
      omega

theorem itoaNat_spec' (n : Nat) : DigitStr (itoaNat n) ∧ itoaNat n ≠ [] ∧ natOfDigits (itoaNat n) = n := by
  obtain ⟨ds, e, hd, hne, hv⟩ := itoaAux_spec' (n + 1) n [] (by omega)
  unfold itoaNat
  rw [e, append_nil]
  exact ⟨hd, hne, hv⟩

theorem digitStr_itoaNat (n : Nat) : DigitStr (itoaNat n) := (itoaNat_spec' n).1
theorem itoaNat_ne_nil' (n : Nat) : itoaNat n ≠ [] := (itoaNat_spec' n).2.1
theorem natOfDigits_itoaNat (n : Nat) : natOfDigits (itoaNat n) = n := (itoaNat_spec' n).2.2

theorem digitsVal_digitStr {s : Str} (h : DigitStr s) (acc : Nat) :
    digitsVal s acc = some (s.foldl (fun a c => a * 10 + (c.toNat - 48)) acc) := by
  induction s generalizing acc with
  | nil => rfl
  | cons c cs ih =>
    obtain ⟨k, hk, hc⟩ := h c (by simp)
    subst hc
    simp only [digitsVal, digitVal_digitChar hk, foldl_cons, digitChar_sub48' hk]
    exact ih (fun x hx => h x (by simp [hx])) _

theorem parseDigits_itoaNat' (n : Nat) : parseDigits (itoaNat n) = some n := by
  have hne := itoaNat_ne_nil' n
  have hv := natOfDigits_itoaNat n
  unfold parseDigits
  cases hs : itoaNat n with
  | nil => exact absurd hs hne
  | cons c cs =>
    have hd : DigitStr (c :: cs) := hs ▸ digitStr_itoaNat n
    rw [hs] at hv
    simp only [isEmpty_cons, Bool.false_eq_true, ↓reduceIte]
    rw [digitsVal_digitStr hd 0]
    exact congrArg some hv

/-- the first character of a digit string is neither `-` nor `+` -/
theorem DigitStr.head_ne_sign {c : Char} {cs : Str} (h : DigitStr (c :: cs)) : c ≠ '-' ∧ c ≠ '+' := by
  obtain ⟨k, hk, hc⟩ := h c (by simp)
  subst hc
  exact ⟨fun e => (digitChar_ne_minus hk).mp e, fun e => (digitChar_ne_plus hk).mp e⟩

/-! ### `Atoi ∘ Itoa` -/

/-- the 64-bit `int` range -/
def Int64 (v : Int) : Prop := -9223372036854775808 ≤ v ∧ v ≤ 9223372036854775807

instance (v : Int) : Decidable (Int64 v) :=
  inferInstanceAs (Decidable (-9223372036854775808 ≤ v ∧ v ≤ 9223372036854775807))

theorem atoi_itoaNat' (n : Nat) (h : n ≤ 9223372036854775807) : atoi (itoaNat n) = some (n : Int) := by
  have hp := parseDigits_itoaNat' n
  have hne := itoaNat_ne_nil' n
  cases hs : itoaNat n with
  | nil => exact absurd hs hne
  | cons c cs =>
    have hd : DigitStr (c :: cs) := hs ▸ digitStr_itoaNat n
    obtain ⟨h1, h2⟩ := hd.head_ne_sign
    rw [hs] at hp
    unfold atoi
    split
    · rename_i r heq; simp at heq; exact absurd heq.1 h1
    · rename_i r heq; simp at heq; exact absurd heq.1 h2
    · rw [hp]
      have : n ≤ int64Max := h
      simp [this]

/-- **`Atoi (Itoa v) = v`** for every 64-bit integer -/
theorem atoi_itoa (v : Int) (h : Int64 v) : atoi (itoa v) = some v := by
  unfold Int64 at h
  unfold itoa
  by_cases hneg : v < 0
  · rw [if_pos hneg]
    simp only [atoi, parseDigits_itoaNat']
    have : v.natAbs ≤ int64Max + 1 := by unfold int64Max; omega
    rw [if_pos this]
    congr 1
    omega
  · rw [if_neg hneg, atoi_itoaNat' _ (by omega)]
    congr 1
    omega

/-- the value seen when the error is dropped is the same -/
theorem atoiLoose_itoaNat' (n : Nat) (h : n ≤ 9223372036854775807) : atoiLoose (itoaNat n) = (n : Int) := by
  have hp := parseDigits_itoaNat' n
  have hne := itoaNat_ne_nil' n
  cases hs : itoaNat n with
  | nil => exact absurd hs hne
  | cons c cs =>
    have hd : DigitStr (c :: cs) := hs ▸ digitStr_itoaNat n
    obtain ⟨h1, h2⟩ := hd.head_ne_sign
    rw [hs] at hp
    unfold atoiLoose
    split
    · rename_i r heq; simp at heq; exact absurd heq.1 h1
    · rename_i r heq; simp at heq; exact absurd heq.1 h2
    · rw [hp]
      have : n ≤ int64Max := h
      simp [this]

theorem atoiLoose_itoa (v : Int) (h : Int64 v) : atoiLoose (itoa v) = v := by
  unfold Int64 at h
  unfold itoa
  by_cases hneg : v < 0
  · rw [if_pos hneg]
    simp only [atoiLoose, parseDigits_itoaNat']
    have : v.natAbs ≤ int64Max + 1 := by unfold int64Max; omega
    simp only [this, ↓reduceIte]
    omega
  · rw [if_neg hneg, atoiLoose_itoaNat' _ (by omega)]
    omega

/-! ### characters of `Itoa` -/

/-- characters that can occur in a number the writer emits: digits, `-`, `.`, `:` -/
def numChar (c : Char) : Bool := ('0' ≤ c && c ≤ '9') || c = '-' || c = '.' || c = ':'

theorem numChar_digitChar {k : Nat} (h : k < 10) : numChar (digitChar k) = true := by
  rcases digitChar_lt h with h|h|h|h|h|h|h|h|h|h <;> subst h <;> decide

theorem DigitStr.numChar {s : Str} (h : DigitStr s) : ∀ c ∈ s, numChar c = true := by
  intro c hc; obtain ⟨k, hk, rfl⟩ := h c hc; exact numChar_digitChar hk

theorem numChar_itoa (v : Int) : ∀ c ∈ itoa v, numChar c = true := by
  intro c hc
  unfold itoa at hc
  split at hc
  · rcases mem_cons.mp hc with rfl | h
    · decide
    · exact (digitStr_itoaNat _).numChar c h
  · exact (digitStr_itoaNat _).numChar c hc

theorem itoa_ne_nil (v : Int) : itoa v ≠ [] := by
  unfold itoa
  split
  · simp
  · exact itoaNat_ne_nil' _

/-- a numeric character is not a comma, not a space, not a line break, not a brace -/
theorem numChar_ne_comma {c : Char} (h : numChar c = true) : c ≠ ',' := by
  intro e; subst e; revert h; decide

theorem numChar_not_space {c : Char} (h : numChar c = true) : isSpace c = false := by
  have hc : c.toNat = 45 ∨ c.toNat = 46 ∨ (48 ≤ c.toNat ∧ c.toNat ≤ 58) := by
    unfold numChar at h
    simp only [Bool.or_eq_true, Bool.and_eq_true, decide_eq_true_eq] at h
    rcases h with ((⟨h1, h2⟩ | h) | h) | h
    · have h1' : (48 : Nat) ≤ c.toNat := h1
      have h2' : c.toNat ≤ 57 := h2
      omega
    · subst h; decide
    · subst h; decide
    · subst h; decide
  unfold isSpace
  simp only [Bool.or_eq_false_iff, Bool.and_eq_false_iff, beq_eq_false_iff_ne, decide_eq_false_iff_not]
  omega

theorem not_mem_of_numChar {s : Str} (h : ∀ c ∈ s, numChar c = true) : ',' ∉ s :=
  fun hm => numChar_ne_comma (h _ hm) rfl

theorem comma_not_mem_itoa (v : Int) : ',' ∉ itoa v := not_mem_of_numChar (numChar_itoa v)

/-! ### `TrimSpace` -/

/-- nothing to trim: the first and the last character are not spaces -/
def Trimmed (s : Str) : Prop :=
  (∀ c, s.head? = some c → isSpace c = false) ∧ (∀ c, s.getLast? = some c → isSpace c = false)

instance (s : Str) : Decidable (Trimmed s) :=
  decidable_of_iff ((s.head?.all fun c => !isSpace c) = true ∧ (s.getLast?.all fun c => !isSpace c) = true) (by
    unfold Trimmed
    cases s.head? <;> cases s.getLast? <;> simp)

theorem dropWhile_head {p : Char → Bool} {s : Str} (h : ∀ c, s.head? = some c → p c = false) : s.dropWhile p = s := by
  cases s with
  | nil => rfl
  | cons x xs => simp [dropWhile, h x rfl]

theorem trimSpace_of_trimmed {s : Str} (h : Trimmed s) : trimSpace s = s := by
  unfold trimSpace trimRight trimLeft
  rw [dropWhile_head h.1, dropWhile_head (by simpa using h.2)]
  simp

theorem trimmed_nil : Trimmed [] := by simp [Trimmed]

theorem trimmed_of_noSpace {s : Str} (h : ∀ c ∈ s, isSpace c = false) : Trimmed s := by
  constructor
  · intro c hc; exact h c (mem_of_mem_head? hc)
  · intro c hc; exact h c (mem_of_mem_getLast? hc)

theorem trimmed_itoa (v : Int) : Trimmed (itoa v) :=
  trimmed_of_noSpace fun c hc => numChar_not_space (numChar_itoa v c hc)

theorem trimmed_trimSpace (s : Str) : Trimmed (trimSpace s) := by
  unfold trimSpace trimRight trimLeft
  constructor
  · intro c hc
    have hsuf : (s.dropWhile isSpace).reverse.dropWhile isSpace <:+ (s.dropWhile isSpace).reverse :=
      dropWhile_suffix _
    have hpre : ((s.dropWhile isSpace).reverse.dropWhile isSpace).reverse <+: s.dropWhile isSpace := by
      have := reverse_prefix.mpr hsuf
      simpa using this
    obtain ⟨t, ht⟩ := hpre
    have hx := head?_dropWhile_not isSpace s
    rw [← ht] at hx
    cases hy : ((s.dropWhile isSpace).reverse.dropWhile isSpace).reverse with
    | nil => rw [hy] at hc; cases hc
    | cons y ys =>
      rw [hy] at hc hx
      simp at hc hx
      subst hc
      simpa using hx
  · intro c hc
    rw [getLast?_reverse] at hc
    have hx := head?_dropWhile_not isSpace (s.dropWhile isSpace).reverse
    rw [hc] at hx
    simpa using hx


end Go
end Astisub
