import Astisub.Lemmas.SSAW2Denote

/-!
# Lemmas/SSAW2Text — the decoder's event-text scanner on what the writer emits

* `runsOf_written` — the override-block scanner `Spec.SSA.runsOf` on plain text followed by block runs
  (the converse direction of `SSAR.runsOf_shape`);
* `runsOf_goodLine` — on the concatenation of the runs of a `GoodLine`, it returns these runs;
* `textOf_written` — `Spec.SSA.textOf` on the `\n`-joined lines returns the lines of runs.
-/

namespace Astisub
namespace SSAW
open Go SSA SSAR List
open Spec.SSA (GVal GStyle GRun GEvent GDoc REvent)

/-! ### plain characters -/

/-- plain characters are pushed on the accumulator, one unit of fuel each -/
theorem runsOf_plain : ∀ (t s : Str) (fuel : Nat) (eff : Option Str) (acc : Str) (out : List GRun), NoBrace t →
    Spec.SSA.runsOf (fuel + t.length) (t ++ s) eff acc out = Spec.SSA.runsOf fuel s eff (t.reverse ++ acc) out := by
  intro t
  induction t with
  | nil => intro s fuel eff acc out _; rfl
  | cons c cs ih =>
    intro s fuel eff acc out h
    have h1 : c ≠ '{' := fun e => h.1 (by simp [e])
    have h2 : c ≠ '}' := fun e => h.2 (by simp [e])
    have hcs : NoBrace cs := ⟨fun e => h.1 (by simp [e]), fun e => h.2 (by simp [e])⟩
    have e : fuel + (c :: cs).length = (fuel + cs.length) + 1 := by simp; omega
    rw [e, cons_append, runsOf_other _ c _ eff acc out h1 h2, ih s fuel eff (c :: acc) out hcs]
    simp

/-! ### one block -/

theorem innerOf_block (inner after : Str) (h : NoBrace inner) : innerOf (inner ++ '}' :: after) = inner := by
  unfold innerOf
  induction inner with
  | nil => simp
  | cons c cs ih =>
    have h1 : c ≠ '{' := fun e => h.1 (by simp [e])
    have h2 : c ≠ '}' := fun e => h.2 (by simp [e])
    have hcs : NoBrace cs := ⟨fun e => h.1 (by simp [e]), fun e => h.2 (by simp [e])⟩
    rw [cons_append, takeWhile_cons]
    simp only [ne_eq, h2, not_false_eq_true, decide_true, h1, Bool.and_self, ↓reduceIte]
    rw [ih hcs]

/-- an override block `{inner}` is consumed in one step -/
theorem runsOf_block (fuel : Nat) (inner after : Str) (eff : Option Str) (acc : Str) (out : List GRun)
    (hi : inner ≠ []) (hn : NoBrace inner) :
    Spec.SSA.runsOf (fuel + 1) (('{' :: inner ++ ['}']) ++ after) eff acc out =
      Spec.SSA.runsOf fuel after (some ('{' :: inner ++ ['}'])) []
        (if eff.isNone && acc.isEmpty then out else out ++ [{ effect := eff, text := acc.reverse }]) := by
  have e : ('{' :: inner ++ ['}']) ++ after = '{' :: (inner ++ '}' :: after) := by simp
  have hin := innerOf_block inner after hn
  have hd : (inner ++ '}' :: after).drop (innerOf (inner ++ '}' :: after)).length = '}' :: after := by
    rw [hin]; simp
  rw [e, runsOf_open_some fuel _ after eff acc out hd, hin]
  have : inner.isEmpty = false := by cases inner with | nil => exact absurd rfl hi | cons _ _ => rfl
  simp [this]

theorem lineStr_cons_some (e t : Str) (rs : List Run) :
    SSA.lineStr ((some e, t) :: rs) = e ++ (t ++ SSA.lineStr rs) := by
  simp [SSA.lineStr, runStr]

theorem lineStr_cons_none (t : Str) (rs : List Run) :
    SSA.lineStr ((none, t) :: rs) = t ++ SSA.lineStr rs := by
  simp [SSA.lineStr, runStr]

/-! ### T1 -/

/-- the scanner on block runs only (pending run `(eff, acc.reverse)`) -/
theorem runsOf_blocks : ∀ (rest : List Run) (fuel : Nat) (eff : Option Str) (acc : Str) (out : List GRun),
    (∀ r ∈ rest, BlockRun r) → (SSA.lineStr rest).length < fuel →
    Spec.SSA.runsOf fuel (SSA.lineStr rest) eff acc out = some (out ++ tailRuns eff acc.reverse rest) := by
  intro rest
  induction rest with
  | nil =>
    intro fuel eff acc out _ hf
    obtain ⟨f, rfl⟩ : ∃ f, fuel = f + 1 := ⟨fuel - 1, by omega⟩
    simp [SSA.lineStr, Spec.SSA.runsOf, tailRuns]
  | cons r rs ih =>
    intro fuel eff acc out h hf
    obtain ⟨hb, htx⟩ := h r (by simp)
    obtain ⟨eo, t⟩ := r
    cases eo with
    | none => exact absurd hb id
    | some e =>
      have hb' : IsBlock e := hb
      have htx' : NoBrace t := htx
      have he : e = '{' :: blockInner e ++ ['}'] := hb'.1
      have hrest : ∀ r ∈ rs, BlockRun r := fun r hr => h r (by simp [hr])
      rw [lineStr_cons_some] at hf ⊢
      have hle : e.length = (blockInner e).length + 2 := by
        conv => lhs; rw [he]
        simp
      simp only [length_append] at hf
      obtain ⟨f, rfl⟩ : ∃ f, fuel = (f + t.length) + 1 := ⟨fuel - t.length - 1, by omega⟩
      conv => lhs; rw [he]
      rw [runsOf_block _ (blockInner e) _ eff acc out hb'.2.1 hb'.2.2, runsOf_plain t _ f _ _ _ htx',
        ih f _ _ _ hrest (by omega), ← he, tailRuns_some]
      simp only [append_nil, reverse_reverse, tailRuns, map_cons, grun]
      cases eff <;> cases acc <;> simp

/-- **T1.** plain text, then block runs: the decoder's scanner returns the pending run completed with the plain text
    (dropped when it has neither override block nor text and blocks follow), then one run per block -/
theorem runsOf_written : ∀ (rest : List Run) (t : Str) (fuel : Nat) (eff : Option Str) (acc : Str) (out : List GRun),
    NoBrace t → (∀ r ∈ rest, BlockRun r) → (t ++ SSA.lineStr rest).length < fuel →
    Spec.SSA.runsOf fuel (t ++ SSA.lineStr rest) eff acc out = some (out ++ tailRuns eff (acc.reverse ++ t) rest) := by
  intro rest t fuel eff acc out ht hr hf
  simp only [length_append] at hf
  obtain ⟨f, rfl⟩ : ∃ f, fuel = f + t.length := ⟨fuel - t.length, by omega⟩
  rw [runsOf_plain t _ f eff acc out ht, runsOf_blocks rest f eff _ out hr (by omega)]
  simp

/-! ### T2 -/

/-- **T2.** on the text the writer emits for a line (`GoodLine`), the scanner returns the runs of the line -/
theorem runsOf_goodLine (runs : List Run) (h : GoodLine runs) :
    Spec.SSA.runsOf ((SSA.lineStr runs).length + 2) (SSA.lineStr runs) none [] [] = some (runs.map grun) := by
  cases runs with
  | nil => exact absurd h id
  | cons r0 rest =>
    obtain ⟨eo, t⟩ := r0
    cases eo with
    | none =>
      cases rest with
      | nil =>
        have h' : NoBrace t := h
        have := runsOf_written [] t ((SSA.lineStr [(none, t)]).length + 2) none [] [] h' (by simp)
          (by simp [SSA.lineStr, runStr])
        rw [lineStr_cons_none]
        rw [lineStr_cons_none] at this
        rw [this]
        simp [tailRuns, grun]
      | cons r rs =>
        have h' : t ≠ [] ∧ NoBrace t ∧ ∀ x ∈ r :: rs, BlockRun x := h
        obtain ⟨h1, h2, h3⟩ := h'
        rw [lineStr_cons_none]
        rw [runsOf_written (r :: rs) t _ none [] [] h2 h3 (by omega)]
        have he : t.isEmpty = false := by cases t with | nil => exact absurd rfl h1 | cons _ _ => rfl
        simp [tailRuns, grun, he]
    | some e =>
      have h' : ∀ x ∈ (some e, t) :: rest, BlockRun x := h
      have := runsOf_written ((some e, t) :: rest) [] ((SSA.lineStr ((some e, t) :: rest)).length + 2) none [] []
        ⟨by simp, by simp⟩ h' (by simp)
      simp only [nil_append] at this
      rw [this]
      simp [tailRuns, grun]

/-! ### T3 -/

theorem mapM_map_some {α β γ} (f : α → Option β) (g : γ → α) (k : γ → β) :
    ∀ (l : List γ), (∀ x ∈ l, f (g x) = some (k x)) → Spec.SSA.mapM f (l.map g) = some (l.map k) := by
  intro l
  induction l with
  | nil => intro _; rfl
  | cons a as ih =>
    intro h
    simp only [map_cons, Spec.SSA.mapM]
    rw [h a (by simp), ih fun x hx => h x (by simp [hx])]

/-- the decoder's line cutter on the `\n`-joined lines -/
theorem cutLines_join (ls : List Str) (hne : ls ≠ []) (h : ∀ L ∈ ls, LineOK L) :
    Spec.SSA.cutLines (join "\\n".toList ls) [] = ls := by
  rw [← splitOn_replaceAll, sepn, sepN, replaceAll_noPair _ _ _ _ (noPair_join ls fun L hL => (h L hL).N),
    splitOn_join2 _ _ (by decide) ls hne fun L hL => (h L hL).n]

/-- **T3.** the decoder reads the text of a written event (lines joined with `\n`) back as its lines of runs -/
theorem textOf_written (ls : List (List Run)) (hne : ls ≠ []) (hg : ∀ l ∈ ls, GoodLine l) (hl : ∀ l ∈ ls, LineOK (SSA.lineStr l)) :
    Spec.SSA.textOf (join "\\n".toList (ls.map SSA.lineStr)) = some (ls.map fun l => l.map grun) := by
  have hl' : ∀ L ∈ ls.map SSA.lineStr, LineOK L := by
    intro L hL
    obtain ⟨l, hlm, rfl⟩ := mem_map.1 hL
    exact hl l hlm
  have htr : Trimmed (join "\\n".toList (ls.map SSA.lineStr)) := by
    rw [sepn]
    exact trimmed_join _ fun L hL => (hl' L hL).trimmed
  unfold Spec.SSA.textOf
  rw [trimSpace_of_trimmed htr, cutLines_join _ (by simpa using hne) hl']
  apply mapM_map_some
  intro l hlm
  simp only
  rw [trimSpace_of_trimmed (hl l hlm).trimmed]
  exact runsOf_goodLine l (hg l hlm)

end SSAW
end Astisub
