import Astisub.Lemmas.F53Ops
import Astisub.Lemmas.F53Div
import Astisub.Lemmas.F53Close

/-!
# Lemmas/F53Exec — `LinCorr.apply1` unfolded into `rnd` / `tr` on rationals
-/

namespace Astisub
namespace F53
open Go

theorem exact_eq (a1 d1 a2 d2 t : ℤ) : LinCorr.exact a1 d1 a2 d2 t = C15.exact a1 d1 a2 d2 t := by
  unfold LinCorr.exact C15.exact
  push_cast; ring

theorem day_le : C15.day ≤ 2 ^ 53 := by unfold C15.day; norm_num

theorem int_le_of_day {n : ℤ} (h : |(n : ℚ)| ≤ C15.day) : |n| ≤ 2 ^ 53 := by
  have : ((|n| : ℤ) : ℚ) ≤ ((2 ^ 53 : ℤ) : ℚ) := by
    rw [Int.cast_abs]; push_cast; exact le_trans h day_le
  exact_mod_cast this

theorem rnd_nonpos {x : ℚ} (hx : x ≤ 0) : rnd x ≤ 0 := by
  have := rnd_mono hx
  rwa [rnd_zero] at this

/-- the computed slope: three roundings (two conversions and the division) -/
theorem slope_val_rnd (a1 d1 a2 d2 : ℤ) :
    (LinCorr.slope a1 d1 a2 d2).val = rnd (rnd ((d2 - d1 : ℤ) : ℚ) / rnd ((a2 - a1 : ℤ) : ℚ)) := by
  unfold LinCorr.slope
  rw [div_val, ofInt_val, ofInt_val]

/-- the executable expression tree, on rationals -/
theorem apply1_unfold (a1 d1 a2 d2 t : ℤ) :
    LinCorr.apply1 a1 d1 a2 d2 t
      = C15.tr (rnd ((LinCorr.slope a1 d1 a2 d2).val * rnd (t : ℚ)))
        + C15.tr (rnd (rnd (d1 : ℚ) - rnd ((LinCorr.slope a1 d1 a2 d2).val * rnd (a1 : ℚ)))) := by
  unfold LinCorr.apply1 LinCorr.intercept
  rw [trunc_val, trunc_val, mul_val, sub_val, mul_val, ofInt_val, ofInt_val, ofInt_val]

end F53
end Astisub
