import Astisub.Lemmas.SRTRead2Main

/-!
# Lemmas/SRTRead2Class — an explicit class of documents on which the reader model is defined

The reader model answers `unmodelled` only where the tokenizer model does.  `LineClass` is a decidable,
syntactic condition on one prepared line under which it does not: the line contains `-->` (then it is
never tokenized), or it has no NUL and either no `<` at all or only what the decoder's run scanner
`runsOf` accepts (text, stray `<`, the eight emphasis tags).
-/

namespace Astisub
namespace SRTRead2
open Go SRT SRTDoc
open Spec.SRT (GRun GCue Sty runsOf cueLines timing timeMs decodeBlock)

/-! ## what is behind a recognised tag is part of the line -/

theorem tagAt_mem (s : Str) (f : Sty → Sty) (after : Str) (h : Spec.SRT.tagAt s = some (f, after)) :
    ∀ c ∈ after, c ∈ s := by
  unfold Spec.SRT.tagAt at h
  simp only at h
  have hd : ∀ n, ∀ c ∈ s.drop n, c ∈ s := fun n c hc => List.mem_of_mem_drop hc
  iterate 7
    split at h
    · simp only [Option.some.injEq, Prod.mk.injEq] at h; rw [← h.2]; exact hd _
  split at h
  · rename_i rest hdp
    split at h
    · rename_i after' hdrop
      split at h
      · cases h
      · simp only [Option.some.injEq, Prod.mk.injEq] at h
        obtain ⟨q, _, hs⟩ := shape_of_dropPrefix "<font color=\"".toList s rest hdp
        intro c hc
        rw [← h.2] at hc
        have : c ∈ rest.drop (rest.takeWhile (· != '"')).length := by rw [hdrop]; simp [hc]
        rw [hs]
        exact List.mem_append_right _ (List.mem_of_mem_drop this)
    · cases h
  · cases h

/-! ## the tokenizer model is defined on what `runsOf` accepts, NUL aside -/

theorem sim_modelled : ∀ (fd fm : Nat) (s : Str) (sty : Sty) (acc : Str) (outd : List GRun) (outm : List Tok),
    s.length < fm → (runsOf fd s sty acc outd).isSome = true → '\x00' ∉ s →
    tokLoop fm s acc outm ≠ .unmodelled := by
  intro fd
  induction fd with
  | zero => intro fm s sty acc outd outm _ h; rw [runsOf_zero] at h; cases h
  | succ fd ih =>
    intro fm s sty acc outd outm hlen h h0
    obtain ⟨g, rfl⟩ : ∃ g, fm = g + 1 := ⟨fm - 1, by omega⟩
    rw [tokLoop_succ]
    cases s with
    | nil => rw [tokStep_nil]; intro e; cases e
    | cons c rest =>
      by_cases hc : c = '<'
      · subst hc
        cases rest with
        | nil => rw [tokStep_lt_end]; intro e; cases e
        | cons c tl =>
          by_cases hg : (runsOf.isLetter' c || c = '/' || c = '!' || c = '?') = true
          · cases ht : Spec.SRT.tagAt ('<' :: c :: tl) with
            | none => rw [runsOf_lt_bad _ _ _ _ _ _ hg ht] at h; cases h
            | some fa =>
              obtain ⟨f, after⟩ := fa
              rw [runsOf_tag _ _ _ _ _ _ _ _ hg ht] at h
              obtain ⟨t, hstep, _⟩ := tag_sim c tl f after ht acc outm
              rw [hstep]
              have hl := tokStep_length _ _ _ _ _ _ hstep
              exact ih g after (f sty) [] _ _ (by omega) h (fun hm => h0 (tagAt_mem _ _ _ ht _ hm))
          · have hg' : (runsOf.isLetter' c || c = '/' || c = '!' || c = '?') = false := by
              cases hb : (runsOf.isLetter' c || c = '/' || c = '!' || c = '?') <;> simp_all
            rw [runsOf_lt_other _ _ _ _ _ _ hg'] at h
            rw [tokStep_lt_other _ _ _ _ hg']
            exact ih g (c :: tl) sty ('<' :: acc) outd outm (by simp only [List.length_cons] at hlen ⊢; omega) h
              (fun hm => h0 (by simp only [List.mem_cons] at hm ⊢; exact Or.inr hm))
      · have hn : c ≠ '\x00' := fun e => h0 (by rw [e]; simp)
        rw [runsOf_char _ _ _ _ _ _ hc] at h
        rw [tokStep_plain _ _ _ _ hc hn]
        exact ih g rest sty (c :: acc) outd outm (by simp only [List.length_cons] at hlen; omega) h
          (fun hm => h0 (by simp [hm]))

/-- a line without `<` and NUL is plain text for the tokenizer model -/
theorem plain_modelled : ∀ (s : Str) (fm : Nat) (acc : Str) (outm : List Tok), s.length < fm → '<' ∉ s → '\x00' ∉ s →
    tokLoop fm s acc outm ≠ .unmodelled := by
  intro s
  induction s with
  | nil =>
    intro fm acc outm hlen _ _
    obtain ⟨g, rfl⟩ : ∃ g, fm = g + 1 := ⟨fm - 1, by simp at hlen; omega⟩
    rw [tokLoop_succ, tokStep_nil]; intro e; cases e
  | cons c rest ih =>
    intro fm acc outm hlen h1 h0
    obtain ⟨g, rfl⟩ : ∃ g, fm = g + 1 := ⟨fm - 1, by omega⟩
    have hc : c ≠ '<' := fun e => h1 (by rw [e]; simp)
    have hn : c ≠ '\x00' := fun e => h0 (by rw [e]; simp)
    rw [tokLoop_succ, tokStep_plain _ _ _ _ hc hn]
    exact ih g (c :: acc) outm (by simp only [List.length_cons] at hlen; omega) (fun hm => h1 (by simp [hm]))
      (fun hm => h0 (by simp [hm]))

/-! ## the class -/

/-- one prepared line on which the reader model is defined, syntactically: it contains `-->` (a timing
    line for the reader: never tokenized), or it has no NUL and either no `<` or only text, stray `<` and
    emphasis tags as the decoder's run scanner accepts them -/
def LineClass (l : Str) : Bool :=
  contains arrow l || (!l.contains '\x00' && (!l.contains '<' || (runsOf (l.length + 2) l {} [] []).isSome))

theorem lineClass_tokenize {l : Str} (h : LineClass l = true) (hc : contains arrow l = false) :
    tokenize l ≠ .unmodelled := by
  unfold LineClass at h
  simp only [hc, Bool.false_or, Bool.and_eq_true, Bool.not_eq_true', Bool.or_eq_true] at h
  obtain ⟨h0, h1⟩ := h
  have h0' : '\x00' ∉ l := by
    intro hm; have := List.contains_iff_mem.mpr hm; rw [this] at h0; cases h0
  unfold tokenize
  rcases h1 with h1 | h1
  · have h1' : '<' ∉ l := by
      intro hm; have := List.contains_iff_mem.mpr hm; rw [this] at h1; cases h1
    exact plain_modelled l _ [] [] (by omega) h1' h0'
  · exact sim_modelled _ _ l {} [] [] [] (by omega) h1 h0'

theorem parseText_unmodelled {l : Str} {sa : Run} (h : parseText l sa = .unmodelled) : tokenize l = .unmodelled := by
  unfold parseText at h
  split at h
  · cases h
  · cases hk : tokenize l with
    | unmodelled => rfl
    | ok toks => rw [hk] at h; cases h

theorem stepG_lineClass (st : St) {l : Str} (h : LineClass l = true) : stepG st l ≠ .unmodelled := by
  cases hc : contains arrow l with
  | true =>
    unfold stepG
    simp only [hc, ↓reduceIte]
    repeat' split
    all_goals (intro e; cases e)
  | false =>
    rw [stepG_plain st l hc]
    have ht := lineClass_tokenize h hc
    cases hp : parseText l st.sa with
    | unmodelled => exact absurd (parseText_unmodelled hp) ht
    | err => intro e; cases e
    | ok r => intro e; cases e

theorem runG_lineClass : ∀ (ls : List Str) (st : St), (∀ l ∈ ls, LineClass l = true) → runG st ls ≠ .unmodelled := by
  intro ls
  induction ls with
  | nil => intro st _ e; cases e
  | cons l ls ih =>
    intro st h
    have h1 := stepG_lineClass st (h l (by simp))
    simp only [runG]
    cases hs : stepG st l with
    | ok st' => exact ih st' (fun x hx => h x (by simp [hx]))
    | err => intro e; cases e
    | unmodelled => exact absurd hs h1

/-- the lines of a text as the reader prepares them: cut at LF / CRLF / CR, trimmed, a byte order mark
    removed from the front of the (trimmed) first line -/
def readerLines (text : Str) : List Str :=
  match Spec.SRT.splitLines text [] with
  | [] => []
  | l :: ls => prepLine 0 l :: ls.map trimSpace

theorem run_readerLines (text : Str) :
    run {} ((Spec.SRT.splitLines text []).map some) = runG {} (readerLines text) := by
  unfold readerLines
  cases Spec.SRT.splitLines text [] with
  | nil => rfl
  | cons l ls => exact run_first l ls

/-- **the class is inside the model**: when every prepared line is in `LineClass`, the reader model
    answers `ok` or `err` -/
theorem read_lineClass (text : Str) (h : ∀ l ∈ readerLines text, LineClass l = true) :
    read ((Spec.SRT.splitLines text []).map some) ≠ .unmodelled := by
  rw [read_eq, run_readerLines]
  have := runG_lineClass (readerLines text) {} h
  cases hr : runG {} (readerLines text) with
  | ok st => intro e; cases e
  | err => intro e; cases e
  | unmodelled => exact absurd hr this

end SRTRead2
end Astisub
