import Astisub.Lemmas.VTT3WDocShape
import Astisub.Lemmas.VTT3WDocCue
import Astisub.Lemmas.VTT3WDocMeta

/-!
# Lemmas/VTT3WDocFold — the decoder's fold over the blocks of a written document
-/

namespace Astisub
namespace VTT3W
open Go Spec.VTT VTTRead

/-! ### header metadata: the timestamp map -/

theorem not_region_tsLine' (F m : Str) : hasPrefix "Region: ".toList (VTT.tsLine F m) = false := by
  rw [VTT.tsLine_eq, lit_tsmap, lit_region]
  exact VTT.hasPrefix_ne _ _ (by decide)

theorem metaT_of_X {l : Str} (h : hasPrefix "X-TIMESTAMP-MAP".toList l = true) : metaT l = true := by
  unfold metaT; rw [h, Bool.or_true]

theorem metaT_of_R {l : Str} (h : hasPrefix "Region: ".toList l = true) : metaT l = true := by
  unfold metaT; rw [h, Bool.true_or]

theorem block_tsLine (lv : Int) (h0 : 0 ≤ lv) (h1 : lv < 360000000000000) (m : Str) (n : Nat)
    (hm : natOf m = some n) (hn : n < 2 ^ 62) :
    ∃ v, block {} [VTT.tsLine (Duration.formatVTT lv) m] = some { tsmap := some v } := by
  obtain ⟨v, hv⟩ := tsmapLine_written lv h0 h1 m n hm hn
  have hp := hasPrefix_tsLine' (Duration.formatVTT lv) m
  have hr := not_region_tsLine' (Duration.formatVTT lv) m
  obtain ⟨_, t2, t3, _, _⟩ := prefix_tests_X hp
  refine ⟨v, ?_⟩
  rw [block_cases _ _ _ t3 t2]
  have hall : [VTT.tsLine (Duration.formatVTT lv) m].all metaT = true := by
    simp only [List.all_cons, List.all_nil, metaT_of_X hp, Bool.and_self]
  rw [if_pos hall]
  simp only [List.foldl, metaStep, hr, hv]
  rfl

/-! ### the region block -/

theorem hasPrefix_regionLine' (s : Subs) (d : Def) : hasPrefix "Region: ".toList (VTT.regionLine s d) = true := by
  have e : "Region: id=".toList = "Region: ".toList ++ "id=".toList := rfl
  unfold VTT.regionLine
  simp only [List.append_assoc]
  rw [e, List.append_assoc]
  exact hasPrefix_append _ _

theorem block_regionLines (s : Subs) (ds : List Def) (d0 : Def) (st : DocSt)
    (hok : ∀ d ∈ d0 :: ds, VTT.regionOk s d = true) (hx : ∀ d ∈ d0 :: ds, regionW2 s d = true)
    (hnd : ((d0 :: ds).map (·.id)).Nodup) (hst : st.regions = []) :
    ∃ rs : List GRegion, rs.map (·.id) = (d0 :: ds).map (·.id) ∧
      block st ((d0 :: ds).map (VTT.regionLine s)) = some { st with regions := rs } := by
  obtain ⟨rs, hrs, hfold⟩ := foldl_metaStep_regions s (d0 :: ds) hok hx st hnd (by intro d _; rw [hst]; rfl)
  refine ⟨rs, hrs, ?_⟩
  obtain ⟨_, t2, t3, _⟩ := prefix_tests_R (hasPrefix_regionLine' s d0)
  rw [List.map_cons, block_cases _ _ _ t3 t2]
  have hall : (VTT.regionLine s d0 :: ds.map (VTT.regionLine s)).all metaT = true := by
    rw [List.all_eq_true]
    intro l hl
    have hl' : l ∈ (d0 :: ds).map (VTT.regionLine s) := hl
    obtain ⟨d, _, rfl⟩ := List.mem_map.mp hl'
    exact metaT_of_R (hasPrefix_regionLine' s d)
  rw [if_pos hall]
  rw [List.map_cons] at hfold
  rw [hfold, hst]
  rfl

/-! ### the fold, block list by block list -/

theorem fold_noteBlock (ds : DocSt) (cs : List Str) (hok : VTT.commentsOk cs = true) (hx : commentsW2 cs = true) :
    ∃ ds1, (noteBlock cs).foldl F (some ds) = some ds1 ∧ ds1.regions = ds.regions ∧ ds1.cues = ds.cues := by
  cases cs with
  | nil => exact ⟨ds, rfl, rfl, rfl⟩
  | cons c cs =>
    refine ⟨{ ds with comments := ds.comments ++ (c :: cs) }, ?_, rfl, rfl⟩
    simp only [noteBlock, List.foldl, F]
    exact block_comment ds c cs hok hx

theorem fold_cues (s : Subs) (items : List CItem) :
    ∀ (k : Nat) (ds : DocSt), (∀ it ∈ items, VTT.cueOk2 s it = true) → (∀ it ∈ items, cueW2 it = true) →
      k + items.length < 2 ^ 62 →
      (∀ it ∈ items, ∀ r, it.region = some r → ds.regions.any (·.id = r) = true) →
      (∀ it ∈ items, (cueText (it.lines.map VTT.lineBody) []).isSome = true) →
      ∃ ds', (cueBlocks s k items).foldl F (some ds) = some ds' ∧
        ds'.cues.map (·.lines) = ds.cues.map (·.lines) ++ items.map glOf := by
  induction items with
  | nil => intro k ds _ _ _ _ _; exact ⟨ds, rfl, by simp⟩
  | cons it rest ih =>
    intro k ds hok hw hk hreg ht
    simp only [List.length_cons] at hk
    have hw1 := hw it (by simp)
    simp only [cueW2, Bool.and_eq_true] at hw1
    obtain ⟨ds1, hf1, hr1, hc1⟩ := fold_noteBlock ds it.comments (comments_of_cueOk2 (hok it (by simp))) hw1.1
    obtain ⟨c, hcl, hblk⟩ := cueBlock_written ds1 s k it (hok it (by simp)) (by omega)
      (by intro r hr; rw [hr1]; exact hreg it (by simp) r hr) (ht it (by simp))
    obtain ⟨ds', hf3, hcues⟩ := ih (k + 1) { ds1 with comments := [], cues := ds1.cues ++ [c] }
      (fun x hx => hok x (by simp [hx])) (fun x hx => hw x (by simp [hx])) (by omega)
      (fun x hx r hr => by
        show ds1.regions.any _ = true
        rw [hr1]; exact hreg x (by simp [hx]) r hr)
      (fun x hx => ht x (by simp [hx]))
    refine ⟨ds', ?_, ?_⟩
    · rw [cueBlocks, List.foldl_append, List.foldl_append, hf1]
      simp only [List.foldl, F]
      rw [hblk]
      exact hf3
    · rw [hcues]
      simp [hc1, hcl]

theorem fold_styleBlocks (s : Subs) (hF : VTT.DocFacts s) (hW : W2Facts s) (ds : DocSt) :
    ∃ ds', (styleBlocks s).foldl F (some ds) = some ds' ∧ ds'.regions = ds.regions ∧ ds'.cues = ds.cues := by
  unfold styleBlocks
  by_cases he : (VTT.styleLines s).isEmpty = true
  · rw [if_pos he]; exact ⟨ds, rfl, rfl, rfl⟩
  · rw [if_neg he]
    have hne : VTT.styleLines s ≠ [] := by intro e; rw [e] at he; exact he rfl
    refine ⟨{ ds with styles := ds.styles ++ VTT.styleLines s }, ?_, rfl, rfl⟩
    simp only [List.foldl, F]
    apply block_style ds _ hne hF.sty hW.sty
    have := hF.styEnd
    unfold VTT.styleEndOk at this
    intro e
    rw [e] at this
    exact absurd this (by decide)

theorem fold_regionBlocks (s : Subs) (hF : VTT.DocFacts s) (hW : W2Facts s) (ds : DocSt) (hds : ds.regions = []) :
    ∃ ds', (regionBlocks s).foldl F (some ds) = some ds' ∧ ds'.cues = ds.cues ∧
      (∀ r, s.regions.any (·.id = r) = true → ds'.regions.any (·.id = r) = true) := by
  unfold regionBlocks
  by_cases he : s.regions.isEmpty = true
  · rw [if_pos he]
    refine ⟨ds, rfl, rfl, ?_⟩
    intro r hr
    have : s.regions = [] := by simpa using he
    rw [this] at hr
    cases hr
  · rw [if_neg he]
    have hne : s.regions ≠ [] := by intro e; rw [e] at he; exact he rfl
    have hperm : (VTT.sortDefs s.regions).Perm s.regions := List.mergeSort_perm _ _
    cases hsd : VTT.sortDefs s.regions with
    | nil => exact absurd hsd (sortDefs_ne hne)
    | cons d0 ds0 =>
      have hmem : ∀ d ∈ d0 :: ds0, d ∈ s.regions := by
        intro d hd; rw [← hsd] at hd; exact mem_sortDefs hd
      have hnd : ((d0 :: ds0).map (·.id)).Nodup := by
        rw [← hsd]; exact (hperm.map _).nodup_iff.mpr hF.nodup
      obtain ⟨rs, hrs, hblk⟩ := block_regionLines s ds0 d0 ds (fun d hd => hF.regs d (hmem d hd))
        (fun d hd => hW.regs d (hmem d hd)) hnd hds
      refine ⟨{ ds with regions := rs }, ?_, rfl, ?_⟩
      · simp only [List.foldl, F, regionLines, hsd]
        exact hblk
      · intro r hr
        simp only [List.any_eq_true, decide_eq_true_eq] at hr ⊢
        obtain ⟨d, hd, hid⟩ := hr
        have hd' : d ∈ d0 :: ds0 := by rw [← hsd]; exact hperm.mem_iff.mpr hd
        have : r ∈ rs.map (·.id) := by
          rw [hrs, ← hid]; exact List.mem_map_of_mem hd'
        obtain ⟨g, hg, hgid⟩ := List.mem_map.mp this
        exact ⟨g, hg, hgid⟩

/-- the header block list: the timestamp map line, if any -/
def hdrBlocks (s : Subs) : List (List Str) := if (VTT.tsmapLines s).isEmpty then [] else [VTT.tsmapLines s]

theorem fold_hdrBlocks (s : Subs) (hF : VTT.DocFacts s) (hW : W2Facts s) :
    ∃ ds', (hdrBlocks s).foldl F (some {}) = some ds' ∧ ds'.regions = [] ∧ ds'.cues = [] := by
  unfold hdrBlocks
  rcases tsmapLines_cases s hF.ts hW.ts with h | ⟨lv, m, n, h0, h1, hm, hn, _, h⟩
  · rw [h]; exact ⟨{}, rfl, rfl, rfl⟩
  · rw [h]
    obtain ⟨v, hv⟩ := block_tsLine lv h0 h1 m n hm hn
    refine ⟨{ tsmap := some v }, ?_, rfl, rfl⟩
    simp only [List.isEmpty_cons, Bool.false_eq_true, if_false, List.foldl, F]
    exact hv

/-- **the fold over all the blocks of the written document** -/
theorem fold_doc (s : Subs) (hok : VTT.DocOk s = true) (hx : docW2 s = true)
    (ht : ∀ it ∈ s.items, (cueText (it.lines.map VTT.lineBody) []).isSome = true) :
    ∃ ds', foldBlocks (hdrBlocks s ++ restBlocks s) = some ds' ∧ ds'.cues.map (·.lines) = s.items.map glOf := by
  have hF := VTT.docOk_facts hok
  have hW := docW2_facts hx
  obtain ⟨ds1, f1, r1, c1⟩ := fold_hdrBlocks s hF hW
  obtain ⟨ds2, f2, r2, c2⟩ := fold_styleBlocks s hF hW ds1
  obtain ⟨ds3, f3, c3, r3⟩ := fold_regionBlocks s hF hW ds2 (by rw [r2, r1])
  obtain ⟨ds4, f4, c4⟩ := fold_cues s s.items 0 ds3 hF.cues hW.cues (by have := hW.len; omega)
    (fun it hit r hr => r3 r (VTT.region_of_cueOk2 (hF.cues it hit) r hr)) ht
  refine ⟨ds4, ?_, ?_⟩
  · rw [foldBlocks_eq, restBlocks, List.foldl_append, List.foldl_append, List.foldl_append, f1, f2, f3, f4]
  · rw [c4, c3, c2, c1]; rfl

end VTT3W
end Astisub
