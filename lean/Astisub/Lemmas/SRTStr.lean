import Astisub.Lemmas.Str
import Astisub.Props.C01

/-!
# Lemmas/SRTStr — `strconv.Itoa` on every natural number, and the `-->` scanner

* Part 1: `itoaNat n` is a non-empty digit string whose value is `n`; `atoi`/`atoiLoose` read it back.
* Part 2: `strings.Contains(s, "-->")` as a three-state automaton (`scanArrow`/`arrowEnd`) that
  composes over concatenation.
* Part 3: HTML escaping is invisible to the automaton.
-/

namespace Astisub
namespace Go
open List

/-! ## Part 1 — `strconv.Itoa` -/

theorem digitsVal_pow_step (a P n : Nat) : (a * P + n / 10) * 10 + n % 10 = a * (P * 10) + n := by
  have h : a * (P * 10) = (a * P) * 10 := by rw [Nat.mul_assoc]
  rw [h]
  generalize a * P = X
  omega

theorem digitStr_singleton {k : Nat} (h : k < 10) : DigitStr [digitChar k] := by
  intro c hc
  simp at hc
  exact ⟨k, h, hc⟩

theorem DigitStr.append {s t : Str} (hs : DigitStr s) (ht : DigitStr t) : DigitStr (s ++ t) := by
  intro c hc
  rcases List.mem_append.mp hc with h | h
  · exact hs c h
  · exact ht c h

/-- the digits `itoaAux` puts in front of the accumulator -/
theorem itoaAux_spec : ∀ (fuel n : Nat) (acc : Str), n < fuel →
    ∃ s : Str, itoaAux fuel n acc = s ++ acc ∧ s ≠ [] ∧ DigitStr s ∧
      ∀ (a : Nat) (rest : Str), digitsVal (s ++ rest) a = digitsVal rest (a * 10 ^ s.length + n) := by
  intro fuel
  induction fuel with
  | zero => intro n acc h; omega
  | succ fuel ih =>
    intro n acc h
    by_cases hn : n < 10
    · refine ⟨[digitChar n], ?_, by simp, digitStr_singleton hn, ?_⟩
      · simp [itoaAux, hn]
      · intro a rest
        simp [digitsVal, digitVal_digitChar hn]
    · have hlt : n / 10 < fuel := by omega
      have hm : n % 10 < 10 := by omega
      obtain ⟨s', h1, _, h3, h4⟩ := ih (n / 10) (digitChar (n % 10) :: acc) hlt
      refine ⟨s' ++ [digitChar (n % 10)], ?_, by simp, h3.append (digitStr_singleton hm), ?_⟩
      · simp [itoaAux, hn, h1]
      · intro a rest
        have e : (s' ++ [digitChar (n % 10)]) ++ rest = s' ++ (digitChar (n % 10) :: rest) := by simp
        rw [e, h4]
        simp only [digitsVal, digitVal_digitChar hm, List.length_append, List.length_singleton,
          Nat.pow_succ]
        rw [digitsVal_pow_step]

theorem itoaNat_spec (n : Nat) :
    itoaNat n ≠ [] ∧ DigitStr (itoaNat n) ∧
      ∀ (a : Nat) (rest : Str),
        digitsVal (itoaNat n ++ rest) a = digitsVal rest (a * 10 ^ (itoaNat n).length + n) := by
  obtain ⟨s, h1, h2, h3, h4⟩ := itoaAux_spec (n + 1) n [] (by omega)
  have e : itoaNat n = s := by unfold itoaNat; rw [h1]; simp
  rw [e]
  exact ⟨h2, h3, h4⟩

theorem itoaNat_digits (n : Nat) : DigitStr (itoaNat n) := (itoaNat_spec n).2.1

theorem itoaNat_ne_nil (n : Nat) : itoaNat n ≠ [] := (itoaNat_spec n).1

/-- the digits of `n` followed by anything: the value read so far is shifted and `n` added -/
theorem digitsVal_itoaNat_append (n a : Nat) (rest : Str) :
    digitsVal (itoaNat n ++ rest) a = digitsVal rest (a * 10 ^ (itoaNat n).length + n) :=
  (itoaNat_spec n).2.2 a rest

theorem digitsVal_itoaNat (n : Nat) : digitsVal (itoaNat n) 0 = some n := by
  have h := digitsVal_itoaNat_append n 0 []
  simpa [digitsVal] using h

theorem parseDigits_itoaNat (n : Nat) : parseDigits (itoaNat n) = some n := by
  unfold parseDigits
  have h := itoaNat_ne_nil n
  have he : (itoaNat n).isEmpty = false := by
    cases hs : itoaNat n with
    | nil => exact absurd hs h
    | cons c cs => rfl
  simp [he, digitsVal_itoaNat]

/-- the first character of `itoaNat n` is a decimal digit -/
theorem itoaNat_head (n : Nat) : ∃ k cs, k < 10 ∧ itoaNat n = digitChar k :: cs := by
  cases hs : itoaNat n with
  | nil => exact absurd hs (itoaNat_ne_nil n)
  | cons c cs =>
    obtain ⟨k, hk, rfl⟩ := itoaNat_digits n c (by simp [hs])
    exact ⟨k, cs, hk, rfl⟩

theorem atoiLoose_itoaNat (n : Nat) (h : n ≤ int64Max) : atoiLoose (itoaNat n) = (n : Int) := by
  have hp := parseDigits_itoaNat n
  obtain ⟨k, cs, hk, hs⟩ := itoaNat_head n
  rw [hs] at hp ⊢
  unfold atoiLoose
  split
  · rename_i r heq; simp at heq; exact absurd heq.1 (by rw [digitChar_ne_minus hk]; exact id)
  · rename_i r heq; simp at heq; exact absurd heq.1 (by rw [digitChar_ne_plus hk]; exact id)
  · simp [hp, h]

theorem atoi_itoaNat (n : Nat) (h : n ≤ int64Max) : atoi (itoaNat n) = some (n : Int) := by
  have hp := parseDigits_itoaNat n
  obtain ⟨k, cs, hk, hs⟩ := itoaNat_head n
  rw [hs] at hp ⊢
  unfold atoi
  split
  · rename_i r heq; simp at heq; exact absurd heq.1 (by rw [digitChar_ne_minus hk]; exact id)
  · rename_i r heq; simp at heq; exact absurd heq.1 (by rw [digitChar_ne_plus hk]; exact id)
  · simp [hp, h]

/-! ## Part 2 — the `-->` automaton -/

/-- scan for "-->" having just seen `q` dashes (2 = two or more); `true` = found -/
def scanArrow : Nat → Str → Bool
  | _, [] => false
  | q, c :: cs =>
    if c = '-' then scanArrow (if q = 0 then 1 else 2) cs
    else if c = '>' ∧ 2 ≤ q then true
    else scanArrow 0 cs

/-- the state after the scan (meaningful when nothing was found) -/
def arrowEnd : Nat → Str → Nat
  | q, [] => q
  | q, c :: cs =>
    if c = '-' then arrowEnd (if q = 0 then 1 else 2) cs
    else arrowEnd 0 cs

@[simp] theorem scanArrow_nil (q : Nat) : scanArrow q [] = false := by simp [scanArrow]
@[simp] theorem arrowEnd_nil (q : Nat) : arrowEnd q [] = q := by simp [arrowEnd]

theorem scanArrow_dash (q : Nat) (cs : Str) :
    scanArrow q ('-' :: cs) = scanArrow (if q = 0 then 1 else 2) cs := by
  simp [scanArrow]

theorem scanArrow_gt (q : Nat) (cs : Str) :
    scanArrow q ('>' :: cs) = (decide (2 ≤ q) || scanArrow 0 cs) := by
  by_cases h : 2 ≤ q <;> simp [scanArrow, h]

theorem scanArrow_other (q : Nat) {c : Char} (cs : Str) (h1 : c ≠ '-') (h2 : c ≠ '>') :
    scanArrow q (c :: cs) = scanArrow 0 cs := by
  simp [scanArrow, h1, h2]

theorem arrowEnd_dash (q : Nat) (cs : Str) :
    arrowEnd q ('-' :: cs) = arrowEnd (if q = 0 then 1 else 2) cs := by
  simp [arrowEnd]

theorem arrowEnd_other (q : Nat) {c : Char} (cs : Str) (h1 : c ≠ '-') :
    arrowEnd q (c :: cs) = arrowEnd 0 cs := by
  simp [arrowEnd, h1]

/-- states 2, 3, 4, … are the same state -/
theorem scanArrow_ge2 (q : Nat) (s : Str) (h : 2 ≤ q) : scanArrow q s = scanArrow 2 s := by
  cases s with
  | nil => simp
  | cons c cs =>
    have h0 : q ≠ 0 := by omega
    simp [scanArrow, h, h0]

def arrowStr : Str := "-->".toList

theorem contains_arrow_aux (s : Str) :
    scanArrow 0 s = contains arrowStr s ∧
    scanArrow 1 s = (hasPrefix "->".toList s || contains arrowStr s) ∧
    scanArrow 2 s = (hasPrefix ">".toList s || hasPrefix "->".toList s || contains arrowStr s) := by
  induction s with
  | nil => simp [scanArrow, contains, hasPrefix, dropPrefix?, arrowStr]
  | cons c cs ih =>
    obtain ⟨ih0, ih1, ih2⟩ := ih
    by_cases h1 : c = '-'
    · subst h1
      simp [scanArrow, contains, hasPrefix, dropPrefix?, arrowStr] at ih0 ih1 ih2 ⊢
      simp [ih1, ih2, Bool.or_assoc]
    · by_cases h2 : c = '>'
      · subst h2
        simp [scanArrow, contains, hasPrefix, dropPrefix?, arrowStr] at ih0 ih1 ih2 ⊢
        simp [ih0]
      · have h1' : ¬ '-' = c := fun e => h1 e.symm
        have h2' : ¬ '>' = c := fun e => h2 e.symm
        simp [scanArrow, contains, hasPrefix, dropPrefix?, arrowStr, h1, h2, h1', h2'] at ih0 ih1 ih2 ⊢
        simp [ih0]

theorem contains_arrow_eq (s : Str) : contains "-->".toList s = scanArrow 0 s :=
  (contains_arrow_aux s).1.symm

theorem scanArrow_one_eq (s : Str) :
    scanArrow 1 s = (hasPrefix "->".toList s || contains "-->".toList s) :=
  (contains_arrow_aux s).2.1

theorem scanArrow_two_eq (s : Str) :
    scanArrow 2 s = (hasPrefix ">".toList s || hasPrefix "->".toList s || contains "-->".toList s) :=
  (contains_arrow_aux s).2.2

theorem scanArrow_append (q : Nat) (a b : Str) :
    scanArrow q (a ++ b) = (scanArrow q a || scanArrow (arrowEnd q a) b) := by
  induction a generalizing q with
  | nil => simp
  | cons c cs ih =>
    by_cases h1 : c = '-'
    · simp [scanArrow, arrowEnd, h1, ih]
    · by_cases h2 : c = '>' ∧ 2 ≤ q
      · simp [scanArrow, h2]
      · simp [scanArrow, arrowEnd, h1, h2, ih]

theorem arrowEnd_append (q : Nat) (a b : Str) :
    arrowEnd q (a ++ b) = arrowEnd (arrowEnd q a) b := by
  induction a generalizing q with
  | nil => simp
  | cons c cs ih =>
    by_cases h1 : c = '-'
    · simp [arrowEnd, h1, ih]
    · simp [arrowEnd, h1, ih]

theorem scanArrow_no_gt (q : Nat) (a : Str) (h : '>' ∉ a) : scanArrow q a = false := by
  induction a generalizing q with
  | nil => simp
  | cons c cs ih =>
    have hc : ¬ c = '>' := fun e => h (by simp [e])
    have hcs : '>' ∉ cs := fun e => h (by simp [e])
    by_cases h1 : c = '-'
    · simp [scanArrow, h1, ih _ hcs]
    · simp [scanArrow, h1, hc, ih _ hcs]

theorem scanArrow_zero_no_dash (a : Str) (h : '-' ∉ a) : scanArrow 0 a = false := by
  induction a with
  | nil => simp
  | cons c cs ih =>
    have hc : ¬ c = '-' := fun e => h (by simp [e])
    have hcs : '-' ∉ cs := fun e => h (by simp [e])
    simp [scanArrow, hc, ih hcs]

theorem scanArrow_no_dash (q : Nat) (a : Str) (h : '-' ∉ a) :
    scanArrow q a = (decide (2 ≤ q) && a.head? == some '>') := by
  cases a with
  | nil => simp
  | cons c cs =>
    have hc : ¬ c = '-' := fun e => h (by simp [e])
    have hcs : '-' ∉ cs := fun e => h (by simp [e])
    by_cases h2 : c = '>'
    · subst h2
      rw [scanArrow_gt, scanArrow_zero_no_dash cs hcs]
      simp
    · rw [scanArrow_other q cs hc h2, scanArrow_zero_no_dash cs hcs]
      simp [h2]

/-- no dash, and the text does not begin with `>`: nothing is found from any state -/
theorem scanArrow_no_dash_head (q : Nat) (a : Str) (h : '-' ∉ a) (hh : a.head? ≠ some '>') :
    scanArrow q a = false := by
  rw [scanArrow_no_dash q a h]
  simp [hh]

theorem arrowEnd_snoc (q : Nat) (a : Str) (c : Char) (h : c ≠ '-') : arrowEnd q (a ++ [c]) = 0 := by
  rw [arrowEnd_append, arrowEnd_other _ _ h, arrowEnd_nil]

theorem arrowEnd_snoc_dash (q : Nat) (a : Str) :
    arrowEnd q (a ++ ['-']) = (if arrowEnd q a = 0 then 1 else 2) := by
  rw [arrowEnd_append, arrowEnd_dash, arrowEnd_nil]

theorem arrowEnd_no_dash_last (q : Nat) (a : Str) (hne : a ≠ []) (hl : a.getLast? ≠ some '-') :
    arrowEnd q a = 0 := by
  cases hg : a.getLast? with
  | none => exact absurd (by simpa using hg) hne
  | some c =>
    obtain ⟨pre, hpre⟩ := List.getLast?_eq_some_iff.mp hg
    have hc : c ≠ '-' := fun e => hl (by rw [hg, e])
    rw [hpre]
    exact arrowEnd_snoc q pre c hc

/-- a non-empty text without dashes leaves the automaton in state 0 -/
theorem arrowEnd_no_dash (q : Nat) (a : Str) (hne : a ≠ []) (h : '-' ∉ a) : arrowEnd q a = 0 := by
  apply arrowEnd_no_dash_last q a hne
  intro hg
  exact h (List.mem_of_getLast? hg)

theorem arrowEnd_le2 (q : Nat) (a : Str) (h : q ≤ 2) : arrowEnd q a ≤ 2 := by
  induction a generalizing q with
  | nil => simpa using h
  | cons c cs ih =>
    by_cases h1 : c = '-'
    · rw [h1, arrowEnd_dash]; apply ih; split <;> omega
    · rw [arrowEnd_other _ _ h1]; exact ih 0 (by omega)

/-! ## Part 3 — HTML escaping is invisible to the automaton -/

theorem scanArrow_esc1 (q : Nat) (c : Char) (rest : Str) :
    scanArrow q (C01.esc1 c ++ rest) = scanArrow q (c :: rest) := by
  unfold C01.esc1
  by_cases h1 : c = '&'
  · subst h1; simp [scanArrow]
  · by_cases h2 : c = '<'
    · subst h2; simp [scanArrow]
    · by_cases h3 : c = C01.nbsp
      · subst h3; simp [scanArrow, C01.nbsp]
      · simp [h1, h2, h3]

theorem arrowEnd_esc1 (q : Nat) (c : Char) (rest : Str) :
    arrowEnd q (C01.esc1 c ++ rest) = arrowEnd q (c :: rest) := by
  unfold C01.esc1
  by_cases h1 : c = '&'
  · subst h1; simp [arrowEnd]
  · by_cases h2 : c = '<'
    · subst h2; simp [arrowEnd]
    · by_cases h3 : c = C01.nbsp
      · subst h3; simp [arrowEnd, C01.nbsp]
      · simp [h1, h2, h3]

theorem escapeHTML_cons (c : Char) (t : Str) :
    SRT.escapeHTML (c :: t) = C01.esc1 c ++ SRT.escapeHTML t := by
  simp [C01.escape_eq_flatMap]

theorem scanArrow_escape (q : Nat) (t rest : Str) :
    scanArrow q (SRT.escapeHTML t ++ rest) = scanArrow q (t ++ rest) := by
  induction t generalizing q with
  | nil => simp [C01.escape_eq_flatMap]
  | cons c cs ih =>
    rw [escapeHTML_cons, List.append_assoc, scanArrow_esc1, List.cons_append]
    by_cases h1 : c = '-'
    · simp [scanArrow, h1, ih]
    · by_cases h2 : c = '>' ∧ 2 ≤ q
      · simp [scanArrow, h2]
      · simp [scanArrow, h1, h2, ih]

theorem arrowEnd_escape_append (q : Nat) (t rest : Str) :
    arrowEnd q (SRT.escapeHTML t ++ rest) = arrowEnd q (t ++ rest) := by
  induction t generalizing q with
  | nil => simp [C01.escape_eq_flatMap]
  | cons c cs ih =>
    rw [escapeHTML_cons, List.append_assoc, arrowEnd_esc1, List.cons_append]
    by_cases h1 : c = '-'
    · simp [arrowEnd, h1, ih]
    · simp [arrowEnd, h1, ih]

theorem arrowEnd_escape (q : Nat) (t : Str) : arrowEnd q (SRT.escapeHTML t) = arrowEnd q t := by
  have h := arrowEnd_escape_append q t []
  simpa using h

end Go
end Astisub
