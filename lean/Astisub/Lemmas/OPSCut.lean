import Astisub.Lemmas.OpsFragment

/-!
# Lemmas/OPSCut — the inner loop of `Fragment` in closed form

`cutAt it bs` cuts `it` at the given (ascending) instants.  Both the loop model `Ops.cut` and
the executable specification `Spec.cutSpec` are `cutAt it (Spec.multiplesIn f start end)`,
hence equal; the number of pieces is `1 +` the number of multiples.
-/

namespace Astisub
namespace OPS
open Ops Spec List

/-- cut `it` at the instants `bs` (left to right): every cut emits a fresh copy ending at the
    instant and moves the start of the original there; the original comes last -/
def cutAt (it : Item) : List Int → List Item
  | [] => [it]
  | b :: bs => { it with uid := 0, endAt := b } :: cutAt { it with startAt := b } bs

theorem cutAt_length (it : Item) (bs : List Int) : (cutAt it bs).length = 1 + bs.length := by
  induction bs generalizing it with
  | nil => rfl
  | cons b bs ih => simp only [cutAt, length_cons, ih]; omega

/-- the multiples `(k+0)·f, (k+1)·f, …` (`n` of them) -/
def mults (f k : Int) (n : Nat) : List Int := (List.range n).map (fun (i : Nat) => (k + Int.ofNat i) * f)

theorem mults_zero (f k : Int) : mults f k 0 = [] := rfl

theorem mults_succ (f k : Int) (n : Nat) : mults f k (n + 1) = k * f :: mults f (k + 1) n := by
  unfold mults
  rw [range_succ_eq_map, map_cons, map_map]
  congr 1
  · simp
  · apply map_congr_left
    intro i _
    simp only [Function.comp, Int.ofNat_eq_natCast, Nat.succ_eq_add_one, Int.natCast_add, Int.cast_ofNat_Int]
    congr 1
    omega

theorem multiplesIn_eq (f s e : Int) :
    multiplesIn f s e = mults f (s / f + 1) ((e - 1) / f - (s / f + 1) + 1).toNat := rfl

/-- `k·f < e ↔ k ≤ (e-1)/f` -/
theorem mul_lt_iff_le_div {f : Int} (hf : 0 < f) (k e : Int) : k * f < e ↔ k ≤ (e - 1) / f := by
  rw [Int.le_ediv_iff_mul_le hf]
  omega

/-- the loop, started at the multiple `k·f`, cuts at the multiples `k·f, (k+1)·f, … < end` -/
theorem cutLoop_eq_cutAt (f : Int) (hf : 0 < f) (fuel : Nat) (it : Item) (k : Int)
    (hfuel : (it.endAt - k * f).toNat < fuel) :
    cutLoop f fuel it (k * f) = cutAt it (mults f k ((it.endAt - 1) / f - k + 1).toNat) := by
  induction fuel generalizing it k with
  | zero => omega
  | succ fuel ih =>
    unfold cutLoop
    have hiff := mul_lt_iff_le_div hf k it.endAt
    by_cases hlt : k * f < it.endAt
    · simp only [hlt, ↓reduceIte]
      have hk : k ≤ (it.endAt - 1) / f := hiff.mp hlt
      have hN : ((it.endAt - 1) / f - k + 1).toNat = ((it.endAt - 1) / f - (k + 1) + 1).toNat + 1 := by
        omega
      rw [hN, mults_succ, cutAt]
      have hkf : (k + 1) * f = k * f + f := by rw [Int.add_mul]; omega
      rw [← hkf]
      have := ih { it with startAt := k * f } (k + 1) (by simp only; rw [hkf]; omega)
      rw [this]
    · simp only [hlt, ↓reduceIte]
      have hk : ¬ k ≤ (it.endAt - 1) / f := fun h => hlt (hiff.mpr h)
      have hN : ((it.endAt - 1) / f - k + 1).toNat = 0 := by omega
      rw [hN, mults_zero, cutAt]

/-- `firstBoundary f s` is the multiple number `s / f + 1` (floor division) -/
theorem firstBoundary_eq (f s : Int) (hf : 0 < f) : firstBoundary f s = (s / f + 1) * f := by
  obtain ⟨⟨m, hm⟩, h1, h2⟩ := firstBoundary_spec f s hf
  rw [hm] at h1 h2 ⊢
  have hdiv : s / f = m - 1 := by
    have hlo : m - 1 ≤ s / f := by
      rw [Int.le_ediv_iff_mul_le hf, Int.sub_mul]; omega
    have hhi : s / f < m := by
      rw [Int.ediv_lt_iff_lt_mul hf]; exact h2
    omega
  rw [hdiv]
  congr 1
  omega

/-- the loop model of the inner loop of `Fragment` cuts exactly at the multiples of `f` strictly
    inside the cue -/
theorem cut_eq_cutAt (f : Int) (hf : 0 < f) (it : Item) :
    cut f it = cutAt it (multiplesIn f it.startAt it.endAt) := by
  unfold cut
  simp only
  rw [firstBoundary_eq f _ hf, multiplesIn_eq]
  exact cutLoop_eq_cutAt f hf _ it _ (by omega)

/-- the zip/zipIdx form used by `Spec.cutSpec`, for any cut list -/
theorem zipForm_eq_cutAt (it : Item) (bs : List Int) (s : Int) (k n : Nat) (hn : n = k + bs.length) :
    ((List.zip (s :: bs) (bs ++ [it.endAt])).zipIdx k).map
        (fun (x : (Int × Int) × Nat) =>
          ({ it with uid := if x.2 = n then it.uid else 0, startAt := x.1.1, endAt := x.1.2 } : Item))
      = cutAt { it with startAt := s } bs := by
  induction bs generalizing s k with
  | nil =>
    simp only [length_nil, Nat.add_zero] at hn
    subst hn
    simp [cutAt]
  | cons b bs ih =>
    simp only [length_cons] at hn
    have hk : k ≠ n := by omega
    simp only [cons_append, zip_cons_cons, zipIdx_cons, map_cons, cutAt, hk, ↓reduceIte]
    congr 1
    exact ih b (k + 1) (by omega)

/-- the loop model and the executable specification of the inner loop agree -/
theorem cut_eq_cutSpec (f : Int) (hf : 0 < f) (it : Item) : cut f it = cutSpec f it := by
  rw [cut_eq_cutAt f hf]
  unfold cutSpec
  simp only
  have := zipForm_eq_cutAt it (multiplesIn f it.startAt it.endAt) it.startAt 0 _ (Nat.zero_add _).symm
  exact this.symm

/-- `multiplesIn f s e` lists exactly the multiples of `f` strictly between `s` and `e` … -/
theorem mem_multiplesIn (f : Int) (hf : 0 < f) (s e m : Int) :
    m ∈ multiplesIn f s e ↔ isMultiple f m ∧ s < m ∧ m < e := by
  rw [multiplesIn_eq]
  unfold mults
  simp only [mem_map, mem_range, Int.ofNat_eq_natCast]
  constructor
  · rintro ⟨i, hi, rfl⟩
    have h0 := Int.lt_ediv_add_one_mul_self s hf
    have hmono : (s / f + 1) * f ≤ (s / f + 1 + (i : Int)) * f :=
      Int.mul_le_mul_of_nonneg_right (by omega) (by omega)
    refine ⟨⟨_, rfl⟩, by omega, ?_⟩
    rw [mul_lt_iff_le_div hf]
    omega
  · rintro ⟨⟨j, rfl⟩, h1, h2⟩
    have hj1 : s / f < j := (Int.ediv_lt_iff_lt_mul hf).mpr h1
    have hj2 : j ≤ (e - 1) / f := (mul_lt_iff_le_div hf j e).mp h2
    refine ⟨(j - (s / f + 1)).toNat, by omega, ?_⟩
    congr 1
    omega

/-- … each once, in ascending order (so its length is their number) -/
theorem multiplesIn_increasing (f : Int) (hf : 0 < f) (s e : Int) :
    (multiplesIn f s e).Pairwise (· < ·) := by
  rw [multiplesIn_eq]
  unfold mults
  rw [pairwise_map]
  refine (pairwise_lt_range).imp ?_
  intro i j hij
  simp only [Int.ofNat_eq_natCast]
  exact Int.mul_lt_mul_of_pos_right (by omega) hf

/-- the executable order test of the specification is `Pairwise` on starts -/
theorem sortedByStart_iff (ys : List Item) :
    sortedByStart ys = true ↔ ys.Pairwise (fun a b => a.startAt ≤ b.startAt) := by
  induction ys with
  | nil => simp [sortedByStart]
  | cons y rest ih =>
    simp only [sortedByStart, Bool.and_eq_true, all_eq_true, decide_eq_true_eq, pairwise_cons, ih]

end OPS
end Astisub
